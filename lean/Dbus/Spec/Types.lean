import Dbus.Spec.Chars
/-
  The D-Bus type system ("Type System" chapter of the specification) and signatures.

  `Ty.dict k v` is the type written `a{kv}`: the specification allows a dict entry only as
  the element type of an array, with a basic key; making that structural removes the side
  condition from every statement about types.
-/
namespace Dbus.Spec
open Dbus

inductive BTy
  | byte | bool | i16 | u16 | i32 | u32 | i64 | u64 | dbl | str | path | sig | fd
  deriving DecidableEq, Repr, Inhabited

inductive Ty
  | basic (b : BTy)
  | variant
  | array (e : Ty)
  | struct (fs : List Ty)
  | dict (k : BTy) (v : Ty)
  deriving Repr, Inhabited

def BTy.code : BTy → UInt8
  | .byte => 0x79 | .bool => 0x62 | .i16 => 0x6e | .u16 => 0x71 | .i32 => 0x69 | .u32 => 0x75
  | .i64 => 0x78 | .u64 => 0x74 | .dbl => 0x64 | .str => 0x73 | .path => 0x6f | .sig => 0x67
  | .fd => 0x68

def C_ARRAY : UInt8 := 0x61
def C_VARIANT : UInt8 := 0x76
def C_LPAREN : UInt8 := 0x28
def C_RPAREN : UInt8 := 0x29
def C_LBRACE : UInt8 := 0x7b
def C_RBRACE : UInt8 := 0x7d

mutual
/-- the signature text of a single complete type -/
def Ty.print : Ty → Bytes
  | .basic b => [b.code]
  | .variant => [C_VARIANT]
  | .array e => C_ARRAY :: e.print
  | .struct fs => C_LPAREN :: (printList fs ++ [C_RPAREN])
  | .dict k v => C_ARRAY :: C_LBRACE :: k.code :: (v.print ++ [C_RBRACE])
def printList : List Ty → Bytes
  | [] => []
  | t :: ts => t.print ++ printList ts
end

mutual
/-- structs have at least one field -/
def Ty.WF : Ty → Prop
  | .basic _ => True
  | .variant => True
  | .array e => e.WF
  | .struct fs => fs ≠ [] ∧ WFList fs
  | .dict _ v => v.WF
def WFList : List Ty → Prop
  | [] => True
  | t :: ts => t.WF ∧ WFList ts
end

mutual
/-- depth of array nesting (a dict is an array) -/
def Ty.arrayDepth : Ty → Nat
  | .basic _ => 0
  | .variant => 0
  | .array e => e.arrayDepth + 1
  | .struct fs => arrayDepthList fs
  | .dict _ v => v.arrayDepth + 1
def arrayDepthList : List Ty → Nat
  | [] => 0
  | t :: ts => max t.arrayDepth (arrayDepthList ts)
end

mutual
/-- depth of struct nesting ("open parentheses") -/
def Ty.structDepth : Ty → Nat
  | .basic _ => 0
  | .variant => 0
  | .array e => e.structDepth
  | .struct fs => structDepthList fs + 1
  | .dict _ v => v.structDepth
def structDepthList : List Ty → Nat
  | [] => 0
  | t :: ts => max t.structDepth (structDepthList ts)
end

mutual
/-- depth of dict-entry nesting (counted separately by the reference; the text is silent) -/
def Ty.dictDepth : Ty → Nat
  | .basic _ => 0
  | .variant => 0
  | .array e => e.dictDepth
  | .struct fs => dictDepthList fs
  | .dict _ v => v.dictDepth + 1
def dictDepthList : List Ty → Nat
  | [] => 0
  | t :: ts => max t.dictDepth (dictDepthList ts)
end

/-- number of leading `a` type codes of the printed type -/
def Ty.lead : Ty → Nat
  | .array e => e.lead + 1
  | .dict _ _ => 1
  | _ => 0

mutual
/-- longest run of *consecutive* `a` codes anywhere in the type — what the reference
    implementation bounds by 32 instead of the array nesting depth (known finding K2) -/
def Ty.maxRun : Ty → Nat
  | .basic _ => 0
  | .variant => 0
  | .array e => max (e.lead + 1) e.maxRun
  | .struct fs => maxRunList fs
  | .dict _ v => max 1 v.maxRun
def maxRunList : List Ty → Nat
  | [] => 0
  | t :: ts => max t.maxRun (maxRunList ts)
end

/-- the specification's limits: 32 arrays, 32 structs (and 32 dict entries) of nesting -/
def Ty.DepthOK (t : Ty) : Prop :=
  t.arrayDepth ≤ MAX_TYPE_DEPTH ∧ t.structDepth ≤ MAX_TYPE_DEPTH ∧ t.dictDepth ≤ MAX_TYPE_DEPTH

/-- what the reference enforces -/
def Ty.DepthLax (t : Ty) : Prop :=
  t.maxRun ≤ MAX_TYPE_DEPTH ∧ t.structDepth ≤ MAX_TYPE_DEPTH ∧ t.dictDepth ≤ MAX_TYPE_DEPTH

/-- a signature: zero or more single complete types, at most 255 bytes -/
def SpecSignature (bs : Bytes) : Prop :=
  bs.length ≤ MAX_SIGNATURE_LENGTH ∧
    ∃ ts : List Ty, bs = printList ts ∧ WFList ts ∧ ∀ t ∈ ts, t.DepthOK

/-- known finding K2: accepted although some type nests more than 32 arrays, because the
    arrays are separated by struct or dict-entry brackets (`a(a(a(…`) -/
def ArrayDepthLaxity (bs : Bytes) : Prop :=
  bs.length ≤ MAX_SIGNATURE_LENGTH ∧
    ∃ ts : List Ty, bs = printList ts ∧ WFList ts ∧ (∀ t ∈ ts, t.DepthLax) ∧
      ∃ t ∈ ts, MAX_TYPE_DEPTH < t.arrayDepth

/-- exactly one single complete type -/
def SpecSingle (bs : Bytes) : Prop :=
  bs.length ≤ MAX_SIGNATURE_LENGTH ∧ ∃ t : Ty, bs = t.print ∧ t.WF ∧ t.DepthOK

end Dbus.Spec

namespace Dbus.Spec
open Dbus

/-- alignment of a basic type (specification, "Summary of types") -/
def BTy.align : BTy → Nat
  | .byte => 1 | .bool => 4 | .i16 => 2 | .u16 => 2 | .i32 => 4 | .u32 => 4 | .fd => 4
  | .i64 => 8 | .u64 => 8 | .dbl => 8 | .str => 4 | .path => 4 | .sig => 1

/-- fixed-size basic types and their size -/
def BTy.fixedSize : BTy → Option Nat
  | .byte => some 1 | .bool => some 4 | .i16 => some 2 | .u16 => some 2 | .i32 => some 4
  | .u32 => some 4 | .fd => some 4 | .i64 => some 8 | .u64 => some 8 | .dbl => some 8
  | .str => none | .path => none | .sig => none

def Ty.align : Ty → Nat
  | .basic b => b.align
  | .variant => 1
  | .array _ => 4
  | .struct _ => 8
  | .dict _ _ => 4

/-- (valid, basic, fixed, container, alignment) of a type code, as the library's
    `dbus_type_is_*`/alignment functions must report it; all-zero for a non-type code.
    `r` (114) and `e` (101) are the struct / dict-entry codes used by the API. -/
def typeInfo (c : Nat) : Nat × Nat × Nat × Nat × Nat :=
  match allBasicCodes.find? (fun b => b.code.toNat == c) with
  | some b => (1, 1, if b.fixedSize.isSome then 1 else 0, 0, b.align)
  | none =>
    if c = 0x61 then (1, 0, 0, 1, 4)
    else if c = 0x76 then (1, 0, 0, 1, 1)
    else if c = 114 ∨ c = 101 then (1, 0, 0, 1, 8)
    else (0, 0, 0, 0, 0)
where allBasicCodes : List BTy :=
  [.byte, .bool, .i16, .u16, .i32, .u32, .i64, .u64, .dbl, .str, .path, .sig, .fd]

def MAX_ARRAY_LENGTH : Nat := 67108864      -- 2^26
def MAX_MESSAGE_LENGTH : Nat := 134217728   -- 2^27

end Dbus.Spec
