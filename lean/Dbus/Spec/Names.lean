import Dbus.Basic
/-
  The name-ownership rules of the D-Bus specification ("Message Bus Messages":
  org.freedesktop.DBus.RequestName / ReleaseName), written from the text of
  doc/dbus-specification.xml, not from the code.

  A name has a queue of potential owners; the head is the primary owner.  Each entry remembers
  the ALLOW_REPLACEMENT and DO_NOT_QUEUE settings of its latest RequestName.
-/
namespace Dbus.Spec.Names

structure Entry where
  conn : Nat
  allowRepl : Bool
  noQueue : Bool
  deriving DecidableEq, Repr, Inhabited

abbrev Queue := List Entry

def primary (q : Queue) : Option Nat := q.head?.map (·.conn)
def member (q : Queue) (c : Nat) : Bool := q.any (·.conn == c)

/-- rules 1–4 of RequestName: where the caller ends up -/
def place (q : Queue) (c : Nat) (allow replace noQueue : Bool) : Queue :=
  let e : Entry := { conn := c, allowRepl := allow, noQueue := noQueue }
  match q with
  | [] => [e]
  | p :: rest =>
    if p.conn == c then e :: rest                                                    -- 1: flags updated
    else if p.allowRepl && replace then e :: p :: rest.filter (·.conn != c)           -- 2: replaces; old primary second
    else if member rest c then p :: rest.map (fun x => if x.conn == c then e else x)  -- 3: flags updated in place
    else p :: (rest ++ [e])                                                           -- 4: appended

/-- rule 5: anyone but the primary owner who set DO_NOT_QUEUE leaves the queue -/
def prune : Queue → Queue
  | [] => []
  | h :: t => h :: t.filter (fun x => !x.noQueue)

def requestName (q : Queue) (c : Nat) (allow replace noQueue : Bool) : Queue :=
  prune (place q c allow replace noQueue)

/-- reply codes: 1 PRIMARY_OWNER, 2 IN_QUEUE, 3 EXISTS, 4 ALREADY_OWNER -/
def requestReply (q : Queue) (c : Nat) (allow replace noQueue : Bool) : Nat :=
  if primary q == some c then 4
  else
    let q' := requestName q c allow replace noQueue
    if primary q' == some c then 1 else if member q' c then 2 else 3

/-- ReleaseName: the caller leaves the queue wherever it is -/
def releaseName (q : Queue) (c : Nat) : Queue := q.filter (·.conn != c)

/-- reply codes: 1 RELEASED, 2 NON_EXISTENT, 3 NOT_OWNER -/
def releaseReply (q : Queue) (c : Nat) : Nat :=
  if q.isEmpty then 2 else if member q c then 1 else 3

inductive Signal
  | nameLost (to : Nat)
  | nameOwnerChanged (old new : Option Nat)
  | nameAcquired (to : Nat)
  deriving DecidableEq, Repr

/-- the signals a change of primary owner calls for: NameLost to the old owner,
    NameOwnerChanged to everybody, NameAcquired to the new owner; nothing when it does not change -/
def signals (old new : Option Nat) : List Signal :=
  if old == new then []
  else (match old with | some o => [Signal.nameLost o] | none => []) ++
       [Signal.nameOwnerChanged old new] ++
       (match new with | some n => [Signal.nameAcquired n] | none => [])

end Dbus.Spec.Names
