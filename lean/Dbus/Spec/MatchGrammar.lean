import Dbus.Basic
/-
  The text form of a match rule (specification, "Match Rules"): items `key=value` separated by
  commas. A value is written as a sequence of pieces: plain characters, pieces between
  apostrophes (taken verbatim: commas, backslashes, blanks), `\'` for an apostrophe outside
  apostrophes; a backslash in front of anything else stands for itself. White space may
  surround a key, not a value (it is part of the value). Written independently of the
  tokenizer (`bus/signals.c`): this is a *generator* of rule texts together with their meaning,
  the tokenizer is a scanner; `Props/C07.lean` proves that the scanner accepts exactly the
  generated texts and reads the generated meaning.
-/
namespace Dbus.Spec.MatchGrammar
open Dbus

def White (c : UInt8) : Prop := c = 0x20 ∨ c = 0x09 ∨ c = 0x0a ∨ c = 0x0d

/-- a piece of a value as written -/
inductive Seg
  | plain (c : UInt8)          -- any character but apostrophe, comma, backslash
  | escApos                    -- \'  : an apostrophe
  | escOther (c : UInt8)       -- \c  : a backslash and c (c no apostrophe; c may be a comma)
  | quoted (v : Bytes)         -- 'v' : v verbatim (no apostrophe inside)

def Seg.WF : Seg → Prop
  | .plain c => c ≠ 0x27 ∧ c ≠ 0x2c ∧ c ≠ 0x5c
  | .escApos => True
  | .escOther c => c ≠ 0x27
  | .quoted v => ∀ c ∈ v, c ≠ 0x27

def Seg.written : Seg → Bytes
  | .plain c => [c]
  | .escApos => [0x5c, 0x27]
  | .escOther c => [0x5c, c]
  | .quoted v => 0x27 :: (v ++ [0x27])

def Seg.meaning : Seg → Bytes
  | .plain c => [c]
  | .escApos => [0x27]
  | .escOther c => [0x5c, c]
  | .quoted v => v

def written (segs : List Seg) : Bytes := segs.flatMap Seg.written
def meaning (segs : List Seg) : Bytes := segs.flatMap Seg.meaning

/-- a backslash that is the very last character of the text stands for itself -/
def trail (t : Bool) : Bytes := if t then [0x5c] else []

/-- one `key=value` item: blanks, the key, blanks, `=`, the pieces of the value -/
structure Item where
  pre : Bytes
  key : Bytes
  mid : Bytes
  segs : List Seg

def Item.WF (i : Item) : Prop :=
  (∀ c ∈ i.pre, White c) ∧ i.key ≠ [] ∧ (∀ c ∈ i.key, c ≠ 0x3d ∧ ¬ White c) ∧
  (∀ c ∈ i.mid, White c) ∧ ∀ g ∈ i.segs, g.WF

def Item.written (i : Item) : Bytes := i.pre ++ (i.key ++ (i.mid ++ 0x3d :: MatchGrammar.written i.segs))
def Item.value (i : Item) : Bytes := MatchGrammar.meaning i.segs

/-- `RuleText s kvs`: the text `s` is a rule whose items mean the key/value pairs `kvs`, in
    order. A text of blanks only is the empty rule; blanks may follow a final comma. -/
inductive RuleText : Bytes → List (Bytes × Bytes) → Prop
  | blank (ws : Bytes) (h : ∀ c ∈ ws, White c) : RuleText ws []
  | last (i : Item) (t : Bool) (h : i.WF) :
      RuleText (i.written ++ trail t) [(i.key, i.value ++ trail t)]
  | more (i : Item) (h : i.WF) (rest : Bytes) (kvs : List (Bytes × Bytes)) (hr : RuleText rest kvs) :
      RuleText (i.written ++ 0x2c :: rest) ((i.key, i.value) :: kvs)

/-- the same with the tokenizer's bound made explicit: at most `n` items are read; whatever
    follows the comma after the `n`-th item is not looked at (`cut`) -/
inductive RuleTextN : Nat → Bytes → List (Bytes × Bytes) → Prop
  | cut (s : Bytes) : RuleTextN 0 s []
  | blank (n : Nat) (ws : Bytes) (h : ∀ c ∈ ws, White c) : RuleTextN n ws []
  | last (n : Nat) (i : Item) (t : Bool) (h : i.WF) :
      RuleTextN (n + 1) (i.written ++ trail t) [(i.key, i.value ++ trail t)]
  | more (n : Nat) (i : Item) (h : i.WF) (rest : Bytes) (kvs : List (Bytes × Bytes))
      (hr : RuleTextN n rest kvs) :
      RuleTextN (n + 1) (i.written ++ 0x2c :: rest) ((i.key, i.value) :: kvs)

end Dbus.Spec.MatchGrammar
