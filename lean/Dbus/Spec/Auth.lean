import Dbus.Model.Auth
/-
  The server side of the authentication protocol as the D-Bus specification describes it
  ("Authentication state diagrams", server states): which reply line and which successor state
  a command may produce in each state.  Written from the specification's text, independently of
  the model of dbus-auth.c; `Dbus.Props.C08.conforms_to_specification` relates the two.
-/
namespace Dbus.Spec.Auth
open Dbus Dbus.Model.Auth

/-- the reply line a piece of server output starts with -/
inductive Kind | none | rejected | error | ok | data | agree
deriving DecidableEq, Repr

def kindOf (r : Bytes) : Kind :=
  match r.head? with
  | some 0x52 => .rejected      -- REJECTED
  | some 0x45 => .error         -- ERROR
  | some 0x4f => .ok            -- OK
  | some 0x44 => .data          -- DATA
  | some 0x41 => .agree         -- AGREE_UNIX_FD
  | _ => .none

/-- after REJECTED the server waits for another AUTH, or gives up and disconnects -/
def rejectedTo (p' : Phase) : Bool := p' = .waitingForAuth || p' = .needDisconnect

/-- what a mechanism may answer: REJECTED, a challenge (DATA), or OK -/
def mechReplies (k : Kind) (p' : Phase) : Bool :=
  (k = .rejected && rejectedTo p') || (k = .data && p' = .waitingForData) || (k = .ok && p' = .waitingForBegin)

def specAllows (p : Phase) (c : Cmd) (k : Kind) (p' : Phase) : Bool :=
  match p, c with
  -- WaitingForAuth: AUTH → REJECTED | DATA | OK (ERROR for arguments that cannot be decoded);
  -- BEGIN → terminate; ERROR → REJECTED; anything else → ERROR
  | .waitingForAuth, .auth => mechReplies k p' || (k = .error && p' = .waitingForAuth)
  | .waitingForAuth, .begin => k = .none && p' = .needDisconnect
  | .waitingForAuth, .error => k = .rejected && rejectedTo p'
  | .waitingForAuth, _ => k = .error && p' = .waitingForAuth
  -- WaitingForData: DATA → REJECTED | DATA | OK; BEGIN → terminate; CANCEL, ERROR → REJECTED; else ERROR
  | .waitingForData, .data => mechReplies k p' || (k = .error && p' = .waitingForData)
  | .waitingForData, .begin => k = .none && p' = .needDisconnect
  | .waitingForData, .cancel => k = .rejected && rejectedTo p'
  | .waitingForData, .error => k = .rejected && rejectedTo p'
  | .waitingForData, _ => k = .error && p' = .waitingForData
  -- WaitingForBegin: BEGIN → authenticated; CANCEL, ERROR → REJECTED; NEGOTIATE_UNIX_FD → AGREE_UNIX_FD | ERROR;
  -- anything else → ERROR
  | .waitingForBegin, .begin => k = .none && p' = .authenticated
  | .waitingForBegin, .cancel => k = .rejected && rejectedTo p'
  | .waitingForBegin, .error => k = .rejected && rejectedTo p'
  | .waitingForBegin, .negotiateFd => (k = .agree || k = .error) && p' = .waitingForBegin
  | .waitingForBegin, _ => k = .error && p' = .waitingForBegin
  | _, _ => false

end Dbus.Spec.Auth
