import Dbus.Spec.Chars
/-
  Grammars of the specification as predicates on byte strings.

  * "Interface names": composed of 2 or more elements separated by '.', each element
    non-empty, `[A-Z][a-z][0-9]_`, not beginning with a digit; at most 255 bytes.
  * "Error names": same as interface names.
  * "Member names": one such element; at most 255 bytes.
  * "Bus names": unique names begin with ':' and the rest is 2+ elements which *may*
    begin with a digit; well-known names are 2+ elements not beginning with a digit;
    elements additionally allow '-'; at most 255 bytes.
  * "Valid object paths": "/" or one or more of "/" element, element non-empty over
    `[A-Z][a-z][0-9]_`; no trailing slash; no length limit.
-/
namespace Dbus.Spec
open Dbus

/-- one element: first character in `ini`, the others in `chr` -/
def IsElement (ini chr : UInt8 → Bool) (e : Bytes) : Prop :=
  ∃ c cs, e = c :: cs ∧ ini c = true ∧ ∀ x ∈ cs, chr x = true

/-- at least `n` elements separated by single dots -/
def IsDotted (ini chr : UInt8 → Bool) (n : Nat) (s : Bytes) : Prop :=
  ∃ els : List Bytes, n ≤ els.length ∧ els ≠ [] ∧ (∀ e ∈ els, IsElement ini chr e) ∧
    s = [DOT].intercalate els

def SpecMember (s : Bytes) : Prop :=
  s.length ≤ MAX_NAME_LENGTH ∧ IsElement isInitialNameChar isNameChar s

def SpecInterface (s : Bytes) : Prop :=
  s.length ≤ MAX_NAME_LENGTH ∧ IsDotted isInitialNameChar isNameChar 2 s

def SpecErrorName (s : Bytes) : Prop := SpecInterface s

def SpecWellKnownName (s : Bytes) : Prop :=
  s.length ≤ MAX_NAME_LENGTH ∧ IsDotted isInitialBusNameChar isBusNameChar 2 s

def SpecUniqueName (s : Bytes) : Prop :=
  s.length ≤ MAX_NAME_LENGTH ∧ ∃ t, s = COLON :: t ∧ IsDotted isBusNameChar isBusNameChar 2 t

def SpecBusName (s : Bytes) : Prop := SpecWellKnownName s ∨ SpecUniqueName s

/-- What the reference implementation accepts after a leading ':' (known finding K1): a
    *possibly empty* first element followed by *any number* (including none) of
    '.'-prefixed non-empty elements — so `:`, `:a` (no dot) and `:.a` (empty first
    element) pass, which the specification's "two or more non-empty elements" excludes. -/
def LaxUniqueTail (t : Bytes) : Prop :=
  ∃ (t0 : Bytes) (els : List Bytes), (∀ x ∈ t0, isBusNameChar x = true) ∧
    (∀ e ∈ els, IsElement isBusNameChar isBusNameChar e) ∧ t = t0 ++ els.flatMap (DOT :: ·)

def UniqueNameLaxity (s : Bytes) : Prop :=
  s.length ≤ MAX_NAME_LENGTH ∧ ∃ t, s = COLON :: t ∧ LaxUniqueTail t ∧
    ¬ IsDotted isBusNameChar isBusNameChar 2 t

/-- bus-name *prefix* as used by `arg0namespace`: one element is enough -/
def SpecBusNamespace (s : Bytes) : Prop :=
  s.length ≤ MAX_NAME_LENGTH ∧
    (IsDotted isInitialBusNameChar isBusNameChar 1 s ∨ ∃ t, s = COLON :: t ∧ LaxUniqueTail t)

def SpecPath (s : Bytes) : Prop :=
  s = [SLASH] ∨
  ∃ els : List Bytes, els ≠ [] ∧ (∀ e ∈ els, e ≠ [] ∧ ∀ c ∈ e, isNameChar c = true) ∧
    s = els.flatMap (SLASH :: ·)

end Dbus.Spec
