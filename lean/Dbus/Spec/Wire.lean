import Dbus.Spec.Types
import Dbus.Spec.Grammar
import Dbus.Spec.Utf8
/-
  The D-Bus wire format ("Marshaling (Wire Format)" in the specification) as an *encoder*:
  values are trees, `encode` lays them out from an absolute offset with zero padding to each
  type's alignment, little- or big-endian.  What is valid on the wire is then "the encoding of
  a well-formed value" — an independent statement the decoder model is proved against.
-/
namespace Dbus.Spec
open Dbus

inductive Endian | little | big
  deriving DecidableEq, Repr, Inhabited

/-- size in bytes of a fixed-size basic type (0 for the string-like ones) -/
def BTy.size (b : BTy) : Nat := (b.fixedSize).getD 0

def BTy.isFixed (b : BTy) : Bool := b.fixedSize.isSome
def BTy.isStringLike (b : BTy) : Bool := !b.isFixed

/-- Values. Fixed-size basic values carry their raw bit pattern as a natural number (so
    doubles are 64-bit patterns, signedness is a matter of printing). -/
inductive Val
  | fixed (b : BTy) (n : Nat)
  | str (b : BTy) (s : Bytes)                       -- STRING / OBJECT_PATH / SIGNATURE contents
  | variant (t : Ty) (v : Val)
  | array (e : Ty) (vs : List Val)
  | struct (vs : List Val)
  | dict (k : BTy) (vt : Ty) (es : List (Val × Val))
  deriving Inhabited

/-- little-endian bytes of `n`, exactly `k` of them -/
def encLE : Nat → Nat → Bytes
  | 0, _ => []
  | k + 1, n => UInt8.ofNat (n % 256) :: encLE k (n / 256)

def decLE : Bytes → Nat
  | [] => 0
  | b :: bs => b.toNat + 256 * decLE bs

def encNat (e : Endian) (k n : Nat) : Bytes :=
  match e with
  | .little => encLE k n
  | .big => (encLE k n).reverse

def decNat (e : Endian) (bs : Bytes) : Nat :=
  match e with
  | .little => decLE bs
  | .big => decLE bs.reverse

/-- number of padding bytes needed at absolute offset `off` for alignment `a` -/
def padLen (off a : Nat) : Nat := (a - off % a) % a

def pad (off a : Nat) : Bytes := List.replicate (padLen off a) 0

mutual
/-- the wire image of a value placed at absolute offset `off` -/
def encode (e : Endian) : Nat → Val → Bytes
  | off, .fixed b n => pad off b.align ++ encNat e b.size n
  | off, .str b s =>
    if b = .sig then UInt8.ofNat s.length :: (s ++ [0])
    else pad off 4 ++ (encNat e 4 s.length ++ (s ++ [0]))
  | off, .variant t v =>
    let hdr : Bytes := UInt8.ofNat t.print.length :: (t.print ++ [0])
    hdr ++ (pad (off + hdr.length) t.align ++
      encode e (off + hdr.length + padLen (off + hdr.length) t.align) v)
  | off, .array et vs =>
    let o1 := off + padLen off 4 + 4
    let o2 := o1 + padLen o1 et.align
    pad off 4 ++ (encNat e 4 (encodeList e o2 vs).length ++ (pad o1 et.align ++ encodeList e o2 vs))
  | off, .struct vs => pad off 8 ++ encodeList e (off + padLen off 8) vs
  | off, .dict _ _ es =>
    let o1 := off + padLen off 4 + 4
    let o2 := o1 + padLen o1 8
    pad off 4 ++ (encNat e 4 (encodeEntries e o2 es).length ++ (pad o1 8 ++ encodeEntries e o2 es))
def encodeList (e : Endian) : Nat → List Val → Bytes
  | _, [] => []
  | off, v :: vs => encode e off v ++ encodeList e (off + (encode e off v).length) vs
def encodeEntries (e : Endian) : Nat → List (Val × Val) → Bytes
  | _, [] => []
  | off, (k, v) :: es =>
    let o1 := off + padLen off 8
    let o2 := o1 + (encode e o1 k).length
    pad off 8 ++ (encode e o1 k ++ (encode e o2 v ++ encodeEntries e (o2 + (encode e o2 v).length) es))
end

def Ty.isFixed : Ty → Bool
  | .basic b => b.isFixed
  | _ => false

/-- deepest level of recursion the reference validator allows (2 × 32) -/
def MAX_VALUE_DEPTH : Nat := 64

/-- `signature contents valid`, as decided by C16 (`validateSignature_iff`): the specification's
    signatures plus the recorded array-depth laxity K2 -/
def SigOK (s : Bytes) : Prop := SpecSignature s ∨ ArrayDepthLaxity s

mutual
/-- Well-formed value of type `t` whose containing validator frame is at recursion depth `d`:
    typing, value ranges, string contents, array byte length ≤ 2^26, depth ≤ 64 counted as the
    reference counts it (one level per struct, dict entry, variant, and per element of an
    array of non-fixed-size elements). `off` is the absolute offset (array byte lengths
    depend on it through padding). -/
def WFVal (e : Endian) : Nat → Nat → Val → Ty → Prop
  | _, _, .fixed b n, .basic b' =>
    b = b' ∧ b.isFixed = true ∧ n < 256 ^ b.size ∧ (b = .bool → n ≤ 1)
  | _, _, .str b s, .basic b' =>
    b = b' ∧ b.isFixed = false ∧ s.length < 2 ^ 32 ∧
      (b = .str → SpecUtf8 s) ∧ (b = .path → SpecPath s) ∧ (b = .sig → SigOK s)
  | d, off, .variant t v, .variant =>
    t.WF ∧ t.DepthLax ∧ t.print.length ≤ 255 ∧ d + 1 ≤ MAX_VALUE_DEPTH ∧
      WFVal e (d + 1) (off + (t.print.length + 2) + padLen (off + (t.print.length + 2)) t.align) v t
  | d, off, .array et vs, .array et' =>
    et = et' ∧
      (encodeList e (off + padLen off 4 + 4 + padLen (off + padLen off 4 + 4) et.align) vs).length ≤ MAX_ARRAY_LENGTH ∧
      WFElems e (d + 1) (off + padLen off 4 + 4 + padLen (off + padLen off 4 + 4) et.align) vs et
  | d, off, .struct vs, .struct ts =>
    ts ≠ [] ∧ d + 1 ≤ MAX_VALUE_DEPTH ∧ WFFields e (d + 1) (off + padLen off 8) vs ts
  | d, off, .dict k vt es, .dict k' vt' =>
    k = k' ∧ vt = vt' ∧
      (encodeEntries e (off + padLen off 4 + 4 + padLen (off + padLen off 4 + 4) 8) es).length ≤ MAX_ARRAY_LENGTH ∧
      WFEntries e (d + 2) (off + padLen off 4 + 4 + padLen (off + padLen off 4 + 4) 8) es k vt
  | _, _, _, _ => False
/-- elements of an array, all of type `t`; `d` is the depth of the per-element frame, which
    the reference opens (and bounds) only for element types that are not fixed-size -/
def WFElems (e : Endian) : Nat → Nat → List Val → Ty → Prop
  | _, _, [], _ => True
  | d, off, v :: vs, t =>
    (t.isFixed = false → d ≤ MAX_VALUE_DEPTH) ∧
      WFVal e d off v t ∧ WFElems e d (off + (encode e off v).length) vs t
/-- fields of a struct -/
def WFFields (e : Endian) : Nat → Nat → List Val → List Ty → Prop
  | _, _, [], [] => True
  | d, off, v :: vs, t :: ts => WFVal e d off v t ∧ WFFields e d (off + (encode e off v).length) vs ts
  | _, _, _, _ => False
/-- entries of a dict -/
def WFEntries (e : Endian) : Nat → Nat → List (Val × Val) → BTy → Ty → Prop
  | _, _, [], _, _ => True
  | d, off, (k, v) :: es, kt, vt =>
    d ≤ MAX_VALUE_DEPTH ∧
      WFVal e d (off + padLen off 8) k (.basic kt) ∧
      WFVal e d (off + padLen off 8 + (encode e (off + padLen off 8) k).length) v vt ∧
      WFEntries e d (off + padLen off 8 + (encode e (off + padLen off 8) k).length +
        (encode e (off + padLen off 8 + (encode e (off + padLen off 8) k).length) v).length) es kt vt
end

end Dbus.Spec
