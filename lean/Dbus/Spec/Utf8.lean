import Dbus.Basic
/-
  UTF-8 as the specification uses it ("STRING: ... valid UTF-8 ... no NUL"): a string is
  the concatenation of the standard 1–4 byte encodings (RFC 3629) of Unicode scalar values
  other than U+0000.  Noncharacters are allowed (spec, 0.21+).
-/
namespace Dbus.Spec
open Dbus

def IsScalar (c : Nat) : Prop := c < 0x110000 ∧ ¬ (0xD800 ≤ c ∧ c ≤ 0xDFFF)

instance (c : Nat) : Decidable (IsScalar c) := by unfold IsScalar; exact inferInstance

/-- RFC 3629 encoding -/
def utf8Encode (c : Nat) : Bytes :=
  if c < 0x80 then [UInt8.ofNat c]
  else if c < 0x800 then [UInt8.ofNat (0xC0 + c / 64), UInt8.ofNat (0x80 + c % 64)]
  else if c < 0x10000 then
    [UInt8.ofNat (0xE0 + c / 4096), UInt8.ofNat (0x80 + c / 64 % 64), UInt8.ofNat (0x80 + c % 64)]
  else
    [UInt8.ofNat (0xF0 + c / 262144), UInt8.ofNat (0x80 + c / 4096 % 64),
     UInt8.ofNat (0x80 + c / 64 % 64), UInt8.ofNat (0x80 + c % 64)]

def SpecUtf8 (bs : Bytes) : Prop :=
  ∃ cps : List Nat, (∀ c ∈ cps, c ≠ 0 ∧ IsScalar c) ∧ bs = cps.flatMap utf8Encode

end Dbus.Spec
