import Dbus.Basic
/-
  C20 specification: the registration *set*.  A connection's object-path registrations are a
  partial map from paths (lists of element names) to (fallback?, handler id).  Everything the
  property talks about is a function of that map:

  * handlers offered a call to `p`: the handler registered at exactly `p`, then the fallback
    handlers registered at successively shorter proper prefixes of `p`;
  * "found" (⇒ UnknownMethod rather than UnknownObject when nobody takes the call): `p` is
    registered, or a proper prefix of a registered path, or lies below a fallback registration;
  * the child listing of `p`: the distinct next elements of registered paths strictly below `p`.
-/
namespace Dbus.Spec.Tree
open Dbus

abbrev Path := List Bytes
abbrev Reg := Bool × Nat                      -- (fallback?, handler id)
abbrev RegMap := Path → Option Reg

def RegMap.empty : RegMap := fun _ => none

def RegMap.register (f : RegMap) (p : Path) (r : Reg) : Option RegMap :=
  match f p with
  | some _ => none                             -- occupied: fails, nothing changes
  | none => some (fun q => if q = p then some r else f q)

def RegMap.unregister (f : RegMap) (p : Path) : RegMap :=
  fun q => if q = p then none else f q

/-- proper prefixes of `p`, shortest first -/
def prefixesUp : Path → List Path
  | [] => []
  | e :: p => [] :: (prefixesUp p).map (e :: ·)

/-- proper prefixes of `p`, longest first -/
def properPrefixes (p : Path) : List Path := (prefixesUp p).reverse

/-- the handler id of a *fallback* registration -/
def fbId : Option Reg → Option Nat
  | some (true, id) => some id
  | _ => none

/-- the handler id of any registration -/
def anyId : Option Reg → Option Nat
  | some r => some r.2
  | none => none

/-- ids of the handlers offered a call to `p`, in the order they are tried: the one registered
    at exactly `p`, then the fallback ones on successively shorter proper prefixes -/
def RegMap.handlers (f : RegMap) (p : Path) : List Nat :=
  (anyId (f p)).toList ++ (properPrefixes p).filterMap (fun q => fbId (f q))

end Dbus.Spec.Tree

namespace Dbus.Spec.Tree
open Dbus

/-- a finite registration set as an association list (newest first; at most one entry per
    path is ever present) and the map it denotes -/
abbrev Regs := List (Path × Reg)

def Regs.toMap (rs : Regs) : RegMap := fun p => (rs.find? (·.1 = p)).map (·.2)

def Regs.register (rs : Regs) (p : Path) (r : Reg) : Option Regs :=
  if rs.any (·.1 = p) then none else some ((p, r) :: rs)

def Regs.unregister (rs : Regs) (p : Path) : Regs := rs.filter (fun x => ¬ x.1 = p)

def isProperPrefix (p q : Path) : Bool := p.length < q.length && p.isPrefixOf q

/-- "found": `p` is registered, an ancestor of a registration, or below a fallback registration -/
def Regs.found (rs : Regs) (p : Path) : Bool :=
  rs.any (fun x => x.1 = p || isProperPrefix p x.1 || (x.2.1 && isProperPrefix x.1 p))

/-- next path elements of registrations strictly below `p` (unordered, may repeat) -/
def Regs.childNames (rs : Regs) (p : Path) : List Bytes :=
  rs.filterMap (fun x => if isProperPrefix p x.1 then x.1[p.length]? else none)

end Dbus.Spec.Tree
