import Dbus.Basic
/-
  Character classes of the D-Bus specification ("Valid Names", "Valid Object Paths").
  Written from doc/dbus-specification.xml, not from the C macros; the C macros are
  tabulated on every run into Dbus/Generated/Tables.lean and proved equal to these
  in Dbus/Proofs/Tables.lean.
-/
namespace Dbus.Spec

def isUpper (c : UInt8) : Bool := 0x41 ≤ c.toNat && c.toNat ≤ 0x5a
def isLower (c : UInt8) : Bool := 0x61 ≤ c.toNat && c.toNat ≤ 0x7a
def isDigit (c : UInt8) : Bool := 0x30 ≤ c.toNat && c.toNat ≤ 0x39

/-- `[A-Z][a-z][0-9]_` : element characters of interface, member, error names and paths -/
def isNameChar (c : UInt8) : Bool := isUpper c || isLower c || isDigit c || c.toNat == 0x5f
/-- the same without digits : first character of an element -/
def isInitialNameChar (c : UInt8) : Bool := isUpper c || isLower c || c.toNat == 0x5f
/-- bus names additionally allow `-` -/
def isBusNameChar (c : UInt8) : Bool := isNameChar c || c.toNat == 0x2d
def isInitialBusNameChar (c : UInt8) : Bool := isInitialNameChar c || c.toNat == 0x2d

def MAX_NAME_LENGTH : Nat := 255
def MAX_SIGNATURE_LENGTH : Nat := 255
def MAX_TYPE_DEPTH : Nat := 32

end Dbus.Spec
