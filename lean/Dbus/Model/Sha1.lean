import Dbus.Basic
/-
  SHA-1 (FIPS 180-4) over byte lists, written from the standard; dbus/dbus-sha.c is compared
  against it by the correspondence check (it is the specification's "correct SHA-1 response").
  Executable only: nothing is proved about the hash function itself.
-/
namespace Dbus.Model.Sha1

def rotl (x : UInt32) (n : UInt32) : UInt32 := (x <<< n) ||| (x >>> (32 - n))

def be64 (n : Nat) : Bytes := (List.range 8).reverse.map fun i => UInt8.ofNat ((n >>> (8 * i)) % 256)

def pad (m : Bytes) : Bytes :=
  m ++ [0x80] ++ List.replicate ((119 - m.length % 64) % 64) 0 ++ be64 (8 * m.length)

def wordsOf : Bytes → List UInt32
  | a :: b :: c :: d :: r =>
    ((a.toUInt32 <<< 24) ||| (b.toUInt32 <<< 16) ||| (c.toUInt32 <<< 8) ||| d.toUInt32) :: wordsOf r
  | _ => []

def schedule (w16 : List UInt32) : Array UInt32 := Id.run do
  let mut w : Array UInt32 := w16.toArray
  for t in [16:80] do
    w := w.push (rotl (w[t-3]! ^^^ w[t-8]! ^^^ w[t-14]! ^^^ w[t-16]!) 1)
  return w

structure H where
  (a b c d e : UInt32)

def H.init : H := ⟨0x67452301, 0xEFCDAB89, 0x98BADCFE, 0x10325476, 0xC3D2E1F0⟩

def block (h : H) (w16 : List UInt32) : H := Id.run do
  let w := schedule w16
  let mut a := h.a; let mut b := h.b; let mut c := h.c; let mut d := h.d; let mut e := h.e
  for t in [0:80] do
    let (f, k) :=
      if t < 20 then ((b &&& c) ||| ((~~~ b) &&& d), (0x5A827999 : UInt32))
      else if t < 40 then (b ^^^ c ^^^ d, 0x6ED9EBA1)
      else if t < 60 then ((b &&& c) ||| (b &&& d) ||| (c &&& d), 0x8F1BBCDC)
      else (b ^^^ c ^^^ d, 0xCA62C1D6)
    let tmp := rotl a 5 + f + e + k + w[t]!
    e := d; d := c; c := rotl b 30; b := a; a := tmp
  return ⟨h.a + a, h.b + b, h.c + c, h.d + d, h.e + e⟩

def blocks (fuel : Nat) (h : H) (ws : List UInt32) : H :=
  match fuel with
  | 0 => h
  | fuel + 1 => if ws.length < 16 then h else blocks fuel (block h (ws.take 16)) (ws.drop 16)

def be32 (x : UInt32) : Bytes :=
  [(x >>> 24).toUInt8, (x >>> 16).toUInt8, (x >>> 8).toUInt8, x.toUInt8]

def sha1 (m : Bytes) : Bytes :=
  let ws := wordsOf (pad m)
  let h := blocks (ws.length / 16 + 1) H.init ws
  be32 h.a ++ be32 h.b ++ be32 h.c ++ be32 h.d ++ be32 h.e

end Dbus.Model.Sha1
