import Dbus.Model.Wire
/-
  Executable model of message loading: `_dbus_header_have_message_untrusted`,
  `_dbus_header_load` (+ `load_and_validate_field`, `check_mandatory_fields`) and
  `load_message` of dbus/dbus-message.c.
-/
namespace Dbus.Model
open Dbus Dbus.Spec

/-- a header field as it stands in the fields array: code and the variant's type and value -/
structure Field where
  code : Nat
  ty : Ty
  val : Val
  deriving Inhabited

structure Msg where
  endian : Endian
  mtype : Nat
  flags : Nat
  version : Nat
  serial : Nat
  fields : List Field          -- wire order, unknown codes kept
  bodyTypes : List Ty          -- the SIGNATURE field's types ([] when absent)
  body : List Val
  deriving Inhabited

inductive LoadResult
  | incomplete                 -- not enough bytes yet (not an error)
  | corrupt
  | ok (m : Msg) (consumed : Nat)
  deriving Inhabited

def FIELD_PATH := 1
def FIELD_INTERFACE := 2
def FIELD_MEMBER := 3
def FIELD_ERROR_NAME := 4
def FIELD_REPLY_SERIAL := 5
def FIELD_DESTINATION := 6
def FIELD_SENDER := 7
def FIELD_SIGNATURE := 8
def FIELD_UNIX_FDS := 9
def FIELD_CONTAINER_INSTANCE := 10
def FIELD_LAST := 10

/-- expected type of each known header field (`_dbus_header_field_types`) -/
def fieldType (code : Nat) : Option BTy :=
  if code = 1 then some .path else if code = 2 then some .str else if code = 3 then some .str
  else if code = 4 then some .str else if code = 5 then some .u32 else if code = 6 then some .str
  else if code = 7 then some .str else if code = 8 then some .sig else if code = 9 then some .u32
  else if code = 10 then some .path else none

def LOCAL_INTERFACE : Bytes := "org.freedesktop.DBus.Local".toUTF8.toList
def LOCAL_PATH : Bytes := "/org/freedesktop/DBus/Local".toUTF8.toList

/-- `yyyyuua(yv)` -/
def headerTypes : List Ty :=
  [.basic .byte, .basic .byte, .basic .byte, .basic .byte, .basic .u32, .basic .u32,
   .array (.struct [.basic .byte, .variant])]

def align8 (n : Nat) : Nat := n + padLen n 8

def endianOfByte (b : UInt8) : Option Endian :=
  if b = 0x6c then some .little else if b = 0x42 then some .big else none

def _root_.Dbus.Spec.Endian.toByte : Endian → UInt8
  | .little => 0x6c
  | .big => 0x42

/-- fuel handed to the decoder for a buffer of `n` bytes -/
def fuelFor (n : Nat) : Nat := 2 * n + 512

/-- `load_and_validate_field` for a known field code; `false` = message invalid.
    The reserved local interface/path test is the reference's prefix test when `strictLocal`
    is off (F4) and the specification's equality when it is on. -/
def fieldContentOK (strictLocal : Bool) (code : Nat) (v : Val) : Bool :=
  match v with
  | .str _ s =>
    if code = FIELD_DESTINATION ∨ code = FIELD_SENDER then validateBusName s
    else if code = FIELD_INTERFACE then
      validateInterface s && !(if strictLocal then s == LOCAL_INTERFACE else LOCAL_INTERFACE.isPrefixOf s)
    else if code = FIELD_MEMBER then validateMember s
    else if code = FIELD_ERROR_NAME then validateErrorName s
    else if code = FIELD_PATH then
      !(if strictLocal then s == LOCAL_PATH else LOCAL_PATH.isPrefixOf s)
    else true
  | .fixed _ n => if code = FIELD_REPLY_SERIAL then n ≠ 0 else true
  | _ => false

/-- turn one decoded `(yv)` struct into a `Field` -/
def fieldOfVal : Val → Option Field
  | .struct [.fixed .byte c, .variant t v] => some { code := c, ty := t, val := v }
  | _ => none

/-- the per-field loop of `_dbus_header_load`: code 0 invalid, unknown codes skipped, known
    codes must have the expected type, must not repeat, and must pass their content check -/
def checkFields (strictLocal : Bool) : List Field → List Nat → Bool
  | [], _ => true
  | f :: fs, seen =>
    if f.code = 0 then false
    else if FIELD_LAST < f.code then checkFields strictLocal fs seen
    else match fieldType f.code, f.ty with
      | some b, .basic b' =>
        if b ≠ b' then false
        else if seen.contains f.code then false
        else if !fieldContentOK strictLocal f.code f.val then false
        else checkFields strictLocal fs (f.code :: seen)
      | _, _ => false

def hasField (fs : List Field) (code : Nat) : Bool := fs.any (·.code = code)

def getField (fs : List Field) (code : Nat) : Option Val := (fs.find? (·.code = code)).map (·.val)

/-- `check_mandatory_fields` -/
def mandatoryOK (mtype : Nat) (fs : List Field) : Bool :=
  if mtype = 4 then hasField fs FIELD_INTERFACE && hasField fs FIELD_PATH && hasField fs FIELD_MEMBER
  else if mtype = 1 then hasField fs FIELD_PATH && hasField fs FIELD_MEMBER
  else if mtype = 3 then hasField fs FIELD_ERROR_NAME && hasField fs FIELD_REPLY_SERIAL
  else if mtype = 2 then hasField fs FIELD_REPLY_SERIAL
  else true

def bodyTypesOf (fs : List Field) : Option (List Ty) :=
  match getField fs FIELD_SIGNATURE with
  | some (.str _ s) => parseSignature s
  | some _ => none
  | none => some []

def unixFdsOf (fs : List Field) : Nat :=
  match getField fs FIELD_UNIX_FDS with
  | some (.fixed _ n) => n
  | _ => 0

/-- what the 16-byte fixed header announces -/
structure Frame where
  e : Endian
  falen : Nat      -- claimed length of the header-fields array
  blen : Nat       -- claimed length of the body
  deriving Inhabited

def Frame.hlen (f : Frame) : Nat := align8 (16 + f.falen)
def Frame.total (f : Frame) : Nat := f.hlen + f.blen

inductive FrameResult
  | incomplete
  | corrupt
  | framed (f : Frame)

/-- the length checks of `_dbus_header_have_message_untrusted`, as a function of the buffer
    length and the three things read from the fixed header -/
def frameCore (maxLen len : Nat) (f : Frame) : FrameResult :=
  if maxLen < f.falen then .corrupt
  else if maxLen < f.blen then .corrupt
  else if maxLen < f.total then .corrupt
  else if len < f.total then .incomplete
  else .framed f

/-- `_dbus_header_have_message_untrusted`: looks at the first 16 bytes and at the buffer length only -/
def frameOf (maxLen : Nat) (bs : Bytes) : FrameResult :=
  if bs.length < 16 then .incomplete else
  match endianOfByte (bs.getD 0 0) with
  | none => .corrupt
  | some e =>
    frameCore maxLen bs.length
      { e := e, falen := decNat e ((bs.drop 12).take 4), blen := decNat e ((bs.drop 4).take 4) }

/-- the fixed part and the raw field structs, from validating the *whole buffer* as a body of
    signature `yyyyuua(yv)` (`_dbus_header_load` passes the loader's whole buffer) -/
def headerVals (f : Frame) (bs : Bytes) : Option (Nat × Nat × Nat × Nat × List Val) :=
  match decodeFields f.e (fuelFor bs.length) 0 headerTypes 0 bs with
  | some ([.fixed _ _, .fixed _ mtype, .fixed _ flags, .fixed _ version, .fixed _ _,
           .fixed _ serial, .array _ fvals], _) => some (mtype, flags, version, serial, fvals)
  | _ => none

/-- the bytes between the end of the fields array and the 8-aligned end of the header -/
def headerPadding (f : Frame) (bs : Bytes) : Bytes := (bs.drop (16 + f.falen)).take (f.hlen - (16 + f.falen))

/-- the remaining checks of `_dbus_header_load` -/
def checkHeader (strictLocal : Bool) (f : Frame) (bs : Bytes) (mtype version serial : Nat)
    (fvals : List Val) : Option (List Field) :=
  if !((headerPadding f bs).all (· == 0)) then none
  else if mtype = 0 then none
  else if version ≠ 1 then none
  else if serial = 0 then none
  else match fvals.mapM fieldOfVal with
    | none => none
    | some fields =>
      if !checkFields strictLocal fields [] then none
      else if !mandatoryOK mtype fields then none
      else some fields

def bodyBytes (f : Frame) (bs : Bytes) : Bytes := (bs.drop f.hlen).take f.blen

/-- step 2 of `load_message`: the body must be exactly the values its signature announces.
    `fuel` is the decoder fuel (any amount ≥ `fuelFor` of the body length gives the same answer). -/
def bodyVals (fuel : Nat) (f : Frame) (fields : List Field) (bs : Bytes) : Option (List Ty × List Val) :=
  match bodyTypesOf fields with
  | none => none
  | some tys =>
    match decodeFields f.e fuel 0 tys 0 (bodyBytes f bs) with
    | some (vals, []) => some (tys, vals)
    | _ => none

/-- One message from the front of `bs` (the loader's buffer). `maxLen` is the loader's
    maximum message size, `fdsAvail` the number of descriptors received so far. -/
def loadOne (strictLocal : Bool) (maxLen fdsAvail : Nat) (bs : Bytes) : LoadResult :=
  match frameOf maxLen bs with
  | .incomplete => .incomplete
  | .corrupt => .corrupt
  | .framed f =>
    match headerVals f bs with
    | none => .corrupt
    | some (mtype, flags, version, serial, fvals) =>
      match checkHeader strictLocal f bs mtype version serial fvals with
      | none => .corrupt
      | some fields =>
        match bodyVals (fuelFor bs.length) f fields bs with
        | none => .corrupt
        | some (tys, vals) =>
          if fdsAvail < unixFdsOf fields then .corrupt
          else .ok { endian := f.e, mtype := mtype, flags := flags, version := version,
                     serial := serial, fields := fields, bodyTypes := tys, body := vals } f.total

end Dbus.Model
