import Dbus.Model.Wire
/-
  Executable model of message loading: `_dbus_header_have_message_untrusted`,
  `_dbus_header_load` (+ `load_and_validate_field`, `check_mandatory_fields`) and
  `load_message` of dbus/dbus-message.c.
-/
namespace Dbus.Model
open Dbus Dbus.Spec

/-- a header field as it stands in the fields array: code and the variant's type and value -/
structure Field where
  code : Nat
  ty : Ty
  val : Val
  deriving Inhabited

structure Msg where
  endian : Endian
  mtype : Nat
  flags : Nat
  version : Nat
  serial : Nat
  fields : List Field          -- wire order, unknown codes kept
  bodyTypes : List Ty          -- the SIGNATURE field's types ([] when absent)
  body : List Val
  deriving Inhabited

inductive LoadResult
  | incomplete                 -- not enough bytes yet (not an error)
  | corrupt
  | ok (m : Msg) (consumed : Nat)
  deriving Inhabited

def FIELD_PATH := 1
def FIELD_INTERFACE := 2
def FIELD_MEMBER := 3
def FIELD_ERROR_NAME := 4
def FIELD_REPLY_SERIAL := 5
def FIELD_DESTINATION := 6
def FIELD_SENDER := 7
def FIELD_SIGNATURE := 8
def FIELD_UNIX_FDS := 9
def FIELD_CONTAINER_INSTANCE := 10
def FIELD_LAST := 10

/-- expected type of each known header field (`_dbus_header_field_types`) -/
def fieldType (code : Nat) : Option BTy :=
  if code = 1 then some .path else if code = 2 then some .str else if code = 3 then some .str
  else if code = 4 then some .str else if code = 5 then some .u32 else if code = 6 then some .str
  else if code = 7 then some .str else if code = 8 then some .sig else if code = 9 then some .u32
  else if code = 10 then some .path else none

def LOCAL_INTERFACE : Bytes := "org.freedesktop.DBus.Local".toUTF8.toList
def LOCAL_PATH : Bytes := "/org/freedesktop/DBus/Local".toUTF8.toList

/-- `yyyyuua(yv)` -/
def headerTypes : List Ty :=
  [.basic .byte, .basic .byte, .basic .byte, .basic .byte, .basic .u32, .basic .u32,
   .array (.struct [.basic .byte, .variant])]

def align8 (n : Nat) : Nat := n + padLen n 8

def endianOfByte (b : UInt8) : Option Endian :=
  if b = 0x6c then some .little else if b = 0x42 then some .big else none

def Endian.toByte : Endian → UInt8
  | .little => 0x6c
  | .big => 0x42

/-- fuel handed to the decoder for a buffer of `n` bytes -/
def fuelFor (n : Nat) : Nat := 2 * n + 512

/-- `load_and_validate_field` for a known field code; `false` = message invalid.
    The reserved local interface/path test is the reference's prefix test when `strictLocal`
    is off (F4) and the specification's equality when it is on. -/
def fieldContentOK (strictLocal : Bool) (code : Nat) (v : Val) : Bool :=
  match v with
  | .str _ s =>
    if code = FIELD_DESTINATION ∨ code = FIELD_SENDER then validateBusName s
    else if code = FIELD_INTERFACE then
      validateInterface s && !(if strictLocal then s == LOCAL_INTERFACE else LOCAL_INTERFACE.isPrefixOf s)
    else if code = FIELD_MEMBER then validateMember s
    else if code = FIELD_ERROR_NAME then validateErrorName s
    else if code = FIELD_PATH then
      !(if strictLocal then s == LOCAL_PATH else LOCAL_PATH.isPrefixOf s)
    else true
  | .fixed _ n => if code = FIELD_REPLY_SERIAL then n ≠ 0 else true
  | _ => false

/-- turn one decoded `(yv)` struct into a `Field` -/
def fieldOfVal : Val → Option Field
  | .struct [.fixed .byte c, .variant t v] => some { code := c, ty := t, val := v }
  | _ => none

/-- the per-field loop of `_dbus_header_load`: code 0 invalid, unknown codes skipped, known
    codes must have the expected type, must not repeat, and must pass their content check -/
def checkFields (strictLocal : Bool) : List Field → List Nat → Bool
  | [], _ => true
  | f :: fs, seen =>
    if f.code = 0 then false
    else if FIELD_LAST < f.code then checkFields strictLocal fs seen
    else match fieldType f.code, f.ty with
      | some b, .basic b' =>
        if b ≠ b' then false
        else if seen.contains f.code then false
        else if !fieldContentOK strictLocal f.code f.val then false
        else checkFields strictLocal fs (f.code :: seen)
      | _, _ => false

def hasField (fs : List Field) (code : Nat) : Bool := fs.any (·.code = code)

def getField (fs : List Field) (code : Nat) : Option Val := (fs.find? (·.code = code)).map (·.val)

/-- `check_mandatory_fields` -/
def mandatoryOK (mtype : Nat) (fs : List Field) : Bool :=
  if mtype = 4 then hasField fs FIELD_INTERFACE && hasField fs FIELD_PATH && hasField fs FIELD_MEMBER
  else if mtype = 1 then hasField fs FIELD_PATH && hasField fs FIELD_MEMBER
  else if mtype = 3 then hasField fs FIELD_ERROR_NAME && hasField fs FIELD_REPLY_SERIAL
  else if mtype = 2 then hasField fs FIELD_REPLY_SERIAL
  else true

def bodyTypesOf (fs : List Field) : Option (List Ty) :=
  match getField fs FIELD_SIGNATURE with
  | some (.str _ s) => parseSignature s
  | some _ => none
  | none => some []

def unixFdsOf (fs : List Field) : Nat :=
  match getField fs FIELD_UNIX_FDS with
  | some (.fixed _ n) => n
  | _ => 0

/-- One message from the front of `bs` (the loader's buffer). `maxLen` is the loader's
    maximum message size, `fdsAvail` the number of descriptors received so far. -/
def loadOne (strictLocal : Bool) (maxLen fdsAvail : Nat) (bs : Bytes) : LoadResult :=
  if bs.length < 16 then .incomplete else
  match endianOfByte (bs.getD 0 0) with
  | none => .corrupt
  | some e =>
    let falen := decNat e ((bs.drop 12).take 4)
    let blen := decNat e ((bs.drop 4).take 4)
    if maxLen < falen then .corrupt
    else if maxLen < blen then .corrupt
    else
      let hlen := align8 (16 + falen)
      if maxLen < hlen + blen then .corrupt
      else if bs.length < hlen + blen then .incomplete
      else
        -- header validated as a body of signature yyyyuua(yv) over the whole buffer
        match decodeFields e (fuelFor bs.length) 0 headerTypes 0 bs with
        | some ([.fixed _ _, .fixed _ mtype, .fixed _ flags, .fixed _ version, .fixed _ _,
                 .fixed _ serial, .array _ fvals], _) =>
          if !(((bs.drop (16 + falen)).take (hlen - (16 + falen))).all (· == 0)) then .corrupt
          else if mtype = 0 then .corrupt
          else if version ≠ 1 then .corrupt
          else if serial = 0 then .corrupt
          else
            match fvals.mapM fieldOfVal with
            | none => .corrupt
            | some fields =>
              if !checkFields strictLocal fields [] then .corrupt
              else if !mandatoryOK mtype fields then .corrupt
              else
                match bodyTypesOf fields with
                | none => .corrupt
                | some tys =>
                  let bodyBytes := (bs.drop hlen).take blen
                  match decodeFields e (fuelFor bs.length) 0 tys 0 bodyBytes with
                  | some (vals, []) =>
                    if fdsAvail < unixFdsOf fields then .corrupt
                    else .ok { endian := e, mtype := mtype, flags := flags, version := version,
                               serial := serial, fields := fields, bodyTypes := tys, body := vals }
                          (hlen + blen)
                  | _ => .corrupt
        | _ => .corrupt

end Dbus.Model
