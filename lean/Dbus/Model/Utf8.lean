import Dbus.Basic
/-
  Executable model of `_dbus_string_validate_utf8` (dbus/dbus-string.c) with its macros
  UTF8_COMPUTE, UTF8_GET, UTF8_LENGTH, UNICODE_VALID.
-/
namespace Dbus.Model
open Dbus

/-- UTF8_COMPUTE: lead byte ↦ (Len, Mask); (0,0) for a byte that cannot start a character -/
def utf8Lead (b : Nat) : Nat × Nat :=
  if b < 128 then (1, 0x7f)
  else if 192 ≤ b ∧ b < 224 then (2, 0x1f)
  else if 224 ≤ b ∧ b < 240 then (3, 0x0f)
  else if 240 ≤ b ∧ b < 248 then (4, 0x07)
  else if 248 ≤ b ∧ b < 252 then (5, 0x03)
  else if 252 ≤ b ∧ b < 254 then (6, 0x01)
  else (0, 0)

/-- UTF8_GET's loop over the continuation bytes; `none` is the macro's `Result = -1` -/
def utf8Get : Nat → Bytes → Option Nat
  | acc, [] => some acc
  | acc, c :: cs =>
    if 128 ≤ c.toNat ∧ c.toNat < 192 then utf8Get (acc * 64 + c.toNat % 64) cs else none

/-- UTF8_LENGTH -/
def utf8Length (c : Nat) : Nat :=
  if c < 0x80 then 1 else if c < 0x800 then 2 else if c < 0x10000 then 3
  else if c < 0x200000 then 4 else if c < 0x4000000 then 5 else 6

/-- UNICODE_VALID: `Char < 0x110000 && (Char & 0xFFFFF800) != 0xD800` -/
def unicodeValid (c : Nat) : Bool := decide (c < 0x110000) && !(c / 2048 == 27)

/-- the `while (p < end)` loop of `_dbus_string_validate_utf8` -/
def validateUtf8 : Bytes → Bool
  | [] => true
  | b :: rest =>
    if b.toNat = 0 then false
    else if b.toNat < 128 then validateUtf8 rest
    else
      let len := (utf8Lead b.toNat).1
      let mask := (utf8Lead b.toNat).2
      if len = 0 then false
      else if rest.length + 1 < len then false
      else match utf8Get (b.toNat % (mask + 1)) (rest.take (len - 1)) with
        | none => false
        | some v =>
          if utf8Length v ≠ len then false
          else if !unicodeValid v then false
          else validateUtf8 (rest.drop (len - 1))
termination_by bs => bs.length
decreasing_by all_goals (simp <;> omega)

end Dbus.Model
