import Dbus.Model.Message
/-
  The wire image of a message (specification-level: header as `yyyyuua(yv)` padded to 8 bytes
  with zeros, then the body) and the header-edit operations of dbus-marshal-header.c on the
  abstract field list.
-/
namespace Dbus.Model
open Dbus Dbus.Spec

def fieldVal (f : Field) : Val := .struct [.fixed .byte f.code, .variant f.ty f.val]

/-- the seven values of the header -/
def headerValues (e : Endian) (mtype flags version bodyLen serial : Nat) (fields : List Field) : List Val :=
  [.fixed .byte e.toByte.toNat, .fixed .byte mtype, .fixed .byte flags, .fixed .byte version,
   .fixed .u32 bodyLen, .fixed .u32 serial, .array (.struct [.basic .byte, .variant]) (fields.map fieldVal)]

def encodeHeader (e : Endian) (mtype flags version bodyLen serial : Nat) (fields : List Field) : Bytes :=
  let h := encodeList e 0 (headerValues e mtype flags version bodyLen serial fields)
  h ++ pad h.length 8

def encodeBody (m : Msg) : Bytes := encodeList m.endian 0 m.body

/-- header (with the body length filled in) followed by the body -/
def encodeMsg (m : Msg) : Bytes :=
  encodeHeader m.endian m.mtype m.flags m.version (encodeBody m).length m.serial m.fields ++ encodeBody m

/-! ### header edits (`_dbus_header_set_field_basic`, `_dbus_header_delete_field`,
    `_dbus_header_remove_unknown_fields`) -/

/-- replace the first field with this code in place, or append at the end -/
def setFieldList : List Field → Field → List Field
  | [], nf => [nf]
  | f :: fs, nf => if f.code = nf.code then nf :: fs else f :: setFieldList fs nf

/-- delete the first field with this code -/
def deleteFieldList : List Field → Nat → List Field
  | [], _ => []
  | f :: fs, c => if f.code = c then fs else f :: deleteFieldList fs c

def removeUnknownList (fs : List Field) : List Field := fs.filter (fun f => decide (f.code ≤ FIELD_LAST))

inductive EditOp
  | set (f : Field)
  | delete (code : Nat)
  | removeUnknown
  | setSerial (n : Nat)

def applyEdit (m : Msg) : EditOp → Msg
  | .set f => { m with fields := setFieldList m.fields f }
  | .delete c => { m with fields := deleteFieldList m.fields c }
  | .removeUnknown => { m with fields := removeUnknownList m.fields }
  | .setSerial n => { m with serial := n }

end Dbus.Model
