import Dbus.Spec.Names
import Dbus.Model.Message
import Dbus.Model.Encode
import Dbus.Model.Bus.Match
import Dbus.Model.Bus.Policy
/-
  Types of the message-bus model: per-connection and global state, outputs, error names, and the
  accessors / builders for messages the bus inspects or creates.
-/
namespace Dbus.Model.Bus
open Dbus Dbus.Spec Dbus.Model

abbrev ConnId := Nat

/-- an entry of a name's owner queue (`BusOwner`): the specification's own record -/
abbrev Owner := Dbus.Spec.Names.Entry

structure Service where
  name : Bytes
  owners : List Owner          -- head = primary owner; never empty while registered
  deriving Repr, Inhabited

structure Pending where
  caller : ConnId              -- will_get_reply
  callee : ConnId              -- will_send_reply
  serial : Nat
  deriving DecidableEq, Repr, Inhabited

structure Conn where
  id : ConnId
  uid : Nat
  gids : List Nat := []
  name : Option Bytes := none  -- unique name; none until Hello succeeds
  owned : List Bytes := []     -- services_owned: names whose queue holds this connection, in joining order
  rules : List MatchRule := [] -- oldest first
  canFd : Bool := true         -- unix fd passing negotiated
  monitor : Bool := false
  monitorRules : List MatchRule := []
  policy : List PRule := []    -- BusClientPolicy, fixed at Hello
  deriving Inhabited

structure Limits where
  maxNames : Nat := 512             -- max_names_per_connection (counts the unique name)
  maxRules : Nat := 512             -- max_match_rules_per_connection
  maxCompleted : Nat := 2048        -- max_completed_connections
  maxPerUser : Nat := 256           -- max_connections_per_user
  maxReplies : Nat := 128           -- max_replies_per_connection
  maxFdsDefault : Nat := 16         -- DBUS_MAXIMUM_MESSAGE_UNIX_FDS
  deriving Repr, Inhabited

structure Bus where
  conns : List Conn := []           -- connected clients, in connection order
  services : List Service := []
  nextMajor : Nat := 0
  nextMinor : Nat := 0
  pending : List Pending := []      -- newest first (`bus_expire_list_add` prepends)
  limits : Limits := {}
  policy : Policy := {}
  minted : List Bytes := []         -- ghost: every unique name ever handed out, newest first
  full : List ConnId := []          -- connections that do not read: their outgoing queue is over max_outgoing_bytes (set by the environment)
  deriving Inhabited

inductive Out
  | deliver (to : ConnId) (m : Msg)
  | opaque (to : ConnId) (replySerial : Nat)   -- a method return whose body is not modelled
  | close (c : ConnId)                         -- the bus closes this connection
  deriving Inhabited

/-! ### byte-string constants (explicit so that they reduce in the kernel) -/

def ascii' (s : String) : Bytes := s.toUTF8.toList

def DBUS_PATH : Bytes := ([0x2f,0x6f,0x72,0x67,0x2f,0x66,0x72,0x65,0x65,0x64,0x65,0x73,0x6b,0x74,0x6f,0x70,0x2f,0x44,0x42,0x75,0x73] : Bytes)
def NOT_ACTIVE : Bytes := ([0x3a,0x6e,0x6f,0x74,0x2e,0x61,0x63,0x74,0x69,0x76,0x65,0x2e,0x79,0x65,0x74] : Bytes)

inductive Err
  | failed | nameHasNoOwner | accessDenied | limitsExceeded | invalidArgs | unknownMethod
  | unknownInterface | matchRuleNotFound | matchRuleInvalid | noReply | notSupported
  | unknownObject | serviceUnknown | unknownProperty | propertyReadOnly
  deriving DecidableEq, Repr, Inhabited

def errPrefix : Bytes := ([0x6f,0x72,0x67,0x2e,0x66,0x72,0x65,0x65,0x64,0x65,0x73,0x6b,0x74,0x6f,0x70,0x2e,0x44,0x42,0x75,0x73,0x2e,0x45,0x72,0x72,0x6f,0x72,0x2e] : Bytes)

def Err.name : Err → Bytes
  | .failed => errPrefix ++ (/- "Failed" -/ [0x46,0x61,0x69,0x6c,0x65,0x64] : Bytes)
  | .nameHasNoOwner => errPrefix ++ (/- "NameHasNoOwner" -/ [0x4e,0x61,0x6d,0x65,0x48,0x61,0x73,0x4e,0x6f,0x4f,0x77,0x6e,0x65,0x72] : Bytes)
  | .accessDenied => errPrefix ++ (/- "AccessDenied" -/ [0x41,0x63,0x63,0x65,0x73,0x73,0x44,0x65,0x6e,0x69,0x65,0x64] : Bytes)
  | .limitsExceeded => errPrefix ++ (/- "LimitsExceeded" -/ [0x4c,0x69,0x6d,0x69,0x74,0x73,0x45,0x78,0x63,0x65,0x65,0x64,0x65,0x64] : Bytes)
  | .invalidArgs => errPrefix ++ (/- "InvalidArgs" -/ [0x49,0x6e,0x76,0x61,0x6c,0x69,0x64,0x41,0x72,0x67,0x73] : Bytes)
  | .unknownMethod => errPrefix ++ (/- "UnknownMethod" -/ [0x55,0x6e,0x6b,0x6e,0x6f,0x77,0x6e,0x4d,0x65,0x74,0x68,0x6f,0x64] : Bytes)
  | .unknownInterface => errPrefix ++ (/- "UnknownInterface" -/ [0x55,0x6e,0x6b,0x6e,0x6f,0x77,0x6e,0x49,0x6e,0x74,0x65,0x72,0x66,0x61,0x63,0x65] : Bytes)
  | .matchRuleNotFound => errPrefix ++ (/- "MatchRuleNotFound" -/ [0x4d,0x61,0x74,0x63,0x68,0x52,0x75,0x6c,0x65,0x4e,0x6f,0x74,0x46,0x6f,0x75,0x6e,0x64] : Bytes)
  | .matchRuleInvalid => errPrefix ++ (/- "MatchRuleInvalid" -/ [0x4d,0x61,0x74,0x63,0x68,0x52,0x75,0x6c,0x65,0x49,0x6e,0x76,0x61,0x6c,0x69,0x64] : Bytes)
  | .noReply => errPrefix ++ (/- "NoReply" -/ [0x4e,0x6f,0x52,0x65,0x70,0x6c,0x79] : Bytes)
  | .notSupported => errPrefix ++ (/- "NotSupported" -/ [0x4e,0x6f,0x74,0x53,0x75,0x70,0x70,0x6f,0x72,0x74,0x65,0x64] : Bytes)
  | .unknownObject => errPrefix ++ (/- "UnknownObject" -/ [0x55,0x6e,0x6b,0x6e,0x6f,0x77,0x6e,0x4f,0x62,0x6a,0x65,0x63,0x74] : Bytes)
  | .serviceUnknown => errPrefix ++ (/- "ServiceUnknown" -/ [0x53,0x65,0x72,0x76,0x69,0x63,0x65,0x55,0x6e,0x6b,0x6e,0x6f,0x77,0x6e] : Bytes)
  | .unknownProperty => errPrefix ++ (/- "UnknownProperty" -/ [0x55,0x6e,0x6b,0x6e,0x6f,0x77,0x6e,0x50,0x72,0x6f,0x70,0x65,0x72,0x74,0x79] : Bytes)
  | .propertyReadOnly => errPrefix ++ (/- "PropertyReadOnly" -/ [0x50,0x72,0x6f,0x70,0x65,0x72,0x74,0x79,0x52,0x65,0x61,0x64,0x4f,0x6e,0x6c,0x79] : Bytes)

/-! ### message accessors and builders -/

def strOf : Option Val → Option Bytes
  | some (.str _ s) => some s
  | _ => none

def natOf : Option Val → Nat
  | some (.fixed _ n) => n
  | _ => 0

def _root_.Dbus.Model.Msg.path (m : Msg) : Option Bytes := strOf (getField m.fields FIELD_PATH)
def _root_.Dbus.Model.Msg.iface (m : Msg) : Option Bytes := strOf (getField m.fields FIELD_INTERFACE)
def _root_.Dbus.Model.Msg.member (m : Msg) : Option Bytes := strOf (getField m.fields FIELD_MEMBER)
def _root_.Dbus.Model.Msg.errName (m : Msg) : Option Bytes := strOf (getField m.fields FIELD_ERROR_NAME)
def _root_.Dbus.Model.Msg.dest (m : Msg) : Option Bytes := strOf (getField m.fields FIELD_DESTINATION)
def _root_.Dbus.Model.Msg.sender (m : Msg) : Option Bytes := strOf (getField m.fields FIELD_SENDER)
def _root_.Dbus.Model.Msg.replySerial (m : Msg) : Nat := natOf (getField m.fields FIELD_REPLY_SERIAL)
def _root_.Dbus.Model.Msg.nFds (m : Msg) : Nat := unixFdsOf m.fields
def _root_.Dbus.Model.Msg.noReply (m : Msg) : Bool := m.flags % 2 == 1
def _root_.Dbus.Model.Msg.noAutoStart (m : Msg) : Bool := (m.flags / 2) % 2 == 1

def strField (code : Nat) (s : Bytes) : Field := { code := code, ty := .basic .str, val := .str .str s }
def pathField (s : Bytes) : Field := { code := FIELD_PATH, ty := .basic .path, val := .str .path s }
def u32Field (code : Nat) (n : Nat) : Field := { code := code, ty := .basic .u32, val := .fixed .u32 n }
def sigField (ts : List Ty) : Field := { code := FIELD_SIGNATURE, ty := .basic .sig, val := .str .sig (printList ts) }

def _root_.Dbus.Model.Msg.setField (m : Msg) (f : Field) : Msg := { m with fields := setFieldList m.fields f }
def _root_.Dbus.Model.Msg.delField (m : Msg) (code : Nat) : Msg := { m with fields := deleteFieldList m.fields code }
def _root_.Dbus.Model.Msg.setSender (m : Msg) (s : Bytes) : Msg := m.setField (strField FIELD_SENDER s)
def _root_.Dbus.Model.Msg.setDest (m : Msg) (s : Bytes) : Msg := m.setField (strField FIELD_DESTINATION s)
def _root_.Dbus.Model.Msg.setNoReply (m : Msg) : Msg := { m with flags := if m.flags % 2 == 1 then m.flags else m.flags + 1 }

def sStr (s : Bytes) : Val := .str .str s
def tStr : Ty := .basic .str
def tU32 : Ty := .basic .u32

/-- a message the bus creates (serial assigned at send time by the recipient's connection; 0 here) -/
def mkMsg (mtype : Nat) (fields : List Field) (tys : List Ty) (body : List Val) : Msg :=
  { endian := .little, mtype := mtype, flags := 1, version := 1, serial := 0,
    fields := if tys.isEmpty then fields else fields ++ [sigField tys], bodyTypes := tys, body := body }

/-- `dbus_message_new_method_return (call)` + body -/
def mkReturn (call : Msg) (tys : List Ty) (body : List Val) : Msg :=
  mkMsg 2 ([u32Field FIELD_REPLY_SERIAL call.serial] ++
           (match call.sender with | some s => [strField FIELD_DESTINATION s] | none => [])) tys body

/-- `dbus_message_new_error (in_reply_to, name, text)`; the text is not modelled (`[]`) -/
def mkError (inReplyTo : Msg) (e : Err) : Msg :=
  mkMsg 3 ([u32Field FIELD_REPLY_SERIAL inReplyTo.serial, strField FIELD_ERROR_NAME e.name] ++
           (match inReplyTo.sender with | some s => [strField FIELD_DESTINATION s] | none => []))
    [tStr] [sStr []]

def mkSignal (member : Bytes) (tys : List Ty) (body : List Val) : Msg :=
  { mkMsg 4 [pathField DBUS_PATH, strField FIELD_INTERFACE BUS_NAME, strField FIELD_MEMBER member] tys body
    with flags := 1 }

end Dbus.Model.Bus
