import Dbus.Model.Bus.Types
/-
  The owner queue of one bus name, as pure functions: `bus_service_add_owner`,
  `bus_service_remove_owner`, `bus_service_swap_owner`, and the decision tree of
  `bus_registry_acquire_service` / `bus_registry_release_service` (bus/services.c).
  Each returns the new queue and the signals the C code queues, in the order it queues them.
-/
namespace Dbus.Model.Bus
open Dbus

inductive Sig
  | lost (c : ConnId)                          -- NameLost to c
  | acquired (c : ConnId)                      -- NameAcquired to c
  | changed (old new : Option ConnId)          -- NameOwnerChanged broadcast
  deriving DecidableEq, Repr, Inhabited

def flagAllow (flags : Nat) : Bool := flags % 2 == 1
def flagReplace (flags : Nat) : Bool := (flags / 2) % 2 == 1
def flagNoQueue (flags : Nat) : Bool := (flags / 4) % 2 == 1

def mkOwner (c : ConnId) (flags : Nat) : Owner := { conn := c, allowRepl := flagAllow flags, noQueue := flagNoQueue flags }

def inQueue (os : List Owner) (c : ConnId) : Bool := os.any (·.conn == c)

/-- insert after the first element -/
def insertSecond (o : Owner) : List Owner → List Owner
  | [] => [o]
  | p :: rest => p :: o :: rest

/-- `bus_service_add_owner` -/
def qAdd (os : List Owner) (c : ConnId) (flags : Nat) : List Owner × List Sig :=
  let sigs := if os.isEmpty then [Sig.acquired c] else []
  let o := mkOwner c flags
  if inQueue os c then
    (if flagReplace flags then insertSecond o (os.filter (·.conn != c))
     else os.map fun x => if x.conn == c then o else x, sigs)
  else
    (if !flagReplace flags || os.isEmpty then os ++ [o] else insertSecond o os, sigs)

/-- `bus_service_remove_owner` -/
def qRemove (os : List Owner) (c : ConnId) : List Owner × List Sig :=
  match os with
  | [] => ([], [])
  | p :: rest =>
    if p.conn == c then
      (rest, Sig.lost c ::
        (match rest with
         | [] => [Sig.changed (some c) none]
         | q :: _ => [Sig.changed (some c) (some q.conn), Sig.acquired q.conn]))
    else (os.filter (·.conn != c), [])

/-- `bus_service_swap_owner`: the primary owner steps down to second place -/
def qSwap (os : List Owner) (c : ConnId) : List Owner × List Sig :=
  match os with
  | p :: q :: rest => (q :: p :: rest, [Sig.lost c, Sig.changed (some c) (some q.conn), Sig.acquired q.conn])
  | _ => (os, [])

/-- `bus_registry_ensure` + first `bus_service_add_owner` -/
def qEnsure (c : ConnId) (flags : Nat) : List Owner × List Sig :=
  let (os, sigs) := qAdd [] c flags
  (os, Sig.changed none (some c) :: sigs)

def REPLY_PRIMARY := 1
def REPLY_IN_QUEUE := 2
def REPLY_EXISTS := 3
def REPLY_ALREADY := 4
def RELEASED := 1
def NON_EXISTENT := 2
def NOT_OWNER := 3

/-- the decision tree of `bus_registry_acquire_service` once name, policy and limit checks passed -/
def qAcquire (os : List Owner) (c : ConnId) (flags : Nat) : List Owner × Nat × List Sig :=
  match os with
  | [] => let (os', sigs) := qEnsure c flags; (os', REPLY_PRIMARY, sigs)
  | p :: rest =>
    if p.conn == c then (mkOwner c flags :: rest, REPLY_ALREADY, [])
    else if flagNoQueue flags && (!p.allowRepl || !flagReplace flags) then
      ((p :: rest).filter (·.conn != c), REPLY_EXISTS, [])
    else if !flagNoQueue flags && (!flagReplace flags || !p.allowRepl) then
      let (os', sigs) := qAdd (p :: rest) c flags
      (os', REPLY_IN_QUEUE, sigs)
    else
      let (os1, s1) := qAdd (p :: rest) c flags
      let (os2, s2) := if p.noQueue then qRemove os1 p.conn else qSwap os1 p.conn
      (os2, REPLY_PRIMARY, s1 ++ s2)

/-- `bus_registry_release_service` once the name checks passed -/
def qRelease (os : List Owner) (c : ConnId) : List Owner × Nat × List Sig :=
  match os with
  | [] => ([], NON_EXISTENT, [])
  | _ =>
    if !inQueue os c then (os, NOT_OWNER, [])
    else let (os', sigs) := qRemove os c; (os', RELEASED, sigs)

end Dbus.Model.Bus
