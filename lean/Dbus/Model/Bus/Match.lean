import Dbus.Model.Message
/-
  Executable model of bus/signals.c: the match-rule tokenizer (find_key / find_value with
  their quoting automaton), the parser with its per-key validation, rule equality, and the
  matcher `match_rule_matches`.
-/
namespace Dbus.Model.Bus
open Dbus Dbus.Spec Dbus.Model

def isWhite (c : UInt8) : Bool := c = 0x20 || c = 0x09 || c = 0x0a || c = 0x0d

/-- `find_key`: skip white, read the key up to '=' or white, skip white, expect '='.
    Returns the key and the rest after '='; an empty key is accepted only at the very end of
    the text (trailing white / empty rule) and reported as `some ([], [])` — since the repair F28
    anything after an empty key ("=x") is an error; `none` = "key with no subsequent '='" or
    "empty key" -/
def findKey (s : Bytes) : Option (Bytes × Bytes) :=
  let s1 := s.dropWhile isWhite
  let key := s1.takeWhile (fun c => c ≠ 0x3d && !isWhite c)
  let s2 := (s1.drop key.length).dropWhile isWhite
  if key.isEmpty then (if s2.isEmpty then some ([], []) else none)
  else match s2 with
    | c :: rest => if c = 0x3d then some (key, rest) else none
    | [] => none

/-- the quoting automaton of `find_value`: state 0 = plain, 1 = inside '…', 2 = after a
    backslash. Returns the value and the rest (after the terminating comma);
    `none` = unbalanced quote -/
def findValueAux : Bytes → Nat → Bytes → Option (Bytes × Bytes)
  | [], q, acc => if q = 2 then some (acc ++ [0x5c], []) else if q = 1 then none else some (acc, [])
  | c :: rest, 0, acc =>
    if c = 0x27 then findValueAux rest 1 acc
    else if c = 0x2c then some (acc, rest)
    else if c = 0x5c then findValueAux rest 2 acc
    else findValueAux rest 0 (acc ++ [c])
  | c :: rest, 2, acc =>
    if c = 0x27 then findValueAux rest 0 (acc ++ [c]) else findValueAux rest 0 (acc ++ [0x5c, c])
  | c :: rest, _, acc =>
    if c = 0x27 then findValueAux rest 0 acc else findValueAux rest 1 (acc ++ [c])

def findValue (s : Bytes) : Option (Bytes × Bytes) := findValueAux s 0 []

def MAX_RULE_TOKENS : Nat := 16

/-- `tokenize_rule`: at most 16 iterations; an empty key ends the token list for the parser
    (the slot stays NULL) although the loop goes on consuming text. `none` = error -/
def tokenizeAux : Nat → Bytes → List (Bytes × Bytes) → Bool → Option (List (Bytes × Bytes))
  | 0, _, acc, _ => some acc
  | n + 1, s, acc, stopped =>
    if s.isEmpty then some acc else
    match findKey s with
    | none => none
    | some (key, rest) =>
      if key.isEmpty then tokenizeAux n rest acc true      -- NULL slot: parser stops here
      else match findValue rest with
        | none => none
        | some (v, rest') => tokenizeAux n rest' (if stopped then acc else acc ++ [(key, v)]) stopped

def tokenize (s : Bytes) : Option (List (Bytes × Bytes)) := tokenizeAux MAX_RULE_TOKENS s [] false

inductive ArgKind | plain | path | ns
  deriving DecidableEq, Repr, Inhabited

structure MatchRule where
  mtype : Option Nat := none
  sender : Option Bytes := none
  iface : Option Bytes := none
  member : Option Bytes := none
  path : Option Bytes := none
  pathNs : Bool := false
  dest : Option Bytes := none
  eavesdrop : Bool := false
  args : List (Nat × ArgKind × Bytes) := []      -- (index, kind, value), at most one per index
  deriving DecidableEq, Repr, Inhabited

def ascii (s : String) : Bytes := s.toUTF8.toList

def typeFromString (v : Bytes) : Option Nat :=
  if v = ([0x6d, 0x65, 0x74, 0x68, 0x6f, 0x64, 0x5f, 0x63, 0x61, 0x6c, 0x6c] : Bytes) then some 1 else if v = ([0x6d, 0x65, 0x74, 0x68, 0x6f, 0x64, 0x5f, 0x72, 0x65, 0x74, 0x75, 0x72, 0x6e] : Bytes) then some 2
  else if v = ([0x65, 0x72, 0x72, 0x6f, 0x72] : Bytes) then some 3 else if v = ([0x73, 0x69, 0x67, 0x6e, 0x61, 0x6c] : Bytes) then some 4 else none

/-- strtoul(…, 0) on the text after "arg": digits in base 10 / 8 / 16 as C does; returns the
    value and the rest. Only what the rule grammar can meet is modelled precisely: an
    optional sign and white space are accepted by strtoul too. -/
def parseDec : Bytes → Nat → Nat → Option (Nat × Bytes)
  | [], acc, n => if n = 0 then none else some (acc, [])
  | c :: rest, acc, n =>
    if 0x30 ≤ c.toNat ∧ c.toNat ≤ 0x39 then parseDec rest (acc * 10 + (c.toNat - 0x30)) (n + 1)
    else if n = 0 then none else some (acc, c :: rest)

def parseOct : Bytes → Nat → Option (Nat × Bytes)
  | [], acc => some (acc, [])
  | c :: rest, acc =>
    if 0x30 ≤ c.toNat ∧ c.toNat ≤ 0x37 then parseOct rest (acc * 8 + (c.toNat - 0x30)) else some (acc, c :: rest)

def hexDigitVal (c : UInt8) : Option Nat :=
  if 0x30 ≤ c.toNat ∧ c.toNat ≤ 0x39 then some (c.toNat - 0x30)
  else if 0x61 ≤ c.toNat ∧ c.toNat ≤ 0x66 then some (c.toNat - 0x57)
  else if 0x41 ≤ c.toNat ∧ c.toNat ≤ 0x46 then some (c.toNat - 0x37) else none

def parseHexDigits : Bytes → Nat → Nat → Option (Nat × Bytes)
  | [], acc, n => if n = 0 then none else some (acc, [])
  | c :: rest, acc, n =>
    match hexDigitVal c with
    | some d => parseHexDigits rest (acc * 16 + d) (n + 1)
    | none => if n = 0 then none else some (acc, c :: rest)

def ULONG_MAX1 : Nat := 18446744073709551616

/-- `strtoul (p, &end, 0)` with errno check: white space, sign, base prefix, digits.
    `none` = no conversion or out of range -/
def strtoul0 (s : Bytes) : Option (Nat × Bytes) :=
  let s1 := s.dropWhile (fun c => isWhite c || c = 0x0b || c = 0x0c)
  let (neg, s2) := match s1 with
    | c :: r => if c = 0x2d then (true, r) else if c = 0x2b then (false, r) else (false, s1)
    | [] => (false, s1)
  let res : Option (Nat × Bytes) :=
    match s2 with
    | 0x30 :: x :: r =>
      if x = 0x78 ∨ x = 0x58 then
        match parseHexDigits r 0 0 with
        | some p => some p
        | none => some (0, x :: r)            -- just the "0"
      else parseOct (x :: r) 0
    | _ => parseDec s2 0 0
  match res with
  | none => none
  | some (v, rest) =>
    if v ≥ ULONG_MAX1 then none
    else some (if neg then (ULONG_MAX1 - v) % ULONG_MAX1 else v, rest)

def setArg (r : MatchRule) (i : Nat) (k : ArgKind) (v : Bytes) : Option MatchRule :=
  if r.args.any (·.1 = i) then none else some { r with args := r.args ++ [(i, k, v)] }

/-- one key/value pair of `bus_match_rule_parse`; `none` = MatchRuleInvalid -/
def applyToken (r : MatchRule) (key value : Bytes) : Option MatchRule :=
  if key = ([0x74, 0x79, 0x70, 0x65] : Bytes) then
    if r.mtype.isSome then none else (typeFromString value).map fun t => { r with mtype := some t }
  else if key = ([0x73, 0x65, 0x6e, 0x64, 0x65, 0x72] : Bytes) then
    if r.sender.isSome then none else if validateBusName value then some { r with sender := some value } else none
  else if key = ([0x69, 0x6e, 0x74, 0x65, 0x72, 0x66, 0x61, 0x63, 0x65] : Bytes) then
    if r.iface.isSome then none else if validateInterface value then some { r with iface := some value } else none
  else if key = ([0x6d, 0x65, 0x6d, 0x62, 0x65, 0x72] : Bytes) then
    if r.member.isSome then none else if validateMember value then some { r with member := some value } else none
  else if key = ([0x70, 0x61, 0x74, 0x68] : Bytes) ∨ key = ([0x70, 0x61, 0x74, 0x68, 0x5f, 0x6e, 0x61, 0x6d, 0x65, 0x73, 0x70, 0x61, 0x63, 0x65] : Bytes) then
    if r.path.isSome then none else if validatePath value then
      some { r with path := some value, pathNs := (key = ([0x70, 0x61, 0x74, 0x68, 0x5f, 0x6e, 0x61, 0x6d, 0x65, 0x73, 0x70, 0x61, 0x63, 0x65] : Bytes)) } else none
  else if key = ([0x64, 0x65, 0x73, 0x74, 0x69, 0x6e, 0x61, 0x74, 0x69, 0x6f, 0x6e] : Bytes) then
    if r.dest.isSome then none else if validateBusName value then some { r with dest := some value } else none
  else if key = ([0x65, 0x61, 0x76, 0x65, 0x73, 0x64, 0x72, 0x6f, 0x70] : Bytes) then
    if value = ([0x74, 0x72, 0x75, 0x65] : Bytes) then some { r with eavesdrop := true }
    else if value = ([0x66, 0x61, 0x6c, 0x73, 0x65] : Bytes) then some { r with eavesdrop := false } else none
  else if (([0x61, 0x72, 0x67] : Bytes)).isPrefixOf key then
    if key.length < 4 then none else
    match strtoul0 (key.drop 3) with
    | none => none
    | some (n, rest) =>
      let kind : Option ArgKind :=
        if rest.isEmpty then some .plain
        else if rest = ([0x70, 0x61, 0x74, 0x68] : Bytes) then some .path
        else if key = ([0x61, 0x72, 0x67, 0x30, 0x6e, 0x61, 0x6d, 0x65, 0x73, 0x70, 0x61, 0x63, 0x65] : Bytes) then (if validateBusNamespace value then some .ns else none)
        else none
      match kind with
      | none => none
      | some k => if n > 63 then none else setArg r n k value
  else none

/-- `bus_match_rule_parse`: the result distinguishes the too-long error (LimitsExceeded) -/
inductive ParseResult
  | ok (r : MatchRule)
  | invalid
  | tooLong
  deriving Inhabited

def parseRule (text : Bytes) : ParseResult :=
  if text.length > 1024 then .tooLong else
  match tokenize text with
  | none => .invalid
  | some toks =>
    match toks.foldlM (fun r (kv : Bytes × Bytes) => applyToken r kv.1 kv.2) ({} : MatchRule) with
    | some r => .ok r
    | none => .invalid

/-- `match_rule_equal` (arguments compared position-wise: same set of (index, kind, value)) -/
def ruleEqual (a b : MatchRule) : Bool :=
  a.mtype == b.mtype && a.sender == b.sender && a.iface == b.iface && a.member == b.member &&
  a.path == b.path && a.pathNs == b.pathNs && a.dest == b.dest && a.eavesdrop == b.eavesdrop &&
  a.args.length == b.args.length && a.args.all (fun x => b.args.contains x)

/-- what the matcher needs to know about the message and the registry -/
structure MatchCtx where
  mtype : Nat
  iface : Option Bytes
  member : Option Bytes
  path : Option Bytes
  dest : Option Bytes
  senderIsBus : Bool                     -- sender == NULL
  senderOwns : Bytes → Bool              -- connection_is_primary_owner (sender, name)
  hasRecipient : Bool                    -- addressed_recipient != NULL
  recipientOwns : Bytes → Bool
  args : List (Option (Bool × Bytes))    -- per body argument: (isObjectPath, text) for s / o, none otherwise

def BUS_NAME : Bytes := ([0x6f, 0x72, 0x67, 0x2e, 0x66, 0x72, 0x65, 0x65, 0x64, 0x65, 0x73, 0x6b, 0x74, 0x6f, 0x70, 0x2e, 0x44, 0x42, 0x75, 0x73] : Bytes)

def lastByte? (b : Bytes) : Option UInt8 := b.getLast?

/-- one argN / argNpath / arg0namespace test. Every character the test looks at is reached
    through a total accessor (`getLast?`, `[i]?`, `take`): an empty value or argument has no last
    character and therefore is not a '/'-terminated prefix of anything (F5, repaired). -/
def argMatches (kind : ArgKind) (expected : Bytes) (actual : Option (Bool × Bytes)) : Bool :=
  match actual with
  | none => false
  | some (isPath, act) =>
    if isPath ∧ kind ≠ .path then false else
    match kind with
    | .path =>
      if act.length < expected.length then
        (if act.getLast? ≠ some 0x2f then false else act == expected.take act.length)
      else if expected.length < act.length then
        (if expected.getLast? ≠ some 0x2f then false else expected == act.take expected.length)
      else act == expected
    | .ns =>
      if expected.length > act.length then false
      else if expected ≠ act.take expected.length then false
      else if expected.length < act.length then act[expected.length]? == some 0x2e
      else true
    | .plain => act == expected

def typeOK (r : MatchRule) (c : MatchCtx) : Bool :=
  match r.mtype with | some t => t == c.mtype | none => true
def ifaceOK (r : MatchRule) (c : MatchCtx) : Bool :=
  match r.iface with | some i => c.iface == some i | none => true
def memberOK (r : MatchRule) (c : MatchCtx) : Bool :=
  match r.member with | some m => c.member == some m | none => true
def senderOK (r : MatchRule) (c : MatchCtx) : Bool :=
  match r.sender with
  | some s => if c.senderIsBus then s == BUS_NAME else c.senderOwns s
  | none => true
def destOK (r : MatchRule) (c : MatchCtx) : Bool :=
  match r.dest with
  | some d =>
    match c.dest with
    | none => false
    | some md => if !r.eavesdrop then false
                 else if !c.hasRecipient then d == md else c.recipientOwns d
  | none => r.eavesdrop || c.dest.isNone
def pathOK (r : MatchRule) (c : MatchCtx) : Bool :=
  match r.path with
  | some p =>
    match c.path with
    | none => false
    | some mp =>
      if !r.pathNs then mp == p
      else if !p.isPrefixOf mp then false
      else !(decide (p.length > 1) && (match mp[p.length]? with | none => false | some ch => ch != 0x2f))
  | none => true

/-- `match_rule_matches`: all features AND-ed -/
def ruleMatches (r : MatchRule) (c : MatchCtx) : Bool :=
  typeOK r c && ifaceOK r c && memberOK r c && senderOK r c && destOK r c && pathOK r c &&
  r.args.all (fun a => argMatches a.2.1 a.2.2 (c.args.getD a.1 none))

end Dbus.Model.Bus
