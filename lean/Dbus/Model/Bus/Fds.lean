import Dbus.Model.Bus.Raw
/-
  File descriptors travelling through the bus, as a ledger of tokens.

  A client's sendmsg attaches descriptors (tokens) to the bytes it writes.  The receiving side
  (_dbus_read_socket_with_unix_fds, DBusMessageLoader.unix_fds) keeps them pending until a framed
  message announces some (header field UNIX_FDS): the message takes that many from the front
  (load_message), the rest stay pending for that connection.  The bus's copies are closed when the
  message is finalized (close_unix_fds) — after dispatch, whether it was delivered, refused or
  undeliverable; recipients hold copies the kernel made.  Pending descriptors are closed when the
  connection's loader is finalized.  More descriptors in one sendmsg than the loader has room for
  (max_message_unix_fds minus pending) truncate the control data: all are closed and the read fails,
  which drops the connection (MSG_CTRUNC, CVE-2020-12049).  A connection that did not negotiate
  descriptor passing is read with plain read(): the kernel discards what was attached.

  `closed` is a ghost log.  Outgoing queues are taken to be flushed between operations (recipients
  that read slowly are outside the model).
-/
namespace Dbus.Model.Bus
open Dbus Dbus.Spec Dbus.Model

abbrev Fd := Nat

structure FdNet where
  net : Net := {}
  pending : List (ConnId × List Fd) := []     -- DBusMessageLoader.unix_fds per connection, oldest first
  closed : List Fd := []                       -- every token closed so far (by the bus or discarded by the kernel)
  maxMsgFds : Nat := 16                        -- max_message_unix_fds

def FdNet.pendingOf (n : FdNet) (c : ConnId) : List Fd := (n.pending.lookup c).getD []

def FdNet.setPending (n : FdNet) (c : ConnId) (fds : List Fd) : FdNet :=
  { n with pending := (c, fds) :: n.pending.filter (fun p => p.1 != c) }

/-- load_message: each framed message takes the number of descriptors it announces from the front -/
def assign (avail : List Fd) : List Msg → List (Msg × List Fd) × List Fd
  | [] => ([], avail)
  | m :: ms =>
    let r := assign (avail.drop m.nFds) ms
    ((m, avail.take m.nFds) :: r.1, r.2)

/-- loaders of connections that are gone are finalized: their pending descriptors are closed -/
def FdNet.sweep (n : FdNet) : FdNet :=
  { n with net := { n.net with loaders := n.net.loaders.filter (fun p => (n.net.bus.conn? p.1).isSome) },
           pending := n.pending.filter (fun p => (n.net.bus.conn? p.1).isSome),
           closed := n.closed ++ (n.pending.filter fun p => (n.net.bus.conn? p.1).isNone).flatMap (·.2) }

inductive FdOp
  | connect (c : ConnId) (uid : Nat) (gids : List Nat) (canFd : Bool)
  | write (c : ConnId) (bytes : Bytes) (fds : List Fd)     -- one sendmsg
  | close (c : ConnId)
  | timeout
  | pendingTimeout        -- pending_fd_timeout has passed for every connection that holds descriptors without a message
  deriving Inhabited

/-- a transaction together with the descriptors its message carried -/
abbrev FdTx := Tx × List Fd

def runAssigned (tbl : List IfaceRow) (c : ConnId) (b : Bus) : List (Msg × List Fd) → Bus × List FdTx
  | [] => (b, [])
  | (m, fds) :: rest =>
    let t := step tbl b (.msg c m)
    let r := runAssigned tbl c t.bus rest
    (r.1, (t, fds) :: r.2)

/-- the loader has framed `new` (and may have found the stream corrupt): each message takes its
    descriptors, is dispatched, and is finalized -/
def fdApply (tbl : List IfaceRow) (n : FdNet) (c : ConnId) (l' : Loader) (new : List Msg) (corrupt : Bool)
    (fds : List Fd) : FdNet × List FdTx :=
  let r := assign (n.pendingOf c ++ fds) new
  let br := runAssigned tbl c n.net.bus r.1
  let t2 : Tx := if corrupt then step tbl br.1 (.invalid c) else { bus := br.1 }
  let n1 : FdNet := { n with net := ({ n.net with bus := t2.bus } : Net).setLoader c l',
                             closed := n.closed ++ r.1.flatMap (·.2) }
  ((n1.setPending c r.2).sweep, br.2 ++ (if corrupt then [(t2, [])] else []))

/-- a write on a connection that negotiated descriptor passing and has room for what arrives -/
def fdWrite (tbl : List IfaceRow) (n : FdNet) (c : ConnId) (bytes : Bytes) (fds : List Fd) : FdNet × List FdTx :=
  let l := n.net.loader c
  let l' := ({ l with fds := l.fds + fds.length } : Loader).feed n.net.maxMsg bytes
  fdApply tbl n c l' (l'.msgs.drop l.msgs.length) (l'.corrupted && !l.corrupted) fds

/-- drop the given connections one after the other (pending_unix_fds_timeout_cb: dbus_connection_close) -/
def dropAll (tbl : List IfaceRow) (b : Bus) : List ConnId → Bus × List FdTx
  | [] => (b, [])
  | c :: cs =>
    let t := step tbl b (.invalid c)
    let r := dropAll tbl t.bus cs
    (r.1, (t, []) :: r.2)

def fdStep (tbl : List IfaceRow) (n : FdNet) : FdOp → FdNet × List FdTx
  | .pendingTimeout =>
    let r := dropAll tbl n.net.bus ((n.pending.filter (fun p => !p.2.isEmpty)).map (·.1))
    (({ n with net := { n.net with bus := r.1 } } : FdNet).sweep, r.2)
  | .connect c uid gids canFd =>
    if (n.net.bus.conn? c).isSome then (n, [])
    else
      let t := step tbl n.net.bus (.connect c uid gids canFd)
      (({ n with net := ({ n.net with bus := t.bus } : Net).setLoader c {} } : FdNet).sweep, [(t, [])])
  | .close c =>
    let t := step tbl n.net.bus (.close c)
    (({ n with net := { n.net with bus := t.bus } } : FdNet).sweep, [(t, [])])
  | .timeout =>
    let t := step tbl n.net.bus .timeout
    (({ n with net := { n.net with bus := t.bus } } : FdNet).sweep, [(t, [])])
  | .write c bytes fds =>
    match n.net.bus.conn? c with
    | none => ({ n with closed := n.closed ++ fds }, [])          -- nobody is reading that socket
    | some x =>
      if x.canFd && decide (fds.length > n.maxMsgFds - (n.pendingOf c).length) then
        -- control data truncated: everything received is closed, the read fails, the connection goes
        let t := step tbl n.net.bus (.invalid c)
        (({ n with net := { n.net with bus := t.bus }, closed := n.closed ++ fds } : FdNet).sweep, [(t, [])])
      else if x.canFd then fdWrite tbl n c bytes fds
      else
        -- read with plain read(): the kernel discards the descriptors
        fdWrite tbl { n with closed := n.closed ++ fds } c bytes []

def fdRun (tbl : List IfaceRow) (n : FdNet) : List FdOp → FdNet
  | [] => n
  | op :: ops => fdRun tbl (fdStep tbl n op).1 ops

/-- every token handed to the bus by a history -/
def received : List FdOp → List Fd
  | [] => []
  | .write _ _ fds :: ops => fds ++ received ops
  | _ :: ops => received ops

def FdNet.allPending (n : FdNet) : List Fd := n.pending.flatMap (·.2)

end Dbus.Model.Bus
