import Dbus.Model.Bus.Core
/-
  Service activation on top of the bus core: bus/activation.c (`bus_activation_activate_service`,
  `bus_activation_service_created`, `bus_activation_send_pending_auto_activation_messages`,
  `pending_activation_failed`, `pending_activation_finished_cb`, `pending_activation_timed_out`),
  the auto-start branch of `bus_dispatch`, `bus_driver_handle_activate_service`, and the two calls
  `bus_registry_ensure` / `bus_registry_acquire_service` make into the activation code.

  The layer re-states the path a message takes through `bus_dispatch` with these calls in place and
  delegates everything else to the core (`Dbus.Model.Bus.step`).  Started processes are outside the
  model: a start is an output (`spawned`), what the process then does arrives as events — a
  connection taking the name (an ordinary RequestName), `childExited`, `actTimeout`.

  Not modelled: systemd activation, the setuid helper path of the daemon (the helper itself is
  `Dbus.Model.Helper`), service files naming unique (`:x.y`) names, reloading of service directories.
-/
namespace Dbus.Model.Bus
open Dbus Dbus.Spec Dbus.Model

/-- `BusPendingActivationEntry`: who waits, the message that made it wait (sender already stamped),
    auto-start or StartServiceByName -/
structure ActEntry where
  conn : ConnId
  msg : Msg
  auto : Bool
  deriving Inhabited

/-- `BusPendingActivation` -/
structure PendingAct where
  name : Bytes
  exec : Bytes
  entries : List ActEntry         -- arrival order (`_dbus_list_append`)
  child : Option Nat := none      -- which started program it waits for (`none`: the Exec file does not exist)
  deriving Inhabited

/-- `BusActivationEntry`: what the service directories say about a name -/
structure SvcFile where
  name : Bytes
  exec : Bytes
  parses : Bool := true           -- does `_dbus_shell_parse_argv` accept the Exec line
  runs : Bool := true             -- can the program be executed at all
  refuse : Option Bytes := none   -- the error with which a start is refused before anything is parsed or started: a bus with a
                                  -- <servicehelper> refuses a service file without User= (Spawn.FileInvalid)
  deriving Inhabited

structure ABus where
  core : Bus := {}
  files : List SvcFile := []
  acts : List PendingAct := []    -- `pending_activations`, in creation order
  maxPending : Nat := 512         -- max_pending_service_starts
  nspawn : Nat := 0               -- ghost: programs started so far (they are numbered in starting order)
  deriving Inhabited

/-- a transaction of the core plus what it does to the pending activations and which programs it starts -/
structure ATx where
  t : Tx
  acts : List PendingAct
  spawned : List (Bytes × Option Nat) := []   -- names whose program was started, with the program's number
  killed : List (Bytes × Option Nat) := []    -- programs killed (timeout)
  nspawn : Nat := 0
  deriving Inhabited

def ERR_SERVICE_UNKNOWN : Bytes := Err.serviceUnknown.name
def ERR_LIMITS : Bytes := Err.limitsExceeded.name
def ERR_INVALID_ARGS : Bytes := Err.invalidArgs.name
def ERR_TIMED_OUT : Bytes := errPrefix ++ (/- "TimedOut" -/ [0x54,0x69,0x6d,0x65,0x64,0x4f,0x75,0x74] : Bytes)
def ERR_CHILD_EXITED : Bytes := errPrefix ++ (/- "Spawn.ChildExited" -/ [0x53,0x70,0x61,0x77,0x6e,0x2e,0x43,0x68,0x69,0x6c,0x64,0x45,0x78,0x69,0x74,0x65,0x64] : Bytes)
def ERR_CHILD_SIGNALED : Bytes := errPrefix ++ (/- "Spawn.ChildSignaled" -/ [0x53,0x70,0x61,0x77,0x6e,0x2e,0x43,0x68,0x69,0x6c,0x64,0x53,0x69,0x67,0x6e,0x61,0x6c,0x65,0x64] : Bytes)
def ERR_EXEC_FAILED : Bytes := errPrefix ++ (/- "Spawn.ExecFailed" -/ [0x53,0x70,0x61,0x77,0x6e,0x2e,0x45,0x78,0x65,0x63,0x46,0x61,0x69,0x6c,0x65,0x64] : Bytes)

def START_SERVICE : Bytes := (/- "StartServiceByName" -/ [0x53,0x74,0x61,0x72,0x74,0x53,0x65,0x72,0x76,0x69,0x63,0x65,0x42,0x79,0x4e,0x61,0x6d,0x65] : Bytes)
def REQUEST_NAME : Bytes := (/- "RequestName" -/ [0x52,0x65,0x71,0x75,0x65,0x73,0x74,0x4e,0x61,0x6d,0x65] : Bytes)

/-- `dbus_message_new_error (in_reply_to, name, text)` for any error name -/
def mkErrorNamed (inReplyTo : Msg) (name : Bytes) : Msg :=
  mkMsg 3 ([u32Field FIELD_REPLY_SERIAL inReplyTo.serial, strField FIELD_ERROR_NAME name] ++
           (match inReplyTo.sender with | some s => [strField FIELD_DESTINATION s] | none => []))
    [tStr] [sStr []]

/-- `bus_transaction_send_error_reply` -/
def sendErrorNamed (t : Tx) (to : ConnId) (inReplyTo : Msg) (name : Bytes) : Tx :=
  sendFromDriver t to (mkErrorNamed inReplyTo name)

def nEntries (acts : List PendingAct) : Nat := (acts.map (·.entries.length)).sum
def findAct (acts : List PendingAct) (n : Bytes) : Option PendingAct := acts.find? (·.name == n)
def dropAct (acts : List PendingAct) (n : Bytes) : List PendingAct := acts.filter (·.name != n)
def connected (b : Bus) (c : ConnId) : Bool := (b.conn? c).isSome

def joinAct (e : ActEntry) (n : Bytes) (pa : PendingAct) : PendingAct :=
  if pa.name == n then { pa with entries := pa.entries ++ [e] } else pa

/-- `bus_activation_activate_service` (no systemd, no helper). The order of the checks is the
    code's: limit, service file, sender policy (auto-start only; there is no recipient yet, so only
    the sender's send rules can object and nothing is recorded), already running (StartServiceByName
    only), join a pending activation or start the program. A program whose Exec line does not parse
    is never started and nothing stays pending. -/
def activateService (files : List SvcFile) (maxPending : Nat) (x : ATx) (c : ConnId) (auto : Bool) (m : Msg)
    (n : Bytes) : ATx × Option Bytes :=
  if nEntries x.acts ≥ maxPending then (x, some ERR_LIMITS)
  else
    match files.find? (·.name == n) with
    | none => (x, some ERR_SERVICE_UNKNOWN)
    | some f =>
      match (if auto then (checkPolicy x.t.bus (some c) none none m).2 else none) with
      | some e => (x, some e.name)
      | none =>
        if !auto && (x.t.bus.service? n).isSome then
          ({ x with t := reply x.t c m [tU32] [.fixed .u32 2] }, none)        -- DBUS_START_REPLY_ALREADY_RUNNING
        else
          match findAct x.acts n with
          | some _ => ({ x with acts := x.acts.map (joinAct { conn := c, msg := m, auto := auto } n) }, none)
          | none =>
            if f.refuse.isSome then (x, f.refuse)
            else if !f.parses then (x, some ERR_INVALID_ARGS)
            else if f.runs then
              ({ x with acts := x.acts ++ [{ name := n, exec := f.exec, entries := [{ conn := c, msg := m, auto := auto }],
                                             child := some x.nspawn }],
                        spawned := x.spawned ++ [(n, some x.nspawn)], nspawn := x.nspawn + 1 }, none)
            else
              ({ x with acts := x.acts ++ [{ name := n, exec := f.exec, entries := [{ conn := c, msg := m, auto := auto }] }],
                        spawned := x.spawned ++ [(n, none)] }, none)

/-- `bus_activation_service_created`: StartServiceByName callers still connected get their reply -/
def replyStarted (t : Tx) (e : ActEntry) : Tx :=
  if !e.auto && connected t.bus e.conn then reply t e.conn e.msg [tU32] [.fixed .u32 1] else t   -- DBUS_START_REPLY_SUCCESS

def serviceCreated (t : Tx) (pa : PendingAct) : Tx := pa.entries.foldl replyStarted t

/-- one held message resumes where `bus_dispatch` left off: the full gate, now that there is a
    recipient; a refusal goes back to the message's sender, not to the service -/
def deliverHeld (owner : ConnId) (t : Tx) (e : ActEntry) : Tx :=
  if e.auto && connected t.bus e.conn then
    match dispatchMatches t (some e.conn) (some owner) e.msg with
    | (t, some err) => sendError t e.conn e.msg err
    | (t, none) => t
  else t

/-- `bus_activation_send_pending_auto_activation_messages`: held messages in arrival order, then the
    pending activation is forgotten -/
def sendPending (x : ATx) (n : Bytes) : ATx :=
  match findAct x.acts n, x.t.bus.primary? n with
  | some pa, some owner => { x with t := pa.entries.foldl (deliverHeld owner) x.t, acts := dropAct x.acts n }
  | _, _ => x

/-- `bus_registry_acquire_service` with the activation calls in place. A name that had no owner is
    created by `bus_registry_ensure`: NameOwnerChanged, the replies to StartServiceByName callers,
    then the first owner joins (NameAcquired); after any successful acquisition the held messages go
    out. -/
def acquireA (x : ATx) (c : ConnId) (n : Bytes) (flags : Nat) : ATx × Except Err Nat :=
  if !validateBusName n then (x, .error .invalidArgs)
  else if n.head? == some 0x3a then (x, .error .invalidArgs)
  else if n == BUS_NAME then (x, .error .invalidArgs)
  else if !canOwn (connPolicy x.t.bus c) n then (x, .error .accessDenied)
  else if nOwned x.t.bus c ≥ x.t.bus.limits.maxNames then (x, .error .limitsExceeded)
  else if (ownersOf x.t.bus n).isEmpty then
    let t1 := emitSig n x.t (.changed none (some c))
    let t2 := match findAct x.acts n with | some pa => serviceCreated t1 pa | none => t1
    let t3 := emitSig n t2 (.acquired c)
    let t4 : Tx := { t3 with bus := syncOwned (t3.bus.setOwners n [mkOwner c flags]) n [] [mkOwner c flags] }
    (sendPending { x with t := t4 } n, .ok REPLY_PRIMARY)
  else
    (sendPending { x with t := (acquire x.t c n flags).1 } n, .ok (qAcquire (ownersOf x.t.bus n) c flags).2.1)

/-- the driver's methods: RequestName and StartServiceByName meet the activation code, the rest is
    the core's -/
def runMethodA (files : List SvcFile) (maxPending : Nat) (x : ATx) (c : ConnId) (m : Msg) (iface name : Bytes) :
    ATx × Option Bytes :=
  if iface == BUS_NAME && name == START_SERVICE then
    activateService files maxPending x c false m (arg0 m)
  else if iface == BUS_NAME && name == REQUEST_NAME then
    match acquireA x c (arg0 m) (arg1Nat m) with
    | (x, .ok code) => ({ x with t := reply x.t c m [tU32] [.fixed .u32 code] }, none)
    | (x, .error e) => (x, some e.name)
  else
    match runMethod x.t c m (methodOf iface name) with
    | (t, e) => ({ x with t := t }, e.map (·.name))

/-- `bus_driver_handle_message` -/
def driverHandleA (tbl : List IfaceRow) (files : List SvcFile) (maxPending : Nat) (x : ATx) (c : ConnId) (m : Msg) :
    ATx × Option Bytes :=
  if m.mtype != 1 then (x, none)
  else
    let name := m.member.getD []
    let canonical := m.path == some DBUS_PATH
    match findHandler tbl canonical m.iface name with
    | .noInterface => (x, some Err.unknownInterface.name)
    | .noMethod => (x, some Err.unknownMethod.name)
    | .handler i row =>
      if row.privileged && !isRoot x.t.bus c then (x, some Err.accessDenied.name)
      else if !(canonical || row.anyPath) then (x, some Err.accessDenied.name)
      else if bodySig m != row.inSig then (x, some Err.invalidArgs.name)
      else runMethodA files maxPending x c m i row.name

def toDriverCoreA (tbl : List IfaceRow) (files : List SvcFile) (maxPending : Nat) (x : ATx) (c : ConnId) (m : Msg) :
    ATx × Option Bytes :=
  let (p, e) := checkPolicy x.t.bus (some c) none none m
  let x := { x with t := x.t.setPending p }
  match e with
  | some e => (x, some e.name)
  | none =>
    match driverHandleA tbl files maxPending x c m with
    | (x, some e) => (x, some e)
    | (x, none) =>
      match dispatchMatches x.t (some c) none (m.setSender (senderNameOf x.t.bus c)) with
      | (t, e) => ({ x with t := t }, e.map (·.name))

/-- as the core's `toDriver`: what monitors are shown carries the sender as re-stamped by Hello -/
def toDriverA (tbl : List IfaceRow) (files : List SvcFile) (maxPending : Nat) (x0 : ATx) (c : ConnId) (m : Msg) :
    ATx × Option Bytes :=
  let r := toDriverCoreA tbl files maxPending { x0 with t := { x0.t with mon := [] } } c m
  ({ r.1 with t := { r.1.t with
      mon := x0.t.mon ++ (captureTargets x0.t.bus (some c) none m).map
                (Out.deliver · (m.setSender (senderNameOf r.1.t.bus c))) ++ r.1.t.mon } },
   r.2)

/-- the routing branch of `bus_dispatch`: an ownerless destination starts the service unless the
    message says NO_AUTO_START -/
def routeA (files : List SvcFile) (maxPending : Nat) (x : ATx) (c : ConnId) (m : Msg) : ATx × Option Bytes :=
  match m.dest with
  | some d =>
    match x.t.bus.primary? d with
    | none =>
      if m.noAutoStart then ({ x with t := capture x.t (some c) none m }, some Err.nameHasNoOwner.name)
      else activateService files maxPending { x with t := capture x.t (some c) none m } c true m d
    | some a =>
      match dispatchMatches (capture x.t (some c) (some a) m) (some c) (some a) m with
      | (t, e) => ({ x with t := t }, e.map (·.name))
  | none =>
    match dispatchMatches (capture x.t (some c) none m) (some c) none m with
    | (t, e) => ({ x with t := t }, e.map (·.name))

def finishA (r : ATx × Option Bytes) (c : ConnId) (m : Msg) : ATx :=
  match r with
  | (x, some e) => { x with t := sendErrorNamed x.t c m e }
  | (x, none) => x

def ofCore (a : ABus) (t : Tx) : ATx := { t := t, acts := a.acts, nspawn := a.nspawn }

/-- `bus_dispatch` -/
def dispatchA (tbl : List IfaceRow) (a : ABus) (c : ConnId) (m0 : Msg) : ATx :=
  match a.core.conn? c with
  | none => ofCore a { bus := a.core }
  | some x =>
    let m := strip m0
    if m.dest.isNone && m.iface == some PEER_IFACE then ofCore a (dispatch tbl a.core c m0)
    else if x.monitor then ofCore a (dispatch tbl a.core c m0)
    else if m.dest.isNone && m.mtype != 4 then ofCore a (dispatch tbl a.core c m0)
    else
      let m := m.setSender (senderNameOf a.core c)
      if m.dest == some BUS_NAME then
        let r := finishA (toDriverA tbl a.files a.maxPending (ofCore a { bus := a.core }) c m) c m
        { r with t := sweepMonitors r.t }
      else if x.name.isNone then ofCore a (dispatch tbl a.core c m0)
      else finishA (routeA a.files a.maxPending (ofCore a { bus := a.core }) c m) c m

/-- every waiter still connected gets the error (`try_send_activation_failure`), the pending
    activation goes (`pending_activation_failed`) -/
def failEntry (err : Bytes) (t : Tx) (e : ActEntry) : Tx :=
  if connected t.bus e.conn then sendErrorNamed t e.conn e.msg err else t

def failAct (err : Bytes) (x : ATx) (pa : PendingAct) : ATx :=
  { x with t := pa.entries.foldl (failEntry err) x.t, acts := dropAct x.acts pa.name }

/-- `pending_activation_finished_cb` for a child that failed: every other pending activation with
    the same command line fails with it -/
def childFailed (x : ATx) (n : Bytes) (err : Bytes) : ATx :=
  match findAct x.acts n with
  | none => x
  | some pa =>
    failAct err ((x.acts.filter fun p => p.name != n && p.exec == pa.exec).foldl (failAct err) x) pa

/-- `pending_activation_timed_out` -/
def timedOut (x : ATx) (n : Bytes) : ATx :=
  match findAct x.acts n with
  | none => x
  | some pa => { failAct ERR_TIMED_OUT x pa with killed := x.killed ++ [(n, pa.child)] }

inductive AEv
  | core (e : Ev)
  | childExited (child : Nat) (err : Option Bytes)   -- started program number `child` is gone; `none`: exit status 0, which the bus ignores
  | execFailed (name : Bytes)                        -- the program for `name` could not be executed
  | actTimeout (name : Bytes)
  deriving Inhabited

def stepA (tbl : List IfaceRow) (a : ABus) : AEv → ATx
  | .core (.msg c m) => dispatchA tbl a c m
  | .core e => ofCore a (step tbl a.core e)
  | .childExited _ none => ofCore a { bus := a.core }
  | .childExited k (some err) =>
    match a.acts.find? (·.child == some k) with
    | some pa => childFailed (ofCore a { bus := a.core }) pa.name err
    | none => ofCore a { bus := a.core }       -- its pending activation is over: nobody is listening
  | .execFailed n =>
    match findAct a.acts n with
    | some pa => if pa.child.isNone then childFailed (ofCore a { bus := a.core }) n ERR_EXEC_FAILED else ofCore a { bus := a.core }
    | none => ofCore a { bus := a.core }
  | .actTimeout n => timedOut (ofCore a { bus := a.core }) n

def ABus.next (a : ABus) (x : ATx) : ABus := { a with core := x.t.bus, acts := x.acts, nspawn := x.nspawn }

def runA (tbl : List IfaceRow) (a : ABus) (evs : List AEv) : ABus × List ATx :=
  evs.foldl (fun (acc : ABus × List ATx) ev => (acc.1.next (stepA tbl acc.1 ev), acc.2 ++ [stepA tbl acc.1 ev])) (a, [])

end Dbus.Model.Bus
