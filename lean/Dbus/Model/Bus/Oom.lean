import Dbus.Model.Bus.Core
/-
  Out-of-memory while the bus handles a message (C14).

  Part 1, the contract: whatever allocation fails while `bus_dispatch` works on a message, the
  transaction is cancelled as a unit and the sender gets the preallocated NoMemory error
  (`bus_connection_send_oom_error`): `stepOom` — the state is the one before, the only output is
  that error.  (A failure before `bus_dispatch` is reached, in the connection's own machinery,
  leaves the message queued; it is dispatched again once memory is back, which is `step`.)

  Part 2, the mechanism (bus/services.c, bus/connection.c): state is changed eagerly while the
  transaction is built, each change leaves an undo hook (`add_cancel_ownership_to_transaction`,
  `add_restore_ownership_to_transaction`, `cancel_pending_reply`, the hook of
  `bus_connections_check_reply`), and `bus_transaction_cancel_and_free` runs the hooks newest
  first.  The owner-queue half of it is modelled here on the pure queues of `Registry`.
-/
namespace Dbus.Model.Bus
open Dbus Dbus.Spec Dbus.Model

def ERR_NO_MEMORY : Bytes := errPrefix ++ (/- "NoMemory" -/ [0x4e,0x6f,0x4d,0x65,0x6d,0x6f,0x72,0x79] : Bytes)

/-- the preallocated error of `bus_connection_preallocate_oom_error` with the reply serial patched in
    (its DESTINATION is the connection's name if it had one when the message was preallocated: not modelled) -/
def oomReply (m : Msg) : Msg :=
  { mkMsg 3 [strField FIELD_ERROR_NAME ERR_NO_MEMORY, strField FIELD_SENDER BUS_NAME, u32Field FIELD_REPLY_SERIAL m.serial] [] []
    with flags := 0 }

/-- `bus_dispatch` running out of memory: nothing happens but the error -/
def stepOom (b : Bus) (c : ConnId) (m : Msg) : Tx :=
  if (b.conn? c).isSome then { bus := b, out := [.deliver c (oomReply (strip m))] } else { bus := b }

/-! ### the mechanism: eager change + undo hook -/

/-- undo hooks of bus/services.c -/
inductive Hook
  /-- `cancel_ownership`: the owner added by `bus_service_add_owner` is unlinked again -/
  | cancelOwnership (c : ConnId)
  /-- `restore_ownership`: the owner removed by `bus_service_remove_owner` / moved by `bus_service_swap_owner`
      goes back in front of `before` (at the end when `before` is none or gone) -/
  | restoreOwnership (o : Owner) (before : Option ConnId)
  deriving Repr

/-- a queue being edited inside a transaction: the queue now, and the hooks so far (newest first) -/
structure QTx where
  q : List Owner
  hooks : List Hook := []
  deriving Repr

/-- `bus_service_add_owner` for a connection not yet in the queue: append, or second place with
    REPLACE_EXISTING (mechanism of `qAdd`), leaving a cancel hook -/
def QTx.addOwner (t : QTx) (c : ConnId) (flags : Nat) : QTx :=
  { q := (qAdd t.q c flags).1, hooks := (if inQueue t.q c then [] else [Hook.cancelOwnership c]) ++ t.hooks }

/-- insert `o` in front of the entry of `before`; at the end if there is none -/
def insertBefore (o : Owner) (before : Option ConnId) : List Owner → List Owner
  | [] => [o]
  | x :: rest => if some x.conn == before then o :: x :: rest else x :: insertBefore o before rest

/-- `bus_service_remove_owner`: the primary owner goes, remembered together with its successor
    (`add_restore_ownership_to_transaction`); any other entry is simply unlinked — that branch of the C
    function registers no hook (known finding F23) -/
def QTx.removeOwner (t : QTx) (c : ConnId) : QTx :=
  match t.q with
  | [] => t
  | p :: rest =>
    if p.conn == c then { q := rest, hooks := Hook.restoreOwnership p (rest.head?.map (·.conn)) :: t.hooks }
    else { t with q := t.q.filter (·.conn != c) }

/-- `bus_service_swap_owner`: the primary owner steps down to second place (`qSwap`); on cancel it is
    taken out and put back in front of the then-first entry -/
def QTx.swapOwner (t : QTx) (c : ConnId) : QTx :=
  match t.q with
  | p :: q :: rest =>
    if p.conn == c then { q := q :: p :: rest, hooks := Hook.restoreOwnership p (some q.conn) :: t.hooks } else t
  | _ => t

def undo (q : List Owner) : Hook → List Owner
  | .cancelOwnership c => q.filter (·.conn != c)
  | .restoreOwnership o before => insertBefore o before (q.filter (·.conn != o.conn))

/-- `bus_transaction_cancel_and_free`: hooks run newest first -/
def QTx.cancel (t : QTx) : List Owner := t.hooks.foldl undo t.q

end Dbus.Model.Bus
