import Dbus.Generated.Tables
import Dbus.Model.Bus.Core
/- the driver's method table as regenerated from bus/driver.c on every run -/
namespace Dbus.Model.Bus
open Dbus

def driverTable : List IfaceRow :=
  Dbus.Generated.driverTable.map fun (n, anyp, ms) =>
    { name := n.toUTF8.toList, anyPath := anyp,
      methods := ms.map fun (mn, sg, ap, pr) =>
        { name := mn.toUTF8.toList, inSig := sg.toUTF8.toList, anyPath := ap, privileged := pr } }

end Dbus.Model.Bus
