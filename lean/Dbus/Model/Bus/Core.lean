import Dbus.Model.Bus.Registry
/-
  Executable model of the message bus: bus/dispatch.c (`bus_dispatch`, `bus_dispatch_matches`),
  bus/driver.c (the org.freedesktop.DBus methods), bus/services.c (name registry and owner
  queues), bus/connection.c (per-connection state, transactions' message order, pending replies,
  disconnect cleanup), bus/bus.c (`bus_context_check_security_policy`).

  One `step` is what the single-threaded daemon does for one complete incoming message, one new
  connection or one disconnect.  Out-of-memory paths are not in this model (C14 treats them).
-/
namespace Dbus.Model.Bus
open Dbus Dbus.Spec Dbus.Model

/-! ### state access -/

def Bus.conn? (b : Bus) (c : ConnId) : Option Conn := b.conns.find? (·.id == c)
def Bus.service? (b : Bus) (n : Bytes) : Option Service := b.services.find? (·.name == n)
def Bus.primary? (b : Bus) (n : Bytes) : Option ConnId :=
  match b.service? n with
  | some s => s.owners.head?.map (·.conn)
  | none => none
def Bus.updConn (b : Bus) (c : ConnId) (f : Conn → Conn) : Bus :=
  { b with conns := b.conns.map fun x => if x.id == c then f x else x }
def Bus.isActive (b : Bus) (c : ConnId) : Bool :=
  match b.conn? c with | some x => x.name.isSome | none => false
def Bus.nameOf (b : Bus) (c : ConnId) : Option Bytes := (b.conn? c).bind (·.name)
def Bus.uniqueOrEmpty (b : Bus) (c : ConnId) : Bytes := (b.nameOf c).getD []

/-- replace (or create, at the end) the queue of a name; an empty queue unregisters the name -/
def Bus.setOwners (b : Bus) (n : Bytes) (os : List Owner) : Bus :=
  if os.isEmpty then { b with services := b.services.filter (·.name != n) }
  else if b.services.any (·.name == n) then
    { b with services := b.services.map fun s => if s.name == n then { s with owners := os } else s }
  else { b with services := b.services ++ [{ name := n, owners := os }] }

def Bus.queuedFor (b : Bus) (c : ConnId) : List Bytes :=
  (b.services.filter fun s => s.owners.any (·.conn == c)).map (·.name)

def Bus.peerInfo (b : Bus) (c : Option ConnId) : PeerInfo :=
  match c with
  | none => { present := false, queuedFor := [] }
  | some c => { present := true, queuedFor := b.queuedFor c }

/-- accumulated effects of the transaction being built -/
structure Tx where
  bus : Bus
  out : List Out := []
  deriving Inhabited

def Tx.emit (t : Tx) (o : Out) : Tx := { t with out := t.out ++ [o] }

/-! ### match-rule context of a message -/

def argView : Val → Option (Bool × Bytes)
  | .str .str s => some (false, s)
  | .str .path s => some (true, s)
  | _ => none

def matchCtx (b : Bus) (sender : Option ConnId) (addressed : Option ConnId) (m : Msg) : MatchCtx :=
  { mtype := m.mtype, iface := m.iface, member := m.member, path := m.path, dest := m.dest,
    senderIsBus := sender.isNone,
    senderOwns := fun n => match sender with | some s => b.primary? n == some s | none => false,
    hasRecipient := addressed.isSome,
    recipientOwns := fun n => match addressed with | some r => b.primary? n == some r | none => false,
    args := m.body.map argView }

def msgView (m : Msg) : MsgView :=
  { mtype := m.mtype, path := m.path, iface := m.iface, member := m.member, error := m.errName,
    dest := m.dest, sender := m.sender, isReply := m.replySerial != 0, nFds := m.nFds }

/-! ### `bus_context_check_security_policy` -/

/-- `bus_connections_check_reply`: a pending entry (callee = replier, caller = receiver, serial)
    exists; it is consumed -/
def checkReply (b : Bus) (replier receiver : ConnId) (serial : Nat) : Bus × Bool :=
  let p : Pending := { caller := receiver, callee := replier, serial := serial }
  if b.pending.contains p then ({ b with pending := b.pending.erase p }, true) else (b, false)

/-- `bus_connections_expect_reply` -/
def expectReply (b : Bus) (caller callee : ConnId) (call : Msg) : Bus × Option Err :=
  if call.noReply then (b, none)
  else
    let p : Pending := { caller := caller, callee := callee, serial := call.serial }
    if b.pending.contains p then (b, some .accessDenied)
    else if (b.pending.filter (·.caller == caller)).length ≥ b.limits.maxReplies then (b, some .limitsExceeded)
    else ({ b with pending := p :: b.pending }, none)

/-- the gate every delivery passes; `sender = none` is the bus driver, `proposed = none` means
    the message is addressed to the bus driver itself. Returns the updated pending-reply state. -/
def checkPolicy (b : Bus) (sender addressed proposed : Option ConnId) (m : Msg) : Bus × Option Err :=
  if !(m.mtype == 1 || m.mtype == 2 || m.mtype == 3 || m.mtype == 4) then (b, some .accessDenied)
  else
    let v := msgView m
    -- requested_reply
    let (b, requested, senderRules, senderInactive) :=
      match sender with
      | some s =>
        if b.isActive s then
          let rules := match b.conn? s with | some c => c.policy | none => []
          if v.isReply && proposed.isSome && addressed == proposed then
            match addressed with
            | some r => let (b', ok) := checkReply b s r m.replySerial; (b', ok, some rules, false)
            | none => (b, false, some rules, false)
          else (b, false, some rules, false)
        else (b, false, none, true)
      | none => (b, decide (addressed = proposed) && v.isReply, none, false)
    if senderInactive then
      -- an inactive connection may only say Hello to the bus driver
      if proposed.isNone && m.mtype == 1 && m.iface == some BUS_NAME && m.member == some (ascii' "Hello")
      then (b, none) else (b, some .accessDenied)
    else
      let recvRules : Option (List PRule) :=
        match proposed with
        | some p => if b.isActive p then (b.conn? p).map (·.policy) else none
        | none => none
      let sendOK := match senderRules with
        | some rules => canSend b.limits.maxFdsDefault rules v requested (b.peerInfo proposed)
        | none => true
      if !sendOK then (b, some .accessDenied)
      else
        let eavesdropping := decide (addressed ≠ proposed) && v.dest.isSome
        let recvOK := match recvRules with
          | some rules => canReceive b.limits.maxFdsDefault rules v requested eavesdropping (b.peerInfo sender)
          | none => true
        if !recvOK then (b, some .accessDenied)
        else
          match sender, addressed with
          | some s, some a =>
            if m.mtype == 1 && addressed == proposed then expectReply b s a m else (b, none)
          | _, _ => (b, none)

/-! ### sending -/

/-- `bus_transaction_send_from_driver`: stamp, address, gate, queue -/
def sendFromDriver (t : Tx) (to : ConnId) (m : Msg) : Tx :=
  let m := m.setSender BUS_NAME
  let m := match t.bus.nameOf to with | some n => m.setDest n | none => m
  let m := m.setNoReply
  let (b, err) := checkPolicy t.bus none (some to) (some to) m
  match err with
  | some _ => { t with bus := b }
  | none => { t with bus := b }.emit (.deliver to m)

def sendError (t : Tx) (to : ConnId) (inReplyTo : Msg) (e : Err) : Tx :=
  sendFromDriver t to (mkError inReplyTo e)

/-- connections with a rule matching the message, in connection order, without `addressed` -/
def recipients (b : Bus) (sender addressed : Option ConnId) (m : Msg) : List ConnId :=
  let ctx := matchCtx b sender addressed m
  (b.conns.filter fun c => !c.monitor && some c.id != addressed && c.rules.any (fun r => ruleMatches r ctx)).map (·.id)

/-- `send_one_message` for a match-rule recipient: silently skipped when refused -/
def sendOne (t : Tx) (sender addressed : Option ConnId) (to : ConnId) (m : Msg) : Tx :=
  let (b, err) := checkPolicy t.bus sender addressed (some to) m
  match err with
  | some _ => { t with bus := b }
  | none =>
    let canFd := match b.conn? to with | some c => c.canFd | none => false
    if m.nFds > 0 && !canFd then { t with bus := b }
    else { t with bus := b }.emit (.deliver to m)

/-- `bus_dispatch_matches`; an error means the addressed delivery was refused and nothing else
    was tried -/
def dispatchMatches (t : Tx) (sender addressed : Option ConnId) (m : Msg) : Tx × Option Err :=
  let (t, err) : Tx × Option Err :=
    match addressed with
    | some a =>
      let (b, err) := checkPolicy t.bus sender addressed addressed m
      let t := { t with bus := b }
      match err with
      | some e => (t, some e)
      | none =>
        let canFd := match b.conn? a with | some c => c.canFd | none => false
        if m.nFds > 0 && !canFd then (t, some .notSupported)
        else (t.emit (.deliver a m), none)
    | none => (t, none)
  match err with
  | some e => (t, some e)
  | none =>
    let rs := recipients t.bus sender addressed m
    (rs.foldl (fun t r => sendOne t sender addressed r m) t, none)

/-! ### driver signals -/

def sigOwnerChanged (t : Tx) (name old new : Bytes) : Tx :=
  let m := (mkSignal (ascii' "NameOwnerChanged") [tStr, tStr, tStr] [sStr name, sStr old, sStr new]).setSender BUS_NAME
  (dispatchMatches t none none m).1

def sigAcquired (t : Tx) (to : ConnId) (name : Bytes) : Tx :=
  sendFromDriver t to (mkSignal (ascii' "NameAcquired") [tStr] [sStr name])

def sigLost (t : Tx) (to : ConnId) (name : Bytes) : Tx :=
  sendFromDriver t to (mkSignal (ascii' "NameLost") [tStr] [sStr name])

/-! ### bus/services.c on top of the pure queue operations of `Registry` -/

def ownersOf (b : Bus) (n : Bytes) : List Owner := match b.service? n with | some s => s.owners | none => []

def addOwned (b : Bus) (c : ConnId) (n : Bytes) : Bus := b.updConn c fun x => { x with owned := x.owned ++ [n] }
/-- `_dbus_list_remove_last (&d->services_owned, service)` -/
def removeLast (l : List Bytes) (n : Bytes) : List Bytes := (l.reverse.erase n).reverse
def dropOwned (b : Bus) (c : ConnId) (n : Bytes) : Bus := b.updConn c fun x => { x with owned := removeLast x.owned n }

/-- keep every connection's `services_owned` in step with the queue of `n` changing from `os` to `os'` -/
def syncOwned (b : Bus) (n : Bytes) (os os' : List Owner) : Bus :=
  { b with conns := b.conns.map fun x =>
      let was := os.any (·.conn == x.id)
      let is := os'.any (·.conn == x.id)
      if !was && is then { x with owned := x.owned ++ [n] }
      else if was && !is then { x with owned := removeLast x.owned n }
      else x }

def connName (b : Bus) : Option ConnId → Bytes
  | some c => b.uniqueOrEmpty c
  | none => []

def emitSig (n : Bytes) (t : Tx) : Sig → Tx
  | .lost c => sigLost t c n
  | .acquired c => sigAcquired t c n
  | .changed old new => sigOwnerChanged t n (connName t.bus old) (connName t.bus new)

/-- install the new queue of `n` and send the signals, in order -/
def applyQueue (t : Tx) (n : Bytes) (os' : List Owner) (sigs : List Sig) : Tx :=
  let os := ownersOf t.bus n
  let t := sigs.foldl (emitSig n) t
  { t with bus := syncOwned (t.bus.setOwners n os') n os os' }

def nOwned (b : Bus) (c : ConnId) : Nat := match b.conn? c with | some x => x.owned.length | none => 0

/-- `bus_registry_acquire_service` -/
def acquire (t : Tx) (c : ConnId) (n : Bytes) (flags : Nat) : Tx × Except Err Nat :=
  if !validateBusName n then (t, .error .invalidArgs)
  else if n.head? == some 0x3a then (t, .error .invalidArgs)
  else if n == BUS_NAME then (t, .error .invalidArgs)
  else
    let rules := match t.bus.conn? c with | some x => x.policy | none => []
    if !canOwn rules n then (t, .error .accessDenied)
    else if nOwned t.bus c ≥ t.bus.limits.maxNames then (t, .error .limitsExceeded)
    else
      let (os', code, sigs) := qAcquire (ownersOf t.bus n) c flags
      (applyQueue t n os' sigs, .ok code)

/-- `bus_registry_release_service` -/
def release (t : Tx) (c : ConnId) (n : Bytes) : Tx × Except Err Nat :=
  if !validateBusName n then (t, .error .invalidArgs)
  else if n.head? == some 0x3a then (t, .error .invalidArgs)
  else if n == BUS_NAME then (t, .error .invalidArgs)
  else
    let (os', code, sigs) := qRelease (ownersOf t.bus n) c
    (applyQueue t n os' sigs, .ok code)

/-- `bus_service_remove_owner` as used by the disconnect path -/
def removeOwner (t : Tx) (n : Bytes) (c : ConnId) : Tx :=
  let (os', sigs) := qRemove (ownersOf t.bus n) c
  applyQueue t n os' sigs

/-- `bus_registry_ensure` for the fresh unique name at Hello -/
def ensureService (t : Tx) (n : Bytes) (c : ConnId) (flags : Nat) : Tx :=
  let (os', sigs) := qEnsure c flags
  applyQueue t n os' sigs

/-! ### unique names -/

def decAux : Nat → Nat → Bytes → Bytes
  | 0, _, acc => acc
  | f + 1, n, acc =>
    let acc' := (UInt8.ofNat (48 + n % 10)) :: acc
    if n / 10 = 0 then acc' else decAux f (n / 10) acc'
/-- decimal rendering (`_dbus_string_append_int`) -/
def dec (n : Nat) : Bytes := decAux (n + 1) n []

def uniqueName (major minor : Nat) : Bytes := 0x3a :: (dec major ++ 0x2e :: dec minor)

/-- `create_unique_client_name`: mint from the counters, skipping names already registered
    (fuel: at most one collision per registered name) -/
def mintAux : Nat → Bus → Bus × Bytes
  | 0, b => (b, uniqueName b.nextMajor b.nextMinor)
  | f + 1, b =>
    let (maj, mnr) := if b.nextMinor = 0 then (b.nextMajor + 1, 0) else (b.nextMajor, b.nextMinor)
    let nm := uniqueName maj mnr
    let b := { b with nextMajor := maj, nextMinor := mnr + 1 }
    if (b.service? nm).isNone then (b, nm) else mintAux f b

def mint (b : Bus) : Bus × Bytes := mintAux (b.services.length + 1) b

/-! ### driver methods -/

def reply (t : Tx) (c : ConnId) (call : Msg) (tys : List Ty) (body : List Val) : Tx :=
  sendFromDriver t c (mkReturn call tys body)

def nCompleted (b : Bus) : Nat := (b.conns.filter (·.name.isSome)).length
def nCompletedFor (b : Bus) (uid : Nat) : Nat := (b.conns.filter fun x => x.name.isSome && x.uid == uid).length

/-- `bus_driver_handle_hello` -/
def hello (t : Tx) (c : ConnId) (m : Msg) : Tx × Option Err :=
  if t.bus.isActive c then (t, some .failed)
  else
    let uid := match t.bus.conn? c with | some x => x.uid | none => 0
    if nCompleted t.bus ≥ t.bus.limits.maxCompleted then (t, some .limitsExceeded)
    else if nCompletedFor t.bus uid ≥ t.bus.limits.maxPerUser then (t, some .limitsExceeded)
    else
      let (b, nm) := mint t.bus
      let b := b.updConn c fun x =>
        { x with name := some nm, policy := b.policy.clientRules x.uid x.gids false }
      let t := { t with bus := b }
      let t := reply t c (m.setSender nm) [tStr] [sStr nm]
      (ensureService t nm c 0, none)

def arg0 (m : Msg) : Bytes := match m.body with | (.str _ s) :: _ => s | _ => []
def arg1Nat (m : Msg) : Nat := match m.body with | _ :: (.fixed _ n) :: _ => n | _ => 0

def sortBytes (l : List Bytes) : List Bytes := l.mergeSort (fun a b => decide (a.map (·.toNat) ≤ b.map (·.toNat)))

inductive Method
  | hello | requestName | releaseName | nameHasOwner | listNames | addMatch | removeMatch
  | getNameOwner | listQueuedOwners | getUnixUser | ping | becomeMonitor
  | opaqueM                      -- implemented by the bus, reply body not modelled
  deriving DecidableEq, Repr, Inhabited

/-- (interface, any-path flag, [(method, in-signature, any-path flag, privileged, which)]): mirror of
    `interface_handlers` / the `MessageHandler` tables (regenerated: see Generated.BusTables) -/
structure MethodRow where
  name : Bytes
  inSig : Bytes
  anyPath : Bool
  privileged : Bool
  deriving Repr, Inhabited

structure IfaceRow where
  name : Bytes
  anyPath : Bool
  methods : List MethodRow
  deriving Repr, Inhabited

def methodOf (iface name : Bytes) : Method :=
  if iface == BUS_NAME then
    if name == ascii' "Hello" then .hello
    else if name == ascii' "RequestName" then .requestName
    else if name == ascii' "ReleaseName" then .releaseName
    else if name == ascii' "NameHasOwner" then .nameHasOwner
    else if name == ascii' "ListNames" then .listNames
    else if name == ascii' "AddMatch" then .addMatch
    else if name == ascii' "RemoveMatch" then .removeMatch
    else if name == ascii' "GetNameOwner" then .getNameOwner
    else if name == ascii' "ListQueuedOwners" then .listQueuedOwners
    else if name == ascii' "GetConnectionUnixUser" then .getUnixUser
    else .opaqueM
  else if iface == ascii' "org.freedesktop.DBus.Peer" && name == ascii' "Ping" then .ping
  else if iface == ascii' "org.freedesktop.DBus.Monitoring" && name == ascii' "BecomeMonitor" then .becomeMonitor
  else .opaqueM

inductive Found
  | handler (iface : Bytes) (row : MethodRow)
  | noMethod
  | noInterface

/-- the two nested loops of `bus_driver_handle_message` -/
def findHandler (tbl : List IfaceRow) (canonical : Bool) (iface : Option Bytes) (name : Bytes) : Found :=
  let cands := tbl.filter fun ih => (canonical || ih.anyPath) && (match iface with | some i => i == ih.name | none => true)
  match cands.findSome? (fun ih => (ih.methods.find? (·.name == name)).map (fun r => (ih.name, r))) with
  | some (i, r) => .handler i r
  | none => if cands.isEmpty then .noInterface else .noMethod

def isRoot (b : Bus) (c : ConnId) : Bool := match b.conn? c with | some x => x.uid == 0 | none => false

/-- `bus_matchmaker_remove_rule_by_value`: the most recently added equal rule -/
def removeRule (rs : List MatchRule) (r : MatchRule) : Option (List MatchRule) :=
  match rs.reverse.findIdx? (fun x => ruleEqual x r) with
  | some i => some (rs.reverse.eraseIdx i).reverse
  | none => none

def runMethod (t : Tx) (c : ConnId) (m : Msg) (which : Method) : Tx × Option Err :=
  match which with
  | .hello => hello t c m
  | .requestName =>
    match acquire t c (arg0 m) (arg1Nat m) with
    | (t, .ok code) => (reply t c m [tU32] [.fixed .u32 code], none)
    | (t, .error e) => (t, some e)
  | .releaseName =>
    match release t c (arg0 m) with
    | (t, .ok code) => (reply t c m [tU32] [.fixed .u32 code], none)
    | (t, .error e) => (t, some e)
  | .nameHasOwner =>
    let n := arg0 m
    let has := n == BUS_NAME || (t.bus.service? n).isSome
    (reply t c m [.basic .bool] [.fixed .bool (if has then 1 else 0)], none)
  | .listNames =>
    let names := BUS_NAME :: sortBytes (t.bus.services.map (·.name))
    (reply t c m [.array tStr] [.array tStr (names.map sStr)], none)
  | .getNameOwner =>
    let n := arg0 m
    match t.bus.primary? n with
    | some o => (reply t c m [tStr] [sStr (t.bus.uniqueOrEmpty o)], none)
    | none => if n == BUS_NAME then (reply t c m [tStr] [sStr BUS_NAME], none) else (t, some .nameHasNoOwner)
  | .listQueuedOwners =>
    let n := arg0 m
    match ownersOf t.bus n with
    | [] => if n == BUS_NAME then (reply t c m [.array tStr] [.array tStr [sStr BUS_NAME]], none)
            else (t, some .nameHasNoOwner)
    | os => (reply t c m [.array tStr] [.array tStr (os.map fun o => sStr (t.bus.uniqueOrEmpty o.conn))], none)
  | .getUnixUser =>
    let n := arg0 m
    if n == BUS_NAME then (reply t c m [tU32] [.fixed .u32 0], none)      -- the daemon's own uid (root here)
    else match t.bus.primary? n with
      | some o => (reply t c m [tU32] [.fixed .u32 (match t.bus.conn? o with | some x => x.uid | none => 0)], none)
      | none => (t, some .nameHasNoOwner)
  | .ping => (reply t c m [] [], none)
  | .addMatch =>
    let nRules := match t.bus.conn? c with | some x => x.rules.length | none => 0
    if nRules ≥ t.bus.limits.maxRules then (t, some .limitsExceeded)
    else
      match parseRule (arg0 m) with
      | .ok r =>
        if r.eavesdrop && !isRoot t.bus c then (t, some .accessDenied)
        else
          let t := { t with bus := t.bus.updConn c fun x => { x with rules := x.rules ++ [r] } }
          (reply t c m [] [], none)
      | .tooLong => (t, some .limitsExceeded)
      | .invalid => (t, some .matchRuleInvalid)
  | .removeMatch =>
    match parseRule (arg0 m) with
    | .ok r =>
      -- the acknowledgement is queued before the rule is looked up
      let t := reply t c m [] []
      let rs := match t.bus.conn? c with | some x => x.rules | none => []
      match removeRule rs r with
      | some rs' => ({ t with bus := t.bus.updConn c fun x => { x with rules := rs' } }, none)
      | none => (t, some .matchRuleNotFound)
    | .tooLong => (t, some .limitsExceeded)
    | .invalid => (t, some .matchRuleInvalid)
  | .becomeMonitor => (t, some .failed)    -- replaced in Bus.Monitor
  | .opaqueM => (t.emit (.opaque c m.serial), none)

def bodySig (m : Msg) : Bytes := printList m.bodyTypes

/-- `bus_driver_handle_message` -/
def driverHandle (tbl : List IfaceRow) (t : Tx) (c : ConnId) (m : Msg) : Tx × Option Err :=
  if m.mtype != 1 then (t, none)
  else
    let name := m.member.getD []
    let canonical := m.path == some DBUS_PATH
    match findHandler tbl canonical m.iface name with
    | .noInterface => (t, some .unknownInterface)
    | .noMethod => (t, some .unknownMethod)
    | .handler i row =>
      if row.privileged && !isRoot t.bus c then (t, some .accessDenied)
      else if !(canonical || row.anyPath) then (t, some .accessDenied)
      else if bodySig m != row.inSig then (t, some .invalidArgs)
      else runMethod t c m (methodOf i row.name)

/-! ### disconnect -/

/-- `bus_connection_drop_pending_replies`: callers waiting on the vanished callee get NoReply;
    entries where it was the caller are forgotten -/
def dropPending (t : Tx) (c : ConnId) : Tx :=
  let (mine, others) := t.bus.pending.partition fun p => p.caller == c || p.callee == c
  let t := { t with bus := { t.bus with pending := others } }
  mine.foldl (fun t p =>
    if p.callee == c && p.caller != c then
      let fake : Msg := { endian := .little, mtype := 1, flags := 0, version := 1, serial := p.serial,
                          fields := [], bodyTypes := [], body := [] }
      sendError t p.caller fake .noReply
    else t) t

/-- `bus_connection_disconnected`: rules go first, then every owned name from the most recently
    joined back to the unique name (one transaction each), then the pending replies -/
def disconnect (b : Bus) (c : ConnId) : Bus × List Out :=
  match b.conn? c with
  | none => (b, [])
  | some x =>
    -- `bus_matchmaker_disconnected` runs only when the vanishing connection has rules of its own;
    -- it also drops other connections' rules that name the vanishing unique name as sender or
    -- destination (the name is never reused, so they could never match again)
    let b := if x.rules.isEmpty then b else
      match x.name with
      | none => b
      | some nm => { b with conns := b.conns.map fun y =>
          if y.id == c then y else { y with rules := y.rules.filter fun r => !(r.sender == some nm || r.dest == some nm) } }
    let b := b.updConn c fun x => { x with rules := [], monitorRules := [] }
    let t : Tx := { bus := b }
    let t := x.owned.reverse.foldl (fun t n => removeOwner t n c) t
    let t := { t with bus := { t.bus with conns := t.bus.conns.filter (·.id != c) } }
    let t := dropPending t c
    -- the vanished connection itself is no longer connected: nothing is queued for it
    (t.bus, t.out.filter fun o => match o with | .deliver to _ => to != c | .opaque to _ => to != c | .close _ => true)

/-! ### `bus_dispatch` -/

inductive Ev
  | connect (c : ConnId) (uid : Nat) (gids : List Nat) (canFd : Bool)
  | msg (c : ConnId) (m : Msg)
  | invalid (c : ConnId)            -- bytes that do not form a valid message: the loader disconnects
  | close (c : ConnId)
  deriving Inhabited

/-- the reply libdbus itself gives to a method call that has no destination (the bus leaves it
    to the connection layer): no sender field (see known finding F14) -/
def builtinReply (m : Msg) : List Msg :=
  if m.mtype != 1 then []
  else
    let peer := ascii' "org.freedesktop.DBus.Peer"
    if m.iface == some peer && m.member == some (ascii' "Ping") then [mkReturn' m [] []]
    else if m.iface == some peer && m.member == some (ascii' "GetMachineId") then [mkReturn' m [tStr] [sStr []]]
    else if m.iface == some peer then [mkErr' m .unknownMethod]
    else [mkErr' m .unknownMethod]
where
  mkReturn' (m : Msg) (tys : List Ty) (body : List Val) : Msg :=
    mkMsg 2 [u32Field FIELD_REPLY_SERIAL m.serial] tys body
  mkErr' (m : Msg) (e : Err) : Msg :=
    mkMsg 3 [u32Field FIELD_REPLY_SERIAL m.serial, strField FIELD_ERROR_NAME e.name] [tStr] [sStr []]

def dispatch (tbl : List IfaceRow) (b : Bus) (c : ConnId) (m0 : Msg) : Bus × List Out :=
  match b.conn? c with
  | none => (b, [])
  | some x =>
    if x.monitor then
      let (b, out) := disconnect b c
      (b, out ++ [.close c])
    else
      let m := { m0 with fields := removeUnknownList m0.fields }
      let m := m.delField FIELD_CONTAINER_INSTANCE
      if m.dest.isNone && m.mtype != 4 then
        -- left to the connection layer; its reply is made from the message as received (sender
        -- not yet stamped)
        (b, (builtinReply m).map (Out.deliver c))
      else
        let m := m.setSender (match x.name with | some n => n | none => NOT_ACTIVE)
        let t : Tx := { bus := b }
        let (t, err, closeIt) : Tx × Option Err × Bool :=
          if m.dest == some BUS_NAME then
            let (b', e) := checkPolicy t.bus (some c) none none m
            let t := { t with bus := b' }
            match e with
            | some e => (t, some e, false)
            | none =>
              let (t, e) := driverHandle tbl t c m
              match e with
              | some e => (t, some e, false)
              | none =>
                -- messages to the driver are also shown to eavesdropping match rules (Hello has
                -- re-stamped the sender with the freshly minted name by now)
                let m := m.setSender (match t.bus.nameOf c with | some n => n | none => NOT_ACTIVE)
                let (t, e) := dispatchMatches t (some c) none m; (t, e, false)
          else if x.name.isNone then (t, none, true)
          else
            match m.dest with
            | some d =>
              match t.bus.primary? d with
              | none => (t, some (if m.noAutoStart then .nameHasNoOwner else .serviceUnknown), false)
              | some a => let (t, e) := dispatchMatches t (some c) (some a) m; (t, e, false)
            | none => let (t, e) := dispatchMatches t (some c) none m; (t, e, false)
        if closeIt then
          let (b, out) := disconnect t.bus c
          (b, t.out ++ out ++ [.close c])
        else
          let t := match err with
            | some e => sendError t c m e
            | none => t
          (t.bus, t.out)

def step (tbl : List IfaceRow) (b : Bus) : Ev → Bus × List Out
  | .connect c uid gids canFd =>
    if (b.conn? c).isSome then (b, [])
    else ({ b with conns := b.conns ++ [{ id := c, uid := uid, gids := gids, canFd := canFd }] }, [])
  | .msg c m => dispatch tbl b c m
  | .invalid c =>
    if (b.conn? c).isNone then (b, [])
    else
      let (b, out) := disconnect b c
      (b, out ++ [.close c])
  | .close c => disconnect b c

def run (tbl : List IfaceRow) (b : Bus) (evs : List Ev) : Bus × List (List Out) :=
  evs.foldl (fun (acc : Bus × List (List Out)) ev =>
    let (b', out) := step tbl acc.1 ev
    (b', acc.2 ++ [out])) (b, [])

end Dbus.Model.Bus
