import Dbus.Model.Bus.Registry
/-
  Executable model of the message bus: bus/dispatch.c (`bus_dispatch`, `bus_dispatch_matches`),
  bus/driver.c (the org.freedesktop.DBus methods), bus/services.c (name registry and owner
  queues), bus/connection.c (per-connection state, transactions' message order, pending replies,
  disconnect cleanup), bus/bus.c (`bus_context_check_security_policy`).

  One `step` is what the single-threaded daemon does for one complete incoming message, one new
  connection or one disconnect.  Out-of-memory paths are not in this model (C14 treats them).
-/
namespace Dbus.Model.Bus
open Dbus Dbus.Spec Dbus.Model

/-! ### state access -/

def Bus.conn? (b : Bus) (c : ConnId) : Option Conn := b.conns.find? (·.id == c)
def Bus.service? (b : Bus) (n : Bytes) : Option Service := b.services.find? (·.name == n)
def Bus.primary? (b : Bus) (n : Bytes) : Option ConnId :=
  match b.service? n with
  | some s => s.owners.head?.map (·.conn)
  | none => none
def Bus.updConn (b : Bus) (c : ConnId) (f : Conn → Conn) : Bus :=
  { b with conns := b.conns.map fun x => if x.id == c then f x else x }
def Bus.updRules (b : Bus) (c : ConnId) (g : List MatchRule → List MatchRule) : Bus :=
  b.updConn c fun x => { x with rules := g x.rules }
def Bus.nameOf (b : Bus) (c : ConnId) : Option Bytes := (b.conn? c).bind (·.name)
def Bus.isActive (b : Bus) (c : ConnId) : Bool := (b.nameOf c).isSome
def Bus.uniqueOrEmpty (b : Bus) (c : ConnId) : Bytes := (b.nameOf c).getD []

/-- replace (or create, at the end) the queue of a name; an empty queue unregisters the name -/
def Bus.setOwners (b : Bus) (n : Bytes) (os : List Owner) : Bus :=
  if os.isEmpty then { b with services := b.services.filter (·.name != n) }
  else if b.services.any (·.name == n) then
    { b with services := b.services.map fun s => if s.name == n then { s with owners := os } else s }
  else { b with services := b.services ++ [{ name := n, owners := os }] }

def Bus.queuedFor (b : Bus) (c : ConnId) : List Bytes :=
  (b.services.filter fun s => s.owners.any (·.conn == c)).map (·.name)

def Bus.peerInfo (b : Bus) (c : Option ConnId) : PeerInfo :=
  match c with
  | none => { present := false, queuedFor := [] }
  | some c => { present := true, queuedFor := b.queuedFor c }

/-- accumulated effects of the transaction being built -/
structure Tx where
  bus : Bus
  out : List Out := []
  /-- copies for monitors (`bus_transaction_capture`): kept apart from `out`, which nothing but the
      ordinary deliveries ever touch — what other clients observe cannot depend on monitors -/
  mon : List Out := []
  deriving Inhabited

def Tx.emit (t : Tx) (o : Out) : Tx := { t with out := t.out ++ [o] }
def Tx.mapBus (t : Tx) (f : Bus → Bus) : Tx := { t with bus := f t.bus }

/-! ### match-rule context of a message -/

def argView : Val → Option (Bool × Bytes)
  | .str .str s => some (false, s)
  | .str .path s => some (true, s)
  | _ => none

def matchCtx (b : Bus) (sender : Option ConnId) (addressed : Option ConnId) (m : Msg) : MatchCtx :=
  { mtype := m.mtype, iface := m.iface, member := m.member, path := m.path, dest := m.dest,
    senderIsBus := sender.isNone,
    senderOwns := fun n => match sender with | some s => b.primary? n == some s | none => false,
    hasRecipient := addressed.isSome,
    recipientOwns := fun n => match addressed with | some r => b.primary? n == some r | none => false,
    args := m.body.map argView }

def msgView (m : Msg) : MsgView :=
  { mtype := m.mtype, path := m.path, iface := m.iface, member := m.member, error := m.errName,
    dest := m.dest, sender := m.sender, isReply := m.replySerial != 0, nFds := m.nFds }

/-! ### monitors -/

/-- the connections `bus_transaction_capture` copies a message to: nobody while the monitor list is
    empty; otherwise every connection with a monitor rule matching it, except the addressed recipient
    (the rules are installed a moment before the connection joins the list, see `beMonitor`) -/
def captureTargets (b : Bus) (sender addressed : Option ConnId) (m : Msg) : List ConnId :=
  if !b.conns.any (·.monitor) then []
  else (b.conns.filter fun c => some c.id != addressed &&
          c.monitorRules.any (fun r => ruleMatches r (matchCtx b sender addressed m))).map (·.id)

def emitTo (m : Msg) (t : Tx) (r : ConnId) : Tx := { t with mon := t.mon ++ [.deliver r m] }

/-- `bus_transaction_capture`: no policy check, no state change -/
def capture (t : Tx) (sender addressed : Option ConnId) (m : Msg) : Tx :=
  (captureTargets t.bus sender addressed m).foldl (emitTo m) t

/-- `bus_transaction_capture_error_reply`: what monitors are shown when a delivery is refused -/
def captureError (t : Tx) (addressed : Option ConnId) (inReplyTo : Msg) (e : Err) : Tx :=
  capture t none addressed ((mkError inReplyTo e).setSender BUS_NAME)

/-! ### `bus_context_check_security_policy` -/

/-- `bus_connections_check_reply`: a pending entry (callee = replier, caller = receiver, serial)
    exists; it is consumed -/
def checkReply (pend : List Pending) (replier receiver : ConnId) (serial : Nat) : List Pending × Bool :=
  let p : Pending := { caller := receiver, callee := replier, serial := serial }
  if pend.contains p then (pend.erase p, true) else (pend, false)

/-- `bus_connections_expect_reply` -/
def expectReply (maxReplies : Nat) (pend : List Pending) (caller callee : ConnId) (call : Msg) :
    List Pending × Option Err :=
  if call.noReply then (pend, none)
  else
    let p : Pending := { caller := caller, callee := callee, serial := call.serial }
    if pend.contains p then (pend, some .accessDenied)
    else if (pend.filter (·.caller == caller)).length ≥ maxReplies then (pend, some .limitsExceeded)
    else (p :: pend, none)

def knownType (m : Msg) : Bool := m.mtype == 1 || m.mtype == 2 || m.mtype == 3 || m.mtype == 4

/-- the `requested_reply` flag, and the pending list once a matching entry has been consumed -/
def requestedReply (b : Bus) (sender addressed proposed : Option ConnId) (m : Msg) : List Pending × Bool :=
  match sender with
  | some s =>
    if b.isActive s && m.replySerial != 0 && proposed.isSome && addressed == proposed then
      match addressed with
      | some r => checkReply b.pending s r m.replySerial
      | none => (b.pending, false)
    else (b.pending, false)
  | none => (b.pending, decide (addressed = proposed) && m.replySerial != 0)

def senderInactive (b : Bus) : Option ConnId → Bool
  | some s => !b.isActive s
  | none => false

/-- the policy a connection is judged by: none for the driver and for connections that have not
    said Hello -/
def rulesOf (b : Bus) : Option ConnId → Option (List PRule)
  | some p => if b.isActive p then (b.conn? p).map (·.policy) else none
  | none => none

/-- `dbus_message_is_method_call (message, DBUS_INTERFACE_DBUS, "Hello")`: the member must be Hello; the interface must be
    org.freedesktop.DBus *if the message names one* (a call without INTERFACE passes) -/
def isHello (m : Msg) : Bool :=
  m.mtype == 1 && (m.iface == some BUS_NAME || m.iface.isNone) && m.member == some ((/- "Hello" -/ [0x48,0x65,0x6c,0x6c,0x6f] : Bytes))

def sendAllowed (b : Bus) (sender proposed : Option ConnId) (v : MsgView) (requested : Bool) : Bool :=
  match rulesOf b sender with
  | some rules => canSend b.limits.maxFdsDefault rules v requested (b.peerInfo proposed)
  | none => true

def recvAllowed (b : Bus) (sender addressed proposed : Option ConnId) (v : MsgView) (requested : Bool) : Bool :=
  match rulesOf b proposed with
  | some rules => canReceive b.limits.maxFdsDefault rules v requested (decide (addressed ≠ proposed) && v.dest.isSome) (b.peerInfo sender)
  | none => true

/-- "destination has a full message queue": the proposed recipient's outgoing queue is over
    max_outgoing_bytes (it is not reading its socket) -/
def queueFull (b : Bus) : Option ConnId → Bool
  | some p => b.full.contains p
  | none => false

/-- the decision proper (no state change): `none` = allowed -/
def policyVerdict (b : Bus) (sender addressed proposed : Option ConnId) (m : Msg) (requested : Bool) : Option Err :=
  if senderInactive b sender then
    -- an inactive connection may only say Hello to the bus driver
    if proposed.isNone && isHello m then none else some .accessDenied
  else if !sendAllowed b sender proposed (msgView m) requested then some .accessDenied
  else if !recvAllowed b sender addressed proposed (msgView m) requested then some .accessDenied
  else if queueFull b proposed then some .limitsExceeded
  else none

/-- `bus_context_check_security_policy`, the gate every delivery passes; `sender = none` is the bus
    driver, `proposed = none` means the message is addressed to the bus driver itself. Returns the
    pending-reply list afterwards (the only state it touches) and the verdict. -/
def checkPolicy (b : Bus) (sender addressed proposed : Option ConnId) (m : Msg) : List Pending × Option Err :=
  if !knownType m then (b.pending, some .accessDenied)
  else
    let (pend, requested) := requestedReply b sender addressed proposed m
    match policyVerdict b sender addressed proposed m requested with
    | some e => (pend, some e)
    | none =>
      match sender, addressed with
      | some s, some a =>
        if m.mtype == 1 && addressed == proposed then
          expectReply b.limits.maxReplies pend s a m
        else (pend, none)
      | _, _ => (pend, none)

def Tx.setPending (t : Tx) (p : List Pending) : Tx := { t with bus := { t.bus with pending := p } }

/-! ### sending -/

/-- what `bus_transaction_send_from_driver` makes of a message: sender, destination, NO_REPLY -/
def stampDriver (b : Bus) (to : ConnId) (m : Msg) : Msg :=
  let m := m.setSender BUS_NAME
  let m := match b.nameOf to with | some n => m.setDest n | none => m
  m.setNoReply

/-- the gate and the queueing of an already stamped driver message -/
def sendStamped (t : Tx) (to : ConnId) (m : Msg) : Tx :=
  match checkPolicy t.bus none (some to) (some to) m with
  | (p, some e) => captureError (t.setPending p) (some to) m e
  | (p, none) => (t.setPending p).emit (.deliver to m)

/-- `bus_transaction_send_from_driver`: stamp, show to monitors, gate, queue -/
def sendFromDriver (t : Tx) (to : ConnId) (m : Msg) : Tx :=
  sendStamped (capture t none (some to) (stampDriver t.bus to m)) to (stampDriver t.bus to m)

def sendError (t : Tx) (to : ConnId) (inReplyTo : Msg) (e : Err) : Tx :=
  sendFromDriver t to (mkError inReplyTo e)

/-- connections with a rule matching the message, in connection order, without `addressed` -/
def recipients (b : Bus) (sender addressed : Option ConnId) (m : Msg) : List ConnId :=
  let ctx := matchCtx b sender addressed m
  (b.conns.filter fun c => !c.monitor && some c.id != addressed && c.rules.any (fun r => ruleMatches r ctx)).map (·.id)

/-- `send_one_message` for a match-rule recipient: silently skipped when refused -/
def canFdOf (b : Bus) (c : ConnId) : Bool := match b.conn? c with | some x => x.canFd | none => false

def sendOne (t : Tx) (sender addressed : Option ConnId) (to : ConnId) (m : Msg) : Tx :=
  let (p, err) := checkPolicy t.bus sender addressed (some to) m
  match err with
  | some e => captureError (t.setPending p) sender m e
  | none =>
    if m.nFds > 0 && !canFdOf t.bus to then captureError (t.setPending p) sender m .notSupported
    else (t.setPending p).emit (.deliver to m)

/-- `bus_dispatch_matches`; an error means the addressed delivery was refused and nothing else
    was tried -/
def sendAddressed (t : Tx) (sender : Option ConnId) (a : ConnId) (m : Msg) : Tx × Option Err :=
  let (p, err) := checkPolicy t.bus sender (some a) (some a) m
  match err with
  | some e => (t.setPending p, some e)
  | none =>
    if m.nFds > 0 && !canFdOf t.bus a then (t.setPending p, some .notSupported)
    else ((t.setPending p).emit (.deliver a m), none)

def sendMatches (t : Tx) (sender addressed : Option ConnId) (m : Msg) : Tx :=
  (recipients t.bus sender addressed m).foldl (fun t r => sendOne t sender addressed r m) t

def dispatchMatches (t : Tx) (sender addressed : Option ConnId) (m : Msg) : Tx × Option Err :=
  match addressed with
  | some a =>
    match sendAddressed t sender a m with
    | (t, some e) => (t, some e)
    | (t, none) => (sendMatches t sender addressed m, none)
  | none => (sendMatches t sender addressed m, none)

/-! ### driver signals -/

def ownerChangedMsg (name old new : Bytes) : Msg :=
  (mkSignal ((/- "NameOwnerChanged" -/ [0x4e,0x61,0x6d,0x65,0x4f,0x77,0x6e,0x65,0x72,0x43,0x68,0x61,0x6e,0x67,0x65,0x64] : Bytes)) [tStr, tStr, tStr] [sStr name, sStr old, sStr new]).setSender BUS_NAME

def sigOwnerChanged (t : Tx) (name old new : Bytes) : Tx :=
  (dispatchMatches (capture t none none (ownerChangedMsg name old new)) none none (ownerChangedMsg name old new)).1

def sigAcquired (t : Tx) (to : ConnId) (name : Bytes) : Tx :=
  sendFromDriver t to (mkSignal ((/- "NameAcquired" -/ [0x4e,0x61,0x6d,0x65,0x41,0x63,0x71,0x75,0x69,0x72,0x65,0x64] : Bytes)) [tStr] [sStr name])

def sigLost (t : Tx) (to : ConnId) (name : Bytes) : Tx :=
  sendFromDriver t to (mkSignal ((/- "NameLost" -/ [0x4e,0x61,0x6d,0x65,0x4c,0x6f,0x73,0x74] : Bytes)) [tStr] [sStr name])

/-! ### bus/services.c on top of the pure queue operations of `Registry` -/

def ownersOf (b : Bus) (n : Bytes) : List Owner := match b.service? n with | some s => s.owners | none => []

def addOwned (b : Bus) (c : ConnId) (n : Bytes) : Bus := b.updConn c fun x => { x with owned := x.owned ++ [n] }
/-- `_dbus_list_remove_last (&d->services_owned, service)` -/
def removeLast (l : List Bytes) (n : Bytes) : List Bytes := (l.reverse.erase n).reverse
def dropOwned (b : Bus) (c : ConnId) (n : Bytes) : Bus := b.updConn c fun x => { x with owned := removeLast x.owned n }

/-- keep every connection's `services_owned` in step with the queue of `n` changing from `os` to `os'` -/
def syncOwned (b : Bus) (n : Bytes) (os os' : List Owner) : Bus :=
  { b with conns := b.conns.map fun x =>
      let was := os.any (·.conn == x.id)
      let is := os'.any (·.conn == x.id)
      if !was && is then { x with owned := x.owned ++ [n] }
      else if was && !is then { x with owned := removeLast x.owned n }
      else x }

def connName (b : Bus) : Option ConnId → Bytes
  | some c => b.uniqueOrEmpty c
  | none => []

def emitSig (n : Bytes) (t : Tx) : Sig → Tx
  | .lost c => sigLost t c n
  | .acquired c => sigAcquired t c n
  | .changed old new => sigOwnerChanged t n (connName t.bus old) (connName t.bus new)

/-- install the new queue of `n` and send the signals, in order -/
def applyQueue (t : Tx) (n : Bytes) (os' : List Owner) (sigs : List Sig) : Tx :=
  let os := ownersOf t.bus n
  let t := sigs.foldl (emitSig n) t
  { t with bus := syncOwned (t.bus.setOwners n os') n os os' }

def nOwned (b : Bus) (c : ConnId) : Nat := match b.conn? c with | some x => x.owned.length | none => 0
def connPolicy (b : Bus) (c : ConnId) : List PRule := match b.conn? c with | some x => x.policy | none => []

/-- `bus_registry_acquire_service` -/
def acquire (t : Tx) (c : ConnId) (n : Bytes) (flags : Nat) : Tx × Except Err Nat :=
  if !validateBusName n then (t, .error .invalidArgs)
  else if n.head? == some 0x3a then (t, .error .invalidArgs)
  else if n == BUS_NAME then (t, .error .invalidArgs)
  else
    if !canOwn (connPolicy t.bus c) n then (t, .error .accessDenied)
    else if nOwned t.bus c ≥ t.bus.limits.maxNames then (t, .error .limitsExceeded)
    else
      (applyQueue t n (qAcquire (ownersOf t.bus n) c flags).1 (qAcquire (ownersOf t.bus n) c flags).2.2,
        .ok (qAcquire (ownersOf t.bus n) c flags).2.1)

/-- `bus_registry_release_service` -/
def release (t : Tx) (c : ConnId) (n : Bytes) : Tx × Except Err Nat :=
  if !validateBusName n then (t, .error .invalidArgs)
  else if n.head? == some 0x3a then (t, .error .invalidArgs)
  else if n == BUS_NAME then (t, .error .invalidArgs)
  else
    (applyQueue t n (qRelease (ownersOf t.bus n) c).1 (qRelease (ownersOf t.bus n) c).2.2,
      .ok (qRelease (ownersOf t.bus n) c).2.1)

/-- `bus_service_remove_owner` as used by the disconnect path -/
def removeOwner (t : Tx) (n : Bytes) (c : ConnId) : Tx :=
  applyQueue t n (qRemove (ownersOf t.bus n) c).1 (qRemove (ownersOf t.bus n) c).2

/-- `bus_registry_ensure` for the fresh unique name at Hello -/
def ensureService (t : Tx) (n : Bytes) (c : ConnId) (flags : Nat) : Tx :=
  applyQueue t n (qEnsure c flags).1 (qEnsure c flags).2

/-! ### unique names -/

/-- decimal rendering (`_dbus_string_append_int`) -/
def dec (n : Nat) : Bytes := (Nat.toDigits 10 n).map fun c => UInt8.ofNat c.toNat

def uniqueName (major minor : Nat) : Bytes := 0x3a :: (dec major ++ 0x2e :: dec minor)

/-- one turn of the counters: start at 1.0, then 1.1, 1.2, … (a minor number of 0 means "open the
    next major number") -/
def bump (b : Bus) : Bus × Bytes :=
  let maj := if b.nextMinor = 0 then b.nextMajor + 1 else b.nextMajor
  let mnr := if b.nextMinor = 0 then 0 else b.nextMinor
  ({ b with nextMajor := maj, nextMinor := mnr + 1 }, uniqueName maj mnr)

/-- `create_unique_client_name`: mint from the counters, skipping names already registered
    (fuel: at most one collision per registered name) -/
def mintAux : Nat → Bus → Bus × Bytes
  | 0, b => bump b
  | f + 1, b =>
    let r := bump b
    if (r.1.service? r.2).isNone then r else mintAux f r.1

def mint (b : Bus) : Bus × Bytes := mintAux (b.services.length + 1) b

/-- `bus_connection_complete`: the connection gets its name and its policy -/
def activate (b : Bus) (c : ConnId) (nm : Bytes) : Bus :=
  { (b.updConn c fun x => { x with name := some nm, policy := b.policy.clientPolicy b.limits.maxFdsDefault x.uid x.gids false })
    with minted := nm :: b.minted }

/-! ### disconnect -/

def involves (c : ConnId) (p : Pending) : Bool := p.caller == c || p.callee == c

/-- a stand-in for the call a pending entry remembers (only its serial matters to the error reply) -/
def fakeCall (serial : Nat) : Msg :=
  { endian := .little, mtype := 1, flags := 0, version := 1, serial := serial, fields := [], bodyTypes := [], body := [] }

def noReplyTo (c : ConnId) (t : Tx) (p : Pending) : Tx :=
  if p.callee == c && p.caller != c then sendError t p.caller (fakeCall p.serial) .noReply else t

/-- `bus_connection_drop_pending_replies`: callers waiting on the vanished callee get NoReply;
    entries where it was the caller are forgotten -/
def dropPending (t : Tx) (c : ConnId) : Tx :=
  (t.bus.pending.filter (involves c)).foldl (noReplyTo c)
    (t.setPending (t.bus.pending.filter fun p => !involves c p))

/-- `bus_matchmaker_disconnected` runs only when the vanishing connection has rules of its own
    (a monitor's filter rules count);
    it also drops other connections' rules that name the vanishing unique name as sender or
    destination (the name is never reused, so they could never match again) -/
def gcRules (b : Bus) (x : Conn) : Bus :=
  if x.rules.isEmpty && x.monitorRules.isEmpty then b else
    match x.name with
    | none => b
    | some nm => { b with conns := b.conns.map fun y =>
        if y.id == x.id then y else { y with rules := y.rules.filter fun r => !(r.sender == some nm || r.dest == some nm) } }

def clearRules (b : Bus) (c : ConnId) : Bus := b.updConn c fun x => { x with rules := [], monitorRules := [] }

def releaseAll (t : Tx) (c : ConnId) (names : List Bytes) : Tx := names.foldl (fun t n => removeOwner t n c) t

def removeConn (c : ConnId) (b : Bus) : Bus := { b with conns := b.conns.filter (·.id != c) }

def notTo (c : ConnId) : Out → Bool
  | .deliver to _ => to != c
  | .opaque to _ => to != c
  | .close _ => true

/-- `bus_connection_disconnected`: rules go first, then every owned name from the most recently
    joined back to the unique name (one transaction each), then the pending replies -/
def disconnectTx (b : Bus) (c : ConnId) (x : Conn) : Tx :=
  dropPending ((releaseAll { bus := clearRules (gcRules b x) c } c x.owned.reverse).mapBus (removeConn c)) c

def disconnect (b : Bus) (c : ConnId) : Tx :=
  match b.conn? c with
  | none => { bus := b }
  | some x =>
    -- the vanished connection itself is no longer connected: nothing is queued for it
    { bus := (disconnectTx b c x).bus, out := (disconnectTx b c x).out.filter (notTo c),
      mon := (disconnectTx b c x).mon.filter (notTo c) }

/-! ### driver methods -/

def reply (t : Tx) (c : ConnId) (call : Msg) (tys : List Ty) (body : List Val) : Tx :=
  sendFromDriver t c (mkReturn call tys body)

def nCompleted (b : Bus) : Nat := (b.conns.filter (·.name.isSome)).length
def nCompletedFor (b : Bus) (uid : Nat) : Nat := (b.conns.filter fun x => x.name.isSome && x.uid == uid).length

def uidOf (b : Bus) (c : ConnId) : Nat := match b.conn? c with | some x => x.uid | none => 0

/-- the successful part of Hello: mint, activate, welcome reply, then the name's first owner
    (NameOwnerChanged, NameAcquired) -/
def helloOk (t : Tx) (c : ConnId) (m : Msg) : Tx :=
  ensureService
    (reply { t with bus := activate (mint t.bus).1 c (mint t.bus).2 } c (m.setSender (mint t.bus).2) [tStr]
      [sStr (mint t.bus).2])
    (mint t.bus).2 c 0

/-- `bus_driver_handle_hello` -/
def hello (t : Tx) (c : ConnId) (m : Msg) : Tx × Option Err :=
  if t.bus.isActive c then (t, some .failed)
  else if nCompleted t.bus ≥ t.bus.limits.maxCompleted then (t, some .limitsExceeded)
  else if nCompletedFor t.bus (uidOf t.bus c) ≥ t.bus.limits.maxPerUser then (t, some .limitsExceeded)
  else (helloOk t c m, none)

def arg0 (m : Msg) : Bytes := match m.body with | (.str _ s) :: _ => s | _ => []
def arg1Nat (m : Msg) : Nat := match m.body with | _ :: (.fixed _ n) :: _ => n | _ => 0

def sortBytes (l : List Bytes) : List Bytes := l.mergeSort (fun a b => decide (a.map (·.toNat) ≤ b.map (·.toNat)))

inductive Method
  | hello | requestName | releaseName | nameHasOwner | listNames | addMatch | removeMatch
  | getNameOwner | listQueuedOwners | getUnixUser | ping | becomeMonitor
  | opaqueM                      -- implemented by the bus, reply body not modelled
  deriving DecidableEq, Repr, Inhabited

/-- (interface, any-path flag, [(method, in-signature, any-path flag, privileged, which)]): mirror of
    `interface_handlers` / the `MessageHandler` tables (regenerated: see Generated.BusTables) -/
structure MethodRow where
  name : Bytes
  inSig : Bytes
  anyPath : Bool
  privileged : Bool
  deriving Repr, Inhabited

structure IfaceRow where
  name : Bytes
  anyPath : Bool
  methods : List MethodRow
  deriving Repr, Inhabited

def methodOf (iface name : Bytes) : Method :=
  if iface == BUS_NAME then
    if name == (/- "Hello" -/ [0x48,0x65,0x6c,0x6c,0x6f] : Bytes) then .hello
    else if name == (/- "RequestName" -/ [0x52,0x65,0x71,0x75,0x65,0x73,0x74,0x4e,0x61,0x6d,0x65] : Bytes) then .requestName
    else if name == (/- "ReleaseName" -/ [0x52,0x65,0x6c,0x65,0x61,0x73,0x65,0x4e,0x61,0x6d,0x65] : Bytes) then .releaseName
    else if name == (/- "NameHasOwner" -/ [0x4e,0x61,0x6d,0x65,0x48,0x61,0x73,0x4f,0x77,0x6e,0x65,0x72] : Bytes) then .nameHasOwner
    else if name == (/- "ListNames" -/ [0x4c,0x69,0x73,0x74,0x4e,0x61,0x6d,0x65,0x73] : Bytes) then .listNames
    else if name == (/- "AddMatch" -/ [0x41,0x64,0x64,0x4d,0x61,0x74,0x63,0x68] : Bytes) then .addMatch
    else if name == (/- "RemoveMatch" -/ [0x52,0x65,0x6d,0x6f,0x76,0x65,0x4d,0x61,0x74,0x63,0x68] : Bytes) then .removeMatch
    else if name == (/- "GetNameOwner" -/ [0x47,0x65,0x74,0x4e,0x61,0x6d,0x65,0x4f,0x77,0x6e,0x65,0x72] : Bytes) then .getNameOwner
    else if name == (/- "ListQueuedOwners" -/ [0x4c,0x69,0x73,0x74,0x51,0x75,0x65,0x75,0x65,0x64,0x4f,0x77,0x6e,0x65,0x72,0x73] : Bytes) then .listQueuedOwners
    else if name == (/- "GetConnectionUnixUser" -/ [0x47,0x65,0x74,0x43,0x6f,0x6e,0x6e,0x65,0x63,0x74,0x69,0x6f,0x6e,0x55,0x6e,0x69,0x78,0x55,0x73,0x65,0x72] : Bytes) then .getUnixUser
    else .opaqueM
  else if iface == (/- "org.freedesktop.DBus.Peer" -/ [0x6f,0x72,0x67,0x2e,0x66,0x72,0x65,0x65,0x64,0x65,0x73,0x6b,0x74,0x6f,0x70,0x2e,0x44,0x42,0x75,0x73,0x2e,0x50,0x65,0x65,0x72] : Bytes) && name == (/- "Ping" -/ [0x50,0x69,0x6e,0x67] : Bytes) then .ping
  else if iface == (/- "org.freedesktop.DBus.Monitoring" -/ [0x6f,0x72,0x67,0x2e,0x66,0x72,0x65,0x65,0x64,0x65,0x73,0x6b,0x74,0x6f,0x70,0x2e,0x44,0x42,0x75,0x73,0x2e,0x4d,0x6f,0x6e,0x69,0x74,0x6f,0x72,0x69,0x6e,0x67] : Bytes) && name == (/- "BecomeMonitor" -/ [0x42,0x65,0x63,0x6f,0x6d,0x65,0x4d,0x6f,0x6e,0x69,0x74,0x6f,0x72] : Bytes) then .becomeMonitor
  else .opaqueM

inductive Found
  | handler (iface : Bytes) (row : MethodRow)
  | noMethod
  | noInterface

/-- the two nested loops of `bus_driver_handle_message` -/
def ifaceWanted : Option Bytes → Bytes → Bool
  | some i, n => i == n
  | none, _ => true

def handlerIn (name : Bytes) (ih : IfaceRow) : Option (Bytes × MethodRow) :=
  (ih.methods.find? (·.name == name)).map (fun r => (ih.name, r))

def findIn (cands : List IfaceRow) (name : Bytes) : Found :=
  match cands.findSome? (handlerIn name) with
  | some (i, r) => .handler i r
  | none => if cands.isEmpty then .noInterface else .noMethod

def findHandler (tbl : List IfaceRow) (canonical : Bool) (iface : Option Bytes) (name : Bytes) : Found :=
  findIn (tbl.filter fun ih => (canonical || ih.anyPath) && ifaceWanted iface ih.name) name

def nRules (b : Bus) (c : ConnId) : Nat := match b.conn? c with | some x => x.rules.length | none => 0
def rulesOfConn (b : Bus) (c : ConnId) : List MatchRule := match b.conn? c with | some x => x.rules | none => []

def isRoot (b : Bus) (c : ConnId) : Bool := match b.conn? c with | some x => x.uid == 0 | none => false

/-- `bus_matchmaker_remove_rule_by_value`: the most recently added equal rule -/
def removeRule (rs : List MatchRule) (r : MatchRule) : Option (List MatchRule) :=
  match rs.reverse.findIdx? (fun x => ruleEqual x r) with
  | some i => some (rs.reverse.eraseIdx i).reverse
  | none => none

/-- the `as` argument of BecomeMonitor; an empty array stands for one empty (match-all) rule -/
def monitorTexts (m : Msg) : List Bytes :=
  match m.body with
  | (.array _ vs) :: _ =>
    let ts := vs.filterMap fun v => match v with | .str _ s => some s | _ => none
    if ts.isEmpty then [[]] else ts
  | _ => [[]]

/-- every rule must parse; monitors always eavesdrop -/
def parseMonitorRules : List Bytes → Except Err (List MatchRule)
  | [] => .ok []
  | txt :: rest =>
    match parseRule txt with
    | .ok r =>
      match parseMonitorRules rest with
      | .ok rs => .ok ({ r with eavesdrop := true } :: rs)
      | .error e => .error e
    | .tooLong => .error .limitsExceeded
    | .invalid => .error .matchRuleInvalid

/-- `bus_connection_be_monitor`: install the filter, give up every name (oldest first), drop the
    ordinary match rules, join the monitor list. (Its pending replies are forgotten too, but the
    NoReply errors that costs its callers are sent by a zero-interval timeout, i.e. after everything
    this dispatch queues: see `sweepMonitors`.) -/
def installMonitorRules (c : ConnId) (rules : List MatchRule) (b : Bus) : Bus :=
  b.updConn c fun y => { y with monitorRules := rules }

def joinMonitors (c : ConnId) (x : Conn) (rules : List MatchRule) (b : Bus) : Bus :=
  (gcRules b { x with monitorRules := rules }).updConn c fun y => { y with rules := [], monitor := true }

def beMonitor (t : Tx) (c : ConnId) (rules : List MatchRule) : Tx :=
  match t.bus.conn? c with
  | none => t
  | some x => (releaseAll (t.mapBus (installMonitorRules c rules)) c x.owned).mapBus (joinMonitors c x rules)

def runMethod (t : Tx) (c : ConnId) (m : Msg) (which : Method) : Tx × Option Err :=
  match which with
  | .hello => hello t c m
  | .requestName =>
    match acquire t c (arg0 m) (arg1Nat m) with
    | (t, .ok code) => (reply t c m [tU32] [.fixed .u32 code], none)
    | (t, .error e) => (t, some e)
  | .releaseName =>
    match release t c (arg0 m) with
    | (t, .ok code) => (reply t c m [tU32] [.fixed .u32 code], none)
    | (t, .error e) => (t, some e)
  | .nameHasOwner =>
    let n := arg0 m
    let has := n == BUS_NAME || (t.bus.service? n).isSome
    (reply t c m [.basic .bool] [.fixed .bool (if has then 1 else 0)], none)
  | .listNames =>
    let names := BUS_NAME :: sortBytes (t.bus.services.map (·.name))
    (reply t c m [.array tStr] [.array tStr (names.map sStr)], none)
  | .getNameOwner =>
    let n := arg0 m
    match t.bus.primary? n with
    | some o => (reply t c m [tStr] [sStr (t.bus.uniqueOrEmpty o)], none)
    | none => if n == BUS_NAME then (reply t c m [tStr] [sStr BUS_NAME], none) else (t, some .nameHasNoOwner)
  | .listQueuedOwners =>
    let n := arg0 m
    match ownersOf t.bus n with
    | [] => if n == BUS_NAME then (reply t c m [.array tStr] [.array tStr [sStr BUS_NAME]], none)
            else (t, some .nameHasNoOwner)
    | os => (reply t c m [.array tStr] [.array tStr (os.map fun o => sStr (t.bus.uniqueOrEmpty o.conn))], none)
  | .getUnixUser =>
    let n := arg0 m
    if n == BUS_NAME then (reply t c m [tU32] [.fixed .u32 0], none)      -- the daemon's own uid (root here)
    else match t.bus.primary? n with
      | some o => (reply t c m [tU32] [.fixed .u32 (uidOf t.bus o)], none)
      | none => (t, some .nameHasNoOwner)
  | .ping => (reply t c m [] [], none)
  | .addMatch =>
    if nRules t.bus c ≥ t.bus.limits.maxRules then (t, some .limitsExceeded)
    else
      match parseRule (arg0 m) with
      | .ok r =>
        if r.eavesdrop && !isRoot t.bus c then (t, some .accessDenied)
        else
          let t := { t with bus := t.bus.updRules c (· ++ [r]) }
          (reply t c m [] [], none)
      | .tooLong => (t, some .limitsExceeded)
      | .invalid => (t, some .matchRuleInvalid)
  | .removeMatch =>
    match parseRule (arg0 m) with
    | .ok r =>
      -- the acknowledgement is queued before the rule is looked up
      match removeRule (rulesOfConn t.bus c) r with
      | some rs' => ((reply t c m [] []).mapBus (·.updRules c fun _ => rs'), none)
      | none => (reply t c m [] [], some .matchRuleNotFound)
    | .tooLong => (t, some .limitsExceeded)
    | .invalid => (t, some .matchRuleInvalid)
  | .becomeMonitor =>
    if arg1Nat m != 0 then (t, some .invalidArgs)
    else
      match parseMonitorRules (monitorTexts m) with
      | .error e => (t, some e)
      | .ok rules => (beMonitor (reply t c m [] []) c rules, none)
  | .opaqueM =>
    -- a reply whose body is not modelled: monitors are shown it, and the gate judges it, on the strength of its header
    let t := (captureTargets t.bus none (some c) (stampDriver t.bus c (mkReturn m [] []))).foldl
      (fun (t : Tx) r => { t with mon := t.mon ++ [.opaque r m.serial] }) t
    match checkPolicy t.bus none (some c) (some c) (stampDriver t.bus c (mkReturn m [] [])) with
    | (p, some e) => (captureError (t.setPending p) (some c) (stampDriver t.bus c (mkReturn m [] [])) e, none)
    | (p, none) => ((t.setPending p).emit (.opaque c m.serial), none)

def bodySig (m : Msg) : Bytes := printList m.bodyTypes

/-- `bus_driver_handle_message` -/
def driverHandle (tbl : List IfaceRow) (t : Tx) (c : ConnId) (m : Msg) : Tx × Option Err :=
  if m.mtype != 1 then (t, none)
  else
    let name := m.member.getD []
    let canonical := m.path == some DBUS_PATH
    match findHandler tbl canonical m.iface name with
    | .noInterface => (t, some .unknownInterface)
    | .noMethod => (t, some .unknownMethod)
    | .handler i row =>
      if row.privileged && !isRoot t.bus c then (t, some .accessDenied)
      else if !(canonical || row.anyPath) then (t, some .accessDenied)
      else if bodySig m != row.inSig then (t, some .invalidArgs)
      else runMethod t c m (methodOf i row.name)

/-! ### `bus_dispatch` -/

inductive Ev
  | connect (c : ConnId) (uid : Nat) (gids : List Nat) (canFd : Bool)
  | msg (c : ConnId) (m : Msg)
  | invalid (c : ConnId)            -- bytes that do not form a valid message: the loader disconnects
  | close (c : ConnId)
  | timeout                          -- the configured reply timeout has elapsed for every pending reply
  | expire (due : List Pending)      -- … for these pending replies only (whoever keeps the time says which: `Timed`)
  | stall (c : ConnId) (on : Bool)   -- c stops reading and its queue fills up / c has caught up again
  | reload (p : Policy)              -- the configuration is read again (SIGHUP / ReloadConfig): a new security policy
  deriving Inhabited

def PEER_IFACE : Bytes := ([0x6f,0x72,0x67,0x2e,0x66,0x72,0x65,0x65,0x64,0x65,0x73,0x6b,0x74,0x6f,0x70,0x2e,0x44,0x42,0x75,0x73,0x2e,0x50,0x65,0x65,0x72] : Bytes)
def PING : Bytes := ([0x50,0x69,0x6e,0x67] : Bytes)
def GET_MACHINE_ID : Bytes := ([0x47,0x65,0x74,0x4d,0x61,0x63,0x68,0x69,0x6e,0x65,0x49,0x64] : Bytes)

/-- the replies libdbus itself gives on the daemon's connections. A message of any type without
    destination whose interface is org.freedesktop.DBus.Peer never reaches `bus_dispatch`: the
    connection's built-in peer filter answers it (Ping, GetMachineId) or bounces it with
    UnknownMethod. The reply has no sender field and is addressed to whatever SENDER the caller wrote
    into its own message (known finding F14). -/
def peerFilterReply (m : Msg) : Msg :=
  if m.mtype == 1 && m.member == some PING then mkReturn m [] []
  else if m.mtype == 1 && m.member == some GET_MACHINE_ID then mkReturn m [tStr] [sStr []]
  else mkError m .unknownMethod

/-- what libdbus answers to a message that `bus_dispatch` declines (no destination, not a signal):
    UnknownMethod for a method call, nothing otherwise -/
def builtinReply (m : Msg) : List Msg :=
  if m.mtype != 1 then [] else [mkError m .unknownMethod]

/-- the header as the bus takes it in: unknown fields and CONTAINER_INSTANCE dropped -/
def strip (m0 : Msg) : Msg :=
  ({ m0 with fields := removeUnknownList m0.fields } : Msg).delField FIELD_CONTAINER_INSTANCE

def senderNameOf (b : Bus) (c : ConnId) : Bytes := match b.nameOf c with | some n => n | none => NOT_ACTIVE

/-- a message addressed to org.freedesktop.DBus -/
def toDriverCore (tbl : List IfaceRow) (t : Tx) (c : ConnId) (m : Msg) : Tx × Option Err :=
  let (p, e) := checkPolicy t.bus (some c) none none m
  let t := t.setPending p
  match e with
  | some e => (t, some e)
  | none =>
    match driverHandle tbl t c m with
    | (t, some e) => (t, some e)
    | (t, none) =>
      -- messages to the driver are also shown to eavesdropping match rules (Hello has re-stamped
      -- the sender with the freshly minted name by now)
      dispatchMatches t (some c) none (m.setSender (senderNameOf t.bus c))

/-- monitors are shown the message first (which of them is decided before the driver acts), but what
    they are shown is the one shared message object, whose sender Hello re-stamps before anything is
    written out -/
def toDriver (tbl : List IfaceRow) (t0 : Tx) (c : ConnId) (m : Msg) : Tx × Option Err :=
  ({ (toDriverCore tbl { t0 with mon := [] } c m).1 with
      mon := t0.mon ++ (captureTargets t0.bus (some c) none m).map
                (Out.deliver · (m.setSender (senderNameOf (toDriverCore tbl { t0 with mon := [] } c m).1.bus c))) ++
             (toDriverCore tbl { t0 with mon := [] } c m).1.mon },
   (toDriverCore tbl { t0 with mon := [] } c m).2)

/-- a message from an active connection to a peer, or a broadcast -/
def route (t : Tx) (c : ConnId) (m : Msg) : Tx × Option Err :=
  match m.dest with
  | some d =>
    match t.bus.primary? d with
    | none => (capture t (some c) none m, some (if m.noAutoStart then .nameHasNoOwner else .serviceUnknown))
    | some a => dispatchMatches (capture t (some c) (some a) m) (some c) (some a) m
  | none => dispatchMatches (capture t (some c) none m) (some c) none m

def sweepMonitors (t : Tx) : Tx :=
  (t.bus.conns.filter (·.monitor)).foldl (fun t x => dropPending t x.id) t

/-- the end of `bus_dispatch`: an error becomes an error reply to the sender -/
def finish (r : Tx × Option Err) (c : ConnId) (m : Msg) : Tx :=
  match r with
  | (t, some e) => sendError t c m e
  | (t, none) => t

def dropConn (b : Bus) (c : ConnId) : Tx :=
  { disconnect b c with out := (disconnect b c).out ++ [.close c] }

def dispatch (tbl : List IfaceRow) (b : Bus) (c : ConnId) (m0 : Msg) : Tx :=
  match b.conn? c with
  | none => { bus := b }
  | some x =>
    let m := strip m0
    if m.dest.isNone && m.iface == some PEER_IFACE then { bus := b, out := [Out.deliver c (peerFilterReply m)] }
    else if x.monitor then dropConn b c
    else if m.dest.isNone && m.mtype != 4 then
      -- left to the connection layer; its reply is made from the message as received (sender
      -- not yet stamped)
      { bus := b, out := (builtinReply m).map (Out.deliver c) }
    else
      let m := m.setSender (senderNameOf b c)
      if m.dest == some BUS_NAME then sweepMonitors (finish (toDriver tbl { bus := b } c m) c m)
      else if x.name.isNone then
        -- monitors are shown the message, then the connection is dropped
        { dropConn b c with mon := (capture { bus := b } (some c) none m).mon ++ (dropConn b c).mon }
      else finish (route { bus := b } c m) c m

/-- `bus_pending_reply_expired` for every entry (in list order; the real order is that of the
    deadlines): the caller gets NoReply, the slot goes -/
def expireAll (b : Bus) : Tx :=
  b.pending.foldl (fun t p => sendError t p.caller (fakeCall p.serial) .noReply) ({ bus := { b with pending := [] } } : Tx)

/-- `do_expiration_with_monotonic_time` over the pending replies: every entry that is due goes, in
    list order, and its caller gets NoReply; the others stay as they are -/
def expireWhere (b : Bus) (due : Pending → Bool) : Tx :=
  (b.pending.filter due).foldl (fun t p => sendError t p.caller (fakeCall p.serial) .noReply)
    ({ bus := { b with pending := b.pending.filter fun p => !due p } } : Tx)

/-- `bus_context_reload_config` as far as the security policy goes: the new policy is installed and
    `bus_connections_reload_policy` gives every registered connection a freshly built client policy
    (what a connection owns, waits for or has outstanding is not looked at again) -/
def reloadPolicy (b : Bus) (p : Policy) : Bus :=
  { b with policy := p,
           conns := b.conns.map fun x => if x.name.isSome then { x with policy := p.clientPolicy b.limits.maxFdsDefault x.uid x.gids false } else x }

def step (tbl : List IfaceRow) (b : Bus) : Ev → Tx
  | .connect c uid gids canFd =>
    if (b.conn? c).isSome then { bus := b }
    else { bus := { b with conns := b.conns ++ [{ id := c, uid := uid, gids := gids, canFd := canFd }] } }
  | .msg c m => dispatch tbl b c m
  | .invalid c => if (b.conn? c).isNone then { bus := b } else dropConn b c
  | .close c => disconnect b c
  | .timeout => expireAll b
  | .expire due => expireWhere b (due.contains ·)
  | .stall c on => { bus := { b with full := if on then c :: b.full.filter (· != c) else b.full.filter (· != c) } }
  | .reload p => { bus := reloadPolicy b p }

def run (tbl : List IfaceRow) (b : Bus) (evs : List Ev) : Bus × List (List Out) :=
  evs.foldl (fun (acc : Bus × List (List Out)) ev =>
    ((step tbl acc.1 ev).bus, acc.2 ++ [(step tbl acc.1 ev).out])) (b, [])

end Dbus.Model.Bus
