import Dbus.Model.Message
import Dbus.Model.Bus.Match
/-
  Executable model of bus/policy.c rule evaluation:
  `bus_client_policy_check_can_send`, `bus_client_policy_check_can_receive`,
  `bus_rules_check_can_own`, and the order in which `bus_policy_create_client_policy`
  concatenates the contexts, and `bus_client_policy_optimize` (the rule list a connection holds is the
  optimized one, as in the daemon; `Proofs/PolicyOpt.lean` proves that this changes no decision).
-/
namespace Dbus.Model.Bus
open Dbus Dbus.Spec Dbus.Model

inductive Tri | any | yes | no
  deriving DecidableEq, Repr, Inhabited

/-- the match part of a `<allow>`/`<deny>` send_* or receive_* rule (`d.send` / `d.receive`) -/
structure MsgRule where
  mtype : Nat := 0                 -- DBUS_MESSAGE_TYPE_INVALID = any
  path : Option Bytes := none
  iface : Option Bytes := none
  member : Option Bytes := none
  error : Option Bytes := none
  peer : Option Bytes := none      -- send: destination; receive: origin (sender)
  peerPrefix : Bool := false       -- send_destination_prefix
  broadcast : Tri := .any          -- send only
  requestedReply : Bool := false
  eavesdrop : Bool := false
  minFds : Nat := 0
  maxFds : Nat := 16               -- DBUS_MAXIMUM_MESSAGE_UNIX_FDS (= default max), regenerated
  deriving Repr, Inhabited

inductive RuleKind
  | send (r : MsgRule)
  | receive (r : MsgRule)
  | own (name : Option Bytes) (pfx : Bool)
  | other                          -- user= / group= rules: not consulted for messages or names
  deriving Repr, Inhabited

structure PRule where
  allow : Bool
  kind : RuleKind
  deriving Repr, Inhabited

/-- the rule lists of a parsed configuration, by context -/
structure Policy where
  default : List PRule := []
  mandatory : List PRule := []
  byUid : List (Nat × List PRule) := []
  byGid : List (Nat × List PRule) := []
  consoleTrue : List PRule := []
  consoleFalse : List PRule := []
  deriving Repr, Inhabited

def lookupAll (tbl : List (Nat × List PRule)) (k : Nat) : List PRule :=
  (tbl.filter (·.1 = k)).flatMap (·.2)

/-- `bus_policy_create_client_policy`: default, groups (in the order the groups are reported),
    user, console, mandatory -/
def Policy.clientRules (p : Policy) (uid : Nat) (gids : List Nat) (atConsole : Bool) : List PRule :=
  p.default ++ gids.flatMap (lookupAll p.byGid) ++ lookupAll p.byUid uid ++
  (if atConsole then p.consoleTrue else p.consoleFalse) ++ p.mandatory

/-- `_dbus_string_starts_with_words_c_str (a, pfx, '.')` -/
def startsWithWords (a pfx : Bytes) : Bool :=
  pfx.isPrefixOf a && (match a[pfx.length]? with | none => true | some c => c == 0x2e)

/-- what the rule matcher needs to know about a message -/
structure MsgView where
  mtype : Nat
  path : Option Bytes
  iface : Option Bytes
  member : Option Bytes
  error : Option Bytes
  dest : Option Bytes
  sender : Option Bytes
  isReply : Bool            -- reply_serial != 0
  nFds : Nat
  deriving Repr, Inhabited

def optMismatch (ruleV : Option Bytes) (msgV : Option Bytes) : Bool :=
  match ruleV, msgV with
  | some r, some m => r != m
  | _, _ => false

/-- interface is optional in messages: an allow rule naming an interface does not apply to a
    message without one, a deny rule does -/
def ifaceSkips (allow : Bool) (ruleI msgI : Option Bytes) : Bool :=
  match ruleI with
  | none => false
  | some r =>
    match msgI with
    | none => allow
    | some m => r != m

def fdsSkips (r : MsgRule) (maxDefault : Nat) (n : Nat) : Bool :=
  (decide (r.minFds > 0) || decide (r.maxFds < maxDefault)) && (decide (n < r.minFds) || decide (n > r.maxFds))

def replySkips (allow : Bool) (r : MsgRule) (isReply requested : Bool) : Bool :=
  isReply && ((!requested && allow && r.requestedReply && !r.eavesdrop) ||
              (requested && !allow && !r.requestedReply))

/-- context a send rule is evaluated in: the receiving connection, if any, as the set of names it
    is queued for (`bus_service_owner_in_queue`, `bus_connection_is_queued_owner_by_prefix`) -/
structure PeerInfo where
  present : Bool                -- receiver / sender connection is non-NULL
  queuedFor : List Bytes        -- names whose queue contains the peer (its unique name included)
  deriving Repr, Inhabited

def peerSkipsSend (r : MsgRule) (v : MsgView) (recv : PeerInfo) : Bool :=
  match r.peer with
  | none => false
  | some d =>
    if !r.peerPrefix then
      (if !recv.present then v.dest != some d else !recv.queuedFor.contains d)
    else
      (if !recv.present then
        (match v.dest with | none => true | some md => !startsWithWords md d)
       else !recv.queuedFor.any (fun n => startsWithWords n d))

def broadcastSkips (r : MsgRule) (v : MsgView) : Bool :=
  match r.broadcast with
  | .any => false
  | .no => v.dest.isNone && v.mtype == 4
  | .yes => !(v.dest.isNone && v.mtype == 4)

/-- does this send rule apply to the message? -/
def sendApplies (maxFdsDefault : Nat) (allow : Bool) (r : MsgRule) (v : MsgView) (requested : Bool)
    (recv : PeerInfo) : Bool :=
  !(decide (r.mtype ≠ 0) && v.mtype != r.mtype) &&
  !replySkips allow r v.isReply requested &&
  !optMismatch r.path v.path &&
  !ifaceSkips allow r.iface v.iface &&
  !optMismatch r.member v.member &&
  !optMismatch r.error v.error &&
  !broadcastSkips r v &&
  !peerSkipsSend r v recv &&
  !fdsSkips r maxFdsDefault v.nFds

def peerSkipsReceive (r : MsgRule) (v : MsgView) (sender : PeerInfo) : Bool :=
  match r.peer with
  | none => false
  | some o => if !sender.present then v.sender != some o else !sender.queuedFor.contains o

def eavesSkips (allow : Bool) (r : MsgRule) (eavesdropping : Bool) : Bool :=
  (eavesdropping && allow && !r.eavesdrop) || (!eavesdropping && !allow && r.eavesdrop)

def receiveApplies (maxFdsDefault : Nat) (allow : Bool) (r : MsgRule) (v : MsgView)
    (requested eavesdropping : Bool) (sender : PeerInfo) : Bool :=
  !(decide (r.mtype ≠ 0) && v.mtype != r.mtype) &&
  !eavesSkips allow r eavesdropping &&
  !replySkips allow r v.isReply requested &&
  !optMismatch r.path v.path &&
  !ifaceSkips allow r.iface v.iface &&
  !optMismatch r.member v.member &&
  !optMismatch r.error v.error &&
  !peerSkipsReceive r v sender &&
  !fdsSkips r maxFdsDefault v.nFds

/-- last applicable rule decides; nothing is allowed by default -/
def lastVerdict (rules : List PRule) (applies : PRule → Bool) : Bool :=
  rules.foldl (fun acc r => if applies r then r.allow else acc) false

def canSend (maxFdsDefault : Nat) (rules : List PRule) (v : MsgView) (requested : Bool) (recv : PeerInfo) : Bool :=
  lastVerdict rules fun r =>
    match r.kind with
    | .send mr => sendApplies maxFdsDefault r.allow mr v requested recv
    | _ => false

def canReceive (maxFdsDefault : Nat) (rules : List PRule) (v : MsgView) (requested eavesdropping : Bool)
    (sender : PeerInfo) : Bool :=
  lastVerdict rules fun r =>
    match r.kind with
    | .receive mr => receiveApplies maxFdsDefault r.allow mr v requested eavesdropping sender
    | _ => false

def ownApplies (name : Option Bytes) (pfx : Bool) (requested : Bytes) : Bool :=
  if !pfx then (match name with | some n => requested == n | none => true)
  else (match name with | some n => startsWithWords requested n | none => true)

def canOwn (rules : List PRule) (requested : Bytes) : Bool :=
  lastVerdict rules fun r =>
    match r.kind with
    | .own n p => ownApplies n p requested
    | _ => false

/-! ### `bus_client_policy_optimize` -/

/-- rule types as `remove_rules_by_type_up_to` compares them -/
def PRule.typeNo (r : PRule) : Nat :=
  match r.kind with
  | .send _ => 0
  | .receive _ => 1
  | .own _ _ => 2
  | .other => 3

/-- "this rule decides every message / name of its type": the test `bus_client_policy_optimize` applies before it drops the preceding
    rules of the same type (as repaired by F17: the modifiers must not let the rule skip anything either) -/
def PRule.catchAll (maxFdsDefault : Nat) (r : PRule) : Bool :=
  match r.kind with
  | .send m =>
    m.mtype == 0 && m.path.isNone && m.iface.isNone && m.member.isNone && m.error.isNone && m.peer.isNone &&
    m.broadcast == .any && m.minFds == 0 && m.maxFds == maxFdsDefault &&
    (if r.allow then (!m.requestedReply || m.eavesdrop) else m.requestedReply)
  | .receive m =>
    m.mtype == 0 && m.path.isNone && m.iface.isNone && m.member.isNone && m.error.isNone && m.peer.isNone &&
    m.minFds == 0 && m.maxFds == maxFdsDefault &&
    (if r.allow then m.eavesdrop else (!m.eavesdrop && m.requestedReply))
  | .own n _ => n.isNone
  | .other => false

/-- one turn of the loop: a catch-all rule removes the rules of its type that precede it -/
def optimizeStep (maxFdsDefault : Nat) (acc : List PRule) (r : PRule) : List PRule :=
  (if r.catchAll maxFdsDefault then acc.filter (fun s => s.typeNo != r.typeNo) else acc) ++ [r]

def optimize (maxFdsDefault : Nat) (rules : List PRule) : List PRule := rules.foldl (optimizeStep maxFdsDefault) []


/-- what `bus_policy_create_client_policy` hands a connection: the concatenated contexts, optimized -/
def Policy.clientPolicy (p : Policy) (maxFdsDefault : Nat) (uid : Nat) (gids : List Nat) (atConsole : Bool) : List PRule :=
  optimize maxFdsDefault (p.clientRules uid gids atConsole)

/-! ### bus/config-parser.c `append_rule_from_element`: attributes → rule -/

def attr (as : List (String × Bytes)) (k : String) : Option Bytes := (as.find? (·.1 == k)).map (·.2)

/-- in the configuration file `*` is the wildcard, in a rule it is NULL -/
def wild : Option Bytes → Option Bytes
  | some [0x2a] => none
  | o => o

def isTrue (o : Option Bytes) : Bool := o == some [0x74, 0x72, 0x75, 0x65]

def natOfDec (b : Bytes) : Nat := b.foldl (fun acc c => acc * 10 + (c.toNat - 48)) 0

/-- `none` = the parser rejects the element (the daemon would not start) -/
def ruleOfAttrs (maxFds : Nat) (allow : Bool) (as : List (String × Bytes)) : Option PRule :=
  let a := attr as
  let anySend := (a "send_destination").isSome || (a "send_destination_prefix").isSome ||
    (a "send_broadcast").isSome || (a "send_path").isSome || (a "send_type").isSome ||
    (a "send_interface").isSome || (a "send_member").isSome || (a "send_error").isSome ||
    (a "send_requested_reply").isSome
  let anyRecv := (a "receive_sender").isSome || (a "receive_path").isSome || (a "receive_type").isSome ||
    (a "receive_interface").isSome || (a "receive_member").isSome || (a "receive_error").isSome ||
    (a "receive_requested_reply").isSome || (!anySend && (a "eavesdrop").isSome)
  let others := [(a "own").isSome, (a "own_prefix").isSome, (a "user").isSome, (a "group").isSome]
  let anyMsg := anySend || anyRecv || (a "eavesdrop").isSome || (a "max_fds").isSome || (a "min_fds").isSome
  if !(anySend || anyRecv || others.any id) then none
  else if ((a "send_member").isSome && (a "send_interface").isNone && (a "send_path").isNone) ||
          ((a "receive_member").isSome && (a "receive_interface").isNone && (a "receive_path").isNone) then none
  else if (if anyMsg then 1 else 0) + (others.filter id).length > 1 then none
  else if anySend && anyRecv then none
  else if ((a "send_member").isSome || (a "send_interface").isSome) && (a "send_error").isSome then none
  else if (a "send_destination").isSome && (a "send_destination_prefix").isSome then none
  else if ((a "receive_member").isSome || (a "receive_interface").isSome) && (a "receive_error").isSome then none
  else
    let fds (r : MsgRule) : MsgRule :=
      { r with maxFds := match a "max_fds" with | some v => natOfDec v | none => maxFds,
               minFds := match a "min_fds" with | some v => natOfDec v | none => 0 }
    if anySend then
      let ty := wild (a "send_type")
      match (match ty with | some t => (typeFromString t).map some | none => some none) with
      | none => none
      | some mt =>
        if (wild (a "send_destination")).isSome && isTrue (a "send_broadcast") then none
        else
          let dest := wild (a "send_destination")
          some { allow := allow, kind := .send (fds
            { mtype := mt.getD 0, path := wild (a "send_path"), iface := wild (a "send_interface"),
              member := wild (a "send_member"), error := wild (a "send_error"),
              peer := if dest.isSome then dest else a "send_destination_prefix",
              peerPrefix := dest.isNone && (a "send_destination_prefix").isSome,
              broadcast := match a "send_broadcast" with | none => .any | some v => if isTrue (some v) then .yes else .no,
              requestedReply := match a "send_requested_reply" with | some v => isTrue (some v) | none => allow,
              eavesdrop := isTrue (a "eavesdrop") }) }
    else if anyRecv then
      let ty := wild (a "receive_type")
      match (match ty with | some t => (typeFromString t).map some | none => some none) with
      | none => none
      | some mt =>
        some { allow := allow, kind := .receive (fds
          { mtype := mt.getD 0, path := wild (a "receive_path"), iface := wild (a "receive_interface"),
            member := wild (a "receive_member"), error := wild (a "receive_error"),
            peer := wild (a "receive_sender"),
            requestedReply := match a "receive_requested_reply" with | some v => isTrue (some v) | none => allow,
            eavesdrop := isTrue (a "eavesdrop") }) }
    else if (a "own").isSome then some { allow := allow, kind := .own (wild (a "own")) false }
    else if (a "own_prefix").isSome then some { allow := allow, kind := .own (a "own_prefix") true }
    else some { allow := allow, kind := .other }

end Dbus.Model.Bus
