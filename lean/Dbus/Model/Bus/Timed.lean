import Dbus.Model.Bus.Activation
/-
  Time on top of the bus: bus/expirelist.c (`bus_expire_list_add`, `do_expiration_with_monotonic_time`)
  for the pending replies (`reply_timeout`) and the one-shot timer of a pending activation
  (`service_start_timeout`, armed in `bus_activation_activate_service` when the program is started).

  The layers below know no clock: they are told *which* pending replies have timed out
  (`Ev.expire`) and *which* activation (`AEv.actTimeout`).  This layer keeps the clock and the
  time each pending reply was recorded / each activation's timer was armed, and turns "time
  passes" (`advance dt`) into exactly those events: a deadline is `born + timeout`, fixed when
  the entry is created; nothing that happens later (more calls, more waiters joining the
  activation) moves it.
-/
namespace Dbus.Model.Bus
open Dbus Dbus.Spec Dbus.Model

structure TBus where
  a : ABus := {}
  now : Nat := 0                           -- milliseconds
  replyTimeout : Option Nat := none        -- reply_timeout; `none`: never (the session bus default, -1)
  startTimeout : Nat := 25000              -- service_start_timeout
  slotBorn : List (Pending × Nat) := []    -- `added_tv` of each pending reply, in the order of `a.core.pending`
  actBorn : List (Bytes × Nat) := []       -- when the timer of each pending activation was armed, in the order of `a.acts`
  deriving Inhabited

/-- entries that were there before keep their stamp, new ones are stamped with the present time -/
def stampSlots (now : Nat) (old : List (Pending × Nat)) (pend : List Pending) : List (Pending × Nat) :=
  pend.map fun p => (p, (old.lookup p).getD now)

def stampActs (now : Nat) (old : List (Bytes × Nat)) (acts : List PendingAct) : List (Bytes × Nat) :=
  acts.map fun pa => (pa.name, (old.lookup pa.name).getD now)

/-- the state after a transaction of the layer below -/
def TBus.next (t : TBus) (x : ATx) : TBus :=
  { t with a := t.a.next x,
           slotBorn := stampSlots t.now t.slotBorn x.t.bus.pending,
           actBorn := stampActs t.now t.actBorn x.acts }

/-- pending replies whose deadline is not after `now` -/
def dueSlots (t : TBus) (now : Nat) : List Pending :=
  match t.replyTimeout with
  | none => []
  | some T => (t.slotBorn.filter fun e => decide (e.2 + T ≤ now)).map (·.1)

/-- pending activations whose timer has run out by `now`, in creation order -/
def dueActs (t : TBus) (now : Nat) : List Bytes :=
  (t.actBorn.filter fun e => decide (e.2 + t.startTimeout ≤ now)).map (·.1)

inductive TEv
  | ev (e : AEv)
  | advance (dt : Nat)
  deriving Inhabited

/-- the activation timers that have run out fire one after the other -/
def fireActs (tbl : List IfaceRow) : List Bytes → TBus → List ATx → TBus × List ATx
  | [], t, acc => (t, acc)
  | n :: ns, t, acc => fireActs tbl ns (t.next (stepA tbl t.a (.actTimeout n))) (acc ++ [stepA tbl t.a (.actTimeout n)])

/-- one event of the layer below, or time passing: the main loop runs the timers that are due — the
    expiry list of the pending replies first (it was added to the loop when the bus started), then
    the activation timers in the order they were armed -/
def stepT (tbl : List IfaceRow) (t : TBus) : TEv → TBus × List ATx
  | .ev e => (t.next (stepA tbl t.a e), [stepA tbl t.a e])
  | .advance dt =>
    let t1 : TBus := { t with now := t.now + dt }
    let x := stepA tbl t1.a (.core (.expire (dueSlots t1 t1.now)))
    fireActs tbl (dueActs t1 t1.now) (t1.next x) [x]

def runT (tbl : List IfaceRow) (t : TBus) (evs : List TEv) : TBus × List (List ATx) :=
  evs.foldl (fun (acc : TBus × List (List ATx)) ev => ((stepT tbl acc.1 ev).1, acc.2 ++ [(stepT tbl acc.1 ev).2])) (t, [])

end Dbus.Model.Bus
