import Dbus.Basic
/-
  How the bus bounds connections that have not completed their handshake (bus/connection.c:
  `incomplete` list / n_incomplete; bus/bus.c: bus_context_check_all_watches): while the number of
  incomplete connections is at its maximum the listening sockets are taken out of the main loop,
  so further clients wait in the kernel's accept queue; every change of the count re-evaluates.
  A connection is incomplete from accept() until Hello succeeds.
-/
namespace Dbus.Model.Accept

structure Acc where
  max : Nat
  incomplete : List Nat := []    -- accepted, handshake not completed (BusConnections.incomplete)
  backlog : List Nat := []       -- connected, not yet accepted (kernel queue), oldest first
  enabled : Bool := true         -- BusContext.watches_enabled
deriving Repr, DecidableEq

/-- bus_context_check_all_watches -/
def Acc.check (a : Acc) : Acc := { a with enabled := decide (a.incomplete.length < a.max) }

/-- the main loop accepts from the queue while the listening sockets are watched
    (bus_connections_setup_connection: n_incomplete += 1, then check) -/
def Acc.pump : Nat → Acc → Acc
  | 0, a => a
  | fuel + 1, a =>
    if a.enabled then
      match a.backlog with
      | [] => a
      | i :: rest => Acc.pump fuel ({ a with backlog := rest, incomplete := a.incomplete ++ [i] } : Acc).check
    else a

inductive Ev
  | arrive (i : Nat)      -- a client connects
  | complete (i : Nat)    -- an accepted client finishes authentication and Hello
  | gone (i : Nat)        -- a client goes away (closes, is dropped for bad input, or times out)
deriving Repr

def Acc.step (a : Acc) : Ev → Acc
  | .arrive i =>
    let a := { a with backlog := a.backlog ++ [i] }
    a.pump (a.backlog.length + 1)
  | .complete i =>
    if i ∈ a.incomplete then
      let a := ({ a with incomplete := a.incomplete.erase i } : Acc).check
      a.pump (a.backlog.length + 1)
    else a
  | .gone i =>
    if i ∈ a.incomplete then
      let a := ({ a with incomplete := a.incomplete.erase i } : Acc).check
      a.pump (a.backlog.length + 1)
    else { a with backlog := a.backlog.erase i }

def Acc.run (a : Acc) (evs : List Ev) : Acc := evs.foldl Acc.step a

end Dbus.Model.Accept
