import Dbus.Model.Bus.Core
import Dbus.Model.Loader
/-
  The bus seen from the sockets: clients write arbitrary bytes; each connection's loader
  (Dbus.Model.Loader, the model of DBusMessageLoader proved about in C11) frames messages off the
  stream and the bus core (Dbus.Model.Bus.step) sees only what the loader lets through: the framed
  messages in order, and one `invalid` event when the stream turns corrupt
  (_dbus_transport_queue_messages: queue what was loaded, then disconnect on corruption).
-/
namespace Dbus.Model.Bus
open Dbus Dbus.Spec Dbus.Model

/-- what a client can do to its socket, and the clock -/
inductive NetOp
  | connect (c : ConnId) (uid : Nat) (gids : List Nat) (canFd : Bool)   -- authenticated connection
  | write (c : ConnId) (bytes : Bytes)      -- any bytes at all, in any chunking
  | close (c : ConnId)
  | timeout
  deriving Inhabited

structure Net where
  bus : Bus := {}
  loaders : List (ConnId × Loader) := []
  maxMsg : Nat := MAX_MESSAGE_LENGTH

def Net.loader (n : Net) (c : ConnId) : Loader := (n.loaders.lookup c).getD {}

def Net.setLoader (n : Net) (c : ConnId) (l : Loader) : Net :=
  { n with loaders := (c, l) :: n.loaders.filter (fun p => p.1 != c) }

/-- the events one read gives rise to: the newly framed messages, then `invalid` if the stream
    has just been found corrupt -/
def readEvents (c : ConnId) (l l' : Loader) : List Ev :=
  (l'.msgs.drop l.msgs.length).map (Ev.msg c) ++ (if l'.corrupted && !l.corrupted then [Ev.invalid c] else [])

def NetOp.events (n : Net) : NetOp → List Ev
  | .connect c uid gids canFd => [.connect c uid gids canFd]
  | .write c bytes => readEvents c (n.loader c) ((n.loader c).feed n.maxMsg bytes)
  | .close c => [.close c]
  | .timeout => [.timeout]

def NetOp.loaders (n : Net) : NetOp → Net
  | .connect c _ _ _ => n.setLoader c {}
  | .write c bytes => n.setLoader c ((n.loader c).feed n.maxMsg bytes)
  | _ => n

/-- run a list of events, keeping every step's transaction -/
def steps (tbl : List IfaceRow) (b : Bus) : List Ev → Bus × List Tx
  | [] => (b, [])
  | ev :: evs =>
    let t := step tbl b ev
    let r := steps tbl t.bus evs
    (r.1, t :: r.2)

def netStep (tbl : List IfaceRow) (n : Net) (op : NetOp) : Net × List Tx :=
  let r := steps tbl n.bus (op.events n)
  ({ op.loaders n with bus := r.1 }, r.2)

def netRun (tbl : List IfaceRow) (n : Net) : List NetOp → Net
  | [] => n
  | op :: ops => netRun tbl (netStep tbl n op).1 ops

/-- all events of a history of socket operations, in order -/
def netEvents (tbl : List IfaceRow) (n : Net) : List NetOp → List Ev
  | [] => []
  | op :: ops => op.events n ++ netEvents tbl (netStep tbl n op).1 ops

end Dbus.Model.Bus
