import Dbus.Basic
import Dbus.Model.Utf8
import Dbus.Model.Sha1
/-
  Server side of the authentication handshake: dbus/dbus-auth.c (DBusAuth with side = server),
  the credentials predicates of dbus/dbus-credentials.c that it uses, and the identity gate of
  _dbus_transport_try_to_authenticate (dbus/dbus-transport.c).

  Hand-written model, tied to the C code by the correspondence check of C08 (harness/lib/h_auth.c
  feeds the same bytes to a real DBusAuth and prints its whole visible and internal state after
  every operation).

  What the environment decides (kernel credentials, user database, keyring contents, random
  challenge) is a parameter: `Env` for what is fixed during a connection, the `tape` in the state
  for what is chosen per challenge.  Out-of-memory paths are not modelled (C14).
-/
namespace Dbus.Model.Auth
open Dbus Dbus.Model

/-! ### credentials (unix: pid, uid, groups, security label) -/

structure Creds where
  pid : Option Nat := none
  uid : Option Nat := none
  gids : Option (List Nat) := none
  label : Option Bytes := none
deriving DecidableEq, Repr

/-- _dbus_credentials_add_credentials: every field present in `o` overwrites -/
def Creds.add (c o : Creds) : Creds :=
  { pid := if o.pid.isSome then o.pid else c.pid
    uid := if o.uid.isSome then o.uid else c.uid
    gids := if o.gids.isSome then o.gids else c.gids
    label := if o.label.isSome then o.label else c.label }

/-- _dbus_credentials_add_credential (…, DBUS_CREDENTIAL_UNIX_PROCESS_ID, o) -/
def Creds.addPid (c o : Creds) : Creds := { c with pid := if o.pid.isSome then o.pid else c.pid }
def Creds.addGids (c o : Creds) : Creds := { c with gids := if o.gids.isSome then o.gids else c.gids }
def Creds.addLabel (c o : Creds) : Creds := { c with label := if o.label.isSome then o.label else c.label }

/-- _dbus_credentials_are_anonymous -/
def Creds.anonymous (c : Creds) : Bool := c.uid.isNone

/-- _dbus_credentials_are_superset (c, sub): an unset field of `sub` is a wildcard -/
def Creds.superset (c sub : Creds) : Bool :=
  (sub.pid.isNone || sub.pid == c.pid) && (sub.uid.isNone || sub.uid == c.uid) &&
  (sub.gids.isNone || sub.gids == c.gids) && (sub.label.isNone || sub.label == c.label)

/-! ### mechanisms and commands -/

inductive Mech | external | cookie | anonymous
deriving DecidableEq, Repr

def Mech.name : Mech → Bytes
  | .external => [0x45, 0x58, 0x54, 0x45, 0x52, 0x4e, 0x41, 0x4c]
  | .cookie => [0x44, 0x42, 0x55, 0x53, 0x5f, 0x43, 0x4f, 0x4f, 0x4b, 0x49, 0x45, 0x5f, 0x53, 0x48, 0x41, 0x31]
  | .anonymous => [0x41, 0x4e, 0x4f, 0x4e, 0x59, 0x4d, 0x4f, 0x55, 0x53]

/-- all_mechanisms[], in the order of the table -/
def allMechs : List Mech := [.external, .cookie, .anonymous]

inductive Cmd | auth | cancel | data | begin | rejected | ok | error | negotiateFd | agreeFd | unknown
deriving DecidableEq, Repr

/-- auth_command_names[] / lookup_command_from_name -/
def cmdOf (name : Bytes) : Cmd :=
  if name = [0x41, 0x55, 0x54, 0x48] then .auth
  else if name = [0x43, 0x41, 0x4e, 0x43, 0x45, 0x4c] then .cancel
  else if name = [0x44, 0x41, 0x54, 0x41] then .data
  else if name = [0x42, 0x45, 0x47, 0x49, 0x4e] then .begin
  else if name = [0x52, 0x45, 0x4a, 0x45, 0x43, 0x54, 0x45, 0x44] then .rejected
  else if name = [0x4f, 0x4b] then .ok
  else if name = [0x45, 0x52, 0x52, 0x4f, 0x52] then .error
  else if name = [0x4e, 0x45, 0x47, 0x4f, 0x54, 0x49, 0x41, 0x54, 0x45, 0x5f, 0x55, 0x4e, 0x49, 0x58, 0x5f, 0x46, 0x44] then .negotiateFd
  else if name = [0x41, 0x47, 0x52, 0x45, 0x45, 0x5f, 0x55, 0x4e, 0x49, 0x58, 0x5f, 0x46, 0x44] then .agreeFd
  else .unknown

inductive Phase | waitingForAuth | waitingForData | waitingForBegin | authenticated | needDisconnect
deriving DecidableEq, Repr

def Phase.isEnd : Phase → Bool
  | .authenticated | .needDisconnect => true
  | _ => false

/-! ### environment -/

/-- what the environment decides when a DBUS_COOKIE_SHA1 challenge is made -/
structure Choice where
  keyring : Bool            -- the keyring of the requested user could be loaded
  cookie : Option Nat       -- _dbus_keyring_get_best_key
  challenge : Bytes         -- hex encoding of the 16 random bytes
deriving DecidableEq, Repr

structure Env where
  allowed : Option (List Bytes)      -- _dbus_auth_set_mechanisms (none: any)
  sock : Creds                       -- _dbus_auth_set_credentials: what the kernel reported
  guid : Bytes
  fdPossible : Bool
  selfUid : Nat                      -- uid of the process containing the server
  context : Bytes
  parseNumber : Bytes → Option Nat   -- _dbus_is_a_number (strtoul)
  lookupUser : Bytes → Option Nat    -- user database
  cookies : List (Nat × Bytes)       -- keyring: id ↦ hex secret

def MAX_FAILURES : Nat := 6
def MAX_BUFFER : Nat := 16 * 1024
def UID_UNSET : Nat := 2 ^ 64 - 1

/-! ### state -/

structure S where
  phase : Phase := .waitingForAuth
  mech : Option Mech := none
  identity : Bytes := []
  desired : Creds := {}
  authorized : Creds := {}
  cookieId : Option Nat := none
  challenge : Bytes := []
  asked : Bool := false
  failures : Nat := 0
  fdNeg : Bool := false
  incoming : Bytes := []
  outgoing : Bytes := []
  tape : List Choice := []
deriving DecidableEq, Repr

/-! ### strings -/

def CR : UInt8 := 0x0d
def LF : UInt8 := 0x0a
def SP : UInt8 := 0x20
def crlf : Bytes := [CR, LF]

def isBlank (b : UInt8) : Bool := b = 0x20 || b = 0x09
/-- _DBUS_ISASCII -/
def isAscii (b : UInt8) : Bool := b ≠ 0 && b < 0x80

def hexNibble (b : UInt8) : Option UInt8 :=
  if 0x30 ≤ b ∧ b ≤ 0x39 then some (b - 0x30)
  else if 0x61 ≤ b ∧ b ≤ 0x66 then some (b - 0x57)
  else if 0x41 ≤ b ∧ b ≤ 0x46 then some (b - 0x37)
  else none

/-- _dbus_string_hex_decode: decodes up to the first byte that is no hex digit; returns what
    was decoded and how many bytes were consumed (a trailing single digit is a high nibble) -/
def hexDecode : Bytes → Bytes × Nat
  | [] => ([], 0)
  | [a] => match hexNibble a with
    | some x => ([x <<< 4], 1)
    | none => ([], 0)
  | a :: b :: r => match hexNibble a with
    | none => ([], 0)
    | some x => match hexNibble b with
      | none => ([x <<< 4], 1)
      | some y => let (d, n) := hexDecode r; (((x <<< 4) ||| y) :: d, n + 2)

def hexChar (n : UInt8) : UInt8 := if n < 10 then 0x30 + n else 0x57 + n

/-- _dbus_string_hex_encode (lower case) -/
def hexEncode (bs : Bytes) : Bytes := bs.flatMap fun (b : UInt8) => [hexChar (b >>> 4), hexChar (b &&& 0x0f)]

def decimal (n : Nat) : Bytes := (Nat.toDigits 10 n).map fun c => UInt8.ofNat c.toNat

/-- position of the first "\r\n" -/
def findCRLF : Bytes → Option Nat
  | a :: b :: r => if a = CR ∧ b = LF then some 0 else (findCRLF (b :: r)).map (· + 1)
  | _ => none

/-! ### replies -/

def say (s : S) (bs : Bytes) : S := { s with outgoing := s.outgoing ++ bs }

def errNotInConversation : Bytes := [0x45,0x52,0x52,0x4f,0x52,0x20,0x22,0x4e,0x6f,0x74,0x20,0x63,0x75,0x72,0x72,0x65,0x6e,0x74,0x6c,0x79,0x20,0x69,0x6e,0x20,0x61,0x6e,0x20,0x61,0x75,0x74,0x68,0x20,0x63,0x6f,0x6e,0x76,0x65,0x72,0x73,0x61,0x74,0x69,0x6f,0x6e,0x22,0x0d,0x0a]
def errNeedAuthFirst : Bytes := [0x45,0x52,0x52,0x4f,0x52,0x20,0x22,0x4e,0x65,0x65,0x64,0x20,0x74,0x6f,0x20,0x61,0x75,0x74,0x68,0x65,0x6e,0x74,0x69,0x63,0x61,0x74,0x65,0x20,0x66,0x69,0x72,0x73,0x74,0x22,0x0d,0x0a]
def errUnknown : Bytes := [0x45,0x52,0x52,0x4f,0x52,0x20,0x22,0x55,0x6e,0x6b,0x6e,0x6f,0x77,0x6e,0x20,0x63,0x6f,0x6d,0x6d,0x61,0x6e,0x64,0x22,0x0d,0x0a]
def errAuthInProgress : Bytes := [0x45,0x52,0x52,0x4f,0x52,0x20,0x22,0x53,0x65,0x6e,0x74,0x20,0x41,0x55,0x54,0x48,0x20,0x77,0x68,0x69,0x6c,0x65,0x20,0x61,0x6e,0x6f,0x74,0x68,0x65,0x72,0x20,0x41,0x55,0x54,0x48,0x20,0x69,0x6e,0x20,0x70,0x72,0x6f,0x67,0x72,0x65,0x73,0x73,0x22,0x0d,0x0a]
def errAuthExpectingBegin : Bytes := [0x45,0x52,0x52,0x4f,0x52,0x20,0x22,0x53,0x65,0x6e,0x74,0x20,0x41,0x55,0x54,0x48,0x20,0x77,0x68,0x69,0x6c,0x65,0x20,0x65,0x78,0x70,0x65,0x63,0x74,0x69,0x6e,0x67,0x20,0x42,0x45,0x47,0x49,0x4e,0x22,0x0d,0x0a]
def errDataExpectingBegin : Bytes := [0x45,0x52,0x52,0x4f,0x52,0x20,0x22,0x53,0x65,0x6e,0x74,0x20,0x44,0x41,0x54,0x41,0x20,0x77,0x68,0x69,0x6c,0x65,0x20,0x65,0x78,0x70,0x65,0x63,0x74,0x69,0x6e,0x67,0x20,0x42,0x45,0x47,0x49,0x4e,0x22,0x0d,0x0a]
def errNoFd : Bytes := [0x45,0x52,0x52,0x4f,0x52,0x20,0x22,0x55,0x6e,0x69,0x78,0x20,0x46,0x44,0x20,0x70,0x61,0x73,0x73,0x69,0x6e,0x67,0x20,0x6e,0x6f,0x74,0x20,0x73,0x75,0x70,0x70,0x6f,0x72,0x74,0x65,0x64,0x2c,0x20,0x6e,0x6f,0x74,0x20,0x61,0x75,0x74,0x68,0x65,0x6e,0x74,0x69,0x63,0x61,0x74,0x65,0x64,0x20,0x6f,0x72,0x20,0x6f,0x74,0x68,0x65,0x72,0x77,0x69,0x73,0x65,0x20,0x6e,0x6f,0x74,0x20,0x70,0x6f,0x73,0x73,0x69,0x62,0x6c,0x65,0x22,0x0d,0x0a]
def errBadHex : Bytes := [0x45,0x52,0x52,0x4f,0x52,0x20,0x22,0x49,0x6e,0x76,0x61,0x6c,0x69,0x64,0x20,0x68,0x65,0x78,0x20,0x65,0x6e,0x63,0x6f,0x64,0x69,0x6e,0x67,0x22,0x0d,0x0a]
def errNonAscii : Bytes := [0x45,0x52,0x52,0x4f,0x52,0x20,0x22,0x43,0x6f,0x6d,0x6d,0x61,0x6e,0x64,0x20,0x63,0x6f,0x6e,0x74,0x61,0x69,0x6e,0x65,0x64,0x20,0x6e,0x6f,0x6e,0x2d,0x41,0x53,0x43,0x49,0x49,0x22,0x0d,0x0a]
def wREJECTED : Bytes := [0x52, 0x45, 0x4a, 0x45, 0x43, 0x54, 0x45, 0x44]
def wOK : Bytes := [0x4f, 0x4b, 0x20]
def wDATA : Bytes := [0x44, 0x41, 0x54, 0x41]
def wAGREE : Bytes := [0x41, 0x47, 0x52, 0x45, 0x45, 0x5f, 0x55, 0x4e, 0x49, 0x58, 0x5f, 0x46, 0x44, 0x0d, 0x0a]

def Env.permits (env : Env) (name : Bytes) : Bool :=
  match env.allowed with
  | none => true
  | some l => l.contains name

/-- the REJECTED line lists the permitted mechanisms in table order -/
def rejectedLine (env : Env) : Bytes :=
  wREJECTED ++ (allMechs.filter fun m => env.permits m.name).flatMap (fun m => SP :: m.name) ++ crlf

/-- shutdown_mech -/
def shutdownMech (s : S) : S :=
  let s := { s with asked := false, identity := [], authorized := {}, desired := {} }
  match s.mech with
  | some .cookie => { s with cookieId := none, challenge := [], mech := none }
  | _ => { s with mech := none }

/-- send_rejected -/
def sendRejected (env : Env) (s : S) : S :=
  let s := shutdownMech (say s (rejectedLine env))
  { s with failures := s.failures + 1,
           phase := if s.failures + 1 ≥ MAX_FAILURES then .needDisconnect else .waitingForAuth }

/-- send_ok -/
def sendOk (env : Env) (s : S) : S :=
  { say s (wOK ++ env.guid ++ crlf) with phase := .waitingForBegin }

/-- send_data -/
def sendData (s : S) (d : Bytes) : S :=
  if d = [] then say s (wDATA ++ crlf) else say s (wDATA ++ [SP] ++ hexEncode d ++ crlf)

def uidOf (n : Nat) : Option Nat := if n = UID_UNSET then none else some n

/-! ### mechanisms -/

/-- "this is our auth identity": a non-empty argument becomes the identity -/
def withIdentity (s : S) (data : Bytes) : S := if data ≠ [] then { s with identity := data } else s

/-- handle_server_data_external_mech -/
def externalData (env : Env) (s : S) (data : Bytes) : S :=
  if env.sock.anonymous then sendRejected env s
  else if data ≠ [] ∧ s.identity ≠ [] then sendRejected env s
  else
    let s := withIdentity s data
    if s.identity = [] ∧ !s.asked then
      { sendData s [] with asked := true, phase := .waitingForData }
    else
      let s := { s with desired := {} }
      if s.identity = [] then
        let s := { s with desired := s.desired.add env.sock }
        if s.desired.anonymous then sendRejected env s
        else if env.sock.superset s.desired then
          sendOk env { s with authorized := (((s.authorized.add s.desired).addPid env.sock).addGids env.sock).addLabel env.sock }
        else sendRejected env s
      else
        match env.parseNumber s.identity with
        | none => sendRejected env s
        | some n =>
          let s := { s with desired := { s.desired with uid := uidOf n } }
          if s.desired.anonymous then sendRejected env s
          else if env.sock.superset s.desired then
            sendOk env { s with authorized := (((s.authorized.add s.desired).addPid env.sock).addGids env.sock).addLabel env.sock }
          else sendRejected env s

/-- _dbus_credentials_add_from_user with DBUS_CREDENTIALS_ADD_FLAGS_USER_DATABASE -/
def Env.userOf (env : Env) (name : Bytes) : Option (Option Nat) :=
  match env.parseNumber name with
  | some n => some (uidOf n)
  | none => (env.lookupUser name).map uidOf

/-- sha1_handle_first_client_response -/
def cookieFirst (env : Env) (s : S) (data : Bytes) : S :=
  let s := { s with challenge := [] }
  if data ≠ [] ∧ s.identity ≠ [] then sendRejected env s
  else
    let s := withIdentity s data
    match env.userOf data with
    | none => sendRejected env s
    | some u =>
      let s := { s with desired := { s.desired with uid := u } }
      if s.desired.uid ≠ some env.selfUid then sendRejected env s
      else
        match s.tape with
        | [] => sendRejected env s
        | ch :: rest =>
          let s := { s with tape := rest }
          if !ch.keyring then sendRejected env s
          else match ch.cookie with
            | none => sendRejected env s
            | some id =>
              let s := { s with cookieId := some id, challenge := ch.challenge }
              { sendData s (env.context ++ [SP] ++ decimal id ++ [SP] ++ ch.challenge) with phase := .waitingForData }

/-- sha1_compute_hash: empty when the cookie is not in the keyring -/
def correctHash (env : Env) (id : Nat) (serverChallenge clientChallenge : Bytes) : Bytes :=
  match env.cookies.lookup id with
  | none => []
  | some secret =>
    if secret = [] then [] else
    hexEncode (Sha1.sha1 (serverChallenge ++ [COLON] ++ clientChallenge ++ [COLON] ++ secret))

/-- sha1_handle_second_client_response -/
def cookieSecond (env : Env) (s : S) (id : Nat) (data : Bytes) : S :=
  if !data.any isBlank then sendRejected env s
  else
    let cc := data.takeWhile (fun b => !isBlank b)
    let hash := (data.dropWhile (fun b => !isBlank b)).dropWhile isBlank
    if cc = [] ∨ hash = [] then sendRejected env s
    else
      let correct := correctHash env id s.challenge cc
      if correct = [] then sendRejected env s
      else if hash ≠ correct then sendRejected env s
      else sendOk env { s with authorized := (s.authorized.add s.desired).addPid env.sock }

/-- handle_server_data_cookie_sha1_mech -/
def cookieData (env : Env) (s : S) (data : Bytes) : S :=
  match s.cookieId with
  | none => cookieFirst env s data
  | some id => cookieSecond env s id data

/-- handle_server_data_anonymous_mech -/
def anonymousData (env : Env) (s : S) (data : Bytes) : S :=
  if data ≠ [] ∧ !validateUtf8 data then sendRejected env s
  else sendOk env { s with desired := {}, authorized := s.authorized.addPid env.sock }

def mechData (env : Env) (s : S) (m : Mech) (data : Bytes) : S :=
  match m with
  | .external => externalData env s data
  | .cookie => cookieData env s data
  | .anonymous => anonymousData env s data

/-- process_data: hex-decode the argument, hand it to the mechanism -/
def processData (env : Env) (s : S) (m : Mech) (args : Bytes) : S :=
  let (d, n) := hexDecode args
  if n ≠ args.length then say s errBadHex else mechData env s m d

/-- find_mech -/
def findMech (env : Env) (name : Bytes) : Option Mech :=
  if env.permits name then allMechs.find? (fun m => m.name = name) else none

/-- handle_auth -/
def handleAuth (env : Env) (s : S) (args : Bytes) : S :=
  if args = [] then sendRejected env s
  else
    let name := args.takeWhile (fun b => !isBlank b)
    let resp := (args.dropWhile (fun b => !isBlank b)).dropWhile isBlank
    match findMech env name with
    | some m => processData env { s with mech := some m } m resp
    | none => sendRejected env { s with mech := none }

/-! ### the per-state handlers -/

def waitingForAuth (env : Env) (s : S) (c : Cmd) (args : Bytes) : S :=
  match c with
  | .auth => handleAuth env s args
  | .cancel | .data => say s errNotInConversation
  | .begin => { s with phase := .needDisconnect }
  | .error => sendRejected env s
  | .negotiateFd => say s errNeedAuthFirst
  | _ => say s errUnknown

def waitingForData (env : Env) (s : S) (c : Cmd) (args : Bytes) : S :=
  match c with
  | .auth => say s errAuthInProgress
  | .cancel | .error => sendRejected env s
  | .data => match s.mech with
    | some m => processData env s m args
    | none => s          -- not reachable: WaitingForData is entered only by a mechanism
  | .begin => { s with phase := .needDisconnect }
  | .negotiateFd => say s errNeedAuthFirst
  | _ => say s errUnknown

def waitingForBegin (env : Env) (s : S) (c : Cmd) (_args : Bytes) : S :=
  match c with
  | .auth => say s errAuthExpectingBegin
  | .data => say s errDataExpectingBegin
  | .begin => { s with phase := .authenticated }
  | .negotiateFd =>
    if env.fdPossible then { say s wAGREE with fdNeg := true, phase := .waitingForBegin }
    else say s errNoFd
  | .cancel | .error => sendRejected env s
  | _ => say s errUnknown

/-- the command word and its arguments, as process_command splits a line -/
def splitLine (line : Bytes) : Bytes × Bytes :=
  (line.takeWhile (fun b => !isBlank b), (line.dropWhile (fun b => !isBlank b)).dropWhile isBlank)

/-- one complete line (without its CRLF) in a non-final state -/
def handleLine (env : Env) (s : S) (line : Bytes) : S :=
  if !line.all isAscii then say s errNonAscii
  else
    let c := cmdOf (splitLine line).1
    let args := (splitLine line).2
    match s.phase with
    | .waitingForAuth => waitingForAuth env s c args
    | .waitingForData => waitingForData env s c args
    | .waitingForBegin => waitingForBegin env s c args
    | _ => s

/-- _dbus_auth_do_work: process complete lines while there are any -/
def doWork (env : Env) : Nat → S → S
  | 0, s => s
  | fuel + 1, s =>
    if s.phase.isEnd then s
    else if s.incoming.length > MAX_BUFFER ∨ s.outgoing.length > MAX_BUFFER then { s with phase := .needDisconnect }
    else match findCRLF s.incoming with
      | none => s
      | some eol =>
        let s' := handleLine env s (s.incoming.take eol)
        doWork env fuel { s' with incoming := s.incoming.drop (eol + 2) }

/-- bytes arrive from the peer (_dbus_auth_get_buffer / _return_buffer, then _dbus_auth_do_work) -/
def feed (env : Env) (s : S) (bs : Bytes) : S :=
  let s := { s with incoming := s.incoming ++ bs }
  doWork env (s.incoming.length + 1) s

/-- n bytes of the replies were written to the peer (_dbus_auth_bytes_sent, then _dbus_auth_do_work) -/
def drain (env : Env) (s : S) (n : Nat) : S :=
  let s := { s with outgoing := s.outgoing.drop n }
  doWork env (s.incoming.length + 1) s

/-! ### identity gate of the transport (server side of _dbus_transport_try_to_authenticate) -/

structure Gate where
  allowAnonymous : Bool
  userFn : Option (Nat → Bool)     -- dbus_connection_set_unix_user_function
  selfUid : Nat

/-- auth_via_unix_user_function / auth_via_default_rules -/
def Gate.accepts (g : Gate) (id : Creds) : Bool :=
  match id.uid, g.userFn with
  | some u, some f => f u
  | _, _ => g.allowAnonymous || id.uid == some 0 || id.uid == some g.selfUid

/-- the transport's `authenticated` flag after the bytes so far -/
def transportAuthenticated (g : Gate) (s : S) : Bool :=
  s.phase = .authenticated && g.accepts s.authorized

/-! ### strtoul (base 0), as used by _dbus_string_parse_uint -/

def isSpaceC (b : UInt8) : Bool := b = 0x20 || (0x09 ≤ b && b ≤ 0x0d)

def digitVal (base : Nat) (b : UInt8) : Option Nat :=
  let v := if 0x30 ≤ b ∧ b ≤ 0x39 then some (b.toNat - 0x30)
           else if 0x61 ≤ b ∧ b ≤ 0x7a then some (b.toNat - 0x57)
           else if 0x41 ≤ b ∧ b ≤ 0x5a then some (b.toNat - 0x37)
           else none
  match v with
  | some d => if d < base then some d else none
  | none => none

/-- the whole string must be one number; out of range is an error -/
def parseNumber (s : Bytes) : Option Nat :=
  let s1 := s.dropWhile isSpaceC
  let neg := s1.head? = some 0x2d
  let s2 := if s1.head? = some 0x2d ∨ s1.head? = some 0x2b then s1.drop 1 else s1
  let hex := match s2 with
    | 0x30 :: x :: h :: _ => (x = 0x78 || x = 0x58) && (digitVal 16 h).isSome
    | _ => false
  let base := if hex then 16 else if s2.head? = some 0x30 then 8 else 10
  let s3 := if hex then s2.drop 2 else s2
  let digits := s3.takeWhile fun b => (digitVal base b).isSome
  if digits = [] ∨ digits.length ≠ s3.length then none
  else
    let v := digits.foldl (fun acc b => acc * base + ((digitVal base b).getD 0)) 0
    if v ≥ 2 ^ 64 then none
    else some (if neg then (2 ^ 64 - v) % 2 ^ 64 else v)

end Dbus.Model.Auth
