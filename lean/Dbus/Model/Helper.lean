import Dbus.Model.Syntax
import Dbus.Model.Utf8
/-
  The activation helper's decision (bus/activation-helper.c `run_launch_helper`), with the two
  parsers it rests on: service ("desktop") files (bus/desktop-file.c) and the command-line splitter
  applied to the Exec line (dbus/dbus-shell.c `_dbus_shell_parse_argv`).

  Inputs are what the helper reads: its argument, and for every configured service directory, in
  order, the contents of `<argument>.service` if such a file exists.  The result is either the
  argument vector it executes or the exit status it reports.
-/
namespace Dbus.Model.Helper
open Dbus Dbus.Model

/-! ### dbus-shell.c -/

def BSL : UInt8 := 0x5c
def DQ : UInt8 := 0x22
def SQ : UInt8 := 0x27
def NL : UInt8 := 0x0a
def HASH : UInt8 := 0x23
def SP : UInt8 := 0x20
def TAB : UInt8 := 0x09

/-- `current_quote` of `tokenize_command_line` -/
inductive TQ
  | none | bsl | hash | comment | sq | dq
  deriving DecidableEq, Repr

structure TokSt where
  q : TQ := .none
  quoted : Bool := false          -- an odd number of backslashes immediately before
  cur : Bytes := []               -- current token, reversed
  toks : List Bytes := []         -- finished tokens, reversed
  deriving Repr

def TokSt.delimit (s : TokSt) : TokSt := { s with toks := s.cur.reverse :: s.toks, cur := [] }

def tokChar (s : TokSt) (c : UInt8) : TokSt :=
  let s' : TokSt :=
    match s.q with
    | .bsl => if c == NL then { s with q := .none } else { s with cur := c :: BSL :: s.cur, q := .none }
    | .hash => if c == NL then { s with q := .none } else { s with q := .comment }
    | .comment => if c == NL then { s with q := .none } else s
    | .sq => { s with cur := c :: s.cur, q := if c == SQ then .none else .sq }
    | .dq => { s with cur := c :: s.cur, q := if c == DQ && !s.quoted then .none else .dq }
    | .none =>
      if c == NL then s.delimit
      else if c == SP || c == TAB then (if s.cur.isEmpty then s else s.delimit)
      else if c == SQ then { s with cur := c :: s.cur, q := .sq }
      else if c == DQ then { s with cur := c :: s.cur, q := .dq }
      else if c == HASH then { s with q := .hash }
      else if c == BSL then { s with q := .bsl }
      else { s with cur := c :: s.cur }
  -- a comment swallows its characters: the parity of backslashes is judged on the newline that ends it
  { s' with quoted := if s.q == .hash || s.q == .comment then false else if c == BSL then !s.quoted else false }

/-- `tokenize_command_line`: `none` = "Unclosed quotes in command line" -/
def tokenize (cmd : Bytes) : Option (List Bytes) :=
  let s := (cmd.foldl tokChar {}).delimit
  if s.q == .none || s.q == .comment then some s.toks.reverse else none

inductive UQ
  | plain | esc | dq | dqEsc | sq

/-- `_dbus_shell_unquote`: `none` when a quotation never ends -/
def unq : UQ → Bytes → Bytes → Option Bytes
  | .plain, [], acc => some acc.reverse
  | .plain, c :: r, acc =>
    if c == BSL then unq .esc r acc else if c == DQ then unq .dq r acc else if c == SQ then unq .sq r acc
    else unq .plain r (c :: acc)
  | .esc, [], acc => some acc.reverse
  | .esc, c :: r, acc => unq .plain r (if c == NL then acc else c :: acc)
  | .dq, [], _ => none
  | .dq, c :: r, acc =>
    if c == DQ then unq .plain r acc else if c == BSL then unq .dqEsc r acc else unq .dq r (c :: acc)
  | .dqEsc, [], _ => none
  | .dqEsc, c :: r, acc =>
    if c == DQ || c == BSL || c == 0x60 || c == 0x24 || c == NL then unq .dq r (c :: acc)
    else unq .dq r (c :: BSL :: acc)          -- not an escape: the backslash stays, the character is ordinary
  | .sq, [], _ => none
  | .sq, c :: r, acc => if c == SQ then unq .plain r acc else unq .sq r (c :: acc)

def unquote (w : Bytes) : Option Bytes := unq .plain w []

inductive Argv
  | ok (argv : List Bytes)
  | invalidArgs           -- unclosed quotes
  | noMemory              -- a word that cannot be unquoted is reported as out of memory
  deriving Repr

def allSome : List (Option Bytes) → Option (List Bytes)
  | [] => some []
  | none :: _ => none
  | some x :: r => (allSome r).map (x :: ·)

/-- `_dbus_shell_parse_argv` -/
def parseArgv (cmd : Bytes) : Argv :=
  match tokenize cmd with
  | none => .invalidArgs
  | some toks =>
    match allSome (toks.map unquote) with
    | some argv => .ok argv
    | none => .noMemory

/-! ### bus/desktop-file.c -/

structure DLine where
  key : Bytes
  value : Bytes
  deriving Repr, DecidableEq

structure DSection where
  name : Bytes
  lines : List DLine
  deriving Repr, DecidableEq

abbrev DFile := List DSection

/-- `_dbus_string_find_eol`: the line and what follows its end-of-line ("\r\n", "\n" or "\r") -/
def splitLine : Bytes → Bytes × Bytes
  | [] => ([], [])
  | c :: r =>
    if c == 0x0d then (match r with | 0x0a :: r' => ([], r') | _ => ([], r))
    else if c == NL then ([], r)
    else let p := splitLine r; (c :: p.1, p.2)

theorem splitLine_le (bs : Bytes) : (splitLine bs).2.length ≤ bs.length := by
  induction bs with
  | nil => simp [splitLine]
  | cons c r ih =>
    unfold splitLine
    split
    · split <;> simp <;> omega
    · split
      · simp
      · simp; omega

/-- `is_blank_line`: only blanks up to the next "\n" (a lone "\r" does not end the scan) -/
def isBlank : Bytes → Bool
  | [] => true
  | c :: r => if c == NL then true else if c == SP || c == TAB || c == 0x0d || c == 0x0c then isBlank r else false

/-- bit `VALID_KEY_CHAR` of the `valid` table: letters, digits and "-" -/
def keyChar (c : UInt8) : Bool :=
  (0x41 ≤ c && c ≤ 0x5a) || (0x61 ≤ c && c ≤ 0x7a) || (0x30 ≤ c && c ≤ 0x39) || c == 0x2d

def sectionNameOk (n : Bytes) : Bool := n.all fun c => !(c ≤ 0x1f || c ≥ 0x7f || c == 0x5b || c == 0x5d)

/-- `unescape_string` -/
def unescape : Bytes → Option Bytes
  | [] => some []
  | c :: r =>
    if c == 0 then none
    else if c == BSL then
      match r with
      | [] => none
      | e :: r' =>
        let out : Option UInt8 :=
          if e == 0x73 then some SP else if e == 0x74 then some TAB else if e == 0x6e then some NL
          else if e == 0x72 then some 0x0d else if e == BSL then some BSL else none
        match out, unescape r' with
        | some x, some rest => some (x :: rest)
        | _, _ => none
    else (unescape r).map (c :: ·)

inductive KV
  | line (l : DLine)
  | localized           -- `Key[locale]=…`: ignored
  | bad

/-- `parse_key_value` on one line -/
def parseKeyValue (line : Bytes) : KV :=
  let key := line.takeWhile keyChar
  let r := line.dropWhile keyChar
  if key.isEmpty then .bad
  else if r.head? == some 0x5b then .localized
  else
    let r := r.dropWhile (· == SP)
    match r with
    | [] => .bad                         -- no '='
    | c :: r' =>
      if c != 0x3d then .bad             -- invalid characters in key name
      else
        match unescape (r'.dropWhile (· == SP)) with
        | some v => .line { key := key, value := v }
        | none => .bad

def addLine (f : DFile) (l : DLine) : DFile :=
  match f.reverse with
  | [] => f
  | s :: rest => (({ s with lines := s.lines ++ [l] } : DSection) :: rest).reverse

/-- the main loop of `bus_desktop_file_load` (fuel: one line is consumed per turn) -/
def parseLoop : Nat → Bytes → DFile → Option DFile
  | 0, _, _ => none
  | fuel + 1, bs, f =>
    match bs with
    | [] => some f
    | c :: _ =>
      let line := (splitLine bs).1
      let rest := (splitLine bs).2
      if c == 0x5b then
        if line.length ≤ 2 || line.getLast? != some 0x5d then none
        else
          let name := (line.drop 1).dropLast
          if !sectionNameOk name then none
          else parseLoop fuel rest (f ++ [{ name := name, lines := [] }])
      else if isBlank bs || c == HASH then parseLoop fuel rest f
      else if f.isEmpty then none
      else
        match parseKeyValue line with
        | .bad => none
        | .localized => parseLoop fuel rest f
        | .line l => parseLoop fuel rest (addLine f l)

def MAX_FILE : Nat := 128 * 1024

/-- `bus_desktop_file_load` on the file's contents -/
def loadDesktop (data : Bytes) : Option DFile :=
  if data.length > MAX_FILE then none
  else if !validateUtf8 data then none
  else parseLoop (data.length + 1) data []

def SERVICE_SECTION : Bytes := "D-BUS Service".toUTF8.toList
def KEY_NAME : Bytes := "Name".toUTF8.toList
def KEY_EXEC : Bytes := "Exec".toUTF8.toList
def KEY_USER : Bytes := "User".toUTF8.toList

/-- `bus_desktop_file_get_string`: first section of that name, first line with that key -/
def getString (f : DFile) (sect key : Bytes) : Option Bytes :=
  match f.find? (·.name == sect) with
  | none => none
  | some s => (s.lines.find? (·.key == key)).map (·.value)

/-! ### activation-helper.c -/

inductive Outcome
  | exec (argv : List Bytes)
  | exit (code : Nat)
  deriving Repr

def EXIT_GENERIC := 1
def EXIT_NO_MEMORY := 2
def EXIT_NAME_INVALID := 5
def EXIT_NOT_FOUND := 6
def EXIT_FILE_INVALID := 8
def EXIT_INVALID_ARGS := 10

/-- `desktop_file_for_name`: the first directory whose `<name>.service` exists and loads -/
def firstLoadable : List (Option Bytes) → Option DFile
  | [] => none
  | none :: rest => firstLoadable rest
  | some data :: rest =>
    match loadDesktop data with
    | some f => some f
    | none => firstLoadable rest

/-- `run_launch_helper` (test build: no user switch): `dirs` holds, per configured service directory
    in order, the contents of `<name>.service` there, if any -/
def run (name : Bytes) (dirs : List (Option Bytes)) : Outcome :=
  if !validateBusName name then .exit EXIT_NAME_INVALID
  else
    match firstLoadable dirs with
    | none => .exit EXIT_NOT_FOUND
    | some f =>
      match getString f SERVICE_SECTION KEY_NAME with
      | none => .exit EXIT_GENERIC
      | some n =>
        if n != name then .exit EXIT_FILE_INVALID
        else
          match getString f SERVICE_SECTION KEY_EXEC, getString f SERVICE_SECTION KEY_USER with
          | some e, some _ =>
            match parseArgv e with
            | .ok argv => .exec argv
            | .invalidArgs => .exit EXIT_INVALID_ARGS
            | .noMemory => .exit EXIT_NO_MEMORY
          | _, _ => .exit EXIT_GENERIC

end Dbus.Model.Helper
