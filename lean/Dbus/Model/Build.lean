import Dbus.Model.Encode
import Dbus.Model.Signature
/-
  The construction API on the abstract message: what `dbus_message_iter_append_*` / `close_container`
  at top level and `dbus_message_set_*` make of a message. The driver's interpreter of construction
  programs (Driver/Build.lean) uses these very functions, and the C02 check compares `encodeMsg` of
  their result byte for byte with what the library's incremental writer produced.
-/
namespace Dbus.Model
open Dbus Dbus.Spec

/-! ### the construction API on the abstract message (`dbus_message_iter_append_*`, `dbus_message_set_*`) -/

mutual
/-- the type a value was built as -/
def valTy : Val → Ty
  | .fixed b _ => .basic b
  | .str b _ => .basic b
  | .variant _ _ => .variant
  | .array et _ => .array et
  | .struct vs => .struct (valTys vs)
  | .dict k vt _ => .dict k vt
def valTys : List Val → List Ty
  | [] => []
  | v :: vs => valTy v :: valTys vs
end

/-- `dbus_message_set_*`: a header field of a basic type -/
def setHdr (m : Msg) (code : Nat) (b : BTy) (v : Val) : Msg :=
  applyEdit m (.set { code := code, ty := .basic b, val := v })

/-- a completed top-level value (`dbus_message_iter_append_basic` on the top-level iterator, or the
    `close_container` that finishes a top-level container): the value goes to the end of the body, its
    type to the end of the signature, and the SIGNATURE header field is (re)written -/
def pushTop (m : Msg) (v : Val) : Msg :=
  setHdr { m with body := m.body ++ [v], bodyTypes := m.bodyTypes ++ [valTy v] } 8 .sig
    (.str .sig (printList (m.bodyTypes ++ [valTy v])))


/-- one call of the construction API, as far as the finished message is concerned -/
inductive BuildOp
  | header (op : EditOp)        -- dbus_message_set_destination / _path / _interface / _member / _error_name / _sender / _reply_serial / _serial, with NULL: delete
  | append (v : Val)            -- a complete top-level value appended through the iterator API

def applyBuild (m : Msg) : BuildOp → Msg
  | .header op => applyEdit m op
  | .append v => pushTop m v

end Dbus.Model

