import Dbus.Model.Message
/-
  Executable model of `DBusMessageLoader`: bytes arrive in arbitrary chunks, complete messages
  are framed off the front of the buffer, the first invalid one marks the stream corrupt for
  good (`_dbus_message_loader_queue_messages`).
-/
namespace Dbus.Model
open Dbus Dbus.Spec

structure Loader where
  buf : Bytes := []
  msgs : List Msg := []          -- every message framed so far, in order
  corrupted : Bool := false
  fds : Nat := 0                 -- descriptors received and not yet attached to a message
  deriving Inhabited

/-- frame messages off the front of the buffer while there are complete ones; `fuel` bounds the
    number of messages (each consumes at least 16 bytes, so `buf.length` is plenty) -/
def drain (maxLen : Nat) : Nat → Loader → Loader
  | 0, l => l
  | fuel + 1, l =>
    if l.corrupted then l else
    match loadOne true maxLen l.fds l.buf with
    | .incomplete => l
    | .corrupt => { l with corrupted := true }
    | .ok m n =>
      drain maxLen fuel { l with buf := l.buf.drop n, msgs := l.msgs ++ [m], fds := l.fds - unixFdsOf m.fields }

/-- one read of `chunk` bytes from the transport -/
def Loader.feed (maxLen : Nat) (l : Loader) (chunk : Bytes) : Loader :=
  if l.corrupted then l else
  drain maxLen (l.buf.length + chunk.length + 1) { l with buf := l.buf ++ chunk }

/-- what the application can observe: the messages and whether the stream was declared corrupt
    (the number of messages is the index of the first invalid one) -/
def Loader.observable (l : Loader) : List Msg × Bool := (l.msgs, l.corrupted)

end Dbus.Model
