import Dbus.Spec.Types
/-
  Executable model of signature validation (`_dbus_validate_signature_with_reason`,
  `dbus_signature_validate`, `dbus_signature_validate_single`): a recursive-descent parser
  producing the type tree, followed by the reference's depth checks.
-/
namespace Dbus.Model
open Dbus Dbus.Spec

def allBasic : List BTy :=
  [.byte, .bool, .i16, .u16, .i32, .u32, .i64, .u64, .dbl, .str, .path, .sig, .fd]

/-- type code ↦ basic type -/
def parseBasic (c : UInt8) : Option BTy := allBasic.find? (fun b => b.code == c)

/-- `a{` k … : the dict-entry form of an array -/
def dictStart : Bytes → Option (UInt8 × Bytes)
  | c2 :: k :: rest3 => if c2 = C_LBRACE then some (k, rest3) else none
  | _ => none

def closeDict (kb : BTy) : Option (Ty × Bytes) → Option (Ty × Bytes)
  | some (v, c3 :: r') => if c3 = C_RBRACE then some (.dict kb v, r') else none
  | _ => none

def mkArray : Option (Ty × Bytes) → Option (Ty × Bytes)
  | some (e, r) => some (.array e, r)
  | none => none

def mkStruct : Option (List Ty × Bytes) → Option (Ty × Bytes)
  | some (fs, r) => if fs.isEmpty then none else some (.struct fs, r)
  | none => none

def mkBasic (rest : Bytes) : Option BTy → Option (Ty × Bytes)
  | some b => some (.basic b, rest)
  | none => none

def consField (t : Ty) : Option (List Ty × Bytes) → Option (List Ty × Bytes)
  | some (ts, r') => some (t :: ts, r')
  | none => none

mutual
def parseTy : Nat → Bytes → Option (Ty × Bytes)
  | 0, _ => none
  | _ + 1, [] => none
  | fuel + 1, c :: rest =>
    if c = C_ARRAY then
      match dictStart rest with
      | some (k, rest3) =>
        match parseBasic k with
        | some kb => closeDict kb (parseTy fuel rest3)
        | none => none
      | none => mkArray (parseTy fuel rest)
    else if c = C_LPAREN then mkStruct (parseFields fuel rest)
    else if c = C_VARIANT then some (.variant, rest)
    else mkBasic rest (parseBasic c)
/-- fields of a struct up to and including the closing parenthesis -/
def parseFields : Nat → Bytes → Option (List Ty × Bytes)
  | 0, _ => none
  | _ + 1, [] => none
  | fuel + 1, c :: rest =>
    if c = C_RPAREN then some ([], rest)
    else match parseTy fuel (c :: rest) with
      | none => none
      | some (t, r) => consField t (parseFields fuel r)
end

/-- a whole signature: single complete types until the input is exhausted -/
def parseSeq : Nat → Bytes → Option (List Ty)
  | _, [] => some []
  | 0, _ :: _ => none
  | fuel + 1, c :: rest =>
    match parseTy (2 * (c :: rest).length + 1) (c :: rest) with
    | none => none
    | some (t, r) =>
      match parseSeq fuel r with
      | none => none
      | some ts => some (t :: ts)

def parseSignature (bs : Bytes) : Option (List Ty) := parseSeq bs.length bs

def depthLax (t : Ty) : Bool :=
  decide (t.maxRun ≤ MAX_TYPE_DEPTH) && decide (t.structDepth ≤ MAX_TYPE_DEPTH) &&
    decide (t.dictDepth ≤ MAX_TYPE_DEPTH)

/-- `_dbus_validate_signature_with_reason (…) == DBUS_VALID` -/
def validateSignature (bs : Bytes) : Bool :=
  if bs.length > MAX_SIGNATURE_LENGTH then false else
  match parseSignature bs with
  | none => false
  | some ts => ts.all depthLax

/-- `dbus_signature_validate_single` -/
def validateSingle (bs : Bytes) : Bool :=
  if bs.length > MAX_SIGNATURE_LENGTH then false else
  match parseSignature bs with
  | some [t] => depthLax t
  | _ => false

end Dbus.Model

namespace Dbus.Model
open Dbus Dbus.Spec

def depthOK (t : Ty) : Bool :=
  decide (t.arrayDepth ≤ MAX_TYPE_DEPTH) && decide (t.structDepth ≤ MAX_TYPE_DEPTH) &&
    decide (t.dictDepth ≤ MAX_TYPE_DEPTH)

/-- executable decision of the specification's signature grammar (oracle for K2) -/
def specSignature (bs : Bytes) : Bool :=
  if bs.length > MAX_SIGNATURE_LENGTH then false else
  match parseSignature bs with
  | none => false
  | some ts => ts.all depthOK

def specSingle (bs : Bytes) : Bool :=
  if bs.length > MAX_SIGNATURE_LENGTH then false else
  match parseSignature bs with
  | some [t] => depthOK t
  | _ => false

end Dbus.Model
