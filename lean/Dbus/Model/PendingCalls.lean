import Dbus.Basic
/-
  Executable model of the client library's pending-call machinery (dbus-connection.c,
  dbus-pending-call.c) on one thread: serial allocation, the `pending_replies` table, the
  incoming queue with synthesized timeout / disconnect messages, completion by dispatch or by
  a blocking wait, cancellation, and the connection-drop path.
-/
namespace Dbus.Model.PC
open Dbus

/-- what a message in the incoming queue is -/
inductive MsgKind
  | reply (tag : Nat)          -- a message from the peer (method return, error, or anything
                               --  else) identified by `tag`
  | timeoutError               -- the locally synthesized NoReply error of a call
  | disconnected               -- the synthesized Disconnected signal
  deriving DecidableEq, Repr, Inhabited

structure QMsg where
  rs : Nat                      -- REPLY_SERIAL (0 = absent)
  kind : MsgKind
  deriving DecidableEq, Repr, Inhabited

inductive Outcome
  | byReply (tag : Nat)
  | byTimeoutError
  | byDisconnectedError         -- blocking wait found the connection closed
  deriving DecidableEq, Repr, Inhabited

structure Call where
  serial : Nat
  hasTimeout : Bool             -- finite timeout
  timeoutArmed : Bool           -- `timeout_added`
  timeoutLink : Bool            -- the preallocated timeout error has not been queued yet
  inTable : Bool                -- attached in `pending_replies`
  notify : Bool                 -- a notify function is set
  completed : Option Outcome := none
  notified : Nat := 0
  cancelled : Bool := false      -- cancelled while not yet completed
  deriving Repr, Inhabited

structure State where
  nextSerial : Nat := 1         -- `client_serial` (32-bit, skips 0)
  calls : List Call := []
  incoming : List QMsg := []
  wire : List QMsg := []        -- written by the peer, not yet read
  peerClosed : Bool := false
  connected : Bool := true
  disconnectQueued : Bool := false
  toFilters : List QMsg := []   -- messages that dispatch handed to filters / handlers
  failedSerial : Option Nat := none   -- the serial a message kept from a send that failed after it had been given one
  deriving Repr, Inhabited

def SERIAL_MOD : Nat := 4294967296

/-- `_dbus_connection_get_next_client_serial` -/
def nextSerial (n : Nat) : Nat × Nat :=
  let s := n
  let n' := (n + 1) % SERIAL_MOD
  (s, if n' = 0 then 1 else n')

def updCall (cs : List Call) (i : Nat) (f : Call → Call) : List Call :=
  cs.mapIdx fun j c => if j = i then f c else c

def findBySerial (cs : List Call) (s : Nat) : Option Nat :=
  cs.findIdx? fun c => c.inTable && c.serial == s

/-- `_dbus_connection_queue_received_message_link`: append, and disarm the timeout of the
    call this message answers -/
def receive (st : State) (m : QMsg) : State :=
  let st := { st with incoming := st.incoming ++ [m] }
  if m.rs = 0 then st else
  match findBySerial st.calls m.rs with
  | some i => { st with calls := updCall st.calls i fun c => { c with timeoutArmed := false } }
  | none => st

/-- `complete_pending_call_and_unlock` -/
def complete (st : State) (i : Nat) (o : Outcome) : State :=
  { st with calls := updCall st.calls i fun c =>
      { c with inTable := false, timeoutArmed := false, timeoutLink := (if o = .byTimeoutError then false else c.timeoutLink),
               completed := some o, notified := if c.notify then c.notified + 1 else c.notified } }

def outcomeOf (m : QMsg) : Outcome :=
  match m.kind with
  | .reply t => .byReply t
  | .timeoutError => .byTimeoutError
  | .disconnected => .byDisconnectedError

/-- `connection_timeout_and_complete_all_pending_calls_unlocked` followed by queueing the
    Disconnected signal: every call still in the table has its timeout error queued — and is
    *removed from the table* (so the error will reach the filters, not the call: F11). -/
def disconnectSweep (st : State) : State :=
  let errs := st.calls.filterMap fun c =>
    if c.inTable && c.timeoutLink then some ({ rs := c.serial, kind := .timeoutError } : QMsg) else none
  let calls := st.calls.map fun c =>
    if c.inTable then { c with inTable := false, timeoutArmed := false, timeoutLink := false } else c
  { st with calls := calls, incoming := st.incoming ++ errs ++ [{ rs := 0, kind := .disconnected }],
            disconnectQueued := true }

/-- the part of `_dbus_connection_get_dispatch_status_unlocked` that matters here -/
def settle (st : State) : State :=
  if st.incoming.isEmpty && !st.connected && !st.disconnectQueued then disconnectSweep st else st

/-- `dbus_connection_send_with_reply` (+ `dbus_pending_call_set_notify`) -/
def send (st : State) (finite notify : Bool) : State × Option Nat :=
  if !st.connected then (st, none) else
  let (s, n') := nextSerial st.nextSerial
  let c : Call := { serial := s, hasTimeout := finite, timeoutArmed := finite, timeoutLink := true,
                    inTable := true, notify := notify }
  (settle { st with nextSerial := n', calls := st.calls ++ [c] }, some s)

/-- the same for a message whose serial the application has already set
    (`dbus_message_set_serial`): the connection's counter is not consulted -/
def sendPreset (st : State) (s : Nat) (finite notify : Bool) : State × Option Nat :=
  if !st.connected then (st, none) else
  let c : Call := { serial := s, hasTimeout := finite, timeoutArmed := finite, timeoutLink := true,
                    inTable := true, notify := notify }
  (settle { st with calls := st.calls ++ [c] }, some s)

/-- `dbus_connection_send_with_reply` failing after the message was given its serial (no memory, or the application's
    add-timeout function refuses): the serial is used up - the message keeps it -, no call is registered -/
def sendFail (st : State) : State × Option Nat :=
  if !st.connected then (st, none) else
  let (s, n') := nextSerial st.nextSerial
  ({ st with nextSerial := n', failedSerial := some s }, some s)

/-- the application tries again with the very same message: it goes out under the serial it already has -/
def retry (st : State) (finite notify : Bool) : State × Option Nat :=
  match st.failedSerial with
  | some s => sendPreset { st with failedSerial := none } s finite notify
  | none => (st, none)

/-- read everything the peer has written (`dbus_connection_read_write` without dispatch) -/
def pump (st : State) : State :=
  let st := st.wire.foldl receive { st with wire := [] }
  let st := if st.peerClosed then { st with connected := false } else st
  settle st

/-- one `dbus_connection_dispatch` -/
def dispatch (st : State) : State :=
  match st.incoming with
  | [] => settle st
  | m :: rest =>
    let st := { st with incoming := rest }
    let st := match (if m.rs = 0 then none else findBySerial st.calls m.rs) with
      | some i => complete st i (outcomeOf m)
      | none => { st with toFilters := st.toFilters ++ [m] }
    settle st

/-- the timeout of call `i` fires (`reply_handler_timeout`) -/
def fire (st : State) (i : Nat) : State × Bool :=
  match st.calls[i]? with
  | some c =>
    if c.timeoutArmed then
      let st := if c.timeoutLink then { st with incoming := st.incoming ++ [{ rs := c.serial, kind := .timeoutError }] } else st
      (settle { st with calls := updCall st.calls i fun c => { c with timeoutArmed := false, timeoutLink := false } }, true)
    else (st, false)
  | none => (st, false)

/-- `dbus_pending_call_cancel` -/
def cancel (st : State) (i : Nat) : State :=
  { st with calls := updCall st.calls i fun c =>
      { c with inTable := false, timeoutArmed := false, cancelled := c.cancelled || c.completed.isNone } }

def removeFirst (p : QMsg → Bool) : List QMsg → Option (QMsg × List QMsg)
  | [] => none
  | m :: ms => if p m then some (m, ms) else (removeFirst p ms).map fun (x, r) => (x, m :: r)

/-- `dbus_pending_call_block` when it does not have to wait: a queued message answering the
    call is taken first; otherwise the socket is read, the dispatch status re-evaluated (which
    may run the connection-drop sweep) and the queue searched again; if the connection turns
    out closed the call completes with the Disconnected error; `none` = it would block -/
def block (st : State) (i : Nat) : Option State :=
  match st.calls[i]? with
  | none => some st
  | some c =>
    if c.completed.isSome then some st
    else if c.cancelled then none        -- waiting on a cancelled call is a caller error (it may hang)
    else
    match removeFirst (fun m => m.rs == c.serial) st.incoming with
    | some (m, rest) => some (settle (complete { st with incoming := rest } i (outcomeOf m)))
    | none =>
      let st := st.wire.foldl receive { st with wire := [] }
      let st := if st.peerClosed then { st with connected := false } else st
      let st := settle st
      -- "the get_completed() is in case a dispatch() while we were blocking got the reply"
      match st.calls[i]? with
      | none => some st
      | some c2 =>
        if c2.completed.isSome then some st
        else if c2.cancelled then none
        else
        match removeFirst (fun m => m.rs == c2.serial) st.incoming with
        | some (m, rest) => some (settle (complete { st with incoming := rest } i (outcomeOf m)))
        | none =>
          if !st.connected then some (settle (complete st i .byDisconnectedError))
          else none

/-- `dbus_connection_dispatch` during which a filter, handed the message, waits for call `i` (`dbus_pending_call_block` issued from
    inside the dispatch): a message that answers a registered call never reaches the filters, so nothing is waited for then -/
def dispatchBlock (st : State) (i : Nat) : State × Bool :=
  match st.incoming with
  | [] => (dispatch st, false)
  | m :: _ =>
    if m.rs != 0 && (findBySerial st.calls m.rs).isSome then (dispatch st, false)
    else ((block (dispatch st) i).getD (dispatch st), true)

/-- the events of a history -/
inductive Ev
  | send (finite notify : Bool)
  | sendPreset (serial : Nat) (finite notify : Bool)
  | sendFail
  | retry (finite notify : Bool)
  | peer (rs tag : Nat)            -- the peer writes a message carrying REPLY_SERIAL `rs`
  | pump
  | dispatch
  | fire (i : Nat)
  | cancel (i : Nat)
  | block (i : Nat)
  | dispatchBlock (i : Nat)
  | closePeer

def step (st : State) : Ev → State
  | .send f n => (send st f n).1
  | .sendPreset s f n => (sendPreset st s f n).1
  | .sendFail => (sendFail st).1
  | .retry f n => (retry st f n).1
  | .peer rs tag => { st with wire := st.wire ++ [{ rs := rs, kind := .reply tag }] }
  | .pump => pump st
  | .dispatch => dispatch st
  | .fire i => (fire st i).1
  | .cancel i => cancel st i
  | .block i => (block st i).getD st
  | .dispatchBlock i => (dispatchBlock st i).1
  | .closePeer => { st with peerClosed := true }

def run (h : List Ev) : State := h.foldl step {}

end Dbus.Model.PC
