import Dbus.Spec.Chars
/-
  Executable models of the name / path validators of dbus/dbus-marshal-validate.c,
  written in the scanning style of the C functions (first-character case, one loop with a
  look-ahead after '.'), over the spec-level character classes.
-/
namespace Dbus.Model
open Dbus Dbus.Spec

/-- the `while (s != end)` loop shared by `_dbus_validate_interface` and
    `_dbus_validate_bus_name_full`; the Bool is `last_dot != NULL` -/
def scanRest (ini chr : UInt8 → Bool) : Bytes → Bool → Option Bool
  | [], d => some d
  | c :: rest, d =>
    if c = DOT then
      match rest with
      | [] => none
      | n :: rest' => if ini n then scanRest ini chr rest' true else none
    else if chr c then scanRest ini chr rest d else none

/-- `_dbus_validate_member` -/
def validateMember (s : Bytes) : Bool :=
  if s.length > MAX_NAME_LENGTH then false else
  match s with
  | [] => false
  | c :: rest => isInitialNameChar c && rest.all isNameChar

/-- `_dbus_validate_interface` (= `_dbus_validate_error_name`) -/
def validateInterface (s : Bytes) : Bool :=
  if s.length > MAX_NAME_LENGTH then false else
  match s with
  | [] => false
  | c :: rest =>
    if c = DOT then false
    else if !isInitialNameChar c then false
    else scanRest isInitialNameChar isNameChar rest false == some true

def validateErrorName (s : Bytes) : Bool := validateInterface s

/-- `_dbus_validate_bus_name_full` -/
def validateBusNameFull (s : Bytes) (isNamespace : Bool) : Bool :=
  if s.length > MAX_NAME_LENGTH then false else
  match s with
  | [] => false
  | c :: rest =>
    if c = COLON then (scanRest isBusNameChar isBusNameChar rest false).isSome
    else if c = DOT then false
    else if !isInitialBusNameChar c then false
    else match scanRest isInitialBusNameChar isBusNameChar rest false with
      | none => false
      | some d => isNamespace || d

def validateBusName (s : Bytes) : Bool := validateBusNameFull s false
def validateBusNamespace (s : Bytes) : Bool := validateBusNameFull s true

/-- the loop of `_dbus_validate_path`; `k` = `s - last_slash - 1`
    (number of element characters seen since the last '/') -/
def pathLoop : Bytes → Nat → Bool
  | [], k => decide (k ≥ 1)
  | c :: rest, k =>
    if c = SLASH then (if k < 1 then false else pathLoop rest 0)
    else if isNameChar c then pathLoop rest (k + 1) else false

/-- `_dbus_validate_path` -/
def validatePath (s : Bytes) : Bool :=
  match s with
  | [] => false
  | c :: rest => if c ≠ SLASH then false else
    match rest with
    | [] => true
    | _ => pathLoop rest 0

end Dbus.Model

namespace Dbus.Model
open Dbus Dbus.Spec

/-- executable decision of the *specification's* unique-name grammar (used as the oracle
    that separates known finding K1 from fresh violations) -/
def specUniqueName (s : Bytes) : Bool :=
  if s.length > MAX_NAME_LENGTH then false else
  match s with
  | c :: c1 :: rest =>
    c = COLON && c1 ≠ DOT && isBusNameChar c1 &&
      (scanRest isBusNameChar isBusNameChar rest false == some true)
  | _ => false

/-- executable decision of the specification's bus-name grammar -/
def specBusName (s : Bytes) : Bool :=
  match s with
  | c :: _ => if c = COLON then specUniqueName s else validateBusName s
  | [] => false

end Dbus.Model
