import Dbus.Spec.Wire
import Dbus.Model.Syntax
import Dbus.Model.Utf8
import Dbus.Model.Signature
/-
  Executable model of the body validator / reader (`validate_body_helper` in
  dbus-marshal-validate.c together with the type readers of dbus-marshal-recursive.c) as a
  *stream decoder*: `decode` consumes a prefix of the byte list and returns the value read and
  the bytes that follow it; the absolute offset is carried only for alignment.

  `g` is fuel (every call spends one unit; see `Dbus.Proofs.WireFuel` for the bound that the
  callers use), `d` is the reference's `total_depth` of the validator frame the value lives in.
-/
namespace Dbus.Model
open Dbus Dbus.Spec

/-- strip the alignment padding expected at offset `off`; it must be present and zero -/
def takePad (off a : Nat) (bs : Bytes) : Option Bytes :=
  if bs.length < padLen off a then none
  else if (bs.take (padLen off a)).all (· == 0) then some (bs.drop (padLen off a)) else none

def takeN (n : Nat) (bs : Bytes) : Option (Bytes × Bytes) :=
  if bs.length < n then none else some (bs.take n, bs.drop n)

def takeNat (e : Endian) (k : Nat) (bs : Bytes) : Option (Nat × Bytes) :=
  match takeN k bs with
  | some (x, r) => some (decNat e x, r)
  | none => none

/-- the terminating NUL of strings and signatures -/
def takeNul (bs : Bytes) : Option Bytes :=
  match bs with
  | b :: r => if b = 0 then some r else none
  | [] => none

/-- contents check of the three string-like types -/
def stringOK (b : BTy) (s : Bytes) : Bool :=
  match b with
  | .path => validatePath s
  | .sig => validateSignature s
  | _ => validateUtf8 s

/-- the single complete type a variant's signature denotes -/
def variantType (sg : Bytes) : Option Ty :=
  if validateSingle sg then
    match parseSignature sg with
    | some [t] => some t
    | _ => none
  else none

mutual
def decode (e : Endian) : Nat → Nat → Ty → Nat → Bytes → Option (Val × Bytes)
  | 0, _, _, _, _ => none
  | _ + 1, _, .basic b, off, bs =>
    if b.isFixed then
      (takePad off b.align bs).bind fun r =>
      (takeNat e b.size r).bind fun (n, r') =>
      if b = .bool ∧ 1 < n then none else some (.fixed b n, r')
    else if b = .sig then
      (takeNat e 1 bs).bind fun (n, r) =>
      (takeN n r).bind fun (s, r1) =>
      (takeNul r1).bind fun r2 =>
      if stringOK b s then some (.str b s, r2) else none
    else
      (takePad off 4 bs).bind fun r =>
      (takeNat e 4 r).bind fun (n, r0) =>
      (takeN n r0).bind fun (s, r1) =>
      (takeNul r1).bind fun r2 =>
      if stringOK b s then some (.str b s, r2) else none
  | g + 1, d, .variant, off, bs =>
    (takeNat e 1 bs).bind fun (n, r) =>
    (takeN n r).bind fun (sg, r1) =>
    (takeNul r1).bind fun r2 =>
    (variantType sg).bind fun t =>
    (takePad (off + (n + 2)) t.align r2).bind fun r3 =>
    if MAX_VALUE_DEPTH < d + 1 then none else
    (decode e g (d + 1) t (off + (n + 2) + padLen (off + (n + 2)) t.align) r3).bind fun (v, r4) =>
    some (.variant t v, r4)
  | g + 1, d, .array et, off, bs =>
    (takePad off 4 bs).bind fun r =>
    (takeNat e 4 r).bind fun (n, r1) =>
    (takePad (off + padLen off 4 + 4) et.align r1).bind fun r2 =>
    if MAX_ARRAY_LENGTH < n then none else
    (takeN n r2).bind fun (body, r3) =>
    (decodeElems e g (d + 1) et
      (off + padLen off 4 + 4 + padLen (off + padLen off 4 + 4) et.align) body).bind fun vs =>
    some (.array et vs, r3)
  | g + 1, d, .struct ts, off, bs =>
    if ts.isEmpty then none else
    (takePad off 8 bs).bind fun r =>
    if MAX_VALUE_DEPTH < d + 1 then none else
    (decodeFields e g (d + 1) ts (off + padLen off 8) r).bind fun (vs, r1) =>
    some (.struct vs, r1)
  | g + 1, d, .dict k vt, off, bs =>
    (takePad off 4 bs).bind fun r =>
    (takeNat e 4 r).bind fun (n, r1) =>
    (takePad (off + padLen off 4 + 4) 8 r1).bind fun r2 =>
    if MAX_ARRAY_LENGTH < n then none else
    (takeN n r2).bind fun (body, r3) =>
    (decodeEntries e g (d + 2) k vt
      (off + padLen off 4 + 4 + padLen (off + padLen off 4 + 4) 8) body).bind fun es =>
    some (.dict k vt es, r3)
/-- the fields of a struct, one after the other -/
def decodeFields (e : Endian) : Nat → Nat → List Ty → Nat → Bytes → Option (List Val × Bytes)
  | 0, _, _, _, _ => none
  | _ + 1, _, [], _, bs => some ([], bs)
  | g + 1, d, t :: ts, off, bs =>
    (decode e g d t off bs).bind fun (v, r) =>
    (decodeFields e g d ts (off + (bs.length - r.length)) r).bind fun (vs, r') =>
    some (v :: vs, r')
/-- array elements until the array's bytes are used up exactly -/
def decodeElems (e : Endian) : Nat → Nat → Ty → Nat → Bytes → Option (List Val)
  | 0, _, _, _, _ => none
  | _ + 1, _, _, _, [] => some []
  | g + 1, d, t, off, b :: body =>
    if t.isFixed = false ∧ MAX_VALUE_DEPTH < d then none else
    (decode e g d t off (b :: body)).bind fun (v, r) =>
    (decodeElems e g d t (off + ((b :: body).length - r.length)) r).bind fun vs =>
    some (v :: vs)
/-- dict entries (8-aligned key/value pairs) until the array's bytes are used up exactly -/
def decodeEntries (e : Endian) : Nat → Nat → BTy → Ty → Nat → Bytes → Option (List (Val × Val))
  | 0, _, _, _, _, _ => none
  | _ + 1, _, _, _, _, [] => some []
  | g + 1, d, kt, vt, off, b :: body =>
    if MAX_VALUE_DEPTH < d then none else
    (takePad off 8 (b :: body)).bind fun r =>
    (decode e g d (.basic kt) (off + padLen off 8) r).bind fun (k, r1) =>
    (decode e g d vt (off + padLen off 8 + (r.length - r1.length)) r1).bind fun (v, r2) =>
    (decodeEntries e g d kt vt (off + ((b :: body).length - r2.length)) r2).bind fun es =>
    some ((k, v) :: es)
end

end Dbus.Model
