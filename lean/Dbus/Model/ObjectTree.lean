import Dbus.Spec.ObjectTree
/-
  Executable model of dbus/dbus-object-tree.c: a trie whose children are kept sorted by
  element name (`strcmp` order), a handler and a fallback flag per node, creation of
  intermediate nodes on registration and pruning of handler-less leaves on unregistration.
-/
namespace Dbus.Model.Tree
open Dbus Dbus.Spec.Tree

/-- `strcmp`-style comparison of NUL-free byte strings -/
def bytesLt : Bytes → Bytes → Bool
  | [], [] => false
  | [], _ :: _ => true
  | _ :: _, [] => false
  | a :: as, b :: bs => if a.toNat < b.toNat then true else if b.toNat < a.toNat then false else bytesLt as bs

/-- a trie node: the handler id (`message_function != NULL`), the `invoke_as_fallback` flag —
    which the C code sets on registration, never clears on unregistration, and initialises to
    TRUE on the root (known finding K3) — and the children sorted by name -/
inductive Node
  | mk (handler : Option Nat) (flag : Bool) (children : List (Bytes × Node))
  deriving Inhabited

def Node.handler : Node → Option Nat
  | .mk h _ _ => h
def Node.flag : Node → Bool
  | .mk _ f _ => f
def Node.children : Node → List (Bytes × Node)
  | .mk _ _ cs => cs

/-- `_dbus_object_tree_new`: the root starts with `invoke_as_fallback = TRUE` -/
def Node.empty : Node := .mk none true []

/-- the registration a node carries, if any -/
def Node.reg : Node → Option Reg
  | .mk (some id) f _ => some (f, id)
  | .mk none _ _ => none

/-- a fresh chain of nodes for `p` ending in a node with registration `r` (`ensure_subtree`) -/
def fresh : Path → Reg → Node
  | [], r => .mk (some r.2) r.1 []
  | e :: p, r => .mk none false [(e, fresh p r)]

mutual
/-- `_dbus_object_tree_register`; `none` = ObjectPathInUse (tree unchanged) -/
def registerN : Node → Path → Reg → Option Node
  | .mk h f cs, [], r => match h with
    | some _ => none
    | none => some (.mk (some r.2) r.1 cs)
  | .mk h f cs, e :: p, r => match registerL cs e p r with
    | some cs' => some (.mk h f cs')
    | none => none
def registerL : List (Bytes × Node) → Bytes → Path → Reg → Option (List (Bytes × Node))
  | [], e, p, r => some [(e, fresh p r)]
  | (k, c) :: cs, e, p, r =>
    if e = k then
      match registerN c p r with
      | some c' => some ((k, c') :: cs)
      | none => none
    else if bytesLt e k then some ((e, fresh p r) :: (k, c) :: cs)
    else match registerL cs e p r with
      | some cs' => some ((k, c) :: cs')
      | none => none
end

/-- a node that `attempt_child_removal` frees: no children, no handler -/
def Node.isDead : Node → Bool
  | .mk none _ [] => true
  | _ => false

mutual
/-- `unregister_and_free_path_recurse`; `none` = nothing registered at the path (unchanged).
    A child that has become a handler-less leaf is removed on the way back up. The
    `invoke_as_fallback` flag is left as it was (`unregister_subtree` does not clear it). -/
def unregisterN : Node → Path → Option Node
  | .mk h f cs, [] => match h with
    | some _ => some (.mk none f cs)
    | none => none
  | .mk h f cs, e :: p => match unregisterL cs e p with
    | some cs' => some (.mk h f cs')
    | none => none
def unregisterL : List (Bytes × Node) → Bytes → Path → Option (List (Bytes × Node))
  | [], _, _ => none
  | (k, c) :: cs, e, p =>
    if e = k then
      match unregisterN c p with
      | some c' => if c'.isDead then some cs else some ((k, c') :: cs)
      | none => none
    else match unregisterL cs e p with
      | some cs' => some ((k, c) :: cs')
      | none => none
end

def findChild : List (Bytes × Node) → Bytes → Option Node
  | [], _ => none
  | (k, c) :: cs, e => if e = k then some c else findChild cs e

/-- `lookup_subtree`: the node at `p`, registered or not -/
def lookupNode : Node → Path → Option Node
  | n, [] => some n
  | n, e :: p => match findChild n.children e with
    | some c => lookupNode c p
    | none => none

/-- the registration at `p` (abstraction function to `RegMap`) -/
def lookup (n : Node) (p : Path) : Option Reg :=
  match lookupNode n p with
  | some c => c.reg
  | none => none

/-- fallback handler ids on the way down to the deepest existing prefix of `p`, shallowest
    first, not including the node at `p` itself -/
def fallbacksDown : Node → Path → List Nat
  | _, [] => []
  | n, e :: p =>
    (fbId n.reg).toList ++
    (match findChild n.children e with
      | some c => fallbacksDown c p
      | none => [])

/-- handler ids in the order `_dbus_object_tree_dispatch_and_unlock` tries them -/
def handlers (n : Node) (p : Path) : List Nat :=
  (anyId (lookup n p)).toList ++ (fallbacksDown n p).reverse

/-- `found_object` of dispatch: `find_handler` returned a node. Decided by the
    `invoke_as_fallback` *flags* along the path, whether or not a handler is present. -/
def found : Node → Path → Bool
  | _, [] => true
  | n, e :: p =>
    (match findChild n.children e with
      | some c => found c p
      | none => false) || n.flag

/-- `_dbus_object_tree_list_registered_unlocked` -/
def listChildren (n : Node) (p : Path) : List Bytes :=
  match lookupNode n p with
  | some c => c.children.map (·.1)
  | none => []

/-- what a method call to `p` produces when handler ids in `takers` accept it: the handlers
    invoked in order, and the outcome -/
inductive Outcome | handledBy (id : Nat) | unknownMethod | unknownObject
  deriving Repr, DecidableEq

def invokeUntil (takers : List Nat) : List Nat → List Nat × Option Nat
  | [] => ([], none)
  | h :: hs => if takers.contains h then ([h], some h) else
      let (inv, r) := invokeUntil takers hs
      (h :: inv, r)

def dispatch (n : Node) (p : Path) (takers : List Nat) : List Nat × Outcome :=
  let (inv, r) := invokeUntil takers (handlers n p)
  match r with
  | some id => (inv, .handledBy id)
  | none => (inv, if found n p then .unknownMethod else .unknownObject)

end Dbus.Model.Tree
