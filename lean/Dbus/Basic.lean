/-
  Shared basic definitions.  No Mathlib.
-/
namespace Dbus

abbrev Bytes := List UInt8

def DOT   : UInt8 := 0x2e
def COLON : UInt8 := 0x3a
def SLASH : UInt8 := 0x2f

/-- render bytes as lower-case hex (line protocol) -/
def hexDigit (n : Nat) : Char :=
  if n < 10 then Char.ofNat (48 + n) else Char.ofNat (87 + n)

def toHex (bs : Bytes) : String :=
  String.ofList (bs.flatMap fun b => [hexDigit (b.toNat / 16), hexDigit (b.toNat % 16)])

def hexVal (c : Char) : Option Nat :=
  if '0' ≤ c ∧ c ≤ '9' then some (c.toNat - 48)
  else if 'a' ≤ c ∧ c ≤ 'f' then some (c.toNat - 87)
  else if 'A' ≤ c ∧ c ≤ 'F' then some (c.toNat - 55)
  else none

def ofHexChars : List Char → Option Bytes
  | [] => some []
  | [_] => none
  | a :: b :: rest => do
    let x ← hexVal a
    let y ← hexVal b
    let r ← ofHexChars rest
    pure (UInt8.ofNat (x * 16 + y) :: r)

/-- parse hex; "-" denotes the empty string -/
def ofHex (s : String) : Option Bytes :=
  if s = "-" then some [] else ofHexChars s.toList

end Dbus
