import Dbus.Proofs.WireIff
import Dbus.Model.Loader
/-
  Stability of message framing under appended bytes, and independence from chunking.
-/
namespace Dbus.Proofs.Loader
open Dbus Dbus.Spec Dbus.Model Dbus.Proofs.Wire

theorem take_drop_append (bs x : Bytes) (k n : Nat) (h : k + n ≤ bs.length) :
    ((bs ++ x).drop k).take n = (bs.drop k).take n := by
  rw [List.drop_append_of_le_length (by omega), List.take_append_of_le_length (by simp; omega)]

theorem getD_append (bs x : Bytes) (h : 1 ≤ bs.length) : (bs ++ x).getD 0 0 = bs.getD 0 0 := by
  cases bs with
  | nil => simp at h
  | cons b bs => rfl

/-- the decoder's answer does not depend on the fuel once the fuel covers the buffer -/
theorem decodeFields_fuel_indep (e : Endian) (ts : List Ty) (off : Nat) (bs : Bytes) (f1 f2 : Nat)
    (h1 : fuelFor bs.length ≤ f1) (h2 : fuelFor bs.length ≤ f2) :
    decodeFields e f1 0 ts off bs = decodeFields e f2 0 ts off bs := by
  have key : ∀ (fa fb : Nat), fuelFor bs.length ≤ fb → ∀ vs r,
      decodeFields e fa 0 ts off bs = some (vs, r) → decodeFields e fb 0 ts off bs = some (vs, r) := by
    intro fa fb hb vs r h
    obtain ⟨hbs, hwf⟩ := (decode_sound e fa).2.1 0 ts off bs vs r h
    have hneed : needList vs ≤ fb := by
      have := fuelFor_covers e vs ts off bs.length hwf (by rw [hbs]; simp)
      omega
    have := decodeFields_complete e vs ts 0 off r fb hwf hneed
    rw [← hbs] at this
    exact this
  cases ha : decodeFields e f1 0 ts off bs with
  | some p => obtain ⟨vs, r⟩ := p; exact (key f1 f2 h2 vs r ha).symm
  | none =>
    cases hb : decodeFields e f2 0 ts off bs with
    | none => rfl
    | some p =>
      obtain ⟨vs, r⟩ := p
      have := key f2 f1 h1 vs r hb
      rw [ha] at this; cases this

theorem fuelFor_mono {a b : Nat} (h : a ≤ b) : fuelFor a ≤ fuelFor b := by unfold fuelFor; omega

theorem wf_fixed_shape (e : Endian) (d off : Nat) (v : Val) (b : BTy) (hb : b.isFixed = true)
    (h : WFVal e d off v (.basic b)) : ∃ n, v = .fixed b n ∧ n < 256 ^ b.size := by
  cases v with
  | fixed b' n => simp only [WFVal] at h; obtain ⟨rfl, _, hn, _⟩ := h; exact ⟨n, rfl, hn⟩
  | str b' s => simp only [WFVal] at h; obtain ⟨rfl, hf, _⟩ := h; rw [hb] at hf; cases hf
  | variant _ _ => simp [WFVal] at h
  | array _ _ => simp [WFVal] at h
  | struct _ => simp [WFVal] at h
  | dict _ _ _ => simp [WFVal] at h

theorem wf_array_shape (e : Endian) (d off : Nat) (v : Val) (et : Ty)
    (h : WFVal e d off v (.array et)) : ∃ vs, v = .array et vs := by
  cases v with
  | array et' vs => simp only [WFVal] at h; obtain ⟨rfl, _⟩ := h; exact ⟨vs, rfl⟩
  | fixed _ _ => simp [WFVal] at h
  | str _ _ => simp [WFVal] at h
  | variant _ _ => simp [WFVal] at h
  | struct _ => simp [WFVal] at h
  | dict _ _ _ => simp [WFVal] at h

theorem header_shape (e : Endian) (vs : List Val) (h : WFFields e 0 0 vs headerTypes) :
    ∃ n0 n1 n2 n3 n4 n5 fvals,
      vs = [.fixed .byte n0, .fixed .byte n1, .fixed .byte n2, .fixed .byte n3, .fixed .u32 n4,
            .fixed .u32 n5, .array (.struct [.basic .byte, .variant]) fvals] := by
  unfold headerTypes at h
  match vs, h with
  | [v0, v1, v2, v3, v4, v5, v6], h =>
    simp only [WFFields] at h
    obtain ⟨h0, h1, h2, h3, h4, h5, h6, _⟩ := h
    obtain ⟨n0, rfl, _⟩ := wf_fixed_shape e _ _ v0 .byte rfl h0
    obtain ⟨n1, rfl, _⟩ := wf_fixed_shape e _ _ v1 .byte rfl h1
    obtain ⟨n2, rfl, _⟩ := wf_fixed_shape e _ _ v2 .byte rfl h2
    obtain ⟨n3, rfl, _⟩ := wf_fixed_shape e _ _ v3 .byte rfl h3
    obtain ⟨n4, rfl, _⟩ := wf_fixed_shape e _ _ v4 .u32 rfl h4
    obtain ⟨n5, rfl, _⟩ := wf_fixed_shape e _ _ v5 .u32 rfl h5
    obtain ⟨fv, rfl⟩ := wf_array_shape e _ _ v6 _ h6
    exact ⟨n0, n1, n2, n3, n4, n5, fv, rfl⟩

theorem header_enc (e : Endian) (n0 n1 n2 n3 n4 n5 : Nat) (fvals : List Val) :
    encodeList e 0 [.fixed .byte n0, .fixed .byte n1, .fixed .byte n2, .fixed .byte n3, .fixed .u32 n4,
            .fixed .u32 n5, .array (.struct [.basic .byte, .variant]) fvals] =
      encNat e 1 n0 ++ (encNat e 1 n1 ++ (encNat e 1 n2 ++ (encNat e 1 n3 ++ (encNat e 4 n4 ++ (encNat e 4 n5 ++
        (encNat e 4 (encodeList e 16 fvals).length ++ encodeList e 16 fvals)))))) := by
  simp [encodeList, encode, pad, padLen, BTy.align, BTy.size, BTy.fixedSize, Ty.align, encNat_length]

theorem frameCore_framed {mx len : Nat} {g f : Frame} (h : frameCore mx len g = .framed f) :
    g = f ∧ f.total ≤ len ∧ f.total ≤ mx := by
  unfold frameCore at h
  split at h
  · cases h
  split at h
  · cases h
  split at h
  · cases h
  split at h
  · cases h
  rename_i h3 h4
  simp only [FrameResult.framed.injEq] at h
  subst h
  exact ⟨rfl, by omega, by omega⟩

theorem frameCore_mono {mx len len' : Nat} (g : Frame) (hl : len ≤ len') :
    (∀ f, frameCore mx len g = .framed f → frameCore mx len' g = .framed f) ∧
    (frameCore mx len g = .corrupt → frameCore mx len' g = .corrupt) := by
  unfold frameCore
  constructor
  · intro f h
    split at h
    · cases h
    rename_i c1
    split at h
    · cases h
    rename_i c2
    split at h
    · cases h
    rename_i c3
    split at h
    · cases h
    rename_i c4
    rw [if_neg c1, if_neg c2, if_neg c3, if_neg (by omega)]
    exact h
  · intro h
    split at h
    · rename_i c; rw [if_pos c]
    rename_i c1
    split at h
    · rename_i c; rw [if_neg c1, if_pos c]
    rename_i c2
    split at h
    · rename_i c; rw [if_neg c1, if_neg c2, if_pos c]
    split at h <;> cases h

/-- facts that `frameOf … = framed f` establishes -/
theorem frameOf_framed {mx : Nat} {bs : Bytes} {f : Frame} (h : frameOf mx bs = .framed f) :
    16 ≤ bs.length ∧ endianOfByte (bs.getD 0 0) = some f.e ∧
      f.falen = decNat f.e ((bs.drop 12).take 4) ∧ f.blen = decNat f.e ((bs.drop 4).take 4) ∧
      f.total ≤ bs.length ∧ f.total ≤ mx := by
  unfold frameOf at h
  split at h
  · cases h
  rename_i hl
  split at h
  · cases h
  rename_i e he
  obtain ⟨hg, h1, h2⟩ := frameCore_framed h
  subst hg
  exact ⟨by omega, he, rfl, rfl, h1, h2⟩

theorem hlen_ge (f : Frame) : 16 + f.falen ≤ f.hlen := by
  unfold Frame.hlen align8; omega

/-- the verdict of the fixed-header check is final once it is not "incomplete" -/
theorem frameOf_append (mx : Nat) (bs x : Bytes) :
    (∀ f, frameOf mx bs = .framed f → frameOf mx (bs ++ x) = .framed f) ∧
    (frameOf mx bs = .corrupt → frameOf mx (bs ++ x) = .corrupt) := by
  by_cases hl : bs.length < 16
  · constructor
    · intro f h; unfold frameOf at h; rw [if_pos hl] at h; cases h
    · intro h; unfold frameOf at h; rw [if_pos hl] at h; cases h
  · have hl' : 16 ≤ bs.length := by omega
    have h0 : (bs ++ x).getD 0 0 = bs.getD 0 0 := getD_append bs x (by omega)
    have h12 : ((bs ++ x).drop 12).take 4 = (bs.drop 12).take 4 := take_drop_append bs x 12 4 (by omega)
    have h4 : ((bs ++ x).drop 4).take 4 = (bs.drop 4).take 4 := take_drop_append bs x 4 4 (by omega)
    have hlen : ¬ (bs ++ x).length < 16 := by simp; omega
    have hle : bs.length ≤ (bs ++ x).length := by simp
    unfold frameOf
    rw [if_neg hl, if_neg hlen, h0]
    cases he : endianOfByte (bs.getD 0 0) with
    | none =>
      constructor
      · intro f h; cases h
      · intro _; rfl
    | some e =>
      simp only [h12, h4]
      exact frameCore_mono _ hle

theorem headerVals_of_decode (f : Frame) (bs : Bytes) (vs : List Val) (r r' : Bytes) (n : Nat)
    (bs' : Bytes)
    (h : decodeFields f.e (fuelFor bs.length) 0 headerTypes 0 bs = some (vs, r))
    (h' : decodeFields f.e n 0 headerTypes 0 bs' = some (vs, r')) (hn : n = fuelFor bs'.length) :
    headerVals f bs' = headerVals f bs := by
  subst hn
  unfold headerVals
  rw [h, h']
  obtain ⟨_, hwf⟩ := (decode_sound f.e _).2.1 0 _ 0 bs vs r h
  obtain ⟨n0, n1, n2, n3, n4, n5, fv, rfl⟩ := header_shape f.e vs hwf
  rfl

/-- the header's values do not depend on bytes beyond the message -/
theorem headerVals_append {mx : Nat} {bs : Bytes} {f : Frame} (hf : frameOf mx bs = .framed f) (x : Bytes) :
    headerVals f (bs ++ x) = headerVals f bs := by
  obtain ⟨h16, _, hfa, _, htot, _⟩ := frameOf_framed hf
  cases hd : decodeFields f.e (fuelFor bs.length) 0 headerTypes 0 bs with
  | some p =>
    obtain ⟨vs, r⟩ := p
    have := validate_prefix_stable f.e headerTypes bs x vs r hd
    exact headerVals_of_decode f bs vs r (r ++ x) _ (bs ++ x) hd this rfl
  | none =>
    cases hd' : decodeFields f.e (fuelFor (bs ++ x).length) 0 headerTypes 0 (bs ++ x) with
    | none => unfold headerVals; rw [hd, hd']
    | some p =>
      exfalso
      obtain ⟨vs, r'⟩ := p
      obtain ⟨hbs, hwf⟩ := (decode_sound f.e _).2.1 0 _ 0 _ vs r' hd'
      obtain ⟨n0, n1, n2, n3, n4, n5, fv, rfl⟩ := header_shape f.e vs hwf
      have henc := header_enc f.e n0 n1 n2 n3 n4 n5 fv
      -- the array length word is the one `frameOf` read
      have hL : (encodeList f.e 16 fv).length < 256 ^ 4 := by
        unfold headerTypes at hwf
        simp only [WFFields, WFVal] at hwf
        have := hwf.2.2.2.2.2.2.1.2.1
        simp [padLen, pad, Ty.align, MAX_ARRAY_LENGTH, encode, encNat_length, BTy.align, BTy.size,
          BTy.fixedSize] at this
        rw [pow_256_4]
        omega
      have hword : ((bs ++ x).drop 12).take 4 = encNat f.e 4 (encodeList f.e 16 fv).length := by
        rw [hbs, henc]
        have hP : (encNat f.e 1 n0 ++ (encNat f.e 1 n1 ++ (encNat f.e 1 n2 ++ (encNat f.e 1 n3 ++
            (encNat f.e 4 n4 ++ encNat f.e 4 n5))))).length = 12 := by simp [encNat_length]
        have : encNat f.e 1 n0 ++ (encNat f.e 1 n1 ++ (encNat f.e 1 n2 ++ (encNat f.e 1 n3 ++
            (encNat f.e 4 n4 ++ (encNat f.e 4 n5 ++ (encNat f.e 4 (encodeList f.e 16 fv).length ++
              encodeList f.e 16 fv)))))) ++ r' =
            (encNat f.e 1 n0 ++ (encNat f.e 1 n1 ++ (encNat f.e 1 n2 ++ (encNat f.e 1 n3 ++
            (encNat f.e 4 n4 ++ encNat f.e 4 n5))))) ++ (encNat f.e 4 (encodeList f.e 16 fv).length ++
              (encodeList f.e 16 fv ++ r')) := by simp
        rw [this, List.drop_left' hP, List.take_left' (encNat_length _ _ _)]
      have hfa' : f.falen = (encodeList f.e 16 fv).length := by
        rw [hfa, ← take_drop_append bs x 12 4 (by omega), hword, decNat_encNat _ _ _ hL]
      have hlen : (encodeList f.e 0 [.fixed .byte n0, .fixed .byte n1, .fixed .byte n2, .fixed .byte n3,
          .fixed .u32 n4, .fixed .u32 n5, .array (.struct [.basic .byte, .variant]) fv]).length ≤ bs.length := by
        rw [henc]
        simp only [List.length_append, encNat_length]
        have := hlen_ge f
        unfold Frame.total at htot
        omega
      obtain ⟨r0, _, hdec⟩ := validate_prefix_reflects f.e headerTypes bs x _ r' hd' hlen
      rw [hd] at hdec; cases hdec


theorem headerPadding_append {mx : Nat} {bs : Bytes} {f : Frame} (hf : frameOf mx bs = .framed f) (x : Bytes) :
    headerPadding f (bs ++ x) = headerPadding f bs := by
  obtain ⟨_, _, _, _, htot, _⟩ := frameOf_framed hf
  unfold headerPadding
  apply take_drop_append
  have := hlen_ge f
  unfold Frame.total at htot
  omega

theorem bodyBytes_append {mx : Nat} {bs : Bytes} {f : Frame} (hf : frameOf mx bs = .framed f) (x : Bytes) :
    bodyBytes f (bs ++ x) = bodyBytes f bs := by
  obtain ⟨_, _, _, _, htot, _⟩ := frameOf_framed hf
  unfold bodyBytes
  apply take_drop_append
  unfold Frame.total at htot
  omega

theorem bodyBytes_length_le (f : Frame) (bs : Bytes) : (bodyBytes f bs).length ≤ bs.length := by
  unfold bodyBytes
  simp
  omega

theorem bodyVals_append {mx : Nat} {bs : Bytes} {f : Frame} (hf : frameOf mx bs = .framed f) (x : Bytes)
    (fields : List Field) :
    bodyVals (fuelFor (bs ++ x).length) f fields (bs ++ x) = bodyVals (fuelFor bs.length) f fields bs := by
  unfold bodyVals
  rw [bodyBytes_append hf x]
  cases bodyTypesOf fields with
  | none => rfl
  | some tys =>
    simp only
    rw [decodeFields_fuel_indep f.e tys 0 (bodyBytes f bs) (fuelFor (bs ++ x).length) (fuelFor bs.length)
      (fuelFor_mono (by have := bodyBytes_length_le f bs; simp; omega))
      (fuelFor_mono (bodyBytes_length_le f bs))]

/-- **Framing is final**: once the front of the buffer holds a complete message (or is found
    corrupt), bytes that arrive later do not change what is made of it. -/
theorem loadOne_append (s : Bool) (mx fds : Nat) (bs x : Bytes) :
    (∀ f, frameOf mx bs = .framed f → loadOne s mx fds (bs ++ x) = loadOne s mx fds bs) ∧
    (frameOf mx bs = .corrupt → loadOne s mx fds (bs ++ x) = .corrupt ∧ loadOne s mx fds bs = .corrupt) := by
  constructor
  · intro f hf
    have hf' := (frameOf_append mx bs x).1 f hf
    unfold loadOne
    rw [hf, hf']
    simp only
    rw [headerVals_append hf x]
    cases headerVals f bs with
    | none => rfl
    | some p =>
      obtain ⟨mtype, flags, version, serial, fvals⟩ := p
      simp only
      have hc : checkHeader s f (bs ++ x) mtype version serial fvals = checkHeader s f bs mtype version serial fvals := by
        unfold checkHeader
        rw [headerPadding_append hf x]
      rw [hc]
      cases checkHeader s f bs mtype version serial fvals with
      | none => rfl
      | some fields =>
        simp only
        rw [bodyVals_append hf x fields]
  · intro hc
    have hc' := (frameOf_append mx bs x).2 hc
    unfold loadOne
    rw [hc, hc']
    exact ⟨rfl, rfl⟩

/-- what `loadOne … = ok m n` says about `n` and the frame -/
theorem loadOne_ok {s : Bool} {mx fds : Nat} {bs : Bytes} {m : Msg} {n : Nat}
    (h : loadOne s mx fds bs = .ok m n) :
    ∃ f, frameOf mx bs = .framed f ∧ n = f.total ∧ 16 ≤ n ∧ n ≤ bs.length := by
  unfold loadOne at h
  cases hf : frameOf mx bs with
  | incomplete => rw [hf] at h; cases h
  | corrupt => rw [hf] at h; cases h
  | framed f =>
    rw [hf] at h
    simp only at h
    obtain ⟨_, _, _, _, htot, _⟩ := frameOf_framed hf
    have h16 : 16 ≤ f.total := by have := hlen_ge f; unfold Frame.total; omega
    cases hh : headerVals f bs with
    | none => rw [hh] at h; cases h
    | some p =>
      obtain ⟨mtype, flags, version, serial, fvals⟩ := p
      rw [hh] at h
      simp only at h
      cases hc : checkHeader s f bs mtype version serial fvals with
      | none => rw [hc] at h; cases h
      | some fields =>
        rw [hc] at h
        simp only at h
        cases hb : bodyVals (fuelFor bs.length) f fields bs with
        | none => rw [hb] at h; cases h
        | some q =>
          obtain ⟨tys, vals⟩ := q
          rw [hb] at h
          simp only at h
          split at h
          · cases h
          · simp only [LoadResult.ok.injEq] at h
            exact ⟨f, rfl, h.2.symm, by omega, by omega⟩

theorem loadOne_corrupt_frame {s : Bool} {mx fds : Nat} {bs : Bytes}
    (h : loadOne s mx fds bs = .corrupt) :
    frameOf mx bs = .corrupt ∨ ∃ f, frameOf mx bs = .framed f := by
  unfold loadOne at h
  cases hf : frameOf mx bs with
  | incomplete => rw [hf] at h; cases h
  | corrupt => exact Or.inl rfl
  | framed f => exact Or.inr ⟨f, rfl⟩

/-- consequences used by the chunking theorem -/
theorem loadOne_ok_append {s : Bool} {mx fds : Nat} {bs : Bytes} {m : Msg} {n : Nat} (x : Bytes)
    (h : loadOne s mx fds bs = .ok m n) : loadOne s mx fds (bs ++ x) = .ok m n := by
  obtain ⟨f, hf, _⟩ := loadOne_ok h
  rw [(loadOne_append s mx fds bs x).1 f hf, h]

theorem loadOne_corrupt_append {s : Bool} {mx fds : Nat} {bs : Bytes} (x : Bytes)
    (h : loadOne s mx fds bs = .corrupt) : loadOne s mx fds (bs ++ x) = .corrupt := by
  rcases loadOne_corrupt_frame h with hc | ⟨f, hf⟩
  · exact ((loadOne_append s mx fds bs x).2 hc).1
  · rw [(loadOne_append s mx fds bs x).1 f hf, h]

end Dbus.Proofs.Loader
