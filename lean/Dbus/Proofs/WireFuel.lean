import Dbus.Proofs.WireComplete
import Dbus.Model.Message
/-
  The fuel the decoder needs is bounded by the byte length of what it decodes:
  `need v ≤ 2·|encode v| + 3·(65 − d)`, so `fuelFor n = 2n + 512` always suffices.
-/
namespace Dbus.Proofs.Wire
open Dbus Dbus.Spec Dbus.Model Dbus.Proofs

variable (e : Endian)

mutual
theorem need_le : ∀ (v : Val) (t : Ty) (d off : Nat), WFVal e d off v t →
    need v ≤ 2 * (encode e off v).length + 3 * (65 - d)
  | .fixed b n, .basic b', d, off, h => by
    have := encode_pos e _ _ d off h
    simp only [need]; omega
  | .str b s, .basic b', d, off, h => by
    have := encode_pos e _ _ d off h
    simp only [need]; omega
  | .variant t v, .variant, d, off, h => by
    have hw := h
    simp only [WFVal] at h
    obtain ⟨_, _, _, hd, hv⟩ := h
    have ih := need_le v t (d + 1) _ hv
    have hoff : t.print.length + (0 + 1) + 1 = t.print.length + 2 := by omega
    simp only [need, encode, List.length_append, List.length_cons, List.length_nil, hoff] at ih ⊢
    simp only [MAX_VALUE_DEPTH] at hd
    omega
  | .array et vs, .array et', d, off, h => by
    simp only [WFVal] at h
    obtain ⟨_, _, hel⟩ := h
    have ih := needElems_le vs et (d + 1) _ hel
    simp only [need, encode, List.length_append, encNat_length]
    omega
  | .struct vs, .struct ts, d, off, h => by
    simp only [WFVal] at h
    obtain ⟨_, hd, hf⟩ := h
    have ih := needFields_le vs ts (d + 1) _ hf
    simp only [need, encode, List.length_append]
    simp only [MAX_VALUE_DEPTH] at hd
    omega
  | .dict k vt es, .dict k' vt', d, off, h => by
    simp only [WFVal] at h
    obtain ⟨_, _, _, hel⟩ := h
    have ih := needEntries_le es k vt (d + 2) _ hel
    simp only [need, encode, List.length_append, encNat_length]
    omega
  | .fixed _ _, .variant, _, _, h | .fixed _ _, .array _, _, _, h | .fixed _ _, .struct _, _, _, h
  | .fixed _ _, .dict _ _, _, _, h => by simp [WFVal] at h
  | .str _ _, .variant, _, _, h | .str _ _, .array _, _, _, h | .str _ _, .struct _, _, _, h
  | .str _ _, .dict _ _, _, _, h => by simp [WFVal] at h
  | .variant _ _, .basic _, _, _, h | .variant _ _, .array _, _, _, h | .variant _ _, .struct _, _, _, h
  | .variant _ _, .dict _ _, _, _, h => by simp [WFVal] at h
  | .array _ _, .basic _, _, _, h | .array _ _, .variant, _, _, h | .array _ _, .struct _, _, _, h
  | .array _ _, .dict _ _, _, _, h => by simp [WFVal] at h
  | .struct _, .basic _, _, _, h | .struct _, .variant, _, _, h | .struct _, .array _, _, _, h
  | .struct _, .dict _ _, _, _, h => by simp [WFVal] at h
  | .dict _ _ _, .basic _, _, _, h | .dict _ _ _, .variant, _, _, h | .dict _ _ _, .array _, _, _, h
  | .dict _ _ _, .struct _, _, _, h => by simp [WFVal] at h
theorem needFields_le : ∀ (vs : List Val) (ts : List Ty) (d off : Nat), WFFields e d off vs ts →
    needList vs ≤ 2 * (encodeList e off vs).length + 3 * (65 - d) + 2
  | [], [], d, off, _ => by simp [needList]
  | v :: vs, t :: ts, d, off, h => by
    simp only [WFFields] at h
    have h1 := need_le v t d off h.1
    have h2 := needFields_le vs ts d _ h.2
    have hp := encode_pos e v t d off h.1
    simp only [needList, encodeList, List.length_append]
    omega
  | [], _ :: _, _, _, h => by simp [WFFields] at h
  | _ :: _, [], _, _, h => by simp [WFFields] at h
theorem needElems_le : ∀ (vs : List Val) (t : Ty) (d off : Nat), WFElems e d off vs t →
    needList vs ≤ 2 * (encodeList e off vs).length + 3 * (65 - d) + 2
  | [], t, d, off, _ => by simp [needList]
  | v :: vs, t, d, off, h => by
    simp only [WFElems] at h
    have h1 := need_le v t d off h.2.1
    have h2 := needElems_le vs t d _ h.2.2
    have hp := encode_pos e v t d off h.2.1
    simp only [needList, encodeList, List.length_append]
    omega
theorem needEntries_le : ∀ (es : List (Val × Val)) (kt : BTy) (vt : Ty) (d off : Nat),
    WFEntries e d off es kt vt →
    needEntries es ≤ 2 * (encodeEntries e off es).length + 3 * (65 - d) + 2
  | [], kt, vt, d, off, _ => by simp [needEntries]
  | (k, v) :: es, kt, vt, d, off, h => by
    simp only [WFEntries] at h
    obtain ⟨_, hk, hv, hr⟩ := h
    have h1 := need_le k _ d _ hk
    have h2 := need_le v vt d _ hv
    have h3 := needEntries_le es kt vt d _ hr
    have hp1 := encode_pos e k _ d _ hk
    have hp2 := encode_pos e v vt d _ hv
    simp only [needEntries, encodeEntries, List.length_append]
    omega
end

/-- the callers' fuel always covers a list of values found inside `n` bytes -/
theorem fuelFor_covers (vs : List Val) (ts : List Ty) (off n : Nat)
    (h : WFFields e 0 off vs ts) (hn : (encodeList e off vs).length ≤ n) :
    needList vs ≤ fuelFor n := by
  have := needFields_le e vs ts 0 off h
  unfold fuelFor
  omega

end Dbus.Proofs.Wire
