import Dbus.Model.Signature
namespace Dbus.Proofs
open Dbus Dbus.Spec Dbus.Model

theorem parseBasic_code (b : BTy) : parseBasic b.code = some b := by cases b <;> rfl

theorem parseBasic_sound (c : UInt8) (b : BTy) (h : parseBasic c = some b) : c = b.code := by
  have := List.find?_some h
  exact (by simpa using this : b.code = c).symm

theorem code_ne (b : BTy) : b.code ≠ C_ARRAY ∧ b.code ≠ C_LPAREN ∧ b.code ≠ C_VARIANT ∧
    b.code ≠ C_RPAREN ∧ b.code ≠ C_LBRACE ∧ b.code ≠ C_RBRACE := by
  cases b <;> decide

/-- the first byte of a printed type is never a closing bracket or an opening brace -/
theorem print_head (t : Ty) : ∃ c cs, t.print = c :: cs ∧ c ≠ C_RPAREN ∧ c ≠ C_LBRACE ∧ c ≠ C_RBRACE := by
  cases t with
  | basic b => exact ⟨b.code, [], by simp [Ty.print], (code_ne b).2.2.2.1, (code_ne b).2.2.2.2.1, (code_ne b).2.2.2.2.2⟩
  | variant => exact ⟨C_VARIANT, [], by simp [Ty.print], by decide, by decide, by decide⟩
  | array e => exact ⟨C_ARRAY, _, by rw [Ty.print], by decide, by decide, by decide⟩
  | struct fs => exact ⟨C_LPAREN, _, by rw [Ty.print], by decide, by decide, by decide⟩
  | dict k v => exact ⟨C_ARRAY, _, by rw [Ty.print], by decide, by decide, by decide⟩

theorem dictStart_some (rest : Bytes) (k : UInt8) (r3 : Bytes) (h : dictStart rest = some (k, r3)) :
    rest = C_LBRACE :: k :: r3 := by
  unfold dictStart at h
  split at h
  · split at h
    · rename_i hc; cases h; rw [hc]
    · cases h
  · cases h

theorem dictStart_print (t : Ty) (r : Bytes) : dictStart (t.print ++ r) = none := by
  obtain ⟨c, cs, hp, _, hb, _⟩ := print_head t
  rw [hp]
  unfold dictStart
  split
  · rename_i c2 k rest3 heq
    simp only [List.cons_append, List.cons.injEq] at heq
    rw [if_neg]; rw [← heq.1]; exact hb
  · rfl

/-- soundness of the parser: what it returns prints back to the consumed prefix -/
theorem parse_sound (f : Nat) :
    (∀ bs t r, parseTy f bs = some (t, r) → bs = t.print ++ r ∧ t.WF) ∧
    (∀ bs ts r, parseFields f bs = some (ts, r) → bs = printList ts ++ C_RPAREN :: r ∧ WFList ts) := by
  induction f with
  | zero =>
    constructor
    · intro bs t r h; simp [parseTy] at h
    · intro bs t r h; simp [parseFields] at h
  | succ f ih =>
    obtain ⟨ihT, ihF⟩ := ih
    constructor
    · intro bs t r h
      cases bs with
      | nil => simp [parseTy] at h
      | cons c rest =>
        rw [parseTy] at h
        split at h
        · rename_i hc
          split at h
          · rename_i k rest3 hds
            have hrest := dictStart_some _ _ _ hds
            split at h
            · rename_i kb hk
              have hkc := parseBasic_sound _ _ hk
              cases hp : parseTy f rest3 with
              | none => rw [hp] at h; simp [closeDict] at h
              | some vr =>
                obtain ⟨v, r0⟩ := vr
                rw [hp] at h
                obtain ⟨hv, hwf⟩ := ihT _ _ _ hp
                cases r0 with
                | nil => simp [closeDict] at h
                | cons c3 r' =>
                  simp only [closeDict] at h
                  split at h
                  · rename_i hc3
                    cases h
                    refine ⟨?_, hwf⟩
                    rw [hc, hrest, hv, hkc, hc3]
                    simp [Ty.print]
                  · cases h
            · cases h
          · cases hp : parseTy f rest with
            | none => rw [hp] at h; simp [mkArray] at h
            | some er =>
              obtain ⟨e, r0⟩ := er
              rw [hp] at h
              simp only [mkArray] at h
              cases h
              obtain ⟨hv, hwf⟩ := ihT _ _ _ hp
              exact ⟨by rw [hc, hv]; simp [Ty.print], hwf⟩
        · split at h
          · rename_i hc
            cases hp : parseFields f rest with
            | none => rw [hp] at h; simp [mkStruct] at h
            | some fr =>
              obtain ⟨fs, r0⟩ := fr
              rw [hp] at h
              simp only [mkStruct] at h
              split at h
              · cases h
              · rename_i hne
                cases h
                obtain ⟨hv, hwf⟩ := ihF _ _ _ hp
                refine ⟨by rw [hc, hv]; simp [Ty.print], ?_, hwf⟩
                intro h0; rw [h0] at hne; simp at hne
          · split at h
            · rename_i hc
              cases h
              exact ⟨by rw [hc]; simp [Ty.print], trivial⟩
            · cases hp : parseBasic c with
              | none => rw [hp] at h; simp [mkBasic] at h
              | some b =>
                rw [hp] at h
                simp only [mkBasic] at h
                cases h
                exact ⟨by rw [parseBasic_sound _ _ hp]; simp [Ty.print], trivial⟩
    · intro bs ts r h
      cases bs with
      | nil => simp [parseFields] at h
      | cons c rest =>
        rw [parseFields] at h
        split at h
        · rename_i hc
          cases h
          exact ⟨by rw [hc]; simp [printList], trivial⟩
        · split at h
          · cases h
          · rename_i t r0 hp
            obtain ⟨hv, hwf⟩ := ihT _ _ _ hp
            cases hq : parseFields f r0 with
            | none => rw [hq] at h; simp [consField] at h
            | some tr =>
              obtain ⟨ts', r1⟩ := tr
              rw [hq] at h
              simp only [consField] at h
              cases h
              obtain ⟨hv2, hwf2⟩ := ihF _ _ _ hq
              exact ⟨by rw [hv, hv2]; simp [printList], hwf, hwf2⟩


theorem print_length_pos (t : Ty) : 1 ≤ t.print.length := by
  obtain ⟨c, cs, h, _⟩ := print_head t
  rw [h]; simp

mutual
/-- completeness of the parser: a printed well-formed type is parsed back, whatever follows -/
theorem parseTy_complete : ∀ (t : Ty) (r : Bytes) (f : Nat), t.WF →
    2 * (t.print ++ r).length + 1 ≤ f → parseTy f (t.print ++ r) = some (t, r)
  | .basic b, r, f, _, hf => by
    obtain ⟨f', rfl⟩ : ∃ f', f = f' + 1 := ⟨f - 1, by omega⟩
    obtain ⟨h1, h2, h3, _⟩ := code_ne b
    simp only [Ty.print, List.cons_append, List.nil_append]
    rw [parseTy, if_neg h1, if_neg h2, if_neg h3, parseBasic_code]; rfl
  | .variant, r, f, _, hf => by
    obtain ⟨f', rfl⟩ : ∃ f', f = f' + 1 := ⟨f - 1, by omega⟩
    simp only [Ty.print, List.cons_append, List.nil_append]
    rw [parseTy, if_neg (by decide), if_neg (by decide), if_pos rfl]
  | .array e, r, f, hwf, hf => by
    obtain ⟨f', rfl⟩ : ∃ f', f = f' + 1 := ⟨f - 1, by omega⟩
    simp only [Ty.print, List.cons_append] at hf ⊢
    rw [parseTy, if_pos rfl, dictStart_print]
    simp only
    rw [parseTy_complete e r f' (by simpa [Ty.WF] using hwf) (by simp at hf ⊢; omega)]; rfl
  | .struct fs, r, f, hwf, hf => by
    obtain ⟨f', rfl⟩ : ∃ f', f = f' + 1 := ⟨f - 1, by omega⟩
    simp only [Ty.WF] at hwf
    simp only [Ty.print, List.cons_append, List.append_assoc, List.nil_append] at hf ⊢
    rw [parseTy, if_neg (by decide), if_pos rfl,
      parseFields_complete fs r f' hwf.2 (by simp at hf ⊢; omega)]
    simp only [mkStruct]
    rw [if_neg]
    cases fs with
    | nil => exact absurd rfl hwf.1
    | cons _ _ => simp
  | .dict k v, r, f, hwf, hf => by
    obtain ⟨f', rfl⟩ : ∃ f', f = f' + 1 := ⟨f - 1, by omega⟩
    simp only [Ty.print, List.cons_append, List.append_assoc, List.nil_append] at hf ⊢
    rw [parseTy, if_pos rfl]
    simp only [dictStart, if_true, parseBasic_code]
    rw [parseTy_complete v (C_RBRACE :: r) f' (by simpa [Ty.WF] using hwf) (by simp at hf ⊢; omega)]
    simp [closeDict]
theorem parseFields_complete : ∀ (ts : List Ty) (r : Bytes) (f : Nat), WFList ts →
    2 * (printList ts ++ C_RPAREN :: r).length + 2 ≤ f →
    parseFields f (printList ts ++ C_RPAREN :: r) = some (ts, r)
  | [], r, f, _, hf => by
    obtain ⟨f', rfl⟩ : ∃ f', f = f' + 1 := ⟨f - 1, by omega⟩
    simp only [printList, List.nil_append]
    rw [parseFields, if_pos rfl]
  | t :: ts, r, f, hwf, hf => by
    obtain ⟨f', rfl⟩ : ∃ f', f = f' + 1 := ⟨f - 1, by omega⟩
    simp only [WFList] at hwf
    simp only [printList, List.append_assoc] at hf ⊢
    have hlen := print_length_pos t
    have hT := parseTy_complete t (printList ts ++ C_RPAREN :: r) f' hwf.1
      (by simp at hf ⊢; omega)
    have hF := parseFields_complete ts r f' hwf.2 (by simp at hf ⊢; omega)
    obtain ⟨c, cs, hp, hc, _⟩ := print_head t
    rw [hp] at hT ⊢
    simp only [List.cons_append] at hT ⊢
    rw [parseFields, if_neg hc, hT]
    simp only
    rw [hF]; rfl
end


theorem parseSeq_sound : ∀ (f : Nat) (bs : Bytes) (ts : List Ty), parseSeq f bs = some ts →
    bs = printList ts ∧ WFList ts
  | f, [], ts, h => by
    have : ts = [] := by
      cases f <;> simp [parseSeq] at h <;> exact h
    subst this; exact ⟨rfl, trivial⟩
  | 0, _ :: _, ts, h => by simp [parseSeq] at h
  | f + 1, c :: rest, ts, h => by
    rw [parseSeq] at h
    split at h
    · cases h
    · rename_i t r hp
      obtain ⟨hv, hwf⟩ := (parse_sound _).1 _ _ _ hp
      split at h
      · cases h
      · rename_i ts' hq
        cases h
        obtain ⟨hv2, hwf2⟩ := parseSeq_sound f r ts' hq
        exact ⟨by rw [hv, hv2]; simp [printList], hwf, hwf2⟩

theorem parseSeq_complete : ∀ (ts : List Ty) (f : Nat), WFList ts → (printList ts).length ≤ f →
    parseSeq f (printList ts) = some ts
  | [], f, _, _ => by cases f <;> simp [printList, parseSeq]
  | t :: ts, f, hwf, hf => by
    simp only [WFList] at hwf
    obtain ⟨c, cs, hp, _⟩ := print_head t
    have hT := parseTy_complete t (printList ts) (2 * (t.print ++ printList ts).length + 1) hwf.1
      (Nat.le_refl _)
    simp only [printList] at hf ⊢
    rw [hp] at hT hf ⊢
    simp only [List.cons_append] at hT hf ⊢
    obtain ⟨f', rfl⟩ : ∃ f', f = f' + 1 := ⟨f - 1, by simp at hf; omega⟩
    rw [parseSeq, hT]
    simp only
    rw [parseSeq_complete ts f' hwf.2 (by simp at hf; omega)]

theorem depthLax_iff (t : Ty) : depthLax t = true ↔ t.DepthLax := by
  unfold depthLax Ty.DepthLax
  simp [and_assoc]

mutual
theorem lead_le_arrayDepth : ∀ t : Ty, t.lead ≤ t.arrayDepth
  | .basic _ => by simp [Ty.lead]
  | .variant => by simp [Ty.lead]
  | .array e => by
    have := lead_le_arrayDepth e
    simp only [Ty.lead, Ty.arrayDepth]; omega
  | .struct _ => by simp [Ty.lead]
  | .dict _ _ => by simp only [Ty.lead, Ty.arrayDepth]; omega
end

mutual
theorem maxRun_le_arrayDepth : ∀ t : Ty, t.maxRun ≤ t.arrayDepth
  | .basic _ => by simp [Ty.maxRun]
  | .variant => by simp [Ty.maxRun]
  | .array e => by
    have h1 := lead_le_arrayDepth e
    have h2 := maxRun_le_arrayDepth e
    simp only [Ty.maxRun, Ty.arrayDepth]; omega
  | .struct fs => by
    simp only [Ty.maxRun, Ty.arrayDepth]
    exact maxRunList_le fs
  | .dict _ v => by
    have h2 := maxRun_le_arrayDepth v
    simp only [Ty.maxRun, Ty.arrayDepth]; omega
theorem maxRunList_le : ∀ ts : List Ty, maxRunList ts ≤ arrayDepthList ts
  | [] => by simp [maxRunList, arrayDepthList]
  | t :: ts => by
    have h1 := maxRun_le_arrayDepth t
    have h2 := maxRunList_le ts
    simp only [maxRunList, arrayDepthList]; omega
end

theorem depthOK_lax (t : Ty) (h : t.DepthOK) : t.DepthLax :=
  ⟨Nat.le_trans (maxRun_le_arrayDepth t) h.1, h.2.1, h.2.2⟩

end Dbus.Proofs
