import Dbus.Proofs.MessageLevel
/-
  Byte order changes the bytes, never the structure: encoded lengths and well-formedness do
  not depend on the byte order.
-/
namespace Dbus.Proofs.Message
open Dbus Dbus.Spec Dbus.Model Dbus.Proofs.Wire

mutual
theorem encode_length_endian (e e' : Endian) : ∀ (v : Val) (off : Nat),
    (encode e off v).length = (encode e' off v).length
  | .fixed b n, off => by simp [encode, encNat_length]
  | .str b s, off => by
    simp only [encode]
    split <;> simp [encNat_length]
  | .variant t v, off => by
    simp only [encode, List.length_append, List.length_cons]
    rw [encode_length_endian e e' v]
  | .array et vs, off => by
    simp only [encode, List.length_append, encNat_length]
    rw [encodeList_length_endian e e' vs]
  | .struct vs, off => by
    simp only [encode, List.length_append]
    rw [encodeList_length_endian e e' vs]
  | .dict k vt es, off => by
    simp only [encode, List.length_append, encNat_length]
    rw [encodeEntries_length_endian e e' es]
theorem encodeList_length_endian (e e' : Endian) : ∀ (vs : List Val) (off : Nat),
    (encodeList e off vs).length = (encodeList e' off vs).length
  | [], off => rfl
  | v :: vs, off => by
    simp only [encodeList, List.length_append]
    rw [encode_length_endian e e' v off, encodeList_length_endian e e' vs]
theorem encodeEntries_length_endian (e e' : Endian) : ∀ (es : List (Val × Val)) (off : Nat),
    (encodeEntries e off es).length = (encodeEntries e' off es).length
  | [], off => rfl
  | (k, v) :: es, off => by
    simp only [encodeEntries, List.length_append]
    rw [encode_length_endian e e' k, encode_length_endian e e' v, encodeEntries_length_endian e e' es]
end

mutual
theorem wfVal_endian (e e' : Endian) : ∀ (v : Val) (t : Ty) (d off : Nat),
    WFVal e d off v t → WFVal e' d off v t
  | .fixed b n, .basic b', d, off, h => by simpa [WFVal] using h
  | .str b s, .basic b', d, off, h => by simpa [WFVal] using h
  | .variant t v, .variant, d, off, h => by
    simp only [WFVal] at h ⊢
    exact ⟨h.1, h.2.1, h.2.2.1, h.2.2.2.1, wfVal_endian e e' v t _ _ h.2.2.2.2⟩
  | .array et vs, .array et', d, off, h => by
    simp only [WFVal] at h ⊢
    refine ⟨h.1, ?_, wfElems_endian e e' vs et _ _ h.2.2⟩
    rw [← encodeList_length_endian e e']; exact h.2.1
  | .struct vs, .struct ts, d, off, h => by
    simp only [WFVal] at h ⊢
    exact ⟨h.1, h.2.1, wfFields_endian e e' vs ts _ _ h.2.2⟩
  | .dict k vt es, .dict k' vt', d, off, h => by
    simp only [WFVal] at h ⊢
    refine ⟨h.1, h.2.1, ?_, wfEntries_endian e e' es k vt _ _ h.2.2.2⟩
    rw [← encodeEntries_length_endian e e']; exact h.2.2.1
  | .fixed _ _, .variant, _, _, h | .fixed _ _, .array _, _, _, h | .fixed _ _, .struct _, _, _, h
  | .fixed _ _, .dict _ _, _, _, h => by simp [WFVal] at h
  | .str _ _, .variant, _, _, h | .str _ _, .array _, _, _, h | .str _ _, .struct _, _, _, h
  | .str _ _, .dict _ _, _, _, h => by simp [WFVal] at h
  | .variant _ _, .basic _, _, _, h | .variant _ _, .array _, _, _, h | .variant _ _, .struct _, _, _, h
  | .variant _ _, .dict _ _, _, _, h => by simp [WFVal] at h
  | .array _ _, .basic _, _, _, h | .array _ _, .variant, _, _, h | .array _ _, .struct _, _, _, h
  | .array _ _, .dict _ _, _, _, h => by simp [WFVal] at h
  | .struct _, .basic _, _, _, h | .struct _, .variant, _, _, h | .struct _, .array _, _, _, h
  | .struct _, .dict _ _, _, _, h => by simp [WFVal] at h
  | .dict _ _ _, .basic _, _, _, h | .dict _ _ _, .variant, _, _, h | .dict _ _ _, .array _, _, _, h
  | .dict _ _ _, .struct _, _, _, h => by simp [WFVal] at h
theorem wfFields_endian (e e' : Endian) : ∀ (vs : List Val) (ts : List Ty) (d off : Nat),
    WFFields e d off vs ts → WFFields e' d off vs ts
  | [], [], _, _, _ => trivial
  | v :: vs, t :: ts, d, off, h => by
    simp only [WFFields] at h ⊢
    refine ⟨wfVal_endian e e' v t d off h.1, ?_⟩
    rw [← encode_length_endian e e']
    exact wfFields_endian e e' vs ts d _ h.2
  | [], _ :: _, _, _, h => by simp [WFFields] at h
  | _ :: _, [], _, _, h => by simp [WFFields] at h
theorem wfElems_endian (e e' : Endian) : ∀ (vs : List Val) (t : Ty) (d off : Nat),
    WFElems e d off vs t → WFElems e' d off vs t
  | [], _, _, _, _ => trivial
  | v :: vs, t, d, off, h => by
    simp only [WFElems] at h ⊢
    refine ⟨h.1, wfVal_endian e e' v t d off h.2.1, ?_⟩
    rw [← encode_length_endian e e']
    exact wfElems_endian e e' vs t d _ h.2.2
theorem wfEntries_endian (e e' : Endian) : ∀ (es : List (Val × Val)) (kt : BTy) (vt : Ty) (d off : Nat),
    WFEntries e d off es kt vt → WFEntries e' d off es kt vt
  | [], _, _, _, _, _ => trivial
  | (k, v) :: es, kt, vt, d, off, h => by
    simp only [WFEntries] at h ⊢
    refine ⟨h.1, wfVal_endian e e' k _ d _ h.2.1, ?_, ?_⟩
    · rw [← encode_length_endian e e']
      exact wfVal_endian e e' v vt d _ h.2.2.1
    · rw [← encode_length_endian e e' k, ← encode_length_endian e e' v]
      exact wfEntries_endian e e' es kt vt d _ h.2.2.2
end

theorem encode_byte_length (e : Endian) (off n : Nat) : (encode e off (.fixed .byte n)).length = 1 := by
  simp [encode, encNat_length, pad, padLen, BTy.align, BTy.size, BTy.fixedSize, Nat.mod_one]

/-- a well-formed message stays well-formed when expressed in the other byte order -/
theorem wfMsg_endian {mx fds : Nat} {m : Msg} (e' : Endian) (h : WFMsg mx fds m) :
    WFMsg mx fds { m with endian := e' } := by
  obtain ⟨e, mt, fl, ver, ser, fs, bt, bd⟩ := m
  have hb : (encodeList e' 0 bd).length = (encodeList e 0 bd).length := encodeList_length_endian e' e bd 0
  have hf : (encodeList e' 16 (fs.map fieldVal)).length = (encodeList e 16 (fs.map fieldVal)).length :=
    encodeList_length_endian e' e _ 16
  have h4 : WFFields e 0 0 (headerValues e mt fl ver (encodeList e 0 bd).length ser fs) headerTypes := h.header_wf
  have h8 : WFFields e 0 0 bd bt := h.body_wf
  have h9 : (encodeList e 16 (fs.map fieldVal)).length ≤ mx := h.falen_le
  have h10 : (encodeList e 0 bd).length ≤ mx := h.blen_le
  have h11 : align8 (16 + (encodeList e 16 (fs.map fieldVal)).length) + (encodeList e 0 bd).length ≤ mx := h.total_le
  refine ⟨h.mtype_ne, h.version_eq, h.serial_ne, ?_, h.fields_ok, h.mandatory, h.body_types,
    wfFields_endian e e' _ _ _ _ h8, ?_, ?_, ?_, h.fds_ok⟩
  · show WFFields e' 0 0 (headerValues e' mt fl ver (encodeList e' 0 bd).length ser fs) headerTypes
    rw [hb]
    have hw := wfFields_endian e e' _ _ _ _ h4
    unfold headerValues headerTypes at hw ⊢
    simp only [WFFields, encode_byte_length] at hw ⊢
    refine ⟨?_, hw.2⟩
    simp only [WFVal]
    refine ⟨trivial, rfl, ?_, by simp⟩
    have := e'.toByte.toNat_lt
    simpa [BTy.size, BTy.fixedSize] using this
  · show (encodeList e' 16 (fs.map fieldVal)).length ≤ mx
    rw [hf]; exact h9
  · show (encodeList e' 0 bd).length ≤ mx
    rw [hb]; exact h10
  · show align8 (16 + (encodeList e' 16 (fs.map fieldVal)).length) + (encodeList e' 0 bd).length ≤ mx
    rw [hf, hb]; exact h11

end Dbus.Proofs.Message
