import Dbus.Model.Wire
/-
  Primitive round-trip lemmas of the wire format: fixed-width integers in both byte orders,
  alignment padding, length-delimited chunks.
-/
namespace Dbus.Proofs.Wire
open Dbus Dbus.Spec Dbus.Model

theorem encLE_length (k n : Nat) : (encLE k n).length = k := by
  induction k generalizing n with
  | zero => rfl
  | succ k ih => simp [encLE, ih]

theorem toNat_ofNat_mod (n : Nat) : (UInt8.ofNat (n % 256)).toNat = n % 256 := by
  simp [UInt8.toNat_ofNat']

theorem decLE_encLE (k n : Nat) (h : n < 256 ^ k) : decLE (encLE k n) = n := by
  induction k generalizing n with
  | zero => simp [Nat.pow_zero] at h; simp [encLE, decLE, h]
  | succ k ih =>
    simp only [encLE, decLE, toNat_ofNat_mod]
    rw [ih (n / 256) (by rw [Nat.pow_succ] at h; omega)]
    omega

theorem decLE_lt (bs : Bytes) : decLE bs < 256 ^ bs.length := by
  induction bs with
  | nil => simp [decLE]
  | cons b bs ih =>
    simp only [decLE, List.length_cons, Nat.pow_succ]
    have := b.toNat_lt
    omega

theorem encLE_decLE (bs : Bytes) : encLE bs.length (decLE bs) = bs := by
  induction bs with
  | nil => rfl
  | cons b bs ih =>
    have hb := b.toNat_lt
    simp only [List.length_cons, encLE, decLE]
    have h1 : (b.toNat + 256 * decLE bs) % 256 = b.toNat := by omega
    have h2 : (b.toNat + 256 * decLE bs) / 256 = decLE bs := by omega
    rw [h1, h2, ih, UInt8.ofNat_toNat]

theorem encNat_length (e : Endian) (k n : Nat) : (encNat e k n).length = k := by
  cases e <;> simp [encNat, encLE_length]

theorem decNat_encNat (e : Endian) (k n : Nat) (h : n < 256 ^ k) : decNat e (encNat e k n) = n := by
  cases e <;> simp [encNat, decNat, decLE_encLE k n h]

theorem encNat_decNat (e : Endian) (bs : Bytes) : encNat e bs.length (decNat e bs) = bs := by
  cases e with
  | little => exact encLE_decLE bs
  | big =>
    simp only [encNat, decNat]
    have := encLE_decLE bs.reverse
    rw [List.length_reverse] at this
    rw [this, List.reverse_reverse]

theorem decNat_lt (e : Endian) (bs : Bytes) : decNat e bs < 256 ^ bs.length := by
  cases e with
  | little => exact decLE_lt bs
  | big => simpa [decNat] using decLE_lt bs.reverse

theorem pad_length (off a : Nat) : (pad off a).length = padLen off a := by simp [pad]

/-! ### takeN -/

theorem takeN_append (x r : Bytes) : takeN x.length (x ++ r) = some (x, r) := by
  unfold takeN
  simp

theorem takeN_some {n : Nat} {bs x r : Bytes} (h : takeN n bs = some (x, r)) :
    bs = x ++ r ∧ x.length = n := by
  unfold takeN at h
  split at h
  · cases h
  · rename_i hl
    simp only [Option.some.injEq, Prod.mk.injEq] at h
    obtain ⟨rfl, rfl⟩ := h
    exact ⟨(List.take_append_drop n bs).symm, by simp; omega⟩

/-! ### takePad -/

theorem takePad_pad (off a : Nat) (r : Bytes) : takePad off a (pad off a ++ r) = some r := by
  unfold takePad
  have hl : (pad off a).length = padLen off a := pad_length off a
  rw [if_neg (by simp [hl])]
  have h1 : List.take (padLen off a) (pad off a ++ r) = pad off a := by
    rw [← hl]; simp
  have h2 : List.drop (padLen off a) (pad off a ++ r) = r := by
    rw [← hl]; simp
  rw [h1, h2]
  simp [pad]

theorem all_zero_eq_replicate : ∀ (l : Bytes), l.all (· == 0) = true → l = List.replicate l.length 0
  | [], _ => rfl
  | b :: l, h => by
    simp only [List.all_cons, Bool.and_eq_true, beq_iff_eq] at h
    rw [List.length_cons, List.replicate_succ, h.1, ← all_zero_eq_replicate l h.2]

theorem takePad_some {off a : Nat} {bs r : Bytes} (h : takePad off a bs = some r) :
    bs = pad off a ++ r := by
  unfold takePad at h
  split at h
  · cases h
  · rename_i hl
    split at h
    · rename_i hz
      simp only [Option.some.injEq] at h
      subst h
      have := all_zero_eq_replicate _ hz
      have hlen : (List.take (padLen off a) bs).length = padLen off a := by simp; omega
      rw [hlen] at this
      unfold pad
      rw [← this, List.take_append_drop]
    · cases h

/-! ### takeNat -/

theorem takeNat_enc (e : Endian) (k n : Nat) (r : Bytes) (h : n < 256 ^ k) :
    takeNat e k (encNat e k n ++ r) = some (n, r) := by
  unfold takeNat
  have := takeN_append (encNat e k n) r
  rw [encNat_length] at this
  rw [this]
  simp [decNat_encNat e k n h]

theorem takeNat_some {e : Endian} {k n : Nat} {bs r : Bytes} (h : takeNat e k bs = some (n, r)) :
    bs = encNat e k n ++ r ∧ n < 256 ^ k := by
  unfold takeNat at h
  cases ht : takeN k bs with
  | none => rw [ht] at h; cases h
  | some xr =>
    obtain ⟨x, r'⟩ := xr
    rw [ht] at h
    simp only [Option.some.injEq, Prod.mk.injEq] at h
    obtain ⟨rfl, rfl⟩ := h
    obtain ⟨hb, hl⟩ := takeN_some ht
    subst hl
    exact ⟨by rw [encNat_decNat]; exact hb, decNat_lt e x⟩

/-! ### takeNul -/

theorem takeNul_cons (r : Bytes) : takeNul (0 :: r) = some r := by simp [takeNul]

theorem takeNul_some {bs r : Bytes} (h : takeNul bs = some r) : bs = 0 :: r := by
  unfold takeNul at h
  split at h
  · split at h
    · rename_i hb; simp only [Option.some.injEq] at h; subst h; rw [hb]
    · cases h
  · cases h

end Dbus.Proofs.Wire
