import Dbus.Proofs.PendingCalls
/-
  C17: the serials of the calls a connection has registered are pairwise distinct (until the 32-bit counter
  wraps), whatever happens in between - replies, timeouts, cancels, blocking waits, a peer that closes, and
  sends that FAIL after the message was given its serial and are tried again with the same message.  So
  pairing a reply with "the call with that serial" never has two candidates.
-/
namespace Dbus.Proofs.PC
open Dbus Dbus.Model.PC

def sers (st : State) : List Nat := st.calls.map (·.serial)

/-- what the serial bookkeeping consists of -/
def key (st : State) : List Nat × Nat × Option Nat := (sers st, st.nextSerial, st.failedSerial)

theorem updCall_sers (cs : List Call) (i : Nat) (f : Call → Call) (hf : ∀ c, (f c).serial = c.serial) :
    (updCall cs i f).map (·.serial) = cs.map (·.serial) := by
  unfold updCall
  apply List.ext_getElem
  · simp
  · intro j h1 h2
    simp only [List.getElem_map, List.getElem_mapIdx]
    split
    · exact hf _
    · rfl

theorem key_receive (st : State) (m : QMsg) : key (receive st m) = key st := by
  unfold receive
  dsimp only
  split
  · rfl
  · split
    · simp only [key, sers]
      congr 1
      exact updCall_sers _ _ _ (fun _ => rfl)
    · rfl

theorem key_foldl_receive (ms : List QMsg) : ∀ (st : State), key (ms.foldl receive st) = key st := by
  induction ms with
  | nil => intro st; rfl
  | cons m ms ih => intro st; simp only [List.foldl_cons]; rw [ih, key_receive]

theorem key_complete (st : State) (i : Nat) (o : Outcome) : key (complete st i o) = key st := by
  simp only [complete, key, sers]
  congr 1
  exact updCall_sers _ _ _ (fun _ => rfl)

theorem key_sweep (st : State) : key (disconnectSweep st) = key st := by
  simp only [disconnectSweep, key, sers, List.map_map]
  congr 1
  apply List.map_congr_left
  intro c _
  simp only [Function.comp]
  split <;> rfl

theorem key_settle (st : State) : key (settle st) = key st := by
  unfold settle
  split
  · exact key_sweep st
  · rfl

theorem key_pump (st : State) : key (pump st) = key st := by
  unfold pump
  rw [key_settle]
  have h1 := key_foldl_receive st.wire { st with wire := [] }
  split
  · exact h1
  · exact h1

theorem key_dispatch (st : State) : key (dispatch st) = key st := by
  unfold dispatch
  split
  · exact key_settle st
  · rw [key_settle]
    split
    · rw [key_complete]; rfl
    · rfl

theorem key_fire (st : State) (i : Nat) : key (fire st i).1 = key st := by
  unfold fire
  split
  · split
    · rw [key_settle]
      simp only [key, sers]
      have hu : ∀ cs : List Call, (updCall cs i fun c => { c with timeoutArmed := false, timeoutLink := false }).map (·.serial) =
          cs.map (·.serial) := fun cs => updCall_sers cs i _ (fun _ => rfl)
      congr 1
      · rw [hu]
        split <;> rfl
      · split <;> rfl
    · rfl
  · rfl

theorem key_cancel (st : State) (i : Nat) : key (cancel st i) = key st := by
  simp only [cancel, key, sers]
  congr 1
  exact updCall_sers _ _ _ (fun _ => rfl)

theorem key_ite_conn (X : State) : key (if X.peerClosed = true then { X with connected := false } else X) = key X := by
  split <;> rfl

/-- the socket is read and the dispatch status looked at again -/
def refill (st : State) : State :=
  settle (if (st.wire.foldl receive { st with wire := [] }).peerClosed = true then
            { st.wire.foldl receive { st with wire := [] } with connected := false }
          else st.wire.foldl receive { st with wire := [] })

theorem key_refill (st : State) : key (refill st) = key st := by
  unfold refill
  rw [key_settle, key_ite_conn, key_foldl_receive]
  rfl

theorem key_conn (X : State) : key ({ X with connected := false } : State) = key X := rfl
theorem key_incoming (X : State) (l : List QMsg) : key ({ X with incoming := l } : State) = key X := rfl
theorem key_wire (X : State) : key ({ X with wire := [] } : State) = key X := rfl

theorem key_block (st : State) (i : Nat) : key ((block st i).getD st) = key st := by
  unfold block
  dsimp only
  repeat' split
  all_goals simp only [Option.getD_some, Option.getD_none, key_settle, key_complete, key_incoming, key_conn, key_foldl_receive, key_wire]

theorem key_dispatchBlock (st : State) (i : Nat) : key (dispatchBlock st i).1 = key st := by
  unfold dispatchBlock
  split
  · exact key_dispatch st
  · split
    · exact key_dispatch st
    · exact (key_block (dispatch st) i).trans (key_dispatch st)

/-- the invariant: every registered serial, and the serial a failed send has left on its message, was handed out by the
    counter before its present value, and they are pairwise distinct -/
structure SerInv (st : State) : Prop where
  pos : 1 ≤ st.nextSerial
  below : ∀ s ∈ sers st, s < st.nextSerial
  nodup : (sers st).Nodup
  failed : ∀ s, st.failedSerial = some s → s < st.nextSerial ∧ s ∉ sers st

theorem serInv_of_key {st st' : State} (hk : key st' = key st) (h : SerInv st) : SerInv st' := by
  have h1 : sers st' = sers st := congrArg Prod.fst hk
  have h2 : st'.nextSerial = st.nextSerial := congrArg (fun x => x.2.1) hk
  have h3 : st'.failedSerial = st.failedSerial := congrArg (fun x => x.2.2) hk
  exact ⟨by rw [h2]; exact h.pos, by rw [h1, h2]; exact h.below, by rw [h1]; exact h.nodup, by rw [h1, h2, h3]; exact h.failed⟩

theorem next_of_key {st st' : State} (hk : key st' = key st) : st'.nextSerial = st.nextSerial := by
  have := congrArg (fun x => x.2.1) hk
  exact this

/-- a history in which the application never sets a serial itself -/
def noPreset : Ev → Bool
  | .sendPreset _ _ _ => false
  | _ => true

/-- how many serials an event takes from the counter (at most) -/
def takes : Ev → Nat
  | .send _ _ => 1
  | .sendFail => 1
  | _ => 0

theorem nextSerial_nowrap {n : Nat} (h : n + 1 < SERIAL_MOD) : nextSerial n = (n, n + 1) := by
  unfold nextSerial
  simp only [Nat.mod_eq_of_lt h]
  simp

theorem serInv_step (st : State) (ev : Ev) (h : SerInv st) (hp : noPreset ev = true) (hw : st.nextSerial + takes ev < SERIAL_MOD) :
    SerInv (step st ev) ∧ (step st ev).nextSerial ≤ st.nextSerial + takes ev := by
  cases ev with
  | send f n =>
    simp only [step, send]
    split
    · exact ⟨h, by simp [takes]⟩
    · have hnw := nextSerial_nowrap (n := st.nextSerial) (by simpa [takes] using hw)
      rw [hnw]
      dsimp only
      have hk := key_settle ({ st with nextSerial := st.nextSerial + 1, calls := st.calls ++ [(Call.mk st.nextSerial f f true true n none 0 false)] } : State)
      refine ⟨serInv_of_key hk ⟨?_, ?_, ?_, ?_⟩, ?_⟩
      · show 1 ≤ st.nextSerial + 1; omega
      · intro s hs
        simp only [sers, List.map_append, List.map_cons, List.map_nil, List.mem_append, List.mem_singleton] at hs
        show s < st.nextSerial + 1
        rcases hs with hs | rfl
        · have := h.below s hs; omega
        · omega
      · simp only [sers, List.map_append, List.map_cons, List.map_nil]
        rw [List.nodup_append]
        refine ⟨h.nodup, by simp, ?_⟩
        intro a ha b hb
        simp only [List.mem_singleton] at hb
        subst hb
        have := h.below a ha
        omega
      · intro s hs
        have hf := h.failed s hs
        refine ⟨by show s < st.nextSerial + 1; omega, ?_⟩
        simp only [sers, List.map_append, List.map_cons, List.map_nil, List.mem_append, List.mem_singleton]
        rintro (hm | rfl)
        · exact hf.2 hm
        · omega
      · rw [next_of_key hk]; simp [takes]
  | sendPreset s f n => cases hp
  | sendFail =>
    simp only [step, sendFail]
    split
    · exact ⟨h, by simp [takes]⟩
    · have hnw := nextSerial_nowrap (n := st.nextSerial) (by simpa [takes] using hw)
      rw [hnw]
      dsimp only
      refine ⟨⟨by show 1 ≤ st.nextSerial + 1; omega, ?_, h.nodup, ?_⟩, by simp [takes]⟩
      · intro s hs
        have := h.below s hs
        show s < st.nextSerial + 1; omega
      · intro s hs
        simp only [Option.some.injEq] at hs
        subst hs
        refine ⟨by show st.nextSerial < st.nextSerial + 1; omega, ?_⟩
        intro hm
        have := h.below _ hm
        omega
  | retry f n =>
    simp only [step, retry]
    cases hfs : st.failedSerial with
    | none => exact ⟨h, by simp [takes]⟩
    | some s =>
      dsimp only
      unfold sendPreset
      dsimp only
      split
      · refine ⟨⟨h.pos, h.below, h.nodup, by intro s' hs'; cases hs'⟩, by simp [takes]⟩
      · have hf := h.failed s hfs
        have hk := key_settle ({ st with failedSerial := none, calls := st.calls ++ [(Call.mk s f f true true n none 0 false)] } : State)
        refine ⟨serInv_of_key hk ⟨h.pos, ?_, ?_, by intro s' hs'; cases hs'⟩, ?_⟩
        · intro x hx
          simp only [sers, List.map_append, List.map_cons, List.map_nil, List.mem_append, List.mem_singleton] at hx
          rcases hx with hx | rfl
          · exact h.below x hx
          · exact hf.1
        · simp only [sers, List.map_append, List.map_cons, List.map_nil]
          rw [List.nodup_append]
          refine ⟨h.nodup, by simp, ?_⟩
          intro a ha b hb
          simp only [List.mem_singleton] at hb
          subst hb
          intro e
          exact hf.2 (e ▸ ha)
        · rw [next_of_key hk]; simp [takes]
  | peer rs tag => exact ⟨serInv_of_key (st := st) (st' := step st (.peer rs tag)) rfl h, by simp [step, takes]⟩
  | pump => exact ⟨serInv_of_key (key_pump st) h, by show _ ≤ _; rw [show (step st (.pump)).nextSerial = st.nextSerial from next_of_key (key_pump st)]; simp [takes]⟩
  | dispatch => exact ⟨serInv_of_key (key_dispatch st) h, by show _ ≤ _; rw [show (step st (.dispatch)).nextSerial = st.nextSerial from next_of_key (key_dispatch st)]; simp [takes]⟩
  | fire i => exact ⟨serInv_of_key (key_fire st i) h, by show _ ≤ _; rw [show (step st (.fire i)).nextSerial = st.nextSerial from next_of_key (key_fire st i)]; simp [takes]⟩
  | cancel i => exact ⟨serInv_of_key (key_cancel st i) h, by show _ ≤ _; rw [show (step st (.cancel i)).nextSerial = st.nextSerial from next_of_key (key_cancel st i)]; simp [takes]⟩
  | block i => exact ⟨serInv_of_key (key_block st i) h, by show _ ≤ _; rw [show (step st (.block i)).nextSerial = st.nextSerial from next_of_key (key_block st i)]; simp [takes]⟩
  | dispatchBlock i => exact ⟨serInv_of_key (key_dispatchBlock st i) h, by show _ ≤ _; rw [show (step st (.dispatchBlock i)).nextSerial = st.nextSerial from next_of_key (key_dispatchBlock st i)]; simp [takes]⟩
  | closePeer => exact ⟨serInv_of_key (st := st) (st' := step st .closePeer) rfl h, by simp [step, takes]⟩

def totalTakes (h : List Ev) : Nat := (h.map takes).sum

theorem serInv_foldl : ∀ (h : List Ev) (st : State), SerInv st → (∀ ev ∈ h, noPreset ev = true) →
    st.nextSerial + totalTakes h < SERIAL_MOD → SerInv (h.foldl step st)
  | [], _, hs, _, _ => hs
  | ev :: evs, st, hs, hp, hw => by
    simp only [List.foldl_cons]
    have hw' : st.nextSerial + takes ev + totalTakes evs < SERIAL_MOD := by
      simp only [totalTakes, List.map_cons, List.sum_cons] at hw ⊢; omega
    obtain ⟨h1, h2⟩ := serInv_step st ev hs (hp ev List.mem_cons_self) (by omega)
    exact serInv_foldl evs _ h1 (fun e he => hp e (List.mem_cons_of_mem _ he)) (by omega)

end Dbus.Proofs.PC
