import Dbus.Model.Auth
import Dbus.Proofs.AuthB
namespace Dbus.Proofs.Auth
open Dbus Dbus.Model Dbus.Model.Auth

theorem findMech_permits {env : Env} {name : Bytes} {m : Mech} (h : findMech env name = some m) :
    env.permits m.name = true ∧ m.name = name := by
  unfold findMech at h
  split at h
  · rename_i hp
    have := List.find?_some h
    simp at this
    exact ⟨by rw [this]; exact hp, this⟩
  · simp at h

theorem mechData_inv (env : Env) (s : S) (m : Mech) (data : Bytes)
    (hm : s.mech = some m) (hp : env.permits m.name = true) (ha : s.authorized = {})
    (hf : s.failures < MAX_FAILURES)
    (hcase : (s.cookieId = none ∧ s.desired = {}) ∨
             (m = .cookie ∧ s.cookieId.isSome ∧ s.desired = { uid := some env.selfUid })) :
    Inv env (mechData env s m data) := by
  unfold mechData
  cases m with
  | external =>
    rcases hcase with ⟨hc, hd⟩ | ⟨h, _, _⟩
    · exact externalData_inv env s data hm hp ha hd hc hf
    · cases h
  | anonymous =>
    rcases hcase with ⟨hc, _⟩ | ⟨h, _, _⟩
    · exact anonymousData_inv env s data hm hp ha hc hf
    · cases h
  | cookie =>
    dsimp only
    unfold cookieData
    rcases hcase with ⟨hc, hd⟩ | ⟨_, hc, hd⟩
    · simp only [hc]; exact cookieFirst_inv env s data hm hp ha hd hf
    · cases hid : s.cookieId with
      | none => simp [hid] at hc
      | some id => exact cookieSecond_inv env s id data hm hp ha hd hf

/-- a reply that changes nothing but the outgoing buffer keeps the invariant -/
theorem say_inv {env : Env} {s : S} (h : Inv env s) (b : Bytes) : Inv env (say s b) :=
  ⟨h.auth, h.data, h.begun, h.cookie, h.fails⟩

theorem processData_inv (env : Env) (s : S) (m : Mech) (args : Bytes) (hi : Inv env s)
    (hm : s.mech = some m) (hp : env.permits m.name = true) (ha : s.authorized = {})
    (hf : s.failures < MAX_FAILURES)
    (hcase : (s.cookieId = none ∧ s.desired = {}) ∨
             (m = .cookie ∧ s.cookieId.isSome ∧ s.desired = { uid := some env.selfUid })) :
    Inv env (processData env s m args) := by
  unfold processData
  split
  · rename_i d n _
    split
    · exact say_inv hi _
    · exact mechData_inv env s m d hm hp ha hf hcase

theorem setMech_inv {env : Env} {s : S} (h : Inv env s) (hph : s.phase = .waitingForAuth) (m : Option Mech) :
    Inv env { s with mech := m } := by
  obtain ⟨a1, a2, a3, a4, a5⟩ := h.auth hph
  refine ⟨fun _ => ⟨a1, a2, a3, a4, a5⟩, fun h' => ?_, fun h' => ?_, fun h' => ?_, h.fails⟩
  · simp [hph] at h'
  · simp [hph] at h'
  · simp [a4] at h'

theorem handleAuth_inv (env : Env) (s : S) (args : Bytes) (hi : Inv env s) (hph : s.phase = .waitingForAuth) :
    Inv env (handleAuth env s args) := by
  have hf : s.failures < MAX_FAILURES := hi.fails.2 (by simp [hph])
  obtain ⟨a1, a2, a3, a4, a5⟩ := hi.auth hph
  unfold handleAuth
  split
  · exact sendRejected_inv env s hi.cookie hf
  · dsimp only
    split
    · rename_i m hfm
      have := findMech_permits hfm
      exact processData_inv env _ m _ (setMech_inv hi hph _) rfl this.1 a1 hf (Or.inl ⟨a4, a2⟩)
    · exact sendRejected_inv env _ (by simp [a4]) hf

theorem waitingForAuth_inv (env : Env) (s : S) (c : Cmd) (args : Bytes) (hi : Inv env s)
    (hph : s.phase = .waitingForAuth) : Inv env (waitingForAuth env s c args) := by
  have hf : s.failures < MAX_FAILURES := hi.fails.2 (by simp [hph])
  unfold waitingForAuth
  split
  · exact handleAuth_inv env s args hi hph
  · exact say_inv hi _
  · exact say_inv hi _
  · exact ⟨fun h => by simp at h, fun h => by simp at h, fun h => by simp at h, hi.cookie, ⟨hi.fails.1, fun h => by simp at h⟩⟩
  · exact sendRejected_inv env s hi.cookie hf
  · exact say_inv hi _
  · exact say_inv hi _

theorem waitingForData_inv (env : Env) (s : S) (c : Cmd) (args : Bytes) (hi : Inv env s)
    (hph : s.phase = .waitingForData) : Inv env (waitingForData env s c args) := by
  have hf : s.failures < MAX_FAILURES := hi.fails.2 (by simp [hph])
  obtain ⟨ha, hcases⟩ := hi.data hph
  unfold waitingForData
  split
  · exact say_inv hi _
  · exact sendRejected_inv env s hi.cookie hf
  · exact sendRejected_inv env s hi.cookie hf
  · split
    · rename_i m hm
      rcases hcases with ⟨hm', hp, _, hd, hc⟩ | ⟨hm', hp, hc, hd⟩
      · rw [hm'] at hm; cases hm
        exact processData_inv env s _ args hi hm' hp ha hf (Or.inl ⟨hc, hd⟩)
      · rw [hm'] at hm; cases hm
        exact processData_inv env s _ args hi hm' hp ha hf (Or.inr ⟨rfl, hc, hd⟩)
    · exact hi
  · exact ⟨fun h => by simp at h, fun h => by simp at h, fun h => by simp at h, hi.cookie, ⟨hi.fails.1, fun h => by simp at h⟩⟩
  · exact say_inv hi _
  · exact say_inv hi _

theorem waitingForBegin_inv (env : Env) (s : S) (c : Cmd) (args : Bytes) (hi : Inv env s)
    (hph : s.phase = .waitingForBegin) : Inv env (waitingForBegin env s c args) := by
  have hf : s.failures < MAX_FAILURES := hi.fails.2 (by simp [hph])
  have he := hi.begun (Or.inl hph)
  unfold waitingForBegin
  split
  · exact say_inv hi _
  · exact say_inv hi _
  · exact ⟨fun h => by simp at h, fun h => by simp at h, fun _ => he, hi.cookie, ⟨hi.fails.1, fun _ => hf⟩⟩
  · split
    · exact ⟨fun h => by simp at h, fun h => by simp at h, fun _ => he, hi.cookie, ⟨hi.fails.1, fun _ => hf⟩⟩
    · exact say_inv hi _
  · exact sendRejected_inv env s hi.cookie hf
  · exact sendRejected_inv env s hi.cookie hf
  · exact say_inv hi _

theorem handleLine_inv (env : Env) (s : S) (line : Bytes) (hi : Inv env s) :
    Inv env (handleLine env s line) := by
  unfold handleLine
  split
  · exact say_inv hi _
  · dsimp only
    split
    · rename_i h; exact waitingForAuth_inv env s _ _ hi h
    · rename_i h; exact waitingForData_inv env s _ _ hi h
    · rename_i h; exact waitingForBegin_inv env s _ _ hi h
    · exact hi

end Dbus.Proofs.Auth
