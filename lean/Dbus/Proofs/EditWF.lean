import Dbus.Proofs.Endian
/-
  Header edits keep a well-formed message well-formed (C12).

  1. Encoded lengths and well-formedness of a value depend on the offset it is placed at only
     through the offset modulo 8 (every alignment divides 8).
  2. A header field is a struct `(yv)`: it pads itself to a multiple of 8, so whether a field is
     well-formed does not depend on where in the field array it stands.
  3. The field list after `set` / `delete` / `removeUnknown` consists of fields that were there
     and the new field; the per-field checks of the loader, the mandatory-field check, the
     SIGNATURE and UNIX_FDS look-ups are stable under these edits.
  4. The field array does not grow when fields are removed.
-/
namespace Dbus.Proofs.Message
open Dbus Dbus.Spec Dbus.Model Dbus.Proofs.Wire

/-! ### 1. offsets matter modulo 8 only -/

theorem bty_align_cases (b : BTy) : b.align = 1 ∨ b.align = 2 ∨ b.align = 4 ∨ b.align = 8 := by
  cases b <;> simp [BTy.align]

theorem ty_align_cases (t : Ty) : t.align = 1 ∨ t.align = 2 ∨ t.align = 4 ∨ t.align = 8 := by
  cases t with
  | basic b => exact bty_align_cases b
  | variant => simp [Ty.align]
  | array _ => simp [Ty.align]
  | struct _ => simp [Ty.align]
  | dict _ _ => simp [Ty.align]

theorem padLen_congr {off off' a : Nat} (h : off % 8 = off' % 8)
    (ha : a = 1 ∨ a = 2 ∨ a = 4 ∨ a = 8) : padLen off a = padLen off' a := by
  unfold padLen
  rcases ha with rfl | rfl | rfl | rfl <;> omega

theorem encode_variant_length (e : Endian) (t : Ty) (v : Val) (off : Nat) :
    (encode e off (.variant t v)).length =
      (t.print.length + 2) + (padLen (off + (t.print.length + 2)) t.align +
        (encode e (off + (t.print.length + 2) + padLen (off + (t.print.length + 2)) t.align) v).length) := by
  simp only [encode, List.length_append, List.length_cons, List.length_nil, pad_length]

mutual
theorem encode_length_mod8 (e : Endian) : ∀ (v : Val) (off off' : Nat), off % 8 = off' % 8 →
    (encode e off v).length = (encode e off' v).length
  | .fixed b n, off, off', h => by
    have h0 := padLen_congr h (bty_align_cases b)
    simp only [encode, List.length_append, pad_length, encNat_length]
    omega
  | .str b s, off, off', h => by
    have h0 : padLen off 4 = padLen off' 4 := padLen_congr h (by simp)
    simp only [encode]
    split
    · rfl
    · simp only [List.length_append, pad_length, encNat_length]
      omega
  | .variant t v, off, off', h => by
    have h1 : (off + (t.print.length + 2)) % 8 = (off' + (t.print.length + 2)) % 8 := by omega
    have h2 := padLen_congr h1 (ty_align_cases t)
    have h3 := encode_length_mod8 e v (off + (t.print.length + 2) + padLen (off + (t.print.length + 2)) t.align)
      (off' + (t.print.length + 2) + padLen (off' + (t.print.length + 2)) t.align) (by omega)
    rw [encode_variant_length, encode_variant_length]
    omega
  | .array et vs, off, off', h => by
    have h0 : padLen off 4 = padLen off' 4 := padLen_congr h (by simp)
    have h1 : (off + padLen off 4 + 4) % 8 = (off' + padLen off' 4 + 4) % 8 := by omega
    have h2 := padLen_congr h1 (ty_align_cases et)
    have h3 := encodeList_length_mod8 e vs (off + padLen off 4 + 4 + padLen (off + padLen off 4 + 4) et.align)
      (off' + padLen off' 4 + 4 + padLen (off' + padLen off' 4 + 4) et.align) (by omega)
    simp only [encode, List.length_append, pad_length, encNat_length]
    omega
  | .struct vs, off, off', h => by
    have h0 : padLen off 8 = padLen off' 8 := padLen_congr h (by simp)
    have h3 := encodeList_length_mod8 e vs (off + padLen off 8) (off' + padLen off' 8) (by omega)
    simp only [encode, List.length_append, pad_length]
    omega
  | .dict k vt es, off, off', h => by
    have h0 : padLen off 4 = padLen off' 4 := padLen_congr h (by simp)
    have h1 : (off + padLen off 4 + 4) % 8 = (off' + padLen off' 4 + 4) % 8 := by omega
    have h2 : padLen (off + padLen off 4 + 4) 8 = padLen (off' + padLen off' 4 + 4) 8 := padLen_congr h1 (by simp)
    have h3 := encodeEntries_length_mod8 e es (off + padLen off 4 + 4 + padLen (off + padLen off 4 + 4) 8)
      (off' + padLen off' 4 + 4 + padLen (off' + padLen off' 4 + 4) 8) (by omega)
    simp only [encode, List.length_append, pad_length, encNat_length]
    omega
theorem encodeList_length_mod8 (e : Endian) : ∀ (vs : List Val) (off off' : Nat), off % 8 = off' % 8 →
    (encodeList e off vs).length = (encodeList e off' vs).length
  | [], _, _, _ => rfl
  | v :: vs, off, off', h => by
    have h1 := encode_length_mod8 e v off off' h
    have h2 := encodeList_length_mod8 e vs (off + (encode e off v).length) (off' + (encode e off' v).length) (by omega)
    simp only [encodeList, List.length_append]
    omega
theorem encodeEntries_length_mod8 (e : Endian) : ∀ (es : List (Val × Val)) (off off' : Nat), off % 8 = off' % 8 →
    (encodeEntries e off es).length = (encodeEntries e off' es).length
  | [], _, _, _ => rfl
  | (k, v) :: es, off, off', h => by
    have h0 : padLen off 8 = padLen off' 8 := padLen_congr h (by simp)
    have hk := encode_length_mod8 e k (off + padLen off 8) (off' + padLen off' 8) (by omega)
    have hv := encode_length_mod8 e v (off + padLen off 8 + (encode e (off + padLen off 8) k).length)
      (off' + padLen off' 8 + (encode e (off' + padLen off' 8) k).length) (by omega)
    have hr := encodeEntries_length_mod8 e es
      (off + padLen off 8 + (encode e (off + padLen off 8) k).length +
        (encode e (off + padLen off 8 + (encode e (off + padLen off 8) k).length) v).length)
      (off' + padLen off' 8 + (encode e (off' + padLen off' 8) k).length +
        (encode e (off' + padLen off' 8 + (encode e (off' + padLen off' 8) k).length) v).length) (by omega)
    simp only [encodeEntries, List.length_append, pad_length]
    omega
end

mutual
theorem wfVal_mod8 (e : Endian) : ∀ (v : Val) (t : Ty) (d off off' : Nat), off % 8 = off' % 8 →
    WFVal e d off v t → WFVal e d off' v t
  | .fixed b n, .basic b', d, off, off', _, h => by simpa [WFVal] using h
  | .str b s, .basic b', d, off, off', _, h => by simpa [WFVal] using h
  | .variant t v, .variant, d, off, off', hm, h => by
    simp only [WFVal] at h ⊢
    have h1 : (off + (t.print.length + 2)) % 8 = (off' + (t.print.length + 2)) % 8 := by omega
    have h2 := padLen_congr h1 (ty_align_cases t)
    exact ⟨h.1, h.2.1, h.2.2.1, h.2.2.2.1, wfVal_mod8 e v t _ _ _ (by omega) h.2.2.2.2⟩
  | .array et vs, .array et', d, off, off', hm, h => by
    simp only [WFVal] at h ⊢
    have h0 : padLen off 4 = padLen off' 4 := padLen_congr hm (by simp)
    have h1 : (off + padLen off 4 + 4) % 8 = (off' + padLen off' 4 + 4) % 8 := by omega
    have h2 := padLen_congr h1 (ty_align_cases et)
    have h3 : (off + padLen off 4 + 4 + padLen (off + padLen off 4 + 4) et.align) % 8 =
        (off' + padLen off' 4 + 4 + padLen (off' + padLen off' 4 + 4) et.align) % 8 := by omega
    refine ⟨h.1, ?_, wfElems_mod8 e vs et _ _ _ h3 h.2.2⟩
    rw [← encodeList_length_mod8 e vs _ _ h3]; exact h.2.1
  | .struct vs, .struct ts, d, off, off', hm, h => by
    simp only [WFVal] at h ⊢
    have h0 : padLen off 8 = padLen off' 8 := padLen_congr hm (by simp)
    exact ⟨h.1, h.2.1, wfFields_mod8 e vs ts _ _ _ (by omega) h.2.2⟩
  | .dict k vt es, .dict k' vt', d, off, off', hm, h => by
    simp only [WFVal] at h ⊢
    have h0 : padLen off 4 = padLen off' 4 := padLen_congr hm (by simp)
    have h1 : (off + padLen off 4 + 4) % 8 = (off' + padLen off' 4 + 4) % 8 := by omega
    have h2 : padLen (off + padLen off 4 + 4) 8 = padLen (off' + padLen off' 4 + 4) 8 := padLen_congr h1 (by simp)
    have h3 : (off + padLen off 4 + 4 + padLen (off + padLen off 4 + 4) 8) % 8 =
        (off' + padLen off' 4 + 4 + padLen (off' + padLen off' 4 + 4) 8) % 8 := by omega
    refine ⟨h.1, h.2.1, ?_, wfEntries_mod8 e es k vt _ _ _ h3 h.2.2.2⟩
    rw [← encodeEntries_length_mod8 e es _ _ h3]; exact h.2.2.1
  | .fixed _ _, .variant, _, _, _, _, h | .fixed _ _, .array _, _, _, _, _, h | .fixed _ _, .struct _, _, _, _, _, h
  | .fixed _ _, .dict _ _, _, _, _, _, h => by simp [WFVal] at h
  | .str _ _, .variant, _, _, _, _, h | .str _ _, .array _, _, _, _, _, h | .str _ _, .struct _, _, _, _, _, h
  | .str _ _, .dict _ _, _, _, _, _, h => by simp [WFVal] at h
  | .variant _ _, .basic _, _, _, _, _, h | .variant _ _, .array _, _, _, _, _, h | .variant _ _, .struct _, _, _, _, _, h
  | .variant _ _, .dict _ _, _, _, _, _, h => by simp [WFVal] at h
  | .array _ _, .basic _, _, _, _, _, h | .array _ _, .variant, _, _, _, _, h | .array _ _, .struct _, _, _, _, _, h
  | .array _ _, .dict _ _, _, _, _, _, h => by simp [WFVal] at h
  | .struct _, .basic _, _, _, _, _, h | .struct _, .variant, _, _, _, _, h | .struct _, .array _, _, _, _, _, h
  | .struct _, .dict _ _, _, _, _, _, h => by simp [WFVal] at h
  | .dict _ _ _, .basic _, _, _, _, _, h | .dict _ _ _, .variant, _, _, _, _, h | .dict _ _ _, .array _, _, _, _, _, h
  | .dict _ _ _, .struct _, _, _, _, _, h => by simp [WFVal] at h
theorem wfFields_mod8 (e : Endian) : ∀ (vs : List Val) (ts : List Ty) (d off off' : Nat), off % 8 = off' % 8 →
    WFFields e d off vs ts → WFFields e d off' vs ts
  | [], [], _, _, _, _, _ => trivial
  | v :: vs, t :: ts, d, off, off', hm, h => by
    simp only [WFFields] at h ⊢
    have hl := encode_length_mod8 e v off off' hm
    exact ⟨wfVal_mod8 e v t d off off' hm h.1, wfFields_mod8 e vs ts d _ _ (by omega) h.2⟩
  | [], _ :: _, _, _, _, _, h => by simp [WFFields] at h
  | _ :: _, [], _, _, _, _, h => by simp [WFFields] at h
theorem wfElems_mod8 (e : Endian) : ∀ (vs : List Val) (t : Ty) (d off off' : Nat), off % 8 = off' % 8 →
    WFElems e d off vs t → WFElems e d off' vs t
  | [], _, _, _, _, _, _ => trivial
  | v :: vs, t, d, off, off', hm, h => by
    simp only [WFElems] at h ⊢
    have hl := encode_length_mod8 e v off off' hm
    exact ⟨h.1, wfVal_mod8 e v t d off off' hm h.2.1, wfElems_mod8 e vs t d _ _ (by omega) h.2.2⟩
theorem wfEntries_mod8 (e : Endian) : ∀ (es : List (Val × Val)) (kt : BTy) (vt : Ty) (d off off' : Nat),
    off % 8 = off' % 8 → WFEntries e d off es kt vt → WFEntries e d off' es kt vt
  | [], _, _, _, _, _, _, _ => trivial
  | (k, v) :: es, kt, vt, d, off, off', hm, h => by
    simp only [WFEntries] at h ⊢
    have h0 : padLen off 8 = padLen off' 8 := padLen_congr hm (by simp)
    have hk := encode_length_mod8 e k (off + padLen off 8) (off' + padLen off' 8) (by omega)
    have hv := encode_length_mod8 e v (off + padLen off 8 + (encode e (off + padLen off 8) k).length)
      (off' + padLen off' 8 + (encode e (off' + padLen off' 8) k).length) (by omega)
    exact ⟨h.1, wfVal_mod8 e k _ d _ _ (by omega) h.2.1, wfVal_mod8 e v vt d _ _ (by omega) h.2.2.1,
      wfEntries_mod8 e es kt vt d _ _ (by omega) h.2.2.2⟩
end

/-! ### 2. a header field is well-formed wherever it stands -/

/-- the type of a header field, `(yv)` -/
abbrev FIELD_TY : Ty := .struct [.basic .byte, .variant]

theorem align8_mod (off : Nat) : (off + padLen off 8) % 8 = 0 := by
  unfold padLen; omega

theorem wfVal_struct_off (e : Endian) (d off off' : Nat) (vs : List Val) (ts : List Ty)
    (h : WFVal e d off (.struct vs) (.struct ts)) : WFVal e d off' (.struct vs) (.struct ts) := by
  simp only [WFVal] at h ⊢
  exact ⟨h.1, h.2.1, wfFields_mod8 e vs ts _ _ _ (by rw [align8_mod, align8_mod]) h.2.2⟩

theorem encode_struct_length (e : Endian) (off : Nat) (vs : List Val) :
    (encode e off (.struct vs)).length = padLen off 8 + (encodeList e 0 vs).length := by
  simp only [encode, List.length_append, pad_length]
  rw [encodeList_length_mod8 e vs (off + padLen off 8) 0 (by rw [align8_mod])]

/-- one header field is well-formed (as an element of the field array, wherever it stands) -/
def FieldWF (e : Endian) (f : Field) : Prop := WFVal e 1 0 (fieldVal f) FIELD_TY

theorem wfElems_fields_iff (e : Endian) : ∀ (fs : List Field) (off : Nat),
    WFElems e 1 off (fs.map fieldVal) FIELD_TY ↔ ∀ f ∈ fs, FieldWF e f
  | [], off => by simp [WFElems]
  | f :: fs, off => by
    simp only [List.map_cons, WFElems, List.mem_cons, forall_eq_or_imp]
    rw [wfElems_fields_iff e fs]
    constructor
    · rintro ⟨_, h1, h2⟩
      exact ⟨wfVal_struct_off e 1 off 0 _ _ h1, h2⟩
    · rintro ⟨h1, h2⟩
      exact ⟨fun _ => by unfold MAX_VALUE_DEPTH; omega, wfVal_struct_off e 1 0 off _ _ h1, h2⟩

/-- the field array as a whole: its byte length within the array limit, every field well-formed -/
theorem wfVal_fieldArray_iff (e : Endian) (X : Nat) (fs : List Field) :
    WFVal e 0 X (.array FIELD_TY (fs.map fieldVal)) (.array FIELD_TY) ↔
      fieldsLen e fs ≤ MAX_ARRAY_LENGTH ∧ ∀ f ∈ fs, FieldWF e f := by
  simp only [WFVal, true_and]
  rw [wfElems_fields_iff]
  have hm : (X + padLen X 4 + 4 + padLen (X + padLen X 4 + 4) FIELD_TY.align) % 8 = 16 % 8 := by
    show (X + padLen X 4 + 4 + padLen (X + padLen X 4 + 4) 8) % 8 = 16 % 8
    rw [align8_mod]
  unfold fieldsLen
  rw [encodeList_length_mod8 e _ _ 16 hm]

/-- the header of a message is well-formed iff its six fixed values are (they do not depend on
    the fields) and the field array is -/
theorem header_wf_fields (e : Endian) (mt fl ver bl ser : Nat) (fs fs' : List Field)
    (h : WFFields e 0 0 (headerValues e mt fl ver bl ser fs) headerTypes)
    (hl : fieldsLen e fs' ≤ MAX_ARRAY_LENGTH) (hf : ∀ f ∈ fs', FieldWF e f) :
    WFFields e 0 0 (headerValues e mt fl ver bl ser fs') headerTypes := by
  simp only [headerValues, headerTypes, WFFields] at h ⊢
  refine ⟨h.1, h.2.1, h.2.2.1, h.2.2.2.1, h.2.2.2.2.1, h.2.2.2.2.2.1, ?_, trivial⟩
  exact (wfVal_fieldArray_iff e _ fs').2 ⟨hl, hf⟩

theorem header_wf_fields_of (e : Endian) (mt fl ver bl ser : Nat) (fs : List Field)
    (h : WFFields e 0 0 (headerValues e mt fl ver bl ser fs) headerTypes) :
    fieldsLen e fs ≤ MAX_ARRAY_LENGTH ∧ ∀ f ∈ fs, FieldWF e f := by
  simp only [headerValues, headerTypes, WFFields] at h
  exact (wfVal_fieldArray_iff e _ fs).1 h.2.2.2.2.2.2.1

/-! ### 3. the loader's per-field checks, as a property of each field and of the list of codes -/

/-- what the per-field loop of the loader demands of one field -/
def FieldOK (f : Field) : Prop :=
  f.code ≠ 0 ∧ (f.code ≤ FIELD_LAST →
    ∃ b, fieldType f.code = some b ∧ f.ty = .basic b ∧ fieldContentOK true f.code f.val = true)

/-- the codes of the known fields, in order -/
def knownCodes (fs : List Field) : List Nat := (fs.filter fun f => decide (f.code ≤ FIELD_LAST)).map (·.code)

theorem checkFields_iff : ∀ (fs : List Field) (seen : List Nat),
    checkFields true fs seen = true ↔
      (∀ f ∈ fs, FieldOK f) ∧ (knownCodes fs).Nodup ∧ ∀ c ∈ knownCodes fs, c ∉ seen
  | [], seen => by simp [checkFields, knownCodes]
  | f :: fs, seen => by
    unfold checkFields
    by_cases h0 : f.code = 0
    · simp [h0, FieldOK]
    · simp only [h0, if_false]
      by_cases hl : FIELD_LAST < f.code
      · have hnl : ¬ f.code ≤ FIELD_LAST := by omega
        simp only [hl, if_true]
        rw [checkFields_iff fs seen]
        simp [knownCodes, List.filter_cons, hnl, FieldOK, h0]
      · have hle : f.code ≤ FIELD_LAST := by omega
        simp only [hl, if_false]
        have hk : knownCodes (f :: fs) = f.code :: knownCodes fs := by
          simp [knownCodes, List.filter_cons, hle]
        rw [hk]
        cases hft : fieldType f.code with
        | none =>
          simp only [List.mem_cons, forall_eq_or_imp, FieldOK, hft]
          simp [hle]
        | some b =>
          cases hty : f.ty with
          | basic b' =>
            simp only
            by_cases hb : b = b'
            · subst hb
              simp only [ne_eq, not_true_eq_false, if_false]
              by_cases hs : seen.contains f.code = true
              · simp only [hs, if_true]
                have : f.code ∈ seen := by simpa using hs
                simp [this]
              · simp only [hs, if_false]
                have hns : f.code ∉ seen := by simpa using hs
                by_cases hc : fieldContentOK true f.code f.val = true
                · simp only [hc, Bool.not_true, Bool.false_eq_true, ↓reduceIte]
                  rw [checkFields_iff fs (f.code :: seen)]
                  simp only [List.mem_cons, forall_eq_or_imp, FieldOK, hft, hty, List.nodup_cons, not_or]
                  constructor
                  · rintro ⟨h1, h2, h3⟩
                    refine ⟨⟨⟨h0, fun _ => ⟨b, rfl, rfl, hc⟩⟩, h1⟩, ⟨?_, h2⟩, hns, ?_⟩
                    · intro hm; exact (h3 _ hm).1 rfl
                    · intro c hm; exact (h3 c hm).2
                  · rintro ⟨⟨_, h1⟩, ⟨hnm, h2⟩, _, h3⟩
                    refine ⟨h1, h2, ?_⟩
                    intro c hm
                    exact ⟨fun hcf => hnm (hcf ▸ hm), h3 c hm⟩
                · simp only [hc, Bool.not_false, if_true]
                  simp only [List.mem_cons, forall_eq_or_imp, FieldOK, hft, hty]
                  constructor
                  · intro h; cases h
                  · rintro ⟨⟨⟨_, h1⟩, _⟩, _⟩
                    obtain ⟨b', hb1, hb2, hb3⟩ := h1 hle
                    exact absurd hb3 hc
            · simp only [ne_eq, hb, not_false_eq_true, if_true]
              simp only [List.mem_cons, forall_eq_or_imp, FieldOK, hft, hty]
              constructor
              · intro h; cases h
              · rintro ⟨⟨⟨_, h1⟩, _⟩, _⟩
                obtain ⟨b'', hb1, hb2, _⟩ := h1 hle
                simp only [Option.some.injEq] at hb1
                simp only [Ty.basic.injEq] at hb2
                exact absurd (hb1.trans hb2.symm) hb
          | variant | array _ | struct _ | dict _ _ =>
            simp only [List.mem_cons, forall_eq_or_imp, FieldOK, hft, hty]
            constructor
            · intro h; cases h
            · rintro ⟨⟨⟨_, h1⟩, _⟩, _⟩
              obtain ⟨b'', _, hb2, _⟩ := h1 hle
              cases hb2

/-! the three edits on lists -/

theorem mem_setFieldList : ∀ (fs : List Field) (f g : Field), g ∈ setFieldList fs f → g ∈ fs ∨ g = f
  | [], f, g, h => by simp [setFieldList] at h; exact Or.inr h
  | x :: fs, f, g, h => by
    unfold setFieldList at h
    split at h
    · rcases List.mem_cons.1 h with rfl | h
      · exact Or.inr rfl
      · exact Or.inl (List.mem_cons_of_mem _ h)
    · rcases List.mem_cons.1 h with rfl | h
      · exact Or.inl (by simp)
      · rcases mem_setFieldList fs f g h with h | h
        · exact Or.inl (List.mem_cons_of_mem _ h)
        · exact Or.inr h

theorem deleteFieldList_sublist : ∀ (fs : List Field) (c : Nat), (deleteFieldList fs c).Sublist fs
  | [], _ => by simp [deleteFieldList]
  | x :: fs, c => by
    unfold deleteFieldList
    split
    · exact List.sublist_cons_self x fs
    · exact (deleteFieldList_sublist fs c).cons_cons x

theorem removeUnknownList_sublist (fs : List Field) : (removeUnknownList fs).Sublist fs :=
  List.filter_sublist

theorem knownCodes_sublist {fs' fs : List Field} (h : fs'.Sublist fs) : (knownCodes fs').Sublist (knownCodes fs) :=
  (h.filter _).map _

/-- the codes of the known fields after a `set`: unchanged if the code was there, else one more at the end -/
theorem knownCodes_set : ∀ (fs : List Field) (f : Field), f.code ≤ FIELD_LAST →
    knownCodes (setFieldList fs f) = if f.code ∈ knownCodes fs then knownCodes fs else knownCodes fs ++ [f.code]
  | [], f, hf => by simp [setFieldList, knownCodes, hf]
  | x :: fs, f, hf => by
    unfold setFieldList
    by_cases hx : x.code = f.code
    · simp only [hx, if_true]
      have hxl : x.code ≤ FIELD_LAST := by omega
      simp [knownCodes, List.filter_cons, hf, hxl, hx]
    · simp only [hx, if_false]
      have ih := knownCodes_set fs f hf
      by_cases hxl : x.code ≤ FIELD_LAST
      · have e1 : knownCodes (x :: setFieldList fs f) = x.code :: knownCodes (setFieldList fs f) := by
          simp [knownCodes, List.filter_cons, hxl]
        have e2 : knownCodes (x :: fs) = x.code :: knownCodes fs := by simp [knownCodes, List.filter_cons, hxl]
        rw [e1, e2, ih]
        have : (f.code ∈ x.code :: knownCodes fs) ↔ f.code ∈ knownCodes fs := by
          simp only [List.mem_cons]
          constructor
          · rintro (h | h)
            · exact absurd h.symm hx
            · exact h
          · exact Or.inr
        by_cases hm : f.code ∈ knownCodes fs
        · simp [hm]
        · simp [hm, Ne.symm hx]
      · have e1 : knownCodes (x :: setFieldList fs f) = knownCodes (setFieldList fs f) := by
          simp [knownCodes, List.filter_cons, hxl]
        have e2 : knownCodes (x :: fs) = knownCodes fs := by simp [knownCodes, List.filter_cons, hxl]
        rw [e1, e2, ih]

theorem checkFields_set (fs : List Field) (f : Field) (h : checkFields true fs [] = true)
    (hl : f.code ≤ FIELD_LAST) (hf : FieldOK f) : checkFields true (setFieldList fs f) [] = true := by
  rw [checkFields_iff] at h ⊢
  obtain ⟨h1, h2, _⟩ := h
  refine ⟨?_, ?_, by simp⟩
  · intro g hg
    rcases mem_setFieldList fs f g hg with hg | rfl
    · exact h1 g hg
    · exact hf
  · rw [knownCodes_set fs f hl]
    split
    · exact h2
    · rename_i hm
      rw [List.nodup_append]
      refine ⟨h2, by simp, ?_⟩
      intro a ha b hb
      simp only [List.mem_cons, List.not_mem_nil, or_false] at hb
      subst hb
      intro hab; subst hab; exact hm ha

theorem checkFields_sublist {fs' fs : List Field} (hs : fs'.Sublist fs) (h : checkFields true fs [] = true) :
    checkFields true fs' [] = true := by
  rw [checkFields_iff] at h ⊢
  exact ⟨fun g hg => h.1 g (hs.subset hg), h.2.1.sublist (knownCodes_sublist hs), by simp⟩

/-! the look-ups the other clauses of well-formedness use -/

theorem hasField_set (fs : List Field) (f : Field) (c : Nat) :
    hasField (setFieldList fs f) c = (hasField fs c || decide (f.code = c)) := by
  induction fs with
  | nil => simp [setFieldList, hasField]
  | cons x fs ih =>
    unfold setFieldList
    by_cases hx : x.code = f.code
    · simp only [hx, if_true]
      unfold hasField
      simp only [List.any_cons, hx]
      cases decide (f.code = c) <;> simp
    · simp only [hx, if_false]
      unfold hasField at ih ⊢
      simp only [List.any_cons, ih, Bool.or_assoc]

theorem mandatoryOK_set (mt : Nat) (fs : List Field) (f : Field) (h : mandatoryOK mt fs = true) :
    mandatoryOK mt (setFieldList fs f) = true := by
  unfold mandatoryOK at h ⊢
  simp only [hasField_set]
  split at h <;> rename_i h4
  · simp only [h4, if_true]; simp only [Bool.and_eq_true] at h ⊢; simp [h.1.1, h.1.2, h.2]
  · split at h <;> rename_i h1
    · simp only [h4, h1, if_true, if_false]; simp only [Bool.and_eq_true] at h ⊢; simp [h.1, h.2]
    · split at h <;> rename_i h3
      · simp only [h4, h1, h3, if_true, if_false]; simp only [Bool.and_eq_true] at h ⊢; simp [h.1, h.2]
      · split at h <;> rename_i h2
        · simp only [h4, h1, h3, h2, if_true, if_false]; simp [h]
        · simp only [h4, h1, h3, h2, if_false]

theorem hasField_removeUnknown (fs : List Field) (c : Nat) (hc : c ≤ FIELD_LAST) :
    hasField (removeUnknownList fs) c = hasField fs c := by
  unfold hasField removeUnknownList
  induction fs with
  | nil => rfl
  | cons x fs ih =>
    by_cases hx : x.code ≤ FIELD_LAST
    · rw [List.filter_cons_of_pos (by simpa using hx), List.any_cons, List.any_cons, ih]
    · rw [List.filter_cons_of_neg (by simpa using hx), List.any_cons, ih]
      have : ¬ x.code = c := by omega
      simp [this]

theorem mandatoryOK_removeUnknown (mt : Nat) (fs : List Field) :
    mandatoryOK mt (removeUnknownList fs) = mandatoryOK mt fs := by
  unfold mandatoryOK
  simp only [hasField_removeUnknown _ FIELD_INTERFACE (by decide), hasField_removeUnknown _ FIELD_PATH (by decide),
    hasField_removeUnknown _ FIELD_MEMBER (by decide), hasField_removeUnknown _ FIELD_ERROR_NAME (by decide),
    hasField_removeUnknown _ FIELD_REPLY_SERIAL (by decide)]

/-! ### 4. removing fields does not make the field array longer -/

/-- where a list of fields written from offset `off` ends -/
def fieldsEnd (e : Endian) (off : Nat) (fs : List Field) : Nat := off + (encodeList e off (fs.map fieldVal)).length

theorem fieldsEnd_nil (e : Endian) (off : Nat) : fieldsEnd e off [] = off := by simp [fieldsEnd, encodeList]

theorem fieldsEnd_cons (e : Endian) (off : Nat) (f : Field) (fs : List Field) :
    fieldsEnd e off (f :: fs) =
      fieldsEnd e (off + padLen off 8 + (encodeList e 0 [.fixed .byte f.code, .variant f.ty f.val]).length) fs := by
  have h1 : (encode e off (fieldVal f)).length =
      padLen off 8 + (encodeList e 0 [.fixed .byte f.code, .variant f.ty f.val]).length :=
    encode_struct_length e off [.fixed .byte f.code, .variant f.ty f.val]
  unfold fieldsEnd
  rw [List.map_cons]
  show off + (encode e off (fieldVal f) ++ encodeList e (off + (encode e off (fieldVal f)).length) (fs.map fieldVal)).length = _
  rw [List.length_append, h1]
  have h2 : off + (padLen off 8 + (encodeList e 0 [.fixed .byte f.code, .variant f.ty f.val]).length) =
      off + padLen off 8 + (encodeList e 0 [.fixed .byte f.code, .variant f.ty f.val]).length := by omega
  rw [h2]
  omega

theorem padLen8_mono {a b : Nat} (h : a ≤ b) : a + padLen a 8 ≤ b + padLen b 8 := by
  unfold padLen; omega

theorem fieldsEnd_mono (e : Endian) : ∀ (fs : List Field) (a b : Nat), a ≤ b → fieldsEnd e a fs ≤ fieldsEnd e b fs
  | [], a, b, h => by simpa [fieldsEnd_nil] using h
  | f :: fs, a, b, h => by
    rw [fieldsEnd_cons, fieldsEnd_cons]
    exact fieldsEnd_mono e fs _ _ (by have := padLen8_mono h; omega)

theorem fieldsEnd_ge (e : Endian) (fs : List Field) (a : Nat) : a ≤ fieldsEnd e a fs := by
  unfold fieldsEnd; omega

theorem fieldsEnd_sublist (e : Endian) {fs' fs : List Field} (h : fs'.Sublist fs) :
    ∀ off, fieldsEnd e off fs' ≤ fieldsEnd e off fs := by
  induction h with
  | slnil => intro off; exact Nat.le_refl _
  | cons x _ ih =>
    intro off
    rw [fieldsEnd_cons]
    exact Nat.le_trans (ih off) (fieldsEnd_mono e _ _ _ (by omega))
  | cons_cons x _ ih =>
    intro off
    rw [fieldsEnd_cons, fieldsEnd_cons]
    exact ih _

theorem fieldsLen_sublist (e : Endian) {fs' fs : List Field} (h : fs'.Sublist fs) :
    fieldsLen e fs' ≤ fieldsLen e fs := by
  have := fieldsEnd_sublist e h 16
  unfold fieldsEnd at this
  unfold fieldsLen
  omega

end Dbus.Proofs.Message
