import Dbus.Spec.Grammar
import Dbus.Model.Syntax
/-
  Helper lemmas for C16: characterisation of the scanning loops.
-/
namespace Dbus.Proofs
open Dbus Dbus.Spec Dbus.Model

theorem intercalate_cons_flatMap (e : Bytes) (els : List Bytes) :
    [DOT].intercalate (e :: els) = e ++ els.flatMap (DOT :: ·) := by
  induction els generalizing e with
  | nil => simp [List.intercalate]
  | cons e' els ih =>
    have := ih e'
    simp [List.intercalate, List.intersperse] at this ⊢
    exact this

/-- decomposition recognised by `scanRest`: a run of element characters, then any number of
    '.'-prefixed elements -/
def Decomp (ini chr : UInt8 → Bool) (s : Bytes) (t : Bytes) (els : List Bytes) : Prop :=
  (∀ x ∈ t, chr x = true) ∧ (∀ e ∈ els, IsElement ini chr e) ∧ s = t ++ els.flatMap (DOT :: ·)

section unfold
variable (ini chr : UInt8 → Bool)
theorem scanRest_nil (d : Bool) : scanRest ini chr [] d = some d := by
  rw [scanRest.eq_def]
theorem scanRest_dot_nil (d : Bool) : scanRest ini chr [DOT] d = none := by
  rw [scanRest.eq_def]; rfl
theorem scanRest_dot_cons (n : UInt8) (rest : Bytes) (d : Bool) :
    scanRest ini chr (DOT :: n :: rest) d = if ini n then scanRest ini chr rest true else none := by
  conv => lhs; rw [scanRest.eq_def]
  rfl
theorem scanRest_char (c : UInt8) (rest : Bytes) (d : Bool) (hc : c ≠ DOT) :
    scanRest ini chr (c :: rest) d = if chr c then scanRest ini chr rest d else none := by
  conv => lhs; rw [scanRest.eq_def]
  simp only [hc, if_false]
end unfold

section scan
variable {ini chr : UInt8 → Bool} (hdot : chr DOT = false)
include hdot

theorem scan_chars (t s : Bytes) (d : Bool) (ht : ∀ x ∈ t, chr x = true) :
    scanRest ini chr (t ++ s) d = scanRest ini chr s d := by
  induction t with
  | nil => rfl
  | cons c t ih =>
    have hc : chr c = true := ht c (by simp)
    have hne : c ≠ DOT := by intro h; rw [h, hdot] at hc; cases hc
    rw [List.cons_append, scanRest_char _ _ _ _ _ hne, hc, if_pos rfl]
    exact ih (fun x hx => ht x (by simp [hx]))

theorem scan_els (els : List Bytes) (d : Bool) (he : ∀ e ∈ els, IsElement ini chr e) :
    scanRest ini chr (els.flatMap (DOT :: ·)) d = some (d || !els.isEmpty) := by
  induction els generalizing d with
  | nil => simp [scanRest]
  | cons e els ih =>
    obtain ⟨c, cs, rfl, hc, hcs⟩ := he e (by simp)
    rw [List.flatMap_cons, List.cons_append, List.cons_append, scanRest_dot_cons, hc, if_pos rfl]
    rw [scan_chars hdot cs _ true hcs, ih true (fun e he' => he e (by simp [he']))]
    simp

theorem scan_complete (s t : Bytes) (els : List Bytes) (d : Bool) (h : Decomp ini chr s t els) :
    scanRest ini chr s d = some (d || !els.isEmpty) := by
  obtain ⟨ht, he, rfl⟩ := h
  rw [scan_chars hdot t _ d ht, scan_els hdot els d he]

omit hdot in
theorem scan_sound : ∀ (s : Bytes) (d d' : Bool), scanRest ini chr s d = some d' →
    ∃ t els, Decomp ini chr s t els ∧ d' = (d || !els.isEmpty)
  | [], d, d', h => by
    rw [scanRest_nil] at h; simp at h
    exact ⟨[], [], ⟨by simp, by simp, by simp⟩, by simp [h]⟩
  | c :: rest, d, d', h => by
    by_cases hc : c = DOT
    · subst hc
      match rest, h with
      | [], h => rw [scanRest_dot_nil] at h; cases h
      | n :: rest', h =>
        rw [scanRest_dot_cons] at h
        split at h
        · rename_i hn
          obtain ⟨t, els, ⟨ht, he, hs⟩, hd⟩ := scan_sound rest' true d' h
          refine ⟨[], (n :: t) :: els, ⟨by simp, ?_, ?_⟩, ?_⟩
          · intro e hem
            rcases List.mem_cons.1 hem with rfl | hem
            · exact ⟨n, t, rfl, hn, ht⟩
            · exact he e hem
          · simp [hs]
          · simp [hd]
        · cases h
    · rw [scanRest_char _ _ _ _ _ hc] at h
      split at h
      · rename_i hc
        obtain ⟨t, els, ⟨ht, he, hs⟩, hd⟩ := scan_sound rest d d' h
        refine ⟨c :: t, els, ⟨?_, he, by simp [hs]⟩, hd⟩
        intro x hx
        rcases List.mem_cons.1 hx with rfl | hx
        · exact hc
        · exact ht x hx
      · cases h

theorem scan_iff (s : Bytes) (d d' : Bool) :
    scanRest ini chr s d = some d' ↔ ∃ t els, Decomp ini chr s t els ∧ d' = (d || !els.isEmpty) := by
  constructor
  · exact scan_sound s d d'
  · rintro ⟨t, els, h, rfl⟩
    exact scan_complete hdot s t els d h

end scan

theorem nameChar_dot : isNameChar DOT = false := by decide
theorem busNameChar_dot : isBusNameChar DOT = false := by decide
theorem initialNameChar_dot : isInitialNameChar DOT = false := by decide
theorem initialBusNameChar_dot : isInitialBusNameChar DOT = false := by decide
theorem initialBusNameChar_colon : isInitialBusNameChar COLON = false := by decide
theorem nameChar_slash : isNameChar SLASH = false := by decide

/-- a first element `c :: t` followed by `els` is the dotted form with `1 + els.length` elements -/
theorem dotted_of_decomp {ini chr : UInt8 → Bool} {n : Nat} (c : UInt8) (rest t : Bytes)
    (els : List Bytes) (hc : ini c = true) (h : Decomp ini chr rest t els) (hn : n ≤ els.length + 1) :
    IsDotted ini chr n (c :: rest) := by
  obtain ⟨ht, he, rfl⟩ := h
  refine ⟨(c :: t) :: els, by simpa using hn, by simp, ?_, ?_⟩
  · intro e hem
    rcases List.mem_cons.1 hem with rfl | hem
    · exact ⟨c, t, rfl, hc, ht⟩
    · exact he e hem
  · rw [intercalate_cons_flatMap]; simp

theorem decomp_of_dotted {ini chr : UInt8 → Bool} {n : Nat} (s : Bytes)
    (h : IsDotted ini chr n s) :
    ∃ c rest t els, s = c :: rest ∧ ini c = true ∧ Decomp ini chr rest t els ∧ n ≤ els.length + 1 := by
  obtain ⟨els, hn, hne, he, rfl⟩ := h
  match els, hne with
  | e :: els, _ =>
    obtain ⟨c, t, rfl, hc, ht⟩ := he (e) (by simp)
    refine ⟨c, t ++ els.flatMap (DOT :: ·), t, els, ?_, hc, ⟨ht, fun e' h' => he e' (by simp [h']), rfl⟩, by simpa using hn⟩
    rw [intercalate_cons_flatMap]; simp

end Dbus.Proofs

namespace Dbus.Proofs
open Dbus Dbus.Spec Dbus.Model

/-! ### object paths -/

def PathDecomp (s t : Bytes) (els : List Bytes) : Prop :=
  (∀ x ∈ t, isNameChar x = true) ∧ (∀ e ∈ els, e ≠ [] ∧ ∀ c ∈ e, isNameChar c = true) ∧
    s = t ++ els.flatMap (SLASH :: ·)

theorem pathLoop_nil (k : Nat) : pathLoop [] k = decide (k ≥ 1) := by rw [pathLoop.eq_def]
theorem pathLoop_slash (rest : Bytes) (k : Nat) :
    pathLoop (SLASH :: rest) k = if k < 1 then false else pathLoop rest 0 := by
  conv => lhs; rw [pathLoop.eq_def]
  simp
theorem pathLoop_char (c : UInt8) (rest : Bytes) (k : Nat) (hc : c ≠ SLASH) :
    pathLoop (c :: rest) k = if isNameChar c then pathLoop rest (k + 1) else false := by
  conv => lhs; rw [pathLoop.eq_def]
  simp [hc]

theorem pathLoop_chars (t s : Bytes) (k : Nat) (ht : ∀ x ∈ t, isNameChar x = true) :
    pathLoop (t ++ s) k = pathLoop s (k + t.length) := by
  induction t generalizing k with
  | nil => rfl
  | cons c t ih =>
    have hc : isNameChar c = true := ht c (by simp)
    have hne : c ≠ SLASH := by intro h; rw [h, nameChar_slash] at hc; cases hc
    rw [List.cons_append, pathLoop_char _ _ _ hne, hc, if_pos rfl, ih _ (fun x hx => ht x (by simp [hx]))]
    congr 1; simp; omega

theorem pathLoop_els (els : List Bytes) (k : Nat) (hk : k ≥ 1)
    (he : ∀ e ∈ els, e ≠ [] ∧ ∀ c ∈ e, isNameChar c = true) :
    pathLoop (els.flatMap (SLASH :: ·)) k = true := by
  induction els generalizing k with
  | nil => simp [pathLoop_nil, hk]
  | cons e els ih =>
    obtain ⟨hne, hcs⟩ := he e (by simp)
    rw [List.flatMap_cons, List.cons_append, pathLoop_slash, if_neg (by omega), pathLoop_chars _ _ _ hcs]
    apply ih
    · have : e.length ≠ 0 := by simpa using hne
      omega
    · exact fun e' h' => he e' (by simp [h'])

theorem pathLoop_complete (s t : Bytes) (els : List Bytes) (k : Nat) (h : PathDecomp s t els)
    (hk : k + t.length ≥ 1) : pathLoop s k = true := by
  obtain ⟨ht, he, rfl⟩ := h
  rw [pathLoop_chars _ _ _ ht]
  exact pathLoop_els els _ hk he

theorem pathLoop_sound : ∀ (s : Bytes) (k : Nat), pathLoop s k = true →
    ∃ t els, PathDecomp s t els ∧ k + t.length ≥ 1
  | [], k, h => by
    rw [pathLoop_nil] at h
    exact ⟨[], [], ⟨by simp, by simp, by simp⟩, by simpa using h⟩
  | c :: rest, k, h => by
    by_cases hc : c = SLASH
    · subst hc
      rw [pathLoop_slash] at h
      split at h
      · cases h
      · rename_i hk
        obtain ⟨t, els, ⟨ht, he, hs⟩, hk'⟩ := pathLoop_sound rest 0 h
        refine ⟨[], t :: els, ⟨by simp, ?_, by simp [hs]⟩, by simp; omega⟩
        intro e hem
        rcases List.mem_cons.1 hem with rfl | hem
        · refine ⟨?_, ht⟩
          intro h0; subst h0; simp at hk'
        · exact he e hem
    · rw [pathLoop_char _ _ _ hc] at h
      split at h
      · rename_i hn
        obtain ⟨t, els, ⟨ht, he, hs⟩, hk'⟩ := pathLoop_sound rest (k + 1) h
        refine ⟨c :: t, els, ⟨?_, he, by simp [hs]⟩, by simp; omega⟩
        intro x hx
        rcases List.mem_cons.1 hx with rfl | hx
        · exact hn
        · exact ht x hx
      · cases h

end Dbus.Proofs
