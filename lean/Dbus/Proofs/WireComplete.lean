import Dbus.Proofs.WireSound
/-
  Completeness of the decoder: the encoding of every well-formed value, followed by anything,
  is accepted and decodes to that value, leaving exactly what followed — provided the fuel
  covers the value's `need` (bounded in Dbus/Proofs/WireFuel.lean).
-/
namespace Dbus.Proofs.Wire
open Dbus Dbus.Spec Dbus.Model Dbus.Proofs

mutual
/-- longest chain of decoder calls a value requires -/
def need : Val → Nat
  | .fixed _ _ => 1
  | .str _ _ => 1
  | .variant _ v => need v + 1
  | .array _ vs => needList vs + 1
  | .struct vs => needList vs + 1
  | .dict _ _ es => needEntries es + 1
def needList : List Val → Nat
  | [] => 1
  | v :: vs => max (need v) (needList vs) + 1
def needEntries : List (Val × Val) → Nat
  | [] => 1
  | (k, v) :: es => max (max (need k) (need v)) (needEntries es) + 1
end

theorem size_pos_of_fixed (b : BTy) (h : b.isFixed = true) : 1 ≤ b.size := by
  cases b <;> simp [BTy.isFixed, BTy.fixedSize] at h <;> simp [BTy.size, BTy.fixedSize]

variable (e : Endian)

/-- every well-formed value occupies at least one byte -/
theorem encode_pos : ∀ (v : Val) (t : Ty) (d off : Nat), WFVal e d off v t → 1 ≤ (encode e off v).length
  | .fixed b n, .basic b', d, off, h => by
    simp only [WFVal] at h
    have := size_pos_of_fixed b h.2.1
    simp [encode, encNat_length]; omega
  | .str b s, .basic b', d, off, h => by
    simp only [encode]
    split
    · simp
    · simp; omega
  | .variant t v, .variant, d, off, h => by simp [encode]
  | .array et vs, .array et', d, off, h => by simp [encode, encNat_length]; omega
  | .struct vs, .struct ts, d, off, h => by
    simp only [WFVal] at h
    obtain ⟨hne, _, hf⟩ := h
    match vs, ts, hf with
    | v :: vs, t :: ts, hf =>
      simp only [WFFields] at hf
      have := encode_pos v t _ _ hf.1
      simp [encode, encodeList]; omega
    | [], [], _ => exact absurd rfl hne
  | .dict k vt es, .dict k' vt', d, off, h => by simp [encode, encNat_length]; omega
  | .fixed _ _, .variant, _, _, h | .fixed _ _, .array _, _, _, h | .fixed _ _, .struct _, _, _, h
  | .fixed _ _, .dict _ _, _, _, h => by simp [WFVal] at h
  | .str _ _, .variant, _, _, h | .str _ _, .array _, _, _, h | .str _ _, .struct _, _, _, h
  | .str _ _, .dict _ _, _, _, h => by simp [WFVal] at h
  | .variant _ _, .basic _, _, _, h | .variant _ _, .array _, _, _, h | .variant _ _, .struct _, _, _, h
  | .variant _ _, .dict _ _, _, _, h => by simp [WFVal] at h
  | .array _ _, .basic _, _, _, h | .array _ _, .variant, _, _, h | .array _ _, .struct _, _, _, h
  | .array _ _, .dict _ _, _, _, h => by simp [WFVal] at h
  | .struct _, .basic _, _, _, h | .struct _, .variant, _, _, h | .struct _, .array _, _, _, h
  | .struct _, .dict _ _, _, _, h => by simp [WFVal] at h
  | .dict _ _ _, .basic _, _, _, h | .dict _ _ _, .variant, _, _, h | .dict _ _ _, .array _, _, _, h
  | .dict _ _ _, .struct _, _, _, h => by simp [WFVal] at h


theorem len_sub (x y : Bytes) : (x ++ y).length - y.length = x.length := by simp

theorem pow_256_4 : (256 : Nat) ^ 4 = 4294967296 := by decide

theorem takeNat_one_cons (n : Nat) (hn : n < 256) (rest : Bytes) :
    takeNat e 1 (UInt8.ofNat n :: rest) = some (n, rest) := by
  have := takeNat_enc e 1 n rest (by simpa using hn)
  rw [encNat_one, ofNat_mod_256] at this
  simpa using this

mutual
theorem decode_complete : ∀ (v : Val) (t : Ty) (d off : Nat) (r : Bytes) (g : Nat),
    WFVal e d off v t → need v ≤ g → decode e g d t off (encode e off v ++ r) = some (v, r)
  | .fixed b n, .basic b', d, off, r, g, h, hg => by
    obtain ⟨g', rfl⟩ : ∃ g', g = g' + 1 := ⟨g - 1, by simp [need] at hg; omega⟩
    simp only [WFVal] at h
    obtain ⟨rfl, hfix, hn, hbool⟩ := h
    rw [decode, if_pos hfix]
    simp only [encode, List.append_assoc]
    rw [takePad_pad, Option.bind_some, takeNat_enc e _ _ _ hn, Option.bind_some]
    simp only
    rw [if_neg]
    rintro ⟨hb, h1⟩
    have := hbool hb; omega
  | .str b s, .basic b', d, off, r, g, h, hg => by
    obtain ⟨g', rfl⟩ : ∃ g', g = g' + 1 := ⟨g - 1, by simp [need] at hg; omega⟩
    simp only [WFVal] at h
    obtain ⟨rfl, hfix, hlen, hspec⟩ := h
    have hok := stringOK_of_spec b s hfix hspec
    rw [decode, if_neg (by simp [hfix])]
    by_cases hsig : b = .sig
    · rw [if_pos hsig]
      have hl : s.length ≤ 255 := sigOK_length (hspec.2.2 hsig)
      simp only [encode, hsig, if_true, List.cons_append, List.append_assoc]
      rw [takeNat_one_cons e _ (by omega), Option.bind_some]
      simp only
      rw [takeN_append, Option.bind_some]
      simp only [List.singleton_append, List.nil_append]
      rw [takeNul_cons, Option.bind_some, if_pos (by simpa [hsig] using hok)]
    · rw [if_neg hsig]
      simp only [encode, hsig, if_false, List.append_assoc]
      rw [takePad_pad, Option.bind_some, takeNat_enc e 4 _ _ (by rw [pow_256_4]; simpa using hlen),
        Option.bind_some]
      simp only
      rw [takeN_append, Option.bind_some]
      simp only [List.singleton_append]
      rw [takeNul_cons, Option.bind_some, if_pos hok]
  | .variant t v, .variant, d, off, r, g, h, hg => by
    obtain ⟨g', rfl⟩ : ∃ g', g = g' + 1 := ⟨g - 1, by simp [need] at hg; omega⟩
    simp only [WFVal] at h
    obtain ⟨hwf, hdl, hlen, hdepth, hv⟩ := h
    have ih := decode_complete v t (d + 1) _ r g' hv (by simp [need] at hg; omega)
    rw [decode]
    simp only [encode, List.cons_append, List.append_assoc, List.length_cons, List.length_append,
      List.length_nil]
    rw [takeNat_one_cons e _ (by omega), Option.bind_some]
    simp only
    rw [takeN_append, Option.bind_some]
    simp only [List.singleton_append, List.nil_append]
    rw [takeNul_cons, Option.bind_some, variantType_print t hwf hdl hlen, Option.bind_some]
    have hoff : off + (t.print.length + (0 + 1) + 1) = off + (t.print.length + 2) := by omega
    rw [hoff, takePad_pad, Option.bind_some, if_neg (by omega)]
    have hoff2 : off + (t.print.length + 2) = off + (t.print.length + 2) := rfl
    rw [ih, Option.bind_some]
  | .array et vs, .array et', d, off, r, g, h, hg => by
    obtain ⟨g', rfl⟩ : ∃ g', g = g' + 1 := ⟨g - 1, by simp [need] at hg; omega⟩
    simp only [WFVal] at h
    obtain ⟨rfl, hlen, hel⟩ := h
    have ih := decodeElems_complete vs et (d + 1) _ g' hel (by simp [need] at hg; omega)
    rw [decode]
    simp only [encode, List.append_assoc]
    rw [takePad_pad, Option.bind_some,
      takeNat_enc e 4 _ _ (by rw [pow_256_4]; simp [MAX_ARRAY_LENGTH] at hlen; omega), Option.bind_some]
    simp only
    rw [takePad_pad, Option.bind_some, if_neg (by omega), takeN_append, Option.bind_some]
    simp only
    rw [ih, Option.bind_some]
  | .struct vs, .struct ts, d, off, r, g, h, hg => by
    obtain ⟨g', rfl⟩ : ∃ g', g = g' + 1 := ⟨g - 1, by simp [need] at hg; omega⟩
    simp only [WFVal] at h
    obtain ⟨hne, hdepth, hf⟩ := h
    have ih := decodeFields_complete vs ts (d + 1) _ r g' hf (by simp [need] at hg; omega)
    rw [decode, if_neg (by cases ts <;> simp_all)]
    simp only [encode, List.append_assoc]
    rw [takePad_pad, Option.bind_some, if_neg (by omega), ih, Option.bind_some]
  | .dict k vt es, .dict k' vt', d, off, r, g, h, hg => by
    obtain ⟨g', rfl⟩ : ∃ g', g = g' + 1 := ⟨g - 1, by simp [need] at hg; omega⟩
    simp only [WFVal] at h
    obtain ⟨rfl, rfl, hlen, hel⟩ := h
    have ih := decodeEntries_complete es k vt (d + 2) _ g' hel (by simp [need] at hg; omega)
    rw [decode]
    simp only [encode, List.append_assoc]
    rw [takePad_pad, Option.bind_some,
      takeNat_enc e 4 _ _ (by rw [pow_256_4]; simp [MAX_ARRAY_LENGTH] at hlen; omega), Option.bind_some]
    simp only
    rw [takePad_pad, Option.bind_some, if_neg (by omega), takeN_append, Option.bind_some]
    simp only
    rw [ih, Option.bind_some]
  | .fixed _ _, .variant, _, _, _, _, h, _ | .fixed _ _, .array _, _, _, _, _, h, _
  | .fixed _ _, .struct _, _, _, _, _, h, _ | .fixed _ _, .dict _ _, _, _, _, _, h, _ => by simp [WFVal] at h
  | .str _ _, .variant, _, _, _, _, h, _ | .str _ _, .array _, _, _, _, _, h, _
  | .str _ _, .struct _, _, _, _, _, h, _ | .str _ _, .dict _ _, _, _, _, _, h, _ => by simp [WFVal] at h
  | .variant _ _, .basic _, _, _, _, _, h, _ | .variant _ _, .array _, _, _, _, _, h, _
  | .variant _ _, .struct _, _, _, _, _, h, _ | .variant _ _, .dict _ _, _, _, _, _, h, _ => by simp [WFVal] at h
  | .array _ _, .basic _, _, _, _, _, h, _ | .array _ _, .variant, _, _, _, _, h, _
  | .array _ _, .struct _, _, _, _, _, h, _ | .array _ _, .dict _ _, _, _, _, _, h, _ => by simp [WFVal] at h
  | .struct _, .basic _, _, _, _, _, h, _ | .struct _, .variant, _, _, _, _, h, _
  | .struct _, .array _, _, _, _, _, h, _ | .struct _, .dict _ _, _, _, _, _, h, _ => by simp [WFVal] at h
  | .dict _ _ _, .basic _, _, _, _, _, h, _ | .dict _ _ _, .variant, _, _, _, _, h, _
  | .dict _ _ _, .array _, _, _, _, _, h, _ | .dict _ _ _, .struct _, _, _, _, _, h, _ => by simp [WFVal] at h
theorem decodeFields_complete : ∀ (vs : List Val) (ts : List Ty) (d off : Nat) (r : Bytes) (g : Nat),
    WFFields e d off vs ts → needList vs ≤ g →
    decodeFields e g d ts off (encodeList e off vs ++ r) = some (vs, r)
  | [], [], d, off, r, g, _, hg => by
    obtain ⟨g', rfl⟩ : ∃ g', g = g' + 1 := ⟨g - 1, by simp [needList] at hg; omega⟩
    simp [decodeFields, encodeList]
  | v :: vs, t :: ts, d, off, r, g, h, hg => by
    obtain ⟨g', rfl⟩ : ∃ g', g = g' + 1 := ⟨g - 1, by simp [needList] at hg; omega⟩
    simp only [WFFields] at h
    simp only [needList] at hg
    have ih1 := decode_complete v t d off (encodeList e (off + (encode e off v).length) vs ++ r) g' h.1 (by omega)
    have ih2 := decodeFields_complete vs ts d (off + (encode e off v).length) r g' h.2 (by omega)
    rw [decodeFields]
    simp only [encodeList, List.append_assoc]
    rw [ih1, Option.bind_some]
    simp only
    rw [len_sub, ih2, Option.bind_some]
  | [], _ :: _, _, _, _, _, h, _ => by simp [WFFields] at h
  | _ :: _, [], _, _, _, _, h, _ => by simp [WFFields] at h
theorem decodeElems_complete : ∀ (vs : List Val) (t : Ty) (d off : Nat) (g : Nat),
    WFElems e d off vs t → needList vs ≤ g →
    decodeElems e g d t off (encodeList e off vs) = some vs
  | [], t, d, off, g, _, hg => by
    obtain ⟨g', rfl⟩ : ∃ g', g = g' + 1 := ⟨g - 1, by simp [needList] at hg; omega⟩
    simp [decodeElems, encodeList]
  | v :: vs, t, d, off, g, h, hg => by
    obtain ⟨g', rfl⟩ : ∃ g', g = g' + 1 := ⟨g - 1, by simp [needList] at hg; omega⟩
    simp only [WFElems] at h
    simp only [needList] at hg
    obtain ⟨hdepth, hv, hrest⟩ := h
    have ih1 := decode_complete v t d off (encodeList e (off + (encode e off v).length) vs) g' hv (by omega)
    have ih2 := decodeElems_complete vs t d (off + (encode e off v).length) g' hrest (by omega)
    have hpos := encode_pos e v t d off hv
    simp only [encodeList]
    cases hx : encode e off v ++ encodeList e (off + (encode e off v).length) vs with
    | nil =>
      have := congrArg List.length hx
      simp only [List.length_append, List.length_nil] at this; omega
    | cons b body =>
      rw [decodeElems, if_neg, ← hx, ih1, Option.bind_some]
      · simp only
        rw [len_sub, ih2, Option.bind_some]
      · rintro ⟨hnf, hlt⟩
        have := hdepth hnf; omega
theorem decodeEntries_complete : ∀ (es : List (Val × Val)) (kt : BTy) (vt : Ty) (d off : Nat) (g : Nat),
    WFEntries e d off es kt vt → needEntries es ≤ g →
    decodeEntries e g d kt vt off (encodeEntries e off es) = some es
  | [], kt, vt, d, off, g, _, hg => by
    obtain ⟨g', rfl⟩ : ∃ g', g = g' + 1 := ⟨g - 1, by simp [needEntries] at hg; omega⟩
    simp [decodeEntries, encodeEntries]
  | (k, v) :: es, kt, vt, d, off, g, h, hg => by
    obtain ⟨g', rfl⟩ : ∃ g', g = g' + 1 := ⟨g - 1, by simp [needEntries] at hg; omega⟩
    simp only [WFEntries] at h
    simp only [needEntries] at hg
    obtain ⟨hdepth, hk, hv, hrest⟩ := h
    have hposk := encode_pos e k _ d _ hk
    have ihk := decode_complete k (.basic kt) d (off + padLen off 8)
      (encode e (off + padLen off 8 + (encode e (off + padLen off 8) k).length) v ++
        encodeEntries e (off + padLen off 8 + (encode e (off + padLen off 8) k).length +
          (encode e (off + padLen off 8 + (encode e (off + padLen off 8) k).length) v).length) es) g' hk (by omega)
    have ihv := decode_complete v vt d (off + padLen off 8 + (encode e (off + padLen off 8) k).length)
      (encodeEntries e (off + padLen off 8 + (encode e (off + padLen off 8) k).length +
          (encode e (off + padLen off 8 + (encode e (off + padLen off 8) k).length) v).length) es) g' hv (by omega)
    have ihr := decodeEntries_complete es kt vt d _ g' hrest (by omega)
    simp only [encodeEntries]
    cases hx : pad off 8 ++ (encode e (off + padLen off 8) k ++
        (encode e (off + padLen off 8 + (encode e (off + padLen off 8) k).length) v ++
          encodeEntries e (off + padLen off 8 + (encode e (off + padLen off 8) k).length +
            (encode e (off + padLen off 8 + (encode e (off + padLen off 8) k).length) v).length) es)) with
    | nil =>
      have := congrArg List.length hx
      simp only [List.length_append, List.length_nil] at this; omega
    | cons b body =>
      rw [decodeEntries, if_neg (by omega), ← hx, takePad_pad, Option.bind_some, ihk, Option.bind_some]
      simp only
      rw [len_sub, ihv, Option.bind_some]
      simp only
      have hl : (pad off 8 ++ (encode e (off + padLen off 8) k ++
        (encode e (off + padLen off 8 + (encode e (off + padLen off 8) k).length) v ++
          encodeEntries e (off + padLen off 8 + (encode e (off + padLen off 8) k).length +
            (encode e (off + padLen off 8 + (encode e (off + padLen off 8) k).length) v).length) es))).length -
          (encodeEntries e (off + padLen off 8 + (encode e (off + padLen off 8) k).length +
            (encode e (off + padLen off 8 + (encode e (off + padLen off 8) k).length) v).length) es).length =
          padLen off 8 + (encode e (off + padLen off 8) k).length +
            (encode e (off + padLen off 8 + (encode e (off + padLen off 8) k).length) v).length := by
        simp [pad_length]; omega
      rw [hl]
      have ho : off + (padLen off 8 + (encode e (off + padLen off 8) k).length +
            (encode e (off + padLen off 8 + (encode e (off + padLen off 8) k).length) v).length) =
          off + padLen off 8 + (encode e (off + padLen off 8) k).length +
            (encode e (off + padLen off 8 + (encode e (off + padLen off 8) k).length) v).length := by omega
      rw [ho, ihr, Option.bind_some]
end

end Dbus.Proofs.Wire
