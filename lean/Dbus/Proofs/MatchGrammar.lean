import Dbus.Model.Bus.Match
import Dbus.Spec.MatchGrammar
/-
  The match-rule tokenizer (`find_key`, `find_value`, `tokenize_rule` as modelled in
  `Model/Bus/Match.lean`) accepts exactly the texts of `Spec/MatchGrammar.lean` and reads their
  meaning. Helper lemmas; the property theorems are in `Props/C07.lean`.
-/
namespace Dbus.Proofs.MatchGrammar
open Dbus Dbus.Model.Bus Dbus.Spec.MatchGrammar

theorem isWhite_iff (c : UInt8) : isWhite c = true ↔ White c := by
  unfold isWhite White
  simp only [Bool.or_eq_true, decide_eq_true_eq, or_assoc]

/-! ### values -/

/-- what `find_value` reads from `s`: the pieces up to the first free comma (the rest `r`
    follows it) or up to the end of the text, where a lone backslash stands for itself -/
def Reads (s v r : Bytes) : Prop :=
  ∃ segs : List Seg, (∀ g ∈ segs, g.WF) ∧
    ((s = written segs ++ 0x2c :: r ∧ v = meaning segs) ∨
     (r = [] ∧ ∃ t, s = written segs ++ trail t ∧ v = meaning segs ++ trail t))

theorem Reads.cons {s v r : Bytes} (g : Seg) (hg : g.WF) (h : Reads s v r) :
    Reads (g.written ++ s) (g.meaning ++ v) r := by
  obtain ⟨segs, hw, h⟩ := h
  refine ⟨g :: segs, ?_, ?_⟩
  · intro x hx
    rcases List.mem_cons.1 hx with rfl | hx
    · exact hg
    · exact hw x hx
  · rcases h with ⟨hs, hv⟩ | ⟨hr, t, hs, hv⟩
    · left; subst hs hv; exact ⟨by simp [written], by simp [meaning]⟩
    · right; subst hs hv; exact ⟨hr, t, by simp [written], by simp [meaning]⟩

theorem findValueAux_quoted' : ∀ (v rest acc : Bytes), (∀ c ∈ v, c ≠ 0x27) →
    findValueAux (v ++ 0x27 :: rest) 1 acc = findValueAux rest 0 (acc ++ v)
  | [], rest, acc, _ => by simp [findValueAux]
  | c :: v, rest, acc, h => by
    have hc : c ≠ 0x27 := h c (by simp)
    have ih := findValueAux_quoted' v rest (acc ++ [c]) (fun x hx => h x (by simp [hx]))
    simp only [List.cons_append, findValueAux, hc, if_false]
    rw [ih]; simp

/-- one piece, scanned in the plain state, leaves the scanner in the plain state with the
    piece's meaning appended -/
theorem findValueAux_seg (g : Seg) (hg : g.WF) (rest acc : Bytes) :
    findValueAux (g.written ++ rest) 0 acc = findValueAux rest 0 (acc ++ g.meaning) := by
  cases g with
  | plain c =>
    obtain ⟨h1, h2, h3⟩ := hg
    simp [Seg.written, Seg.meaning, findValueAux, h1, h2, h3]
  | escApos => simp [Seg.written, Seg.meaning, findValueAux]
  | escOther c =>
    have h1 : c ≠ 0x27 := hg
    simp [Seg.written, Seg.meaning, findValueAux, h1]
  | quoted v =>
    have h : ∀ c ∈ v, c ≠ 0x27 := hg
    simp only [Seg.written, Seg.meaning, List.cons_append, List.append_assoc, List.nil_append, findValueAux,
      if_true]
    exact findValueAux_quoted' v rest acc h

theorem findValueAux_segs : ∀ (segs : List Seg), (∀ g ∈ segs, g.WF) → ∀ (rest acc : Bytes),
    findValueAux (written segs ++ rest) 0 acc = findValueAux rest 0 (acc ++ meaning segs)
  | [], _, rest, acc => by simp [written, meaning]
  | g :: segs, h, rest, acc => by
    have hg := h g (by simp)
    have ih := findValueAux_segs segs (fun x hx => h x (by simp [hx])) rest (acc ++ g.meaning)
    simp only [written, meaning, List.flatMap_cons, List.append_assoc] at ih ⊢
    rw [findValueAux_seg g hg, ih]

/-- **completeness** of the value scanner -/
theorem findValueAux_of_reads {s v r : Bytes} (h : Reads s v r) (acc : Bytes) :
    findValueAux s 0 acc = some (acc ++ v, r) := by
  obtain ⟨segs, hw, h⟩ := h
  rcases h with ⟨hs, hv⟩ | ⟨hr, t, hs, hv⟩
  · subst hs hv
    rw [findValueAux_segs segs hw]
    simp [findValueAux]
  · subst hs hv hr
    rw [findValueAux_segs segs hw]
    cases t <;> simp [trail, findValueAux]

/-- inside apostrophes the scanner goes on to the closing apostrophe -/
theorem findValueAux_in_quote : ∀ (s acc v r : Bytes), findValueAux s 1 acc = some (v, r) →
    ∃ q s', (∀ c ∈ q, c ≠ 0x27) ∧ s = q ++ 0x27 :: s' ∧ findValueAux s' 0 (acc ++ q) = some (v, r)
  | [], acc, v, r, h => by simp [findValueAux] at h
  | c :: s, acc, v, r, h => by
    by_cases hc : c = 0x27
    · subst hc
      simp only [findValueAux, if_true] at h
      exact ⟨[], s, by simp, by simp, by simpa using h⟩
    · simp only [findValueAux, hc, if_false] at h
      obtain ⟨q, s', hq, hs, hf⟩ := findValueAux_in_quote s (acc ++ [c]) v r h
      refine ⟨c :: q, s', ?_, by simp [hs], by simpa using hf⟩
      intro x hx
      rcases List.mem_cons.1 hx with rfl | hx
      · exact hc
      · exact hq x hx

/-- **soundness** of the value scanner (induction on the length of the text) -/
theorem reads_of_findValueAux : ∀ (n : Nat) (s acc v r : Bytes), s.length ≤ n →
    findValueAux s 0 acc = some (v, r) → ∃ v', v = acc ++ v' ∧ Reads s v' r
  | _, [], acc, v, r, _, h => by
    simp [findValueAux] at h
    obtain ⟨rfl, rfl⟩ := h
    exact ⟨[], by simp, [], by simp, Or.inr ⟨rfl, false, by simp [written, trail], by simp [meaning, trail]⟩⟩
  | 0, c :: s, _, _, _, hn, _ => by simp at hn
  | n + 1, c :: s, acc, v, r, hn, h => by
    have hn' : s.length ≤ n := by simpa using hn
    by_cases h27 : c = 0x27
    · subst h27
      simp only [findValueAux, if_true] at h
      obtain ⟨q, s', hq, hs, hf⟩ := findValueAux_in_quote s acc v r h
      have hl : s'.length ≤ n := by subst hs; simp at hn' ⊢; omega
      obtain ⟨v', hv, hr⟩ := reads_of_findValueAux n s' (acc ++ q) v r hl hf
      refine ⟨q ++ v', by simp [hv], ?_⟩
      have := Reads.cons (.quoted q) hq hr
      simpa [Seg.written, Seg.meaning, hs] using this
    · by_cases h2c : c = 0x2c
      · subst h2c
        rw [show findValueAux (0x2c :: s) 0 acc = some (acc, s) by simp [findValueAux]] at h
        simp only [Option.some.injEq, Prod.mk.injEq] at h
        obtain ⟨rfl, rfl⟩ := h
        exact ⟨[], by simp, [], by simp, Or.inl ⟨by simp [written], by simp [meaning]⟩⟩
      · by_cases h5c : c = 0x5c
        · subst h5c
          rw [show findValueAux (0x5c :: s) 0 acc = findValueAux s 2 acc by simp [findValueAux]] at h
          cases s with
          | nil =>
            simp [findValueAux] at h
            obtain ⟨rfl, rfl⟩ := h
            exact ⟨[0x5c], rfl, [], by simp, Or.inr ⟨rfl, true, by simp [written, trail], by simp [meaning, trail]⟩⟩
          | cons d s =>
            have hl : s.length ≤ n := by simp at hn'; omega
            by_cases hd : d = 0x27
            · subst hd
              simp only [findValueAux, if_true] at h
              obtain ⟨v', hv, hr⟩ := reads_of_findValueAux n s _ v r hl h
              refine ⟨0x27 :: v', by simp [hv], ?_⟩
              have := Reads.cons .escApos trivial hr
              simpa [Seg.written, Seg.meaning] using this
            · simp only [findValueAux, hd, if_false] at h
              obtain ⟨v', hv, hr⟩ := reads_of_findValueAux n s _ v r hl h
              refine ⟨0x5c :: d :: v', by simp [hv], ?_⟩
              have := Reads.cons (.escOther d) hd hr
              simpa [Seg.written, Seg.meaning] using this
        · simp only [findValueAux, h27, h2c, h5c, if_false] at h
          obtain ⟨v', hv, hr⟩ := reads_of_findValueAux n s _ v r hn' h
          refine ⟨c :: v', by simp [hv], ?_⟩
          have := Reads.cons (.plain c) ⟨h27, h2c, h5c⟩ hr
          simpa [Seg.written, Seg.meaning] using this

theorem findValue_iff (s v r : Bytes) : findValue s = some (v, r) ↔ Reads s v r := by
  unfold findValue
  constructor
  · intro h
    obtain ⟨v', hv, hr⟩ := reads_of_findValueAux s.length s [] v r (Nat.le_refl _) h
    simpa [hv] using hr
  · intro h
    simpa using findValueAux_of_reads h []

/-! ### keys -/

def KeyChars (k : Bytes) : Prop := ∀ c ∈ k, c ≠ 0x3d ∧ ¬ White c
def Blank (w : Bytes) : Prop := ∀ c ∈ w, White c

theorem blank_isWhite {w : Bytes} (h : Blank w) : ∀ c ∈ w, isWhite c = true :=
  fun c hc => (isWhite_iff c).2 (h c hc)

theorem keyChars_pred {k : Bytes} (h : KeyChars k) :
    ∀ c ∈ k, (c ≠ 0x3d && !isWhite c) = true := by
  intro c hc
  obtain ⟨h1, h2⟩ := h c hc
  have : isWhite c = false := by
    cases hw : isWhite c with
    | false => rfl
    | true => exact absurd ((isWhite_iff c).1 hw) h2
  simp [h1, this]

theorem mem_takeWhile {α} (p : α → Bool) : ∀ (l : List α) (a : α), a ∈ l.takeWhile p → p a = true
  | [], _, h => by simp at h
  | x :: l, a, h => by
    by_cases hx : p x = true
    · rw [List.takeWhile_cons_of_pos hx] at h
      rcases List.mem_cons.1 h with rfl | h
      · exact hx
      · exact mem_takeWhile p l a h
    · rw [List.takeWhile_cons_of_neg hx] at h; simp at h

theorem drop_takeWhile_length {α} (p : α → Bool) : ∀ (l : List α),
    l.drop (l.takeWhile p).length = l.dropWhile p
  | [] => by simp
  | x :: l => by
    by_cases hx : p x = true
    · rw [List.takeWhile_cons_of_pos hx, List.dropWhile_cons_of_pos hx]
      simpa using drop_takeWhile_length p l
    · rw [List.takeWhile_cons_of_neg hx, List.dropWhile_cons_of_neg hx]
      simp

theorem dropWhile_eq_nil_iff' {α} (p : α → Bool) : ∀ (l : List α),
    l.dropWhile p = [] ↔ ∀ a ∈ l, p a = true
  | [] => by simp
  | x :: l => by
    by_cases hx : p x = true
    · rw [List.dropWhile_cons_of_pos hx, dropWhile_eq_nil_iff' p l]
      simp [hx]
    · rw [List.dropWhile_cons_of_neg hx]
      simp [hx]

theorem dropWhile_head_false {α} (p : α → Bool) (l : List α) (c : α) (r : List α)
    (h : l.dropWhile p = c :: r) : p c = false := by
  have := List.head?_dropWhile_not p l
  rw [h] at this
  simpa using this

/-- `find_key` when it reports a key: blanks, the key, blanks, `=` -/
theorem findKey_some_iff (s k r : Bytes) (hk : k ≠ []) :
    findKey s = some (k, r) ↔
      ∃ pre mid, Blank pre ∧ KeyChars k ∧ Blank mid ∧ s = pre ++ (k ++ (mid ++ 0x3d :: r)) := by
  constructor
  · intro h
    unfold findKey at h
    simp only at h
    split at h
    · rename_i he
      split at h
      · simp only [Option.some.injEq, Prod.mk.injEq] at h; exact absurd h.1.symm hk
      · cases h
    · rename_i he
      split at h
      · rename_i c rest hs2
        split at h
        · rename_i hc
          simp only [Option.some.injEq, Prod.mk.injEq] at h
          obtain ⟨hk', hr⟩ := h
          subst hc hr
          refine ⟨s.takeWhile isWhite, ((s.dropWhile isWhite).dropWhile (fun c => c ≠ 0x3d && !isWhite c)).takeWhile isWhite,
            ?_, ?_, ?_, ?_⟩
          · intro c hc; exact (isWhite_iff c).1 (mem_takeWhile _ _ _ hc)
          · intro c hc
            rw [← hk'] at hc
            have := mem_takeWhile _ _ _ hc
            simp only [ne_eq, Bool.and_eq_true, decide_eq_true_eq, Bool.not_eq_true'] at this
            refine ⟨this.1, fun hw => ?_⟩
            rw [(isWhite_iff c).2 hw] at this
            exact absurd this.2 (by simp)
          · intro c hc; exact (isWhite_iff c).1 (mem_takeWhile _ _ _ hc)
          · rw [drop_takeWhile_length] at hs2
            have e1 : s = s.takeWhile isWhite ++ s.dropWhile isWhite := by simp
            have e2 : s.dropWhile isWhite = k ++ (s.dropWhile isWhite).dropWhile (fun c => c ≠ 0x3d && !isWhite c) := by
              rw [← hk']; simp
            have e3 : (s.dropWhile isWhite).dropWhile (fun c => c ≠ 0x3d && !isWhite c) =
                ((s.dropWhile isWhite).dropWhile (fun c => c ≠ 0x3d && !isWhite c)).takeWhile isWhite ++ 0x3d :: rest := by
              have := List.takeWhile_append_dropWhile (p := isWhite)
                (l := (s.dropWhile isWhite).dropWhile (fun c => c ≠ 0x3d && !isWhite c))
              rw [hs2] at this
              exact this.symm
            conv => lhs; rw [e1, e2, e3]
        · cases h
      · cases h
  · rintro ⟨pre, mid, hpre, hkc, hmid, rfl⟩
    obtain ⟨k0, kt, rfl⟩ : ∃ a b, k = a :: b := by
      cases k with
      | nil => exact absurd rfl hk
      | cons a b => exact ⟨a, b, rfl⟩
    have hk0 := keyChars_pred hkc k0 (by simp)
    have hk0w : isWhite k0 = false := by
      simp only [ne_eq, Bool.and_eq_true, decide_eq_true_eq, Bool.not_eq_true'] at hk0; exact hk0.2
    unfold findKey
    have d1 : (pre ++ (k0 :: kt ++ (mid ++ 0x3d :: r))).dropWhile isWhite = k0 :: kt ++ (mid ++ 0x3d :: r) := by
      rw [List.dropWhile_append_of_pos (blank_isWhite hpre)]
      simp [hk0w]
    have hstop : (fun c : UInt8 => c ≠ 0x3d && !isWhite c) ((mid ++ 0x3d :: r).headD 0x3d) = false := by
      cases mid with
      | nil => simp
      | cons m mt =>
        have := blank_isWhite hmid m (by simp)
        simp [this]
    have t1 : (k0 :: kt ++ (mid ++ 0x3d :: r)).takeWhile (fun c => c ≠ 0x3d && !isWhite c) = k0 :: kt := by
      rw [List.takeWhile_append_of_pos (keyChars_pred hkc)]
      cases hm : mid ++ 0x3d :: r with
      | nil => simp
      | cons x xs =>
        have hx : x = 0x3d ∨ isWhite x = true := by
          cases mid with
          | nil => simp at hm; exact Or.inl hm.1.symm
          | cons m mt =>
            simp at hm
            exact Or.inr (hm.1 ▸ blank_isWhite hmid m (by simp))
        rw [List.takeWhile_cons_of_neg (by rcases hx with rfl | hx <;> simp [*])]
        simp
    simp only [d1, t1]
    have d2 : ((k0 :: kt ++ (mid ++ 0x3d :: r)).drop (k0 :: kt).length).dropWhile isWhite = 0x3d :: r := by
      rw [List.drop_left' rfl]
      rw [List.dropWhile_append_of_pos (blank_isWhite hmid)]
      rw [List.dropWhile_cons_of_neg (by decide)]
    rw [d2]
    simp

/-- `find_key` reports "no key, end of rule" exactly for a text of blanks -/
theorem findKey_empty_iff (s r : Bytes) : findKey s = some ([], r) ↔ r = [] ∧ Blank s := by
  constructor
  · intro h
    unfold findKey at h
    simp only at h
    split at h
    · rename_i he
      split at h
      · rename_i he2
        simp only [Option.some.injEq, Prod.mk.injEq, true_and] at h
        refine ⟨h.symm, ?_⟩
        have hk : (s.dropWhile isWhite).takeWhile (fun c => c ≠ 0x3d && !isWhite c) = [] := by
          simpa using he
        rw [hk] at he2
        simp only [List.length_nil, List.drop_zero, List.isEmpty_iff] at he2
        have h2 : s.dropWhile isWhite = [] := by
          cases hd : s.dropWhile isWhite with
          | nil => rfl
          | cons c t =>
            have hc := dropWhile_head_false _ _ _ _ hd
            rw [hd, List.dropWhile_cons_of_neg (by simp [hc])] at he2
            cases he2
        intro c hc
        have := (dropWhile_eq_nil_iff' _ _).1 h2 c hc
        exact (isWhite_iff c).1 this
      · cases h
    · rename_i he
      split at h
      · split at h
        · simp only [Option.some.injEq, Prod.mk.injEq] at h
          rw [h.1] at he; simp at he
        · cases h
      · cases h
  · rintro ⟨rfl, hb⟩
    unfold findKey
    have : s.dropWhile isWhite = [] := (dropWhile_eq_nil_iff' _ _).2 (blank_isWhite hb)
    simp [this]

/-- `find_key` never reports an empty key with text left over (F28 repaired) -/
theorem findKey_cases (s : Bytes) : findKey s = none ∨ (∃ r, findKey s = some ([], r) ∧ r = []) ∨
    ∃ k r, k ≠ [] ∧ findKey s = some (k, r) := by
  cases h : findKey s with
  | none => exact Or.inl rfl
  | some p =>
    obtain ⟨k, r⟩ := p
    by_cases hk : k = []
    · subst hk
      exact Or.inr (Or.inl ⟨r, rfl, ((findKey_empty_iff s r).1 h).1⟩)
    · exact Or.inr (Or.inr ⟨k, r, hk, rfl⟩)

/-! ### the token loop -/

theorem tokenizeAux_nil (n : Nat) (acc : List (Bytes × Bytes)) (b : Bool) :
    tokenizeAux n [] acc b = some acc := by
  cases n <;> simp [tokenizeAux]

/-- **completeness** of `tokenize_rule` for the bounded grammar -/
theorem tokenizeAux_of_ruleTextN {n : Nat} {s : Bytes} {kvs : List (Bytes × Bytes)}
    (h : RuleTextN n s kvs) : ∀ acc, tokenizeAux n s acc false = some (acc ++ kvs) := by
  induction h with
  | cut s => intro acc; simp [tokenizeAux]
  | blank n ws hw =>
    intro acc
    cases n with
    | zero => simp [tokenizeAux]
    | succ n =>
      unfold tokenizeAux
      by_cases he : ws.isEmpty
      · simp [he]
      · rw [if_neg he, (findKey_empty_iff ws []).2 ⟨rfl, hw⟩]
        simp [tokenizeAux_nil]
  | last n i t hi =>
    intro acc
    obtain ⟨hpre, hkey, hkc, hmid, hsegs⟩ := hi
    have hne : ¬ (i.written ++ trail t).isEmpty = true := by
      cases hk : i.key with
      | nil => exact absurd hk hkey
      | cons a b => simp [Item.written, hk]
    unfold tokenizeAux
    rw [if_neg hne]
    have hf : findKey (i.written ++ trail t) = some (i.key, written i.segs ++ trail t) :=
      (findKey_some_iff _ _ _ hkey).2 ⟨i.pre, i.mid, hpre, hkc, hmid, by simp [Item.written]⟩
    rw [hf]
    simp only
    rw [if_neg (by simpa using hkey)]
    have hv : findValue (written i.segs ++ trail t) = some (i.value ++ trail t, []) :=
      (findValue_iff _ _ _).2 ⟨i.segs, hsegs, Or.inr ⟨rfl, t, rfl, rfl⟩⟩
    rw [hv]
    simp [tokenizeAux_nil]
  | more n i hi rest kvs _ ih =>
    intro acc
    obtain ⟨hpre, hkey, hkc, hmid, hsegs⟩ := hi
    have hne : ¬ (i.written ++ 0x2c :: rest).isEmpty = true := by simp
    unfold tokenizeAux
    rw [if_neg hne]
    have hf : findKey (i.written ++ 0x2c :: rest) = some (i.key, written i.segs ++ 0x2c :: rest) :=
      (findKey_some_iff _ _ _ hkey).2 ⟨i.pre, i.mid, hpre, hkc, hmid, by simp [Item.written]⟩
    rw [hf]
    simp only
    rw [if_neg (by simpa using hkey)]
    have hv : findValue (written i.segs ++ 0x2c :: rest) = some (i.value, rest) :=
      (findValue_iff _ _ _).2 ⟨i.segs, hsegs, Or.inl ⟨rfl, rfl⟩⟩
    rw [hv]
    simp only [Bool.false_eq_true, if_false]
    rw [ih (acc ++ [(i.key, i.value)])]
    simp

/-- **soundness** of `tokenize_rule` -/
theorem ruleTextN_of_tokenizeAux : ∀ (n : Nat) (s : Bytes) (acc out : List (Bytes × Bytes)),
    tokenizeAux n s acc false = some out → ∃ kvs, out = acc ++ kvs ∧ RuleTextN n s kvs
  | 0, s, acc, out, h => by
    simp [tokenizeAux] at h
    exact ⟨[], by simp [h], .cut s⟩
  | n + 1, s, acc, out, h => by
    unfold tokenizeAux at h
    by_cases he : s.isEmpty
    · rw [if_pos he] at h
      simp only [Option.some.injEq] at h
      have : s = [] := by simpa using he
      subst this
      exact ⟨[], by simp [h], .blank _ [] (by simp)⟩
    · rw [if_neg he] at h
      rcases findKey_cases s with hf | ⟨r, hf, hr⟩ | ⟨k, r, hk, hf⟩
      · rw [hf] at h; cases h
      · subst hr
        rw [hf] at h
        simp [tokenizeAux_nil] at h
        exact ⟨[], by simp [h], .blank _ s ((findKey_empty_iff s []).1 hf).2⟩
      · rw [hf] at h
        simp only at h
        rw [if_neg (by simpa using hk)] at h
        obtain ⟨pre, mid, hpre, hkc, hmid, hs⟩ := (findKey_some_iff s k r hk).1 hf
        cases hv : findValue r with
        | none => rw [hv] at h; cases h
        | some p =>
          obtain ⟨v, r'⟩ := p
          rw [hv] at h
          simp only [Bool.false_eq_true, if_false] at h
          obtain ⟨kvs, hout, hrt⟩ := ruleTextN_of_tokenizeAux n r' _ out h
          obtain ⟨segs, hw, hcase⟩ := (findValue_iff r v r').1 hv
          rcases hcase with ⟨hr, hvv⟩ | ⟨hr', t, hr, hvv⟩
          · refine ⟨(k, v) :: kvs, by simp [hout], ?_⟩
            have := RuleTextN.more n ⟨pre, k, mid, segs⟩ ⟨hpre, hk, hkc, hmid, hw⟩ r' kvs hrt
            simpa [Item.written, Item.value, hs, hr, hvv] using this
          · subst hr'
            rw [tokenizeAux_nil] at h
            simp only [Option.some.injEq] at h
            refine ⟨[(k, v)], by simp [h], ?_⟩
            have := RuleTextN.last n ⟨pre, k, mid, segs⟩ t ⟨hpre, hk, hkc, hmid, hw⟩
            simpa [Item.written, Item.value, hs, hr, hvv] using this

/-! ### the bounded and the unbounded grammar -/

theorem ruleTextN_of_ruleText {s : Bytes} {kvs : List (Bytes × Bytes)} (h : RuleText s kvs) :
    ∀ n, kvs.length ≤ n → RuleTextN n s kvs := by
  induction h with
  | blank ws hw => intro n _; exact .blank n ws hw
  | last i t hi =>
    intro n hn
    cases n with
    | zero => simp at hn
    | succ n => exact .last n i t hi
  | more i hi rest kvs _ ih =>
    intro n hn
    cases n with
    | zero => simp at hn
    | succ n => exact .more n i hi rest kvs (ih n (by simpa using hn))

theorem ruleText_of_ruleTextN {n : Nat} {s : Bytes} {kvs : List (Bytes × Bytes)}
    (h : RuleTextN n s kvs) : kvs.length < n → RuleText s kvs := by
  induction h with
  | cut s => intro hn; simp at hn
  | blank n ws hw => intro _; exact .blank ws hw
  | last n i t hi => intro _; exact .last i t hi
  | more n i hi rest kvs _ ih =>
    intro hn
    exact .more i hi rest kvs (ih (by simpa using hn))

theorem ruleTextN_length {n : Nat} {s : Bytes} {kvs : List (Bytes × Bytes)}
    (h : RuleTextN n s kvs) : kvs.length ≤ n := by
  induction h with
  | cut s => simp
  | blank n ws hw => simp
  | last n i t hi => simp
  | more n i hi rest kvs _ ih => simpa using ih

end Dbus.Proofs.MatchGrammar
