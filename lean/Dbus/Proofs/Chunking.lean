import Dbus.Proofs.Loader
/-
  C11: the loader's observable behaviour does not depend on how the stream is chunked.
-/
namespace Dbus.Proofs.Loader
open Dbus Dbus.Spec Dbus.Model

/-- same messages, same corruption verdict, and — while not corrupt — same pending bytes -/
def Equiv (l l' : Loader) : Prop :=
  l.msgs = l'.msgs ∧ l.corrupted = l'.corrupted ∧ (l.corrupted = false → l.buf = l'.buf ∧ l.fds = l'.fds)

theorem Equiv.refl (l : Loader) : Equiv l l := ⟨rfl, rfl, fun _ => ⟨rfl, rfl⟩⟩

theorem Equiv.trans {a b c : Loader} (h1 : Equiv a b) (h2 : Equiv b c) : Equiv a c := by
  obtain ⟨m1, c1, b1⟩ := h1
  obtain ⟨m2, c2, b2⟩ := h2
  refine ⟨m1.trans m2, c1.trans c2, fun h => ?_⟩
  obtain ⟨x1, y1⟩ := b1 h
  obtain ⟨x2, y2⟩ := b2 (by rw [← c1]; exact h)
  exact ⟨x1.trans x2, y1.trans y2⟩

variable (mx : Nat)

theorem drain_zero (l : Loader) : drain mx 0 l = l := rfl

/-- the loader after framing message `m` of `n` bytes off the front -/
def _root_.Dbus.Model.Loader.step (l : Loader) (m : Msg) (n : Nat) : Loader :=
  { l with buf := l.buf.drop n, msgs := l.msgs ++ [m], fds := l.fds - unixFdsOf m.fields }

/-- appending to a loader's buffer -/
def _root_.Dbus.Model.Loader.app (l : Loader) (x : Bytes) : Loader := { l with buf := l.buf ++ x }

theorem drain_corrupted (g : Nat) (l : Loader) (h : l.corrupted = true) : drain mx (g + 1) l = l := by
  rw [drain, if_pos h]

theorem drain_incomplete (g : Nat) (l : Loader) (h : ¬ l.corrupted = true)
    (hl : loadOne true mx l.fds l.buf = .incomplete) : drain mx (g + 1) l = l := by
  rw [drain, if_neg h, hl]

theorem drain_corrupt (g : Nat) (l : Loader) (h : ¬ l.corrupted = true)
    (hl : loadOne true mx l.fds l.buf = .corrupt) : drain mx (g + 1) l = { l with corrupted := true } := by
  rw [drain, if_neg h, hl]

theorem drain_ok (g : Nat) (l : Loader) (h : ¬ l.corrupted = true) (m : Msg) (n : Nat)
    (hl : loadOne true mx l.fds l.buf = .ok m n) : drain mx (g + 1) l = drain mx g (l.step m n) := by
  rw [drain, if_neg h, hl]
  rfl

/-- more fuel than messages can exist makes no difference -/
theorem drain_fuel : ∀ (f1 f2 : Nat) (l : Loader), l.buf.length + 1 ≤ f1 → l.buf.length + 1 ≤ f2 →
    drain mx f1 l = drain mx f2 l
  | 0, _, l, h1, _ => by omega
  | _ + 1, 0, l, _, h2 => by omega
  | k + 1, j + 1, l, h1, h2 => by
    by_cases hc : l.corrupted = true
    · rw [drain_corrupted mx k l hc, drain_corrupted mx j l hc]
    · cases hl : loadOne true mx l.fds l.buf with
      | incomplete => rw [drain_incomplete mx k l hc hl, drain_incomplete mx j l hc hl]
      | corrupt => rw [drain_corrupt mx k l hc hl, drain_corrupt mx j l hc hl]
      | ok m n =>
        rw [drain_ok mx k l hc m n hl, drain_ok mx j l hc m n hl]
        obtain ⟨_, _, _, h16, hn⟩ := loadOne_ok hl
        apply drain_fuel k j
        · simp [Loader.step]; omega
        · simp [Loader.step]; omega

def Stable (l : Loader) : Prop := l.corrupted = true ∨ loadOne true mx l.fds l.buf = .incomplete

theorem drain_stable (g : Nat) (l : Loader) (h : Stable mx l) : drain mx g l = l := by
  cases g with
  | zero => rfl
  | succ g =>
    by_cases hc : l.corrupted = true
    · exact drain_corrupted mx g l hc
    · rcases h with h | h
      · exact absurd h hc
      · exact drain_incomplete mx g l hc h

theorem drain_is_stable : ∀ (g : Nat) (l : Loader), l.buf.length + 1 ≤ g → Stable mx (drain mx g l)
  | 0, l, h => by omega
  | g + 1, l, h => by
    by_cases hc : l.corrupted = true
    · rw [drain_corrupted mx g l hc]; exact Or.inl hc
    · cases hl : loadOne true mx l.fds l.buf with
      | incomplete => rw [drain_incomplete mx g l hc hl]; exact Or.inr hl
      | corrupt => rw [drain_corrupt mx g l hc hl]; exact Or.inl rfl
      | ok m n =>
        rw [drain_ok mx g l hc m n hl]
        obtain ⟨_, _, _, h16, hn⟩ := loadOne_ok hl
        apply drain_is_stable g
        simp [Loader.step]; omega

/-- **Key lemma**: framing what has arrived, then receiving `x` and framing again, is the same
    as receiving `x` first and framing once. -/
theorem drain_app : ∀ (g1 g2 g3 : Nat) (l : Loader) (x : Bytes),
    l.buf.length + 1 ≤ g1 → l.buf.length + x.length + 1 ≤ g2 → l.buf.length + x.length + 1 ≤ g3 →
    Equiv (drain mx g2 ((drain mx g1 l).app x)) (drain mx g3 (l.app x))
  | 0, _, _, l, x, h1, _, _ => by omega
  | k + 1, g2, g3, l, x, h1, h2, h3 => by
    by_cases hc : l.corrupted = true
    · rw [drain_corrupted mx k l hc]
      have hs : Stable mx (l.app x) := Or.inl hc
      rw [drain_stable mx g2 _ hs, drain_stable mx g3 _ hs]
      exact Equiv.refl _
    · have hc' : ¬ (l.app x).corrupted = true := hc
      cases hl : loadOne true mx l.fds l.buf with
      | incomplete =>
        rw [drain_incomplete mx k l hc hl]
        rw [drain_fuel mx g2 g3 (l.app x) (by simp [Loader.app]; omega) (by simp [Loader.app]; omega)]
        exact Equiv.refl _
      | corrupt =>
        rw [drain_corrupt mx k l hc hl]
        have hs : Stable mx (({ l with corrupted := true } : Loader).app x) := Or.inl rfl
        rw [drain_stable mx g2 _ hs]
        obtain ⟨g3', rfl⟩ : ∃ g3', g3 = g3' + 1 := ⟨g3 - 1, by omega⟩
        have : loadOne true mx (l.app x).fds (l.app x).buf = .corrupt := loadOne_corrupt_append x hl
        rw [drain_corrupt mx g3' (l.app x) hc' this]
        exact ⟨rfl, rfl, fun h => by simp [Loader.app] at h⟩
      | ok m n =>
        rw [drain_ok mx k l hc m n hl]
        obtain ⟨_, _, _, h16, hn⟩ := loadOne_ok hl
        obtain ⟨g3', rfl⟩ : ∃ g3', g3 = g3' + 1 := ⟨g3 - 1, by omega⟩
        have hok : loadOne true mx (l.app x).fds (l.app x).buf = .ok m n := loadOne_ok_append x hl
        rw [drain_ok mx g3' (l.app x) hc' m n hok]
        have hstep : (l.app x).step m n = (l.step m n).app x := by
          simp only [Loader.app, Loader.step]
          rw [List.drop_append_of_le_length hn]
        rw [hstep]
        apply drain_app k g2 g3'
        · simp [Loader.step]; omega
        · simp [Loader.step]; omega
        · simp [Loader.step]; omega

theorem feed_eq (l : Loader) (c : Bytes) (h : l.corrupted = false) :
    l.feed mx c = drain mx (l.buf.length + c.length + 1) (l.app c) := by
  unfold Loader.feed
  rw [if_neg (by simp [h])]
  rfl

theorem feed_corrupted (l : Loader) (c : Bytes) (h : l.corrupted = true) : l.feed mx c = l := by
  unfold Loader.feed
  rw [if_pos h]

theorem feed_stable (l : Loader) (c : Bytes) (hs : Stable mx l) : Stable mx (l.feed mx c) := by
  by_cases hc : l.corrupted = true
  · rw [feed_corrupted mx l c hc]; exact hs
  · rw [feed_eq mx l c (by simpa using hc)]
    apply drain_is_stable
    simp [Loader.app]

/-- feeding `c` and then `y` is feeding `c ++ y` -/
theorem feed_feed (l : Loader) (c y : Bytes) : Equiv ((l.feed mx c).feed mx y) (l.feed mx (c ++ y)) := by
  by_cases hc : l.corrupted = true
  · rw [feed_corrupted mx l c hc, feed_corrupted mx l y hc, feed_corrupted mx l _ hc]
    exact Equiv.refl _
  · have hc' : l.corrupted = false := by simpa using hc
    rw [feed_eq mx l c hc', feed_eq mx l (c ++ y) hc']
    have happ : l.app (c ++ y) = (l.app c).app y := by simp [Loader.app]
    rw [happ]
    by_cases hd : (drain mx (l.buf.length + c.length + 1) (l.app c)).corrupted = true
    · rw [feed_corrupted mx _ y hd]
      have h := drain_app mx (l.buf.length + c.length + 1) ((l.app c).buf.length + y.length + 1)
        (l.buf.length + (c ++ y).length + 1) (l.app c) y (by simp [Loader.app])
        (by simp) (by simp [Loader.app]; omega)
      have hs : Stable mx ((drain mx (l.buf.length + c.length + 1) (l.app c)).app y) := Or.inl hd
      rw [drain_stable mx _ _ hs] at h
      refine Equiv.trans ?_ h
      exact ⟨rfl, rfl, fun h' => by rw [hd] at h'; cases h'⟩
    · have hd' : (drain mx (l.buf.length + c.length + 1) (l.app c)).corrupted = false := by simpa using hd
      rw [feed_eq mx _ y hd']
      have h := drain_app mx (l.buf.length + c.length + 1)
        ((drain mx (l.buf.length + c.length + 1) (l.app c)).buf.length + y.length + 1 + (l.app c).buf.length)
        (l.buf.length + (c ++ y).length + 1) (l.app c) y (by simp [Loader.app])
        (by omega) (by simp [Loader.app]; omega)
      rw [drain_fuel mx _ ((drain mx (l.buf.length + c.length + 1) (l.app c)).buf.length + y.length + 1)
        ((drain mx (l.buf.length + c.length + 1) (l.app c)).app y)
        (by simp [Loader.app] <;> omega) (by simp [Loader.app] <;> omega)] at h
      exact h

/-- feeding a stable loader nothing changes nothing -/
theorem feed_nil (l : Loader) (hs : Stable mx l) : l.feed mx [] = l := by
  by_cases hc : l.corrupted = true
  · exact feed_corrupted mx l [] hc
  · rw [feed_eq mx l [] (by simpa using hc)]
    have : l.app [] = l := by simp [Loader.app]
    rw [this]
    exact drain_stable mx _ l hs

theorem foldl_feed_equiv : ∀ (cs : List Bytes) (l : Loader), Stable mx l →
    Equiv (cs.foldl (Loader.feed mx) l) (l.feed mx cs.flatten)
  | [], l, hs => by
    simp only [List.foldl_nil, List.flatten_nil]
    rw [feed_nil mx l hs]
    exact Equiv.refl _
  | c :: cs, l, hs => by
    simp only [List.foldl_cons, List.flatten_cons]
    exact Equiv.trans (foldl_feed_equiv cs (l.feed mx c) (feed_stable mx l c hs)) (feed_feed mx l c cs.flatten)

end Dbus.Proofs.Loader
