import Dbus.Model.Auth
namespace Dbus.Proofs.Auth
open Dbus Dbus.Model Dbus.Model.Auth

@[simp] theorem say_phase (s : S) (b : Bytes) : (say s b).phase = s.phase := rfl
@[simp] theorem say_mech (s : S) (b : Bytes) : (say s b).mech = s.mech := rfl
@[simp] theorem say_authorized (s : S) (b : Bytes) : (say s b).authorized = s.authorized := rfl
@[simp] theorem say_desired (s : S) (b : Bytes) : (say s b).desired = s.desired := rfl
@[simp] theorem say_identity (s : S) (b : Bytes) : (say s b).identity = s.identity := rfl
@[simp] theorem say_cookieId (s : S) (b : Bytes) : (say s b).cookieId = s.cookieId := rfl
@[simp] theorem say_asked (s : S) (b : Bytes) : (say s b).asked = s.asked := rfl
@[simp] theorem say_failures (s : S) (b : Bytes) : (say s b).failures = s.failures := rfl
@[simp] theorem say_incoming (s : S) (b : Bytes) : (say s b).incoming = s.incoming := rfl
@[simp] theorem say_outgoing (s : S) (b : Bytes) : (say s b).outgoing = s.outgoing ++ b := rfl
@[simp] theorem say_tape (s : S) (b : Bytes) : (say s b).tape = s.tape := rfl
@[simp] theorem say_fdNeg (s : S) (b : Bytes) : (say s b).fdNeg = s.fdNeg := rfl
@[simp] theorem say_challenge (s : S) (b : Bytes) : (say s b).challenge = s.challenge := rfl

@[simp] theorem withIdentity_phase (s : S) (d : Bytes) : (withIdentity s d).phase = s.phase := by unfold withIdentity; split <;> rfl
@[simp] theorem withIdentity_mech (s : S) (d : Bytes) : (withIdentity s d).mech = s.mech := by unfold withIdentity; split <;> rfl
@[simp] theorem withIdentity_desired (s : S) (d : Bytes) : (withIdentity s d).desired = s.desired := by unfold withIdentity; split <;> rfl
@[simp] theorem withIdentity_authorized (s : S) (d : Bytes) : (withIdentity s d).authorized = s.authorized := by unfold withIdentity; split <;> rfl
@[simp] theorem withIdentity_cookieId (s : S) (d : Bytes) : (withIdentity s d).cookieId = s.cookieId := by unfold withIdentity; split <;> rfl
@[simp] theorem withIdentity_challenge (s : S) (d : Bytes) : (withIdentity s d).challenge = s.challenge := by unfold withIdentity; split <;> rfl
@[simp] theorem withIdentity_asked (s : S) (d : Bytes) : (withIdentity s d).asked = s.asked := by unfold withIdentity; split <;> rfl
@[simp] theorem withIdentity_failures (s : S) (d : Bytes) : (withIdentity s d).failures = s.failures := by unfold withIdentity; split <;> rfl
@[simp] theorem withIdentity_fdNeg (s : S) (d : Bytes) : (withIdentity s d).fdNeg = s.fdNeg := by unfold withIdentity; split <;> rfl
@[simp] theorem withIdentity_incoming (s : S) (d : Bytes) : (withIdentity s d).incoming = s.incoming := by unfold withIdentity; split <;> rfl
@[simp] theorem withIdentity_tape (s : S) (d : Bytes) : (withIdentity s d).tape = s.tape := by unfold withIdentity; split <;> rfl
@[simp] theorem withIdentity_outgoing (s : S) (d : Bytes) : (withIdentity s d).outgoing = s.outgoing := by unfold withIdentity; split <;> rfl
@[simp] theorem sendData_phase (s : S) (d : Bytes) : (sendData s d).phase = s.phase := by unfold sendData; split <;> rfl
@[simp] theorem sendData_mech (s : S) (d : Bytes) : (sendData s d).mech = s.mech := by unfold sendData; split <;> rfl
@[simp] theorem sendData_desired (s : S) (d : Bytes) : (sendData s d).desired = s.desired := by unfold sendData; split <;> rfl
@[simp] theorem sendData_authorized (s : S) (d : Bytes) : (sendData s d).authorized = s.authorized := by unfold sendData; split <;> rfl
@[simp] theorem sendData_cookieId (s : S) (d : Bytes) : (sendData s d).cookieId = s.cookieId := by unfold sendData; split <;> rfl
@[simp] theorem sendData_challenge (s : S) (d : Bytes) : (sendData s d).challenge = s.challenge := by unfold sendData; split <;> rfl
@[simp] theorem sendData_asked (s : S) (d : Bytes) : (sendData s d).asked = s.asked := by unfold sendData; split <;> rfl
@[simp] theorem sendData_failures (s : S) (d : Bytes) : (sendData s d).failures = s.failures := by unfold sendData; split <;> rfl
@[simp] theorem sendData_fdNeg (s : S) (d : Bytes) : (sendData s d).fdNeg = s.fdNeg := by unfold sendData; split <;> rfl
@[simp] theorem sendData_incoming (s : S) (d : Bytes) : (sendData s d).incoming = s.incoming := by unfold sendData; split <;> rfl
@[simp] theorem sendData_tape (s : S) (d : Bytes) : (sendData s d).tape = s.tape := by unfold sendData; split <;> rfl
@[simp] theorem sendData_identity (s : S) (d : Bytes) : (sendData s d).identity = s.identity := by unfold sendData; split <;> rfl
@[simp] theorem sendOk_mech (env : Env) (s : S) : (sendOk env s).mech = s.mech := rfl
@[simp] theorem sendOk_desired (env : Env) (s : S) : (sendOk env s).desired = s.desired := rfl
@[simp] theorem sendOk_authorized (env : Env) (s : S) : (sendOk env s).authorized = s.authorized := rfl
@[simp] theorem sendOk_cookieId (env : Env) (s : S) : (sendOk env s).cookieId = s.cookieId := rfl
@[simp] theorem sendOk_challenge (env : Env) (s : S) : (sendOk env s).challenge = s.challenge := rfl
@[simp] theorem sendOk_asked (env : Env) (s : S) : (sendOk env s).asked = s.asked := rfl
@[simp] theorem sendOk_failures (env : Env) (s : S) : (sendOk env s).failures = s.failures := rfl
@[simp] theorem sendOk_fdNeg (env : Env) (s : S) : (sendOk env s).fdNeg = s.fdNeg := rfl
@[simp] theorem sendOk_incoming (env : Env) (s : S) : (sendOk env s).incoming = s.incoming := rfl
@[simp] theorem sendOk_tape (env : Env) (s : S) : (sendOk env s).tape = s.tape := rfl
@[simp] theorem sendOk_identity (env : Env) (s : S) : (sendOk env s).identity = s.identity := rfl
@[simp] theorem sendOk_phase (env : Env) (s : S) : (sendOk env s).phase = .waitingForBegin := rfl

/-- what the mechanism in `s.mech` establishes, given the environment -/
def Established (env : Env) (s : S) : Prop :=
  match s.mech with
  | some .external => env.permits Mech.external.name ∧ ∃ u, env.sock.uid = some u ∧
      s.authorized = { uid := some u, pid := env.sock.pid, gids := env.sock.gids, label := env.sock.label }
  | some .cookie => env.permits Mech.cookie.name ∧ s.authorized = { uid := some env.selfUid, pid := env.sock.pid }
  | some .anonymous => env.permits Mech.anonymous.name ∧ s.authorized = { pid := env.sock.pid }
  | none => False

structure Inv (env : Env) (s : S) : Prop where
  auth : s.phase = .waitingForAuth →
    s.authorized = {} ∧ s.desired = {} ∧ s.identity = [] ∧ s.cookieId = none ∧ s.asked = false
  data : s.phase = .waitingForData → s.authorized = {} ∧
    ((s.mech = some .external ∧ env.permits Mech.external.name ∧ s.identity = [] ∧ s.desired = {} ∧ s.cookieId = none) ∨
     (s.mech = some .cookie ∧ env.permits Mech.cookie.name ∧ s.cookieId.isSome ∧ s.desired = { uid := some env.selfUid }))
  begun : s.phase = .waitingForBegin ∨ s.phase = .authenticated → Established env s
  cookie : s.cookieId.isSome → s.mech = some .cookie
  fails : s.failures ≤ MAX_FAILURES ∧ (s.phase ≠ .needDisconnect → s.failures < MAX_FAILURES)

theorem inv_init (env : Env) (tape : List Choice) : Inv env { tape := tape } :=
  ⟨fun _ => ⟨rfl, rfl, rfl, rfl, rfl⟩, fun h => by simp at h, fun h => by simp at h, fun h => by simp at h,
   by simp [MAX_FAILURES]⟩

theorem sendRejected_inv (env : Env) (s : S) (hc : s.cookieId.isSome → s.mech = some .cookie)
    (hf : s.failures < MAX_FAILURES) : Inv env (sendRejected env s) := by
  have hcid : (shutdownMech (say s (rejectedLine env))).cookieId = none := by
    unfold shutdownMech
    cases hm : s.mech with
    | none =>
      cases hcc : s.cookieId with
      | none => simp [hm, hcc]
      | some _ => have := hc (by simp [hcc]); simp [hm] at this
    | some m =>
      cases m with
      | cookie => simp [hm]
      | external =>
        cases hcc : s.cookieId with
        | none => simp [hm, hcc]
        | some _ => have := hc (by simp [hcc]); simp [hm] at this
      | anonymous =>
        cases hcc : s.cookieId with
        | none => simp [hm, hcc]
        | some _ => have := hc (by simp [hcc]); simp [hm] at this
  have hrest : (shutdownMech (say s (rejectedLine env))).authorized = {} ∧
      (shutdownMech (say s (rejectedLine env))).desired = {} ∧
      (shutdownMech (say s (rejectedLine env))).identity = [] ∧
      (shutdownMech (say s (rejectedLine env))).asked = false ∧
      (shutdownMech (say s (rejectedLine env))).failures = s.failures := by
    unfold shutdownMech
    cases hm : s.mech with
    | none => simp [hm]
    | some m => cases m <;> simp [hm]
  obtain ⟨h1, h2, h3, h4, h5⟩ := hrest
  unfold sendRejected
  refine ⟨?_, ?_, ?_, ?_, ?_⟩
  · intro _; exact ⟨h1, h2, h3, hcid, h4⟩
  · intro h; dsimp only at h; rw [h5] at h; split at h <;> simp at h
  · intro h; dsimp only at h; rw [h5] at h; split at h <;> simp at h
  · intro h; dsimp only at h; rw [hcid] at h; simp at h
  · dsimp only; rw [h5]; constructor
    · omega
    · intro h; split at h
      · simp at h
      · rename_i hlt; omega

end Dbus.Proofs.Auth
