import Dbus.Model.Auth
import Dbus.Proofs.AuthF
namespace Dbus.Proofs.Auth
open Dbus Dbus.Model Dbus.Model.Auth Dbus.Spec.Auth

/-- one line, as the specification sees it -/
theorem handleLine_line (env : Env) (s : S) (line : Bytes) (hi : Inv env s) (hne : s.phase.isEnd = false) :
    ∃ r, Eff s (handleLine env s line) r ∧
      (line.all isAscii = false → r = errNonAscii ∧ (handleLine env s line).phase = s.phase ∧
          (handleLine env s line).failures = s.failures) ∧
      (line.all isAscii = true → LineOutcome env s (handleLine env s line) r (cmdOf (splitLine line).1)) := by
  unfold handleLine
  split
  · rename_i h
    exact ⟨errNonAscii, ⟨rfl, rfl⟩, fun _ => ⟨rfl, rfl, rfl⟩, fun h' => by simp [h'] at h⟩
  · rename_i h
    have hasc : line.all isAscii = true := by simpa using h
    dsimp only
    split
    · rename_i hph
      obtain ⟨r, e, l⟩ := waitingForAuth_line env s (cmdOf (splitLine line).1) (splitLine line).2 hph
      exact ⟨r, e, fun h' => by simp [hasc] at h', fun _ => l⟩
    · rename_i hph
      have hm : s.mech.isSome := by
        rcases (hi.data hph).2 with ⟨h, _⟩ | ⟨h, _⟩ <;> simp [h]
      obtain ⟨r, e, l⟩ := waitingForData_line env s (cmdOf (splitLine line).1) (splitLine line).2 hph hm
      exact ⟨r, e, fun h' => by simp [hasc] at h', fun _ => l⟩
    · rename_i hph
      obtain ⟨r, e, l⟩ := waitingForBegin_line env s (cmdOf (splitLine line).1) (splitLine line).2 hph
      exact ⟨r, e, fun h' => by simp [hasc] at h', fun _ => l⟩
    · rename_i h1 h2 h3
      cases hp : s.phase <;> simp [hp, Phase.isEnd] at hne h1 h2 h3

/-! ### lines and the byte stream -/

theorem findCRLF_spec : ∀ (l : Bytes) (n : Nat), findCRLF l = some n →
    l = l.take n ++ crlf ++ l.drop (n + 2) ∧ findCRLF (l.take n) = none
  | [], n, h => by simp [findCRLF] at h
  | [a], n, h => by simp [findCRLF] at h
  | a :: b :: r, n, h => by
    unfold findCRLF at h
    split at h
    · rename_i hab
      cases h
      simp [crlf, hab.1, hab.2, findCRLF]
    · rename_i hab
      cases hr : findCRLF (b :: r) with
      | none => simp [hr] at h
      | some m =>
        simp [hr] at h
        subst h
        obtain ⟨h1, h2⟩ := findCRLF_spec (b :: r) m hr
        constructor
        · simp only [List.take_succ_cons, List.drop_succ_cons, List.cons_append]
          have : List.drop (m + 2) (b :: r) = List.drop (m + 1) r := by simp
          rw [this] at h1
          rw [← h1]
        · simp only [List.take_succ_cons]
          cases m with
          | zero => simp [findCRLF]
          | succ k =>
            simp only [List.take_succ_cons] at h2 ⊢
            unfold findCRLF
            rw [if_neg hab, h2]
            rfl

end Dbus.Proofs.Auth
