import Dbus.Generated.Tables
import Dbus.Spec.Chars
import Dbus.Spec.Types
import Dbus.Model.Utf8
/-
  T-tie proof obligations: the tables regenerated from the compiled source on this run are
  exactly the specification-level definitions the models and theorems are stated over.
  Every statement ranges over the complete finite domain (`decide +kernel`, no sampling).
-/
namespace Dbus.Proofs.Tables
open Dbus Dbus.Spec Dbus.Model

theorem nameChar_table :
    Generated.nameChar = (List.range 256).map (fun n => isNameChar (UInt8.ofNat n)) := by
  decide +kernel
theorem initialNameChar_table :
    Generated.initialNameChar = (List.range 256).map (fun n => isInitialNameChar (UInt8.ofNat n)) := by
  decide +kernel
theorem busNameChar_table :
    Generated.busNameChar = (List.range 256).map (fun n => isBusNameChar (UInt8.ofNat n)) := by
  decide +kernel
theorem initialBusNameChar_table :
    Generated.initialBusNameChar =
      (List.range 256).map (fun n => isInitialBusNameChar (UInt8.ofNat n)) := by
  decide +kernel

theorem utf8Lead_table : Generated.utf8LeadTab = (List.range 256).map utf8Lead := by
  decide +kernel

/-- UTF8_LENGTH and UNICODE_VALID agree with the model at every threshold of both functions
    (they are piecewise constant between these points; the K-tie covers the interior) -/
theorem utf8Point_table :
    Generated.utf8PointTab.all (fun p => utf8Length p.1 == p.2.1 && (unicodeValid p.1 == (p.2.2 == 1)))
      = true := by
  decide +kernel

theorem typeTab_table : Generated.typeTab = (List.range 256).map typeInfo := by
  decide +kernel

theorem limits_table :
    Generated.maxNameLength = MAX_NAME_LENGTH ∧ Generated.maxSignatureLength = MAX_SIGNATURE_LENGTH ∧
    Generated.maxTypeRecursionDepth = MAX_TYPE_DEPTH ∧ Generated.maxArrayLength = MAX_ARRAY_LENGTH ∧
    Generated.maxMessageLength = MAX_MESSAGE_LENGTH := by
  decide

end Dbus.Proofs.Tables
