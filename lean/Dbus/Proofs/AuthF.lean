import Dbus.Model.Auth
import Dbus.Proofs.AuthE
namespace Dbus.Proofs.Auth
open Dbus Dbus.Model Dbus.Model.Auth Dbus.Spec.Auth

theorem line_of_eq {env : Env} {s t s' : S} {r : Bytes} {c : Cmd} (h : Eff t s' r ∧ LineOutcome env t s' r c)
    (ho : t.outgoing = s.outgoing) (hi : t.incoming = s.incoming) (hf : t.failures = s.failures)
    (hp : t.phase = s.phase) : Eff s s' r ∧ LineOutcome env s s' r c := by
  obtain ⟨⟨a, b⟩, c1, c2, c3⟩ := h
  refine ⟨⟨by rw [a, ho], by rw [b, hi]⟩, ?_, ?_, ?_⟩
  · rw [← hf]; exact c1
  · rw [← hf]; exact c2
  · rw [← hp]; exact c3

theorem handleAuth_line (env : Env) (s : S) (args : Bytes) (hph : s.phase = .waitingForAuth) :
    ∃ r, Eff s (handleAuth env s args) r ∧ LineOutcome env s (handleAuth env s args) r .auth := by
  unfold handleAuth
  split
  · exact ⟨_, rejected_line env s .auth (by intro p' h; simp [hph, specAllows, mechReplies, h])⟩
  · dsimp only
    split
    · rename_i m _
      obtain ⟨r, h⟩ := processData_line env { s with mech := some m } m
        ((List.dropWhile (fun b => !isBlank b) args).dropWhile isBlank) .auth
        (by intro k p' h; simp [hph, specAllows, h]) (by simp [hph, specAllows])
      exact ⟨r, line_of_eq h rfl rfl rfl rfl⟩
    · exact ⟨_, line_of_eq (rejected_line env { s with mech := none } .auth
        (by intro p' h; simp [hph, specAllows, mechReplies, h])) rfl rfl rfl rfl⟩

theorem waitingForAuth_line (env : Env) (s : S) (c : Cmd) (args : Bytes) (hph : s.phase = .waitingForAuth) :
    ∃ r, Eff s (waitingForAuth env s c args) r ∧ LineOutcome env s (waitingForAuth env s c args) r c := by
  unfold waitingForAuth
  split
  · exact handleAuth_line env s args hph
  · exact ⟨_, say_line env s _ _ (by simp [kindOf, errNotInConversation]) (by simp [hph, specAllows])⟩
  · exact ⟨_, say_line env s _ _ (by simp [kindOf, errNotInConversation]) (by simp [hph, specAllows])⟩
  · exact ⟨[], ⟨by simp, rfl⟩, by simp [kindOf], fun _ => rfl, by simp [hph, specAllows, kindOf]⟩
  · exact ⟨_, rejected_line env s _ (by intro p' h; simp [hph, specAllows, h])⟩
  · exact ⟨_, say_line env s _ _ (by simp [kindOf, errNeedAuthFirst]) (by simp [hph, specAllows])⟩
  · rename_i h1 h2 h3 h4 h5 h6
    refine ⟨_, say_line env s _ _ (by simp [kindOf, errUnknown]) ?_⟩
    cases c <;> simp [hph, specAllows] at * 

theorem waitingForData_line (env : Env) (s : S) (c : Cmd) (args : Bytes) (hph : s.phase = .waitingForData)
    (hm : s.mech.isSome) :
    ∃ r, Eff s (waitingForData env s c args) r ∧ LineOutcome env s (waitingForData env s c args) r c := by
  unfold waitingForData
  split
  · exact ⟨_, say_line env s _ _ (by simp [kindOf, errAuthInProgress]) (by simp [hph, specAllows])⟩
  · exact ⟨_, rejected_line env s _ (by intro p' h; simp [hph, specAllows, h])⟩
  · exact ⟨_, rejected_line env s _ (by intro p' h; simp [hph, specAllows, h])⟩
  · split
    · exact processData_line env s _ args .data (by intro k p' h; simp [hph, specAllows, h]) (by simp [hph, specAllows])
    · rename_i h; simp [h] at hm
  · exact ⟨[], ⟨by simp, rfl⟩, by simp [kindOf], fun _ => rfl, by simp [hph, specAllows, kindOf]⟩
  · exact ⟨_, say_line env s _ _ (by simp [kindOf, errNeedAuthFirst]) (by simp [hph, specAllows])⟩
  · refine ⟨_, say_line env s _ _ (by simp [kindOf, errUnknown]) ?_⟩
    cases c <;> simp [hph, specAllows] at *

theorem waitingForBegin_line (env : Env) (s : S) (c : Cmd) (args : Bytes) (hph : s.phase = .waitingForBegin) :
    ∃ r, Eff s (waitingForBegin env s c args) r ∧ LineOutcome env s (waitingForBegin env s c args) r c := by
  unfold waitingForBegin
  split
  · exact ⟨_, say_line env s _ _ (by simp [kindOf, errAuthExpectingBegin]) (by simp [hph, specAllows])⟩
  · exact ⟨_, say_line env s _ _ (by simp [kindOf, errDataExpectingBegin]) (by simp [hph, specAllows])⟩
  · exact ⟨[], ⟨by simp, rfl⟩, by simp [kindOf], fun _ => rfl, by simp [hph, specAllows, kindOf]⟩
  · split
    · exact ⟨wAGREE, ⟨rfl, rfl⟩, by simp [kindOf, wAGREE], fun _ => rfl, by simp [hph, specAllows, kindOf, wAGREE]⟩
    · exact ⟨_, say_line env s _ _ (by simp [kindOf, errNoFd]) (by simp [hph, specAllows])⟩
  · exact ⟨_, rejected_line env s _ (by intro p' h; simp [hph, specAllows, h])⟩
  · exact ⟨_, rejected_line env s _ (by intro p' h; simp [hph, specAllows, h])⟩
  · refine ⟨_, say_line env s _ _ (by simp [kindOf, errUnknown]) ?_⟩
    cases c <;> simp [hph, specAllows] at *

end Dbus.Proofs.Auth
