import Dbus.Model.Auth
import Dbus.Proofs.AuthC
namespace Dbus.Proofs.Auth
open Dbus Dbus.Model Dbus.Model.Auth

theorem Inv.setIncoming {env : Env} {s : S} (h : Inv env s) (b : Bytes) : Inv env { s with incoming := b } :=
  ⟨h.auth, h.data, h.begun, h.cookie, h.fails⟩
theorem Inv.setOutgoing {env : Env} {s : S} (h : Inv env s) (b : Bytes) : Inv env { s with outgoing := b } :=
  ⟨h.auth, h.data, h.begun, h.cookie, h.fails⟩
theorem Inv.addTape {env : Env} {s : S} (h : Inv env s) (t : List Choice) : Inv env { s with tape := t } :=
  ⟨h.auth, h.data, h.begun, h.cookie, h.fails⟩
theorem Inv.disconnect {env : Env} {s : S} (h : Inv env s) : Inv env { s with phase := .needDisconnect } :=
  ⟨fun h => by simp at h, fun h => by simp at h, fun h => by simp at h, h.cookie, ⟨h.fails.1, fun h => by simp at h⟩⟩

theorem doWork_inv (env : Env) (fuel : Nat) (s : S) (hi : Inv env s) : Inv env (doWork env fuel s) := by
  induction fuel generalizing s with
  | zero => exact hi
  | succ fuel ih =>
    unfold doWork
    split
    · exact hi
    · split
      · exact hi.disconnect
      · split
        · exact hi
        · exact ih _ ((handleLine_inv env s _ hi).setIncoming _)

theorem feed_inv (env : Env) (s : S) (bs : Bytes) (hi : Inv env s) : Inv env (feed env s bs) :=
  doWork_inv env _ _ (hi.setIncoming _)

theorem drain_inv (env : Env) (s : S) (n : Nat) (hi : Inv env s) : Inv env (drain env s n) :=
  doWork_inv env _ _ (hi.setOutgoing _)

/-- what can happen to a server-side conversation -/
inductive Op
  | feed (bs : Bytes)        -- bytes arrive, in any chunking
  | drain (n : Nat)          -- part of the replies is written out
  | oracle (t : List Choice) -- the environment commits to further choices (keyring, cookie, challenge)

def Op.apply (env : Env) (s : S) : Op → S
  | .feed bs => Dbus.Model.Auth.feed env s bs
  | .drain n => Dbus.Model.Auth.drain env s n
  | .oracle t => { s with tape := s.tape ++ t }

def run (env : Env) (ops : List Op) : S := ops.foldl (Op.apply env) {}

theorem run_inv (env : Env) (ops : List Op) : Inv env (run env ops) := by
  unfold run
  suffices h : ∀ s, Inv env s → Inv env (ops.foldl (Op.apply env) s) from h _ (inv_init env [])
  induction ops with
  | nil => intro s h; exact h
  | cons op ops ih =>
    intro s h
    apply ih
    cases op with
    | feed bs => exact feed_inv env s bs h
    | drain n => exact drain_inv env s n h
    | oracle t => exact h.addTape _

end Dbus.Proofs.Auth
