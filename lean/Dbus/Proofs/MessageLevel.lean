import Dbus.Proofs.Loader
import Dbus.Model.Encode
/-
  Message level: `loadOne` accepts exactly the wire images (`encodeMsg`) of well-formed
  messages, and returns that message.
-/
namespace Dbus.Proofs.Message
open Dbus Dbus.Spec Dbus.Model Dbus.Proofs.Wire Dbus.Proofs.Loader

/-- byte length of the header-fields array of a field list -/
def fieldsLen (e : Endian) (fs : List Field) : Nat := (encodeList e 16 (fs.map fieldVal)).length

/-- A well-formed message, for a loader with maximum message size `mx` that has received
    `fds` descriptors: fixed-header values in range, protocol version 1, serial and type
    non-zero; every header field a well-formed `(yv)` struct; known fields of the prescribed
    type, at most once, with valid contents and not the reserved local names, code 0 absent;
    the fields mandatory for the message type present; the body typed by the SIGNATURE field
    and well-formed; sizes within the limits; UNIX_FDS covered by received descriptors. -/
structure WFMsg (mx fds : Nat) (m : Msg) : Prop where
  mtype_ne : m.mtype ≠ 0
  version_eq : m.version = 1
  serial_ne : m.serial ≠ 0
  header_wf : WFFields m.endian 0 0
    (headerValues m.endian m.mtype m.flags m.version (encodeBody m).length m.serial m.fields) headerTypes
  fields_ok : checkFields true m.fields [] = true
  mandatory : mandatoryOK m.mtype m.fields = true
  body_types : bodyTypesOf m.fields = some m.bodyTypes
  body_wf : WFFields m.endian 0 0 m.body m.bodyTypes
  falen_le : fieldsLen m.endian m.fields ≤ mx
  blen_le : (encodeBody m).length ≤ mx
  total_le : align8 (16 + fieldsLen m.endian m.fields) + (encodeBody m).length ≤ mx
  fds_ok : unixFdsOf m.fields ≤ fds

theorem fieldOfVal_fieldVal (f : Field) : fieldOfVal (fieldVal f) = some f := by
  cases f; rfl

theorem fieldOfVal_some {v : Val} {f : Field} (h : fieldOfVal v = some f) : v = fieldVal f := by
  unfold fieldOfVal at h
  split at h
  · simp only [Option.some.injEq] at h; subst h; rfl
  · cases h

theorem mapM_fieldOfVal_map : ∀ fs : List Field, (fs.map fieldVal).mapM fieldOfVal = some fs
  | [] => rfl
  | f :: fs => by
    simp only [List.map_cons, List.mapM_cons, fieldOfVal_fieldVal, mapM_fieldOfVal_map fs]
    rfl

theorem mapM_fieldOfVal_some : ∀ (vs : List Val) (fs : List Field), vs.mapM fieldOfVal = some fs →
    vs = fs.map fieldVal
  | [], fs, h => by simp at h; subst h; rfl
  | v :: vs, fs, h => by
    simp only [List.mapM_cons] at h
    cases hv : fieldOfVal v with
    | none => rw [hv] at h; simp at h
    | some f =>
      rw [hv] at h
      cases hr : vs.mapM fieldOfVal with
      | none => rw [hr] at h; simp at h
      | some fs' =>
        rw [hr] at h
        simp at h
        subst h
        rw [fieldOfVal_some hv, mapM_fieldOfVal_some vs fs' hr]
        rfl

theorem endianOfByte_toByte (e : Endian) : endianOfByte e.toByte = some e := by
  cases e <;> rfl

theorem endianOfByte_some {b : UInt8} {e : Endian} (h : endianOfByte b = some e) : b = e.toByte := by
  unfold endianOfByte at h
  split at h
  · rename_i hb; simp only [Option.some.injEq] at h; subst h; exact hb
  · split at h
    · rename_i hb; simp only [Option.some.injEq] at h; subst h; exact hb
    · cases h

/-- the header encoding, with its 16 fixed bytes made explicit -/
theorem header_bytes (e : Endian) (n0 n1 n2 n3 n4 n5 : Nat) (fv : List Val) :
    encodeList e 0 [.fixed .byte n0, .fixed .byte n1, .fixed .byte n2, .fixed .byte n3, .fixed .u32 n4,
            .fixed .u32 n5, .array (.struct [.basic .byte, .variant]) fv] =
      [UInt8.ofNat n0, UInt8.ofNat n1, UInt8.ofNat n2, UInt8.ofNat n3] ++ (encNat e 4 n4 ++ (encNat e 4 n5 ++
        (encNat e 4 (encodeList e 16 fv).length ++ encodeList e 16 fv))) := by
  rw [header_enc]
  simp [encNat_one, ofNat_mod_256]


/-- what `frameOf` makes of a buffer laid out as a fixed header -/
theorem frameOf_layout (mx : Nat) (e : Endian) (b1 b2 b3 : UInt8) (n4 n5 L : Nat) (X : Bytes)
    (h4 : n4 < 256 ^ 4) (hL : L < 256 ^ 4) :
    frameOf mx ([e.toByte, b1, b2, b3] ++ (encNat e 4 n4 ++ (encNat e 4 n5 ++ (encNat e 4 L ++ X)))) =
      frameCore mx ([e.toByte, b1, b2, b3] ++ (encNat e 4 n4 ++ (encNat e 4 n5 ++ (encNat e 4 L ++ X)))).length
        { e := e, falen := L, blen := n4 } := by
  unfold frameOf
  have hlen : ¬ ([e.toByte, b1, b2, b3] ++ (encNat e 4 n4 ++ (encNat e 4 n5 ++ (encNat e 4 L ++ X)))).length < 16 := by
    simp [encNat_length]; omega
  rw [if_neg hlen]
  have h0 : ([e.toByte, b1, b2, b3] ++ (encNat e 4 n4 ++ (encNat e 4 n5 ++ (encNat e 4 L ++ X)))).getD 0 0 = e.toByte := rfl
  rw [h0, endianOfByte_toByte]
  simp only
  have h12 : (([e.toByte, b1, b2, b3] ++ (encNat e 4 n4 ++ (encNat e 4 n5 ++ (encNat e 4 L ++ X)))).drop 12).take 4 =
      encNat e 4 L := by
    have : [e.toByte, b1, b2, b3] ++ (encNat e 4 n4 ++ (encNat e 4 n5 ++ (encNat e 4 L ++ X))) =
        ([e.toByte, b1, b2, b3] ++ (encNat e 4 n4 ++ encNat e 4 n5)) ++ (encNat e 4 L ++ X) := by simp
    rw [this, List.drop_left' (by simp [encNat_length]), List.take_left' (encNat_length _ _ _)]
  have h4' : (([e.toByte, b1, b2, b3] ++ (encNat e 4 n4 ++ (encNat e 4 n5 ++ (encNat e 4 L ++ X)))).drop 4).take 4 =
      encNat e 4 n4 := by
    rw [List.drop_left' (by simp), List.take_left' (encNat_length _ _ _)]
  rw [h12, h4', decNat_encNat _ _ _ hL, decNat_encNat _ _ _ h4]


section complete
variable (mx fds : Nat) (e : Endian) (mtype flags version serial : Nat) (fields : List Field)
  (btys : List Ty) (body : List Val)

/-- the frame announced by the wire image of a message -/
def frameOfMsg (m : Msg) : Frame :=
  { e := m.endian, falen := fieldsLen m.endian m.fields, blen := (encodeBody m).length }

theorem encodeMsg_layout (m : Msg) (rest : Bytes) :
    encodeMsg m ++ rest =
      [m.endian.toByte, UInt8.ofNat m.mtype, UInt8.ofNat m.flags, UInt8.ofNat m.version] ++
        (encNat m.endian 4 (encodeBody m).length ++ (encNat m.endian 4 m.serial ++
          (encNat m.endian 4 (fieldsLen m.endian m.fields) ++
            (encodeList m.endian 16 (m.fields.map fieldVal) ++
              (pad (16 + fieldsLen m.endian m.fields) 8 ++ (encodeBody m ++ rest)))))) := by
  unfold encodeMsg encodeHeader headerValues
  simp only [header_bytes, UInt8.ofNat_toNat, fieldsLen]
  simp only [List.length_append, List.length_cons, List.length_nil, encNat_length, List.append_assoc,
    List.cons_append, List.nil_append]
  have hn : ∀ x : Nat, 4 + (4 + (4 + x)) + 1 + 1 + 1 + 1 = 16 + x := by intro x; omega
  rw [hn]

theorem encodeMsg_length (m : Msg) :
    (encodeMsg m).length = align8 (16 + fieldsLen m.endian m.fields) + (encodeBody m).length := by
  have := congrArg List.length (encodeMsg_layout m [])
  simp only [List.length_append, List.length_cons, List.length_nil, encNat_length, pad_length,
    List.append_nil] at this
  unfold align8
  have hf : (encodeList m.endian 16 (m.fields.map fieldVal)).length = fieldsLen m.endian m.fields := rfl
  omega

theorem hlen_frameOfMsg (m : Msg) : (frameOfMsg m).hlen = align8 (16 + fieldsLen m.endian m.fields) := rfl

end complete

theorem u32_bound {e : Endian} {d off n : Nat} (h : WFVal e d off (.fixed .u32 n) (.basic .u32)) : n < 256 ^ 4 := by
  simp only [WFVal] at h
  exact h.2.2.1


/-- bounds that the header's well-formedness gives -/
theorem header_bounds {mx fds : Nat} {m : Msg} (h : WFMsg mx fds m) :
    (encodeBody m).length < 256 ^ 4 ∧ fieldsLen m.endian m.fields < 256 ^ 4 := by
  have hw := h.header_wf
  unfold headerValues headerTypes at hw
  simp only [WFFields, WFVal] at hw
  refine ⟨hw.2.2.2.2.1.2.2.1, ?_⟩
  have := hw.2.2.2.2.2.2.1.2.1
  simp [padLen, pad, Ty.align, MAX_ARRAY_LENGTH, encode, encNat_length, BTy.align, BTy.size,
    BTy.fixedSize] at this
  unfold fieldsLen
  rw [pow_256_4]
  omega

theorem frameOf_encodeMsg {mx fds : Nat} {m : Msg} (h : WFMsg mx fds m) (rest : Bytes) :
    frameOf mx (encodeMsg m ++ rest) = .framed (frameOfMsg m) := by
  obtain ⟨hb, hf⟩ := header_bounds h
  rw [encodeMsg_layout, frameOf_layout mx _ _ _ _ _ _ _ _ hb hf, ← encodeMsg_layout]
  unfold frameCore
  have ht : (frameOfMsg m).total = align8 (16 + fieldsLen m.endian m.fields) + (encodeBody m).length := rfl
  have h1 := h.falen_le
  have h2 := h.blen_le
  have h3 := h.total_le
  have hl : (encodeMsg m ++ rest).length = (encodeMsg m).length + rest.length := by simp
  have hl2 := encodeMsg_length m
  show (if mx < fieldsLen m.endian m.fields then FrameResult.corrupt
    else if mx < (encodeBody m).length then .corrupt
    else if mx < (frameOfMsg m).total then .corrupt
    else if (encodeMsg m ++ rest).length < (frameOfMsg m).total then .incomplete
    else .framed (frameOfMsg m)) = _
  rw [if_neg (by omega), if_neg (by omega), if_neg (by omega), if_neg (by omega)]

theorem headerVals_encodeMsg {mx fds : Nat} {m : Msg} (h : WFMsg mx fds m) (rest : Bytes) :
    headerVals (frameOfMsg m) (encodeMsg m ++ rest) =
      some (m.mtype, m.flags, m.version, m.serial, m.fields.map fieldVal) := by
  unfold headerVals
  have hdec : decodeFields m.endian (fuelFor (encodeMsg m ++ rest).length) 0 headerTypes 0 (encodeMsg m ++ rest) =
      some (headerValues m.endian m.mtype m.flags m.version (encodeBody m).length m.serial m.fields,
        pad (encodeList m.endian 0 (headerValues m.endian m.mtype m.flags m.version (encodeBody m).length m.serial m.fields)).length 8
          ++ (encodeBody m ++ rest)) := by
    apply (decodeFields_iff m.endian headerTypes _ _ _).2
    refine ⟨?_, h.header_wf⟩
    unfold encodeMsg encodeHeader
    simp
  show (match decodeFields (frameOfMsg m).e (fuelFor (encodeMsg m ++ rest).length) 0 headerTypes 0 (encodeMsg m ++ rest) with
    | some ([.fixed _ _, .fixed _ mtype, .fixed _ flags, .fixed _ version, .fixed _ _,
             .fixed _ serial, .array _ fvals], _) => some (mtype, flags, version, serial, fvals)
    | _ => none) = _
  have he : (frameOfMsg m).e = m.endian := rfl
  rw [he, hdec]
  rfl

theorem headerPadding_encodeMsg (m : Msg) (rest : Bytes) :
    headerPadding (frameOfMsg m) (encodeMsg m ++ rest) = pad (16 + fieldsLen m.endian m.fields) 8 := by
  unfold headerPadding
  have hfa : (frameOfMsg m).falen = fieldsLen m.endian m.fields := rfl
  have hhl : (frameOfMsg m).hlen - (16 + (frameOfMsg m).falen) = padLen (16 + fieldsLen m.endian m.fields) 8 := by
    rw [hlen_frameOfMsg, hfa]; unfold align8; omega
  rw [hhl, hfa, encodeMsg_layout]
  have : [m.endian.toByte, UInt8.ofNat m.mtype, UInt8.ofNat m.flags, UInt8.ofNat m.version] ++
        (encNat m.endian 4 (encodeBody m).length ++ (encNat m.endian 4 m.serial ++
          (encNat m.endian 4 (fieldsLen m.endian m.fields) ++
            (encodeList m.endian 16 (m.fields.map fieldVal) ++
              (pad (16 + fieldsLen m.endian m.fields) 8 ++ (encodeBody m ++ rest)))))) =
      ([m.endian.toByte, UInt8.ofNat m.mtype, UInt8.ofNat m.flags, UInt8.ofNat m.version] ++
        (encNat m.endian 4 (encodeBody m).length ++ (encNat m.endian 4 m.serial ++
          (encNat m.endian 4 (fieldsLen m.endian m.fields) ++
            encodeList m.endian 16 (m.fields.map fieldVal))))) ++
              (pad (16 + fieldsLen m.endian m.fields) 8 ++ (encodeBody m ++ rest)) := by simp
  rw [this, List.drop_left' (by simp [encNat_length, fieldsLen]; omega), List.take_left' (pad_length _ _)]

theorem bodyBytes_encodeMsg (m : Msg) (rest : Bytes) :
    bodyBytes (frameOfMsg m) (encodeMsg m ++ rest) = encodeBody m := by
  unfold bodyBytes
  have hbl : (frameOfMsg m).blen = (encodeBody m).length := rfl
  rw [hbl, hlen_frameOfMsg]
  have : encodeMsg m ++ rest =
      encodeHeader m.endian m.mtype m.flags m.version (encodeBody m).length m.serial m.fields ++ (encodeBody m ++ rest) := by
    unfold encodeMsg; simp
  have hl : (encodeHeader m.endian m.mtype m.flags m.version (encodeBody m).length m.serial m.fields).length =
      align8 (16 + fieldsLen m.endian m.fields) := by
    have := encodeMsg_length m
    unfold encodeMsg at this
    simp only [List.length_append] at this
    omega
  rw [this, List.drop_left' hl, List.take_left]

/-- **Completeness at message level**: the wire image of every well-formed message, followed
    by anything, is loaded as exactly that message and consumes exactly its image. -/
theorem loadOne_encodeMsg {mx fds : Nat} {m : Msg} (h : WFMsg mx fds m) (rest : Bytes) :
    loadOne true mx fds (encodeMsg m ++ rest) = .ok m (encodeMsg m).length := by
  unfold loadOne
  rw [frameOf_encodeMsg h rest]
  simp only
  rw [headerVals_encodeMsg h rest]
  simp only
  have hc : checkHeader true (frameOfMsg m) (encodeMsg m ++ rest) m.mtype m.version m.serial (m.fields.map fieldVal)
      = some m.fields := by
    unfold checkHeader
    rw [headerPadding_encodeMsg]
    have hz : (pad (16 + fieldsLen m.endian m.fields) 8).all (· == 0) = true := by simp [pad]
    rw [hz]
    simp only [Bool.not_true, Bool.false_eq_true, if_false]
    rw [if_neg h.mtype_ne, if_neg (by simp [h.version_eq]), if_neg h.serial_ne, mapM_fieldOfVal_map]
    simp only [h.fields_ok, h.mandatory, Bool.not_true, Bool.false_eq_true, if_false]
  rw [hc]
  simp only
  have hb : bodyVals (fuelFor (encodeMsg m ++ rest).length) (frameOfMsg m) m.fields (encodeMsg m ++ rest)
      = some (m.bodyTypes, m.body) := by
    unfold bodyVals
    rw [h.body_types, bodyBytes_encodeMsg]
    simp only
    have hfuel : needList m.body ≤ fuelFor (encodeMsg m ++ rest).length := by
      have h1 := fuelFor_covers m.endian m.body m.bodyTypes 0 (encodeBody m).length h.body_wf (Nat.le_refl _)
      have h2 : (encodeBody m).length ≤ (encodeMsg m ++ rest).length := by
        rw [List.length_append, encodeMsg_length]; omega
      have := fuelFor_mono h2
      omega
    have := decodeFields_complete m.endian m.body m.bodyTypes 0 0 [] _ h.body_wf hfuel
    simp only [List.append_nil] at this
    have he : (frameOfMsg m).e = m.endian := rfl
    rw [he]
    unfold encodeBody
    rw [this]
  rw [hb]
  simp only
  rw [if_neg (by have := h.fds_ok; omega)]
  have ht : (frameOfMsg m).total = (encodeMsg m).length := by
    rw [encodeMsg_length]; rfl
  rw [ht]
  cases m
  rfl


theorem all_zero_pad (l : Bytes) (n a : Nat) (hz : l.all (· == 0) = true) (hl : l.length = padLen n a) :
    l = pad n a := by
  have := all_zero_eq_replicate l hz
  rw [this, hl]; rfl

theorem take_add' (l : Bytes) (a b : Nat) : l.take (a + b) = l.take a ++ (l.drop a).take b := by
  rw [List.take_add]

/-- **Soundness at message level**: what `loadOne` returns as a message is a well-formed
    message whose wire image is exactly the bytes consumed. -/
theorem loadOne_sound {mx fds : Nat} {bs : Bytes} {m : Msg} {n : Nat}
    (h : loadOne true mx fds bs = .ok m n) :
    n ≤ bs.length ∧ bs.take n = encodeMsg m ∧ WFMsg mx fds m := by
  unfold loadOne at h
  cases hf : frameOf mx bs with
  | incomplete => rw [hf] at h; cases h
  | corrupt => rw [hf] at h; cases h
  | framed f =>
    rw [hf] at h
    simp only at h
    obtain ⟨h16, hend, hfa, hbl, htot, hmx⟩ := frameOf_framed hf
    cases hh : headerVals f bs with
    | none => rw [hh] at h; cases h
    | some p =>
      obtain ⟨mtype, flags, version, serial, fvals⟩ := p
      rw [hh] at h
      simp only at h
      cases hc : checkHeader true f bs mtype version serial fvals with
      | none => rw [hc] at h; cases h
      | some fields =>
        rw [hc] at h
        simp only at h
        cases hb : bodyVals (fuelFor bs.length) f fields bs with
        | none => rw [hb] at h; cases h
        | some q =>
          obtain ⟨tys, vals⟩ := q
          rw [hb] at h
          simp only at h
          split at h
          · cases h
          rename_i hfds
          simp only [LoadResult.ok.injEq] at h
          obtain ⟨hm, hn⟩ := h
          subst hn
          -- header decode
          unfold headerVals at hh
          cases hd : decodeFields f.e (fuelFor bs.length) 0 headerTypes 0 bs with
          | none => rw [hd] at hh; cases hh
          | some pr =>
            obtain ⟨hv, r⟩ := pr
            obtain ⟨hbs, hwf⟩ := (decode_sound f.e _).2.1 0 _ 0 bs hv r hd
            obtain ⟨n0, n1, n2, n3, n4, n5, fv, rfl⟩ := header_shape f.e hv hwf
            rw [hd] at hh
            simp only [Option.some.injEq, Prod.mk.injEq] at hh
            obtain ⟨rfl, rfl, rfl, rfl, rfl⟩ := hh
            -- ranges
            have hwf' := hwf
            unfold headerTypes at hwf'
            simp only [WFFields, WFVal] at hwf'
            have hn0 : n0 < 256 := by simpa [BTy.size, BTy.fixedSize] using hwf'.1.2.2.1
            have hn4 : n4 < 256 ^ 4 := hwf'.2.2.2.2.1.2.2.1
            have hL : (encodeList f.e 16 fv).length < 256 ^ 4 := by
              have := hwf'.2.2.2.2.2.2.1.2.1
              simp [padLen, pad, Ty.align, MAX_ARRAY_LENGTH, encode, encNat_length, BTy.align, BTy.size,
                BTy.fixedSize] at this
              rw [pow_256_4]; omega
            -- byte 0 is the endianness byte
            have hb0 : UInt8.ofNat n0 = f.e.toByte := by
              have : bs.getD 0 0 = UInt8.ofNat n0 := by rw [hbs, header_bytes]; rfl
              rw [this] at hend
              exact endianOfByte_some hend
            have hn0' : n0 = f.e.toByte.toNat := by
              have := congrArg UInt8.toNat hb0
              rw [toNat_ofNat_lt n0 hn0] at this
              exact this
            -- the frame is the one the header announces
            have hframe : f = { e := f.e, falen := (encodeList f.e 16 fv).length, blen := n4 } := by
              have hlay := frameOf_layout mx f.e (UInt8.ofNat n1) (UInt8.ofNat n2) (UInt8.ofNat n3) n4 n5
                (encodeList f.e 16 fv).length (encodeList f.e 16 fv ++ r) hn4 hL
              have hbs' : bs = [f.e.toByte, UInt8.ofNat n1, UInt8.ofNat n2, UInt8.ofNat n3] ++
                  (encNat f.e 4 n4 ++ (encNat f.e 4 n5 ++ (encNat f.e 4 (encodeList f.e 16 fv).length ++
                    (encodeList f.e 16 fv ++ r)))) := by
                rw [hbs, header_bytes, hb0]; simp
              rw [← hbs', hf] at hlay
              exact ((frameCore_framed hlay.symm).1).symm
            have hfalen : f.falen = (encodeList f.e 16 fv).length := by rw [hframe]
            have hblen : f.blen = n4 := by rw [hframe]
            -- the remaining header checks
            unfold checkHeader at hc
            split at hc
            · cases hc
            rename_i hpad
            split at hc
            · cases hc
            rename_i hmt
            split at hc
            · cases hc
            rename_i hver
            split at hc
            · cases hc
            rename_i hser
            cases hmap : fv.mapM fieldOfVal with
            | none => rw [hmap] at hc; cases hc
            | some fields' =>
              rw [hmap] at hc
              simp only at hc
              split at hc
              · cases hc
              rename_i hcf
              split at hc
              · cases hc
              rename_i hmand
              simp only [Option.some.injEq] at hc
              subst hc
              have hfv := mapM_fieldOfVal_some fv fields' hmap
              subst hfv
              -- the body
              unfold bodyVals at hb
              cases hbt : bodyTypesOf fields' with
              | none => rw [hbt] at hb; cases hb
              | some tys' =>
                rw [hbt] at hb
                simp only at hb
                cases hbd : decodeFields f.e (fuelFor bs.length) 0 tys' 0 (bodyBytes f bs) with
                | none => rw [hbd] at hb; cases hb
                | some pr2 =>
                  obtain ⟨vals', r2⟩ := pr2
                  rw [hbd] at hb
                  cases r2 with
                  | cons _ _ => cases hb
                  | nil =>
                    simp only [Option.some.injEq, Prod.mk.injEq] at hb
                    obtain ⟨rfl, rfl⟩ := hb
                    obtain ⟨hbody, hbwf⟩ := (decode_sound f.e _).2.1 0 _ 0 _ vals' [] hbd
                    simp only [List.append_nil] at hbody
                    have hbl_len : (bodyBytes f bs).length = f.blen := by
                      unfold bodyBytes
                      simp only [List.length_take, List.length_drop]
                      unfold Frame.total at htot
                      omega
                    subst hm
                    have henc : (encodeList f.e 0 vals').length = n4 := by
                      rw [← hbody, hbl_len, hblen]
                    have hpadlen : (headerPadding f bs).length = padLen (16 + (encodeList f.e 16 (fields'.map fieldVal)).length) 8 := by
                      unfold headerPadding
                      simp only [List.length_take, List.length_drop]
                      have := hlen_ge f
                      unfold Frame.total at htot
                      rw [← hfalen]
                      unfold Frame.hlen align8 at htot this ⊢
                      omega
                    have hpadeq : headerPadding f bs = pad (16 + (encodeList f.e 16 (fields'.map fieldVal)).length) 8 :=
                      all_zero_pad _ _ _ (by simpa using hpad) hpadlen
                    refine ⟨htot, ?_, ?_⟩
                    · -- bytes
                      show bs.take (f.hlen + f.blen) = _
                      rw [take_add']
                      have h2 : (bs.drop f.hlen).take f.blen = encodeList f.e 0 vals' := by
                        rw [← hbody]; rfl
                      rw [h2]
                      have h1 : bs.take f.hlen = encodeHeader f.e n1 n2 n3 n4 n5 fields' := by
                        unfold encodeHeader headerValues
                        rw [← hn0']
                        have hHlen : (encodeList f.e 0 [.fixed .byte n0, .fixed .byte n1, .fixed .byte n2,
                            .fixed .byte n3, .fixed .u32 n4, .fixed .u32 n5,
                            .array (.struct [.basic .byte, .variant]) (fields'.map fieldVal)]).length =
                            16 + (encodeList f.e 16 (fields'.map fieldVal)).length := by
                          rw [header_bytes]; simp [encNat_length]; omega
                        simp only [hHlen]
                        rw [← hpadeq]
                        unfold headerPadding
                        have hhl : f.hlen = (16 + f.falen) + (f.hlen - (16 + f.falen)) := by
                          have := hlen_ge f; omega
                        conv => lhs; rw [hhl, take_add']
                        congr 1
                        rw [hfalen, ← hHlen, hbs]
                        simp
                      rw [h1]
                      unfold encodeMsg encodeBody
                      simp only [henc]
                    · -- well-formedness
                      have hsz : f.falen ≤ f.total := by
                        have := hlen_ge f; unfold Frame.total; omega
                      refine ⟨hmt, by simpa using hver, hser, ?_, by simpa using hcf, by simpa using hmand,
                        hbt, hbwf, ?_, ?_, ?_, by show unixFdsOf fields' ≤ fds; omega⟩
                      · show WFFields f.e 0 0 (headerValues f.e n1 n2 n3 (encodeList f.e 0 vals').length n5 fields') headerTypes
                        rw [henc]
                        unfold headerValues
                        rw [← hn0']
                        exact hwf
                      · show (encodeList f.e 16 (fields'.map fieldVal)).length ≤ mx
                        rw [← hfalen]; omega
                      · show (encodeList f.e 0 vals').length ≤ mx
                        rw [henc, ← hblen]; unfold Frame.total at hmx; omega
                      · show align8 (16 + (encodeList f.e 16 (fields'.map fieldVal)).length) + (encodeList f.e 0 vals').length ≤ mx
                        rw [henc, ← hblen]
                        show align8 (16 + (encodeList f.e 16 (fields'.map fieldVal)).length) + f.blen ≤ mx
                        rw [← hfalen]
                        exact hmx

end Dbus.Proofs.Message
