import Dbus.Model.Auth
import Dbus.Proofs.AuthA
namespace Dbus.Proofs.Auth
open Dbus Dbus.Model Dbus.Model.Auth

theorem sendOk_inv (env : Env) (s : S) (he : Established env s)
    (hc : s.cookieId.isSome → s.mech = some .cookie) (hf : s.failures < MAX_FAILURES) :
    Inv env (sendOk env s) := by
  refine ⟨fun h => by simp at h, fun h => by simp at h, fun _ => he, hc, ?_⟩
  exact ⟨Nat.le_of_lt hf, fun _ => hf⟩

theorem Creds.add_empty (o : Creds) : ({} : Creds).add o = o := by
  cases o with
  | mk p u g l => cases p <;> cases u <;> cases g <;> cases l <;> rfl

theorem Creds.full (o : Creds) : (((o.addPid o).addGids o).addLabel o) = o := by
  cases o with
  | mk p u g l => cases p <;> cases u <;> cases g <;> cases l <;> rfl

theorem Creds.ext_auth (sock : Creds) (u : Nat) :
    (((({} : Creds).add { uid := some u }).addPid sock).addGids sock).addLabel sock
      = { uid := some u, pid := sock.pid, gids := sock.gids, label := sock.label } := by
  cases sock with
  | mk p u' g l => cases p <;> cases g <;> cases l <;> rfl

theorem superset_uid {sock : Creds} {u : Nat} (h : sock.superset { uid := some u } = true) : sock.uid = some u := by
  simp [Creds.superset] at h
  exact h.symm

theorem established_congr {env : Env} {s t : S} (hm : t.mech = s.mech) (ha : t.authorized = s.authorized) :
    Established env t ↔ Established env s := by
  unfold Established; rw [hm, ha]

/-- preconditions under which EXTERNAL's data handler is entered -/
theorem externalData_inv (env : Env) (s : S) (data : Bytes)
    (hm : s.mech = some .external) (hp : env.permits Mech.external.name = true)
    (ha : s.authorized = {}) (hd : s.desired = {}) (hcid : s.cookieId = none)
    (hf : s.failures < MAX_FAILURES) : Inv env (externalData env s data) := by
  have hc : s.cookieId.isSome → s.mech = some .cookie := by simp [hcid]
  unfold externalData
  split
  · exact sendRejected_inv env s hc hf
  · rename_i hanon
    split
    · exact sendRejected_inv env s hc hf
    · dsimp only
      split
      · -- ask for the identity
        rename_i h
        refine ⟨fun h => by simp at h, fun _ => ?_, fun h => by simp at h, ?_, ?_⟩
        · exact ⟨by simp [ha], Or.inl ⟨by simp [hm], hp, by simpa using h.1, by simp [hd], by simp [hcid]⟩⟩
        · simp [hcid]
        · simp; exact ⟨Nat.le_of_lt hf, hf⟩
      · split
        · -- identity from the socket
          split
          · exact sendRejected_inv env _ (by simp [hcid]) (by simpa using hf)
          · split
            · apply sendOk_inv
              · have hsu : ∃ u, env.sock.uid = some u := by
                  cases hu : env.sock.uid with
                  | none => simp [Creds.anonymous, hu] at hanon
                  | some u => exact ⟨u, rfl⟩
                obtain ⟨u, hu⟩ := hsu
                simp only [Established, withIdentity_mech, hm]
                refine ⟨hp, u, hu, ?_⟩
                simp only [withIdentity_authorized, ha, Creds.add_empty, Creds.full]
                cases hs : env.sock with
                | mk p u' g l => simp [hs] at hu; simp [hu]
              · simp [hcid]
              · simpa using hf
            · exact sendRejected_inv env _ (by simp [hcid]) (by simpa using hf)
        · -- identity given by the peer
          split
          · exact sendRejected_inv env _ (by simp [hcid]) (by simpa using hf)
          · rename_i n hn
            split
            · exact sendRejected_inv env _ (by simp [hcid]) (by simpa using hf)
            · rename_i hnotanon
              split
              · rename_i hsup
                apply sendOk_inv
                · simp only [Established, withIdentity_mech, hm]
                  cases hu : uidOf n with
                  | none => simp [Creds.anonymous, hu] at hnotanon
                  | some u =>
                    simp only [hu] at hsup
                    have := superset_uid hsup
                    refine ⟨hp, u, this, ?_⟩
                    simp only [withIdentity_authorized, ha]
                    exact Creds.ext_auth env.sock u
                · simp [hcid]
                · simpa using hf
              · exact sendRejected_inv env _ (by simp [hcid]) (by simpa using hf)

theorem anonymousData_inv (env : Env) (s : S) (data : Bytes)
    (hm : s.mech = some .anonymous) (hp : env.permits Mech.anonymous.name = true)
    (ha : s.authorized = {}) (hcid : s.cookieId = none)
    (hf : s.failures < MAX_FAILURES) : Inv env (anonymousData env s data) := by
  unfold anonymousData
  split
  · exact sendRejected_inv env s (by simp [hcid]) hf
  · apply sendOk_inv
    · simp only [Established, hm]
      refine ⟨hp, ?_⟩
      simp only [ha]
      cases hs : env.sock with
      | mk p u g l => cases p <;> rfl
    · simp [hcid]
    · exact hf

theorem cookieFirst_inv (env : Env) (s : S) (data : Bytes)
    (hm : s.mech = some .cookie) (hp : env.permits Mech.cookie.name = true)
    (ha : s.authorized = {}) (hd : s.desired = {})
    (hf : s.failures < MAX_FAILURES) : Inv env (cookieFirst env s data) := by
  unfold cookieFirst
  dsimp only
  split
  · exact sendRejected_inv env _ (fun _ => hm) hf
  · split
    · exact sendRejected_inv env _ (fun _ => by simp [hm]) (by simpa using hf)
    · rename_i u hu
      split
      · exact sendRejected_inv env _ (fun _ => by simp [hm]) (by simpa using hf)
      · rename_i hself
        split
        · exact sendRejected_inv env _ (fun _ => by simp [hm]) (by simpa using hf)
        · rename_i ch rest htape
          split
          · exact sendRejected_inv env _ (fun _ => by simp [hm]) (by simpa using hf)
          · split
            · exact sendRejected_inv env _ (fun _ => by simp [hm]) (by simpa using hf)
            · rename_i id hid
              refine ⟨fun h => by simp at h, fun _ => ?_, fun h => by simp at h, fun _ => by simp [hm], ?_⟩
              · refine ⟨by simp [ha], Or.inr ⟨by simp [hm], hp, by simp, ?_⟩⟩
                simp only [sendData_desired, withIdentity_desired, hd]
                simp only [withIdentity_desired, hd, ne_eq, Decidable.not_not] at hself
                simp [hself]
              · simp; exact ⟨Nat.le_of_lt hf, hf⟩

theorem cookieSecond_inv (env : Env) (s : S) (id : Nat) (data : Bytes)
    (hm : s.mech = some .cookie) (hp : env.permits Mech.cookie.name = true)
    (ha : s.authorized = {}) (hd : s.desired = { uid := some env.selfUid })
    (hf : s.failures < MAX_FAILURES) : Inv env (cookieSecond env s id data) := by
  unfold cookieSecond
  split
  · exact sendRejected_inv env _ (fun _ => hm) hf
  · dsimp only
    split
    · exact sendRejected_inv env _ (fun _ => hm) hf
    · split
      · exact sendRejected_inv env _ (fun _ => hm) hf
      · split
        · exact sendRejected_inv env _ (fun _ => hm) hf
        · apply sendOk_inv
          · simp only [Established, hm]
            refine ⟨hp, ?_⟩
            simp only [ha, hd]
            cases hs : env.sock with
            | mk p u g l => cases p <;> rfl
          · intro _; exact hm
          · exact hf

end Dbus.Proofs.Auth
