import Dbus.Model.ObjectTree
namespace Dbus.Proofs.Tree
open Dbus Dbus.Spec.Tree Dbus.Model.Tree

theorem bytesLt_irrefl : ∀ a : Bytes, bytesLt a a = false
  | [] => rfl
  | a :: as => by simp [bytesLt, bytesLt_irrefl as]

theorem bytesLt_trans : ∀ a b c : Bytes, bytesLt a b = true → bytesLt b c = true → bytesLt a c = true
  | [], [], _, h, _ => by simp [bytesLt] at h
  | [], _ :: _, [], _, h => by simp [bytesLt] at h
  | [], _ :: _, _ :: _, _, _ => by simp [bytesLt]
  | _ :: _, [], _, h, _ => by simp [bytesLt] at h
  | _ :: _, _ :: _, [], _, h => by simp [bytesLt] at h
  | x :: xs, y :: ys, z :: zs, h1, h2 => by
    simp only [bytesLt] at h1 h2 ⊢
    by_cases hxy : x.toNat < y.toNat
    · by_cases hyz : y.toNat < z.toNat
      · simp [show x.toNat < z.toNat by omega]
      · simp only [hyz, if_false] at h2
        by_cases hzy : z.toNat < y.toNat
        · simp [hzy] at h2
        · simp [show x.toNat < z.toNat by omega]
    · simp only [hxy, if_false] at h1
      by_cases hyx : y.toNat < x.toNat
      · simp [hyx] at h1
      · simp only [hyx, if_false] at h1
        have hxy' : x.toNat = y.toNat := by omega
        by_cases hyz : y.toNat < z.toNat
        · simp [show x.toNat < z.toNat by omega]
        · simp only [hyz, if_false] at h2
          by_cases hzy : z.toNat < y.toNat
          · simp [hzy] at h2
          · simp only [hzy, if_false] at h2
            have : ¬ x.toNat < z.toNat := by omega
            have : ¬ z.toNat < x.toNat := by omega
            simp [*]
            exact bytesLt_trans xs ys zs h1 h2

theorem bytesLt_ne {a b : Bytes} (h : bytesLt a b = true) : a ≠ b := by
  intro e; subst e; rw [bytesLt_irrefl] at h; cases h

/-- children keys strictly increasing -/
def SortedKeys : List (Bytes × Node) → Prop
  | [] => True
  | (k, _) :: cs => (∀ x ∈ cs, bytesLt k x.1 = true) ∧ SortedKeys cs

mutual
/-- well-formedness: every node's children are strictly sorted by name -/
def WF : Node → Prop
  | .mk _ _ cs => SortedKeys cs ∧ WFL cs
def WFL : List (Bytes × Node) → Prop
  | [] => True
  | (_, c) :: cs => WF c ∧ WFL cs
end

theorem findChild_of_lt (cs : List (Bytes × Node)) (e : Bytes)
    (h : ∀ x ∈ cs, bytesLt e x.1 = true) : findChild cs e = none := by
  induction cs with
  | nil => rfl
  | cons x cs ih =>
    obtain ⟨k, c⟩ := x
    have hk := h (k, c) (by simp)
    simp only [findChild, bytesLt_ne hk, if_false]
    exact ih (fun x hx => h x (by simp [hx]))

theorem lookup_cons (n : Node) (e : Bytes) (p : Path) :
    lookup n (e :: p) = match findChild n.children e with
      | some c => lookup c p
      | none => none := by
  unfold lookup
  simp only [lookupNode]
  cases findChild n.children e <;> rfl

theorem lookup_nil (n : Node) : lookup n [] = n.reg := rfl

theorem lookup_fresh (p : Path) (r : Reg) (q : Path) :
    lookup (fresh p r) q = if q = p then some r else none := by
  induction p generalizing q with
  | nil =>
    cases q with
    | nil => simp [lookup_nil, fresh, Node.reg]
    | cons e q => simp [lookup_cons, fresh, Node.children, findChild]
  | cons a p ih =>
    cases q with
    | nil => simp [lookup_nil, fresh, Node.reg]
    | cons e q =>
      simp only [lookup_cons, fresh, Node.children, findChild]
      by_cases hea : e = a
      · subst hea; simp [ih]
      · simp [hea]


/-- lookup below a child list -/
def lookupL (cs : List (Bytes × Node)) (x : Bytes) (q : Path) : Option Reg :=
  match findChild cs x with
  | some c => lookup c q
  | none => none

theorem lookup_cons' (n : Node) (e : Bytes) (p : Path) : lookup n (e :: p) = lookupL n.children e p :=
  lookup_cons n e p

theorem lookupL_nil (x : Bytes) (q : Path) : lookupL [] x q = none := rfl

theorem lookupL_cons (k : Bytes) (c : Node) (cs : List (Bytes × Node)) (x : Bytes) (q : Path) :
    lookupL ((k, c) :: cs) x q = if x = k then lookup c q else lookupL cs x q := by
  unfold lookupL
  simp only [findChild]
  by_cases h : x = k <;> simp [h]

theorem lookupL_of_lt (cs : List (Bytes × Node)) (e : Bytes) (q : Path)
    (h : ∀ x ∈ cs, bytesLt e x.1 = true) : lookupL cs e q = none := by
  unfold lookupL; rw [findChild_of_lt cs e h]

mutual
theorem registerN_lookup : ∀ (n : Node) (p : Path) (r : Reg) (n' : Node), WF n →
    registerN n p r = some n' → ∀ q, lookup n' q = if q = p then some r else lookup n q
  | .mk h f cs, [], r, n', _, hr, q => by
    simp only [registerN] at hr
    cases h with
    | some _ => simp at hr
    | none =>
      simp only [Option.some.injEq] at hr
      subst hr
      cases q with
      | nil => simp [lookup_nil, Node.reg]
      | cons x q => simp [lookup_cons', Node.children]
  | .mk h f cs, e :: p, r, n', hwf, hr, q => by
    simp only [registerN] at hr
    cases hl : registerL cs e p r with
    | none => rw [hl] at hr; simp at hr
    | some cs' =>
      rw [hl] at hr
      simp only [Option.some.injEq] at hr
      subst hr
      simp only [WF] at hwf
      have ih := registerL_lookup cs e p r cs' hwf.1 hwf.2 hl
      cases q with
      | nil => cases h <;> simp [lookup_nil, Node.reg]
      | cons x q =>
        simp only [lookup_cons', Node.children, ih x q]
        by_cases hx : x = e
        · subst hx; simp
        · simp [hx]
theorem registerL_lookup : ∀ (cs : List (Bytes × Node)) (e : Bytes) (p : Path) (r : Reg)
    (cs' : List (Bytes × Node)), SortedKeys cs → WFL cs → registerL cs e p r = some cs' →
    ∀ x q, lookupL cs' x q = if x = e ∧ q = p then some r else lookupL cs x q
  | [], e, p, r, cs', _, _, hr, x, q => by
    simp only [registerL, Option.some.injEq] at hr
    subst hr
    rw [lookupL_cons, lookupL_nil, lookup_fresh]
    by_cases hx : x = e <;> by_cases hq : q = p <;> simp [hx, hq]
  | (k, c) :: cs, e, p, r, cs', hs, hwf, hr, x, q => by
    simp only [registerL] at hr
    simp only [SortedKeys] at hs
    simp only [WFL] at hwf
    split at hr
    · rename_i hek
      subst hek
      cases hn : registerN c p r with
      | none => rw [hn] at hr; simp at hr
      | some c' =>
        rw [hn] at hr
        simp only [Option.some.injEq] at hr
        subst hr
        have ih := registerN_lookup c p r c' hwf.1 hn
        rw [lookupL_cons, lookupL_cons]
        by_cases hx : x = e
        · subst hx; simp [ih q]
        · simp [hx]
    · rename_i hek
      split at hr
      · rename_i hlt
        simp only [Option.some.injEq] at hr
        subst hr
        rw [lookupL_cons, lookup_fresh]
        by_cases hx : x = e
        · subst hx
          have : lookupL ((k, c) :: cs) x q = none := by
            apply lookupL_of_lt
            intro y hy
            rcases List.mem_cons.1 hy with rfl | hy
            · exact hlt
            · exact bytesLt_trans _ _ _ hlt (hs.1 y hy)
          by_cases hq : q = p <;> simp [hq, this]
        · simp [hx]
      · cases hl : registerL cs e p r with
        | none => rw [hl] at hr; simp at hr
        | some cs2 =>
          rw [hl] at hr
          simp only [Option.some.injEq] at hr
          subst hr
          have ih := registerL_lookup cs e p r cs2 hs.2 hwf.2 hl
          rw [lookupL_cons, lookupL_cons, ih x q]
          by_cases hx : x = k
          · subst hx
            have : ¬ x = e := fun h => hek h.symm
            simp [this]
          · simp [hx]
end


mutual
theorem registerN_none : ∀ (n : Node) (p : Path) (r : Reg), WF n →
    (registerN n p r = none ↔ (lookup n p).isSome = true)
  | .mk h f cs, [], r, _ => by
    cases h <;> simp [registerN, lookup_nil, Node.reg]
  | .mk h f cs, e :: p, r, hwf => by
    simp only [WF] at hwf
    have ih := registerL_none cs e p r hwf.1 hwf.2
    simp only [registerN, lookup_cons', Node.children]
    cases hl : registerL cs e p r with
    | none => simp [← ih, hl]
    | some cs' =>
      have : ¬ (lookupL cs e p).isSome = true := by rw [← ih, hl]; simp
      simp [this]
theorem registerL_none : ∀ (cs : List (Bytes × Node)) (e : Bytes) (p : Path) (r : Reg),
    SortedKeys cs → WFL cs → (registerL cs e p r = none ↔ (lookupL cs e p).isSome = true)
  | [], e, p, r, _, _ => by simp [registerL, lookupL_nil]
  | (k, c) :: cs, e, p, r, hs, hwf => by
    simp only [SortedKeys] at hs
    simp only [WFL] at hwf
    simp only [registerL, lookupL_cons]
    by_cases hek : e = k
    · subst hek
      have ih := registerN_none c p r hwf.1
      simp only [if_true]
      cases hn : registerN c p r with
      | none => simp [← ih, hn]
      | some c' =>
        have : ¬ (lookup c p).isSome = true := by rw [← ih, hn]; simp
        simp [this]
    · simp only [hek, if_false]
      by_cases hlt : bytesLt e k = true
      · simp only [hlt, if_true]
        have : lookupL cs e p = none :=
          lookupL_of_lt cs e p (fun y hy => bytesLt_trans _ _ _ hlt (hs.1 y hy))
        simp [this]
      · simp only [hlt]
        have ih := registerL_none cs e p r hs.2 hwf.2
        cases hl : registerL cs e p r with
        | none => simp [← ih, hl]
        | some cs' =>
          have : ¬ (lookupL cs e p).isSome = true := by rw [← ih, hl]; simp
          simp [this]
end

theorem lookup_dead (c : Node) (h : c.isDead = true) (q : Path) : lookup c q = none := by
  match c, h with
  | .mk none _ [], _ =>
    cases q with
    | nil => simp [lookup_nil, Node.reg]
    | cons x q => simp [lookup_cons', Node.children, lookupL_nil]

mutual
theorem unregisterN_lookup : ∀ (n : Node) (p : Path) (n' : Node), WF n →
    unregisterN n p = some n' → ∀ q, lookup n' q = if q = p then none else lookup n q
  | .mk h f cs, [], n', _, hr, q => by
    simp only [unregisterN] at hr
    cases h with
    | none => simp at hr
    | some _ =>
      simp only [Option.some.injEq] at hr
      subst hr
      cases q with
      | nil => simp [lookup_nil, Node.reg]
      | cons x q => simp [lookup_cons', Node.children]
  | .mk h f cs, e :: p, n', hwf, hr, q => by
    simp only [unregisterN] at hr
    cases hl : unregisterL cs e p with
    | none => rw [hl] at hr; simp at hr
    | some cs' =>
      rw [hl] at hr
      simp only [Option.some.injEq] at hr
      subst hr
      simp only [WF] at hwf
      have ih := unregisterL_lookup cs e p cs' hwf.1 hwf.2 hl
      cases q with
      | nil => cases h <;> simp [lookup_nil, Node.reg]
      | cons x q =>
        simp only [lookup_cons', Node.children, ih x q]
        by_cases hx : x = e
        · subst hx; simp
        · simp [hx]
theorem unregisterL_lookup : ∀ (cs : List (Bytes × Node)) (e : Bytes) (p : Path)
    (cs' : List (Bytes × Node)), SortedKeys cs → WFL cs → unregisterL cs e p = some cs' →
    ∀ x q, lookupL cs' x q = if x = e ∧ q = p then none else lookupL cs x q
  | [], e, p, cs', _, _, hr, x, q => by simp [unregisterL] at hr
  | (k, c) :: cs, e, p, cs', hs, hwf, hr, x, q => by
    simp only [unregisterL] at hr
    simp only [SortedKeys] at hs
    simp only [WFL] at hwf
    split at hr
    · rename_i hek
      subst hek
      cases hn : unregisterN c p with
      | none => rw [hn] at hr; simp at hr
      | some c' =>
        rw [hn] at hr
        have ih := unregisterN_lookup c p c' hwf.1 hn
        simp only at hr
        split at hr
        · rename_i hdead
          simp only [Option.some.injEq] at hr
          subst hr
          rw [lookupL_cons]
          have hd := lookup_dead c' hdead
          by_cases hx : x = e
          · subst hx
            have h1 : lookupL cs x q = none := lookupL_of_lt cs x q hs.1
            have h2 := ih q
            rw [hd q] at h2
            by_cases hq : q = p
            · subst hq; simp [h1]
            · simp only [hq, if_false] at h2
              simp [hq, h1, ← h2]
          · simp [hx]
        · simp only [Option.some.injEq] at hr
          subst hr
          rw [lookupL_cons, lookupL_cons]
          by_cases hx : x = e
          · subst hx; simp [ih q]
          · simp [hx]
    · rename_i hek
      cases hl : unregisterL cs e p with
      | none => rw [hl] at hr; simp at hr
      | some cs2 =>
        rw [hl] at hr
        simp only [Option.some.injEq] at hr
        subst hr
        have ih := unregisterL_lookup cs e p cs2 hs.2 hwf.2 hl
        rw [lookupL_cons, lookupL_cons, ih x q]
        by_cases hx : x = k
        · subst hx
          have : ¬ x = e := fun h => hek h.symm
          simp [this]
        · simp [hx]
end


theorem bytesLt_total : ∀ a b : Bytes, a ≠ b → bytesLt a b = false → bytesLt b a = true
  | [], [], h, _ => absurd rfl h
  | [], _ :: _, _, h => by simp [bytesLt] at h
  | _ :: _, [], _, _ => by simp [bytesLt]
  | x :: xs, y :: ys, hne, h => by
    simp only [bytesLt] at h ⊢
    by_cases hxy : x.toNat < y.toNat
    · simp [hxy] at h
    · simp only [hxy, if_false] at h
      by_cases hyx : y.toNat < x.toNat
      · simp [hyx]
      · simp only [hyx, if_false] at h ⊢
        have hx : x = y := UInt8.toNat_inj.1 (by omega)
        subst hx
        simp only [Nat.lt_irrefl, if_false]
        exact bytesLt_total xs ys (fun e => hne (by rw [e])) h

theorem fresh_wf : ∀ (p : Path) (r : Reg), WF (fresh p r)
  | [], r => by simp [fresh, WF, SortedKeys, WFL]
  | e :: p, r => by
    simp only [fresh, WF, SortedKeys, WFL]
    exact ⟨⟨by simp, trivial⟩, fresh_wf p r, trivial⟩

theorem registerL_keys : ∀ (cs : List (Bytes × Node)) (e : Bytes) (p : Path) (r : Reg)
    (cs' : List (Bytes × Node)), registerL cs e p r = some cs' →
    ∀ x ∈ cs', x.1 = e ∨ ∃ y ∈ cs, y.1 = x.1
  | [], e, p, r, cs', hr, x, hx => by
    simp only [registerL, Option.some.injEq] at hr
    subst hr; simp at hx; subst hx; exact Or.inl rfl
  | (k, c) :: cs, e, p, r, cs', hr, x, hx => by
    simp only [registerL] at hr
    split at hr
    · rename_i hek
      cases hn : registerN c p r with
      | none => rw [hn] at hr; simp at hr
      | some c' =>
        rw [hn] at hr
        simp only [Option.some.injEq] at hr
        subst hr
        rcases List.mem_cons.1 hx with rfl | hx
        · exact Or.inr ⟨(k, c), by simp, rfl⟩
        · exact Or.inr ⟨x, by simp [hx], rfl⟩
    · split at hr
      · simp only [Option.some.injEq] at hr
        subst hr
        rcases List.mem_cons.1 hx with rfl | hx
        · exact Or.inl rfl
        · exact Or.inr ⟨x, hx, rfl⟩
      · cases hl : registerL cs e p r with
        | none => rw [hl] at hr; simp at hr
        | some cs2 =>
          rw [hl] at hr
          simp only [Option.some.injEq] at hr
          subst hr
          rcases List.mem_cons.1 hx with rfl | hx
          · exact Or.inr ⟨(k, c), by simp, rfl⟩
          · rcases registerL_keys cs e p r cs2 hl x hx with h | ⟨y, hy, hyx⟩
            · exact Or.inl h
            · exact Or.inr ⟨y, by simp [hy], hyx⟩

theorem registerL_sorted : ∀ (cs : List (Bytes × Node)) (e : Bytes) (p : Path) (r : Reg)
    (cs' : List (Bytes × Node)), SortedKeys cs → registerL cs e p r = some cs' → SortedKeys cs'
  | [], e, p, r, cs', _, hr => by
    simp only [registerL, Option.some.injEq] at hr
    subst hr; simp [SortedKeys]
  | (k, c) :: cs, e, p, r, cs', hs, hr => by
    simp only [registerL] at hr
    simp only [SortedKeys] at hs
    split at hr
    · cases hn : registerN c p r with
      | none => rw [hn] at hr; simp at hr
      | some c' =>
        rw [hn] at hr
        simp only [Option.some.injEq] at hr
        subst hr
        exact ⟨hs.1, hs.2⟩
    · rename_i hek
      split at hr
      · rename_i hlt
        simp only [Option.some.injEq] at hr
        subst hr
        refine ⟨?_, hs.1, hs.2⟩
        intro y hy
        rcases List.mem_cons.1 hy with rfl | hy
        · exact hlt
        · exact bytesLt_trans _ _ _ hlt (hs.1 y hy)
      · rename_i hlt
        cases hl : registerL cs e p r with
        | none => rw [hl] at hr; simp at hr
        | some cs2 =>
          rw [hl] at hr
          simp only [Option.some.injEq] at hr
          subst hr
          refine ⟨?_, registerL_sorted cs e p r cs2 hs.2 hl⟩
          intro y hy
          rcases registerL_keys cs e p r cs2 hl y hy with h | ⟨z, hz, hzy⟩
          · rw [h]
            exact bytesLt_total e k hek (by simpa using hlt)
          · rw [← hzy]; exact hs.1 z hz

mutual
theorem registerN_wf : ∀ (n : Node) (p : Path) (r : Reg) (n' : Node), WF n →
    registerN n p r = some n' → WF n'
  | .mk h f cs, [], r, n', hwf, hr => by
    simp only [registerN] at hr
    cases h with
    | some _ => simp at hr
    | none => simp only [Option.some.injEq] at hr; subst hr; exact hwf
  | .mk h f cs, e :: p, r, n', hwf, hr => by
    simp only [registerN] at hr
    cases hl : registerL cs e p r with
    | none => rw [hl] at hr; simp at hr
    | some cs' =>
      rw [hl] at hr
      simp only [Option.some.injEq] at hr
      subst hr
      simp only [WF] at hwf ⊢
      exact ⟨registerL_sorted cs e p r cs' hwf.1 hl, registerL_wf cs e p r cs' hwf.2 hl⟩
theorem registerL_wf : ∀ (cs : List (Bytes × Node)) (e : Bytes) (p : Path) (r : Reg)
    (cs' : List (Bytes × Node)), WFL cs → registerL cs e p r = some cs' → WFL cs'
  | [], e, p, r, cs', _, hr => by
    simp only [registerL, Option.some.injEq] at hr
    subst hr; exact ⟨fresh_wf p r, trivial⟩
  | (k, c) :: cs, e, p, r, cs', hwf, hr => by
    simp only [registerL] at hr
    simp only [WFL] at hwf
    split at hr
    · cases hn : registerN c p r with
      | none => rw [hn] at hr; simp at hr
      | some c' =>
        rw [hn] at hr
        simp only [Option.some.injEq] at hr
        subst hr
        exact ⟨registerN_wf c p r c' hwf.1 hn, hwf.2⟩
    · split at hr
      · simp only [Option.some.injEq] at hr
        subst hr
        exact ⟨fresh_wf p r, hwf.1, hwf.2⟩
      · cases hl : registerL cs e p r with
        | none => rw [hl] at hr; simp at hr
        | some cs2 =>
          rw [hl] at hr
          simp only [Option.some.injEq] at hr
          subst hr
          exact ⟨hwf.1, registerL_wf cs e p r cs2 hwf.2 hl⟩
end

theorem unregisterL_keys : ∀ (cs : List (Bytes × Node)) (e : Bytes) (p : Path)
    (cs' : List (Bytes × Node)), unregisterL cs e p = some cs' → ∀ x ∈ cs', ∃ y ∈ cs, y.1 = x.1
  | [], e, p, cs', hr, x, hx => by simp [unregisterL] at hr
  | (k, c) :: cs, e, p, cs', hr, x, hx => by
    simp only [unregisterL] at hr
    split at hr
    · cases hn : unregisterN c p with
      | none => rw [hn] at hr; simp at hr
      | some c' =>
        rw [hn] at hr
        simp only at hr
        split at hr
        · simp only [Option.some.injEq] at hr
          subst hr
          exact ⟨x, by simp [hx], rfl⟩
        · simp only [Option.some.injEq] at hr
          subst hr
          rcases List.mem_cons.1 hx with rfl | hx
          · exact ⟨(k, c), by simp, rfl⟩
          · exact ⟨x, by simp [hx], rfl⟩
    · cases hl : unregisterL cs e p with
      | none => rw [hl] at hr; simp at hr
      | some cs2 =>
        rw [hl] at hr
        simp only [Option.some.injEq] at hr
        subst hr
        rcases List.mem_cons.1 hx with rfl | hx
        · exact ⟨(k, c), by simp, rfl⟩
        · obtain ⟨y, hy, hyx⟩ := unregisterL_keys cs e p cs2 hl x hx
          exact ⟨y, by simp [hy], hyx⟩

theorem unregisterL_sorted : ∀ (cs : List (Bytes × Node)) (e : Bytes) (p : Path)
    (cs' : List (Bytes × Node)), SortedKeys cs → unregisterL cs e p = some cs' → SortedKeys cs'
  | [], e, p, cs', _, hr => by simp [unregisterL] at hr
  | (k, c) :: cs, e, p, cs', hs, hr => by
    simp only [unregisterL] at hr
    simp only [SortedKeys] at hs
    split at hr
    · cases hn : unregisterN c p with
      | none => rw [hn] at hr; simp at hr
      | some c' =>
        rw [hn] at hr
        simp only at hr
        split at hr
        · simp only [Option.some.injEq] at hr
          subst hr; exact hs.2
        · simp only [Option.some.injEq] at hr
          subst hr; exact ⟨hs.1, hs.2⟩
    · cases hl : unregisterL cs e p with
      | none => rw [hl] at hr; simp at hr
      | some cs2 =>
        rw [hl] at hr
        simp only [Option.some.injEq] at hr
        subst hr
        refine ⟨?_, unregisterL_sorted cs e p cs2 hs.2 hl⟩
        intro y hy
        obtain ⟨z, hz, hzy⟩ := unregisterL_keys cs e p cs2 hl y hy
        rw [← hzy]; exact hs.1 z hz

mutual
theorem unregisterN_wf : ∀ (n : Node) (p : Path) (n' : Node), WF n →
    unregisterN n p = some n' → WF n'
  | .mk h f cs, [], n', hwf, hr => by
    simp only [unregisterN] at hr
    cases h with
    | none => simp at hr
    | some _ => simp only [Option.some.injEq] at hr; subst hr; exact hwf
  | .mk h f cs, e :: p, n', hwf, hr => by
    simp only [unregisterN] at hr
    cases hl : unregisterL cs e p with
    | none => rw [hl] at hr; simp at hr
    | some cs' =>
      rw [hl] at hr
      simp only [Option.some.injEq] at hr
      subst hr
      simp only [WF] at hwf ⊢
      exact ⟨unregisterL_sorted cs e p cs' hwf.1 hl, unregisterL_wf cs e p cs' hwf.2 hl⟩
theorem unregisterL_wf : ∀ (cs : List (Bytes × Node)) (e : Bytes) (p : Path)
    (cs' : List (Bytes × Node)), WFL cs → unregisterL cs e p = some cs' → WFL cs'
  | [], e, p, cs', _, hr => by simp [unregisterL] at hr
  | (k, c) :: cs, e, p, cs', hwf, hr => by
    simp only [unregisterL] at hr
    simp only [WFL] at hwf
    split at hr
    · cases hn : unregisterN c p with
      | none => rw [hn] at hr; simp at hr
      | some c' =>
        rw [hn] at hr
        simp only at hr
        split at hr
        · simp only [Option.some.injEq] at hr
          subst hr; exact hwf.2
        · simp only [Option.some.injEq] at hr
          subst hr; exact ⟨unregisterN_wf c p c' hwf.1 hn, hwf.2⟩
    · cases hl : unregisterL cs e p with
      | none => rw [hl] at hr; simp at hr
      | some cs2 =>
        rw [hl] at hr
        simp only [Option.some.injEq] at hr
        subst hr
        exact ⟨hwf.1, unregisterL_wf cs e p cs2 hwf.2 hl⟩
end

mutual
theorem unregisterN_none : ∀ (n : Node) (p : Path), WF n →
    (unregisterN n p = none ↔ lookup n p = none)
  | .mk h f cs, [], _ => by
    cases h <;> simp [unregisterN, lookup_nil, Node.reg]
  | .mk h f cs, e :: p, hwf => by
    simp only [WF] at hwf
    have ih := unregisterL_none cs e p hwf.1 hwf.2
    simp only [unregisterN, lookup_cons', Node.children]
    cases hl : unregisterL cs e p with
    | none => simp [← ih, hl]
    | some cs' =>
      have : ¬ lookupL cs e p = none := by rw [← ih, hl]; simp
      simp [this]
theorem unregisterL_none : ∀ (cs : List (Bytes × Node)) (e : Bytes) (p : Path),
    SortedKeys cs → WFL cs → (unregisterL cs e p = none ↔ lookupL cs e p = none)
  | [], e, p, _, _ => by simp [unregisterL, lookupL_nil]
  | (k, c) :: cs, e, p, hs, hwf => by
    simp only [SortedKeys] at hs
    simp only [WFL] at hwf
    simp only [unregisterL, lookupL_cons]
    by_cases hek : e = k
    · subst hek
      have ih := unregisterN_none c p hwf.1
      simp only [if_true]
      cases hn : unregisterN c p with
      | none => simp [← ih, hn]
      | some c' =>
        have : ¬ lookup c p = none := by rw [← ih, hn]; simp
        simp only [this, iff_false]
        split <;> simp
    · simp only [hek, if_false]
      have ih := unregisterL_none cs e p hs.2 hwf.2
      cases hl : unregisterL cs e p with
      | none => simp [← ih, hl]
      | some cs' =>
        have : ¬ lookupL cs e p = none := by rw [← ih, hl]; simp
        simp [this]
end


/-- the recursive definition of the proper prefixes is the intended one -/
theorem mem_prefixesUp : ∀ (p q : Path), q ∈ prefixesUp p ↔ (q <+: p ∧ q ≠ p)
  | [], q => by
    simp only [prefixesUp, List.not_mem_nil, false_iff, not_and, ne_eq]
    intro h hn; exact hn (List.prefix_nil.1 h)
  | e :: p, q => by
    simp only [prefixesUp, List.mem_cons, List.mem_map]
    constructor
    · rintro (rfl | ⟨q', hq', rfl⟩)
      · exact ⟨List.nil_prefix, by simp⟩
      · obtain ⟨h1, h2⟩ := (mem_prefixesUp p q').1 hq'
        exact ⟨by simpa using h1, by simpa using h2⟩
    · rintro ⟨h1, h2⟩
      cases q with
      | nil => exact Or.inl rfl
      | cons a q' =>
        right
        have := List.cons_prefix_cons.1 h1
        obtain ⟨rfl, hp⟩ := this
        exact ⟨q', (mem_prefixesUp p q').2 ⟨hp, fun h => h2 (by rw [h])⟩, rfl⟩

theorem fallbacksDown_eq : ∀ (p : Path) (n : Node),
    fallbacksDown n p = (prefixesUp p).filterMap (fun q => fbId (lookup n q))
  | [], n => rfl
  | e :: p, n => by
    simp only [fallbacksDown, prefixesUp, List.filterMap_cons, lookup_nil, List.filterMap_map]
    cases hc : findChild n.children e with
    | some c =>
      have : List.filterMap ((fun q => fbId (lookup n q)) ∘ fun x => e :: x) (prefixesUp p) =
          fallbacksDown c p := by
        rw [fallbacksDown_eq p c]
        congr 1
        funext q
        simp [lookup_cons', lookupL, hc]
      rw [this]
      cases fbId n.reg <;> simp
    | none =>
      have : List.filterMap ((fun q => fbId (lookup n q)) ∘ fun x => e :: x) (prefixesUp p) = [] := by
        rw [List.filterMap_eq_nil_iff]
        intro q _
        simp [lookup_cons', lookupL, hc, fbId]
      rw [this]
      cases fbId n.reg <;> simp

/-- the order in which handlers are tried is the specification's: exact registration first,
    then fallback registrations on successively shorter proper prefixes -/
theorem handlers_eq_spec (n : Node) (p : Path) :
    handlers n p = RegMap.handlers (lookup n) p := by
  unfold handlers RegMap.handlers properPrefixes
  rw [fallbacksDown_eq, List.filterMap_reverse]

/-- `found_object`, structurally: the node at `p` exists, or some node on a proper prefix of
    `p` has its `invoke_as_fallback` flag set -/
theorem found_iff : ∀ (p : Path) (n : Node), found n p = true ↔
    ((lookupNode n p).isSome = true ∨
      ∃ q ∈ prefixesUp p, ∃ c, lookupNode n q = some c ∧ c.flag = true)
  | [], n => by simp [found, lookupNode]
  | e :: p, n => by
    simp only [found, Bool.or_eq_true, prefixesUp, List.mem_cons, List.mem_map, lookupNode]
    cases hc : findChild n.children e with
    | none =>
      simp only [Bool.false_eq_true, false_or, Option.isSome_none]
      constructor
      · intro h; exact ⟨[], Or.inl rfl, n, rfl, h⟩
      · rintro ⟨q, (rfl | ⟨q', _, rfl⟩), c, hq, hf⟩
        · simp only [lookupNode, Option.some.injEq] at hq; subst hq; exact hf
        · simp [lookupNode, hc] at hq
    | some ch =>
      simp only [found_iff p ch]
      constructor
      · rintro ((h | ⟨q, hq, c, hl, hf⟩) | h)
        · exact Or.inl h
        · exact Or.inr ⟨e :: q, Or.inr ⟨q, hq, rfl⟩, c, by simp [lookupNode, hc, hl], hf⟩
        · exact Or.inr ⟨[], Or.inl rfl, n, rfl, h⟩
      · rintro (h | ⟨q, (rfl | ⟨q', hq', rfl⟩), c, hq, hf⟩)
        · exact Or.inl (Or.inl h)
        · simp only [lookupNode, Option.some.injEq] at hq; subst hq; exact Or.inr hf
        · simp only [lookupNode, hc] at hq
          exact Or.inl (Or.inr ⟨q', hq', c, hq, hf⟩)

end Dbus.Proofs.Tree
