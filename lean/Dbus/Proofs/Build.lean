import Dbus.Proofs.EditWF
import Dbus.Model.Build
/- helper lemmas for C02's construction theorems: values appended at the end of a body -/
namespace Dbus.Proofs.Message
open Dbus Dbus.Spec Dbus.Model Dbus.Proofs.Wire

theorem encodeList_append (e : Endian) : ∀ (vs ws : List Val) (off : Nat),
    encodeList e off (vs ++ ws) = encodeList e off vs ++ encodeList e (off + (encodeList e off vs).length) ws
  | [], ws, off => by simp [encodeList]
  | v :: vs, ws, off => by
    simp only [List.cons_append, encodeList, List.append_assoc, List.length_append]
    rw [encodeList_append e vs ws]
    simp [Nat.add_assoc]

theorem wfFields_append (e : Endian) : ∀ (vs : List Val) (ts : List Ty) (v : Val) (t : Ty) (d off : Nat),
    WFFields e d off vs ts → WFVal e d (off + (encodeList e off vs).length) v t → WFFields e d off (vs ++ [v]) (ts ++ [t])
  | [], [], v, t, d, off, _, hv => by
    simpa [WFFields, encodeList] using hv
  | w :: vs, u :: ts, v, t, d, off, h, hv => by
    simp only [WFFields, List.cons_append] at h ⊢
    refine ⟨h.1, wfFields_append e vs ts v t d _ h.2 ?_⟩
    simp only [encodeList, List.length_append] at hv
    rw [Nat.add_assoc]; exact hv
  | [], _ :: _, _, _, _, _, h, _ => by simp [WFFields] at h
  | _ :: _, [], _, _, _, _, h, _ => by simp [WFFields] at h

end Dbus.Proofs.Message

