import Dbus.Model.Auth
import Dbus.Proofs.AuthG
namespace Dbus.Proofs.Auth
open Dbus Dbus.Model Dbus.Model.Auth Dbus.Spec.Auth

theorem doWork_end (env : Env) (fuel : Nat) (s : S) (h : s.phase.isEnd = true) : doWork env fuel s = s := by
  cases fuel with
  | zero => rfl
  | succ n => unfold doWork; simp [h]

/-- bytes consumed from a stream as complete lines -/
def LinesPrefix (pre : Bytes) : Prop := pre = [] ∨ ∃ p, pre = p ++ crlf

/-- a complete BEGIN line -/
def IsBegin (line : Bytes) : Prop :=
  line.all isAscii = true ∧ cmdOf (splitLine line).1 = .begin ∧ findCRLF line = none

/-- the consumed prefix ends with the BEGIN line that completed the handshake -/
def EndsWithBegin (pre : Bytes) : Prop := ∃ p line, pre = p ++ line ++ crlf ∧ LinesPrefix p ∧ IsBegin line

theorem linesPrefix_append {p : Bytes} (line : Bytes) : LinesPrefix (p ++ line ++ crlf) := Or.inr ⟨p ++ line, rfl⟩

/-- a step into Authenticated is a BEGIN line received in WaitingForBegin -/
theorem authenticated_step (env : Env) (s : S) (line : Bytes) (hi : Inv env s) (hne : s.phase.isEnd = false)
    (h : (handleLine env s line).phase = .authenticated) :
    s.phase = .waitingForBegin ∧ line.all isAscii = true ∧ cmdOf (splitLine line).1 = .begin := by
  obtain ⟨r, _, h1, h2⟩ := handleLine_line env s line hi hne
  cases ha : line.all isAscii with
  | false =>
    obtain ⟨_, hp, _⟩ := h1 ha
    rw [h] at hp
    rw [← hp] at hne; simp [Phase.isEnd] at hne
  | true =>
    obtain ⟨_, _, hs⟩ := h2 ha
    rw [h] at hs
    cases hp : s.phase <;> cases hc : cmdOf (splitLine line).1 <;>
      simp [hp, hc, specAllows, mechReplies, rejectedTo] at hs ⊢

theorem doWork_stream (env : Env) (fuel : Nat) (s : S) (hi : Inv env s) :
    ∃ pre, s.incoming = pre ++ (doWork env fuel s).incoming ∧ LinesPrefix pre ∧
      ((doWork env fuel s).phase = .authenticated → s.phase = .authenticated ∨ EndsWithBegin pre) := by
  induction fuel generalizing s with
  | zero => exact ⟨[], by simp [doWork], Or.inl rfl, fun h => Or.inl h⟩
  | succ fuel ih =>
    unfold doWork
    split
    · exact ⟨[], by simp, Or.inl rfl, fun h => Or.inl h⟩
    · rename_i hne
      split
      · exact ⟨[], by simp, Or.inl rfl, fun h => by simp at h⟩
      · split
        · exact ⟨[], by simp, Or.inl rfl, fun h => Or.inl h⟩
        · rename_i eol heol
          obtain ⟨hsplit, hfirst⟩ := findCRLF_spec _ _ heol
          have hi' : Inv env { handleLine env s (s.incoming.take eol) with incoming := s.incoming.drop (eol + 2) } :=
            (handleLine_inv env s _ hi).setIncoming _
          obtain ⟨pre, h1, h2, h3⟩ := ih _ hi'
          refine ⟨s.incoming.take eol ++ crlf ++ pre, ?_, ?_, ?_⟩
          · dsimp only at h1
            rw [List.append_assoc, ← h1]; exact hsplit
          · rcases h2 with h2 | ⟨p, h2⟩
            · subst h2; exact Or.inr ⟨s.incoming.take eol, by simp⟩
            · subst h2; exact Or.inr ⟨s.incoming.take eol ++ crlf ++ p, by simp⟩
          · intro hauth
            right
            rcases h3 hauth with h3 | ⟨p, line, hp, hl, hb⟩
            · -- this very line was the BEGIN
              dsimp only at h3
              have hne' : s.phase.isEnd = false := by simpa using hne
              obtain ⟨_, ha, hc⟩ := authenticated_step env s _ hi hne' h3
              -- nothing further is consumed once authenticated
              have hrest : pre = [] := by
                have hend : ({ handleLine env s (s.incoming.take eol) with incoming := s.incoming.drop (eol + 2) } : S).phase.isEnd = true := by
                  simp [h3, Phase.isEnd]
                have := doWork_end env fuel _ hend
                rw [this] at h1
                dsimp only at h1
                exact List.self_eq_append_left.mp h1
              subst hrest
              exact ⟨[], s.incoming.take eol, by simp, Or.inl rfl, ha, hc, hfirst⟩
            · subst hp
              exact ⟨s.incoming.take eol ++ crlf ++ p, line, by simp, by
                rcases hl with hl | ⟨q, hl⟩
                · subst hl; exact Or.inr ⟨s.incoming.take eol, by simp⟩
                · subst hl; exact Or.inr ⟨s.incoming.take eol ++ crlf ++ q, by simp⟩, hb⟩

theorem doWork_bound (env : Env) (fuel : Nat) (s : S) (hf : s.incoming.length < fuel) :
    (doWork env fuel s).phase.isEnd = true ∨
    ((doWork env fuel s).incoming.length ≤ MAX_BUFFER ∧ findCRLF (doWork env fuel s).incoming = none) := by
  induction fuel generalizing s with
  | zero => omega
  | succ fuel ih =>
    unfold doWork
    split
    · rename_i h; exact Or.inl h
    · split
      · exact Or.inl rfl
      · rename_i hover
        split
        · rename_i hnone
          exact Or.inr ⟨by omega, hnone⟩
        · rename_i eol heol
          apply ih
          dsimp only
          obtain ⟨hsplit, _⟩ := findCRLF_spec _ _ heol
          have := congrArg List.length hsplit
          simp [crlf] at this ⊢
          omega

end Dbus.Proofs.Auth
