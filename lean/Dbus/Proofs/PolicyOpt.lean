import Dbus.Model.Bus.Policy
/-
  `bus_client_policy_optimize` changes no decision: a rule that decides everything of its type makes
  the rules of that type before it irrelevant (last applicable rule wins), and a rule the optimizer
  takes for such a catch-all really applies to every message / name (the clause F17 was about).
-/
namespace Dbus.Proofs.PolicyOpt
open Dbus Dbus.Model.Bus

theorem lastVerdict_append' (a b : List PRule) (ap : PRule → Bool) :
    lastVerdict (a ++ b) ap = b.foldl (fun acc r => if ap r then r.allow else acc) (lastVerdict a ap) := by
  unfold lastVerdict; rw [List.foldl_append]

/-- rules that do not apply can be dropped -/
theorem lastVerdict_filter (rs : List PRule) (ap : PRule → Bool) (keep : PRule → Bool)
    (h : ∀ r ∈ rs, keep r = false → ap r = false) : lastVerdict (rs.filter keep) ap = lastVerdict rs ap := by
  unfold lastVerdict
  suffices ∀ init, (rs.filter keep).foldl (fun acc r => if ap r then r.allow else acc) init =
      rs.foldl (fun acc r => if ap r then r.allow else acc) init from this false
  induction rs with
  | nil => intro init; rfl
  | cons r rs ih =>
    intro init
    have ih' := ih (fun x hx => h x (List.mem_cons_of_mem _ hx))
    by_cases hk : keep r = true
    · rw [List.filter_cons_of_pos hk]; simp only [List.foldl_cons]; exact ih' _
    · rw [List.filter_cons_of_neg hk]
      have : ap r = false := h r (by simp) (by simpa using hk)
      simp only [List.foldl_cons, this, Bool.false_eq_true, if_false]
      exact ih' _

/-- **`bus_client_policy_optimize` changes no decision**, for any question `ap` that is about one type of rule `T` and that every
    catch-all rule of that type answers -/
theorem optimize_preserves (mx : Nat) (T : Nat) (ap : PRule → Bool)
    (h1 : ∀ r, ap r = true → r.typeNo = T) (h2 : ∀ r, r.catchAll mx = true → r.typeNo = T → ap r = true) (rs : List PRule) :
    lastVerdict (optimize mx rs) ap = lastVerdict rs ap := by
  unfold optimize
  suffices ∀ acc, lastVerdict (rs.foldl (optimizeStep mx) acc) ap = lastVerdict (acc ++ rs) ap from by simpa using this []
  induction rs with
  | nil => intro acc; simp
  | cons r rs ih =>
    intro acc
    rw [List.foldl_cons, ih]
    have hA : lastVerdict (optimizeStep mx acc r) ap = lastVerdict (acc ++ [r]) ap := by
      unfold optimizeStep
      by_cases hc : r.catchAll mx = true
      · rw [if_pos hc]
        rw [lastVerdict_append', lastVerdict_append']
        by_cases hT : r.typeNo = T
        · have := h2 r hc hT
          simp [this]
        · have hf : lastVerdict (acc.filter fun s => s.typeNo != r.typeNo) ap = lastVerdict acc ap := by
            apply lastVerdict_filter
            intro s _ hs
            have hs' : s.typeNo = r.typeNo := by simpa using hs
            cases hap : ap s with
            | false => rfl
            | true => exact absurd ((h1 s hap) ▸ hs'.symm) hT
          rw [hf]
      · rw [if_neg hc]
    rw [lastVerdict_append' (optimizeStep mx acc r), hA, ← lastVerdict_append']
    simp

theorem catchAll_send_applies (mx : Nat) (allow : Bool) (m : MsgRule) (v : MsgView) (req : Bool) (recv : PeerInfo)
    (h : (PRule.catchAll mx { allow := allow, kind := .send m }) = true) : sendApplies mx allow m v req recv = true := by
  simp only [PRule.catchAll, Bool.and_eq_true, beq_iff_eq, Option.isNone_iff_eq_none] at h
  obtain ⟨⟨⟨⟨⟨⟨⟨⟨⟨h0, h1⟩, h2⟩, h3⟩, h4⟩, h5⟩, h6⟩, h7⟩, h8⟩, h9⟩ := h
  unfold sendApplies replySkips optMismatch ifaceSkips broadcastSkips peerSkipsSend fdsSkips
  cases allow <;> cases hr : m.requestedReply <;> cases he : m.eavesdrop <;> simp_all

theorem catchAll_receive_applies (mx : Nat) (allow : Bool) (m : MsgRule) (v : MsgView) (req eav : Bool) (snd : PeerInfo)
    (h : (PRule.catchAll mx { allow := allow, kind := .receive m }) = true) : receiveApplies mx allow m v req eav snd = true := by
  simp only [PRule.catchAll, Bool.and_eq_true, beq_iff_eq, Option.isNone_iff_eq_none] at h
  obtain ⟨⟨⟨⟨⟨⟨⟨⟨h0, h1⟩, h2⟩, h3⟩, h4⟩, h5⟩, h7⟩, h8⟩, h9⟩ := h
  unfold receiveApplies replySkips optMismatch ifaceSkips eavesSkips peerSkipsReceive fdsSkips
  cases allow <;> cases hr : m.requestedReply <;> cases he : m.eavesdrop <;> cases eav <;> simp_all


theorem canSend_optimize (mx : Nat) (rs : List PRule) (v : MsgView) (req : Bool) (recv : PeerInfo) :
    canSend mx (optimize mx rs) v req recv = canSend mx rs v req recv := by
  unfold canSend
  apply optimize_preserves mx 0
  · intro r h
    unfold PRule.typeNo
    cases hk : r.kind <;> simp [hk] at h ⊢
  · intro r hc hT
    obtain ⟨allow, kind⟩ := r
    cases kind with
    | send m => exact catchAll_send_applies mx allow m v req recv hc
    | receive m => simp [PRule.typeNo] at hT
    | own n p => simp [PRule.typeNo] at hT
    | other => simp [PRule.typeNo] at hT

theorem canReceive_optimize (mx : Nat) (rs : List PRule) (v : MsgView) (req eav : Bool) (snd : PeerInfo) :
    canReceive mx (optimize mx rs) v req eav snd = canReceive mx rs v req eav snd := by
  unfold canReceive
  apply optimize_preserves mx 1
  · intro r h
    unfold PRule.typeNo
    cases hk : r.kind <;> simp [hk] at h ⊢
  · intro r hc hT
    obtain ⟨allow, kind⟩ := r
    cases kind with
    | send m => simp [PRule.typeNo] at hT
    | receive m => exact catchAll_receive_applies mx allow m v req eav snd hc
    | own n p => simp [PRule.typeNo] at hT
    | other => simp [PRule.typeNo] at hT

theorem canOwn_optimize (mx : Nat) (rs : List PRule) (name : Bytes) :
    canOwn (optimize mx rs) name = canOwn rs name := by
  unfold canOwn
  apply optimize_preserves mx 2
  · intro r h
    unfold PRule.typeNo
    cases hk : r.kind <;> simp [hk] at h ⊢
  · intro r hc hT
    obtain ⟨allow, kind⟩ := r
    cases kind with
    | send m => simp [PRule.typeNo] at hT
    | receive m => simp [PRule.typeNo] at hT
    | own n p =>
      simp only [PRule.catchAll, Option.isNone_iff_eq_none] at hc
      subst hc
      unfold ownApplies
      cases p <;> simp
    | other => simp [PRule.typeNo] at hT

end Dbus.Proofs.PolicyOpt
