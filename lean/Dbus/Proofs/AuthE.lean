import Dbus.Model.Auth
import Dbus.Proofs.AuthD
import Dbus.Spec.Auth
namespace Dbus.Proofs.Auth
open Dbus Dbus.Model Dbus.Model.Auth Dbus.Spec.Auth

/-- the visible effect of processing something: output appended, failure count, next phase -/
structure Eff (s s' : S) (r : Bytes) : Prop where
  out : s'.outgoing = s.outgoing ++ r
  inc : s'.incoming = s.incoming

/-- outcome of a mechanism step (and of everything that ends in one) -/
def MechOutcome (env : Env) (s s' : S) (r : Bytes) : Prop :=
  (r = rejectedLine env ∧ s'.failures = s.failures + 1 ∧
      (s'.phase = .waitingForAuth ∨ s'.phase = .needDisconnect)) ∨
  (kindOf r = .data ∧ s'.failures = s.failures ∧ s'.phase = .waitingForData) ∨
  (kindOf r = .ok ∧ s'.failures = s.failures ∧ s'.phase = .waitingForBegin)

theorem kindOf_rejectedLine (env : Env) : kindOf (rejectedLine env) = .rejected := by
  simp [rejectedLine, wREJECTED, kindOf]

@[simp] theorem shutdownMech_outgoing (s : S) : (shutdownMech s).outgoing = s.outgoing := by
  unfold shutdownMech; cases hm : s.mech with
  | none => simp
  | some m => cases m <;> simp
@[simp] theorem shutdownMech_incoming (s : S) : (shutdownMech s).incoming = s.incoming := by
  unfold shutdownMech; cases hm : s.mech with
  | none => simp
  | some m => cases m <;> simp
@[simp] theorem shutdownMech_failures (s : S) : (shutdownMech s).failures = s.failures := by
  unfold shutdownMech; cases hm : s.mech with
  | none => simp
  | some m => cases m <;> simp

theorem sendRejected_eff (env : Env) (s : S) :
    Eff s (sendRejected env s) (rejectedLine env) ∧ MechOutcome env s (sendRejected env s) (rejectedLine env) := by
  unfold sendRejected
  refine ⟨⟨by simp, by simp⟩, Or.inl ⟨rfl, by simp, ?_⟩⟩
  dsimp only
  split
  · exact Or.inr rfl
  · exact Or.inl rfl

theorem sendOk_eff (env : Env) (s : S) :
    Eff s (sendOk env s) (wOK ++ env.guid ++ crlf) ∧ MechOutcome env s (sendOk env s) (wOK ++ env.guid ++ crlf) := by
  refine ⟨⟨rfl, rfl⟩, Or.inr (Or.inr ⟨by simp [kindOf, wOK], rfl, rfl⟩)⟩

theorem sendData_out (s : S) (d : Bytes) : ∃ r, (sendData s d).outgoing = s.outgoing ++ r ∧ kindOf r = .data := by
  unfold sendData
  split
  · exact ⟨_, rfl, by simp [kindOf, wDATA]⟩
  · exact ⟨_, rfl, by simp [kindOf, wDATA]⟩

/-- same visible effect from a state that differs only in hidden fields -/
theorem eff_of_eq {env : Env} {s t s' : S} {r : Bytes} (h : Eff t s' r ∧ MechOutcome env t s' r)
    (ho : t.outgoing = s.outgoing) (hi : t.incoming = s.incoming)
    (hf : t.failures = s.failures) : Eff s s' r ∧ MechOutcome env s s' r := by
  obtain ⟨⟨a, b⟩, c⟩ := h
  refine ⟨⟨by rw [a, ho], by rw [b, hi]⟩, ?_⟩
  unfold MechOutcome at *
  rw [hf] at c
  exact c

theorem data_eff (env : Env) (s t s' : S) (d : Bytes) (ho : t.outgoing = s.outgoing) (hi : t.incoming = s.incoming)
    (hf : t.failures = s.failures) (h1 : s'.outgoing = (sendData t d).outgoing) (h2 : s'.incoming = t.incoming)
    (h3 : s'.failures = t.failures) (h4 : s'.phase = .waitingForData) :
    ∃ r, Eff s s' r ∧ MechOutcome env s s' r := by
  obtain ⟨r, hr, hk⟩ := sendData_out t d
  exact ⟨r, ⟨by rw [h1, hr, ho], by rw [h2, hi]⟩, Or.inr (Or.inl ⟨hk, by rw [h3, hf], h4⟩)⟩

theorem externalData_eff (env : Env) (s : S) (data : Bytes) :
    ∃ r, Eff s (externalData env s data) r ∧ MechOutcome env s (externalData env s data) r := by
  unfold externalData
  split
  · exact ⟨_, sendRejected_eff env s⟩
  · split
    · exact ⟨_, sendRejected_eff env s⟩
    · dsimp only
      split
      · exact data_eff env s _ _ _ (by simp) (by simp) (by simp) rfl (by simp) (by simp) rfl
      · split
        · split
          · exact ⟨_, eff_of_eq (sendRejected_eff env _) (by simp) (by simp) (by simp)⟩
          · split
            · exact ⟨_, eff_of_eq (sendOk_eff env _) (by simp) (by simp) (by simp)⟩
            · exact ⟨_, eff_of_eq (sendRejected_eff env _) (by simp) (by simp) (by simp)⟩
        · split
          · exact ⟨_, eff_of_eq (sendRejected_eff env _) (by simp) (by simp) (by simp)⟩
          · split
            · exact ⟨_, eff_of_eq (sendRejected_eff env _) (by simp) (by simp) (by simp)⟩
            · split
              · exact ⟨_, eff_of_eq (sendOk_eff env _) (by simp) (by simp) (by simp)⟩
              · exact ⟨_, eff_of_eq (sendRejected_eff env _) (by simp) (by simp) (by simp)⟩

theorem anonymousData_eff (env : Env) (s : S) (data : Bytes) :
    ∃ r, Eff s (anonymousData env s data) r ∧ MechOutcome env s (anonymousData env s data) r := by
  unfold anonymousData
  split
  · exact ⟨_, sendRejected_eff env s⟩
  · exact ⟨_, eff_of_eq (sendOk_eff env _) rfl rfl rfl⟩

theorem cookieFirst_eff (env : Env) (s : S) (data : Bytes) :
    ∃ r, Eff s (cookieFirst env s data) r ∧ MechOutcome env s (cookieFirst env s data) r := by
  unfold cookieFirst
  dsimp only
  split
  · exact ⟨_, eff_of_eq (sendRejected_eff env _) rfl rfl rfl⟩
  · split
    · exact ⟨_, eff_of_eq (sendRejected_eff env _) (by simp) (by simp) (by simp)⟩
    · split
      · exact ⟨_, eff_of_eq (sendRejected_eff env _) (by simp) (by simp) (by simp)⟩
      · split
        · exact ⟨_, eff_of_eq (sendRejected_eff env _) (by simp) (by simp) (by simp)⟩
        · split
          · exact ⟨_, eff_of_eq (sendRejected_eff env _) (by simp) (by simp) (by simp)⟩
          · split
            · exact ⟨_, eff_of_eq (sendRejected_eff env _) (by simp) (by simp) (by simp)⟩
            · exact data_eff env s _ _ _ (by simp) (by simp) (by simp) rfl (by simp) (by simp) rfl

theorem cookieSecond_eff (env : Env) (s : S) (id : Nat) (data : Bytes) :
    ∃ r, Eff s (cookieSecond env s id data) r ∧ MechOutcome env s (cookieSecond env s id data) r := by
  unfold cookieSecond
  split
  · exact ⟨_, sendRejected_eff env s⟩
  · dsimp only
    split
    · exact ⟨_, sendRejected_eff env s⟩
    · split
      · exact ⟨_, sendRejected_eff env s⟩
      · split
        · exact ⟨_, sendRejected_eff env s⟩
        · exact ⟨_, eff_of_eq (sendOk_eff env _) rfl rfl rfl⟩

theorem mechData_eff (env : Env) (s : S) (m : Mech) (data : Bytes) :
    ∃ r, Eff s (mechData env s m data) r ∧ MechOutcome env s (mechData env s m data) r := by
  unfold mechData
  cases m with
  | external => exact externalData_eff env s data
  | anonymous => exact anonymousData_eff env s data
  | cookie =>
    dsimp only; unfold cookieData
    split
    · exact cookieFirst_eff env s data
    · exact cookieSecond_eff env s _ data

/-- outcome of one command line, as the specification sees it -/
def LineOutcome (env : Env) (s s' : S) (r : Bytes) (c : Cmd) : Prop :=
  (kindOf r = .rejected → r = rejectedLine env ∧ s'.failures = s.failures + 1) ∧
  (kindOf r ≠ .rejected → s'.failures = s.failures) ∧
  specAllows s.phase c (kindOf r) s'.phase = true

theorem say_line (env : Env) (s : S) (b : Bytes) (c : Cmd) (hk : kindOf b = .error)
    (hs : specAllows s.phase c .error s.phase = true) :
    Eff s (say s b) b ∧ LineOutcome env s (say s b) b c :=
  ⟨⟨rfl, rfl⟩, by simp [hk], fun _ => rfl, by rw [hk]; exact hs⟩

theorem mech_line {env : Env} {s s' : S} {r : Bytes} {c : Cmd} (h : MechOutcome env s s' r)
    (hs : ∀ k p', mechReplies k p' = true → specAllows s.phase c k p' = true) : LineOutcome env s s' r c := by
  rcases h with ⟨hr, hf, hp⟩ | ⟨hk, hf, hp⟩ | ⟨hk, hf, hp⟩
  · subst hr
    refine ⟨fun _ => ⟨rfl, hf⟩, fun h => absurd (kindOf_rejectedLine env) h, ?_⟩
    rw [kindOf_rejectedLine]; apply hs
    rcases hp with hp | hp <;> simp [mechReplies, rejectedTo, hp]
  · refine ⟨by simp [hk], fun _ => hf, ?_⟩
    rw [hk, hp]; apply hs; simp [mechReplies]
  · refine ⟨by simp [hk], fun _ => hf, ?_⟩
    rw [hk, hp]; apply hs; simp [mechReplies]

theorem rejected_line (env : Env) (s : S) (c : Cmd)
    (hs : ∀ p', rejectedTo p' = true → specAllows s.phase c .rejected p' = true) :
    Eff s (sendRejected env s) (rejectedLine env) ∧ LineOutcome env s (sendRejected env s) (rejectedLine env) c := by
  obtain ⟨e, m⟩ := sendRejected_eff env s
  refine ⟨e, ?_⟩
  rcases m with ⟨_, hf, hp⟩ | ⟨hk, _, _⟩ | ⟨hk, _, _⟩
  · refine ⟨fun _ => ⟨rfl, hf⟩, fun h => absurd (kindOf_rejectedLine env) h, ?_⟩
    rw [kindOf_rejectedLine]; apply hs
    rcases hp with hp | hp <;> simp [rejectedTo, hp]
  · rw [kindOf_rejectedLine] at hk; cases hk
  · rw [kindOf_rejectedLine] at hk; cases hk

theorem processData_line (env : Env) (s : S) (m : Mech) (args : Bytes) (c : Cmd)
    (hs : ∀ k p', mechReplies k p' = true → specAllows s.phase c k p' = true)
    (he : specAllows s.phase c .error s.phase = true) :
    ∃ r, Eff s (processData env s m args) r ∧ LineOutcome env s (processData env s m args) r c := by
  unfold processData
  split
  · split
    · exact ⟨_, say_line env s _ c (by simp [kindOf, errBadHex]) he⟩
    · obtain ⟨r, e, mo⟩ := mechData_eff env s m (hexDecode args).1
      rename_i d n heq _
      have : d = (hexDecode args).1 := by rw [heq]
      subst this
      exact ⟨r, e, mech_line mo hs⟩

end Dbus.Proofs.Auth
