import Dbus.Proofs.ObjectTree
/-
  The child listing (`_dbus_object_tree_list_registered_unlocked`) against the registered tree.
  Needs the invariant that unregistration maintains by pruning: below the root there is no
  subtree without a registration in it ("no dead branch").
-/
namespace Dbus.Proofs.Tree
open Dbus Dbus.Spec.Tree Dbus.Model.Tree

mutual
/-- does the subtree hold a registration? -/
def hasReg : Node → Bool
  | .mk h _ cs => h.isSome || hasRegL cs
def hasRegL : List (Bytes × Node) → Bool
  | [] => false
  | (_, c) :: cs => hasReg c || hasRegL cs
end

mutual
/-- every child subtree, at every depth, holds a registration -/
def Live : Node → Prop
  | .mk _ _ cs => LiveL cs
def LiveL : List (Bytes × Node) → Prop
  | [] => True
  | (_, c) :: cs => hasReg c = true ∧ Live c ∧ LiveL cs
end

theorem hasReg_fresh : ∀ (p : Path) (r : Reg), hasReg (fresh p r) = true
  | [], r => by simp [fresh, hasReg]
  | e :: p, r => by simp [fresh, hasReg, hasRegL, hasReg_fresh p r]

theorem live_fresh : ∀ (p : Path) (r : Reg), Live (fresh p r)
  | [], r => by simp [fresh, Live, LiveL]
  | e :: p, r => by simp only [fresh, Live, LiveL]; exact ⟨hasReg_fresh p r, live_fresh p r, trivial⟩

mutual
theorem registerN_hasReg : ∀ (n : Node) (p : Path) (r : Reg) (n' : Node), registerN n p r = some n' → hasReg n' = true
  | .mk h f cs, [], r, n', hr => by
    simp only [registerN] at hr
    cases h with
    | some _ => simp at hr
    | none => simp only [Option.some.injEq] at hr; subst hr; simp [hasReg]
  | .mk h f cs, e :: p, r, n', hr => by
    simp only [registerN] at hr
    cases hl : registerL cs e p r with
    | none => rw [hl] at hr; simp at hr
    | some cs' =>
      rw [hl] at hr
      simp only [Option.some.injEq] at hr
      subst hr
      simp only [hasReg, registerL_hasRegL cs e p r cs' hl, Bool.or_true]
theorem registerL_hasRegL : ∀ (cs : List (Bytes × Node)) (e : Bytes) (p : Path) (r : Reg) (cs' : List (Bytes × Node)),
    registerL cs e p r = some cs' → hasRegL cs' = true
  | [], e, p, r, cs', hr => by
    simp only [registerL, Option.some.injEq] at hr
    subst hr; simp [hasRegL, hasReg_fresh]
  | (k, c) :: cs, e, p, r, cs', hr => by
    simp only [registerL] at hr
    split at hr
    · cases hn : registerN c p r with
      | none => rw [hn] at hr; simp at hr
      | some c' =>
        rw [hn] at hr
        simp only [Option.some.injEq] at hr
        subst hr
        simp [hasRegL, registerN_hasReg c p r c' hn]
    · split at hr
      · simp only [Option.some.injEq] at hr
        subst hr; simp [hasRegL, hasReg_fresh]
      · cases hl : registerL cs e p r with
        | none => rw [hl] at hr; simp at hr
        | some cs2 =>
          rw [hl] at hr
          simp only [Option.some.injEq] at hr
          subst hr
          simp [hasRegL, registerL_hasRegL cs e p r cs2 hl]
end

mutual
theorem registerN_live : ∀ (n : Node) (p : Path) (r : Reg) (n' : Node), Live n → registerN n p r = some n' → Live n'
  | .mk h f cs, [], r, n', hl, hr => by
    simp only [registerN] at hr
    cases h with
    | some _ => simp at hr
    | none => simp only [Option.some.injEq] at hr; subst hr; exact hl
  | .mk h f cs, e :: p, r, n', hlv, hr => by
    simp only [registerN] at hr
    cases hl : registerL cs e p r with
    | none => rw [hl] at hr; simp at hr
    | some cs' =>
      rw [hl] at hr
      simp only [Option.some.injEq] at hr
      subst hr
      simp only [Live] at hlv ⊢
      exact registerL_live cs e p r cs' hlv hl
theorem registerL_live : ∀ (cs : List (Bytes × Node)) (e : Bytes) (p : Path) (r : Reg) (cs' : List (Bytes × Node)),
    LiveL cs → registerL cs e p r = some cs' → LiveL cs'
  | [], e, p, r, cs', _, hr => by
    simp only [registerL, Option.some.injEq] at hr
    subst hr; exact ⟨hasReg_fresh p r, live_fresh p r, trivial⟩
  | (k, c) :: cs, e, p, r, cs', hlv, hr => by
    simp only [registerL] at hr
    simp only [LiveL] at hlv
    split at hr
    · cases hn : registerN c p r with
      | none => rw [hn] at hr; simp at hr
      | some c' =>
        rw [hn] at hr
        simp only [Option.some.injEq] at hr
        subst hr
        exact ⟨registerN_hasReg c p r c' hn, registerN_live c p r c' hlv.2.1 hn, hlv.2.2⟩
    · split at hr
      · simp only [Option.some.injEq] at hr
        subst hr
        exact ⟨hasReg_fresh p r, live_fresh p r, hlv.1, hlv.2.1, hlv.2.2⟩
      · cases hl : registerL cs e p r with
        | none => rw [hl] at hr; simp at hr
        | some cs2 =>
          rw [hl] at hr
          simp only [Option.some.injEq] at hr
          subst hr
          exact ⟨hlv.1, hlv.2.1, registerL_live cs e p r cs2 hlv.2.2 hl⟩
end

/-- a live node that is not dead holds a registration: it has a handler, or a (live) child -/
theorem hasReg_of_not_dead (c : Node) (hl : Live c) (hd : c.isDead = false) : hasReg c = true := by
  obtain ⟨h, f, cs⟩ := c
  cases h with
  | some _ => simp [hasReg]
  | none =>
    cases cs with
    | nil => simp [Node.isDead] at hd
    | cons x xs =>
      obtain ⟨k, c1⟩ := x
      simp only [Live, LiveL] at hl
      simp [hasReg, hasRegL, hl.1]

mutual
theorem unregisterN_live : ∀ (n : Node) (p : Path) (n' : Node), Live n → unregisterN n p = some n' → Live n'
  | .mk h f cs, [], n', hl, hr => by
    simp only [unregisterN] at hr
    cases h with
    | none => simp at hr
    | some _ => simp only [Option.some.injEq] at hr; subst hr; exact hl
  | .mk h f cs, e :: p, n', hlv, hr => by
    simp only [unregisterN] at hr
    cases hl : unregisterL cs e p with
    | none => rw [hl] at hr; simp at hr
    | some cs' =>
      rw [hl] at hr
      simp only [Option.some.injEq] at hr
      subst hr
      simp only [Live] at hlv ⊢
      exact unregisterL_live cs e p cs' hlv hl
theorem unregisterL_live : ∀ (cs : List (Bytes × Node)) (e : Bytes) (p : Path) (cs' : List (Bytes × Node)),
    LiveL cs → unregisterL cs e p = some cs' → LiveL cs'
  | [], e, p, cs', _, hr => by simp [unregisterL] at hr
  | (k, c) :: cs, e, p, cs', hlv, hr => by
    simp only [unregisterL] at hr
    simp only [LiveL] at hlv
    split at hr
    · cases hn : unregisterN c p with
      | none => rw [hn] at hr; simp at hr
      | some c' =>
        rw [hn] at hr
        simp only at hr
        have hc' := unregisterN_live c p c' hlv.2.1 hn
        split at hr
        · simp only [Option.some.injEq] at hr
          subst hr; exact hlv.2.2
        · rename_i hd
          simp only [Option.some.injEq] at hr
          subst hr
          exact ⟨hasReg_of_not_dead c' hc' (by simpa using hd), hc', hlv.2.2⟩
    · cases hl : unregisterL cs e p with
      | none => rw [hl] at hr; simp at hr
      | some cs2 =>
        rw [hl] at hr
        simp only [Option.some.injEq] at hr
        subst hr
        exact ⟨hlv.1, hlv.2.1, unregisterL_live cs e p cs2 hlv.2.2 hl⟩
end

/-! ### what a subtree with a registration in it means for `lookup` -/

mutual
theorem hasReg_lookup : ∀ (n : Node), WF n → hasReg n = true → ∃ q r, lookup n q = some r
  | .mk h f cs, hwf, hr => by
    cases h with
    | some id => exact ⟨[], (f, id), rfl⟩
    | none =>
      simp only [hasReg, Option.isSome_none, Bool.false_or] at hr
      simp only [WF] at hwf
      obtain ⟨e, q, r, hq⟩ := hasRegL_lookup cs hwf.1 hwf.2 hr
      exact ⟨e :: q, r, by rw [lookup_cons']; exact hq⟩
theorem hasRegL_lookup : ∀ (cs : List (Bytes × Node)), SortedKeys cs → WFL cs → hasRegL cs = true →
    ∃ e q r, lookupL cs e q = some r
  | [], _, _, hr => by simp [hasRegL] at hr
  | (k, c) :: cs, hs, hwf, hr => by
    simp only [hasRegL, Bool.or_eq_true] at hr
    simp only [WFL] at hwf
    simp only [SortedKeys] at hs
    rcases hr with hr | hr
    · obtain ⟨q, r, hq⟩ := hasReg_lookup c hwf.1 hr
      exact ⟨k, q, r, by rw [lookupL_cons]; simp [hq]⟩
    · obtain ⟨e, q, r, hq⟩ := hasRegL_lookup cs hs.2 hwf.2 hr
      refine ⟨e, q, r, ?_⟩
      rw [lookupL_cons]
      have hne : e ≠ k := by
        intro he
        subst he
        rw [lookupL_of_lt cs e q hs.1] at hq
        cases hq
      simp [hne, hq]
end

end Dbus.Proofs.Tree
