import Dbus.Model.Bus.Core
import Dbus.Props.C12
import Dbus.Proofs.MessageLevel
/-
  Frame lemmas for the bus model: which part of the state each transaction step can touch, and
  what it can add to the output.
-/
namespace Dbus.Proofs.Bus
open Dbus Dbus.Spec Dbus.Model Dbus.Model.Bus

/-- everything but the pending-reply list -/
def core (b : Bus) : Bus := { b with pending := [] }

@[simp] theorem core_conns (b : Bus) : (core b).conns = b.conns := rfl
@[simp] theorem core_services (b : Bus) : (core b).services = b.services := rfl
@[simp] theorem core_major (b : Bus) : (core b).nextMajor = b.nextMajor := rfl
@[simp] theorem core_minor (b : Bus) : (core b).nextMinor = b.nextMinor := rfl
@[simp] theorem core_limits (b : Bus) : (core b).limits = b.limits := rfl
@[simp] theorem core_policy (b : Bus) : (core b).policy = b.policy := rfl
@[simp] theorem core_setPending (t : Tx) (p : List Pending) : core (t.setPending p).bus = core t.bus := rfl
@[simp] theorem setPending_out (t : Tx) (p : List Pending) : (t.setPending p).out = t.out := rfl
@[simp] theorem emit_bus (t : Tx) (o : Out) : (t.emit o).bus = t.bus := rfl
@[simp] theorem emit_out (t : Tx) (o : Out) : (t.emit o).out = t.out ++ [o] := rfl

theorem core_eq_iff {b b' : Bus} : core b = core b' ↔
    b.conns = b'.conns ∧ b.services = b'.services ∧ b.nextMajor = b'.nextMajor ∧ b.nextMinor = b'.nextMinor ∧
    b.limits = b'.limits ∧ b.policy = b'.policy ∧ b.minted = b'.minted ∧ b.full = b'.full := by
  constructor
  · intro h
    have h1 := congrArg Bus.conns h; have h2 := congrArg Bus.services h
    have h3 := congrArg Bus.nextMajor h; have h4 := congrArg Bus.nextMinor h
    have h5 := congrArg Bus.limits h; have h6 := congrArg Bus.policy h
    have h7 := congrArg Bus.minted h; have h8 := congrArg Bus.full h
    exact ⟨h1, h2, h3, h4, h5, h6, h7, h8⟩
  · rintro ⟨h1, h2, h3, h4, h5, h6, h7, h8⟩
    cases b; cases b'; simp_all [core]

/-- `t'` extends `t`'s output by `l` -/
def Ext (t t' : Tx) (l : List Out) : Prop := t'.out = t.out ++ l

theorem emitTo_frame (m : Msg) (t : Tx) (r : ConnId) : (emitTo m t r).bus = t.bus ∧ (emitTo m t r).out = t.out := ⟨rfl, rfl⟩

theorem capture_frame (t : Tx) (s a : Option ConnId) (m : Msg) : (capture t s a m).bus = t.bus ∧ (capture t s a m).out = t.out := by
  unfold capture
  generalize captureTargets t.bus s a m = l
  induction l generalizing t with
  | nil => exact ⟨rfl, rfl⟩
  | cons r rs ih =>
    simp only [List.foldl_cons]
    have := ih (emitTo m t r)
    exact ⟨this.1, this.2⟩

theorem captureError_frame (t : Tx) (a : Option ConnId) (m : Msg) (e : Err) :
    (captureError t a m e).bus = t.bus ∧ (captureError t a m e).out = t.out := capture_frame _ _ _ _

theorem sendStamped_spec (t : Tx) (to : ConnId) (m : Msg) :
    core (sendStamped t to m).bus = core t.bus ∧
    ((sendStamped t to m).out = t.out ∨ (sendStamped t to m).out = t.out ++ [.deliver to m]) := by
  unfold sendStamped
  rcases h : checkPolicy t.bus none (some to) (some to) m with ⟨p, err⟩
  cases err with
  | none => simp
  | some e =>
    have he := captureError_frame (t.setPending p) (some to) m e
    simp only [he.1, he.2]
    simp

theorem sendFromDriver_spec (t : Tx) (to : ConnId) (m : Msg) :
    core (sendFromDriver t to m).bus = core t.bus ∧
    ((sendFromDriver t to m).out = t.out ∨
     (sendFromDriver t to m).out = t.out ++ [.deliver to (stampDriver t.bus to m)]) := by
  unfold sendFromDriver
  have hc := capture_frame t none (some to) (stampDriver t.bus to m)
  have hs := sendStamped_spec (capture t none (some to) (stampDriver t.bus to m)) to (stampDriver t.bus to m)
  rw [hc.1, hc.2] at hs
  exact hs

theorem sendOne_spec (t : Tx) (s a : Option ConnId) (to : ConnId) (m : Msg) :
    core (sendOne t s a to m).bus = core t.bus ∧
    ((sendOne t s a to m).out = t.out ∨ (sendOne t s a to m).out = t.out ++ [.deliver to m]) := by
  unfold sendOne
  rcases h : checkPolicy t.bus s a (some to) m with ⟨p, err⟩
  cases err with
  | none =>
    simp only [h]
    split
    · have he := captureError_frame (t.setPending p) s m .notSupported
      simp only [he.1, he.2]; simp
    · simp
  | some e =>
    have he := captureError_frame (t.setPending p) s m e
    simp only [h, he.1, he.2]; simp

/-- outputs that are all deliveries of the one message `m` -/
def AllDeliver (m : Msg) (l : List Out) : Prop := ∀ o ∈ l, ∃ to, o = .deliver to m

theorem sendMatches_fold (m : Msg) (s a : Option ConnId) : ∀ (rs : List ConnId) (t : Tx),
    core (rs.foldl (fun t r => sendOne t s a r m) t).bus = core t.bus ∧
    ∃ l, (rs.foldl (fun t r => sendOne t s a r m) t).out = t.out ++ l ∧ AllDeliver m l
  | [], t => ⟨rfl, [], by simp, by intro o ho; cases ho⟩
  | r :: rs, t => by
    simp only [List.foldl_cons]
    obtain ⟨hc, l, hl, hd⟩ := sendMatches_fold m s a rs (sendOne t s a r m)
    obtain ⟨hc1, ho1⟩ := sendOne_spec t s a r m
    refine ⟨hc.trans hc1, ?_⟩
    rcases ho1 with ho1 | ho1
    · exact ⟨l, by rw [hl, ho1], hd⟩
    · refine ⟨.deliver r m :: l, by rw [hl, ho1]; simp, ?_⟩
      intro o ho
      simp only [List.mem_cons] at ho
      rcases ho with rfl | ho
      · exact ⟨r, rfl⟩
      · exact hd o ho

theorem sendMatches_spec (t : Tx) (s a : Option ConnId) (m : Msg) :
    core (sendMatches t s a m).bus = core t.bus ∧
    ∃ l, (sendMatches t s a m).out = t.out ++ l ∧ AllDeliver m l :=
  sendMatches_fold m s a _ t

theorem sendAddressed_spec (t : Tx) (s : Option ConnId) (a : ConnId) (m : Msg) :
    core (sendAddressed t s a m).1.bus = core t.bus ∧
    (((sendAddressed t s a m).2 = none ∧ (sendAddressed t s a m).1.out = t.out ++ [.deliver a m]) ∨
     ((sendAddressed t s a m).2 ≠ none ∧ (sendAddressed t s a m).1.out = t.out)) := by
  unfold sendAddressed
  rcases h : checkPolicy t.bus s (some a) (some a) m with ⟨p, err⟩
  cases err with
  | none =>
    simp only [h]
    split <;> simp
  | some e => simp [h]

theorem dispatchMatches_spec (t : Tx) (s a : Option ConnId) (m : Msg) :
    core (dispatchMatches t s a m).1.bus = core t.bus ∧
    ∃ l, (dispatchMatches t s a m).1.out = t.out ++ l ∧ AllDeliver m l := by
  unfold dispatchMatches
  cases a with
  | none => exact sendMatches_spec t s none m
  | some a =>
    simp only
    obtain ⟨hc, ho⟩ := sendAddressed_spec t s a m
    cases h : sendAddressed t s a m with
    | mk t1 e =>
      rw [h] at hc ho
      cases e with
      | some e =>
        simp only at ho ⊢
        rcases ho with ⟨h0, _⟩ | ⟨_, h1⟩
        · cases h0
        · exact ⟨hc, [], by simp [h1], by intro o ho; cases ho⟩
      | none =>
        simp only at ho ⊢
        obtain ⟨hc2, l, hl, hd⟩ := sendMatches_spec t1 s (some a) m
        rcases ho with ⟨_, h1⟩ | ⟨h0, _⟩
        · refine ⟨hc2.trans hc, .deliver a m :: l, by rw [hl, h1]; simp, ?_⟩
          intro o ho
          simp only [List.mem_cons] at ho
          rcases ho with rfl | ho
          · exact ⟨a, rfl⟩
          · exact hd o ho
        · exact absurd rfl h0


/-! ### what the bus puts into messages -/

/-- no unknown header field and no CONTAINER_INSTANCE -/
def KnownFields (m : Msg) : Prop := ∀ f ∈ m.fields, f.code ≤ 9

/-- made (or re-stamped) by the bus driver -/
def BusMade (m : Msg) : Prop := m.sender = some BUS_NAME ∧ KnownFields m

@[simp] theorem strField_code (c : Nat) (s : Bytes) : (strField c s).code = c := rfl
@[simp] theorem u32Field_code (c n : Nat) : (u32Field c n).code = c := rfl
@[simp] theorem sigField_code (ts : List Ty) : (sigField ts).code = 8 := rfl
@[simp] theorem pathField_code (s : Bytes) : (pathField s).code = 1 := rfl

theorem sender_setSender (m : Msg) (s : Bytes) : (m.setSender s).sender = some s := by
  unfold Msg.sender Msg.setSender Msg.setField
  have := Dbus.Props.C12.set_reads_back m.fields (strField FIELD_SENDER s)
  simp only [strField] at this ⊢
  rw [this]; rfl

theorem sender_setDest (m : Msg) (s : Bytes) : (m.setDest s).sender = m.sender := by
  unfold Msg.sender Msg.setDest Msg.setField
  have := Dbus.Props.C12.set_frame m.fields (strField FIELD_DESTINATION s) FIELD_SENDER (by simp [FIELD_SENDER, FIELD_DESTINATION])
  simp only at this ⊢
  rw [this]

theorem known_setFieldList {fs : List Field} {f : Field} (h : ∀ g ∈ fs, g.code ≤ 9) (hf : f.code ≤ 9) :
    ∀ g ∈ setFieldList fs f, g.code ≤ 9 := by
  induction fs with
  | nil => intro g hg; simp [setFieldList] at hg; subst hg; exact hf
  | cons x xs ih =>
    intro g hg
    unfold setFieldList at hg
    split at hg
    · simp only [List.mem_cons] at hg
      rcases hg with rfl | hg
      · exact hf
      · exact h g (by simp [hg])
    · simp only [List.mem_cons] at hg
      rcases hg with rfl | hg
      · exact h _ (by simp)
      · exact ih (fun g hg => h g (by simp [hg])) g hg

theorem known_setSender {m : Msg} (h : KnownFields m) (s : Bytes) : KnownFields (m.setSender s) :=
  known_setFieldList h (by simp [FIELD_SENDER])
theorem known_setDest {m : Msg} (h : KnownFields m) (s : Bytes) : KnownFields (m.setDest s) :=
  known_setFieldList h (by simp [FIELD_DESTINATION])

theorem stampDriver_busMade (b : Bus) (to : ConnId) {m : Msg} (h : KnownFields m) : BusMade (stampDriver b to m) := by
  unfold stampDriver
  cases b.nameOf to with
  | none => exact ⟨sender_setSender m _, known_setSender h _⟩
  | some n =>
    refine ⟨?_, ?_⟩
    · show ((m.setSender BUS_NAME).setDest n).sender = _
      rw [sender_setDest, sender_setSender]
    · exact known_setDest (known_setSender h _) n

theorem known_mkMsg {mtype : Nat} {fields : List Field} {tys : List Ty} {body : List Val}
    (h : ∀ f ∈ fields, f.code ≤ 9) : KnownFields (mkMsg mtype fields tys body) := by
  unfold KnownFields mkMsg
  simp only
  split
  · exact h
  · intro f hf
    simp only [List.mem_append, List.mem_singleton] at hf
    rcases hf with hf | rfl
    · exact h f hf
    · simp

theorem known_mkReturn (call : Msg) (tys : List Ty) (body : List Val) : KnownFields (mkReturn call tys body) := by
  apply known_mkMsg
  intro f hf
  simp only [List.mem_append, List.mem_singleton, List.mem_cons, List.not_mem_nil, or_false] at hf
  rcases hf with rfl | hf
  · simp [FIELD_REPLY_SERIAL]
  · cases hs : call.sender <;> simp [hs] at hf
    subst hf; simp [FIELD_DESTINATION]

theorem known_mkError (m : Msg) (e : Err) : KnownFields (mkError m e) := by
  apply known_mkMsg
  intro f hf
  simp only [List.mem_append, List.mem_cons, List.not_mem_nil, or_false] at hf
  rcases hf with (rfl | rfl) | hf
  · simp [FIELD_REPLY_SERIAL]
  · simp [FIELD_ERROR_NAME]
  · cases hs : m.sender <;> simp [hs] at hf
    subst hf; simp [FIELD_DESTINATION]

theorem known_mkSignal (member : Bytes) (tys : List Ty) (body : List Val) : KnownFields (mkSignal member tys body) := by
  have : KnownFields (mkMsg 4 [pathField DBUS_PATH, strField FIELD_INTERFACE BUS_NAME, strField FIELD_MEMBER member] tys body) := by
    apply known_mkMsg
    intro f hf
    simp only [List.mem_cons, List.not_mem_nil, or_false] at hf
    rcases hf with rfl | rfl | rfl <;> simp [FIELD_INTERFACE, FIELD_MEMBER]
  exact this

/-! ### the shape of a transaction step -/

/-- what a step may append to the output: deliveries of bus-made messages, deliveries of messages
    satisfying `fw` (forwards), opaque replies and closes -/
def OutOK (fw : Msg → Prop) : Out → Prop
  | .deliver _ m => BusMade m ∨ fw m
  | .opaque _ _ => True
  | .close _ => True

structure Step (K : Bus → Bus → Prop) (fw : Msg → Prop) (t t' : Tx) : Prop where
  bus : K t.bus t'.bus
  out : ∃ l, t'.out = t.out ++ l ∧ ∀ o ∈ l, OutOK fw o

theorem Step.refl {K : Bus → Bus → Prop} {fw : Msg → Prop} (hK : ∀ b, K b b) (t : Tx) : Step K fw t t :=
  ⟨hK _, [], by simp, by intro o ho; cases ho⟩

theorem Step.trans {K : Bus → Bus → Prop} {fw : Msg → Prop} (hK : ∀ a b c, K a b → K b c → K a c)
    {t1 t2 t3 : Tx} (h1 : Step K fw t1 t2) (h2 : Step K fw t2 t3) : Step K fw t1 t3 := by
  obtain ⟨l1, e1, p1⟩ := h1.out
  obtain ⟨l2, e2, p2⟩ := h2.out
  refine ⟨hK _ _ _ h1.bus h2.bus, l1 ++ l2, by rw [e2, e1, List.append_assoc], ?_⟩
  intro o ho
  rcases List.mem_append.mp ho with h | h
  · exact p1 o h
  · exact p2 o h

theorem Step.mono {K K' : Bus → Bus → Prop} {fw fw' : Msg → Prop} (hK : ∀ a b, K a b → K' a b)
    (hf : ∀ m, fw m → fw' m) {t t' : Tx} (h : Step K fw t t') : Step K' fw' t t' := by
  obtain ⟨l, e, p⟩ := h.out
  refine ⟨hK _ _ h.bus, l, e, ?_⟩
  intro o ho
  have := p o ho
  match o, this with
  | .deliver to m, h => exact h.imp id (hf m)
  | .opaque _ _, _ => trivial
  | .close _, _ => trivial

/-- a transaction that differs from `t` only in the copies for monitors -/
theorem step_of_frame {K : Bus → Bus → Prop} {fw : Msg → Prop} (hK : ∀ b, K b b) {t t' : Tx}
    (hb : t'.bus = t.bus) (ho : t'.out = t.out) : Step K fw t t' :=
  ⟨hb ▸ hK _, [], by simp [ho], by intro o h; cases h⟩

theorem step_fold {α : Type} {K : Bus → Bus → Prop} {fw : Msg → Prop} (hr : ∀ b, K b b)
    (ht : ∀ a b c, K a b → K b c → K a c) (f : Tx → α → Tx) (hf : ∀ t a, Step K fw t (f t a)) :
    ∀ (l : List α) (t : Tx), Step K fw t (l.foldl f t)
  | [], t => Step.refl hr t
  | a :: l, t => Step.trans ht (hf t a) (step_fold hr ht f hf l _)

/-- only the pending-reply list changes -/
def KCore (b b' : Bus) : Prop := core b' = core b
theorem KCore.refl (b : Bus) : KCore b b := rfl
theorem KCore.trans (a b c : Bus) (h1 : KCore a b) (h2 : KCore b c) : KCore a c := Eq.trans h2 h1

def noFw : Msg → Prop := fun _ => False

theorem step_capture {fw : Msg → Prop} (t : Tx) (s a : Option ConnId) (m : Msg) : Step KCore fw t (capture t s a m) :=
  step_of_frame KCore.refl (capture_frame t s a m).1 (capture_frame t s a m).2

theorem step_sendFromDriver (t : Tx) (to : ConnId) {m : Msg} (hm : KnownFields m) :
    Step KCore noFw t (sendFromDriver t to m) := by
  obtain ⟨hc, ho⟩ := sendFromDriver_spec t to m
  refine ⟨hc, ?_⟩
  rcases ho with ho | ho
  · exact ⟨[], by simp [ho], by intro o h; cases h⟩
  · refine ⟨_, ho, ?_⟩
    intro o h
    simp only [List.mem_singleton] at h
    subst h
    exact Or.inl (stampDriver_busMade _ _ hm)

theorem step_dispatchMatches (t : Tx) (s a : Option ConnId) (m : Msg) :
    Step KCore (· = m) t (dispatchMatches t s a m).1 := by
  obtain ⟨hc, l, hl, hd⟩ := dispatchMatches_spec t s a m
  refine ⟨hc, l, hl, ?_⟩
  intro o ho
  obtain ⟨to, rfl⟩ := hd o ho
  exact Or.inr rfl

theorem step_sigOwnerChanged (t : Tx) (n old new : Bytes) : Step KCore noFw t (sigOwnerChanged t n old new) := by
  unfold sigOwnerChanged
  have hcap := capture_frame t none none (ownerChangedMsg n old new)
  obtain ⟨hc, l, hl, hd⟩ := dispatchMatches_spec (capture t none none (ownerChangedMsg n old new)) none none (ownerChangedMsg n old new)
  rw [hcap.1] at hc
  rw [hcap.2] at hl
  refine ⟨hc, l, hl, ?_⟩
  intro o ho
  obtain ⟨to, rfl⟩ := hd o ho
  exact Or.inl ⟨sender_setSender _ _, known_setSender (known_mkSignal _ _ _) _⟩

theorem step_sigAcquired (t : Tx) (to : ConnId) (n : Bytes) : Step KCore noFw t (sigAcquired t to n) :=
  step_sendFromDriver t to (known_mkSignal _ _ _)
theorem step_sigLost (t : Tx) (to : ConnId) (n : Bytes) : Step KCore noFw t (sigLost t to n) :=
  step_sendFromDriver t to (known_mkSignal _ _ _)
theorem step_sendError (t : Tx) (to : ConnId) (m : Msg) (e : Err) : Step KCore noFw t (sendError t to m e) :=
  step_sendFromDriver t to (known_mkError m e)
theorem step_reply (t : Tx) (c : ConnId) (call : Msg) (tys : List Ty) (body : List Val) :
    Step KCore noFw t (reply t c call tys body) :=
  step_sendFromDriver t c (known_mkReturn call tys body)

theorem step_emitSig (n : Bytes) (t : Tx) (s : Sig) : Step KCore noFw t (emitSig n t s) := by
  cases s with
  | lost c => exact step_sigLost t c n
  | acquired c => exact step_sigAcquired t c n
  | changed o nw => exact step_sigOwnerChanged t n _ _

theorem step_emitSigs (n : Bytes) : ∀ (sigs : List Sig) (t : Tx), Step KCore noFw t (sigs.foldl (emitSig n) t)
  | [], t => Step.refl KCore.refl t
  | s :: sigs, t => Step.trans KCore.trans (step_emitSig n t s) (step_emitSigs n sigs _)


/-! ### state frames beyond the pending list -/

/-- connections unchanged as far as `f` can see; counters, limits and policy unchanged; services and
    pending replies unconstrained -/
def KMod (f : Conn → Conn) (b b' : Bus) : Prop :=
  b'.conns.map f = b.conns.map f ∧ b'.nextMajor = b.nextMajor ∧ b'.nextMinor = b.nextMinor ∧
  b'.limits = b.limits ∧ b'.policy = b.policy ∧ b'.minted = b.minted

theorem KMod.refl (f : Conn → Conn) (b : Bus) : KMod f b b := ⟨rfl, rfl, rfl, rfl, rfl, rfl⟩
theorem KMod.trans (f : Conn → Conn) (a b c : Bus) (h1 : KMod f a b) (h2 : KMod f b c) : KMod f a c :=
  ⟨h2.1.trans h1.1, h2.2.1.trans h1.2.1, h2.2.2.1.trans h1.2.2.1, h2.2.2.2.1.trans h1.2.2.2.1,
   h2.2.2.2.2.1.trans h1.2.2.2.2.1, h2.2.2.2.2.2.trans h1.2.2.2.2.2⟩

theorem KMod.of_core (f : Conn → Conn) {b b' : Bus} (h : KCore b b') : KMod f b b' := by
  have := core_eq_iff.mp h
  exact ⟨by rw [this.1], this.2.2.1, this.2.2.2.1, this.2.2.2.2.1, this.2.2.2.2.2.1, this.2.2.2.2.2.2.1⟩

/-- forget which names a connection is queued for -/
def eraseOwned (x : Conn) : Conn := { x with owned := [] }
/-- forget owned names and match rules -/
def eraseOR (x : Conn) : Conn := { x with owned := [], rules := [] }

theorem KMod.weaken {f g : Conn → Conn} (h : ∀ x, g (f x) = g x) {b b' : Bus} (hk : KMod f b b') : KMod g b b' := by
  refine ⟨?_, hk.2⟩
  have := congrArg (List.map g) hk.1
  simpa [List.map_map, Function.comp_def, h] using this

theorem eraseOR_eraseOwned (x : Conn) : eraseOR (eraseOwned x) = eraseOR x := rfl

theorem setOwners_conns (b : Bus) (n : Bytes) (os : List Owner) : (b.setOwners n os).conns = b.conns := by
  unfold Bus.setOwners; split
  · rfl
  · split <;> rfl

theorem setOwners_frame (b : Bus) (n : Bytes) (os : List Owner) :
    (b.setOwners n os).nextMajor = b.nextMajor ∧ (b.setOwners n os).nextMinor = b.nextMinor ∧
    (b.setOwners n os).limits = b.limits ∧ (b.setOwners n os).policy = b.policy ∧
    (b.setOwners n os).minted = b.minted ∧ (b.setOwners n os).pending = b.pending := by
  unfold Bus.setOwners; split
  · exact ⟨rfl, rfl, rfl, rfl, rfl, rfl⟩
  · split <;> exact ⟨rfl, rfl, rfl, rfl, rfl, rfl⟩

theorem map_map_erase {l : List Conn} {g f : Conn → Conn} (h : ∀ x, f (g x) = f x) :
    (l.map g).map f = l.map f := by
  simp [List.map_map, Function.comp_def, h]

theorem kmod_syncOwned (b : Bus) (n : Bytes) (os os' : List Owner) :
    KMod eraseOwned b (syncOwned (b.setOwners n os') n os os') := by
  obtain ⟨h1, h2, h3, h4, h5, _⟩ := setOwners_frame b n os'
  refine ⟨?_, h1, h2, h3, h4, h5⟩
  unfold syncOwned
  simp only [setOwners_conns]
  apply map_map_erase
  intro x
  split
  · rfl
  · split <;> rfl

def KReg := KMod eraseOwned

theorem step_applyQueue (t : Tx) (n : Bytes) (os' : List Owner) (sigs : List Sig) :
    Step KReg noFw t (applyQueue t n os' sigs) := by
  unfold applyQueue
  have h1 := step_emitSigs n sigs t
  have h1' : Step KReg noFw t (sigs.foldl (emitSig n) t) := h1.mono (fun _ _ h => KMod.of_core _ h) (fun _ h => h)
  refine Step.trans (KMod.trans _) h1' ⟨kmod_syncOwned _ _ _ _, [], by simp, by intro o ho; cases ho⟩

theorem step_acquire (t : Tx) (c : ConnId) (n : Bytes) (flags : Nat) : Step KReg noFw t (acquire t c n flags).1 := by
  unfold acquire
  repeat' split
  all_goals first | exact Step.refl (KMod.refl _) t | exact step_applyQueue _ _ _ _

theorem step_release (t : Tx) (c : ConnId) (n : Bytes) : Step KReg noFw t (release t c n).1 := by
  unfold release
  repeat' split
  all_goals first | exact Step.refl (KMod.refl _) t | exact step_applyQueue _ _ _ _

theorem step_removeOwner (t : Tx) (n : Bytes) (c : ConnId) : Step KReg noFw t (removeOwner t n c) :=
  step_applyQueue _ _ _ _

theorem step_ensureService (t : Tx) (n : Bytes) (c : ConnId) (flags : Nat) : Step KReg noFw t (ensureService t n c flags) :=
  step_applyQueue _ _ _ _


/-! ### driver methods -/

def KAny : Bus → Bus → Prop := fun _ _ => True
theorem KAny.refl (b : Bus) : KAny b b := trivial
theorem KAny.trans (a b c : Bus) (_ : KAny a b) (_ : KAny b c) : KAny a c := trivial

def KDrv := KMod eraseOR

theorem KReg_to_KDrv {b b' : Bus} (h : KReg b b') : KDrv b b' := KMod.weaken eraseOR_eraseOwned h

theorem kdrv_updRules (b : Bus) (c : ConnId) (g : List MatchRule → List MatchRule) :
    KDrv b (b.updRules c g) := by
  refine ⟨?_, rfl, rfl, rfl, rfl, rfl⟩
  unfold Bus.updRules Bus.updConn
  apply map_map_erase
  intro x
  split <;> rfl

theorem step_reply_drv (t : Tx) (c : ConnId) (call : Msg) (tys : List Ty) (body : List Val) :
    Step KDrv noFw t (reply t c call tys body) :=
  (step_reply t c call tys body).mono (fun _ _ h => KMod.of_core _ h) (fun _ h => h)

theorem step_mapBus {K : Bus → Bus → Prop} {fw : Msg → Prop} (t : Tx) (f : Bus → Bus) (h : K t.bus (f t.bus)) :
    Step K fw t (t.mapBus f) := ⟨h, [], by simp [Tx.mapBus], by intro o ho; cases ho⟩

theorem step_bus_only {K : Bus → Bus → Prop} {fw : Msg → Prop} (t : Tx) (b' : Bus) (h : K t.bus b') :
    Step K fw t { t with bus := b' } := ⟨h, [], by simp, by intro o ho; cases ho⟩

theorem step_helloOk (t : Tx) (c : ConnId) (m : Msg) : Step KAny noFw t (helloOk t c m) := by
  have h1 : Step KAny noFw t ({ t with bus := activate (mint t.bus).1 c (mint t.bus).2 } : Tx) :=
    step_bus_only t _ trivial
  have h2 : Step KAny noFw ({ t with bus := activate (mint t.bus).1 c (mint t.bus).2 } : Tx)
      (reply { t with bus := activate (mint t.bus).1 c (mint t.bus).2 } c (m.setSender (mint t.bus).2) [tStr]
        [sStr (mint t.bus).2]) :=
    (step_reply _ c _ _ _).mono (fun _ _ _ => trivial) (fun _ h => h)
  have h3 : Step KAny noFw
      (reply { t with bus := activate (mint t.bus).1 c (mint t.bus).2 } c (m.setSender (mint t.bus).2) [tStr]
        [sStr (mint t.bus).2]) (helloOk t c m) :=
    (step_ensureService _ _ _ _).mono (fun _ _ _ => trivial) (fun _ h => h)
  exact Step.trans KAny.trans h1 (Step.trans KAny.trans h2 h3)

theorem step_hello (t : Tx) (c : ConnId) (m : Msg) : Step KAny noFw t (hello t c m).1 := by
  unfold hello
  split; · exact Step.refl KAny.refl t
  split; · exact Step.refl KAny.refl t
  split; · exact Step.refl KAny.refl t
  exact step_helloOk t c m

theorem opaque_fold_frame (l : List ConnId) (ser : Nat) : ∀ (t : Tx),
    (l.foldl (fun (t : Tx) r => { t with mon := t.mon ++ [Out.opaque r ser] }) t).bus = t.bus ∧
    (l.foldl (fun (t : Tx) r => { t with mon := t.mon ++ [Out.opaque r ser] }) t).out = t.out := by
  induction l with
  | nil => intro t; exact ⟨rfl, rfl⟩
  | cons r rs ih => intro t; simp only [List.foldl_cons]; exact ih _

theorem step_releaseAll (t : Tx) (c : ConnId) (names : List Bytes) : Step KReg noFw t (releaseAll t c names) :=
  step_fold (KMod.refl _) (KMod.trans _) _ (fun t n => step_removeOwner t n c) names t

theorem step_beMonitor (t : Tx) (c : ConnId) (rules : List MatchRule) : Step KAny noFw t (beMonitor t c rules) := by
  unfold beMonitor
  split
  · exact Step.refl KAny.refl t
  · rename_i x _
    have h1 : Step KAny noFw t (t.mapBus (installMonitorRules c rules)) := step_mapBus t _ trivial
    have h2 : Step KAny noFw (t.mapBus (installMonitorRules c rules)) (releaseAll (t.mapBus (installMonitorRules c rules)) c x.owned) :=
      (step_releaseAll _ c _).mono (fun _ _ _ => trivial) (fun _ h => h)
    have h3 : Step KAny noFw (releaseAll (t.mapBus (installMonitorRules c rules)) c x.owned)
        ((releaseAll (t.mapBus (installMonitorRules c rules)) c x.owned).mapBus (joinMonitors c x rules)) := step_mapBus _ _ trivial
    exact Step.trans KAny.trans h1 (Step.trans KAny.trans h2 h3)

theorem step_runMethod_any (t : Tx) (c : ConnId) (m : Msg) (w : Method) :
    Step KAny noFw t (runMethod t c m w).1 := by
  have drv : ∀ {t t' : Tx}, Step KDrv noFw t t' → Step KAny noFw t t' :=
    fun h => h.mono (fun _ _ _ => trivial) (fun _ h => h)
  have reg : ∀ {t t' : Tx}, Step KReg noFw t t' → Step KAny noFw t t' :=
    fun h => h.mono (fun _ _ _ => trivial) (fun _ h => h)
  cases w with
  | hello => exact step_hello t c m
  | requestName =>
    simp only [runMethod]
    have h := step_acquire t c (arg0 m) (arg1Nat m)
    rcases hr : acquire t c (arg0 m) (arg1Nat m) with ⟨t1, r⟩
    rw [hr] at h
    cases r with
    | ok code => exact Step.trans KAny.trans (reg h) (drv (step_reply_drv _ _ _ _ _))
    | error e => exact reg h
  | releaseName =>
    simp only [runMethod]
    have h := step_release t c (arg0 m)
    rcases hr : release t c (arg0 m) with ⟨t1, r⟩
    rw [hr] at h
    cases r with
    | ok code => exact Step.trans KAny.trans (reg h) (drv (step_reply_drv _ _ _ _ _))
    | error e => exact reg h
  | nameHasOwner => exact drv (step_reply_drv _ _ _ _ _)
  | listNames => exact drv (step_reply_drv _ _ _ _ _)
  | getNameOwner =>
    simp only [runMethod]
    repeat' split
    all_goals first | exact drv (step_reply_drv _ _ _ _ _) | exact Step.refl KAny.refl t
  | listQueuedOwners =>
    simp only [runMethod]
    repeat' split
    all_goals first | exact drv (step_reply_drv _ _ _ _ _) | exact Step.refl KAny.refl t
  | getUnixUser =>
    simp only [runMethod]
    repeat' split
    all_goals first | exact drv (step_reply_drv _ _ _ _ _) | exact Step.refl KAny.refl t
  | ping => exact drv (step_reply_drv _ _ _ _ _)
  | addMatch =>
    simp only [runMethod]
    repeat' split
    all_goals first
      | exact Step.refl KAny.refl t
      | exact Step.trans KAny.trans (step_bus_only t _ trivial) (drv (step_reply_drv _ _ _ _ _))
  | removeMatch =>
    simp only [runMethod]
    repeat' split
    all_goals (try dsimp only)
    all_goals first
      | exact Step.refl KAny.refl t
      | exact drv (step_reply_drv _ _ _ _ _)
      | exact Step.trans KAny.trans (drv (step_reply_drv t c m [] [])) (step_mapBus (reply t c m [] []) _ trivial)
  | becomeMonitor =>
    simp only [runMethod]
    repeat' split
    all_goals first
      | exact Step.refl KAny.refl t
      | exact Step.trans KAny.trans (drv (step_reply_drv t c m [] [])) (step_beMonitor _ c _)
  | opaqueM =>
    simp only [runMethod]
    have hf := opaque_fold_frame (captureTargets t.bus none (some c) (stampDriver t.bus c (mkReturn m [] []))) m.serial t
    split
    · refine ⟨trivial, [], ?_, by intro o ho; cases ho⟩
      rw [(captureError_frame _ _ _ _).2]
      simp [hf.2]
    · refine ⟨trivial, [.opaque c m.serial], ?_, by intro o ho; simp at ho; subst ho; trivial⟩
      show (Tx.emit _ _).out = _
      simp only [emit_out, setPending_out, hf.2]

theorem step_driverHandle (tbl : List IfaceRow) (t : Tx) (c : ConnId) (m : Msg) :
    Step KAny noFw t (driverHandle tbl t c m).1 := by
  unfold driverHandle
  dsimp only
  repeat' split
  all_goals first | exact step_runMethod_any _ _ _ _ | exact Step.refl KAny.refl t


/-! ### dispatch -/

theorem step_setPending {fw : Msg → Prop} (t : Tx) (p : List Pending) : Step KCore fw t (t.setPending p) :=
  ⟨rfl, [], by simp, by intro o ho; cases ho⟩

theorem step_noReplyTo (c : ConnId) (t : Tx) (p : Pending) : Step KCore noFw t (noReplyTo c t p) := by
  unfold noReplyTo
  split
  · exact step_sendError _ _ _ _
  · exact Step.refl KCore.refl _

theorem step_dropPending (t : Tx) (c : ConnId) : Step KCore noFw t (dropPending t c) := by
  unfold dropPending
  exact Step.trans KCore.trans (step_setPending t _)
    (step_fold KCore.refl KCore.trans (noReplyTo c) (step_noReplyTo c) _ _)

theorem outs_filter {fw : Msg → Prop} {l : List Out} (h : ∀ o ∈ l, OutOK fw o) (f : Out → Bool) :
    ∀ o ∈ l.filter f, OutOK fw o := fun o ho => h o (List.mem_filter.mp ho).1

theorem step_disconnectTx (b : Bus) (c : ConnId) (x : Conn) :
    Step KAny noFw ({ bus := clearRules (gcRules b x) c } : Tx) (disconnectTx b c x) := by
  unfold disconnectTx
  have any : ∀ {K : Bus → Bus → Prop} {t t' : Tx}, Step K noFw t t' → Step KAny noFw t t' :=
    fun h => h.mono (fun _ _ _ => trivial) (fun _ h => h)
  exact Step.trans KAny.trans (any (step_releaseAll _ c _))
    (Step.trans KAny.trans (step_mapBus _ _ trivial) (any (step_dropPending _ c)))

theorem disconnect_outputs (b : Bus) (c : ConnId) : ∀ o ∈ (disconnect b c).2, OutOK noFw o := by
  unfold disconnect
  split
  · intro o ho; cases ho
  · rename_i x hx
    apply outs_filter
    obtain ⟨l, hl, hp⟩ := (step_disconnectTx b c x).out
    intro o ho
    rw [hl] at ho
    exact hp o (by simpa using ho)

theorem dropConn_outputs (b : Bus) (c : ConnId) : ∀ o ∈ (dropConn b c).2, OutOK noFw o := by
  unfold dropConn
  intro o ho
  simp only [List.mem_append, List.mem_singleton] at ho
  rcases ho with ho | rfl
  · exact disconnect_outputs b c o ho
  · trivial


theorem senderNameOf_core {b b' : Bus} (h : KCore b b') (c : ConnId) : senderNameOf b' c = senderNameOf b c := by
  have := (core_eq_iff.mp h).1
  unfold senderNameOf Bus.nameOf Bus.conn?
  rw [this]

/-- a forward of the client's message: no foreign fields, and the given sender -/
def Fwd (name : Bytes) (x : Msg) : Prop := KnownFields x ∧ x.sender = some name

theorem step_toDriverCore (tbl : List IfaceRow) (t : Tx) (c : ConnId) {m : Msg} (hm : KnownFields m) :
    Step KAny (Fwd (senderNameOf (toDriverCore tbl t c m).1.bus c)) t (toDriverCore tbl t c m).1 := by
  unfold toDriverCore
  rcases hcp : checkPolicy t.bus (some c) none none m with ⟨p, e⟩
  dsimp only
  cases e with
  | some e => exact (step_setPending t p).mono (fun _ _ _ => trivial) (fun _ h => h)
  | none =>
    dsimp only
    have h1 := step_driverHandle tbl (t.setPending p) c m
    rcases hd : driverHandle tbl (t.setPending p) c m with ⟨t1, e1⟩
    rw [hd] at h1
    cases e1 with
    | some e1 =>
      exact Step.trans KAny.trans ((step_setPending t p).mono (fun _ _ _ => trivial) (fun _ h => h))
        (h1.mono (fun _ _ h => h) (fun _ h => h.elim))
    | none =>
      dsimp only
      have h2 := step_dispatchMatches t1 (some c) none (m.setSender (senderNameOf t1.bus c))
      have hn := senderNameOf_core h2.bus c
      refine Step.trans KAny.trans ((step_setPending t p).mono (fun _ _ _ => trivial) (fun _ h => h))
        (Step.trans KAny.trans (h1.mono (fun _ _ h => h) (fun _ h => h.elim)) ?_)
      refine h2.mono (fun _ _ _ => trivial) ?_
      rintro x rfl
      exact ⟨known_setSender hm _, by rw [sender_setSender, hn]⟩

theorem toDriver_frame (tbl : List IfaceRow) (t : Tx) (c : ConnId) (m : Msg) :
    (toDriver tbl t c m).1.bus = (toDriverCore tbl { t with mon := [] } c m).1.bus ∧
    (toDriver tbl t c m).1.out = (toDriverCore tbl { t with mon := [] } c m).1.out ∧
    (toDriver tbl t c m).2 = (toDriverCore tbl { t with mon := [] } c m).2 := ⟨rfl, rfl, rfl⟩

theorem step_toDriver (tbl : List IfaceRow) (t : Tx) (c : ConnId) {m : Msg} (hm : KnownFields m) :
    Step KAny (Fwd (senderNameOf (toDriver tbl t c m).1.bus c)) t (toDriver tbl t c m).1 := by
  have h := step_toDriverCore tbl ({ t with mon := [] } : Tx) c hm
  obtain ⟨l, hl, hp⟩ := h.out
  exact ⟨trivial, l, hl, hp⟩

theorem step_route (t : Tx) (c : ConnId) (m : Msg) : Step KCore (· = m) t (route t c m).1 := by
  unfold route
  repeat' split
  all_goals first
    | exact step_capture _ _ _ _
    | exact Step.trans KCore.trans (step_capture _ _ _ _) (step_dispatchMatches _ _ _ _)

theorem finish_bus_some (t : Tx) (e : Err) (c : ConnId) (m : Msg) : KCore t.bus (finish (t, some e) c m).bus :=
  (step_sendError t c m e).bus


/-! ### what comes out of `dispatch` -/

theorem known_deleteCI : ∀ (fs : List Field), (∀ f ∈ fs, f.code ≤ 10) → (fs.filter (·.code = 10)).length ≤ 1 →
    ∀ f ∈ deleteFieldList fs 10, f.code ≤ 9
  | [], _, _ => by intro f hf; cases hf
  | g :: fs, hk, hd => by
    unfold deleteFieldList
    by_cases hg : g.code = 10
    · simp only [hg, if_true]
      have hnone : fs.filter (·.code = 10) = [] := by
        simp only [List.filter_cons, hg, decide_true, if_true, List.length_cons] at hd
        exact List.eq_nil_of_length_eq_zero (by omega)
      intro f hf
      have h10 := hk f (by simp [hf])
      have : f.code ≠ 10 := by
        intro h
        have : f ∈ fs.filter (·.code = 10) := List.mem_filter.mpr ⟨hf, by simp [h]⟩
        rw [hnone] at this; cases this
      omega
    · simp only [hg, if_false]
      intro f hf
      simp only [List.mem_cons] at hf
      rcases hf with rfl | hf
      · have := hk f (by simp); omega
      · apply known_deleteCI fs (fun f hf => hk f (by simp [hf])) _ f hf
        simpa [List.filter_cons, hg] using hd

theorem known_strip {m0 : Msg} (h : (m0.fields.filter (·.code = 10)).length ≤ 1) : KnownFields (strip m0) := by
  unfold strip Msg.delField KnownFields
  simp only
  apply known_deleteCI
  · intro f hf
    exact Dbus.Props.C12.removeUnknown_all_known _ f hf
  · have : ((removeUnknownList m0.fields).filter (·.code = 10)).Sublist (m0.fields.filter (·.code = 10)) := by
      unfold removeUnknownList
      exact List.Sublist.filter _ List.filter_sublist
    exact Nat.le_trans this.length_le h

theorem sender_mkMsg_none {mtype : Nat} {fields : List Field} {tys : List Ty} {body : List Val}
    (h : ∀ f ∈ fields, f.code ≠ 7) : (mkMsg mtype fields tys body).sender = none := by
  unfold Msg.sender mkMsg getField
  simp only
  have : ∀ l : List Field, (∀ f ∈ l, f.code ≠ 7) → l.find? (fun x => x.code = FIELD_SENDER) = none := by
    intro l hl
    rw [List.find?_eq_none]
    intro f hf
    simp [FIELD_SENDER, hl f hf]
  split
  · rw [this _ h]; rfl
  · rw [this]; rfl
    intro f hf
    simp only [List.mem_append, List.mem_singleton] at hf
    rcases hf with hf | rfl
    · exact h f hf
    · simp

theorem sender_mkReturn_none (m : Msg) (tys : List Ty) (body : List Val) : (mkReturn m tys body).sender = none := by
  unfold mkReturn
  apply sender_mkMsg_none
  intro f hf
  simp only [List.mem_append, List.mem_singleton, List.mem_cons, List.not_mem_nil, or_false] at hf
  rcases hf with rfl | hf
  · simp [FIELD_REPLY_SERIAL]
  · cases hs : m.sender <;> simp [hs] at hf
    subst hf; simp [FIELD_DESTINATION]

theorem sender_mkError_none (m : Msg) (e : Err) : (mkError m e).sender = none := by
  unfold mkError
  apply sender_mkMsg_none
  intro f hf
  simp only [List.mem_append, List.mem_cons, List.not_mem_nil, or_false] at hf
  rcases hf with (rfl | rfl) | hf
  · simp [FIELD_REPLY_SERIAL]
  · simp [FIELD_ERROR_NAME]
  · cases hs : m.sender <;> simp [hs] at hf
    subst hf; simp [FIELD_DESTINATION]

theorem builtin_ok (m x : Msg) (hx : x ∈ builtinReply m) : KnownFields x ∧ x.sender = none := by
  unfold builtinReply at hx
  split at hx
  · cases hx
  · simp only [List.mem_singleton] at hx
    subst hx
    exact ⟨known_mkError _ _, sender_mkError_none _ _⟩

theorem peerFilter_ok (m : Msg) : KnownFields (peerFilterReply m) ∧ (peerFilterReply m).sender = none := by
  unfold peerFilterReply
  repeat' split
  all_goals first
    | exact ⟨known_mkReturn _ _ _, sender_mkReturn_none _ _ _⟩
    | exact ⟨known_mkError _ _, sender_mkError_none _ _⟩

/-- what a client can find in the sender field of something the bus hands it -/
def SenderOK (b b' : Bus) (c : ConnId) (m0 : Msg) (to : ConnId) (x : Msg) : Prop :=
  x.sender = some BUS_NAME ∨ x.sender = some (senderNameOf b c) ∨ x.sender = some (senderNameOf b' c) ∨
  (x.sender = none ∧ to = c ∧ (strip m0).dest = none)

theorem strip_mtype (m0 : Msg) : (strip m0).mtype = m0.mtype := rfl

theorem step_sweepMonitors (t : Tx) : Step KCore noFw t (sweepMonitors t) := by
  unfold sweepMonitors
  exact step_fold KCore.refl KCore.trans (fun (t : Tx) (x : Conn) => dropPending t x.id) (fun t x => step_dropPending t x.id) _ t

theorem outs_of_step {K : Bus → Bus → Prop} {fw : Msg → Prop} {t0 t : Tx} (h : Step K fw t0 t) (h0 : t0.out = []) :
    ∀ o ∈ t.out, OutOK fw o := by
  obtain ⟨l, hl, hp⟩ := h.out
  intro o ho
  rw [hl, h0] at ho
  exact hp o (by simpa using ho)

theorem step_finish {fw : Msg → Prop} (t0 : Tx) (r : Tx × Option Err) (c : ConnId) (m : Msg) (h : Step KAny fw t0 r.1) :
    Step KAny fw t0 (finish r c m) := by
  obtain ⟨t, e⟩ := r
  cases e with
  | none => exact h
  | some e => exact Step.trans KAny.trans h ((step_sendError t c m e).mono (fun _ _ _ => trivial) (fun _ h => h.elim))

theorem finish_core (r : Tx × Option Err) (c : ConnId) (m : Msg) : KCore r.1.bus (finish r c m).bus := by
  obtain ⟨t, e⟩ := r
  cases e with
  | none => rfl
  | some e => exact (step_sendError t c m e).bus

theorem dispatch_outputs (tbl : List IfaceRow) (b : Bus) (c : ConnId) (m0 : Msg)
    (hci : (m0.fields.filter (·.code = 10)).length ≤ 1) :
    ∀ o ∈ (dispatch tbl b c m0).2,
      match o with
      | .deliver to x => KnownFields x ∧ SenderOK b (dispatch tbl b c m0).1 c m0 to x
      | _ => True := by
  have hk := known_strip hci
  have lift : ∀ (b' : Bus) {l : List Out}, (∀ o ∈ l, OutOK noFw o) → ∀ o ∈ l,
      match o with
      | .deliver to x => KnownFields x ∧ SenderOK b b' c m0 to x
      | _ => True := by
    intro b' l h o ho
    have := h o ho
    match o, this with
    | .deliver to x, h => rcases h with h | h; exact ⟨h.2, Or.inl h.1⟩; exact h.elim
    | .opaque _ _, _ => trivial
    | .close _, _ => trivial
  unfold dispatch
  split
  · intro o ho; cases ho
  · rename_i x hx
    dsimp only
    split
    · -- the connection's built-in peer filter
      rename_i hp
      intro o ho
      simp only [List.mem_singleton] at ho
      subst ho
      have hd : (strip m0).dest = none := by
        simp only [Bool.and_eq_true, Option.isNone_iff_eq_none] at hp; exact hp.1
      exact ⟨(peerFilter_ok _).1, Or.inr (Or.inr (Or.inr ⟨(peerFilter_ok _).2, rfl, hd⟩))⟩
    · split
      · exact lift _ (dropConn_outputs b c)
      · split
        · -- left to the connection layer
          rename_i hnd
          intro o ho
          simp only [List.mem_map] at ho
          obtain ⟨y, hy, rfl⟩ := ho
          obtain ⟨h1, h2⟩ := builtin_ok _ _ hy
          have hd : (strip m0).dest = none := by
            simp only [Bool.and_eq_true, Option.isNone_iff_eq_none] at hnd; exact hnd.1
          exact ⟨h1, Or.inr (Or.inr (Or.inr ⟨h2, rfl, hd⟩))⟩
        · split
          · -- to the driver
            have hm := known_setSender hk (senderNameOf b c)
            have h1 := step_toDriver tbl ({ bus := b } : Tx) c hm
            have h2 := step_finish ({ bus := b } : Tx) _ c ((strip m0).setSender (senderNameOf b c)) h1
            have h3 := (step_sweepMonitors (finish (toDriver tbl ({ bus := b } : Tx) c ((strip m0).setSender (senderNameOf b c))) c
              ((strip m0).setSender (senderNameOf b c)))).mono (K' := KAny)
              (fw' := Fwd (senderNameOf (toDriver tbl ({ bus := b } : Tx) c ((strip m0).setSender (senderNameOf b c))).1.bus c))
              (fun _ _ _ => trivial) (fun _ h => h.elim)
            have h4 := outs_of_step (Step.trans KAny.trans h2 h3) rfl
            have hname : senderNameOf (sweepMonitors (finish (toDriver tbl ({ bus := b } : Tx) c ((strip m0).setSender (senderNameOf b c))) c
                ((strip m0).setSender (senderNameOf b c)))).bus c =
                senderNameOf (toDriver tbl ({ bus := b } : Tx) c ((strip m0).setSender (senderNameOf b c))).1.bus c := by
              have k1 := finish_core (toDriver tbl ({ bus := b } : Tx) c ((strip m0).setSender (senderNameOf b c))) c
                ((strip m0).setSender (senderNameOf b c))
              have k2 := (step_sweepMonitors (finish (toDriver tbl ({ bus := b } : Tx) c ((strip m0).setSender (senderNameOf b c))) c
                ((strip m0).setSender (senderNameOf b c)))).bus
              rw [senderNameOf_core k2, senderNameOf_core k1]
            intro o ho
            have := h4 o ho
            match o, this with
            | .deliver to y, h =>
              rcases h with h | h
              · exact ⟨h.2, Or.inl h.1⟩
              · refine ⟨h.1, Or.inr (Or.inr (Or.inl ?_))⟩
                rw [h.2, hname]
            | .opaque _ _, _ => trivial
            | .close _, _ => trivial
          · split
            · exact lift _ (dropConn_outputs b c)
            · have h1 := (step_route ({ bus := b } : Tx) c ((strip m0).setSender (senderNameOf b c))).mono
                (K' := KAny) (fw' := (· = (strip m0).setSender (senderNameOf b c))) (fun _ _ _ => trivial) (fun _ h => h)
              have h2 := outs_of_step (step_finish ({ bus := b } : Tx) _ c ((strip m0).setSender (senderNameOf b c)) h1) rfl
              intro o ho
              have := h2 o ho
              match o, this with
              | .deliver to y, h =>
                rcases h with h | h
                · exact ⟨h.2, Or.inl h.1⟩
                · subst h
                  exact ⟨known_setSender hk _, Or.inr (Or.inl (sender_setSender _ _))⟩
              | .opaque _ _, _ => trivial
              | .close _, _ => trivial

/-! ### the precondition is what the loader guarantees -/

theorem checkFields_seen10 (s : Bool) : ∀ (fs : List Field) (seen : List Nat), checkFields s fs seen = true →
    10 ∈ seen → fs.filter (·.code = 10) = []
  | [], _, _, _ => rfl
  | f :: fs, seen, h, h10 => by
    unfold checkFields at h
    split at h; · cases h
    split at h
    · rename_i h0 hl
      have : f.code ≠ 10 := by simp [FIELD_LAST] at hl; omega
      simp [List.filter_cons, this, checkFields_seen10 s fs seen h h10]
    · split at h
      · rename_i h0 hl b b' hft hty
        split at h; · cases h
        split at h; · cases h
        split at h; · cases h
        rename_i hne hseen hcont
        have : f.code ≠ 10 := by
          intro h; rw [h] at hseen; exact hseen (by simpa using h10)
        simp [List.filter_cons, this, checkFields_seen10 s fs (f.code :: seen) h (by simp [h10])]
      · cases h

theorem checkFields_ci_once (s : Bool) : ∀ (fs : List Field) (seen : List Nat), checkFields s fs seen = true →
    (fs.filter (·.code = 10)).length ≤ 1
  | [], _, _ => by simp
  | f :: fs, seen, h => by
    unfold checkFields at h
    split at h; · cases h
    split at h
    · rename_i h0 hl
      have : f.code ≠ 10 := by simp [FIELD_LAST] at hl; omega
      simpa [List.filter_cons, this] using checkFields_ci_once s fs seen h
    · split at h
      · split at h; · cases h
        split at h; · cases h
        split at h; · cases h
        by_cases h10 : f.code = 10
        · have := checkFields_seen10 s fs (f.code :: seen) h (by simp [h10])
          simp [List.filter_cons, h10, this]
        · simpa [List.filter_cons, h10] using checkFields_ci_once s fs (f.code :: seen) h
      · cases h

/-- every message the loader hands to the bus meets the precondition of `dispatch_outputs` -/
theorem loaded_ci_once {mx fds : Nat} {bs : Bytes} {m : Msg} {n : Nat} (h : loadOne true mx fds bs = .ok m n) :
    (m.fields.filter (·.code = 10)).length ≤ 1 :=
  checkFields_ci_once true m.fields [] (Dbus.Proofs.Message.loadOne_sound h).2.2.fields_ok

end Dbus.Proofs.Bus
