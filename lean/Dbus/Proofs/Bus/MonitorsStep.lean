import Dbus.Proofs.Bus.Monitors
/-
  C18, second half of "can affect nothing": every step of the bus agrees, in what it sends to the
  clients and in the state it leaves (monitors shaded), with the same step taken on the bus whose
  monitors are idle ordinary connections.  `Monitors.lean` has the gate, the routing, the registry;
  here are the driver's methods, the disconnect path, the end-of-dispatch sweep and the events that
  are not messages.
-/
namespace Dbus.Proofs.Bus
open Dbus Dbus.Spec Dbus.Model Dbus.Model.Bus

variable {k : Option ConnId}

/-! ### tools -/

theorem shadow_foldl {α : Type} (f : Tx → α → Tx) (hf : ∀ t t' a, Shadow k t t' → Shadow k (f t a) (f t' a)) :
    ∀ (l : List α) {t t' : Tx}, Shadow k t t' → Shadow k (l.foldl f t) (l.foldl f t')
  | [], _, _, h => h
  | a :: l, _, _, h => shadow_foldl f hf l (hf _ _ a h)

/-- a function with a result: if it respects `Shadow`, it respects `Sim` -/
theorem sim_of_shadow2 {α : Type} (f : Tx → Tx × α)
    (hf : ∀ t t', Shadow k t t' → Shadow k (f t).1 (f t').1 ∧ (f t').2 = (f t).2) {t t' : Tx} (h : Sim k t t') :
    Sim k (f t).1 (f t').1 ∧ (f t').2 = (f t).2 := by
  have h1 : Shadow k t ({ bus := shade k t.bus, out := t.out } : Tx) := ⟨rfl, rfl⟩
  have h2 : Shadow k t' ({ bus := shade k t.bus, out := t.out } : Tx) := ⟨h.1.symm, h.2.symm⟩
  have r1 := hf _ _ h1
  have r2 := hf _ _ h2
  exact ⟨⟨by rw [← r2.1.1, ← r1.1.1], by rw [← r2.1.2, ← r1.1.2]⟩, by rw [← r2.2, ← r1.2]⟩

theorem pending_shade (b : Bus) : (shade k b).pending = b.pending := rfl
theorem services_shade (b : Bus) : (shade k b).services = b.services := rfl
theorem limits_shade (b : Bus) : (shade k b).limits = b.limits := rfl

theorem nameOf_sim {b b' : Bus} (h : shade k b' = shade k b) (c : ConnId) : b'.nameOf c = b.nameOf c := by
  rw [← nameOf_shade b', ← nameOf_shade b, h]

theorem senderNameOf_sim {b b' : Bus} (h : shade k b' = shade k b) (c : ConnId) : senderNameOf b' c = senderNameOf b c := by
  unfold senderNameOf; rw [nameOf_sim h]

theorem pending_sim {b b' : Bus} (h : shade k b' = shade k b) : b'.pending = b.pending := by
  have := congrArg Bus.pending h
  exact this

/-! ### the Sim-level versions of what follows a driver method -/

theorem sim_dispatchMatches {t t' : Tx} (h : Sim k t t') (s a : Option ConnId) (m : Msg) :
    Sim k (dispatchMatches t s a m).1 (dispatchMatches t' s a m).1 ∧ (dispatchMatches t' s a m).2 = (dispatchMatches t s a m).2 :=
  sim_of_shadow2 (fun t => dispatchMatches t s a m) (fun _ _ h => shadow_dispatchMatches h s a m) h

theorem sim_sendError {t t' : Tx} (h : Sim k t t') (c : ConnId) (m : Msg) (e : Err) :
    Sim k (sendError t c m e) (sendError t' c m e) :=
  sim_of_shadow (fun t => sendError t c m e) (fun _ _ h => shadow_sendFromDriver h c _) h

theorem sim_finish {t t' : Tx} (h : Sim k t t') (e : Option Err) (c : ConnId) (m : Msg) :
    Sim k (finish (t, e) c m) (finish (t', e) c m) := by
  cases e with
  | none => exact h
  | some e => exact sim_sendError h c m e

/-! ### pending replies of a vanished connection -/

theorem shadow_noReplyTo {t t' : Tx} (h : Shadow k t t') (c : ConnId) (p : Pending) :
    Shadow k (noReplyTo c t p) (noReplyTo c t' p) := by
  unfold noReplyTo
  split
  · exact shadow_sendFromDriver h _ _
  · exact h

theorem shadow_dropPending {t t' : Tx} (h : Shadow k t t') (c : ConnId) : Shadow k (dropPending t c) (dropPending t' c) := by
  have hp : t'.bus.pending = t.bus.pending := by rw [h.1]; rfl
  unfold dropPending
  rw [hp]
  exact shadow_foldl (noReplyTo c) (fun _ _ p h => shadow_noReplyTo h c p) _ (h.setPending _)

theorem sim_dropPending {t t' : Tx} (h : Sim k t t') (c : ConnId) : Sim k (dropPending t c) (dropPending t' c) :=
  sim_of_shadow (fun t => dropPending t c) (fun _ _ h => shadow_dropPending h c) h

/-- nothing in the list involves `d` -/
def QuietIn (p : List Pending) (d : ConnId) : Prop := ∀ e ∈ p, involves d e = false

theorem dropPending_quiet (t : Tx) (d : ConnId) (h : QuietIn t.bus.pending d) : dropPending t d = t := by
  unfold dropPending
  have h1 : t.bus.pending.filter (involves d) = [] := by
    rw [List.filter_eq_nil_iff]
    intro e he
    simp [h e he]
  have h2 : (t.bus.pending.filter fun p => !involves d p) = t.bus.pending := by
    rw [List.filter_eq_self]
    intro e he
    simp [h e he]
  rw [h1, h2]
  rfl

theorem fold_noReplyTo_bus (c : ConnId) : ∀ (ps : List Pending) (t : Tx), (ps.foldl (noReplyTo c) t).bus = t.bus
  | [], _ => rfl
  | p :: ps, t => by
    simp only [List.foldl_cons]
    rw [fold_noReplyTo_bus c ps]
    unfold noReplyTo
    split
    · exact sendFromDriver_bus _ _ _
    · rfl

theorem dropPending_bus (t : Tx) (c : ConnId) :
    (dropPending t c).bus = { t.bus with pending := t.bus.pending.filter fun p => !involves c p } := by
  unfold dropPending
  rw [fold_noReplyTo_bus]
  rfl

/-- the sweep at the end of a dispatch, when every monitor but (possibly) `c` is quiet: at most `c` is swept -/
theorem sweep_fold (c : ConnId) : ∀ (l : List Conn) (t : Tx), (∀ x ∈ l, x.id ≠ c → QuietIn t.bus.pending x.id) →
    l.foldl (fun t x => dropPending t x.id) t = if l.any (·.id == c) then dropPending t c else t
  | [], _, _ => rfl
  | x :: l, t, hq => by
    simp only [List.foldl_cons, List.any_cons]
    by_cases hx : x.id = c
    · have hq' : ∀ y ∈ l, y.id ≠ c → QuietIn (dropPending t x.id).bus.pending y.id := by
        intro y hy hne e he
        rw [dropPending_bus] at he
        exact hq y (List.mem_cons_of_mem _ hy) hne e (List.mem_filter.mp he).1
      rw [sweep_fold c l _ hq']
      have hb : (x.id == c) = true := by simpa using hx
      simp only [hb, Bool.true_or, if_true]
      rw [hx]
      split
      · apply dropPending_quiet
        intro e he
        rw [dropPending_bus] at he
        have := (List.mem_filter.mp he).2
        simpa using this
      · rfl
    · have hb : (x.id == c) = false := by simpa using hx
      rw [dropPending_quiet t x.id (hq x List.mem_cons_self hx)]
      rw [sweep_fold c l t (fun y hy => hq y (List.mem_cons_of_mem _ hy))]
      simp only [hb, Bool.false_or]

/-! ### Hello -/

theorem nCompleted_shade (b : Bus) : nCompleted (shade k b) = nCompleted b := by
  unfold nCompleted shade
  exact filter_map_length (fun x => by rw [neutral_name])

theorem nCompletedFor_shade (b : Bus) (uid : Nat) : nCompletedFor (shade k b) uid = nCompletedFor b uid := by
  unfold nCompletedFor shade
  exact filter_map_length (fun x => by rw [neutral_name, neutral_uid])

theorem uidOf_shade (b : Bus) (c : ConnId) : uidOf (shade k b) c = uidOf b c := by
  unfold uidOf; rw [conn?_shade]
  cases b.conn? c with
  | none => rfl
  | some x => simp [neutral_uid]

theorem isRoot_shade (b : Bus) (c : ConnId) : isRoot (shade k b) c = isRoot b c := by
  unfold isRoot; rw [conn?_shade]
  cases b.conn? c with
  | none => rfl
  | some x => simp [neutral_uid]

theorem bump_shade (b : Bus) : bump (shade k b) = (shade k (bump b).1, (bump b).2) := rfl

theorem mintAux_shade : ∀ (f : Nat) (b : Bus), mintAux f (shade k b) = (shade k (mintAux f b).1, (mintAux f b).2)
  | 0, b => rfl
  | f + 1, b => by
    show (if ((shade k (bump b).1).service? (bump b).2).isNone then (shade k (bump b).1, (bump b).2) else mintAux f (shade k (bump b).1)) =
      (shade k (if ((bump b).1.service? (bump b).2).isNone then bump b else mintAux f (bump b).1).1,
       (if ((bump b).1.service? (bump b).2).isNone then bump b else mintAux f (bump b).1).2)
    have : (shade k (bump b).1).service? (bump b).2 = (bump b).1.service? (bump b).2 := rfl
    rw [this]
    by_cases h : (((bump b).1.service? (bump b).2).isNone) = true
    · simp only [h, if_true]
    · simp only [h]
      exact mintAux_shade f _

theorem mint_shade (b : Bus) : mint (shade k b) = (shade k (mint b).1, (mint b).2) := mintAux_shade _ b

theorem activate_shade (b : Bus) (c : ConnId) (nm : Bytes) : activate (shade k b) c nm = shade k (activate b c nm) := by
  unfold activate
  have hb : Blind k (fun x : Conn => { x with name := some nm, policy := b.policy.clientPolicy b.limits.maxFdsDefault x.uid x.gids false }) := by
    exact blind_of_fields _ (fun _ => rfl) (fun _ => rfl) (fun _ => rfl)
  have := updConn_shade b c _ hb
  show ({ (shade k b).updConn c (fun x : Conn => { x with name := some nm, policy := b.policy.clientPolicy b.limits.maxFdsDefault x.uid x.gids false }) with
          minted := nm :: b.minted } : Bus) = _
  rw [this]
  rfl

theorem shadow_helloOk {t t' : Tx} (h : Shadow k t t') (c : ConnId) (m : Msg) : Shadow k (helloOk t c m) (helloOk t' c m) := by
  unfold helloOk
  rw [h.1, mint_shade]
  dsimp only
  apply shadow_ensureService
  apply shadow_reply
  exact ⟨activate_shade _ _ _, h.2⟩

theorem shadow_hello {t t' : Tx} (h : Shadow k t t') (c : ConnId) (m : Msg) :
    Shadow k (hello t c m).1 (hello t' c m).1 ∧ (hello t' c m).2 = (hello t c m).2 := by
  unfold hello
  rw [h.1, isActive_shade, nCompleted_shade, nCompletedFor_shade, uidOf_shade, limits_shade]
  cases h1 : t.bus.isActive c with
  | true => simp only [if_true]; exact ⟨h, trivial⟩
  | false =>
    simp only [Bool.false_eq_true, if_false]
    by_cases h2 : nCompleted t.bus ≥ t.bus.limits.maxCompleted
    · simp only [h2, if_true]; exact ⟨h, trivial⟩
    simp only [h2, if_false]
    by_cases h3 : nCompletedFor t.bus (uidOf t.bus c) ≥ t.bus.limits.maxPerUser
    · simp only [h3, if_true]; exact ⟨h, trivial⟩
    simp only [h3, if_false]
    exact ⟨shadow_helloOk h c m, trivial⟩

/-! ### the driver's methods -/

theorem conn?_shade_self (b : Bus) (c : ConnId) : (shade (some c) b).conn? c = b.conn? c := by
  rw [conn?_shade]
  cases h : b.conn? c with
  | none => rfl
  | some x =>
    have hid : x.id = c := by simpa using List.find?_some h
    simp [neutral_self hid]

theorem nRules_shade_self (b : Bus) (c : ConnId) : nRules (shade (some c) b) c = nRules b c := by
  unfold nRules; rw [conn?_shade_self]

theorem rulesOfConn_shade_self (b : Bus) (c : ConnId) : rulesOfConn (shade (some c) b) c = rulesOfConn b c := by
  unfold rulesOfConn; rw [conn?_shade_self]

theorem updConn_shade_self (b : Bus) (c : ConnId) (g : Conn → Conn) (hid : ∀ x, (g x).id = x.id) :
    (shade (some c) b).updConn c g = shade (some c) (b.updConn c g) := by
  apply updConn_shade_at
  intro x _ hx
  rw [neutral_self hx, neutral_self ((hid x).trans hx)]

theorem updRules_shade_self (b : Bus) (c : ConnId) (g : List MatchRule → List MatchRule) :
    (shade (some c) b).updRules c g = shade (some c) (b.updRules c g) :=
  updConn_shade_self b c _ (fun _ => rfl)

/-- while the actor is no monitor, exempting it changes nothing -/
theorem shade_some_of_actor {b : Bus} {c : ConnId} (ha : Actor b c) : shade (some c) b = shade none b := by
  unfold shade
  congr 1
  apply List.map_congr_left
  intro x hx
  by_cases hid : x.id = c
  · rw [neutral_self hid, neutral_of_not_monitor (ha x hx hid)]
  · cases hs : shaded none x with
    | true =>
      have : shaded (some c) x = true := by
        unfold shaded at hs ⊢
        simp only [Bool.and_eq_true, bne_iff_ne, ne_eq] at hs ⊢
        exact ⟨hs.1, by simpa using hid⟩
      rw [neutral_of_shaded hs, neutral_of_shaded this]
    | false =>
      have : shaded (some c) x = false := by
        unfold shaded at hs ⊢
        simp only [Bool.and_eq_false_iff] at hs ⊢
        rcases hs with hs | hs
        · exact Or.inl hs
        · simp at hs
      rw [neutral_of_not_shaded hs, neutral_of_not_shaded this]

/-- shading everybody after shading everybody but one -/
theorem shade_none_shade (b : Bus) : shade none (shade k b) = shade none b := by
  unfold shade
  simp only [List.map_map]
  congr 1
  apply List.map_congr_left
  intro x _
  simp only [Function.comp]
  cases hs : shaded k x with
  | false => rw [neutral_of_not_shaded hs]
  | true =>
    have hm : x.monitor = true := by unfold shaded at hs; simp only [Bool.and_eq_true] at hs; exact hs.1
    have h0 : shaded none x = true := by unfold shaded; simp [hm]
    rw [neutral_of_shaded hs, neutral_of_shaded h0]
    apply neutral_of_not_shaded
    unfold shaded; rfl

theorem service?_shade (b : Bus) (n : Bytes) : (shade k b).service? n = b.service? n := rfl

theorem shadow_opaque_fold {t t' : Tx} (h : Shadow k t t') (ser : Nat) : ∀ (l l' : List ConnId),
    Shadow k (l.foldl (fun (t : Tx) r => { t with mon := t.mon ++ [Out.opaque r ser] }) t)
      (l'.foldl (fun (t : Tx) r => { t with mon := t.mon ++ [Out.opaque r ser] }) t') := by
  intro l l'
  have e1 := opaque_fold_frame l ser t
  have e2 := opaque_fold_frame l' ser t'
  exact ⟨by rw [e1.1, e2.1]; exact h.1, by rw [e1.2, e2.2]; exact h.2⟩

theorem shadow_runMethod_ne {t t' : Tx} (c : ConnId) (h : Shadow (some c) t t') (m : Msg) (w : Method)
    (hw : w ≠ .becomeMonitor) :
    Shadow (some c) (runMethod t c m w).1 (runMethod t' c m w).1 ∧ (runMethod t' c m w).2 = (runMethod t c m w).2 := by
  cases w with
  | hello => exact shadow_hello h c m
  | requestName =>
    simp only [runMethod]
    have ha2 := shadow_acquire h c (arg0 m) (arg1Nat m)
    rcases hr : Dbus.Model.Bus.acquire t c (arg0 m) (arg1Nat m) with ⟨t1, r⟩
    rcases hr' : Dbus.Model.Bus.acquire t' c (arg0 m) (arg1Nat m) with ⟨t1', r'⟩
    rw [hr, hr'] at ha2
    obtain ⟨hs, he⟩ := ha2
    dsimp only at hs he
    subst he
    cases r' with
    | ok code => exact ⟨shadow_reply hs _ _ _ _, rfl⟩
    | error e => exact ⟨hs, rfl⟩
  | releaseName =>
    simp only [runMethod]
    have ha2 := shadow_release h c (arg0 m)
    rcases hr : Dbus.Model.Bus.release t c (arg0 m) with ⟨t1, r⟩
    rcases hr' : Dbus.Model.Bus.release t' c (arg0 m) with ⟨t1', r'⟩
    rw [hr, hr'] at ha2
    obtain ⟨hs, he⟩ := ha2
    dsimp only at hs he
    subst he
    cases r' with
    | ok code => exact ⟨shadow_reply hs _ _ _ _, rfl⟩
    | error e => exact ⟨hs, rfl⟩
  | nameHasOwner =>
    simp only [runMethod]
    rw [h.1, service?_shade]
    exact ⟨shadow_reply h _ _ _ _, by first | trivial | rfl⟩
  | listNames =>
    simp only [runMethod]
    rw [h.1, services_shade]
    exact ⟨shadow_reply h _ _ _ _, by first | trivial | rfl⟩
  | getNameOwner =>
    simp only [runMethod]
    rw [h.1, primary?_shade]
    cases t.bus.primary? (arg0 m) with
    | some o => simp only [uniqueOrEmpty_shade]; exact ⟨shadow_reply h _ _ _ _, by first | trivial | rfl⟩
    | none =>
      dsimp only
      by_cases hn : (arg0 m == BUS_NAME) = true
      · simp only [hn, if_true]; exact ⟨shadow_reply h _ _ _ _, by first | trivial | rfl⟩
      · simp only [hn]; exact ⟨h, by first | trivial | rfl⟩
  | listQueuedOwners =>
    simp only [runMethod]
    rw [h.1, ownersOf_shade]
    cases ownersOf t.bus (arg0 m) with
    | nil =>
      dsimp only
      by_cases hn : (arg0 m == BUS_NAME) = true
      · simp only [hn, if_true]; exact ⟨shadow_reply h _ _ _ _, by first | trivial | rfl⟩
      · simp only [hn]; exact ⟨h, by first | trivial | rfl⟩
    | cons o os =>
      simp only [uniqueOrEmpty_shade]
      exact ⟨shadow_reply h _ _ _ _, by first | trivial | rfl⟩
  | getUnixUser =>
    simp only [runMethod]
    rw [h.1, primary?_shade]
    by_cases hn : (arg0 m == BUS_NAME) = true
    · simp only [hn, if_true]; exact ⟨shadow_reply h _ _ _ _, by first | trivial | rfl⟩
    · simp only [hn]
      cases t.bus.primary? (arg0 m) with
      | some o => simp only [uidOf_shade]; exact ⟨shadow_reply h _ _ _ _, by first | trivial | rfl⟩
      | none => exact ⟨h, by first | trivial | rfl⟩
  | ping => exact ⟨shadow_reply h _ _ _ _, rfl⟩
  | addMatch =>
    simp only [runMethod]
    rw [h.1, nRules_shade_self, limits_shade, isRoot_shade]
    by_cases h1 : nRules t.bus c ≥ t.bus.limits.maxRules
    · simp only [h1, if_true]; exact ⟨h, by first | trivial | rfl⟩
    simp only [h1, if_false]
    cases parseRule (arg0 m) with
    | ok r =>
      dsimp only
      by_cases h2 : (r.eavesdrop && !isRoot t.bus c) = true
      · simp only [h2, if_true]; exact ⟨h, by first | trivial | rfl⟩
      · simp only [h2]
        refine ⟨shadow_reply ?_ _ _ _ _, by first | trivial | rfl⟩
        exact ⟨updRules_shade_self t.bus c (· ++ [r]), h.2⟩
    | tooLong => exact ⟨h, by first | trivial | rfl⟩
    | invalid => exact ⟨h, by first | trivial | rfl⟩
  | removeMatch =>
    simp only [runMethod]
    rw [h.1, rulesOfConn_shade_self]
    cases parseRule (arg0 m) with
    | ok r =>
      dsimp only
      cases removeRule (rulesOfConn t.bus c) r with
      | some rs' =>
        dsimp only
        have hr := shadow_reply h c m [] []
        refine ⟨⟨?_, hr.2⟩, by first | trivial | rfl⟩
        show (reply t' c m [] []).bus.updRules c (fun _ => rs') = shade (some c) ((reply t c m [] []).bus.updRules c (fun _ => rs'))
        rw [hr.1]
        exact updRules_shade_self _ c (fun _ => rs')
      | none => exact ⟨shadow_reply h _ _ _ _, by first | trivial | rfl⟩
    | tooLong => exact ⟨h, by first | trivial | rfl⟩
    | invalid => exact ⟨h, by first | trivial | rfl⟩
  | becomeMonitor => exact absurd rfl hw
  | opaqueM =>
    simp only [runMethod]
    generalize captureTargets t'.bus none (some c) (stampDriver t'.bus c (mkReturn m [] [])) = l'
    generalize captureTargets t.bus none (some c) (stampDriver t.bus c (mkReturn m [] [])) = l
    have e1 := opaque_fold_frame l m.serial t
    have e2 := opaque_fold_frame l' m.serial t'
    have hf := shadow_opaque_fold h m.serial l l'
    rw [e1.1, e2.1, h.1, stampDriver_shade, checkPolicy_shade]
    rcases checkPolicy t.bus none (some c) (some c) (stampDriver t.bus c (mkReturn m [] [])) with ⟨p, e⟩
    cases e with
    | some e => exact ⟨(hf.setPending p).captureError _ _ _, by first | trivial | rfl⟩
    | none => exact ⟨(hf.setPending p).emit _, by first | trivial | rfl⟩

/-! ### BecomeMonitor, with the caller exempt from shading -/

theorem gcRules_shade (b : Bus) (x : Conn) : gcRules (shade k b) x = shade k (gcRules b x) := by
  unfold gcRules
  cases h1 : (x.rules.isEmpty && x.monitorRules.isEmpty) with
  | true => simp only [if_true]
  | false =>
  simp only [Bool.false_eq_true, if_false]
  cases x.name with
  | none => rfl
  | some nm =>
    dsimp only
    unfold shade
    simp only [List.map_map]
    congr 1
    apply List.map_congr_left
    intro y _
    simp only [Function.comp, neutral_id]
    cases hy : (y.id == x.id) with
    | true => simp only [if_true]
    | false =>
      simp only [Bool.false_eq_true, if_false]
      cases hs : shaded k y with
      | true =>
        have hs' : shaded k ({ y with rules := y.rules.filter fun r => !(r.sender == some nm || r.dest == some nm) } : Conn) = true := hs
        rw [neutral_of_shaded hs, neutral_of_shaded hs']
        rfl
      | false =>
        have hs' : shaded k ({ y with rules := y.rules.filter fun r => !(r.sender == some nm || r.dest == some nm) } : Conn) = false := hs
        rw [neutral_of_not_shaded hs, neutral_of_not_shaded hs']

theorem installMonitorRules_shade_self (c : ConnId) (rules : List MatchRule) (b : Bus) :
    installMonitorRules c rules (shade (some c) b) = shade (some c) (installMonitorRules c rules b) :=
  updConn_shade_self b c _ (fun _ => rfl)

theorem joinMonitors_shade_self (c : ConnId) (x : Conn) (rules : List MatchRule) (b : Bus) :
    joinMonitors c x rules (shade (some c) b) = shade (some c) (joinMonitors c x rules b) := by
  unfold joinMonitors
  rw [gcRules_shade]
  exact updConn_shade_self _ c _ (fun _ => rfl)

theorem shadow_releaseAll {t t' : Tx} (h : Shadow k t t') (c : ConnId) (names : List Bytes) :
    Shadow k (releaseAll t c names) (releaseAll t' c names) :=
  shadow_foldl (fun t n => removeOwner t n c) (fun _ _ n h => shadow_removeOwner h n c) names h

theorem shadow_beMonitor {t t' : Tx} (c : ConnId) (h : Shadow (some c) t t') (rules : List MatchRule) :
    Shadow (some c) (beMonitor t c rules) (beMonitor t' c rules) := by
  unfold beMonitor
  rw [h.1, conn?_shade_self]
  cases t.bus.conn? c with
  | none => exact h
  | some x =>
    dsimp only
    have h1 : Shadow (some c) (t.mapBus (installMonitorRules c rules)) (t'.mapBus (installMonitorRules c rules)) :=
      ⟨by show installMonitorRules c rules t'.bus = _; rw [h.1]; exact installMonitorRules_shade_self c rules t.bus, h.2⟩
    have h2 := shadow_releaseAll h1 c x.owned
    exact ⟨by show joinMonitors c x rules _ = _; rw [h2.1]; exact joinMonitors_shade_self c x rules _, h2.2⟩

theorem shadow_runMethod {t t' : Tx} (c : ConnId) (h : Shadow (some c) t t') (m : Msg) (w : Method) :
    Shadow (some c) (runMethod t c m w).1 (runMethod t' c m w).1 ∧ (runMethod t' c m w).2 = (runMethod t c m w).2 := by
  by_cases hw : w = .becomeMonitor
  · subst hw
    simp only [runMethod]
    by_cases h1 : (arg1Nat m != 0) = true
    · simp only [h1, if_true]; exact ⟨h, trivial⟩
    simp only [h1]
    cases parseMonitorRules (monitorTexts m) with
    | error e => exact ⟨h, by first | trivial | rfl⟩
    | ok rules => exact ⟨shadow_beMonitor c (shadow_reply h c m [] []) rules, by first | trivial | rfl⟩
  · exact shadow_runMethod_ne c h m w hw

theorem shadow_driverHandle (tbl : List IfaceRow) {t t' : Tx} (c : ConnId) (h : Shadow (some c) t t') (m : Msg) :
    Shadow (some c) (driverHandle tbl t c m).1 (driverHandle tbl t' c m).1 ∧ (driverHandle tbl t' c m).2 = (driverHandle tbl t c m).2 := by
  unfold driverHandle
  rw [h.1, isRoot_shade]
  by_cases h1 : (m.mtype != 1) = true
  · simp only [h1, if_true]; exact ⟨h, by first | trivial | rfl⟩
  simp only [h1]
  cases findHandler tbl (m.path == some DBUS_PATH) m.iface (m.member.getD []) with
  | noInterface => exact ⟨h, by first | trivial | rfl⟩
  | noMethod => exact ⟨h, by first | trivial | rfl⟩
  | handler i row =>
    dsimp only
    by_cases h2 : (row.privileged && !isRoot t.bus c) = true
    · simp only [h2, if_true]; exact ⟨h, by first | trivial | rfl⟩
    simp only [h2]
    by_cases h3 : (!(m.path == some DBUS_PATH || row.anyPath)) = true
    · simp only [h3, if_true]; exact ⟨h, by first | trivial | rfl⟩
    simp only [h3]
    by_cases h4 : (bodySig m != row.inSig) = true
    · simp only [h4, if_true]; exact ⟨h, by first | trivial | rfl⟩
    simp only [h4]
    exact shadow_runMethod c h m _

theorem shadow_toDriverCore (tbl : List IfaceRow) {t t' : Tx} (c : ConnId) (h : Shadow (some c) t t') (m : Msg) :
    Shadow (some c) (toDriverCore tbl t c m).1 (toDriverCore tbl t' c m).1 ∧ (toDriverCore tbl t' c m).2 = (toDriverCore tbl t c m).2 := by
  unfold toDriverCore
  rw [h.1, checkPolicy_shade]
  rcases checkPolicy t.bus (some c) none none m with ⟨p, e⟩
  dsimp only
  cases e with
  | some e => exact ⟨h.setPending p, rfl⟩
  | none =>
    dsimp only
    have hd := shadow_driverHandle tbl c (h.setPending p) m
    rcases hr : driverHandle tbl (t.setPending p) c m with ⟨t1, e1⟩
    rcases hr' : driverHandle tbl (t'.setPending p) c m with ⟨t1', e1'⟩
    rw [hr, hr'] at hd
    obtain ⟨hs, he⟩ := hd
    dsimp only at hs he
    subst he
    cases e1' with
    | some e => exact ⟨hs, rfl⟩
    | none =>
      dsimp only
      rw [hs.1, senderNameOf_shade]
      exact shadow_dispatchMatches hs (some c) none (m.setSender (senderNameOf t1.bus c))

theorem shadow_toDriver (tbl : List IfaceRow) {t t' : Tx} (c : ConnId) (h : Shadow (some c) t t') (m : Msg) :
    Shadow (some c) (toDriver tbl t c m).1 (toDriver tbl t' c m).1 ∧ (toDriver tbl t' c m).2 = (toDriver tbl t c m).2 := by
  have hh : Shadow (some c) ({ t with mon := [] } : Tx) ({ t' with mon := [] } : Tx) := h
  have := shadow_toDriverCore tbl c hh m
  exact ⟨⟨this.1.1, this.1.2⟩, this.2⟩

/-! ### the sweep at the end of a dispatch -/

/-- every monitor but (possibly) `c` has no pending reply to its name -/
def QuietX (c : ConnId) (b : Bus) : Prop := ∀ x ∈ b.conns, x.monitor = true → x.id ≠ c → QuietIn b.pending x.id

theorem any_monitor_self (c : ConnId) : ∀ (l : List Conn),
    ((l.map (neutral (some c))).filter (·.monitor)).any (·.id == c) = (l.filter (·.monitor)).any (·.id == c)
  | [] => rfl
  | x :: l => by
    have ih := any_monitor_self c l
    simp only [List.map_cons, List.filter_cons]
    cases hs : shaded (some c) x with
    | true =>
      have hm : x.monitor = true := by unfold shaded at hs; simp only [Bool.and_eq_true] at hs; exact hs.1
      have hne : (x.id == c) = false := by
        unfold shaded at hs; simp only [Bool.and_eq_true, bne_iff_ne, ne_eq, Option.some.injEq] at hs
        simpa using hs.2
      rw [neutral_of_shaded hs]
      simp only [hm, if_true, Bool.false_eq_true, if_false, List.any_cons, hne, Bool.false_or]
      exact ih
    | false =>
      rw [neutral_of_not_shaded hs]
      split
      · simp only [List.any_cons, ih]
      · exact ih

theorem shadow_sweep {T T' : Tx} (c : ConnId) (h : Shadow (some c) T T') (hq : QuietX c T.bus) :
    Shadow (some c) (sweepMonitors T) (sweepMonitors T') := by
  unfold sweepMonitors
  rw [sweep_fold c (T.bus.conns.filter (·.monitor)) T
    (fun x hx hne => hq x (List.mem_filter.mp hx).1 (List.mem_filter.mp hx).2 hne)]
  have hq' : ∀ x ∈ T'.bus.conns.filter (·.monitor), x.id ≠ c → QuietIn T'.bus.pending x.id := by
    intro x hx hne
    exfalso
    obtain ⟨hx1, hx2⟩ := List.mem_filter.mp hx
    rw [h.1] at hx1
    unfold shade at hx1
    simp only [List.mem_map] at hx1
    obtain ⟨y, _, rfl⟩ := hx1
    cases hs : shaded (some c) y with
    | true => rw [neutral_of_shaded hs] at hx2; cases hx2
    | false =>
      rw [neutral_of_not_shaded hs] at hx2 hne
      unfold shaded at hs
      simp only [hx2, Bool.true_and, bne_eq_false_iff_eq, Option.some.injEq] at hs
      exact hne hs
  rw [sweep_fold c (T'.bus.conns.filter (·.monitor)) T' hq']
  have hany : (T'.bus.conns.filter (·.monitor)).any (·.id == c) = (T.bus.conns.filter (·.monitor)).any (·.id == c) := by
    rw [h.1]; exact any_monitor_self c T.bus.conns
  rw [hany]
  split
  · exact shadow_dropPending h c
  · exact h

/-! ### a connection goes away -/

theorem gcRules_congr (b : Bus) {x x' : Conn} (h1 : x'.rules.isEmpty = x.rules.isEmpty) (h2 : x'.monitorRules = x.monitorRules)
    (h3 : x'.name = x.name) (h4 : x'.id = x.id) : gcRules b x' = gcRules b x := by
  unfold gcRules
  rw [h1, h2, h3, h4]

theorem clearRules_shade (b : Bus) (c : ConnId) : clearRules (shade k b) c = shade k (clearRules b c) :=
  updConn_shade b c _ (blind_of_fields _ (fun _ => rfl) (fun _ => rfl) (fun _ => rfl))

theorem neutral_rules_isEmpty {x : Conn} (h : x.monitor = true → x.rules = []) : (neutral k x).rules.isEmpty = x.rules.isEmpty := by
  cases hs : shaded k x with
  | true =>
    have hm : x.monitor = true := by unfold shaded at hs; simp only [Bool.and_eq_true] at hs; exact hs.1
    rw [neutral_of_shaded hs, h hm]
  | false => rw [neutral_of_not_shaded hs]

theorem shadow_disconnectTx (b : Bus) (c : ConnId) (x : Conn) (hx : x.monitor = true → x.rules = []) :
    Shadow k (disconnectTx b c x) (disconnectTx (shade k b) c (neutral k x)) := by
  unfold disconnectTx
  rw [neutral_owned]
  apply shadow_dropPending
  have h0 : Shadow k ({ bus := clearRules (gcRules b x) c } : Tx) ({ bus := clearRules (gcRules (shade k b) (neutral k x)) c } : Tx) := by
    refine ⟨?_, rfl⟩
    show clearRules (gcRules (shade k b) (neutral k x)) c = shade k (clearRules (gcRules b x) c)
    rw [gcRules_congr (shade k b) (neutral_rules_isEmpty hx) (neutral_monitorRules x) (neutral_name x) (neutral_id x),
      gcRules_shade, clearRules_shade]
  have h1 := shadow_releaseAll h0 c x.owned.reverse
  exact ⟨by show removeConn c _ = shade k (removeConn c _); rw [h1.1]; exact removeConn_shade c _, h1.2⟩

theorem shadow_disconnect (b : Bus) (hc : MonClean b) (c : ConnId) : Shadow k (disconnect b c) (disconnect (shade k b) c) := by
  unfold disconnect
  rw [conn?_shade]
  cases h : b.conn? c with
  | none => exact ⟨rfl, rfl⟩
  | some x =>
    have hx : x ∈ b.conns := List.mem_of_find?_eq_some h
    have := shadow_disconnectTx (k := k) b c x (hc x hx)
    simp only [Option.map_some]
    exact ⟨this.1, by show List.filter _ _ = List.filter _ _; rw [this.2]⟩

theorem shadow_dropConn (b : Bus) (hc : MonClean b) (c : ConnId) : Shadow k (dropConn b c) (dropConn (shade k b) c) := by
  have := shadow_disconnect (k := k) b hc c
  unfold dropConn
  exact ⟨this.1, by show _ ++ _ = _ ++ _; rw [this.2]⟩

/-! ### a whole dispatch, a whole step -/

theorem sim_of_shadow_some {c : ConnId} {T T' : Tx} (h : Shadow (some c) T T') : Sim none T T' :=
  ⟨by rw [h.1, shade_none_shade], h.2⟩

theorem actor_of_conn {b : Bus} {c : ConnId} {x : Conn} (hids : (b.conns.map (·.id)).Nodup) (hx : b.conn? c = some x)
    (hm : x.monitor = false) : Actor b c := by
  intro y hy hid
  have hxm : x ∈ b.conns := List.mem_of_find?_eq_some hx
  have hxid : x.id = c := by simpa using List.find?_some hx
  have : y = x := inj_of_nodup_map' _ hids hy hxm (hid.trans hxid.symm)
  rw [this]; exact hm

/-- a message from a connection that is no monitor: the same dispatch on the bus without monitors -/
theorem dispatch_sim_actor (tbl : List IfaceRow) (b : Bus) (hids : (b.conns.map (·.id)).Nodup) (hcl : MonClean b)
    (c : ConnId) (x : Conn) (m0 : Msg) (hx : b.conn? c = some x) (hmon : x.monitor = false)
    (hsw : ∀ m, QuietX c (finish (toDriver tbl { bus := b } c m) c m).bus) :
    Sim none (dispatch tbl b c m0) (dispatch tbl (shade none b) c m0) := by
  have hact := actor_of_conn hids hx hmon
  have hx' : (shade none b).conn? c = some x := by rw [conn?_shade, hx]; simp [neutral_of_not_monitor hmon]
  unfold dispatch
  rw [hx, hx']
  dsimp only
  by_cases h1 : ((strip m0).dest.isNone && (strip m0).iface == some PEER_IFACE) = true
  · simp only [h1, if_true]; exact (Shadow.sim (k := none) ⟨rfl, rfl⟩)
  simp only [h1, if_false, hmon, Bool.false_eq_true]
  by_cases h2 : ((strip m0).dest.isNone && (strip m0).mtype != 4) = true
  · simp only [h2, if_true]; exact (Shadow.sim (k := none) ⟨rfl, rfl⟩)
  simp only [h2, if_false, senderNameOf_shade]
  by_cases hd : (((strip m0).setSender (senderNameOf b c)).dest == some BUS_NAME) = true
  · simp only [hd, if_true]
    have h0 : Shadow (some c) ({ bus := b } : Tx) ({ bus := shade none b } : Tx) := ⟨(shade_some_of_actor hact).symm, rfl⟩
    have ht := shadow_toDriver tbl c h0 ((strip m0).setSender (senderNameOf b c))
    rcases h3 : toDriver tbl { bus := b } c ((strip m0).setSender (senderNameOf b c)) with ⟨t1, e1⟩
    rcases h4 : toDriver tbl { bus := shade none b } c ((strip m0).setSender (senderNameOf b c)) with ⟨t2, e2⟩
    have hq := hsw ((strip m0).setSender (senderNameOf b c))
    rw [h3] at hq
    rw [h3, h4] at ht
    obtain ⟨hs, he⟩ := ht
    dsimp only at hs he
    subst he
    exact sim_of_shadow_some (shadow_sweep c (shadow_finish hs e2 c _) hq)
  · simp only [hd, Bool.false_eq_true, if_false]
    cases hn : x.name.isNone with
    | true =>
      simp only [if_true]
      have := shadow_dropConn (k := none) b hcl c
      refine ⟨?_, this.2⟩
      show shade none (dropConn (shade none b) c).bus = shade none (dropConn b c).bus
      rw [this.1, shade_idem]
    | false =>
      simp only [Bool.false_eq_true, if_false]
      have hr := shadow_route (k := none) (t := { bus := b }) (t' := { bus := shade none b }) ⟨rfl, rfl⟩ c ((strip m0).setSender (senderNameOf b c))
      rcases h3 : route { bus := b } c ((strip m0).setSender (senderNameOf b c)) with ⟨t1, e1⟩
      rcases h4 : route { bus := shade none b } c ((strip m0).setSender (senderNameOf b c)) with ⟨t2, e2⟩
      rw [h3, h4] at hr
      obtain ⟨hs, he⟩ := hr
      dsimp only at hs he
      subst he
      exact (shadow_finish hs e2 c _).sim

/-- the event as it reads on the bus without monitors: a monitor that speaks is a connection that sent something
    unacceptable and is dropped (messages its built-in peer filter answers excepted: they never reach the bus proper) -/
def shadowEv (b : Bus) : Ev → Ev
  | .msg c m =>
    match b.conn? c with
    | some x =>
      if x.monitor && !((strip m).dest.isNone && (strip m).iface == some PEER_IFACE) then .invalid c else .msg c m
    | none => .msg c m
  | e => e

theorem reloadPolicy_shade (b : Bus) (p : Policy) : reloadPolicy (shade k b) p = shade k (reloadPolicy b p) := by
  unfold reloadPolicy shade
  simp only [List.map_map]
  congr 1
  apply List.map_congr_left
  intro x _
  simp only [Function.comp, neutral_name, neutral_uid]
  cases hs : shaded k x with
  | true =>
    rw [neutral_of_shaded hs]
    split
    · exact (neutral_of_shaded (x := { x with policy := p.clientPolicy b.limits.maxFdsDefault x.uid x.gids false }) hs).symm
    · exact (neutral_of_shaded hs).symm
  | false =>
    rw [neutral_of_not_shaded hs]
    split
    · exact (neutral_of_not_shaded (x := { x with policy := p.clientPolicy b.limits.maxFdsDefault x.uid x.gids false }) hs).symm
    · exact (neutral_of_not_shaded hs).symm

theorem shadow_fold_noReply : ∀ (ps : List Pending) {t t' : Tx}, Shadow k t t' →
    Shadow k (ps.foldl (fun t p => sendError t p.caller (fakeCall p.serial) .noReply) t)
      (ps.foldl (fun t p => sendError t p.caller (fakeCall p.serial) .noReply) t')
  | [], _, _, h => h
  | p :: ps, _, _, h => by
    simp only [List.foldl_cons]
    exact shadow_fold_noReply ps (shadow_sendFromDriver h _ _)

theorem shadow_expireWhere (b : Bus) (due : Pending → Bool) : Shadow k (expireWhere b due) (expireWhere (shade k b) due) := by
  unfold expireWhere
  rw [pending_shade]
  apply shadow_fold_noReply
  exact ⟨rfl, rfl⟩

theorem shadow_expireAll (b : Bus) : Shadow k (expireAll b) (expireAll (shade k b)) := by
  unfold expireAll
  rw [pending_shade]
  apply shadow_fold_noReply
  exact ⟨rfl, rfl⟩

/-- **One step of the bus, with and without its monitors.** Under the invariants of `MonInv.lean` (distinct connection ids;
    monitors hold no match rules; when a dispatch ends, no monitor but possibly its sender has a pending reply to its name)
    the step sends the clients what the same step sends on the bus whose monitors are idle ordinary connections, and leaves
    the same state up to shading. -/
theorem step_sim (tbl : List IfaceRow) (b : Bus) (hids : (b.conns.map (·.id)).Nodup) (hcl : MonClean b)
    (hsw : ∀ c m x, b.conn? c = some x → x.monitor = false → QuietX c (finish (toDriver tbl { bus := b } c m) c m).bus) (ev : Ev) :
    Sim none (step tbl b ev) (step tbl (shade none b) (shadowEv b ev)) := by
  cases ev with
  | connect c uid gids canFd =>
    simp only [shadowEv, step]
    rw [conn?_shade]
    cases h : b.conn? c with
    | some x => simp only [Option.map_some, Option.isSome_some, if_true]; exact Shadow.sim (k := none) ⟨rfl, rfl⟩
    | none =>
      simp only [Option.map_none, Option.isSome_none, Bool.false_eq_true, if_false]
      refine Shadow.sim (k := none) ⟨?_, rfl⟩
      show ({ shade none b with conns := (shade none b).conns ++ [_] } : Bus) = shade none { b with conns := b.conns ++ [_] }
      unfold shade
      simp only [List.map_append, List.map_cons, List.map_nil]
      rw [neutral_of_not_monitor (x := { id := c, uid := uid, gids := gids, canFd := canFd }) rfl]
  | msg c m0 =>
    cases hx : b.conn? c with
    | none =>
      simp only [shadowEv, hx, step]
      unfold dispatch
      rw [hx, conn?_shade, hx]
      exact Shadow.sim (k := none) ⟨rfl, rfl⟩
    | some x =>
      by_cases hp : ((strip m0).dest.isNone && (strip m0).iface == some PEER_IFACE) = true
      · simp only [shadowEv, hx, hp, Bool.not_true, Bool.and_false, Bool.false_eq_true, if_false, step]
        unfold dispatch
        rw [hx, conn?_shade, hx]
        simp only [Option.map_some, hp, if_true]
        exact Shadow.sim (k := none) ⟨rfl, rfl⟩
      · cases hm : x.monitor with
        | true =>
          have hp' : ((strip m0).dest.isNone && (strip m0).iface == some PEER_IFACE) = false := by simpa using hp
          simp only [shadowEv, hx, hm, hp', Bool.not_false, Bool.and_true, if_true, step]
          rw [conn?_shade, hx]
          simp only [Option.map_some, Option.isNone_some, Bool.false_eq_true, if_false]
          have hd : dispatch tbl b c m0 = dropConn b c := by
            unfold dispatch
            simp only [hx, hp', Bool.false_eq_true, if_false, hm, if_true]
          rw [hd]
          exact (shadow_dropConn b hcl c).sim
        | false =>
          simp only [shadowEv, hx, hm, Bool.false_and, Bool.false_eq_true, if_false, step]
          exact dispatch_sim_actor tbl b hids hcl c x m0 hx hm (fun m => hsw c m x hx hm)
  | invalid c =>
    simp only [shadowEv, step]
    rw [conn?_shade]
    cases h : b.conn? c with
    | none => simp only [Option.map_none, Option.isNone_none, if_true]; exact Shadow.sim (k := none) ⟨rfl, rfl⟩
    | some x =>
      simp only [Option.map_some, Option.isNone_some, Bool.false_eq_true, if_false]
      exact (shadow_dropConn b hcl c).sim
  | close c => exact (shadow_disconnect b hcl c).sim
  | timeout => exact (shadow_expireAll b).sim
  | expire due => exact (shadow_expireWhere b _).sim
  | stall c on => exact Shadow.sim (k := none) ⟨rfl, rfl⟩
  | reload p => exact Shadow.sim (k := none) ⟨(reloadPolicy_shade b p), rfl⟩

end Dbus.Proofs.Bus
