import Dbus.Proofs.Bus.Monitors
/-
  C18, second half of "can affect nothing": every step of the bus agrees, in what it sends to the
  clients and in the state it leaves (monitors shaded), with the same step taken on the bus whose
  monitors are idle ordinary connections.  `Monitors.lean` has the gate, the routing, the registry;
  here are the driver's methods, the disconnect path, the end-of-dispatch sweep and the events that
  are not messages.
-/
namespace Dbus.Proofs.Bus
open Dbus Dbus.Spec Dbus.Model Dbus.Model.Bus

/-! ### tools -/

theorem shadow_foldl {α : Type} (f : Tx → α → Tx) (hf : ∀ t t' a, Shadow t t' → Shadow (f t a) (f t' a)) :
    ∀ (l : List α) {t t' : Tx}, Shadow t t' → Shadow (l.foldl f t) (l.foldl f t')
  | [], _, _, h => h
  | a :: l, _, _, h => shadow_foldl f hf l (hf _ _ a h)

/-- a function with a result: if it respects `Shadow`, it respects `Sim` -/
theorem sim_of_shadow2 {α : Type} (f : Tx → Tx × α)
    (hf : ∀ t t', Shadow t t' → Shadow (f t).1 (f t').1 ∧ (f t').2 = (f t).2) {t t' : Tx} (h : Sim t t') :
    Sim (f t).1 (f t').1 ∧ (f t').2 = (f t).2 := by
  have h1 : Shadow t ({ bus := shade t.bus, out := t.out } : Tx) := ⟨rfl, rfl⟩
  have h2 : Shadow t' ({ bus := shade t.bus, out := t.out } : Tx) := ⟨h.1.symm, h.2.symm⟩
  have r1 := hf _ _ h1
  have r2 := hf _ _ h2
  exact ⟨⟨by rw [← r2.1.1, ← r1.1.1], by rw [← r2.1.2, ← r1.1.2]⟩, by rw [← r2.2, ← r1.2]⟩

theorem pending_shade (b : Bus) : (shade b).pending = b.pending := rfl
theorem services_shade (b : Bus) : (shade b).services = b.services := rfl
theorem limits_shade (b : Bus) : (shade b).limits = b.limits := rfl

theorem nameOf_sim {b b' : Bus} (h : shade b' = shade b) (c : ConnId) : b'.nameOf c = b.nameOf c := by
  rw [← nameOf_shade b', ← nameOf_shade b, h]

theorem senderNameOf_sim {b b' : Bus} (h : shade b' = shade b) (c : ConnId) : senderNameOf b' c = senderNameOf b c := by
  unfold senderNameOf; rw [nameOf_sim h]

theorem pending_sim {b b' : Bus} (h : shade b' = shade b) : b'.pending = b.pending := by
  have := congrArg Bus.pending h
  exact this

/-! ### the Sim-level versions of what follows a driver method -/

theorem sim_dispatchMatches {t t' : Tx} (h : Sim t t') (s a : Option ConnId) (m : Msg) :
    Sim (dispatchMatches t s a m).1 (dispatchMatches t' s a m).1 ∧ (dispatchMatches t' s a m).2 = (dispatchMatches t s a m).2 :=
  sim_of_shadow2 (fun t => dispatchMatches t s a m) (fun _ _ h => shadow_dispatchMatches h s a m) h

theorem sim_sendError {t t' : Tx} (h : Sim t t') (c : ConnId) (m : Msg) (e : Err) :
    Sim (sendError t c m e) (sendError t' c m e) :=
  sim_of_shadow (fun t => sendError t c m e) (fun _ _ h => shadow_sendFromDriver h c _) h

theorem sim_finish {t t' : Tx} (h : Sim t t') (e : Option Err) (c : ConnId) (m : Msg) :
    Sim (finish (t, e) c m) (finish (t', e) c m) := by
  cases e with
  | none => exact h
  | some e => exact sim_sendError h c m e

/-! ### pending replies of a vanished connection -/

theorem shadow_noReplyTo {t t' : Tx} (h : Shadow t t') (c : ConnId) (p : Pending) :
    Shadow (noReplyTo c t p) (noReplyTo c t' p) := by
  unfold noReplyTo
  split
  · exact shadow_sendFromDriver h _ _
  · exact h

theorem shadow_dropPending {t t' : Tx} (h : Shadow t t') (c : ConnId) : Shadow (dropPending t c) (dropPending t' c) := by
  have hp : t'.bus.pending = t.bus.pending := by rw [h.1]; rfl
  unfold dropPending
  rw [hp]
  exact shadow_foldl (noReplyTo c) (fun _ _ p h => shadow_noReplyTo h c p) _ (h.setPending _)

theorem sim_dropPending {t t' : Tx} (h : Sim t t') (c : ConnId) : Sim (dropPending t c) (dropPending t' c) :=
  sim_of_shadow (fun t => dropPending t c) (fun _ _ h => shadow_dropPending h c) h

/-- nothing in the list involves `d` -/
def QuietIn (p : List Pending) (d : ConnId) : Prop := ∀ e ∈ p, involves d e = false

theorem dropPending_quiet (t : Tx) (d : ConnId) (h : QuietIn t.bus.pending d) : dropPending t d = t := by
  unfold dropPending
  have h1 : t.bus.pending.filter (involves d) = [] := by
    rw [List.filter_eq_nil_iff]
    intro e he
    simp [h e he]
  have h2 : (t.bus.pending.filter fun p => !involves d p) = t.bus.pending := by
    rw [List.filter_eq_self]
    intro e he
    simp [h e he]
  rw [h1, h2]
  rfl

theorem fold_noReplyTo_bus (c : ConnId) : ∀ (ps : List Pending) (t : Tx), (ps.foldl (noReplyTo c) t).bus = t.bus
  | [], _ => rfl
  | p :: ps, t => by
    simp only [List.foldl_cons]
    rw [fold_noReplyTo_bus c ps]
    unfold noReplyTo
    split
    · exact sendFromDriver_bus _ _ _
    · rfl

theorem dropPending_bus (t : Tx) (c : ConnId) :
    (dropPending t c).bus = { t.bus with pending := t.bus.pending.filter fun p => !involves c p } := by
  unfold dropPending
  rw [fold_noReplyTo_bus]
  rfl

/-- the sweep at the end of a dispatch, when every monitor but (possibly) `c` is quiet: at most `c` is swept -/
theorem sweep_fold (c : ConnId) : ∀ (l : List Conn) (t : Tx), (∀ x ∈ l, x.id ≠ c → QuietIn t.bus.pending x.id) →
    l.foldl (fun t x => dropPending t x.id) t = if l.any (·.id == c) then dropPending t c else t
  | [], _, _ => rfl
  | x :: l, t, hq => by
    simp only [List.foldl_cons, List.any_cons]
    by_cases hx : x.id = c
    · have hq' : ∀ y ∈ l, y.id ≠ c → QuietIn (dropPending t x.id).bus.pending y.id := by
        intro y hy hne e he
        rw [dropPending_bus] at he
        exact hq y (List.mem_cons_of_mem _ hy) hne e (List.mem_filter.mp he).1
      rw [sweep_fold c l _ hq']
      have hb : (x.id == c) = true := by simpa using hx
      simp only [hb, Bool.true_or, if_true]
      rw [hx]
      split
      · apply dropPending_quiet
        intro e he
        rw [dropPending_bus] at he
        have := (List.mem_filter.mp he).2
        simpa using this
      · rfl
    · have hb : (x.id == c) = false := by simpa using hx
      rw [dropPending_quiet t x.id (hq x List.mem_cons_self hx)]
      rw [sweep_fold c l t (fun y hy => hq y (List.mem_cons_of_mem _ hy))]
      simp only [hb, Bool.false_or]

/-! ### Hello -/

theorem nCompleted_shade (b : Bus) : nCompleted (shade b) = nCompleted b := by
  unfold nCompleted shade
  exact filter_map_length (fun x => by rw [neutral_name])

theorem nCompletedFor_shade (b : Bus) (uid : Nat) : nCompletedFor (shade b) uid = nCompletedFor b uid := by
  unfold nCompletedFor shade
  exact filter_map_length (fun x => by rw [neutral_name, neutral_uid])

theorem uidOf_shade (b : Bus) (c : ConnId) : uidOf (shade b) c = uidOf b c := by
  unfold uidOf; rw [conn?_shade]
  cases b.conn? c with
  | none => rfl
  | some x => simp [neutral_uid]

theorem isRoot_shade (b : Bus) (c : ConnId) : isRoot (shade b) c = isRoot b c := by
  unfold isRoot; rw [conn?_shade]
  cases b.conn? c with
  | none => rfl
  | some x => simp [neutral_uid]

theorem bump_shade (b : Bus) : bump (shade b) = (shade (bump b).1, (bump b).2) := rfl

theorem mintAux_shade : ∀ (f : Nat) (b : Bus), mintAux f (shade b) = (shade (mintAux f b).1, (mintAux f b).2)
  | 0, b => rfl
  | f + 1, b => by
    show (if ((shade (bump b).1).service? (bump b).2).isNone then (shade (bump b).1, (bump b).2) else mintAux f (shade (bump b).1)) =
      (shade (if ((bump b).1.service? (bump b).2).isNone then bump b else mintAux f (bump b).1).1,
       (if ((bump b).1.service? (bump b).2).isNone then bump b else mintAux f (bump b).1).2)
    have : (shade (bump b).1).service? (bump b).2 = (bump b).1.service? (bump b).2 := rfl
    rw [this]
    by_cases h : (((bump b).1.service? (bump b).2).isNone) = true
    · simp only [h, if_true]
    · simp only [h]
      exact mintAux_shade f _

theorem mint_shade (b : Bus) : mint (shade b) = (shade (mint b).1, (mint b).2) := mintAux_shade _ b

theorem activate_shade (b : Bus) (c : ConnId) (nm : Bytes) : activate (shade b) c nm = shade (activate b c nm) := by
  unfold activate
  have hb : Blind (fun x : Conn => { x with name := some nm, policy := b.policy.clientRules x.uid x.gids false }) := by
    intro x
    unfold neutral
    by_cases h : x.monitor = true <;> simp [h]
  have := updConn_shade b c _ hb
  show ({ (shade b).updConn c (fun x : Conn => { x with name := some nm, policy := b.policy.clientRules x.uid x.gids false }) with
          minted := nm :: b.minted } : Bus) = _
  rw [this]
  rfl

theorem shadow_helloOk {t t' : Tx} (h : Shadow t t') (c : ConnId) (m : Msg) : Shadow (helloOk t c m) (helloOk t' c m) := by
  unfold helloOk
  rw [h.1, mint_shade]
  dsimp only
  apply shadow_ensureService
  apply shadow_reply
  exact ⟨activate_shade _ _ _, h.2⟩

theorem shadow_hello {t t' : Tx} (h : Shadow t t') (c : ConnId) (m : Msg) :
    Shadow (hello t c m).1 (hello t' c m).1 ∧ (hello t' c m).2 = (hello t c m).2 := by
  unfold hello
  rw [h.1, isActive_shade, nCompleted_shade, nCompletedFor_shade, uidOf_shade, limits_shade]
  cases h1 : t.bus.isActive c with
  | true => simp only [if_true]; exact ⟨h, trivial⟩
  | false =>
    simp only [Bool.false_eq_true, if_false]
    by_cases h2 : nCompleted t.bus ≥ t.bus.limits.maxCompleted
    · simp only [h2, if_true]; exact ⟨h, trivial⟩
    simp only [h2, if_false]
    by_cases h3 : nCompletedFor t.bus (uidOf t.bus c) ≥ t.bus.limits.maxPerUser
    · simp only [h3, if_true]; exact ⟨h, trivial⟩
    simp only [h3, if_false]
    exact ⟨shadow_helloOk h c m, trivial⟩

/-! ### the driver's methods -/

theorem conn?_shade_actor {b : Bus} {c : ConnId} (ha : Actor b c) : (shade b).conn? c = b.conn? c := by
  rw [conn?_shade]
  cases h : b.conn? c with
  | none => rfl
  | some x =>
    have hx : x ∈ b.conns := List.mem_of_find?_eq_some h
    have hid : x.id = c := by simpa using List.find?_some h
    simp [neutral_of_not_monitor (ha x hx hid)]

theorem nRules_shade_actor {b : Bus} {c : ConnId} (ha : Actor b c) : nRules (shade b) c = nRules b c := by
  unfold nRules; rw [conn?_shade_actor ha]

theorem rulesOfConn_shade_actor {b : Bus} {c : ConnId} (ha : Actor b c) : rulesOfConn (shade b) c = rulesOfConn b c := by
  unfold rulesOfConn; rw [conn?_shade_actor ha]

theorem service?_shade (b : Bus) (n : Bytes) : (shade b).service? n = b.service? n := rfl

theorem shadow_opaque_fold {t t' : Tx} (h : Shadow t t') (ser : Nat) : ∀ (l l' : List ConnId),
    Shadow (l.foldl (fun (t : Tx) r => { t with mon := t.mon ++ [Out.opaque r ser] }) t)
      (l'.foldl (fun (t : Tx) r => { t with mon := t.mon ++ [Out.opaque r ser] }) t') := by
  intro l l'
  have e1 := opaque_fold_frame l ser t
  have e2 := opaque_fold_frame l' ser t'
  exact ⟨by rw [e1.1, e2.1]; exact h.1, by rw [e1.2, e2.2]; exact h.2⟩

theorem shadow_runMethod {t t' : Tx} (h : Shadow t t') (c : ConnId) (ha : Actor t.bus c) (m : Msg) (w : Method)
    (hw : w ≠ .becomeMonitor) :
    Shadow (runMethod t c m w).1 (runMethod t' c m w).1 ∧ (runMethod t' c m w).2 = (runMethod t c m w).2 := by
  cases w with
  | hello => exact shadow_hello h c m
  | requestName =>
    simp only [runMethod]
    have ha2 := shadow_acquire h c (arg0 m) (arg1Nat m)
    rcases hr : Dbus.Model.Bus.acquire t c (arg0 m) (arg1Nat m) with ⟨t1, r⟩
    rcases hr' : Dbus.Model.Bus.acquire t' c (arg0 m) (arg1Nat m) with ⟨t1', r'⟩
    rw [hr, hr'] at ha2
    obtain ⟨hs, he⟩ := ha2
    dsimp only at hs he
    subst he
    cases r' with
    | ok code => exact ⟨shadow_reply hs _ _ _ _, rfl⟩
    | error e => exact ⟨hs, rfl⟩
  | releaseName =>
    simp only [runMethod]
    have ha2 := shadow_release h c (arg0 m)
    rcases hr : Dbus.Model.Bus.release t c (arg0 m) with ⟨t1, r⟩
    rcases hr' : Dbus.Model.Bus.release t' c (arg0 m) with ⟨t1', r'⟩
    rw [hr, hr'] at ha2
    obtain ⟨hs, he⟩ := ha2
    dsimp only at hs he
    subst he
    cases r' with
    | ok code => exact ⟨shadow_reply hs _ _ _ _, rfl⟩
    | error e => exact ⟨hs, rfl⟩
  | nameHasOwner =>
    simp only [runMethod]
    rw [h.1, service?_shade]
    exact ⟨shadow_reply h _ _ _ _, by first | trivial | rfl⟩
  | listNames =>
    simp only [runMethod]
    rw [h.1, services_shade]
    exact ⟨shadow_reply h _ _ _ _, by first | trivial | rfl⟩
  | getNameOwner =>
    simp only [runMethod]
    rw [h.1, primary?_shade]
    cases t.bus.primary? (arg0 m) with
    | some o => simp only [uniqueOrEmpty_shade]; exact ⟨shadow_reply h _ _ _ _, by first | trivial | rfl⟩
    | none =>
      dsimp only
      by_cases hn : (arg0 m == BUS_NAME) = true
      · simp only [hn, if_true]; exact ⟨shadow_reply h _ _ _ _, by first | trivial | rfl⟩
      · simp only [hn]; exact ⟨h, by first | trivial | rfl⟩
  | listQueuedOwners =>
    simp only [runMethod]
    rw [h.1, ownersOf_shade]
    cases ownersOf t.bus (arg0 m) with
    | nil =>
      dsimp only
      by_cases hn : (arg0 m == BUS_NAME) = true
      · simp only [hn, if_true]; exact ⟨shadow_reply h _ _ _ _, by first | trivial | rfl⟩
      · simp only [hn]; exact ⟨h, by first | trivial | rfl⟩
    | cons o os =>
      simp only [uniqueOrEmpty_shade]
      exact ⟨shadow_reply h _ _ _ _, by first | trivial | rfl⟩
  | getUnixUser =>
    simp only [runMethod]
    rw [h.1, primary?_shade]
    by_cases hn : (arg0 m == BUS_NAME) = true
    · simp only [hn, if_true]; exact ⟨shadow_reply h _ _ _ _, by first | trivial | rfl⟩
    · simp only [hn]
      cases t.bus.primary? (arg0 m) with
      | some o => simp only [uidOf_shade]; exact ⟨shadow_reply h _ _ _ _, by first | trivial | rfl⟩
      | none => exact ⟨h, by first | trivial | rfl⟩
  | ping => exact ⟨shadow_reply h _ _ _ _, rfl⟩
  | addMatch =>
    simp only [runMethod]
    rw [h.1, nRules_shade_actor ha, limits_shade, isRoot_shade]
    by_cases h1 : nRules t.bus c ≥ t.bus.limits.maxRules
    · simp only [h1, if_true]; exact ⟨h, by first | trivial | rfl⟩
    simp only [h1, if_false]
    cases parseRule (arg0 m) with
    | ok r =>
      dsimp only
      by_cases h2 : (r.eavesdrop && !isRoot t.bus c) = true
      · simp only [h2, if_true]; exact ⟨h, by first | trivial | rfl⟩
      · simp only [h2]
        refine ⟨shadow_reply ?_ _ _ _ _, by first | trivial | rfl⟩
        exact ⟨updRules_shade t.bus c (· ++ [r]) ha, h.2⟩
    | tooLong => exact ⟨h, by first | trivial | rfl⟩
    | invalid => exact ⟨h, by first | trivial | rfl⟩
  | removeMatch =>
    simp only [runMethod]
    rw [h.1, rulesOfConn_shade_actor ha]
    cases parseRule (arg0 m) with
    | ok r =>
      dsimp only
      cases removeRule (rulesOfConn t.bus c) r with
      | some rs' =>
        dsimp only
        have hr := shadow_reply h c m [] []
        refine ⟨⟨?_, hr.2⟩, by first | trivial | rfl⟩
        show (reply t' c m [] []).bus.updRules c (fun _ => rs') = shade ((reply t c m [] []).bus.updRules c (fun _ => rs'))
        rw [hr.1]
        exact updRules_shade _ c (fun _ => rs') (by rw [reply_bus]; exact ha)
      | none => exact ⟨shadow_reply h _ _ _ _, by first | trivial | rfl⟩
    | tooLong => exact ⟨h, by first | trivial | rfl⟩
    | invalid => exact ⟨h, by first | trivial | rfl⟩
  | becomeMonitor => exact absurd rfl hw
  | opaqueM =>
    simp only [runMethod]
    generalize captureTargets t'.bus none (some c) (stampDriver t'.bus c (mkReturn m [] [])) = l'
    generalize captureTargets t.bus none (some c) (stampDriver t.bus c (mkReturn m [] [])) = l
    have e1 := opaque_fold_frame l m.serial t
    have e2 := opaque_fold_frame l' m.serial t'
    have hf := shadow_opaque_fold h m.serial l l'
    rw [e1.1, e2.1, h.1, stampDriver_shade, checkPolicy_shade]
    rcases checkPolicy t.bus none (some c) (some c) (stampDriver t.bus c (mkReturn m [] [])) with ⟨p, e⟩
    cases e with
    | some e => exact ⟨(hf.setPending p).captureError _ _ _, by first | trivial | rfl⟩
    | none => exact ⟨(hf.setPending p).emit _, by first | trivial | rfl⟩

end Dbus.Proofs.Bus
