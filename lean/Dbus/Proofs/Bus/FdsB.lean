import Dbus.Model.Bus.Fds
import Dbus.Proofs.Chunking
namespace Dbus.Proofs.Bus
open Dbus Dbus.Spec Dbus.Model Dbus.Model.Bus Dbus.Proofs.Loader

theorem loadOne_ok_fds {mx fds : Nat} {bs : Bytes} {m : Msg} {k : Nat} (h : loadOne true mx fds bs = .ok m k) :
    m.nFds ≤ fds := by
  unfold loadOne at h
  split at h <;> try (simp at h)
  split at h <;> try (simp at h)
  split at h <;> try (simp at h)
  split at h <;> try (simp at h)
  split at h
  · simp at h
  · rename_i hlt
    simp at h
    obtain ⟨hm, _⟩ := h
    subst hm
    show unixFdsOf _ ≤ fds
    simpa using hlt

/-- enough descriptors are available for each message in turn -/
def Enough : List Fd → List Msg → Prop
  | _, [] => True
  | avail, m :: ms => m.nFds ≤ avail.length ∧ Enough (avail.drop m.nFds) ms

theorem assign_exact : ∀ (avail : List Fd) (ms : List Msg), Enough avail ms →
    ∀ p ∈ (assign avail ms).1, p.2.length = p.1.nFds
  | _, [], _ => by intro p hp; simp [assign] at hp
  | avail, m :: ms, h => by
    intro p hp
    simp only [assign, List.mem_cons] at hp
    rcases hp with rfl | hp
    · simp [List.length_take]; exact Nat.min_eq_left h.1
    · exact assign_exact _ ms h.2 p hp

theorem enough_append : ∀ (avail : List Fd) (ms : List Msg) (m : Msg), Enough avail ms →
    m.nFds ≤ (assign avail ms).2.length → Enough avail (ms ++ [m])
  | avail, [], m, _, h => by simpa [Enough, assign] using h
  | avail, x :: ms, m, h, hm => by
    simp only [List.cons_append, Enough]
    exact ⟨h.1, enough_append _ ms m h.2 (by simpa [assign] using hm)⟩

theorem assign_append (avail : List Fd) : ∀ (ms : List Msg) (m : Msg),
    (assign avail (ms ++ [m])).2 = (assign avail ms).2.drop m.nFds := by
  intro ms
  induction ms generalizing avail with
  | nil => intro m; simp [assign]
  | cons x xs ih => intro m; simp only [List.cons_append, assign]; exact ih _ m

/-- the loader's count and the token list stay in step while messages are framed -/
theorem drain_enough (mx : Nat) : ∀ (g : Nat) (l : Loader) (avail : List Fd) (old : List Msg),
    l.msgs.length ≥ old.length →
    Enough avail (l.msgs.drop old.length) → (assign avail (l.msgs.drop old.length)).2.length = l.fds →
    Enough avail ((drain mx g l).msgs.drop old.length) ∧
    (assign avail ((drain mx g l).msgs.drop old.length)).2.length = (drain mx g l).fds
  | 0, l, avail, old, _, h1, h2 => ⟨h1, h2⟩
  | g + 1, l, avail, old, hlen, h1, h2 => by
    by_cases hc : l.corrupted = true
    · rw [drain_corrupted mx g l hc]; exact ⟨h1, h2⟩
    · cases hl : loadOne true mx l.fds l.buf with
      | incomplete => rw [drain_incomplete mx g l hc hl]; exact ⟨h1, h2⟩
      | corrupt => rw [drain_corrupt mx g l hc hl]; exact ⟨h1, h2⟩
      | ok m n =>
        rw [drain_ok mx g l hc m n hl]
        have hk := loadOne_ok_fds hl
        have hdrop : (l.step m n).msgs.drop old.length = l.msgs.drop old.length ++ [m] := by
          simp only [Loader.step]
          rw [List.drop_append_of_le_length hlen]
        apply drain_enough mx g (l.step m n) avail old
        · simp [Loader.step]; omega
        · rw [hdrop]; exact enough_append _ _ m h1 (by rw [h2]; exact hk)
        · rw [hdrop, assign_append]
          simp only [List.length_drop, h2, Loader.step]
          rfl

end Dbus.Proofs.Bus
