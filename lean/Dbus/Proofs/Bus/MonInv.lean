import Dbus.Proofs.Bus.MonitorsStep
import Dbus.Proofs.Bus.Names
/-
  The invariants the monitor non-interference theorem rests on, for every reachable state of the bus:

  * `RegInv`: a connection's `services_owned` list names every queue it stands in (`sync`); whoever stands in
    a queue is connected and no monitor (`live`); monitors hold no match rules (`clean`);
  * `MonQuiet`: no pending reply names a monitor as caller or callee.

  `RegInv` is what makes "a monitor gives up every name" true of the model (the names are released by going
  through `services_owned`), and together they make the sweep at the end of every dispatch of a driver call a
  no-op for monitors of longer standing.
-/
namespace Dbus.Proofs.Bus
open Dbus Dbus.Spec Dbus.Model Dbus.Model.Bus

/-- connected, and no monitor -/
def NonMon (b : Bus) (d : ConnId) : Prop := ∃ x ∈ b.conns, x.id = d ∧ x.monitor = false

structure RegInv (b : Bus) : Prop where
  sync : ∀ x ∈ b.conns, ∀ s ∈ b.services, inQueue s.owners x.id = true → s.name ∈ x.owned
  live : ∀ s ∈ b.services, ∀ d, inQueue s.owners d = true → NonMon b d
  clean : MonClean b

def MonQuiet (b : Bus) : Prop := ∀ x ∈ b.conns, x.monitor = true → QuietIn b.pending x.id

/-- `d` is the id of a connected client -/
def Connected (b : Bus) (d : ConnId) : Prop := d ∈ b.conns.map (·.id)

/-- every pending reply is between two connected clients -/
def PendLive (b : Bus) : Prop := ∀ e ∈ b.pending, Connected b e.caller ∧ Connected b e.callee

theorem pendLive_map {b b' : Bus} (g : Conn → Conn) (hc : b'.conns = b.conns.map g) (hg : ∀ x, (g x).id = x.id)
    (hsub : ∀ e ∈ b'.pending, e ∈ b.pending) (h : PendLive b) : PendLive b' := by
  have hids : b'.conns.map (·.id) = b.conns.map (·.id) := by
    rw [hc, List.map_map]; apply List.map_congr_left; intro x _; exact hg x
  intro e he
  unfold Connected
  rw [hids]
  exact h e (hsub e he)

theorem connected_of_nonMon {b : Bus} {d : ConnId} (h : NonMon b d) : Connected b d := by
  obtain ⟨x, hx, hid, _⟩ := h
  exact List.mem_map.mpr ⟨x, hx, hid⟩

/-! ### lists -/

theorem mem_removeLast_of_ne {l : List Bytes} {a n : Bytes} (h : a ∈ l) (hne : a ≠ n) : a ∈ removeLast l n := by
  unfold removeLast
  rw [List.mem_reverse]
  exact (List.mem_erase_of_ne hne).mpr (List.mem_reverse.mpr h)

theorem mem_setOwners {b : Bus} {n : Bytes} {os : List Owner} {s : Service} (h : s ∈ (b.setOwners n os).services) :
    (s.name = n ∧ s.owners = os) ∨ (s ∈ b.services ∧ s.name ≠ n) := by
  unfold Bus.setOwners at h
  split at h
  · simp only [List.mem_filter, bne_iff_ne, ne_eq] at h
    exact Or.inr h
  · split at h
    · simp only [List.mem_map] at h
      obtain ⟨s0, hs0, rfl⟩ := h
      by_cases hn : (s0.name == n) = true
      · simp only [hn, if_true]
        exact Or.inl ⟨by simpa using hn, by first | rfl | trivial⟩
      · simp only [hn]
        exact Or.inr ⟨hs0, by simpa using hn⟩
    · rename_i _ hany
      simp only [List.mem_append, List.mem_singleton] at h
      rcases h with h | rfl
      · refine Or.inr ⟨h, ?_⟩
        intro he
        apply hany
        simp only [List.any_eq_true]
        exact ⟨s, h, by simpa using he⟩
      · exact Or.inl ⟨rfl, rfl⟩

theorem ownersOf_mem {b : Bus} {n : Bytes} {d : ConnId} (h : inQueue (ownersOf b n) d = true) :
    ∃ s ∈ b.services, s.name = n ∧ s.owners = ownersOf b n := by
  unfold ownersOf at h ⊢
  cases hs : b.service? n with
  | none => rw [hs] at h; simp [inQueue] at h
  | some s =>
    unfold Bus.service? at hs
    exact ⟨s, List.mem_of_find?_eq_some hs, by simpa using List.find?_some hs, rfl⟩

/-! ### connections under a map that keeps identity, the monitor flag and the owned names -/

theorem nonMon_map {b b' : Bus} (g : Conn → Conn) (hc : b'.conns = b.conns.map g)
    (hg : ∀ x, (g x).id = x.id ∧ (g x).monitor = x.monitor) {d : ConnId} (h : NonMon b d) : NonMon b' d := by
  obtain ⟨x, hx, hid, hm⟩ := h
  exact ⟨g x, by rw [hc]; exact List.mem_map_of_mem hx, by rw [(hg x).1]; exact hid, by rw [(hg x).2]; exact hm⟩

theorem regInv_map {b b' : Bus} (g : Conn → Conn) (hc : b'.conns = b.conns.map g) (hs : b'.services = b.services)
    (hg : ∀ x, (g x).id = x.id ∧ (g x).monitor = x.monitor ∧ (g x).owned = x.owned)
    (hr : ∀ x ∈ b.conns, x.monitor = true → x.rules = [] → (g x).rules = []) (h : RegInv b) : RegInv b' := by
  refine ⟨?_, ?_, ?_⟩
  · intro x' hx' s hs' hq
    rw [hc] at hx'
    obtain ⟨x, hx, rfl⟩ := List.mem_map.mp hx'
    rw [hs] at hs'
    rw [(hg x).1] at hq
    rw [(hg x).2.2]
    exact h.sync x hx s hs' hq
  · intro s hs' d hq
    rw [hs] at hs'
    exact nonMon_map g hc (fun x => ⟨(hg x).1, (hg x).2.1⟩) (h.live s hs' d hq)
  · intro x' hx' hm
    rw [hc] at hx'
    obtain ⟨x, hx, rfl⟩ := List.mem_map.mp hx'
    rw [(hg x).2.1] at hm
    exact hr x hx hm (h.clean x hx hm)

theorem quietX_map {b b' : Bus} (c : ConnId) (g : Conn → Conn) (hc : b'.conns = b.conns.map g) (hp : b'.pending = b.pending)
    (hg : ∀ x, (g x).id = x.id ∧ ((g x).monitor = true → (g x).id ≠ c → x.monitor = true)) (h : QuietX c b) : QuietX c b' := by
  intro x' hx' hm hne
  rw [hc] at hx'
  obtain ⟨x, hx, rfl⟩ := List.mem_map.mp hx'
  rw [hp, (hg x).1]
  exact h x hx ((hg x).2 hm hne) (by rw [← (hg x).1]; exact hne)

/-! ### a queue is edited -/

def syncG (n : Bytes) (os os' : List Owner) (x : Conn) : Conn :=
  let was := os.any (·.conn == x.id)
  let is := os'.any (·.conn == x.id)
  if !was && is then { x with owned := x.owned ++ [n] }
  else if was && !is then { x with owned := removeLast x.owned n }
  else x

theorem syncG_fields (n : Bytes) (os os' : List Owner) (x : Conn) :
    (syncG n os os' x).id = x.id ∧ (syncG n os os' x).monitor = x.monitor ∧ (syncG n os os' x).rules = x.rules := by
  unfold syncG
  dsimp only
  split
  · exact ⟨rfl, rfl, rfl⟩
  · split <;> exact ⟨rfl, rfl, rfl⟩

theorem applyQueue_conns (t : Tx) (n : Bytes) (os' : List Owner) (sigs : List Sig) :
    (applyQueue t n os' sigs).bus.conns = t.bus.conns.map (syncG n (ownersOf t.bus n) os') := by
  rw [applyQueue_bus]
  show (t.bus.setOwners n os').conns.map _ = _
  rw [setOwners_conns]
  rfl

theorem regInv_applyQueue (t : Tx) (n : Bytes) (os' : List Owner) (sigs : List Sig) (h : RegInv t.bus)
    (hnew : ∀ d, inQueue os' d = true → inQueue (ownersOf t.bus n) d = true ∨ NonMon t.bus d) :
    RegInv (applyQueue t n os' sigs).bus := by
  have hc := applyQueue_conns t n os' sigs
  have hsv := applyQueue_services t n os' sigs
  have hnm : ∀ d, NonMon t.bus d → NonMon (applyQueue t n os' sigs).bus d := fun d hd =>
    nonMon_map _ hc (fun x => ⟨(syncG_fields _ _ _ x).1, (syncG_fields _ _ _ x).2.1⟩) hd
  refine ⟨?_, ?_, ?_⟩
  · intro x' hx' s hs hq
    rw [hc] at hx'
    obtain ⟨x, hx, rfl⟩ := List.mem_map.mp hx'
    rw [hsv] at hs
    rw [(syncG_fields _ _ _ x).1] at hq
    rcases mem_setOwners hs with ⟨hn, ho⟩ | ⟨hs0, hne⟩
    · rw [ho] at hq
      have his : os'.any (·.conn == x.id) = true := hq
      unfold syncG
      dsimp only
      cases hwas : (ownersOf t.bus n).any (·.conn == x.id) with
      | false => simp only [his, Bool.not_false, Bool.and_self, if_true]; rw [hn]; simp
      | true =>
        simp only [his, Bool.not_true, Bool.false_and, Bool.false_eq_true, if_false, Bool.and_false]
        obtain ⟨s0, hs0, hn0, ho0⟩ := ownersOf_mem (d := x.id) hwas
        have := h.sync x hx s0 hs0 (by rw [ho0]; exact hwas)
        rw [hn, ← hn0]; exact this
    · have hm := h.sync x hx s hs0 hq
      unfold syncG
      dsimp only
      split
      · exact List.mem_append_left _ hm
      · split
        · exact mem_removeLast_of_ne hm hne
        · exact hm
  · intro s hs d hq
    rw [hsv] at hs
    rcases mem_setOwners hs with ⟨_, ho⟩ | ⟨hs0, _⟩
    · rw [ho] at hq
      rcases hnew d hq with hold | hn
      · obtain ⟨s0, hs0, _, ho0⟩ := ownersOf_mem hold
        exact hnm d (h.live s0 hs0 d (by rw [ho0]; exact hold))
      · exact hnm d hn
    · exact hnm d (h.live s hs0 d hq)
  · intro x' hx' hm
    rw [hc] at hx'
    obtain ⟨x, hx, rfl⟩ := List.mem_map.mp hx'
    rw [(syncG_fields _ _ _ x).2.1] at hm
    rw [(syncG_fields _ _ _ x).2.2]
    exact h.clean x hx hm

theorem applyQueue_pending' (t : Tx) (n : Bytes) (os' : List Owner) (sigs : List Sig) :
    (applyQueue t n os' sigs).bus.pending = t.bus.pending := by
  rw [applyQueue_bus]
  exact (setOwners_frame t.bus n os').2.2.2.2.2

theorem quietX_applyQueue (c : ConnId) (t : Tx) (n : Bytes) (os' : List Owner) (sigs : List Sig) (h : QuietX c t.bus) :
    QuietX c (applyQueue t n os' sigs).bus :=
  quietX_map c _ (applyQueue_conns t n os' sigs) (applyQueue_pending' t n os' sigs)
    (fun x => ⟨(syncG_fields _ _ _ x).1, fun hm _ => by rw [(syncG_fields _ _ _ x).2.1] at hm; exact hm⟩) h

/-! ### what is carried through a dispatch by `c` -/

structure Mid (c : ConnId) (b : Bus) : Prop where
  reg : RegInv b
  quiet : QuietX c b
  svc : ServicesInv b
  plive : PendLive b

theorem mid_applyQueue {c : ConnId} {t : Tx} (h : Mid c t.bus) (n : Bytes) {os' : List Owner} (sigs : List Sig) (hq : QInv os')
    (hnew : ∀ d, inQueue os' d = true → inQueue (ownersOf t.bus n) d = true ∨ NonMon t.bus d) :
    Mid c (applyQueue t n os' sigs).bus :=
  ⟨regInv_applyQueue t n os' sigs h.reg hnew, quietX_applyQueue c t n os' sigs h.quiet, svc_applyQueue h.svc n sigs hq,
   pendLive_map _ (applyQueue_conns t n os' sigs) (fun x => (syncG_fields _ _ _ x).1)
     (fun e he => by rw [applyQueue_pending'] at he; exact he) h.plive⟩

theorem mid_map {c : ConnId} {b b' : Bus} (g : Conn → Conn) (hc : b'.conns = b.conns.map g) (hs : b'.services = b.services)
    (hp : b'.pending = b.pending)
    (hg : ∀ x, (g x).id = x.id ∧ (g x).monitor = x.monitor ∧ (g x).owned = x.owned)
    (hr : ∀ x ∈ b.conns, x.monitor = true → x.rules = [] → (g x).rules = []) (h : Mid c b) : Mid c b' :=
  ⟨regInv_map g hc hs hg hr h.reg,
   quietX_map c g hc hp (fun x => ⟨(hg x).1, fun hm _ => by rw [(hg x).2.1] at hm; exact hm⟩) h.quiet,
   servicesInv_of_services_eq hs h.svc,
   pendLive_map g hc (fun x => (hg x).1) (fun e he => by rw [hp] at he; exact he) h.plive⟩

theorem mid_same {c : ConnId} {b b' : Bus} (hc : b'.conns = b.conns) (hs : b'.services = b.services) (hp : b'.pending = b.pending)
    (h : Mid c b) : Mid c b' :=
  mid_map id (by rw [hc, List.map_id]) hs hp (fun _ => ⟨rfl, rfl, rfl⟩) (fun _ _ _ h => h) h

theorem nonMon_applyQueue {t : Tx} {n : Bytes} {os' : List Owner} {sigs : List Sig} {d : ConnId} (h : NonMon t.bus d) :
    NonMon (applyQueue t n os' sigs).bus d :=
  nonMon_map _ (applyQueue_conns t n os' sigs) (fun x => ⟨(syncG_fields _ _ _ x).1, (syncG_fields _ _ _ x).2.1⟩) h

theorem mid_acquire {c : ConnId} {t : Tx} (h : Mid c t.bus) (hc : NonMon t.bus c) (n : Bytes) (flags : Nat) :
    Mid c (acquire t c n flags).1.bus ∧ NonMon (acquire t c n flags).1.bus c := by
  unfold acquire
  repeat' split
  all_goals first
    | exact ⟨h, hc⟩
    | exact ⟨mid_applyQueue h n _ (qinv_qAcquire _ c flags (ownersOf_qinv h.svc n))
        (fun d hd => (inQueue_qAcquire hd).imp id (fun (e : d = c) => by rw [e]; exact hc)), nonMon_applyQueue hc⟩

theorem mid_release {c : ConnId} {t : Tx} (h : Mid c t.bus) (hc : NonMon t.bus c) (n : Bytes) :
    Mid c (release t c n).1.bus ∧ NonMon (release t c n).1.bus c := by
  unfold release
  repeat' split
  all_goals first
    | exact ⟨h, hc⟩
    | exact ⟨mid_applyQueue h n _ (qinv_qRelease _ c (ownersOf_qinv h.svc n))
        (fun d hd => Or.inl (inQueue_qRelease hd)), nonMon_applyQueue hc⟩

theorem mid_removeOwner {c : ConnId} {t : Tx} (h : Mid c t.bus) (n : Bytes) (d : ConnId) : Mid c (removeOwner t n d).bus :=
  mid_applyQueue h n _ (qinv_qRemove _ d (ownersOf_qinv h.svc n)) (fun _ he => Or.inl (inQueue_qRemove he))

theorem mid_ensureService {c : ConnId} {t : Tx} (h : Mid c t.bus) (hc : NonMon t.bus c) (n : Bytes) (flags : Nat) :
    Mid c (ensureService t n c flags).bus :=
  mid_applyQueue h n _ (qinv_qEnsure c flags) (fun d hd => by
    have : inQueue (qAcquire [] c flags).1 d = true := hd
    rcases inQueue_qAcquire this with h0 | h0
    · simp [inQueue] at h0
    · exact Or.inr (by rw [h0]; exact hc))

theorem actor_map {b b' : Bus} {c : ConnId} (g : Conn → Conn) (hc : b'.conns = b.conns.map g)
    (hg : ∀ x, (g x).id = x.id ∧ (g x).monitor = x.monitor) (h : Actor b c) : Actor b' c := by
  intro x' hx' hid
  rw [hc] at hx'
  obtain ⟨x, hx, rfl⟩ := List.mem_map.mp hx'
  rw [(hg x).2]
  exact h x hx (by rw [← (hg x).1]; exact hid)

theorem actG_fields (b : Bus) (c : ConnId) (nm : Bytes) (x : Conn) :
    (actG b c nm x).id = x.id ∧ (actG b c nm x).monitor = x.monitor ∧ (actG b c nm x).owned = x.owned ∧
    (actG b c nm x).rules = x.rules := by
  unfold actG; split <;> exact ⟨rfl, rfl, rfl, rfl⟩

theorem mid_helloOk {c : ConnId} {t : Tx} (h : Mid c t.bus) (hc : NonMon t.bus c) (m : Msg) :
    Mid c (helloOk t c m).bus ∧ NonMon (helloOk t c m).bus c := by
  unfold helloOk
  have hf := mintAux_fields (t.bus.services.length + 1) t.bus
  have hsv := mintAux_services (t.bus.services.length + 1) t.bus
  have h0 : Mid c (mint t.bus).1 := mid_same hf.1 hsv hf.2.2.1 h
  have hc0 : NonMon (mint t.bus).1 c := by
    obtain ⟨x, hx, hid, hm⟩ := hc
    exact ⟨x, by show x ∈ (mintAux _ _).1.conns; rw [hf.1]; exact hx, hid, hm⟩
  have h1 : Mid c (activate (mint t.bus).1 c (mint t.bus).2) :=
    mid_map (actG (mint t.bus).1 c (mint t.bus).2) (activate_conns _ _ _) rfl rfl
      (fun x => ⟨(actG_fields _ _ _ x).1, (actG_fields _ _ _ x).2.1, (actG_fields _ _ _ x).2.2.1⟩)
      (fun x _ _ hr => by rw [(actG_fields _ _ _ x).2.2.2]; exact hr) h0
  have hc1 : NonMon (activate (mint t.bus).1 c (mint t.bus).2) c :=
    nonMon_map _ (activate_conns _ _ _) (fun x => ⟨(actG_fields _ _ _ x).1, (actG_fields _ _ _ x).2.1⟩) hc0
  have hb : (reply { t with bus := activate (mint t.bus).1 c (mint t.bus).2 } c (m.setSender (mint t.bus).2) [tStr]
      [sStr (mint t.bus).2]).bus = activate (mint t.bus).1 c (mint t.bus).2 := reply_bus _ _ _ _ _
  exact ⟨mid_ensureService (by rw [hb]; exact h1) (by rw [hb]; exact hc1) _ _,
    nonMon_applyQueue (by rw [hb]; exact hc1)⟩

theorem mid_hello {c : ConnId} {t : Tx} (h : Mid c t.bus) (hc : NonMon t.bus c) (m : Msg) : Mid c (hello t c m).1.bus := by
  unfold hello
  split
  · exact h
  · split
    · exact h
    · split
      · exact h
      · exact (mid_helloOk h hc m).1

def setRulesG (c : ConnId) (g : List MatchRule → List MatchRule) (x : Conn) : Conn :=
  if x.id == c then { x with rules := g x.rules } else x

theorem updRules_conns (b : Bus) (c : ConnId) (g : List MatchRule → List MatchRule) :
    (b.updRules c g).conns = b.conns.map (setRulesG c g) := rfl

theorem mid_updRules {c : ConnId} {b : Bus} (h : Mid c b) (ha : Actor b c) (g : List MatchRule → List MatchRule) :
    Mid c (b.updRules c g) :=
  mid_map (setRulesG c g) (updRules_conns b c g) rfl rfl
    (fun x => by unfold setRulesG; split <;> exact ⟨rfl, rfl, rfl⟩)
    (fun x hx hm hr => by
      unfold setRulesG
      split
      · rename_i hid
        have := ha x hx (by simpa using hid)
        rw [this] at hm; cases hm
      · exact hr) h

/-! ### a connection gives up all its names -/

theorem inQueue_qRemove_self {os : List Owner} {c : ConnId} (hq : QInv os) : inQueue (qRemove os c).1 c = false := by
  unfold qRemove
  split
  · rfl
  · rename_i p rest
    split
    · rename_i hp
      have hn := hq.nodup
      simp only [List.map_cons, List.nodup_cons] at hn
      have hpc : p.conn = c := by simpa using hp
      unfold inQueue
      rw [Bool.eq_false_iff]
      intro hany
      simp only [List.any_eq_true] at hany
      obtain ⟨o, ho, hoc⟩ := hany
      apply hn.1
      rw [hpc]
      exact List.mem_map.mpr ⟨o, ho, by simpa using hoc⟩
    · unfold inQueue
      rw [Bool.eq_false_iff]
      intro hany
      simp only [List.any_eq_true, List.mem_filter, bne_iff_ne, ne_eq] at hany
      obtain ⟨o, ⟨_, hne⟩, hoc⟩ := hany
      exact hne (by simpa using hoc)

theorem releaseAll_clears (c : ConnId) : ∀ (names : List Bytes) (t : Tx), ServicesInv t.bus →
    (∀ s ∈ t.bus.services, inQueue s.owners c = true → s.name ∈ names) →
    ∀ s ∈ (releaseAll t c names).bus.services, inQueue s.owners c = false
  | [], t, _, h => by
    intro s hs
    rw [Bool.eq_false_iff]
    intro hq
    cases h s hs hq
  | n :: names, t, hsv, h => by
    show ∀ s ∈ (releaseAll (removeOwner t n c) c names).bus.services, _
    apply releaseAll_clears c names (removeOwner t n c)
    · exact svc_applyQueue hsv n _ (qinv_qRemove _ c (ownersOf_qinv hsv n))
    · intro s hs hq
      have hs' : s ∈ (t.bus.setOwners n (qRemove (ownersOf t.bus n) c).1).services := by
        have := applyQueue_services t n (qRemove (ownersOf t.bus n) c).1 (qRemove (ownersOf t.bus n) c).2
        unfold removeOwner at hs
        rw [this] at hs; exact hs
      rcases mem_setOwners hs' with ⟨_, ho⟩ | ⟨hs0, hne⟩
      · rw [ho, inQueue_qRemove_self (ownersOf_qinv hsv n)] at hq; cases hq
      · have := h s hs0 hq
        simp only [List.mem_cons] at this
        rcases this with e | e
        · exact absurd e hne
        · exact e

theorem mid_releaseAll {c : ConnId} (d : ConnId) : ∀ (names : List Bytes) {t : Tx}, Mid c t.bus → Mid c (releaseAll t d names).bus
  | [], _, h => h
  | n :: names, t, h => by
    show Mid c (releaseAll (removeOwner t n d) d names).bus
    exact mid_releaseAll d names (mid_removeOwner h n d)

/-! ### rules are garbage-collected; a connection joins the monitors -/

theorem gcRules_shape (b : Bus) (x : Conn) :
    (gcRules b x).services = b.services ∧ (gcRules b x).pending = b.pending ∧
    ∃ G : Conn → Conn, (gcRules b x).conns = b.conns.map G ∧
      ∀ y, (G y).id = y.id ∧ (G y).monitor = y.monitor ∧ (G y).owned = y.owned ∧ (y.rules = [] → (G y).rules = []) := by
  unfold gcRules
  split
  · exact ⟨rfl, rfl, id, by rw [List.map_id], fun _ => ⟨rfl, rfl, rfl, id⟩⟩
  · split
    · exact ⟨rfl, rfl, id, by rw [List.map_id], fun _ => ⟨rfl, rfl, rfl, id⟩⟩
    · rename_i nm _
      refine ⟨rfl, rfl, _, rfl, ?_⟩
      intro y
      split
      · exact ⟨rfl, rfl, rfl, id⟩
      · exact ⟨rfl, rfl, rfl, fun hr => by rw [hr]; rfl⟩

theorem mid_gcRules {c : ConnId} {b : Bus} (h : Mid c b) (x : Conn) : Mid c (gcRules b x) := by
  obtain ⟨hs, hp, G, hc, hG⟩ := gcRules_shape b x
  exact mid_map G hc hs hp (fun y => ⟨(hG y).1, (hG y).2.1, (hG y).2.2.1⟩) (fun y _ _ hr => (hG y).2.2.2 hr) h

def setMonG (c : ConnId) (y : Conn) : Conn := if y.id == c then { y with rules := [], monitor := true } else y

theorem mid_setMon {c : ConnId} {b : Bus} (h : Mid c b) (hno : ∀ s ∈ b.services, inQueue s.owners c = false) :
    Mid c (b.updConn c fun y => { y with rules := [], monitor := true }) := by
  have hc : (b.updConn c fun y => { y with rules := [], monitor := true }).conns = b.conns.map (setMonG c) := rfl
  have hid : ∀ y, (setMonG c y).id = y.id := by intro y; unfold setMonG; split <;> rfl
  refine ⟨⟨?_, ?_, ?_⟩, ?_, servicesInv_of_services_eq rfl h.svc, pendLive_map (setMonG c) hc hid (fun _ he => he) h.plive⟩
  · intro y' hy' s hs hq
    rw [hc] at hy'
    obtain ⟨y, hy, rfl⟩ := List.mem_map.mp hy'
    rw [hid] at hq
    have := h.reg.sync y hy s hs hq
    unfold setMonG; split <;> exact this
  · intro s hs d hq
    obtain ⟨y, hy, hyd, hym⟩ := h.reg.live s hs d hq
    have hdc : d ≠ c := by
      intro e
      rw [e, hno s hs] at hq; cases hq
    refine ⟨setMonG c y, by rw [hc]; exact List.mem_map_of_mem hy, by rw [hid]; exact hyd, ?_⟩
    unfold setMonG
    have : (y.id == c) = false := by rw [hyd]; simpa using hdc
    simp only [this, Bool.false_eq_true, if_false]; exact hym
  · intro y' hy' hm
    rw [hc] at hy'
    obtain ⟨y, hy, rfl⟩ := List.mem_map.mp hy'
    unfold setMonG at hm ⊢
    split
    · rfl
    · rename_i hne
      simp only [hne] at hm
      exact h.reg.clean y hy hm
  · refine quietX_map c (setMonG c) hc rfl (fun y => ⟨hid y, ?_⟩) h.quiet
    intro hm hne
    unfold setMonG at hm hne
    split at hm
    · rename_i he
      simp only [he, if_true] at hne
      exact absurd (by simpa using he) hne
    · exact hm

theorem mid_joinMonitors {c : ConnId} {b : Bus} (h : Mid c b) (x : Conn) (rules : List MatchRule)
    (hno : ∀ s ∈ b.services, inQueue s.owners c = false) : Mid c (joinMonitors c x rules b) := by
  unfold joinMonitors
  apply mid_setMon (mid_gcRules h _)
  rw [(gcRules_shape b _).1]
  exact hno

def setMonRulesG (c : ConnId) (rules : List MatchRule) (y : Conn) : Conn := if y.id == c then { y with monitorRules := rules } else y

theorem mid_installMonitorRules {c : ConnId} {b : Bus} (h : Mid c b) (rules : List MatchRule) :
    Mid c (installMonitorRules c rules b) :=
  mid_map (setMonRulesG c rules) rfl rfl rfl (fun y => by unfold setMonRulesG; split <;> exact ⟨rfl, rfl, rfl⟩)
    (fun y _ _ hr => by unfold setMonRulesG; split <;> exact hr) h

theorem mid_beMonitor {c : ConnId} {t : Tx} (h : Mid c t.bus) (rules : List MatchRule) : Mid c (beMonitor t c rules).bus := by
  unfold beMonitor
  cases hx : t.bus.conn? c with
  | none => exact h
  | some x =>
    dsimp only
    have hxm : x ∈ t.bus.conns := List.mem_of_find?_eq_some hx
    have hxid : x.id = c := by simpa using List.find?_some hx
    have h1 : Mid c (t.mapBus (installMonitorRules c rules)).bus := mid_installMonitorRules h rules
    have h2 := mid_releaseAll (c := c) c x.owned h1
    have hcl := releaseAll_clears c x.owned (t.mapBus (installMonitorRules c rules)) h1.svc
      (fun s hs hq => h.reg.sync x hxm s hs (by rw [hxid]; exact hq))
    exact mid_joinMonitors h2 x rules hcl

/-! ### where pending replies come from -/

theorem requestedReply_sub (b : Bus) (s a p : Option ConnId) (m : Msg) : ∀ e ∈ (requestedReply b s a p m).1, e ∈ b.pending := by
  unfold requestedReply
  repeat' split
  all_goals first
    | exact fun e he => he
    | (unfold checkReply; dsimp only; split
       · exact fun e he => List.mem_of_mem_erase he
       · exact fun e he => he)

theorem expectReply_mem (mx : Nat) (pend : List Pending) (caller callee : ConnId) (call : Msg) :
    ∀ e ∈ (expectReply mx pend caller callee call).1, e ∈ pend ∨ (e.caller = caller ∧ e.callee = callee) := by
  unfold expectReply
  split; · exact fun e he => Or.inl he
  dsimp only
  split; · exact fun e he => Or.inl he
  split; · exact fun e he => Or.inl he
  intro e he
  simp only [List.mem_cons] at he
  rcases he with rfl | he
  · exact Or.inr ⟨rfl, rfl⟩
  · exact Or.inl he

/-- a slot is recorded only for a call from a connection to the recipient it is addressed to -/
theorem checkPolicy_mem (b : Bus) (s a p : Option ConnId) (m : Msg) :
    ∀ e ∈ (checkPolicy b s a p m).1, e ∈ b.pending ∨ (s = some e.caller ∧ a = some e.callee) := by
  unfold checkPolicy
  split; · exact fun e he => Or.inl he
  have h1 := requestedReply_sub b s a p m
  rcases hr : requestedReply b s a p m with ⟨pend, req⟩
  rw [hr] at h1
  dsimp only
  repeat' split
  all_goals first
    | exact fun e he => Or.inl (h1 e he)
    | (intro e he
       rcases expectReply_mem _ _ _ _ _ e he with h2 | h2
       · exact Or.inl (h1 e h2)
       · exact Or.inr ⟨by rw [h2.1], by rw [h2.2]⟩)

/-- what a transaction's function does to the bus: connections and services stay, pending replies come from the old ones or
    are slots for calls from `s` to `a` -/
def PendStep (s a : Option ConnId) (b b' : Bus) : Prop :=
  b'.conns = b.conns ∧ b'.services = b.services ∧ ∀ e ∈ b'.pending, e ∈ b.pending ∨ (s = some e.caller ∧ a = some e.callee)

theorem PendStep.refl (s a : Option ConnId) (b : Bus) : PendStep s a b b := ⟨rfl, rfl, fun _ he => Or.inl he⟩
theorem PendStep.trans {s a : Option ConnId} {b1 b2 b3 : Bus} (h1 : PendStep s a b1 b2) (h2 : PendStep s a b2 b3) : PendStep s a b1 b3 :=
  ⟨h2.1.trans h1.1, h2.2.1.trans h1.2.1, fun e he => (h2.2.2 e he).elim (h1.2.2 e) Or.inr⟩

theorem pendStep_gate (b : Bus) (s a p : Option ConnId) (m : Msg) : PendStep s a b { b with pending := (checkPolicy b s a p m).1 } :=
  ⟨rfl, rfl, checkPolicy_mem b s a p m⟩

theorem pendStep_sendOne (t : Tx) (s a : Option ConnId) (to : ConnId) (m : Msg) : PendStep s a t.bus (sendOne t s a to m).bus := by
  unfold sendOne
  have g := pendStep_gate t.bus s a (some to) m
  rcases h : checkPolicy t.bus s a (some to) m with ⟨p, err⟩
  rw [h] at g
  cases err with
  | some e => dsimp only; rw [(captureError_frame _ _ _ _).1]; exact g
  | none =>
    dsimp only
    split
    · rw [(captureError_frame _ _ _ _).1]; exact g
    · exact g

theorem pendStep_fold {α : Type} {s a : Option ConnId} (f : Tx → α → Tx) (hf : ∀ t x, PendStep s a t.bus (f t x).bus) :
    ∀ (l : List α) (t : Tx), PendStep s a t.bus (l.foldl f t).bus
  | [], t => PendStep.refl s a _
  | x :: l, t => (hf t x).trans (pendStep_fold f hf l _)

theorem pendStep_sendMatches (t : Tx) (s a : Option ConnId) (m : Msg) : PendStep s a t.bus (sendMatches t s a m).bus :=
  pendStep_fold _ (fun t r => pendStep_sendOne t s a r m) _ t

theorem pendStep_sendAddressed (t : Tx) (s : Option ConnId) (a : ConnId) (m : Msg) :
    PendStep s (some a) t.bus (sendAddressed t s a m).1.bus := by
  unfold sendAddressed
  have g := pendStep_gate t.bus s (some a) (some a) m
  rcases h : checkPolicy t.bus s (some a) (some a) m with ⟨p, err⟩
  rw [h] at g
  cases err with
  | some e => exact g
  | none => dsimp only; split <;> exact g

theorem pendStep_dispatchMatches (t : Tx) (s a : Option ConnId) (m : Msg) : PendStep s a t.bus (dispatchMatches t s a m).1.bus := by
  unfold dispatchMatches
  cases a with
  | none => exact pendStep_sendMatches t s none m
  | some a =>
    dsimp only
    have h1 := pendStep_sendAddressed t s a m
    rcases h : sendAddressed t s a m with ⟨t1, e⟩
    rw [h] at h1
    cases e with
    | some e => exact h1
    | none => exact h1.trans (pendStep_sendMatches t1 s (some a) m)

/-- unaddressed deliveries record no slot: the pending replies only shrink -/
theorem mid_of_pendStep_none {c : ConnId} {s : Option ConnId} {b b' : Bus} (hp : PendStep s none b b') (h : Mid c b) : Mid c b' := by
  have hsub : ∀ e ∈ b'.pending, e ∈ b.pending := fun e he => (hp.2.2 e he).elim id (fun h => by cases h.2)
  refine ⟨regInv_map id (by rw [hp.1, List.map_id]) hp.2.1 (fun _ => ⟨rfl, rfl, rfl⟩) (fun _ _ _ h => h) h.reg, ?_,
    servicesInv_of_services_eq hp.2.1 h.svc, pendLive_map id (by rw [hp.1, List.map_id]) (fun _ => rfl) hsub h.plive⟩
  intro x hx hm hne e he
  rw [hp.1] at hx
  exact h.quiet x hx hm hne e (hsub e he)

theorem mid_sub {c : ConnId} {b b' : Bus} (hc : b'.conns = b.conns) (hs : b'.services = b.services)
    (hsub : ∀ e ∈ b'.pending, e ∈ b.pending) (h : Mid c b) : Mid c b' := by
  refine ⟨regInv_map id (by rw [hc, List.map_id]) hs (fun _ => ⟨rfl, rfl, rfl⟩) (fun _ _ _ h => h) h.reg, ?_,
    servicesInv_of_services_eq hs h.svc, pendLive_map id (by rw [hc, List.map_id]) (fun _ => rfl) hsub h.plive⟩
  intro x hx hm hne e he
  rw [hc] at hx
  exact h.quiet x hx hm hne e (hsub e he)

/-! ### the driver's methods keep `Mid` -/

theorem mid_runMethod {c : ConnId} {t : Tx} (h : Mid c t.bus) (hc : NonMon t.bus c) (ha : Actor t.bus c) (m : Msg) (w : Method) :
    Mid c (runMethod t c m w).1.bus := by
  cases w with
  | hello => exact mid_hello h hc m
  | requestName =>
    simp only [runMethod]
    have h1 := (mid_acquire h hc (arg0 m) (arg1Nat m)).1
    rcases hr : Dbus.Model.Bus.acquire t c (arg0 m) (arg1Nat m) with ⟨t1, r⟩
    rw [hr] at h1
    cases r with
    | ok code => dsimp only; rw [reply_bus]; exact h1
    | error e => exact h1
  | releaseName =>
    simp only [runMethod]
    have h1 := (mid_release h hc (arg0 m)).1
    rcases hr : Dbus.Model.Bus.release t c (arg0 m) with ⟨t1, r⟩
    rw [hr] at h1
    cases r with
    | ok code => dsimp only; rw [reply_bus]; exact h1
    | error e => exact h1
  | nameHasOwner => simp only [runMethod]; rw [reply_bus]; exact h
  | listNames => simp only [runMethod]; rw [reply_bus]; exact h
  | getNameOwner =>
    simp only [runMethod]
    repeat' split
    all_goals first | (rw [reply_bus]; exact h) | exact h
  | listQueuedOwners =>
    simp only [runMethod]
    repeat' split
    all_goals first | (rw [reply_bus]; exact h) | exact h
  | getUnixUser =>
    simp only [runMethod]
    repeat' split
    all_goals first | (rw [reply_bus]; exact h) | exact h
  | ping => simp only [runMethod]; rw [reply_bus]; exact h
  | addMatch =>
    simp only [runMethod]
    repeat' split
    all_goals first
      | exact h
      | (rw [reply_bus]; exact mid_updRules h ha (· ++ [_]))
  | removeMatch =>
    simp only [runMethod]
    repeat' split
    all_goals first
      | exact h
      | (rw [reply_bus]; exact h)
      | (rename_i rs' _
         show Mid c ((reply t c m [] []).bus.updRules c (fun _ => rs')); rw [reply_bus]; exact mid_updRules h ha _)
  | becomeMonitor =>
    simp only [runMethod]
    repeat' split
    all_goals first
      | exact h
      | exact mid_beMonitor (t := reply t c m [] []) (by rw [reply_bus]; exact h) _
  | opaqueM =>
    simp only [runMethod]
    have hf := opaque_fold_frame (captureTargets t.bus none (some c) (stampDriver t.bus c (mkReturn m [] []))) m.serial t
    have hsame : ∀ p e, checkPolicy t.bus none (some c) (some c) (stampDriver t.bus c (mkReturn m [] [])) = (p, e) →
        Mid c ({ t.bus with pending := p } : Bus) := by
      intro p e hp
      have := checkPolicy_driver t.bus (some c) (some c) (stampDriver t.bus c (mkReturn m [] []))
      rw [hp] at this
      have hpp : p = t.bus.pending := this
      exact mid_sub (b := t.bus) rfl rfl (fun e he => by rw [← hpp]; exact he) h
    rw [hf.1]
    split
    · rename_i p e hp
      rw [(captureError_frame _ _ _ _).1]
      show Mid c { (List.foldl _ t _).bus with pending := p }
      rw [hf.1]; exact hsame p _ hp
    · rename_i p hp
      show Mid c { (List.foldl _ t _).bus with pending := p }
      rw [hf.1]; exact hsame p _ hp

theorem mid_driverHandle (tbl : List IfaceRow) {c : ConnId} {t : Tx} (h : Mid c t.bus) (hc : NonMon t.bus c) (ha : Actor t.bus c) (m : Msg) :
    Mid c (driverHandle tbl t c m).1.bus := by
  unfold driverHandle
  dsimp only
  split
  · exact h
  · split
    · exact h
    · exact h
    · split
      · exact h
      · split
        · exact h
        · split
          · exact h
          · exact mid_runMethod h hc ha m _

theorem mid_toDriverCore (tbl : List IfaceRow) {c : ConnId} {t : Tx} (h : Mid c t.bus) (hc : NonMon t.bus c) (ha : Actor t.bus c) (m : Msg) :
    Mid c (toDriverCore tbl t c m).1.bus := by
  unfold toDriverCore
  have g := pendStep_gate t.bus (some c) none none m
  rcases hcp : checkPolicy t.bus (some c) none none m with ⟨p, e⟩
  rw [hcp] at g
  dsimp only at g ⊢
  have h0 : Mid c (t.setPending p).bus := mid_of_pendStep_none g h
  cases e with
  | some e => exact h0
  | none =>
    dsimp only
    have h1 := mid_driverHandle tbl (t := t.setPending p) h0 hc ha m
    rcases hd : driverHandle tbl (t.setPending p) c m with ⟨t1, e1⟩
    rw [hd] at h1
    cases e1 with
    | some e1 => exact h1
    | none => exact mid_of_pendStep_none (pendStep_dispatchMatches t1 (some c) none _) h1

theorem mid_toDriver (tbl : List IfaceRow) {c : ConnId} {t : Tx} (h : Mid c t.bus) (hc : NonMon t.bus c) (ha : Actor t.bus c) (m : Msg) :
    Mid c (toDriver tbl t c m).1.bus :=
  mid_toDriverCore tbl (t := { t with mon := [] }) h hc ha m

theorem finish_bus (r : Tx × Option Err) (c : ConnId) (m : Msg) : (finish r c m).bus = r.1.bus := by
  obtain ⟨t, e⟩ := r
  cases e with
  | none => rfl
  | some e => exact sendFromDriver_bus _ _ _

/-! ### the invariant of the reachable states -/

structure Good (b : Bus) : Prop where
  names : NamesInv b
  svc : ServicesInv b
  reg : RegInv b
  quiet : MonQuiet b
  plive : PendLive b

theorem Good.ids {b : Bus} (h : Good b) : (b.conns.map (·.id)).Nodup := by
  have := h.names.ids_nodup
  simpa [Dbus.Proofs.Bus.names, List.map_map, Function.comp_def] using this

theorem Good.mid {b : Bus} (h : Good b) (c : ConnId) : Mid c b :=
  ⟨h.reg, fun x hx hm _ => h.quiet x hx hm, h.svc, h.plive⟩

theorem nonMon_of_conn {b : Bus} {c : ConnId} {x : Conn} (hx : b.conn? c = some x) (hm : x.monitor = false) : NonMon b c :=
  ⟨x, List.mem_of_find?_eq_some hx, by simpa using List.find?_some hx, hm⟩

/-- what `step_sim` asks for: at the end of a driver call's dispatch only the caller can be a monitor with pending replies -/
theorem quietX_before_sweep (tbl : List IfaceRow) {b : Bus} (h : Good b) (c : ConnId) (m : Msg) (ha : Actor b c)
    (hc : NonMon b c) : QuietX c (finish (toDriver tbl { bus := b } c m) c m).bus := by
  rw [finish_bus]
  exact (mid_toDriver tbl (t := { bus := b }) (h.mid c) hc ha m).quiet

theorem sweep_cases (c : ConnId) (T : Tx) (hq : QuietX c T.bus) :
    (sweepMonitors T = dropPending T c) ∨ (sweepMonitors T = T ∧ ∀ x ∈ T.bus.conns, x.monitor = true → x.id ≠ c) := by
  unfold sweepMonitors
  rw [sweep_fold c (T.bus.conns.filter (·.monitor)) T
    (fun x hx hne => hq x (List.mem_filter.mp hx).1 (List.mem_filter.mp hx).2 hne)]
  cases hany : (T.bus.conns.filter (·.monitor)).any (·.id == c) with
  | true => left; simp
  | false =>
    right
    refine ⟨by simp, ?_⟩
    intro x hx hm he
    have : (T.bus.conns.filter (·.monitor)).any (·.id == c) = true := by
      simp only [List.any_eq_true, List.mem_filter]
      exact ⟨x, ⟨hx, hm⟩, by simpa using he⟩
    rw [hany] at this; cases this

theorem after_sweep {c : ConnId} {T : Tx} (h : Mid c T.bus) :
    RegInv (sweepMonitors T).bus ∧ MonQuiet (sweepMonitors T).bus ∧ PendLive (sweepMonitors T).bus := by
  rcases sweep_cases c T h.quiet with he | ⟨he, hne⟩
  · rw [he, dropPending_bus]
    have hm : Mid c ({ T.bus with pending := T.bus.pending.filter fun p => !involves c p } : Bus) :=
      mid_sub (b := T.bus) rfl rfl (fun e he => (List.mem_filter.mp he).1) h
    refine ⟨hm.reg, ?_, hm.plive⟩
    intro x hx hmon
    by_cases hid : x.id = c
    · intro e he
      have := (List.mem_filter.mp he).2
      rw [hid]; simpa using this
    · exact hm.quiet x hx hmon hid
  · rw [he]
    exact ⟨h.reg, fun x hx hm => h.quiet x hx hm (hne x hx hm), h.plive⟩

/-! ### the other ways a step changes the state -/

theorem primary?_inQueue {b : Bus} {d : Bytes} {a : ConnId} (h : b.primary? d = some a) :
    ∃ s ∈ b.services, inQueue s.owners a = true := by
  unfold Bus.primary? at h
  cases hs : b.service? d with
  | none => rw [hs] at h; cases h
  | some s =>
    rw [hs] at h
    dsimp only at h
    unfold Bus.service? at hs
    refine ⟨s, List.mem_of_find?_eq_some hs, ?_⟩
    cases ho : s.owners with
    | nil => rw [ho] at h; cases h
    | cons o os =>
      rw [ho] at h
      simp only [List.head?_cons, Option.map_some, Option.some.injEq] at h
      simp [inQueue, h]

theorem route_pendStep (t : Tx) (c : ConnId) (m : Msg) :
    ∃ a, PendStep (some c) a t.bus (route t c m).1.bus ∧ (a = none ∨ ∃ d, t.bus.primary? d = a) := by
  unfold route
  cases m.dest with
  | none =>
    dsimp only
    refine ⟨none, ?_, Or.inl rfl⟩
    have := pendStep_dispatchMatches (capture t (some c) none m) (some c) none m
    rw [(capture_frame _ _ _ _).1] at this; exact this
  | some d =>
    dsimp only
    cases hp : t.bus.primary? d with
    | none =>
      dsimp only
      exact ⟨none, by rw [(capture_frame _ _ _ _).1]; exact PendStep.refl _ _ _, Or.inl rfl⟩
    | some a =>
      dsimp only
      refine ⟨some a, ?_, Or.inr ⟨d, hp⟩⟩
      have := pendStep_dispatchMatches (capture t (some c) (some a) m) (some c) (some a) m
      rw [(capture_frame _ _ _ _).1] at this; exact this

theorem good_route {b : Bus} (h : Good b) (c : ConnId) (ha : Actor b c) (hcn : NonMon b c) (m : Msg) :
    RegInv (finish (route { bus := b } c m) c m).bus ∧ MonQuiet (finish (route { bus := b } c m) c m).bus ∧
    PendLive (finish (route { bus := b } c m) c m).bus := by
  rw [finish_bus]
  obtain ⟨a, hp, hprim⟩ := route_pendStep { bus := b } c m
  refine ⟨regInv_map id (by rw [hp.1, List.map_id]) hp.2.1 (fun _ => ⟨rfl, rfl, rfl⟩) (fun _ _ _ h => h) h.reg, ?_, ?_⟩
  rotate_left
  · intro e he
    unfold Connected
    rw [hp.1]
    rcases hp.2.2 e he with hold | ⟨hs, hcal⟩
    · exact h.plive e hold
    · have h1 : e.caller = c := by simpa using hs.symm
      refine ⟨by rw [h1]; exact connected_of_nonMon hcn, ?_⟩
      rcases hprim with rfl | ⟨d, hd⟩
      · cases hcal
      · rw [hcal] at hd
        obtain ⟨s, hs', hq⟩ := primary?_inQueue hd
        exact connected_of_nonMon (h.reg.live s hs' _ hq)
  intro x hx hm e he
  rw [hp.1] at hx
  rcases hp.2.2 e he with hold | ⟨hs, hcal⟩
  · exact h.quiet x hx hm e hold
  · have h1 : e.caller ≠ x.id := by
      intro heq
      have : e.caller = c := by simpa using hs.symm
      have := ha x hx (heq.symm.trans this)
      rw [this] at hm; cases hm
    have h2 : e.callee ≠ x.id := by
      intro heq
      rcases hprim with rfl | ⟨d, hd⟩
      · cases hcal
      · rw [hcal] at hd
        obtain ⟨s, hs, hq⟩ := primary?_inQueue hd
        obtain ⟨y, hy, hyid, hym⟩ := h.reg.live s hs _ hq
        have : y = x := inj_of_nodup_map' _ h.ids hy hx (hyid.trans heq)
        rw [this] at hym; rw [hym] at hm; cases hm
    unfold involves
    simp [h1, h2]

theorem mid_clearRules {c : ConnId} {b : Bus} (h : Mid c b) (d : ConnId) : Mid c (clearRules b d) :=
  mid_map (fun x => if x.id == d then { x with rules := [], monitorRules := [] } else x) rfl rfl rfl
    (fun y => by split <;> exact ⟨rfl, rfl, rfl⟩)
    (fun y _ _ hr => by split <;> first | rfl | exact hr) h

theorem good_disconnect {b : Bus} (h : Good b) (c : ConnId) :
    RegInv (disconnect b c).bus ∧ MonQuiet (disconnect b c).bus ∧ PendLive (disconnect b c).bus := by
  unfold disconnect
  cases hx : b.conn? c with
  | none => exact ⟨h.reg, h.quiet, h.plive⟩
  | some x =>
    show RegInv (disconnectTx b c x).bus ∧ MonQuiet (disconnectTx b c x).bus ∧ PendLive (disconnectTx b c x).bus
    have hxm : x ∈ b.conns := List.mem_of_find?_eq_some hx
    have hxid : x.id = c := by simpa using List.find?_some hx
    unfold disconnectTx
    rw [dropPending_bus]
    have h1 : Mid c (clearRules (gcRules b x) c) := mid_clearRules (mid_gcRules (h.mid c) x) c
    have hsv1 : (clearRules (gcRules b x) c).services = b.services := (gcRules_shape b x).1
    have h2 := mid_releaseAll (c := c) c x.owned.reverse (t := { bus := clearRules (gcRules b x) c }) h1
    have hcl := releaseAll_clears c x.owned.reverse { bus := clearRules (gcRules b x) c } h1.svc
      (fun s hs hq => by
        rw [List.mem_reverse]
        rw [hsv1] at hs
        exact h.reg.sync x hxm s hs (by rw [hxid]; exact hq))
    generalize releaseAll { bus := clearRules (gcRules b x) c } c x.owned.reverse = T at h2 hcl
    -- the connection is taken off the list
    have hreg : RegInv (removeConn c T.bus) := by
      refine ⟨?_, ?_, ?_⟩
      · intro y hy s hs hq
        exact h2.reg.sync y (List.mem_filter.mp hy).1 s hs hq
      · intro s hs d hq
        obtain ⟨y, hy, hyid, hym⟩ := h2.reg.live s hs d hq
        have hdc : d ≠ c := by intro e; rw [e, hcl s hs] at hq; cases hq
        exact ⟨y, List.mem_filter.mpr ⟨hy, by rw [hyid]; simpa using hdc⟩, hyid, hym⟩
      · intro y hy hm
        exact h2.reg.clean y (List.mem_filter.mp hy).1 hm
    refine ⟨⟨hreg.sync, hreg.live, hreg.clean⟩, ?_, ?_⟩
    · intro y hy hm e he
      have hy' := List.mem_filter.mp hy
      have hne : y.id ≠ c := by simpa using hy'.2
      exact h2.quiet y hy'.1 hm hne e (List.mem_filter.mp he).1
    · intro e he
      obtain ⟨he1, he2⟩ := List.mem_filter.mp he
      have hinv : e.caller ≠ c ∧ e.callee ≠ c := by
        unfold involves at he2
        simp only [Bool.not_eq_true', Bool.or_eq_false_iff, beq_eq_false_iff_ne, ne_eq] at he2
        exact he2
      have hl := h2.plive e he1
      have keep : ∀ d, d ≠ c → Connected T.bus d → Connected (removeConn c T.bus) d := by
        intro d hd hcn
        obtain ⟨y, hy, hyid⟩ := List.mem_map.mp hcn
        exact List.mem_map.mpr ⟨y, List.mem_filter.mpr ⟨hy, by rw [hyid]; simpa using hd⟩, hyid⟩
      exact ⟨keep _ hinv.1 hl.1, keep _ hinv.2 hl.2⟩

theorem fold_sendError_bus : ∀ (ps : List Pending) (t : Tx),
    (ps.foldl (fun t p => sendError t p.caller (fakeCall p.serial) .noReply) t).bus = t.bus
  | [], _ => rfl
  | p :: ps, t => by
    simp only [List.foldl_cons]
    rw [fold_sendError_bus ps]
    exact sendFromDriver_bus _ _ _

theorem good_pending_sub {b b' : Bus} (h : Good b) (hc : b'.conns = b.conns) (hs : b'.services = b.services)
    (hsub : ∀ e ∈ b'.pending, e ∈ b.pending) : RegInv b' ∧ MonQuiet b' ∧ PendLive b' := by
  refine ⟨regInv_map id (by rw [hc, List.map_id]) hs (fun _ => ⟨rfl, rfl, rfl⟩) (fun _ _ _ h => h) h.reg, ?_,
    pendLive_map id (by rw [hc, List.map_id]) (fun _ => rfl) hsub h.plive⟩
  intro x hx hm e he
  rw [hc] at hx
  exact h.quiet x hx hm e (hsub e he)

theorem good_connect {b : Bus} (h : Good b) (c uid : Nat) (gids : List Nat) (canFd : Bool) (hn : b.conn? c = none) :
    RegInv { b with conns := b.conns ++ [{ id := c, uid := uid, gids := gids, canFd := canFd }] } ∧
    MonQuiet { b with conns := b.conns ++ [{ id := c, uid := uid, gids := gids, canFd := canFd }] } ∧
    PendLive { b with conns := b.conns ++ [{ id := c, uid := uid, gids := gids, canFd := canFd }] } := by
  have hfresh : ∀ y ∈ b.conns, y.id ≠ c := by
    intro y hy he
    have := List.find?_eq_none.mp hn y hy
    simp [he] at this
  refine ⟨⟨?_, ?_, ?_⟩, ?_, ?_⟩
  rotate_right
  · intro e he
    have := h.plive e he
    unfold Connected at this ⊢
    simp only [List.map_append, List.mem_append]
    exact ⟨Or.inl this.1, Or.inl this.2⟩
  · intro y hy s hs hq
    simp only [List.mem_append, List.mem_singleton] at hy
    rcases hy with hy | rfl
    · exact h.reg.sync y hy s hs hq
    · obtain ⟨z, hz, hzid, _⟩ := h.reg.live s hs c hq
      exact absurd hzid (hfresh z hz)
  · intro s hs d hq
    obtain ⟨y, hy, hyid, hym⟩ := h.reg.live s hs d hq
    exact ⟨y, List.mem_append_left _ hy, hyid, hym⟩
  · intro y hy hm
    simp only [List.mem_append, List.mem_singleton] at hy
    rcases hy with hy | rfl
    · exact h.reg.clean y hy hm
    · cases hm
  · intro y hy hm
    simp only [List.mem_append, List.mem_singleton] at hy
    rcases hy with hy | rfl
    · exact h.quiet y hy hm
    · cases hm

/-! ### every step keeps the invariant -/

theorem good_dispatch (tbl : List IfaceRow) {b : Bus} (h : Good b) (c : ConnId) (m0 : Msg) :
    RegInv (dispatch tbl b c m0).bus ∧ MonQuiet (dispatch tbl b c m0).bus ∧ PendLive (dispatch tbl b c m0).bus := by
  unfold dispatch
  cases hx : b.conn? c with
  | none => exact ⟨h.reg, h.quiet, h.plive⟩
  | some x =>
    dsimp only
    split
    · exact ⟨h.reg, h.quiet, h.plive⟩
    · cases hm : x.monitor with
      | true => simp only [if_true]; exact good_disconnect h c
      | false =>
        simp only [Bool.false_eq_true, if_false]
        have ha := actor_of_conn h.ids hx hm
        have hc := nonMon_of_conn hx hm
        split
        · exact ⟨h.reg, h.quiet, h.plive⟩
        · split
          · have hmid : Mid c (finish (toDriver tbl { bus := b } c ((strip m0).setSender (senderNameOf b c))) c
                ((strip m0).setSender (senderNameOf b c))).bus := by
              rw [finish_bus]; exact mid_toDriver tbl (t := { bus := b }) (h.mid c) hc ha _
            exact after_sweep hmid
          · split
            · exact good_disconnect h c
            · exact good_route h c ha hc _

theorem reloadPolicy_conns (b : Bus) (p : Policy) :
    (reloadPolicy b p).conns = b.conns.map fun x => if x.name.isSome then { x with policy := p.clientPolicy b.limits.maxFdsDefault x.uid x.gids false } else x := rfl

theorem good_step (tbl : List IfaceRow) {b : Bus} (h : Good b) (ev : Ev) : Good (step tbl b ev).bus := by
  have hn := namesInv_step tbl b ev h.names
  have hs : ServicesInv (step tbl b ev).bus := lv_step services_leaves tbl b ev h.svc
  suffices hrq : RegInv (step tbl b ev).bus ∧ MonQuiet (step tbl b ev).bus ∧ PendLive (step tbl b ev).bus from ⟨hn, hs, hrq.1, hrq.2.1, hrq.2.2⟩
  cases ev with
  | connect c uid gids canFd =>
    simp only [step]
    cases hc : b.conn? c with
    | some x => simp only [Option.isSome_some, if_true]; exact ⟨h.reg, h.quiet, h.plive⟩
    | none => simp only [Option.isSome_none, Bool.false_eq_true, if_false]; exact good_connect h c uid gids canFd hc
  | msg c m => exact good_dispatch tbl h c m
  | invalid c =>
    simp only [step]
    split
    · exact ⟨h.reg, h.quiet, h.plive⟩
    · exact good_disconnect h c
  | close c => exact good_disconnect h c
  | timeout =>
    show RegInv (expireAll b).bus ∧ MonQuiet (expireAll b).bus ∧ PendLive (expireAll b).bus
    unfold expireAll
    rw [fold_sendError_bus]
    exact good_pending_sub h rfl rfl (fun e he => by cases he)
  | expire due =>
    show RegInv (expireWhere b _).bus ∧ MonQuiet (expireWhere b _).bus ∧ PendLive (expireWhere b _).bus
    unfold expireWhere
    rw [fold_sendError_bus]
    exact good_pending_sub h rfl rfl (fun e he => (List.mem_filter.mp he).1)
  | stall c on => exact good_pending_sub h rfl rfl (fun e he => he)
  | reload p =>
    show RegInv (reloadPolicy b p) ∧ MonQuiet (reloadPolicy b p) ∧ PendLive (reloadPolicy b p)
    have hg : ∀ x : Conn, ((if x.name.isSome then { x with policy := p.clientPolicy b.limits.maxFdsDefault x.uid x.gids false } else x : Conn).id = x.id ∧
        (if x.name.isSome then { x with policy := p.clientPolicy b.limits.maxFdsDefault x.uid x.gids false } else x : Conn).monitor = x.monitor ∧
        (if x.name.isSome then { x with policy := p.clientPolicy b.limits.maxFdsDefault x.uid x.gids false } else x : Conn).owned = x.owned ∧
        (if x.name.isSome then { x with policy := p.clientPolicy b.limits.maxFdsDefault x.uid x.gids false } else x : Conn).rules = x.rules) := by
      intro x; split <;> exact ⟨rfl, rfl, rfl, rfl⟩
    refine ⟨regInv_map _ (reloadPolicy_conns b p) rfl (fun x => ⟨(hg x).1, (hg x).2.1, (hg x).2.2.1⟩)
      (fun x _ _ hr => by rw [(hg x).2.2.2]; exact hr) h.reg, ?_,
      pendLive_map _ (reloadPolicy_conns b p) (fun x => (hg x).1) (fun _ he => he) h.plive⟩
    intro x' hx' hm
    rw [reloadPolicy_conns] at hx'
    obtain ⟨x, hx, rfl⟩ := List.mem_map.mp hx'
    rw [(hg x).2.1] at hm
    rw [(hg x).1]
    exact h.quiet x hx hm

theorem good_init (l : Limits) (p : Policy) : Good { limits := l, policy := p } where
  names := namesInv_init l p
  svc := ⟨List.nodup_nil, by intro s hs; cases hs⟩
  reg := ⟨fun x hx => (by cases hx), fun s hs => (by cases hs), fun x hx => (by cases hx)⟩
  quiet := fun x hx => by cases hx
  plive := fun e he => by cases he

/-- **every reachable state is good** (from any good state, hence from the empty bus) -/
theorem good_run (tbl : List IfaceRow) {b : Bus} (h : Good b) (evs : List Ev) : Good (run tbl b evs).1 :=
  run_inv (P := Good) tbl (fun _ ev hb => good_step tbl hb ev) b evs h

end Dbus.Proofs.Bus
