import Dbus.Model.Bus.Fds
import Dbus.Proofs.Bus.Raw
namespace Dbus.Proofs.Bus
open Dbus Dbus.Spec Dbus.Model Dbus.Model.Bus

theorem assign_conserve : ∀ (avail : List Fd) (ms : List Msg),
    (assign avail ms).1.flatMap (·.2) ++ (assign avail ms).2 = avail
  | avail, [] => by simp [assign]
  | avail, m :: ms => by
    simp only [assign, List.flatMap_cons, List.append_assoc]
    rw [assign_conserve (avail.drop m.nFds) ms]
    exact List.take_append_drop _ _

theorem assign_rest_length_le : ∀ (avail : List Fd) (ms : List Msg), (assign avail ms).2.length ≤ avail.length
  | avail, [] => by simp [assign]
  | avail, m :: ms => by
    simp only [assign]
    have := assign_rest_length_le (avail.drop m.nFds) ms
    simp at this ⊢; omega

theorem filter_partition_perm {α : Type} (p : α → Bool) : ∀ l : List α,
    (l.filter p ++ l.filter (fun x => !p x)).Perm l
  | [] => by simp
  | x :: xs => by
    have ih := filter_partition_perm p xs
    cases hp : p x with
    | true =>
      simp only [List.filter_cons, hp, Bool.not_true, if_true, List.cons_append]
      simpa using List.Perm.cons x ih
    | false =>
      simp only [List.filter_cons, hp, Bool.not_false, if_true]
      simp only [Bool.false_eq_true, if_false]
      exact (List.perm_middle).trans (List.Perm.cons x ih)

theorem flatMap_perm {α β : Type} (f : α → List β) {l l' : List α} (h : l.Perm l') : (l.flatMap f).Perm (l'.flatMap f) := by
  induction h with
  | nil => exact List.Perm.refl _
  | cons x _ ih => simp only [List.flatMap_cons]; exact List.Perm.append_left _ ih
  | swap x y l =>
    simp only [List.flatMap_cons, ← List.append_assoc]
    exact List.Perm.append_right _ List.perm_append_comm
  | trans _ _ ih1 ih2 => exact ih1.trans ih2

/-- one entry per connection -/
def Keys (n : FdNet) : Prop := (n.pending.map (·.1)).Nodup

theorem lookup_none_of_not_mem {l : List (ConnId × List Fd)} {c : ConnId} (h : c ∉ l.map (·.1)) :
    l.lookup c = none ∧ l.filter (fun p => p.1 != c) = l := by
  induction l with
  | nil => exact ⟨rfl, rfl⟩
  | cons a l ih =>
    simp only [List.map_cons, List.mem_cons, not_or] at h
    obtain ⟨h1, h2⟩ := ih h.2
    have hne : (c == a.1) = false := by simpa using h.1
    have hne' : (a.1 != c) = true := by simp [bne_iff_ne]; exact fun e => h.1 e.symm
    constructor
    · rw [show a = (a.1, a.2) from rfl, List.lookup_cons, hne]; exact h1
    · rw [List.filter_cons, hne', if_pos rfl, h2]

theorem split_perm : ∀ (l : List (ConnId × List Fd)) (c : ConnId), (l.map (·.1)).Nodup →
    (l.flatMap (·.2)).Perm ((l.lookup c).getD [] ++ (l.filter (fun p => p.1 != c)).flatMap (·.2))
  | [], c, _ => by simp
  | a :: l, c, hk => by
    simp only [List.map_cons, List.nodup_cons] at hk
    by_cases hc : c = a.1
    · subst hc
      obtain ⟨h1, h2⟩ := lookup_none_of_not_mem hk.1
      rw [show a = (a.1, a.2) from rfl, List.lookup_cons]
      simp only [beq_self_eq_true, Option.getD_some, List.filter_cons, bne_self_eq_false, Bool.false_eq_true, if_false,
        List.flatMap_cons]
      rw [h2]
    · have hne : (c == a.1) = false := by simpa using hc
      have hne' : (a.1 != c) = true := by simp [bne_iff_ne]; exact fun e => hc e.symm
      rw [show a = (a.1, a.2) from rfl, List.lookup_cons, hne]
      simp only [List.filter_cons, hne', if_true, List.flatMap_cons]
      have ih := split_perm l c hk.2
      calc a.2 ++ l.flatMap (·.2)
          _ |>.Perm (a.2 ++ ((l.lookup c).getD [] ++ (l.filter (fun p => p.1 != c)).flatMap (·.2))) := List.Perm.append_left _ ih
          _ |>.Perm ((l.lookup c).getD [] ++ (a.2 ++ (l.filter (fun p => p.1 != c)).flatMap (·.2))) := by
            rw [← List.append_assoc, ← List.append_assoc]
            exact List.Perm.append_right _ List.perm_append_comm

/-- the tokens `R` are exactly those closed or still pending -/
def Conserved (R : List Fd) (n : FdNet) : Prop := R.Perm (n.closed ++ n.allPending)

theorem keys_setPending {n : FdNet} (c : ConnId) (fds : List Fd) (_h : Keys n) : Keys (n.setPending c fds) := by
  unfold Keys FdNet.setPending
  simp only [List.map_cons, List.nodup_cons]
  constructor
  · intro hm
    obtain ⟨p, hp, hpc⟩ := List.mem_map.mp hm
    have := (List.mem_filter.mp hp).2
    simp [bne_iff_ne] at this
    exact this hpc
  · exact List.Nodup.sublist (List.Sublist.map _ List.filter_sublist) _h

theorem keys_sweep {n : FdNet} (h : Keys n) : Keys n.sweep :=
  List.Nodup.sublist (List.Sublist.map _ List.filter_sublist) h

theorem conserved_sweep {R : List Fd} {n : FdNet} (h : Conserved R n) : Conserved R n.sweep := by
  unfold Conserved FdNet.sweep FdNet.allPending at *
  refine h.trans ?_
  rw [List.append_assoc]
  apply List.Perm.append_left
  have hp := filter_partition_perm (fun p : ConnId × List Fd => (n.net.bus.conn? p.1).isSome) n.pending
  have hf := flatMap_perm (fun p : ConnId × List Fd => p.2) hp
  rw [List.flatMap_append] at hf
  have hfun : (fun p : ConnId × List Fd => (n.net.bus.conn? p.1).isNone) = (fun p => !(n.net.bus.conn? p.1).isSome) := by
    funext p; cases n.net.bus.conn? p.1 <;> rfl
  dsimp only
  rw [hfun]
  exact (hf.symm).trans List.perm_append_comm

/-- replacing connection `c`'s pending list: what it held before is taken out, `fds` goes in -/
theorem allPending_setPending {n : FdNet} (c : ConnId) (fds : List Fd) (hk : Keys n) :
    (n.pendingOf c ++ (n.setPending c fds).allPending).Perm (fds ++ n.allPending) := by
  have hs := split_perm n.pending c hk
  unfold FdNet.allPending FdNet.setPending FdNet.pendingOf at *
  simp only [List.flatMap_cons]
  have : ((n.pending.lookup c).getD [] ++ (fds ++ (n.pending.filter (fun p => p.1 != c)).flatMap (·.2))).Perm
      (fds ++ ((n.pending.lookup c).getD [] ++ (n.pending.filter (fun p => p.1 != c)).flatMap (·.2))) := by
    rw [← List.append_assoc, ← List.append_assoc]
    exact List.Perm.append_right _ List.perm_append_comm
  exact this.trans (List.Perm.append_left _ hs.symm)

def _root_.Dbus.Model.Bus.FdOp.fds : FdOp → List Fd
  | .write _ _ fds => fds
  | _ => []

theorem conserved_congr {R : List Fd} {n n' : FdNet} (hc : n'.closed = n.closed) (hp : n'.pending = n.pending)
    (h : Conserved R n) : Conserved R n' := by
  unfold Conserved FdNet.allPending at *; rw [hc, hp]; exact h

theorem conserved_close_more {R : List Fd} {n n' : FdNet} (fds : List Fd) (hc : n'.closed = n.closed ++ fds)
    (hp : n'.pending = n.pending) (h : Conserved R n) : Conserved (R ++ fds) n' := by
  unfold Conserved FdNet.allPending at *
  rw [hc, hp, List.append_assoc]
  exact (List.Perm.append_right fds h).trans (by
    rw [List.append_assoc]
    exact List.Perm.append_left _ List.perm_append_comm)

theorem allPending_setPending_eq {n n1 : FdNet} {c : ConnId} {x : List Fd} (hp : n1.pending = n.pending) :
    (n1.setPending c x).allPending = (n.setPending c x).allPending := by
  unfold FdNet.setPending FdNet.allPending; rw [hp]

theorem fdApply_conserved (tbl : List IfaceRow) {R : List Fd} {n : FdNet} (c : ConnId) (l' : Loader) (new : List Msg)
    (corrupt : Bool) (fds : List Fd) (h : Conserved R n) (hk : Keys n) :
    Conserved (R ++ fds) (fdApply tbl n c l' new corrupt fds).1 ∧ Keys (fdApply tbl n c l' new corrupt fds).1 := by
  unfold fdApply
  dsimp only
  generalize hr : assign (n.pendingOf c ++ fds) new = r
  have hcons := assign_conserve (n.pendingOf c ++ fds) new
  rw [hr] at hcons
  refine ⟨conserved_sweep ?_, keys_sweep (keys_setPending c r.2 hk)⟩
  -- the ledger before the sweep
  unfold Conserved at *
  have hsp := allPending_setPending (n := n) c r.2 hk
  -- closed' = closed ++ flat; pending' = setPending c rest (on a net with the same pending list)
  suffices key : ∀ n1 : FdNet, n1.pending = n.pending → n1.closed = n.closed ++ r.1.flatMap (·.2) →
      (R ++ fds).Perm ((n1.setPending c r.2).closed ++ (n1.setPending c r.2).allPending) from key _ rfl rfl
  intro n1 hp1 hc1
  rw [allPending_setPending_eq hp1]
  show (R ++ fds).Perm (n1.closed ++ (n.setPending c r.2).allPending)
  rw [hc1]
  -- R ++ fds ~ closed ++ allPending ++ fds ~ closed ++ (pend ++ X) ++ fds, and flat ++ rest = pend ++ fds
  have h1 : (R ++ fds).Perm (n.closed ++ (n.allPending ++ fds)) := by
    rw [← List.append_assoc]; exact List.Perm.append_right fds h
  refine h1.trans ?_
  rw [List.append_assoc]
  apply List.Perm.append_left
  -- allPending ++ fds ~ flat ++ (setPending ..).allPending
  have h2 : (r.2 ++ n.allPending ++ fds).Perm (r.2 ++ n.allPending ++ fds) := List.Perm.refl _
  -- from hsp: pend ++ new ~ rest ++ allPending
  have h3 : ((n.pendingOf c ++ fds) ++ (n.setPending c r.2).allPending).Perm (r.2 ++ (n.allPending ++ fds)) := by
    have : ((n.pendingOf c ++ fds) ++ (n.setPending c r.2).allPending).Perm
        ((n.pendingOf c ++ (n.setPending c r.2).allPending) ++ fds) := by
      rw [List.append_assoc, List.append_assoc]
      exact List.Perm.append_left _ List.perm_append_comm
    refine this.trans ?_
    rw [← List.append_assoc]
    exact List.Perm.append_right fds hsp
  rw [← hcons] at h3
  -- (flat ++ rest) ++ new ~ rest ++ (allPending ++ fds)  ⇒ cancel rest
  have h4 : (r.2 ++ (r.1.flatMap (·.2) ++ (n.setPending c r.2).allPending)).Perm (r.2 ++ (n.allPending ++ fds)) := by
    refine (List.Perm.trans ?_ h3)
    rw [← List.append_assoc]
    exact List.Perm.append_right _ List.perm_append_comm
  exact ((List.perm_append_left_iff r.2).mp h4).symm

theorem fdStep_conserved (tbl : List IfaceRow) {R : List Fd} {n : FdNet} (op : FdOp) (h : Conserved R n) (hk : Keys n) :
    Conserved (R ++ op.fds) (fdStep tbl n op).1 ∧ Keys (fdStep tbl n op).1 := by
  cases op with
  | connect c uid gids canFd =>
    simp only [fdStep, FdOp.fds, List.append_nil]
    split
    · exact ⟨h, hk⟩
    · exact ⟨conserved_sweep (conserved_congr (n := n) rfl rfl h), keys_sweep hk⟩
  | close c =>
    simp only [fdStep, FdOp.fds, List.append_nil]
    exact ⟨conserved_sweep (conserved_congr (n := n) rfl rfl h), keys_sweep hk⟩
  | timeout =>
    simp only [fdStep, FdOp.fds, List.append_nil]
    exact ⟨conserved_sweep (conserved_congr (n := n) rfl rfl h), keys_sweep hk⟩
  | pendingTimeout =>
    simp only [fdStep, FdOp.fds, List.append_nil]
    exact ⟨conserved_sweep (conserved_congr (n := n) rfl rfl h), keys_sweep hk⟩
  | write c bytes fds =>
    simp only [fdStep, FdOp.fds]
    split
    · exact ⟨conserved_close_more (n := n) fds rfl rfl h, hk⟩
    · split
      · exact ⟨conserved_sweep (conserved_close_more (n := n) fds rfl rfl h), keys_sweep hk⟩
      · split
        · unfold fdWrite
          exact fdApply_conserved tbl c _ _ _ fds h hk
        · unfold fdWrite
          have := fdApply_conserved tbl (n := { n with closed := n.closed ++ fds }) c
            (Loader.feed n.net.maxMsg { n.net.loader c with fds := (n.net.loader c).fds + ([] : List Fd).length } bytes)
            (List.drop (n.net.loader c).msgs.length
              (Loader.feed n.net.maxMsg { n.net.loader c with fds := (n.net.loader c).fds + ([] : List Fd).length } bytes).msgs)
            ((Loader.feed n.net.maxMsg { n.net.loader c with fds := (n.net.loader c).fds + ([] : List Fd).length } bytes).corrupted &&
              !(n.net.loader c).corrupted) [] (conserved_close_more (n := n) fds rfl rfl h) hk
          simpa using this

theorem fdRun_conserved (tbl : List IfaceRow) : ∀ (ops : List FdOp) {R : List Fd} {n : FdNet}, Conserved R n → Keys n →
    Conserved (R ++ received ops) (fdRun tbl n ops) ∧ Keys (fdRun tbl n ops)
  | [], R, n, h, hk => by simpa [received, fdRun] using And.intro h hk
  | op :: ops, R, n, h, hk => by
    obtain ⟨h1, k1⟩ := fdStep_conserved tbl op h hk
    have := fdRun_conserved tbl ops h1 k1
    have hr : R ++ received (op :: ops) = R ++ op.fds ++ received ops := by
      cases op <;> simp [received, FdOp.fds]
    rw [hr]
    exact this

/-! ### pending descriptors belong to connected clients, within the per-connection limit -/

def Held (n : FdNet) : Prop := ∀ p ∈ n.pending, (n.net.bus.conn? p.1).isSome ∧ p.2.length ≤ n.maxMsgFds

theorem held_sweep {n : FdNet} (h : ∀ p ∈ n.pending, p.2.length ≤ n.maxMsgFds) : Held n.sweep := by
  intro p hp
  simp only [FdNet.sweep, List.mem_filter] at hp
  exact ⟨hp.2, h p hp.1⟩

theorem fdApply_held (tbl : List IfaceRow) {n : FdNet} (c : ConnId) (l' : Loader) (new : List Msg) (corrupt : Bool)
    (fds : List Fd) (h : Held n) (hroom : (n.pendingOf c).length + fds.length ≤ n.maxMsgFds) :
    Held (fdApply tbl n c l' new corrupt fds).1 := by
  have hb : ∀ p ∈ n.pending, p.2.length ≤ n.maxMsgFds := fun p hp => (h p hp).2
  unfold fdApply
  refine held_sweep ?_
  intro p hp
  simp only [FdNet.setPending, List.mem_cons, List.mem_filter] at hp
  rcases hp with rfl | ⟨hp, _⟩
  · dsimp only
    have := assign_rest_length_le (n.pendingOf c ++ fds) new
    simp only [List.length_append] at this
    show _ ≤ n.maxMsgFds
    omega
  · exact hb p hp

theorem pendingOf_le {n : FdNet} (h : Held n) (c : ConnId) : (n.pendingOf c).length ≤ n.maxMsgFds := by
  unfold FdNet.pendingOf
  cases hl : n.pending.lookup c with
  | none => simp
  | some v => exact (h _ (mem_of_lookup hl)).2

theorem fdStep_held (tbl : List IfaceRow) {n : FdNet} (op : FdOp) (h : Held n) :
    Held (fdStep tbl n op).1 := by
  have hb : ∀ p ∈ n.pending, p.2.length ≤ n.maxMsgFds := fun p hp => (h p hp).2
  cases op with
  | connect c uid gids canFd =>
    simp only [fdStep]
    split
    · exact h
    · exact held_sweep hb
  | close c => exact held_sweep hb
  | timeout => exact held_sweep hb
  | pendingTimeout => exact held_sweep hb
  | write c bytes fds =>
    simp only [fdStep]
    split
    · exact h
    · split
      · exact held_sweep hb
      · rename_i hroom
        split
        · rename_i hcan
          unfold fdWrite
          apply fdApply_held tbl c _ _ _ fds h
          simp only [hcan, Bool.true_and, decide_eq_true_eq] at hroom
          have := pendingOf_le h c
          omega
        · unfold fdWrite
          apply fdApply_held tbl (n := { n with closed := n.closed ++ fds }) c _ _ _ [] h
          have := pendingOf_le h c
          simpa [FdNet.pendingOf] using this

end Dbus.Proofs.Bus
