import Dbus.Model.Bus.Raw
import Dbus.Proofs.Chunking
import Dbus.Props.C11
import Dbus.Proofs.Bus.Generic
namespace Dbus.Proofs.Bus
open Dbus Dbus.Spec Dbus.Model Dbus.Model.Bus Dbus.Proofs.Loader

/-- the message passed the loader's validation -/
def Loaded (m : Msg) : Prop := ∃ mx fds bs n, loadOne true mx fds bs = .ok m n

def AllLoaded (l : Loader) : Prop := ∀ m ∈ l.msgs, Loaded m

theorem drain_loaded (mx : Nat) : ∀ (g : Nat) (l : Loader), AllLoaded l → AllLoaded (drain mx g l)
  | 0, l, h => h
  | g + 1, l, h => by
    by_cases hc : l.corrupted = true
    · rw [drain_corrupted mx g l hc]; exact h
    · cases hl : loadOne true mx l.fds l.buf with
      | incomplete => rw [drain_incomplete mx g l hc hl]; exact h
      | corrupt => rw [drain_corrupt mx g l hc hl]; exact h
      | ok m n =>
        rw [drain_ok mx g l hc m n hl]
        apply drain_loaded mx g
        intro x hx
        simp only [Loader.step, List.mem_append, List.mem_singleton] at hx
        rcases hx with hx | hx
        · exact h x hx
        · subst hx; exact ⟨mx, l.fds, l.buf, n, hl⟩

theorem feed_loaded (mx : Nat) (l : Loader) (chunk : Bytes) (h : AllLoaded l) : AllLoaded (l.feed mx chunk) := by
  unfold Loader.feed
  split
  · exact h
  · exact drain_loaded mx _ _ h

theorem feed_msgs_prefix (mx : Nat) (l : Loader) (chunk : Bytes) : ∃ more, (l.feed mx chunk).msgs = l.msgs ++ more := by
  unfold Loader.feed
  split
  · exact ⟨[], by simp⟩
  · exact Dbus.Props.C11.messages_monotone mx _ _

/-! ### a history of socket operations is a history of events -/

theorem run_fst_cons (tbl : List IfaceRow) (b : Bus) (ev : Ev) (evs : List Ev) :
    (run tbl b (ev :: evs)).1 = (run tbl (step tbl b ev).bus evs).1 := by
  unfold run
  simp only [List.foldl_cons]
  suffices h : ∀ (evs : List Ev) (b : Bus) (a1 a2 : List (List Out)),
      (evs.foldl (fun (acc : Bus × List (List Out)) ev => ((step tbl acc.1 ev).bus, acc.2 ++ [(step tbl acc.1 ev).out])) (b, a1)).1 =
      (evs.foldl (fun (acc : Bus × List (List Out)) ev => ((step tbl acc.1 ev).bus, acc.2 ++ [(step tbl acc.1 ev).out])) (b, a2)).1 from h _ _ _ _
  intro evs
  induction evs with
  | nil => intros; rfl
  | cons e es ih => intro b a1 a2; simp only [List.foldl_cons]; exact ih _ _ _

theorem run_fst_append (tbl : List IfaceRow) (b : Bus) (e1 e2 : List Ev) :
    (run tbl b (e1 ++ e2)).1 = (run tbl (run tbl b e1).1 e2).1 := by
  induction e1 generalizing b with
  | nil => rfl
  | cons e es ih => rw [List.cons_append, run_fst_cons, run_fst_cons, ih]

theorem steps_fst (tbl : List IfaceRow) (b : Bus) (evs : List Ev) : (steps tbl b evs).1 = (run tbl b evs).1 := by
  induction evs generalizing b with
  | nil => rfl
  | cons e es ih => rw [run_fst_cons]; simp only [steps]; exact ih _

/-- **whatever is written to the sockets, the bus core goes through an ordinary event history** -/
theorem netRun_is_run (tbl : List IfaceRow) (n : Net) (ops : List NetOp) :
    (netRun tbl n ops).bus = (run tbl n.bus (netEvents tbl n ops)).1 := by
  induction ops generalizing n with
  | nil => rfl
  | cons op ops ih =>
    simp only [netRun, netEvents]
    rw [ih, run_fst_append]
    congr 1
    simp only [netStep]
    rw [steps_fst]

theorem mem_of_lookup {β : Type} : ∀ {l : List (Nat × β)} {c : Nat} {v : β}, l.lookup c = some v → (c, v) ∈ l
  | [], _, _, h => by simp at h
  | (a, b) :: l, c, v, h => by
    rw [List.lookup_cons] at h
    cases hca : c == a with
    | true =>
      simp [hca] at h
      have : c = a := by simpa using hca
      subst this; subst h; exact List.mem_cons_self
    | false =>
      simp [hca] at h
      exact List.mem_cons_of_mem _ (mem_of_lookup h)

/-- every loader of a net holds validated messages only -/
def NetLoaded (n : Net) : Prop := ∀ p ∈ n.loaders, AllLoaded p.2

theorem loader_loaded {n : Net} (h : NetLoaded n) (c : ConnId) : AllLoaded (n.loader c) := by
  unfold Net.loader
  cases hl : n.loaders.lookup c with
  | none => intro m hm; simp at hm
  | some l =>
    exact h _ (mem_of_lookup hl)

theorem setLoader_loaded {n : Net} (h : NetLoaded n) (c : ConnId) (l : Loader) (hl : AllLoaded l) :
    NetLoaded (n.setLoader c l) := by
  intro p hp
  simp only [Net.setLoader, List.mem_cons] at hp
  rcases hp with rfl | hp
  · exact hl
  · exact h p (List.mem_filter.mp hp).1

theorem netStep_loaded (tbl : List IfaceRow) (n : Net) (op : NetOp) (h : NetLoaded n) : NetLoaded (netStep tbl n op).1 := by
  simp only [netStep]
  show NetLoaded (op.loaders n)
  cases op with
  | connect c _ _ _ => exact setLoader_loaded h c {} (by intro m hm; simp at hm)
  | write c bytes => exact setLoader_loaded h c _ (feed_loaded _ _ _ (loader_loaded h c))
  | close c => exact h
  | timeout => exact h

theorem events_loaded (n : Net) (op : NetOp) (h : NetLoaded n) :
    ∀ ev ∈ op.events n, ∀ c m, ev = .msg c m → Loaded m := by
  intro ev hev c m hcm
  subst hcm
  cases op with
  | connect _ _ _ _ => simp [NetOp.events] at hev
  | close _ => simp [NetOp.events] at hev
  | timeout => simp [NetOp.events] at hev
  | write c' bytes =>
    simp only [NetOp.events, readEvents, List.mem_append, List.mem_map] at hev
    rcases hev with ⟨x, hx, hxe⟩ | hev
    · cases hxe
      exact feed_loaded _ _ _ (loader_loaded h c) m (List.mem_of_mem_drop hx)
    · split at hev <;> simp at hev

theorem netEvents_loaded (tbl : List IfaceRow) (n : Net) (ops : List NetOp) (h : NetLoaded n) :
    ∀ ev ∈ netEvents tbl n ops, ∀ c m, ev = .msg c m → Loaded m := by
  induction ops generalizing n with
  | nil => intro ev hev; simp [netEvents] at hev
  | cons op ops ih =>
    intro ev hev c m hcm
    simp only [netEvents, List.mem_append] at hev
    rcases hev with hev | hev
    · exact events_loaded n op h ev hev c m hcm
    · exact ih _ (netStep_loaded tbl n op h) ev hev c m hcm

end Dbus.Proofs.Bus
