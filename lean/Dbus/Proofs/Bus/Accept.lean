import Dbus.Model.Bus.Accept
namespace Dbus.Proofs.Accept
open Dbus.Model.Accept

/-- the listening sockets are watched exactly while there is room, and nobody waits while there is room -/
structure Inv (a : Acc) : Prop where
  flag : a.enabled = decide (a.incomplete.length < a.max)
  bound : a.incomplete.length ≤ a.max
  served : a.incomplete.length < a.max → a.backlog = []

theorem pump_max (fuel : Nat) (a : Acc) : (a.pump fuel).max = a.max := by
  induction fuel generalizing a with
  | zero => rfl
  | succ f ih =>
    unfold Acc.pump
    split
    · split
      · rfl
      · rw [ih]; rfl
    · rfl

theorem pump_inv (fuel : Nat) (a : Acc) (hf : a.backlog.length < fuel)
    (h1 : a.enabled = decide (a.incomplete.length < a.max)) (h2 : a.incomplete.length ≤ a.max) :
    Inv (a.pump fuel) := by
  induction fuel generalizing a with
  | zero => omega
  | succ f ih =>
    unfold Acc.pump
    split
    · rename_i he
      split
      · rename_i hb
        exact ⟨h1, h2, fun _ => hb⟩
      · rename_i i rest hb
        apply ih
        · simp [Acc.check]; rw [hb] at hf; simp at hf; omega
        · simp [Acc.check]
        · simp [Acc.check]
          rw [h1] at he; simp at he; omega
    · rename_i he
      refine ⟨h1, h2, fun hlt => ?_⟩
      rw [h1] at he; simp at he; omega

theorem step_inv (a : Acc) (ev : Ev) (h : Inv a) : Inv (a.step ev) := by
  cases ev with
  | arrive i =>
    simp only [Acc.step]
    exact pump_inv _ _ (by simp) h.flag h.bound
  | complete i =>
    simp only [Acc.step]
    split
    · apply pump_inv
      · simp [Acc.check]
      · rfl
      · simp [Acc.check]
        have := List.length_erase_le (a := i) (l := a.incomplete)
        have := h.bound; omega
    · exact h
  | gone i =>
    simp only [Acc.step]
    split
    · apply pump_inv
      · simp [Acc.check]
      · rfl
      · simp [Acc.check]
        have := List.length_erase_le (a := i) (l := a.incomplete)
        have := h.bound; omega
    · refine ⟨h.flag, h.bound, fun hlt => ?_⟩
      simp [h.served hlt]

theorem run_inv (a : Acc) (evs : List Ev) (h : Inv a) : Inv (a.run evs) := by
  unfold Acc.run
  induction evs generalizing a with
  | nil => exact h
  | cons ev evs ih => exact ih _ (step_inv a ev h)

theorem init_inv (max : Nat) (h : 0 < max) : Inv { max := max } :=
  ⟨by simp [h], by simp, fun _ => rfl⟩

end Dbus.Proofs.Accept
