import Dbus.Model.Bus.Core
namespace Dbus.Proofs.Bus
open Dbus Dbus.Model.Bus

theorem digit_toNat {c : Char} (h : c.isDigit = true) : 48 ≤ c.toNat ∧ c.toNat ≤ 57 := by
  simp only [Char.isDigit, Bool.and_eq_true, decide_eq_true_eq] at h
  have h1 : (48 : Nat) ≤ c.val.toNat := by
    have := h.1; exact UInt32.le_iff_toNat_le.mp this
  have h2 : c.val.toNat ≤ 57 := by
    have := h.2; exact UInt32.le_iff_toNat_le.mp this
  exact ⟨h1, h2⟩

theorem dec_digits {n : Nat} {b : UInt8} (h : b ∈ dec n) : 48 ≤ b.toNat ∧ b.toNat ≤ 57 := by
  unfold dec at h
  simp only [List.mem_map] at h
  obtain ⟨c, hc, rfl⟩ := h
  have hd := Nat.isDigit_of_mem_toDigits (by decide) (by decide) hc
  have := digit_toNat hd
  have h3 : (UInt8.ofNat c.toNat).toNat = c.toNat := by
    simp [UInt8.toNat_ofNat]; omega
  rw [h3]; exact this

theorem map_inj_on {α β : Type} (f : α → β) : ∀ (l l' : List α),
    (∀ a ∈ l, ∀ b ∈ l', f a = f b → a = b) → l.map f = l'.map f → l = l'
  | [], [], _, _ => rfl
  | [], _ :: _, _, h => by simp at h
  | _ :: _, [], _, h => by simp at h
  | a :: l, b :: l', hi, h => by
    simp only [List.map_cons, List.cons.injEq] at h
    have := hi a (by simp) b (by simp) h.1
    subst this
    congr 1
    exact map_inj_on f l l' (fun x hx y hy => hi x (by simp [hx]) y (by simp [hy])) h.2

theorem dec_inj {n n' : Nat} (h : dec n = dec n') : n = n' := by
  unfold dec at h
  have : Nat.toDigits 10 n = Nat.toDigits 10 n' := by
    apply map_inj_on _ _ _ _ h
    intro a ha b hb hab
    have da := digit_toNat (Nat.isDigit_of_mem_toDigits (by decide) (by decide) ha)
    have db := digit_toNat (Nat.isDigit_of_mem_toDigits (by decide) (by decide) hb)
    have h1 : (UInt8.ofNat a.toNat).toNat = a.toNat := by simp [UInt8.toNat_ofNat]; omega
    have h2 : (UInt8.ofNat b.toNat).toNat = b.toNat := by simp [UInt8.toNat_ofNat]; omega
    have : a.toNat = b.toNat := by rw [← h1, ← h2, hab]
    exact Char.toNat_inj.mp this |> fun h => h
  have h1 := @Nat.ofDigitChars_ten_toDigits n
  have h2 := @Nat.ofDigitChars_ten_toDigits n'
  rw [this] at h1
  exact h1.symm.trans h2

/-- two lists without separator, joined by the separator, determine each other -/
theorem split_unique {sep : UInt8} : ∀ (a a' b b' : Bytes), sep ∉ a → sep ∉ a' →
    a ++ sep :: b = a' ++ sep :: b' → a = a' ∧ b = b'
  | [], [], b, b', _, _, h => by simpa using h
  | [], x :: a', b, b', _, h2, h => by
    simp only [List.nil_append, List.cons_append, List.cons.injEq] at h
    exact absurd (by simp [h.1]) h2
  | x :: a, [], b, b', h1, _, h => by
    simp only [List.nil_append, List.cons_append, List.cons.injEq] at h
    exact absurd (by simp [← h.1]) h1
  | x :: a, y :: a', b, b', h1, h2, h => by
    simp only [List.cons_append, List.cons.injEq] at h
    have := split_unique a a' b b' (fun hm => h1 (by simp [hm])) (fun hm => h2 (by simp [hm])) h.2
    exact ⟨by rw [h.1, this.1], this.2⟩

theorem dot_not_in_dec (n : Nat) : (0x2e : UInt8) ∉ dec n := by
  intro h
  have := dec_digits h
  simp at this

/-- **C03**: different counter values give different unique names -/
theorem uniqueName_inj {M m M' m' : Nat} (h : uniqueName M m = uniqueName M' m') : M = M' ∧ m = m' := by
  unfold uniqueName at h
  simp only [List.cons.injEq, true_and] at h
  have := split_unique _ _ _ _ (dot_not_in_dec M) (dot_not_in_dec M') h
  exact ⟨dec_inj this.1, dec_inj this.2⟩

theorem uniqueName_head (M m : Nat) : (uniqueName M m).head? = some 0x3a := rfl

end Dbus.Proofs.Bus
