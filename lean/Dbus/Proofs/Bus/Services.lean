import Dbus.Proofs.Bus.Generic
import Dbus.Proofs.Bus.Registry
/-
  C04 at the level of the whole bus: in every reachable state every name's owner queue satisfies
  the queue invariant, so the specification theorems of `Registry` apply to every RequestName,
  ReleaseName and disconnection the bus ever processes.
-/
namespace Dbus.Proofs.Bus
open Dbus Dbus.Spec Dbus.Model Dbus.Model.Bus

structure SvcOK (l : List Service) : Prop where
  names_nodup : (l.map (·.name)).Nodup
  queues : ∀ s ∈ l, s.owners ≠ [] ∧ QInv s.owners

def ServicesInv (b : Bus) : Prop := SvcOK b.services

theorem ownersOf_qinv {b : Bus} (h : ServicesInv b) (n : Bytes) : QInv (ownersOf b n) := by
  unfold ownersOf Bus.service?
  cases hf : b.services.find? (·.name == n) with
  | none => exact qinv_nil
  | some s => exact (h.queues s (List.mem_of_find?_eq_some hf)).2

theorem svcOK_setOwners {b : Bus} (h : ServicesInv b) (n : Bytes) {os : List Owner} (hq : QInv os) :
    ServicesInv (b.setOwners n os) := by
  unfold ServicesInv Bus.setOwners
  split
  · exact ⟨h.names_nodup.sublist (List.Sublist.map _ List.filter_sublist),
      fun s hs => h.queues s (List.mem_filter.mp hs).1⟩
  · rename_i hne
    split
    · refine ⟨?_, ?_⟩
      · have : (b.services.map fun s => if s.name == n then { s with owners := os } else s).map (·.name) = b.services.map (·.name) := by
          simp only [List.map_map]
          apply List.map_congr_left
          intro s _
          simp only [Function.comp]
          split <;> rfl
        rw [this]; exact h.names_nodup
      · intro s hs
        simp only [List.mem_map] at hs
        obtain ⟨s0, hs0, rfl⟩ := hs
        split
        · exact ⟨by simpa using hne, hq⟩
        · exact h.queues s0 hs0
    · rename_i hnot
      refine ⟨?_, ?_⟩
      · simp only [List.map_append, List.map_cons, List.map_nil]
        rw [List.nodup_append]
        refine ⟨h.names_nodup, by simp, ?_⟩
        intro a ha x hx
        simp only [List.mem_singleton] at hx
        subst hx
        intro e
        apply hnot
        simp only [List.any_eq_true, beq_iff_eq]
        simp only [List.mem_map] at ha
        obtain ⟨s, hs, rfl⟩ := ha
        exact ⟨s, hs, e⟩
      · intro s hs
        simp only [List.mem_append, List.mem_singleton] at hs
        rcases hs with hs | rfl
        · exact h.queues s hs
        · exact ⟨by simpa using hne, hq⟩

theorem syncOwned_services (b : Bus) (n : Bytes) (os os' : List Owner) : (syncOwned b n os os').services = b.services := rfl

theorem applyQueue_services (t : Tx) (n : Bytes) (os' : List Owner) (sigs : List Sig) :
    (applyQueue t n os' sigs).bus.services = (t.bus.setOwners n os').services := by
  unfold applyQueue
  have h := (step_emitSigs n sigs t).bus
  have e := (core_eq_iff.mp h).2.1
  show (syncOwned _ n _ os').services = _
  rw [syncOwned_services]
  unfold Bus.setOwners
  rw [e]
  split
  · rfl
  · split <;> rfl

theorem svc_applyQueue {t : Tx} (h : ServicesInv t.bus) (n : Bytes) {os' : List Owner} (sigs : List Sig) (hq : QInv os') :
    ServicesInv (applyQueue t n os' sigs).bus := by
  unfold ServicesInv
  rw [applyQueue_services]
  exact svcOK_setOwners h n hq

theorem qinv_qEnsure (c flags : Nat) : QInv (qEnsure c flags).1 := by
  refine ⟨?_, ?_⟩ <;> simp [qEnsure, qAdd, inQueue]

theorem servicesInv_of_services_eq {b b' : Bus} (h : b'.services = b.services) (hi : ServicesInv b) : ServicesInv b' := by
  unfold ServicesInv; rw [h]; exact hi

theorem mintAux_services : ∀ (f : Nat) (b : Bus), (mintAux f b).1.services = b.services
  | 0, b => rfl
  | f + 1, b => by
    unfold mintAux
    dsimp only
    split
    · rfl
    · exact (mintAux_services f (bump b).1).trans rfl

/-- the leaves of the generic induction, for the services invariant -/
theorem services_leaves : Leaves (keeps ServicesInv) where
  refl := fun _ h => h
  trans := fun _ _ _ h1 h2 h => h2 (h1 h)
  gate := fun _ _ _ _ _ h => h
  forget := fun _ _ h => h
  expire := fun _ h => h
  expireSome := fun _ _ h => h
  setPolicy := fun _ _ h => h
  acquire := by
    intro t c n flags _ h
    unfold acquire
    repeat' split
    all_goals first
      | exact h
      | exact svc_applyQueue h n _ (qinv_qAcquire _ c flags (ownersOf_qinv h n))
  release := by
    intro t c n h
    unfold release
    repeat' split
    all_goals first
      | exact h
      | exact svc_applyQueue h n _ (qinv_qRelease _ c (ownersOf_qinv h n))
  removeOwner := fun t n c h => svc_applyQueue h n _ (qinv_qRemove _ c (ownersOf_qinv h n))
  helloOk := by
    intro t c m _ _ _ h
    unfold helloOk ensureService
    refine svc_applyQueue ?_ _ _ (qinv_qEnsure c 0)
    have h1 := (step_reply ({ t with bus := activate (mint t.bus).1 c (mint t.bus).2 } : Tx) c
      (m.setSender (mint t.bus).2) [tStr] [sStr (mint t.bus).2]).bus
    refine servicesInv_of_services_eq (core_eq_iff.mp h1).2.1 ?_
    exact servicesInv_of_services_eq (b := t.bus) (mintAux_services _ _) h
  addRule := fun _ _ _ _ _ h => h
  removeRule := fun _ _ _ _ _ h => h
  gcRules := by
    intro b c x _ h
    refine servicesInv_of_services_eq ?_ h
    unfold gcRules
    split
    · rfl
    · split <;> rfl
  installMonitor := fun _ _ _ h => h
  joinMonitors := by
    intro b c x rules h
    refine servicesInv_of_services_eq ?_ h
    show (gcRules b _).services = _
    unfold gcRules
    split
    · rfl
    · split <;> rfl
  clearRules := fun _ _ h => h
  removeConn := fun _ _ h => h
  connect := fun _ _ _ _ _ _ h => h
  setFull := fun _ _ h => h

/-- **every reachable state has well-formed owner queues** -/
theorem servicesInv_run (tbl : List IfaceRow) (l : Limits) (p : Policy) (evs : List Ev) :
    ServicesInv (run tbl { limits := l, policy := p } evs).1 :=
  invariant_of_leaves services_leaves tbl _ evs ⟨List.nodup_nil, by intro s hs; cases hs⟩

end Dbus.Proofs.Bus
