import Dbus.Proofs.Bus.FdsA
import Dbus.Proofs.Bus.FdsB
namespace Dbus.Proofs.Bus
open Dbus Dbus.Spec Dbus.Model Dbus.Model.Bus Dbus.Proofs.Loader

theorem lookup_filter_key {β : Type} (q : Nat → Bool) : ∀ (l : List (Nat × β)) (c : Nat),
    (l.filter (fun p => q p.1)).lookup c = if q c then l.lookup c else none
  | [], c => by simp
  | (a, b) :: l, c => by
    have ih := lookup_filter_key q l c
    by_cases hq : q a = true
    · simp only [List.filter_cons, hq, if_true, List.lookup_cons]
      cases hca : c == a with
      | true => have : c = a := by simpa using hca
                subst this; simp [hq]
      | false => simpa using ih
    · have hq' : q a = false := by simpa using hq
      simp only [List.filter_cons, hq', Bool.false_eq_true, if_false, List.lookup_cons]
      cases hca : c == a with
      | true => have : c = a := by simpa using hca
                subst this; simp [hq', ih]
      | false => simpa using ih

theorem lookup_cons_filter_ne {β : Type} (l : List (Nat × β)) (c c' : Nat) (v : β) :
    ((c, v) :: l.filter (fun p => p.1 != c)).lookup c' = if c' = c then some v else l.lookup c' := by
  rw [List.lookup_cons]
  by_cases h : c' = c
  · subst h; simp
  · have : (c' == c) = false := by simpa using h
    simp only [this, h, if_false]
    rw [lookup_filter_key (fun k => k != c) l c']
    simp [bne_iff_ne, h]

theorem loader_setLoader (n : Net) (c c' : ConnId) (l : Loader) :
    (n.setLoader c l).loader c' = if c' = c then l else n.loader c' := by
  unfold Net.setLoader Net.loader
  simp only
  rw [lookup_cons_filter_ne]
  split <;> rfl

theorem pendingOf_setPending (n : FdNet) (c c' : ConnId) (v : List Fd) :
    (n.setPending c v).pendingOf c' = if c' = c then v else n.pendingOf c' := by
  unfold FdNet.setPending FdNet.pendingOf
  simp only
  rw [lookup_cons_filter_ne]
  split <;> rfl

/-- the loader's descriptor count is the number of tokens pending for the connection -/
def Sync (n : FdNet) : Prop := ∀ c, (n.net.loader c).fds = (n.pendingOf c).length

theorem sync_sweep {n : FdNet} (h : Sync n) : Sync n.sweep := by
  intro c
  have h1 : n.sweep.net.loader c = if (n.net.bus.conn? c).isSome then n.net.loader c else {} := by
    unfold FdNet.sweep Net.loader
    simp only
    rw [lookup_filter_key (fun k => (n.net.bus.conn? k).isSome)]
    split <;> rfl
  have h2 : n.sweep.pendingOf c = if (n.net.bus.conn? c).isSome then n.pendingOf c else [] := by
    unfold FdNet.sweep FdNet.pendingOf
    simp only
    rw [lookup_filter_key (fun k => (n.net.bus.conn? k).isSome)]
    split <;> rfl
  rw [h1, h2]
  split
  · exact h c
  · rfl

theorem feed_enough (mx : Nat) (l : Loader) (chunk : Bytes) (avail : List Fd) (h : avail.length = l.fds) :
    Enough avail ((l.feed mx chunk).msgs.drop l.msgs.length) ∧
    (assign avail ((l.feed mx chunk).msgs.drop l.msgs.length)).2.length = (l.feed mx chunk).fds := by
  unfold Loader.feed
  split
  · simp [Enough, assign, h]
  · have := drain_enough mx (l.buf.length + chunk.length + 1) { l with buf := l.buf ++ chunk } avail l.msgs
      (Nat.le_refl _) (by simp [Enough]) (by simp [assign, h])
    exact this

theorem fdWrite_sync (tbl : List IfaceRow) {n : FdNet} (c : ConnId) (bytes : Bytes) (fds : List Fd) (h : Sync n) :
    Sync (fdWrite tbl n c bytes fds).1 ∧
    ∀ p ∈ (assign (n.pendingOf c ++ fds)
        ((Loader.feed n.net.maxMsg { n.net.loader c with fds := (n.net.loader c).fds + fds.length } bytes).msgs.drop
          (n.net.loader c).msgs.length)).1, p.2.length = p.1.nFds := by
  have hf := feed_enough n.net.maxMsg { n.net.loader c with fds := (n.net.loader c).fds + fds.length } bytes
    (n.pendingOf c ++ fds) (by simp [h c])
  refine ⟨?_, assign_exact _ _ hf.1⟩
  unfold fdWrite fdApply
  apply sync_sweep
  intro c'
  dsimp only
  rw [pendingOf_setPending]
  show (Net.loader (Net.setLoader _ c _) c').fds = _
  rw [loader_setLoader]
  split
  · exact hf.2.symm
  · exact h c'

theorem sync_congr {n n' : FdNet} (hl : n'.net.loaders = n.net.loaders) (hp : n'.pending = n.pending) (h : Sync n) : Sync n' := by
  intro c
  have := h c
  unfold Net.loader FdNet.pendingOf at *
  rw [hl, hp]; exact this

theorem fdStep_sync (tbl : List IfaceRow) {n : FdNet} (op : FdOp) (hs : Sync n) (hh : Held n) : Sync (fdStep tbl n op).1 := by
  cases op with
  | connect c uid gids canFd =>
    simp only [fdStep]
    split
    · exact hs
    · rename_i hnc
      apply sync_sweep
      intro c'
      show (Net.loader (Net.setLoader _ c _) c').fds = _
      rw [loader_setLoader]
      split
      · rename_i hcc
        subst hcc
        have : n.pendingOf c' = [] := by
          unfold FdNet.pendingOf
          cases hl : n.pending.lookup c' with
          | none => rfl
          | some v => exact absurd (hh _ (mem_of_lookup hl)).1 hnc
        show (0 : Nat) = (FdNet.pendingOf n c').length
        rw [this]; rfl
      · exact hs c'
  | close c => exact sync_sweep (sync_congr (n := n) rfl rfl hs)
  | timeout => exact sync_sweep (sync_congr (n := n) rfl rfl hs)
  | pendingTimeout => exact sync_sweep (sync_congr (n := n) rfl rfl hs)
  | write c bytes fds =>
    simp only [fdStep]
    split
    · exact sync_congr (n := n) rfl rfl hs
    · split
      · exact sync_sweep (sync_congr (n := n) rfl rfl hs)
      · split
        · exact (fdWrite_sync tbl c bytes fds hs).1
        · exact (fdWrite_sync tbl (n := { n with closed := n.closed ++ fds }) c bytes [] (sync_congr (n := n) rfl rfl hs)).1

/-- all three invariants together, for every history -/
structure FdInv (R : List Fd) (n : FdNet) : Prop where
  conserved : Conserved R n
  keys : Keys n
  held : Held n
  sync : Sync n

theorem fdInv_init (mx : Nat) (net : Net) (h : net.loaders = []) : FdInv [] { net := net, maxMsgFds := mx } :=
  ⟨by simp [Conserved, FdNet.allPending], by simp [Keys], (by intro p hp; cases hp),
   (by intro c; simp [Net.loader, FdNet.pendingOf, h])⟩

theorem fdInv_step (tbl : List IfaceRow) {R : List Fd} {n : FdNet} (op : FdOp) (h : FdInv R n) :
    FdInv (R ++ op.fds) (fdStep tbl n op).1 :=
  ⟨(fdStep_conserved tbl op h.conserved h.keys).1, (fdStep_conserved tbl op h.conserved h.keys).2,
   fdStep_held tbl op h.held, fdStep_sync tbl op h.sync h.held⟩

theorem fdInv_run (tbl : List IfaceRow) : ∀ (ops : List FdOp) {R : List Fd} {n : FdNet}, FdInv R n →
    FdInv (R ++ received ops) (fdRun tbl n ops)
  | [], R, n, h => by simpa [received, fdRun] using h
  | op :: ops, R, n, h => by
    have h1 := fdInv_step tbl op h
    have := fdInv_run tbl ops h1
    have hr : R ++ received (op :: ops) = R ++ op.fds ++ received ops := by
      cases op <;> simp [received, FdOp.fds]
    rw [hr]
    exact this

end Dbus.Proofs.Bus
