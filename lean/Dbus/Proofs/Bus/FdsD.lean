import Dbus.Proofs.Bus.FdsC
import Dbus.Proofs.Bus.Names
namespace Dbus.Proofs.Bus
open Dbus Dbus.Spec Dbus.Model Dbus.Model.Bus

theorem conn_none_of_not_mem_ids {b : Bus} {c : ConnId} (h : c ∉ (names b).map Prod.fst) : b.conn? c = none := by
  unfold Bus.conn?
  cases hf : b.conns.find? (·.id == c) with
  | none => rfl
  | some x =>
    exfalso; apply h
    have hx := List.mem_of_find?_eq_some hf
    have hid : x.id = c := by simpa using List.find?_some hf
    simp only [names, List.map_map, List.mem_map, Function.comp]
    exact ⟨x, hx, hid⟩

/-- dropping a connection never brings an absent connection back, and removes the one dropped -/
theorem invalid_step_ids (tbl : List IfaceRow) (b : Bus) (c : ConnId) :
    (∀ d, d ∉ (names b).map Prod.fst → d ∉ (names (step tbl b (.invalid c)).bus).map Prod.fst) ∧
    c ∉ (names (step tbl b (.invalid c)).bus).map Prod.fst := by
  simp only [step]
  split
  · rename_i hn
    exact ⟨fun d hd => hd, not_mem_ids_of_conn_none (by simpa using hn)⟩
  · rename_i hs
    have hx : ∃ x, b.conn? c = some x := by
      cases hc : b.conn? c with
      | none => simp [hc] at hs
      | some x => exact ⟨x, rfl⟩
    obtain ⟨x, hx⟩ := hx
    have hb : (dropConn b c).bus = (disconnect b c).bus := rfl
    rw [hb]
    have hv : names (disconnect b c).bus = (names b).filter (fun p => p.1 != c) := by
      unfold disconnect
      simp only [hx]
      exact (view_disconnectTx b c x).1
    rw [hv]
    constructor
    · intro d hd hm
      obtain ⟨p, hp, hpd⟩ := List.mem_map.mp hm
      exact hd (List.mem_map.mpr ⟨p, (List.mem_filter.mp hp).1, hpd⟩)
    · intro hm
      obtain ⟨p, hp, hpd⟩ := List.mem_map.mp hm
      have := (List.mem_filter.mp hp).2
      simp [bne_iff_ne] at this
      exact this hpd

theorem dropAll_gone (tbl : List IfaceRow) : ∀ (cs : List ConnId) (b : Bus),
    (∀ d, d ∉ (names b).map Prod.fst → d ∉ (names (dropAll tbl b cs).1).map Prod.fst) ∧
    ∀ c ∈ cs, c ∉ (names (dropAll tbl b cs).1).map Prod.fst
  | [], b => ⟨fun _ h => h, fun _ h => by cases h⟩
  | c :: cs, b => by
    simp only [dropAll]
    obtain ⟨k1, k2⟩ := invalid_step_ids tbl b c
    obtain ⟨r1, r2⟩ := dropAll_gone tbl cs (step tbl b (.invalid c)).bus
    refine ⟨fun d hd => r1 d (k1 d hd), ?_⟩
    intro d hd
    rcases List.mem_cons.mp hd with rfl | hd
    · exact r1 _ k2
    · exact r2 d hd

/-- **when the pending-descriptor timeout has passed, nothing is pending any more**: every connection that held
    descriptors without a message has been dropped and what it held is closed -/
theorem pendingTimeout_clears (tbl : List IfaceRow) (n : FdNet) : (fdStep tbl n .pendingTimeout).1.allPending = [] := by
  simp only [fdStep, FdNet.sweep, FdNet.allPending]
  rw [List.flatMap_eq_nil_iff]
  intro p hp
  obtain ⟨hp1, hp2⟩ := List.mem_filter.mp hp
  cases hq : p.2 with
  | nil => rfl
  | cons a as =>
    exfalso
    have hmem : p.1 ∈ (n.pending.filter (fun p => !p.2.isEmpty)).map (·.1) :=
      List.mem_map.mpr ⟨p, List.mem_filter.mpr ⟨hp1, by simp [hq]⟩, rfl⟩
    have := (dropAll_gone tbl _ n.net.bus).2 p.1 hmem
    have hnone := conn_none_of_not_mem_ids this
    rw [hnone] at hp2
    simp at hp2

end Dbus.Proofs.Bus
