import Dbus.Model.Bus.Registry
/-
  The owner-queue operations of bus/services.c against the specification's RequestName /
  ReleaseName rules (Dbus.Spec.Names): queue, reply code and signals.
-/
namespace Dbus.Proofs.Bus
open Dbus Dbus.Model.Bus Dbus.Spec.Names

theorem filter_ne_of_not_mem {rest : List Owner} {c : Nat} (h : c ∉ rest.map (·.conn)) :
    rest.filter (·.conn != c) = rest := by
  induction rest with
  | nil => rfl
  | cons x xs ih =>
    simp only [List.map_cons, List.mem_cons, not_or] at h
    have hx : (x.conn != c) = true := by simpa [bne_iff_ne] using fun e => h.1 e.symm
    simp [hx, ih h.2]

theorem filter_queueable {rest : List Owner} (h : ∀ o ∈ rest, o.noQueue = false) :
    rest.filter (fun x => !x.noQueue) = rest := by
  induction rest with
  | nil => rfl
  | cons x xs ih =>
    have hx := h x (by simp)
    simp [hx, ih (fun o ho => h o (by simp [ho]))]

theorem member_iff {os : List Owner} {c : Nat} : member os c = true ↔ c ∈ os.map (·.conn) := by
  simp [member, List.any_eq_true, beq_iff_eq]

def upd (c : Nat) (e : Owner) (x : Owner) : Owner := if x.conn == c then e else x

theorem map_update_filter {rest : List Owner} {c : Nat} {e : Owner} (he : e.noQueue = true)
    (hq : ∀ o ∈ rest, o.noQueue = false) :
    (rest.map (upd c e)).filter (fun x => !x.noQueue) = rest.filter (·.conn != c) := by
  induction rest with
  | nil => rfl
  | cons x xs ih =>
    have hx := hq x (by simp)
    have ih' := ih (fun o ho => hq o (by simp [ho]))
    by_cases hc : x.conn = c
    · have h1 : upd c e x = e := by simp [upd, hc]
      have h2 : (x.conn != c) = false := by simp [hc]
      rw [List.map_cons, h1, List.filter_cons, List.filter_cons]
      simp only [he, h2, Bool.not_true]
      exact ih'
    · have h1 : upd c e x = x := by simp [upd, hc]
      have h2 : (x.conn != c) = true := by simpa [bne_iff_ne] using hc
      rw [List.map_cons, h1, List.filter_cons, List.filter_cons]
      simp only [hx, h2, Bool.not_false, if_true]
      rw [ih']

theorem map_update_keep {rest : List Owner} {c : Nat} {e : Owner} (he : e.noQueue = false)
    (hq : ∀ o ∈ rest, o.noQueue = false) :
    (rest.map (upd c e)).filter (fun x => !x.noQueue) = rest.map (upd c e) := by
  apply filter_queueable
  intro o ho
  simp only [List.mem_map] at ho
  obtain ⟨x, hx, rfl⟩ := ho
  unfold upd
  split
  · exact he
  · exact hq x hx

theorem filter_filter_queueable {rest : List Owner} {c : Nat} (hq : ∀ o ∈ rest, o.noQueue = false) :
    (rest.filter (·.conn != c)).filter (fun x => !x.noQueue) = rest.filter (·.conn != c) :=
  filter_queueable fun o ho => hq o (List.mem_filter.mp ho).1

@[simp] theorem mkOwner_conn (c flags : Nat) : (mkOwner c flags).conn = c := rfl
@[simp] theorem mkOwner_noQueue (c flags : Nat) : (mkOwner c flags).noQueue = flagNoQueue flags := rfl

variable {p : Owner} {rest : List Owner} {c flags : Nat}

/-! spec side, caller is not the primary owner -/

theorem spec_replace (hpc : (p.conn == c) = false) (hq : ∀ o ∈ rest, o.noQueue = false)
    (h : (p.allowRepl && flagReplace flags) = true) :
    requestName (p :: rest) c (flagAllow flags) (flagReplace flags) (flagNoQueue flags) =
      mkOwner c flags :: ((if p.noQueue then [] else [p]) ++ rest.filter (·.conn != c)) := by
  simp only [requestName, place, hpc, h, if_true, prune, Bool.false_eq_true, if_false, List.filter_cons]
  rw [filter_filter_queueable hq]
  cases p.noQueue <;> simp [mkOwner]

theorem spec_member (hpc : (p.conn == c) = false) (hq : ∀ o ∈ rest, o.noQueue = false)
    (h : (p.allowRepl && flagReplace flags) = false) (hm : member rest c = true) :
    requestName (p :: rest) c (flagAllow flags) (flagReplace flags) (flagNoQueue flags) =
      p :: (if flagNoQueue flags then rest.filter (·.conn != c) else rest.map (upd c (mkOwner c flags))) := by
  cases hn : flagNoQueue flags
  · simp only [requestName, place, hpc, h, hm, if_true, prune, Bool.false_eq_true, if_false, mkOwner, hn]
    congr 1
    exact map_update_keep (c := c) (e := ⟨c, flagAllow flags, false⟩) rfl hq
  · simp only [requestName, place, hpc, h, hm, if_true, prune, Bool.false_eq_true, if_false, mkOwner, hn]
    congr 1
    exact map_update_filter (c := c) (e := ⟨c, flagAllow flags, true⟩) rfl hq

theorem spec_new (hpc : (p.conn == c) = false) (hq : ∀ o ∈ rest, o.noQueue = false)
    (h : (p.allowRepl && flagReplace flags) = false) (hm : member rest c = false) :
    requestName (p :: rest) c (flagAllow flags) (flagReplace flags) (flagNoQueue flags) =
      p :: (if flagNoQueue flags then rest else rest ++ [mkOwner c flags]) := by
  simp only [requestName, place, hpc, h, hm, prune, Bool.false_eq_true, if_false, List.filter_append,
    filter_queueable hq]
  cases hn : flagNoQueue flags <;> simp [mkOwner, hn]

/-! code side -/

theorem inQueue_cons (hpc : (p.conn == c) = false) : inQueue (p :: rest) c = member rest c := by
  simp [inQueue, member, List.any_cons, hpc]

theorem code_exists (hpc : (p.conn == c) = false)
    (h1 : (flagNoQueue flags && (!p.allowRepl || !flagReplace flags)) = true) :
    qAcquire (p :: rest) c flags = (p :: rest.filter (·.conn != c), REPLY_EXISTS, []) := by
  have : (p.conn != c) = true := by simp [bne, hpc]
  simp only [qAcquire, hpc, h1, Bool.false_eq_true, if_false, if_true, List.filter_cons, this]

theorem code_queue (hpc : (p.conn == c) = false)
    (h1 : (flagNoQueue flags && (!p.allowRepl || !flagReplace flags)) = false)
    (h2 : (!flagNoQueue flags && (!flagReplace flags || !p.allowRepl)) = true) :
    qAcquire (p :: rest) c flags =
      ((if member rest c then
        (if flagReplace flags then p :: mkOwner c flags :: rest.filter (·.conn != c)
         else p :: rest.map (upd c (mkOwner c flags)))
      else (if flagReplace flags then p :: mkOwner c flags :: rest else p :: (rest ++ [mkOwner c flags]))),
       REPLY_IN_QUEUE, []) := by
  have hne : (p.conn != c) = true := by simp [bne, hpc]
  simp only [qAcquire, hpc, h1, h2, Bool.false_eq_true, if_false, if_true, qAdd, inQueue_cons hpc]
  have hpc' : p.conn ≠ c := by simpa using hpc
  cases hm : member rest c <;> cases hr : flagReplace flags <;>
    simp [insertSecond, hne, upd, hpc']

theorem code_replace (hpc : (p.conn == c) = false) (hnd : p.conn ∉ rest.map (·.conn))
    (h1 : (flagNoQueue flags && (!p.allowRepl || !flagReplace flags)) = false)
    (h2 : (!flagNoQueue flags && (!flagReplace flags || !p.allowRepl)) = false) :
    qAcquire (p :: rest) c flags =
      (mkOwner c flags :: ((if p.noQueue then [] else [p]) ++
        (if member rest c then rest.filter (·.conn != c) else rest)), REPLY_PRIMARY,
       [Sig.lost p.conn, Sig.changed (some p.conn) (some c), Sig.acquired c]) := by
  have hne : (p.conn != c) = true := by simp [bne, hpc]
  have hr : flagReplace flags = true := by
    cases hn : flagNoQueue flags <;> cases hr : flagReplace flags <;> cases ha : p.allowRepl <;> simp_all
  have ha : p.allowRepl = true := by
    cases hn : flagNoQueue flags <;> cases hr : flagReplace flags <;> cases ha : p.allowRepl <;> simp_all
  have hcp : ((mkOwner c flags).conn == p.conn) = false := by
    simp only [mkOwner]; cases h : (c == p.conn) with
    | false => rfl
    | true => rw [beq_iff_eq] at h; rw [h] at hpc; simp at hpc
  simp only [qAcquire, hpc, h1, h2, Bool.false_eq_true, if_false, qAdd, inQueue_cons hpc, hr, if_true]
  cases hm : member rest c <;> cases hpn : p.noQueue <;>
    simp [insertSecond, hne, qRemove, qSwap, ha]


structure QInv (os : List Owner) : Prop where
  nodup : (os.map (·.conn)).Nodup
  tail_queueable : ∀ o ∈ os.tail, o.noQueue = false

theorem qinv_nil : QInv [] := ⟨List.nodup_nil, by simp⟩

def QueueJump (os : List Owner) (c : Nat) (flags : Nat) : Prop :=
  ∃ p rest, os = p :: rest ∧ p.conn ≠ c ∧ flagReplace flags = true ∧ flagNoQueue flags = false ∧
    p.allowRepl = false

theorem qAcquire_queue_eq_spec (os : List Owner) (c flags : Nat) (hi : QInv os)
    (hj : ¬ QueueJump os c flags) :
    (qAcquire os c flags).1 = requestName os c (flagAllow flags) (flagReplace flags) (flagNoQueue flags) := by
  cases os with
  | nil => simp [qAcquire, qEnsure, qAdd, inQueue, requestName, place, prune, mkOwner]
  | cons p rest =>
    have hnd := hi.nodup
    simp only [List.map_cons, List.nodup_cons] at hnd
    have hq : ∀ o ∈ rest, o.noQueue = false := fun o ho => hi.tail_queueable o (by simpa using ho)
    by_cases hpc : p.conn = c
    · simp [qAcquire, hpc, requestName, place, prune, mkOwner, filter_queueable hq]
    · have hpc' : (p.conn == c) = false := by simpa using hpc
      by_cases h1 : (flagNoQueue flags && (!p.allowRepl || !flagReplace flags)) = true
      · have hn : flagNoQueue flags = true := by
          cases hn : flagNoQueue flags <;> simp_all
        have hnr : (p.allowRepl && flagReplace flags) = false := by
          cases ha : p.allowRepl <;> cases hr : flagReplace flags <;> simp_all
        rw [code_exists hpc' h1]; show p :: rest.filter (·.conn != c) = _
        by_cases hm : member rest c = true
        · rw [spec_member hpc' hq hnr hm, hn]; simp
        · have hm0 : member rest c = false := by simpa using hm
          have hnm : c ∉ rest.map (·.conn) := fun h => hm (member_iff.mpr h)
          rw [spec_new hpc' hq hnr hm0, hn, filter_ne_of_not_mem hnm]; simp
      · have h1' : (flagNoQueue flags && (!p.allowRepl || !flagReplace flags)) = false := by simpa using h1
        by_cases h2 : (!flagNoQueue flags && (!flagReplace flags || !p.allowRepl)) = true
        · have hn : flagNoQueue flags = false := by
            cases hn : flagNoQueue flags <;> simp_all
          have hr : flagReplace flags = false := by
            cases hr : flagReplace flags
            · rfl
            · exfalso
              have ha : p.allowRepl = false := by
                cases ha : p.allowRepl <;> simp_all
              exact hj ⟨p, rest, rfl, hpc, hr, hn, ha⟩
          have hnr : (p.allowRepl && flagReplace flags) = false := by simp [hr]
          rw [code_queue hpc' h1' h2]; show (if member rest c then _ else _) = _
          by_cases hm : member rest c = true
          · rw [spec_member hpc' hq hnr hm, hn, hm, hr]; simp
          · have hm0 : member rest c = false := by simpa using hm
            rw [spec_new hpc' hq hnr hm0, hn, hm0, hr]; simp
        · have h2' : (!flagNoQueue flags && (!flagReplace flags || !p.allowRepl)) = false := by simpa using h2
          have har : (p.allowRepl && flagReplace flags) = true := by
            cases hn : flagNoQueue flags <;> cases hr : flagReplace flags <;> cases ha : p.allowRepl <;> simp_all
          rw [code_replace hpc' hnd.1 h1' h2', spec_replace hpc' hq har]; show mkOwner c flags :: _ = _
          by_cases hm : member rest c = true
          · rw [hm]; simp
          · have hm0 : member rest c = false := by simpa using hm
            have hnm : c ∉ rest.map (·.conn) := fun h => hm (member_iff.mpr h)
            rw [hm0, filter_ne_of_not_mem hnm]; simp


/-! ### reply codes and signals, in every case (queue jump included) -/

def sigSpec : Sig → Signal
  | .lost c => .nameLost c
  | .acquired c => .nameAcquired c
  | .changed o n => .nameOwnerChanged o n

theorem member_upd {rest : List Owner} {c : Nat} {e : Owner} (he : e.conn = c) (hm : member rest c = true) :
    member (rest.map (upd c e)) c = true := by
  rw [member_iff] at hm ⊢
  simp only [List.mem_map] at hm ⊢
  obtain ⟨x, hx, hxc⟩ := hm
  exact ⟨upd c e x, ⟨x, hx, rfl⟩, by simp [upd, hxc, he]⟩

theorem not_member_filter (rest : List Owner) (c : Nat) : member (rest.filter (·.conn != c)) c = false := by
  cases h : member (rest.filter (·.conn != c)) c
  · rfl
  · rw [member_iff] at h
    simp only [List.mem_map, List.mem_filter] at h
    obtain ⟨x, ⟨_, hx⟩, rfl⟩ := h
    simp at hx

/-- **C04, reply code.** In every case the reply code is the specification's. -/
theorem qAcquire_reply_eq_spec (os : List Owner) (c flags : Nat) (hi : QInv os) :
    (qAcquire os c flags).2.1 = requestReply os c (flagAllow flags) (flagReplace flags) (flagNoQueue flags) := by
  cases os with
  | nil => simp [qAcquire, qEnsure, qAdd, inQueue, requestReply, requestName, place, prune, primary, REPLY_PRIMARY]
  | cons p rest =>
    have hnd := hi.nodup
    simp only [List.map_cons, List.nodup_cons] at hnd
    have hq : ∀ o ∈ rest, o.noQueue = false := fun o ho => hi.tail_queueable o (by simpa using ho)
    by_cases hpc : p.conn = c
    · simp [qAcquire, hpc, requestReply, primary, REPLY_ALREADY]
    · have hpc' : (p.conn == c) = false := by simpa using hpc
      have hprim : (primary (p :: rest) == some c) = false := by simp [primary, hpc]
      simp only [requestReply, hprim, Bool.false_eq_true, if_false]
      by_cases h1 : (flagNoQueue flags && (!p.allowRepl || !flagReplace flags)) = true
      · have hn : flagNoQueue flags = true := by
          cases hn : flagNoQueue flags <;> simp_all
        have hnr : (p.allowRepl && flagReplace flags) = false := by
          cases ha : p.allowRepl <;> cases hr : flagReplace flags <;> simp_all
        rw [code_exists hpc' h1]
        by_cases hm : member rest c = true
        · rw [spec_member hpc' hq hnr hm, hn]
          have := not_member_filter rest c
          simp [primary, hpc, member, List.any_cons, hpc', REPLY_EXISTS] at this ⊢
          all_goals exact this
        · have hm0 : member rest c = false := by simpa using hm
          rw [spec_new hpc' hq hnr hm0, hn]
          simp [primary, hpc, member, List.any_cons, hpc', REPLY_EXISTS] at hm0 ⊢
          all_goals exact hm0
      · have h1' : (flagNoQueue flags && (!p.allowRepl || !flagReplace flags)) = false := by simpa using h1
        by_cases h2 : (!flagNoQueue flags && (!flagReplace flags || !p.allowRepl)) = true
        · have hn : flagNoQueue flags = false := by
            cases hn : flagNoQueue flags <;> simp_all
          have hnr : (p.allowRepl && flagReplace flags) = false := by
            cases ha : p.allowRepl <;> cases hr : flagReplace flags <;> simp_all
          rw [code_queue hpc' h1' h2]
          by_cases hm : member rest c = true
          · rw [spec_member hpc' hq hnr hm, hn]
            have := member_upd (e := mkOwner c flags) rfl hm
            simp [primary, hpc, member, List.any_cons, hpc', REPLY_IN_QUEUE] at this ⊢
            all_goals exact this
          · have hm0 : member rest c = false := by simpa using hm
            rw [spec_new hpc' hq hnr hm0, hn]
            simp [primary, hpc, member, List.any_cons, hpc', REPLY_IN_QUEUE]
        · have h2' : (!flagNoQueue flags && (!flagReplace flags || !p.allowRepl)) = false := by simpa using h2
          have har : (p.allowRepl && flagReplace flags) = true := by
            cases hn : flagNoQueue flags <;> cases hr : flagReplace flags <;> cases ha : p.allowRepl <;> simp_all
          rw [code_replace hpc' hnd.1 h1' h2', spec_replace hpc' hq har]
          simp [primary, REPLY_PRIMARY]

/-- **C04, signals.** NameLost / NameOwnerChanged / NameAcquired are exactly those a change of
    primary owner calls for, in that order, addressed to the old and the new owner. -/
theorem qAcquire_signals_eq_spec (os : List Owner) (c flags : Nat) (hi : QInv os) :
    (qAcquire os c flags).2.2.map sigSpec = signals (primary os) (primary (qAcquire os c flags).1) := by
  cases os with
  | nil => simp [qAcquire, qEnsure, qAdd, inQueue, signals, primary, sigSpec]
  | cons p rest =>
    have hnd := hi.nodup
    simp only [List.map_cons, List.nodup_cons] at hnd
    by_cases hpc : p.conn = c
    · simp [qAcquire, hpc, signals, primary]
    · have hpc' : (p.conn == c) = false := by simpa using hpc
      by_cases h1 : (flagNoQueue flags && (!p.allowRepl || !flagReplace flags)) = true
      · rw [code_exists hpc' h1]; simp [signals, primary]
      · have h1' : (flagNoQueue flags && (!p.allowRepl || !flagReplace flags)) = false := by simpa using h1
        by_cases h2 : (!flagNoQueue flags && (!flagReplace flags || !p.allowRepl)) = true
        · rw [code_queue hpc' h1' h2]
          cases member rest c <;> cases flagReplace flags <;> simp [signals, primary]
        · have h2' : (!flagNoQueue flags && (!flagReplace flags || !p.allowRepl)) = false := by simpa using h2
          rw [code_replace hpc' hnd.1 h1' h2']
          simp [signals, primary, sigSpec, hpc]


/-! ### the invariant is kept -/

theorem conns_filter_sublist (rest : List Owner) (f : Owner → Bool) :
    ((rest.filter f).map (·.conn)).Sublist (rest.map (·.conn)) :=
  List.Sublist.map _ List.filter_sublist

theorem conns_upd {rest : List Owner} {c : Nat} {e : Owner} (he : e.conn = c) :
    (rest.map (upd c e)).map (·.conn) = rest.map (·.conn) := by
  induction rest with
  | nil => rfl
  | cons x xs ih =>
    simp only [List.map_cons, ih]
    congr 1
    unfold upd
    split
    · rename_i h; rw [he]; exact (beq_iff_eq.mp h).symm
    · rfl

theorem not_mem_conns_filter {rest : List Owner} {x : Nat} {f : Owner → Bool}
    (h : x ∉ rest.map (·.conn)) : x ∉ (rest.filter f).map (·.conn) :=
  fun hx => h ((conns_filter_sublist rest f).subset hx)

theorem c_not_mem_filter (rest : List Owner) (c : Nat) : c ∉ (rest.filter (·.conn != c)).map (·.conn) := by
  intro h
  have := member_iff.mpr h
  rw [not_member_filter] at this
  cases this

theorem qinv_qAcquire (os : List Owner) (c flags : Nat) (hi : QInv os) : QInv (qAcquire os c flags).1 := by
  cases os with
  | nil =>
    refine ⟨?_, ?_⟩ <;> simp [qAcquire, qEnsure, qAdd, inQueue]
  | cons p rest =>
    have hnd := hi.nodup
    simp only [List.map_cons, List.nodup_cons] at hnd
    have hq : ∀ o ∈ rest, o.noQueue = false := fun o ho => hi.tail_queueable o (by simpa using ho)
    by_cases hpc : p.conn = c
    · have : (qAcquire (p :: rest) c flags).1 = mkOwner c flags :: rest := by simp [qAcquire, hpc]
      rw [this]
      refine ⟨?_, by simpa using hq⟩
      simp only [List.map_cons, mkOwner_conn, List.nodup_cons]
      exact ⟨hpc ▸ hnd.1, hnd.2⟩
    · have hpc' : (p.conn == c) = false := by simpa using hpc
      have hcp : c ≠ p.conn := fun h => hpc h.symm
      by_cases h1 : (flagNoQueue flags && (!p.allowRepl || !flagReplace flags)) = true
      · rw [code_exists hpc' h1]
        refine ⟨?_, ?_⟩
        · simp only [List.map_cons, List.nodup_cons]
          exact ⟨not_mem_conns_filter hnd.1, hnd.2.sublist (conns_filter_sublist _ _)⟩
        · intro o ho
          simp only [List.tail_cons] at ho
          exact hq o (List.mem_filter.mp ho).1
      · have h1' : (flagNoQueue flags && (!p.allowRepl || !flagReplace flags)) = false := by simpa using h1
        by_cases h2 : (!flagNoQueue flags && (!flagReplace flags || !p.allowRepl)) = true
        · have hn : flagNoQueue flags = false := by
            cases hn : flagNoQueue flags <;> simp_all
          rw [code_queue hpc' h1' h2]
          by_cases hm : member rest c = true
          · rw [hm]
            cases hr : flagReplace flags
            · -- updated in place
              refine ⟨?_, ?_⟩
              · simp only [Bool.false_eq_true, if_false, if_true, List.map_cons, conns_upd (mkOwner_conn c flags), List.nodup_cons]
                exact hnd
              · intro o ho
                simp only [Bool.false_eq_true, if_false, if_true, List.tail_cons, List.mem_map] at ho
                obtain ⟨x, hx, rfl⟩ := ho
                unfold upd; split
                · simp [hn]
                · exact hq x hx
            · -- moved to second place
              refine ⟨?_, ?_⟩
              · simp only [if_true, List.map_cons, mkOwner_conn, List.nodup_cons, List.mem_cons, not_or]
                exact ⟨⟨hpc, not_mem_conns_filter hnd.1⟩, c_not_mem_filter rest c,
                  hnd.2.sublist (conns_filter_sublist _ _)⟩
              · intro o ho
                simp only [if_true, List.tail_cons, List.mem_cons] at ho
                rcases ho with ho | ho
                · rw [ho]; simp [hn]
                · exact hq o (List.mem_filter.mp ho).1
          · have hm0 : member rest c = false := by simpa using hm
            have hnm : c ∉ rest.map (·.conn) := fun h => hm (member_iff.mpr h)
            rw [hm0]
            cases hr : flagReplace flags
            · refine ⟨?_, ?_⟩
              · simp only [Bool.false_eq_true, if_false, List.map_cons, List.map_append, List.map_nil, mkOwner_conn,
                  List.nodup_cons, List.mem_append, List.mem_singleton, not_or]
                refine ⟨⟨hnd.1, hpc⟩, ?_⟩
                rw [List.nodup_append]
                exact ⟨hnd.2, by simp, by
                  intro a ha b hb; simp at hb; subst hb; exact fun h => hnm (h ▸ ha)⟩
              · intro o ho
                simp only [Bool.false_eq_true, if_false, List.tail_cons, List.mem_append, List.mem_singleton] at ho
                rcases ho with ho | ho
                · exact hq o ho
                · rw [ho]; simp [hn]
            · refine ⟨?_, ?_⟩
              · simp only [Bool.false_eq_true, if_false, if_true, List.map_cons, mkOwner_conn, List.nodup_cons, List.mem_cons, not_or]
                exact ⟨⟨hpc, hnd.1⟩, hnm, hnd.2⟩
              · intro o ho
                simp only [Bool.false_eq_true, if_false, if_true, List.tail_cons, List.mem_cons] at ho
                rcases ho with ho | ho
                · rw [ho]; simp [hn]
                · exact hq o ho
        · have h2' : (!flagNoQueue flags && (!flagReplace flags || !p.allowRepl)) = false := by simpa using h2
          rw [code_replace hpc' hnd.1 h1' h2']
          have hrest : ∀ (l : List Owner), l = (if member rest c then rest.filter (·.conn != c) else rest) →
              c ∉ l.map (·.conn) ∧ p.conn ∉ l.map (·.conn) ∧ (l.map (·.conn)).Nodup ∧ ∀ o ∈ l, o.noQueue = false := by
            intro l hl
            by_cases hm : member rest c = true
            · rw [hm] at hl; simp only [if_true] at hl; subst hl
              exact ⟨c_not_mem_filter rest c, not_mem_conns_filter hnd.1, hnd.2.sublist (conns_filter_sublist _ _),
                fun o ho => hq o (List.mem_filter.mp ho).1⟩
            · have hm0 : member rest c = false := by simpa using hm
              rw [hm0] at hl; simp only [Bool.false_eq_true, if_false] at hl; subst hl
              exact ⟨fun h => hm (member_iff.mpr h), hnd.1, hnd.2, hq⟩
          obtain ⟨r1, r2, r3, r4⟩ := hrest _ rfl
          cases hpn : p.noQueue
          · refine ⟨?_, ?_⟩
            · simp only [Bool.false_eq_true, if_false, List.cons_append, List.nil_append, List.map_cons, mkOwner_conn,
                List.nodup_cons, List.mem_cons, not_or]
              exact ⟨⟨hcp, r1⟩, r2, r3⟩
            · intro o ho
              simp only [Bool.false_eq_true, if_false, List.cons_append, List.nil_append, List.tail_cons, List.mem_cons] at ho
              rcases ho with ho | ho
              · rw [ho]; exact hpn
              · exact r4 o ho
          · refine ⟨?_, ?_⟩
            · simp only [if_true, List.nil_append, List.map_cons, mkOwner_conn, List.nodup_cons]
              exact ⟨r1, r3⟩
            · intro o ho
              simp only [if_true, List.nil_append, List.tail_cons] at ho
              exact r4 o ho


/-! ### ReleaseName and disconnection -/

theorem qRemove_eq_spec (os : List Owner) (c : Nat) (hi : QInv os) :
    (qRemove os c).1 = releaseName os c := by
  cases os with
  | nil => rfl
  | cons p rest =>
    have hnd := hi.nodup
    simp only [List.map_cons, List.nodup_cons] at hnd
    by_cases hpc : p.conn = c
    · have hnm : c ∉ rest.map (·.conn) := hpc ▸ hnd.1
      simp [qRemove, releaseName, hpc, filter_ne_of_not_mem hnm]
    · have : (p.conn == c) = false := by simpa using hpc
      simp [qRemove, releaseName, this]

theorem qRemove_signals_eq_spec (os : List Owner) (c : Nat) (hi : QInv os) :
    (qRemove os c).2.map sigSpec = signals (primary os) (primary (qRemove os c).1) := by
  cases os with
  | nil => simp [qRemove, signals, primary]
  | cons p rest =>
    have hnd := hi.nodup
    simp only [List.map_cons, List.nodup_cons] at hnd
    by_cases hpc : p.conn = c
    · cases rest with
      | nil => simp [qRemove, hpc, signals, primary, sigSpec]
      | cons q r =>
        have hqc : q.conn ≠ c := by
          intro h; apply hnd.1; rw [hpc]; simp [h]
        simp [qRemove, hpc, signals, primary, sigSpec, Ne.symm hqc]
    · have h1 : (p.conn == c) = false := by simpa using hpc
      have h2 : (p.conn != c) = true := by simp [bne, h1]
      simp [qRemove, h1, signals, primary, List.filter_cons, h2]

theorem qinv_qRemove (os : List Owner) (c : Nat) (hi : QInv os) : QInv (qRemove os c).1 := by
  rw [qRemove_eq_spec os c hi]
  refine ⟨hi.nodup.sublist (conns_filter_sublist _ _), ?_⟩
  intro o ho
  cases os with
  | nil => simp [releaseName] at ho
  | cons p rest =>
    have hq : ∀ o ∈ rest, o.noQueue = false := fun o ho => hi.tail_queueable o (by simpa using ho)
    simp only [releaseName, List.filter_cons] at ho
    split at ho
    · simp only [List.tail_cons] at ho; exact hq o (List.mem_filter.mp ho).1
    · exact hq o (List.mem_filter.mp (List.mem_of_mem_tail ho)).1

/-- **C04, ReleaseName.** Queue and reply code are the specification's. -/
theorem qRelease_eq_spec (os : List Owner) (c : Nat) (hi : QInv os) :
    (qRelease os c).1 = releaseName os c ∧ (qRelease os c).2.1 = releaseReply os c := by
  cases os with
  | nil => simp [qRelease, releaseName, releaseReply, NON_EXISTENT]
  | cons p rest =>
    by_cases hm : inQueue (p :: rest) c = true
    · have : member (p :: rest) c = true := hm
      simp only [qRelease, hm, Bool.not_true, Bool.false_eq_true, if_false, releaseReply, List.isEmpty_cons, this, if_true]
      exact ⟨qRemove_eq_spec _ c hi, rfl⟩
    · have hm0 : inQueue (p :: rest) c = false := by simpa using hm
      have hm1 : member (p :: rest) c = false := hm0
      have hnm : c ∉ (p :: rest).map (·.conn) := fun h => hm (member_iff.mpr h)
      simp only [qRelease, hm0, Bool.not_false, if_true, releaseReply, List.isEmpty_cons, hm1, Bool.false_eq_true, if_false]
      exact ⟨(filter_ne_of_not_mem hnm).symm, rfl⟩

theorem qRelease_signals_eq_spec (os : List Owner) (c : Nat) (hi : QInv os) :
    (qRelease os c).2.2.map sigSpec = signals (primary os) (primary (qRelease os c).1) := by
  cases os with
  | nil => simp [qRelease, signals, primary]
  | cons p rest =>
    by_cases hm : inQueue (p :: rest) c = true
    · simp only [qRelease, hm, Bool.not_true, Bool.false_eq_true, if_false]
      exact qRemove_signals_eq_spec _ c hi
    · have hm0 : inQueue (p :: rest) c = false := by simpa using hm
      simp [qRelease, hm0, signals]

theorem qinv_qRelease (os : List Owner) (c : Nat) (hi : QInv os) : QInv (qRelease os c).1 := by
  rw [(qRelease_eq_spec os c hi).1, ← qRemove_eq_spec os c hi]
  exact qinv_qRemove os c hi

/-! ### the queue jump (F15) -/

/-- in the queue-jump case the primary owner is still the specification's … -/
theorem queueJump_same_primary (os : List Owner) (c flags : Nat) (hi : QInv os) (hj : QueueJump os c flags) :
    primary (qAcquire os c flags).1 =
      primary (requestName os c (flagAllow flags) (flagReplace flags) (flagNoQueue flags)) := by
  obtain ⟨p, rest, rfl, hpc, hr, hn, ha⟩ := hj
  have hpc' : (p.conn == c) = false := by simpa using hpc
  have hq : ∀ o ∈ rest, o.noQueue = false := fun o ho => hi.tail_queueable o (by simpa using ho)
  have h1 : (flagNoQueue flags && (!p.allowRepl || !flagReplace flags)) = false := by simp [hn]
  have h2 : (!flagNoQueue flags && (!flagReplace flags || !p.allowRepl)) = true := by simp [hn, ha]
  have hnr : (p.allowRepl && flagReplace flags) = false := by simp [ha]
  rw [code_queue hpc' h1 h2]
  by_cases hm : member rest c = true
  · rw [spec_member hpc' hq hnr hm]; simp [primary, hm, hr]
  · have hm0 : member rest c = false := by simpa using hm
    rw [spec_new hpc' hq hnr hm0]; simp [primary, hm0, hr]

/-- … but the waiting order is not: a concrete queue on which the bus puts the caller ahead of an
    earlier waiter where the specification appends it. (1 owns without allowing replacement,
    2 waits, 3 asks with REPLACE_EXISTING.) -/
theorem queueJump_witness :
    let os : List Owner := [⟨1, false, false⟩, ⟨2, false, false⟩]
    QInv os ∧ QueueJump os 3 2 ∧
    (qAcquire os 3 2).1 = [⟨1, false, false⟩, ⟨3, false, false⟩, ⟨2, false, false⟩] ∧
    requestName os 3 (flagAllow 2) (flagReplace 2) (flagNoQueue 2) =
      [⟨1, false, false⟩, ⟨2, false, false⟩, ⟨3, false, false⟩] := by
  refine ⟨⟨by decide, by decide⟩, ⟨_, _, rfl, by decide, by decide, by decide, rfl⟩, by decide, by decide⟩

/-- the hypotheses of the main theorem are met by a non-trivial queue -/
example : QInv [⟨1, true, false⟩, ⟨2, false, false⟩] ∧ ¬ QueueJump [⟨1, true, false⟩, ⟨2, false, false⟩] 3 2 := by
  refine ⟨⟨by decide, by decide⟩, ?_⟩
  rintro ⟨p, rest, h, _, _, _, ha⟩
  simp only [List.cons.injEq] at h
  rw [← h.1] at ha
  cases ha

end Dbus.Proofs.Bus
