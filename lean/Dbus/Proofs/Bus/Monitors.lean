import Dbus.Proofs.Bus.Frame
/-
  Towards "what every other client observes is the same as if the monitor were absent" (C18).

  `shade b` is the bus `b` in which every monitor is an ordinary idle connection again: it keeps its
  place among the connections (so that every count the limits look at is the same) but is no monitor
  and has no filter.  A monitor has dropped its names and its match rules when it became one
  (`beMonitor`), so such a connection owns nothing, listens to nothing and cannot be addressed.

  Proved here: everything that decides who is sent what — the policy gate, the set of match-rule
  recipients, the capability checks — gives the same answer in `b` and in `shade b`, and hence
  routing a message, delivering to match rules and the driver's own sends produce the same ordinary
  deliveries, the same error and the same state changes (`Shadow`).  The copies for monitors live in
  `Tx.mon`, which none of these functions reads.
-/
namespace Dbus.Proofs.Bus
open Dbus Dbus.Spec Dbus.Model Dbus.Model.Bus

def neutral (x : Conn) : Conn := if x.monitor then { x with monitor := false, monitorRules := [] } else x

def shade (b : Bus) : Bus := { b with conns := b.conns.map neutral }

/-- monitors hold no ordinary match rules (`joinMonitors` dropped them) -/
def MonClean (b : Bus) : Prop := ∀ x ∈ b.conns, x.monitor = true → x.rules = []

theorem neutral_id (x : Conn) : (neutral x).id = x.id := by unfold neutral; split <;> rfl
theorem neutral_name (x : Conn) : (neutral x).name = x.name := by unfold neutral; split <;> rfl
theorem neutral_policy (x : Conn) : (neutral x).policy = x.policy := by unfold neutral; split <;> rfl
theorem neutral_canFd (x : Conn) : (neutral x).canFd = x.canFd := by unfold neutral; split <;> rfl
theorem neutral_rules (x : Conn) : (neutral x).rules = x.rules := by unfold neutral; split <;> rfl
theorem neutral_monitor (x : Conn) : (neutral x).monitor = false := by
  unfold neutral; split
  · rfl
  · rename_i h; simpa using h

theorem find?_map_neutral (l : List Conn) (c : ConnId) :
    (l.map neutral).find? (·.id == c) = (l.find? (·.id == c)).map neutral := by
  induction l with
  | nil => rfl
  | cons x xs ih =>
    simp only [List.map_cons, List.find?_cons, neutral_id x]
    cases (x.id == c) <;> simp [ih]

theorem conn?_shade (b : Bus) (c : ConnId) : (shade b).conn? c = (b.conn? c).map neutral :=
  find?_map_neutral b.conns c

theorem nameOf_shade (b : Bus) (c : ConnId) : (shade b).nameOf c = b.nameOf c := by
  unfold Bus.nameOf
  rw [conn?_shade]
  cases b.conn? c with
  | none => rfl
  | some x => simp [neutral_name]

theorem isActive_shade (b : Bus) (c : ConnId) : (shade b).isActive c = b.isActive c := by
  unfold Bus.isActive; rw [nameOf_shade]

theorem rulesOf_shade (b : Bus) (p : Option ConnId) : rulesOf (shade b) p = rulesOf b p := by
  cases p with
  | none => rfl
  | some p =>
    simp only [rulesOf, isActive_shade, conn?_shade]
    cases b.conn? p with
    | none => rfl
    | some x => simp [neutral_policy]

theorem canFdOf_shade (b : Bus) (c : ConnId) : canFdOf (shade b) c = canFdOf b c := by
  unfold canFdOf
  rw [conn?_shade]
  cases b.conn? c with
  | none => rfl
  | some x => simp [neutral_canFd]

theorem senderInactive_shade (b : Bus) (s : Option ConnId) : senderInactive (shade b) s = senderInactive b s := by
  cases s with
  | none => rfl
  | some s => simp [senderInactive, isActive_shade]

theorem sendAllowed_shade (b : Bus) (s p : Option ConnId) (v : MsgView) (r : Bool) :
    sendAllowed (shade b) s p v r = sendAllowed b s p v r := by
  unfold sendAllowed
  rw [rulesOf_shade]
  rfl

theorem recvAllowed_shade (b : Bus) (s a p : Option ConnId) (v : MsgView) (r : Bool) :
    recvAllowed (shade b) s a p v r = recvAllowed b s a p v r := by
  unfold recvAllowed
  rw [rulesOf_shade]
  rfl

theorem policyVerdict_shade (b : Bus) (s a p : Option ConnId) (m : Msg) (r : Bool) :
    policyVerdict (shade b) s a p m r = policyVerdict b s a p m r := by
  unfold policyVerdict
  rw [senderInactive_shade, sendAllowed_shade, recvAllowed_shade]
  rfl

theorem requestedReply_shade (b : Bus) (s a p : Option ConnId) (m : Msg) :
    requestedReply (shade b) s a p m = requestedReply b s a p m := by
  unfold requestedReply
  cases s with
  | none => rfl
  | some s => simp only [isActive_shade]; rfl

/-- **the gate does not see monitors** -/
theorem checkPolicy_shade (b : Bus) (s a p : Option ConnId) (m : Msg) :
    checkPolicy (shade b) s a p m = checkPolicy b s a p m := by
  unfold checkPolicy
  simp only [requestedReply_shade, policyVerdict_shade]
  rfl

/-- the match-rule recipients are the same: a monitor has no ordinary rules and is excluded anyway -/
theorem recipients_filter_shade (ctx : MatchCtx) (a : Option ConnId) : ∀ (l : List Conn), (∀ x ∈ l, x.monitor = true → x.rules = []) →
    ((l.map neutral).filter fun c => !c.monitor && some c.id != a && c.rules.any (fun r => ruleMatches r ctx)).map (·.id) =
    (l.filter fun c => !c.monitor && some c.id != a && c.rules.any (fun r => ruleMatches r ctx)).map (·.id)
  | [], _ => rfl
  | x :: xs, h => by
    have ih := recipients_filter_shade ctx a xs (fun y hy => h y (List.mem_cons_of_mem _ hy))
    simp only [List.map_cons, List.filter_cons]
    by_cases hm : x.monitor = true
    · have hr : x.rules = [] := h x List.mem_cons_self hm
      simp only [neutral_monitor, neutral_rules, neutral_id, hr, hm, List.any_nil, Bool.and_false, Bool.not_true, Bool.false_and,
        Bool.false_eq_true, if_false]
      exact ih
    · have hn : neutral x = x := by unfold neutral; simp [hm]
      rw [hn]
      by_cases hp : (!x.monitor && some x.id != a && x.rules.any fun r => ruleMatches r ctx) = true
      · simp only [hp, if_true, List.map_cons]; rw [ih]
      · simp only [hp, if_false]; exact ih

theorem recipients_shade (b : Bus) (h : MonClean b) (s a : Option ConnId) (m : Msg) :
    recipients (shade b) s a m = recipients b s a m :=
  recipients_filter_shade (matchCtx b s a m) a b.conns h

theorem stampDriver_shade (b : Bus) (to : ConnId) (m : Msg) : stampDriver (shade b) to m = stampDriver b to m := by
  unfold stampDriver
  rw [nameOf_shade]

/-- the two runs: the same ordinary output so far, and the second bus is the first one shaded -/
def Shadow (t t' : Tx) : Prop := t'.bus = shade t.bus ∧ t'.out = t.out

theorem shade_setPending (b : Bus) (p : List Pending) : shade { b with pending := p } = { shade b with pending := p } := rfl

theorem Shadow.setPending {t t' : Tx} (h : Shadow t t') (p : List Pending) : Shadow (t.setPending p) (t'.setPending p) := by
  refine ⟨?_, h.2⟩
  show ({ t'.bus with pending := p } : Bus) = shade { t.bus with pending := p }
  rw [h.1]; rfl

theorem Shadow.emit {t t' : Tx} (h : Shadow t t') (o : Out) : Shadow (t.emit o) (t'.emit o) :=
  ⟨h.1, by show t'.out ++ [o] = t.out ++ [o]; rw [h.2]⟩

theorem Shadow.capture {t t' : Tx} (h : Shadow t t') (s a s' a' : Option ConnId) (m m' : Msg) :
    Shadow (capture t s a m) (capture t' s' a' m') :=
  ⟨by rw [(capture_frame _ _ _ _).1, (capture_frame _ _ _ _).1]; exact h.1,
   by rw [(capture_frame _ _ _ _).2, (capture_frame _ _ _ _).2]; exact h.2⟩

theorem Shadow.captureError {t t' : Tx} (h : Shadow t t') (a : Option ConnId) (m : Msg) (e : Err) :
    Shadow (captureError t a m e) (captureError t' a m e) :=
  Shadow.capture h _ _ _ _ _ _

theorem shadow_sendOne {t t' : Tx} (h : Shadow t t') (s a : Option ConnId) (to : ConnId) (m : Msg) :
    Shadow (sendOne t s a to m) (sendOne t' s a to m) := by
  unfold sendOne
  rw [h.1, checkPolicy_shade, canFdOf_shade]
  rcases checkPolicy t.bus s a (some to) m with ⟨p, err⟩
  cases err with
  | some e => exact (h.setPending p).captureError _ _ _
  | none =>
    dsimp only
    split
    · exact (h.setPending p).captureError _ _ _
    · exact (h.setPending p).emit _

theorem shadow_sendAddressed {t t' : Tx} (h : Shadow t t') (s : Option ConnId) (a : ConnId) (m : Msg) :
    Shadow (sendAddressed t s a m).1 (sendAddressed t' s a m).1 ∧ (sendAddressed t' s a m).2 = (sendAddressed t s a m).2 := by
  unfold sendAddressed
  rw [h.1, checkPolicy_shade, canFdOf_shade]
  rcases checkPolicy t.bus s (some a) (some a) m with ⟨p, err⟩
  cases err with
  | some e => exact ⟨h.setPending p, rfl⟩
  | none =>
    dsimp only
    split
    · exact ⟨h.setPending p, rfl⟩
    · exact ⟨(h.setPending p).emit _, rfl⟩

theorem shadow_fold_sendOne (s a : Option ConnId) (m : Msg) : ∀ (rs : List ConnId) (t t' : Tx), Shadow t t' →
    Shadow (rs.foldl (fun t r => sendOne t s a r m) t) (rs.foldl (fun t r => sendOne t s a r m) t')
  | [], _, _, h => h
  | r :: rs, t, t', h => shadow_fold_sendOne s a m rs _ _ (shadow_sendOne h s a r m)

/-- pending replies and the ordinary output do not matter to who has a matching rule -/
theorem recipients_pending (b : Bus) (p : List Pending) (s a : Option ConnId) (m : Msg) :
    recipients { b with pending := p } s a m = recipients b s a m := rfl

theorem shadow_sendMatches {t t' : Tx} (h : Shadow t t') (hc : MonClean t.bus) (s a : Option ConnId) (m : Msg) :
    Shadow (sendMatches t s a m) (sendMatches t' s a m) := by
  unfold sendMatches
  rw [h.1, recipients_shade _ hc]
  exact shadow_fold_sendOne s a m _ _ _ h

theorem sendAddressed_conns (t : Tx) (s : Option ConnId) (a : ConnId) (m : Msg) : (sendAddressed t s a m).1.bus.conns = t.bus.conns := by
  unfold sendAddressed
  rcases checkPolicy t.bus s (some a) (some a) m with ⟨p, err⟩
  cases err with
  | some e => rfl
  | none => dsimp only; split <;> rfl

/-- **Match-rule and addressed delivery ignore monitors**: the same ordinary deliveries, the same error,
    the same changes to the pending replies, in `b` and in `b` with its monitors shaded. -/
theorem shadow_dispatchMatches {t t' : Tx} (h : Shadow t t') (hc : MonClean t.bus) (s a : Option ConnId) (m : Msg) :
    Shadow (dispatchMatches t s a m).1 (dispatchMatches t' s a m).1 ∧ (dispatchMatches t' s a m).2 = (dispatchMatches t s a m).2 := by
  unfold dispatchMatches
  cases a with
  | none => exact ⟨shadow_sendMatches h hc s none m, rfl⟩
  | some a =>
    dsimp only
    have h1 := shadow_sendAddressed h s a m
    have hcc := sendAddressed_conns t s a m
    rcases hr : sendAddressed t s a m with ⟨t1, e⟩
    rcases hr' : sendAddressed t' s a m with ⟨t1', e'⟩
    rw [hr, hr'] at h1
    rw [hr] at hcc
    obtain ⟨hs, he⟩ := h1
    dsimp only at hs he hcc
    subst he
    cases e' with
    | some e => exact ⟨hs, rfl⟩
    | none =>
      refine ⟨shadow_sendMatches hs ?_ s (some a) m, rfl⟩
      intro x hx; exact hc x (by rw [← hcc]; exact hx)

theorem primary?_shade (b : Bus) (n : Bytes) : (shade b).primary? n = b.primary? n := rfl

/-- **Routing a message ignores monitors.** -/
theorem shadow_route {t t' : Tx} (h : Shadow t t') (hc : MonClean t.bus) (c : ConnId) (m : Msg) :
    Shadow (route t c m).1 (route t' c m).1 ∧ (route t' c m).2 = (route t c m).2 := by
  unfold route
  rw [h.1, ]
  cases m.dest with
  | none =>
    dsimp only
    exact shadow_dispatchMatches (Shadow.capture h _ _ _ _ _ _) (by rw [(capture_frame _ _ _ _).1]; exact hc) _ _ _
  | some d =>
    dsimp only
    rw [primary?_shade]
    cases t.bus.primary? d with
    | none => exact ⟨Shadow.capture h _ _ _ _ _ _, rfl⟩
    | some a =>
      dsimp only
      exact shadow_dispatchMatches (Shadow.capture h _ _ _ _ _ _) (by rw [(capture_frame _ _ _ _).1]; exact hc) _ _ _

theorem shadow_sendStamped {t t' : Tx} (h : Shadow t t') (to : ConnId) (m : Msg) :
    Shadow (sendStamped t to m) (sendStamped t' to m) := by
  unfold sendStamped
  rw [h.1, checkPolicy_shade]
  rcases checkPolicy t.bus none (some to) (some to) m with ⟨p, err⟩
  cases err with
  | some e => exact (h.setPending p).captureError _ _ _
  | none => exact (h.setPending p).emit _

/-- **What the bus itself sends (replies, errors, NameAcquired/NameLost) ignores monitors.** -/
theorem shadow_sendFromDriver {t t' : Tx} (h : Shadow t t') (to : ConnId) (m : Msg) :
    Shadow (sendFromDriver t to m) (sendFromDriver t' to m) := by
  unfold sendFromDriver
  rw [h.1, stampDriver_shade]
  exact shadow_sendStamped (Shadow.capture h _ _ _ _ _ _) to _

end Dbus.Proofs.Bus
