import Dbus.Proofs.Bus.Limits
/-
  Towards "what every other client observes is the same as if the monitor were absent" (C18).

  `shade k b` is the bus `b` in which every monitor is an ordinary idle connection again: it keeps its
  place among the connections (so that every count the limits look at is the same) but is no monitor
  and has no filter.  A monitor has dropped its names and its match rules when it became one
  (`beMonitor`), so such a connection owns nothing, listens to nothing and cannot be addressed.

  Proved here: everything that decides who is sent what — the policy gate, the set of match-rule
  recipients, the capability checks — gives the same answer in `b` and in `shade k b`, and hence
  routing a message, delivering to match rules and the driver's own sends produce the same ordinary
  deliveries, the same error and the same state changes (`Shadow`).  The copies for monitors live in
  `Tx.mon`, which none of these functions reads.
-/
namespace Dbus.Proofs.Bus
open Dbus Dbus.Spec Dbus.Model Dbus.Model.Bus

variable {k : Option ConnId}

/-- `k`: a connection exempt from shading (the actor of the dispatch under study, who may turn into a monitor in its course) -/
def neutral (k : Option ConnId) (x : Conn) : Conn :=
  if x.monitor && some x.id != k then { x with monitor := false, rules := [] } else x

def shade (k : Option ConnId) (b : Bus) : Bus := { b with conns := b.conns.map (neutral k) }

/-- monitors hold no ordinary match rules (`joinMonitors` dropped them) -/
def MonClean (b : Bus) : Prop := ∀ x ∈ b.conns, x.monitor = true → x.rules = []

theorem neutral_id (x : Conn) : (neutral k x).id = x.id := by unfold neutral; split <;> rfl
theorem neutral_name (x : Conn) : (neutral k x).name = x.name := by unfold neutral; split <;> rfl
theorem neutral_policy (x : Conn) : (neutral k x).policy = x.policy := by unfold neutral; split <;> rfl
theorem neutral_canFd (x : Conn) : (neutral k x).canFd = x.canFd := by unfold neutral; split <;> rfl
theorem neutral_monitorRules (x : Conn) : (neutral k x).monitorRules = x.monitorRules := by unfold neutral; split <;> rfl
theorem neutral_of_not_monitor {x : Conn} (h : x.monitor = false) : neutral k x = x := by unfold neutral; simp [h]
/-- is this connection turned into an idle one? -/
def shaded (k : Option ConnId) (x : Conn) : Bool := x.monitor && some x.id != k
theorem neutral_of_shaded {x : Conn} (h : shaded k x = true) : neutral k x = { x with monitor := false, rules := [] } := by
  unfold shaded at h; unfold neutral; simp only [h, if_true]
theorem neutral_of_not_shaded {x : Conn} (h : shaded k x = false) : neutral k x = x := by
  unfold shaded at h; unfold neutral; simp only [h, Bool.false_eq_true, if_false]
theorem neutral_self {x : Conn} {c : ConnId} (h : x.id = c) : neutral (some c) x = x := by
  apply neutral_of_not_shaded; unfold shaded; simp [h]
theorem neutral_monitor_none (x : Conn) : (neutral none x).monitor = false := by
  cases h : shaded none x with
  | true => rw [neutral_of_shaded h]
  | false =>
    rw [neutral_of_not_shaded h]
    unfold shaded at h
    simpa using h

theorem find?_map_neutral (l : List Conn) (c : ConnId) :
    (l.map (neutral k)).find? (·.id == c) = (l.find? (·.id == c)).map (neutral k) := by
  induction l with
  | nil => rfl
  | cons x xs ih =>
    simp only [List.map_cons, List.find?_cons, neutral_id x]
    cases (x.id == c) <;> simp [ih]

theorem conn?_shade (b : Bus) (c : ConnId) : (shade k b).conn? c = (b.conn? c).map (neutral k) :=
  find?_map_neutral b.conns c

theorem nameOf_shade (b : Bus) (c : ConnId) : (shade k b).nameOf c = b.nameOf c := by
  unfold Bus.nameOf
  rw [conn?_shade]
  cases b.conn? c with
  | none => rfl
  | some x => simp [neutral_name]

theorem isActive_shade (b : Bus) (c : ConnId) : (shade k b).isActive c = b.isActive c := by
  unfold Bus.isActive; rw [nameOf_shade]

theorem rulesOf_shade (b : Bus) (p : Option ConnId) : rulesOf (shade k b) p = rulesOf b p := by
  cases p with
  | none => rfl
  | some p =>
    simp only [rulesOf, isActive_shade, conn?_shade]
    cases b.conn? p with
    | none => rfl
    | some x => simp [neutral_policy]

theorem canFdOf_shade (b : Bus) (c : ConnId) : canFdOf (shade k b) c = canFdOf b c := by
  unfold canFdOf
  rw [conn?_shade]
  cases b.conn? c with
  | none => rfl
  | some x => simp [neutral_canFd]

theorem senderInactive_shade (b : Bus) (s : Option ConnId) : senderInactive (shade k b) s = senderInactive b s := by
  cases s with
  | none => rfl
  | some s => simp [senderInactive, isActive_shade]

theorem sendAllowed_shade (b : Bus) (s p : Option ConnId) (v : MsgView) (r : Bool) :
    sendAllowed (shade k b) s p v r = sendAllowed b s p v r := by
  unfold sendAllowed
  rw [rulesOf_shade]
  rfl

theorem recvAllowed_shade (b : Bus) (s a p : Option ConnId) (v : MsgView) (r : Bool) :
    recvAllowed (shade k b) s a p v r = recvAllowed b s a p v r := by
  unfold recvAllowed
  rw [rulesOf_shade]
  rfl

theorem policyVerdict_shade (b : Bus) (s a p : Option ConnId) (m : Msg) (r : Bool) :
    policyVerdict (shade k b) s a p m r = policyVerdict b s a p m r := by
  unfold policyVerdict
  rw [senderInactive_shade, sendAllowed_shade, recvAllowed_shade]
  rfl

theorem requestedReply_shade (b : Bus) (s a p : Option ConnId) (m : Msg) :
    requestedReply (shade k b) s a p m = requestedReply b s a p m := by
  unfold requestedReply
  cases s with
  | none => rfl
  | some s => simp only [isActive_shade]; rfl

/-- **the gate does not see monitors** -/
theorem checkPolicy_shade (b : Bus) (s a p : Option ConnId) (m : Msg) :
    checkPolicy (shade k b) s a p m = checkPolicy b s a p m := by
  unfold checkPolicy
  simp only [requestedReply_shade, policyVerdict_shade]
  rfl

/-- the match-rule recipients are the same: a monitor is excluded, and so is the rule-less connection it is shaded into -/
theorem recipients_filter_shade (ctx : MatchCtx) (a : Option ConnId) : ∀ (l : List Conn),
    ((l.map (neutral k)).filter fun c => !c.monitor && some c.id != a && c.rules.any (fun r => ruleMatches r ctx)).map (·.id) =
    (l.filter fun c => !c.monitor && some c.id != a && c.rules.any (fun r => ruleMatches r ctx)).map (·.id)
  | [] => rfl
  | x :: xs => by
    have ih := recipients_filter_shade ctx a xs
    simp only [List.map_cons, List.filter_cons]
    cases hm : shaded k x with
    | true =>
      have hmon : x.monitor = true := by unfold shaded at hm; simp only [Bool.and_eq_true] at hm; exact hm.1
      rw [neutral_of_shaded hm]
      simp only [hmon, List.any_nil, Bool.and_false, Bool.not_true, Bool.false_and, Bool.false_eq_true, if_false, Bool.not_false, Bool.true_and]
      exact ih
    | false =>
      rw [neutral_of_not_shaded hm]
      by_cases hp : (!x.monitor && some x.id != a && x.rules.any fun r => ruleMatches r ctx) = true
      · simp only [hp, if_true, List.map_cons]; rw [ih]
      · simp only [hp, if_false]; exact ih

theorem recipients_shade (b : Bus) (s a : Option ConnId) (m : Msg) :
    recipients (shade k b) s a m = recipients b s a m :=
  recipients_filter_shade (matchCtx b s a m) a b.conns

theorem stampDriver_shade (b : Bus) (to : ConnId) (m : Msg) : stampDriver (shade k b) to m = stampDriver b to m := by
  unfold stampDriver
  rw [nameOf_shade]

/-- the two runs: the same ordinary output so far, and the second bus is the first one shaded -/
def Shadow (k : Option ConnId) (t t' : Tx) : Prop := t'.bus = shade k t.bus ∧ t'.out = t.out

theorem shade_setPending (b : Bus) (p : List Pending) : shade k { b with pending := p } = { shade k b with pending := p } := rfl

theorem Shadow.setPending {t t' : Tx} (h : Shadow k t t') (p : List Pending) : Shadow k (t.setPending p) (t'.setPending p) := by
  refine ⟨?_, h.2⟩
  show ({ t'.bus with pending := p } : Bus) = shade k { t.bus with pending := p }
  rw [h.1]; rfl

theorem Shadow.emit {t t' : Tx} (h : Shadow k t t') (o : Out) : Shadow k (t.emit o) (t'.emit o) :=
  ⟨h.1, by show t'.out ++ [o] = t.out ++ [o]; rw [h.2]⟩

theorem Shadow.capture {t t' : Tx} (h : Shadow k t t') (s a s' a' : Option ConnId) (m m' : Msg) :
    Shadow k (capture t s a m) (capture t' s' a' m') :=
  ⟨by rw [(capture_frame _ _ _ _).1, (capture_frame _ _ _ _).1]; exact h.1,
   by rw [(capture_frame _ _ _ _).2, (capture_frame _ _ _ _).2]; exact h.2⟩

theorem Shadow.captureError {t t' : Tx} (h : Shadow k t t') (a : Option ConnId) (m : Msg) (e : Err) :
    Shadow k (captureError t a m e) (captureError t' a m e) :=
  Shadow.capture h _ _ _ _ _ _

theorem shadow_sendOne {t t' : Tx} (h : Shadow k t t') (s a : Option ConnId) (to : ConnId) (m : Msg) :
    Shadow k (sendOne t s a to m) (sendOne t' s a to m) := by
  unfold sendOne
  rw [h.1, checkPolicy_shade, canFdOf_shade]
  rcases checkPolicy t.bus s a (some to) m with ⟨p, err⟩
  cases err with
  | some e => exact (h.setPending p).captureError _ _ _
  | none =>
    dsimp only
    split
    · exact (h.setPending p).captureError _ _ _
    · exact (h.setPending p).emit _

theorem shadow_sendAddressed {t t' : Tx} (h : Shadow k t t') (s : Option ConnId) (a : ConnId) (m : Msg) :
    Shadow k (sendAddressed t s a m).1 (sendAddressed t' s a m).1 ∧ (sendAddressed t' s a m).2 = (sendAddressed t s a m).2 := by
  unfold sendAddressed
  rw [h.1, checkPolicy_shade, canFdOf_shade]
  rcases checkPolicy t.bus s (some a) (some a) m with ⟨p, err⟩
  cases err with
  | some e => exact ⟨h.setPending p, rfl⟩
  | none =>
    dsimp only
    split
    · exact ⟨h.setPending p, rfl⟩
    · exact ⟨(h.setPending p).emit _, rfl⟩

theorem shadow_fold_sendOne (s a : Option ConnId) (m : Msg) : ∀ (rs : List ConnId) (t t' : Tx), Shadow k t t' →
    Shadow k (rs.foldl (fun t r => sendOne t s a r m) t) (rs.foldl (fun t r => sendOne t s a r m) t')
  | [], _, _, h => h
  | r :: rs, t, t', h => shadow_fold_sendOne s a m rs _ _ (shadow_sendOne h s a r m)

/-- pending replies and the ordinary output do not matter to who has a matching rule -/
theorem recipients_pending (b : Bus) (p : List Pending) (s a : Option ConnId) (m : Msg) :
    recipients { b with pending := p } s a m = recipients b s a m := rfl

theorem shadow_sendMatches {t t' : Tx} (h : Shadow k t t') (s a : Option ConnId) (m : Msg) :
    Shadow k (sendMatches t s a m) (sendMatches t' s a m) := by
  unfold sendMatches
  rw [h.1, recipients_shade]
  exact shadow_fold_sendOne s a m _ _ _ h

theorem sendAddressed_conns (t : Tx) (s : Option ConnId) (a : ConnId) (m : Msg) : (sendAddressed t s a m).1.bus.conns = t.bus.conns := by
  unfold sendAddressed
  rcases checkPolicy t.bus s (some a) (some a) m with ⟨p, err⟩
  cases err with
  | some e => rfl
  | none => dsimp only; split <;> rfl

/-- **Match-rule and addressed delivery ignore monitors**: the same ordinary deliveries, the same error,
    the same changes to the pending replies, in `b` and in `b` with its monitors shaded. -/
theorem shadow_dispatchMatches {t t' : Tx} (h : Shadow k t t') (s a : Option ConnId) (m : Msg) :
    Shadow k (dispatchMatches t s a m).1 (dispatchMatches t' s a m).1 ∧ (dispatchMatches t' s a m).2 = (dispatchMatches t s a m).2 := by
  unfold dispatchMatches
  cases a with
  | none => exact ⟨shadow_sendMatches h s none m, rfl⟩
  | some a =>
    dsimp only
    have h1 := shadow_sendAddressed h s a m
    rcases hr : sendAddressed t s a m with ⟨t1, e⟩
    rcases hr' : sendAddressed t' s a m with ⟨t1', e'⟩
    rw [hr, hr'] at h1
    obtain ⟨hs, he⟩ := h1
    dsimp only at hs he
    subst he
    cases e' with
    | some e => exact ⟨hs, rfl⟩
    | none =>
      exact ⟨shadow_sendMatches hs s (some a) m, rfl⟩

theorem primary?_shade (b : Bus) (n : Bytes) : (shade k b).primary? n = b.primary? n := rfl

/-- **Routing a message ignores monitors.** -/
theorem shadow_route {t t' : Tx} (h : Shadow k t t') (c : ConnId) (m : Msg) :
    Shadow k (route t c m).1 (route t' c m).1 ∧ (route t' c m).2 = (route t c m).2 := by
  unfold route
  rw [h.1, ]
  cases m.dest with
  | none =>
    dsimp only
    exact shadow_dispatchMatches (Shadow.capture h _ _ _ _ _ _) _ _ _
  | some d =>
    dsimp only
    rw [primary?_shade]
    cases t.bus.primary? d with
    | none => exact ⟨Shadow.capture h _ _ _ _ _ _, rfl⟩
    | some a =>
      dsimp only
      exact shadow_dispatchMatches (Shadow.capture h _ _ _ _ _ _) _ _ _

theorem shadow_sendStamped {t t' : Tx} (h : Shadow k t t') (to : ConnId) (m : Msg) :
    Shadow k (sendStamped t to m) (sendStamped t' to m) := by
  unfold sendStamped
  rw [h.1, checkPolicy_shade]
  rcases checkPolicy t.bus none (some to) (some to) m with ⟨p, err⟩
  cases err with
  | some e => exact (h.setPending p).captureError _ _ _
  | none => exact (h.setPending p).emit _

/-- **What the bus itself sends (replies, errors, NameAcquired/NameLost) ignores monitors.** -/
theorem shadow_sendFromDriver {t t' : Tx} (h : Shadow k t t') (to : ConnId) (m : Msg) :
    Shadow k (sendFromDriver t to m) (sendFromDriver t' to m) := by
  unfold sendFromDriver
  rw [h.1, stampDriver_shade]
  exact shadow_sendStamped (Shadow.capture h _ _ _ _ _ _) to _

/-! ### towards a whole step: the weaker relation, and writes that commute with `shade k` -/

theorem neutral_idem (x : Conn) : neutral k (neutral k x) = neutral k x := by
  cases h : shaded k x with
  | true =>
    rw [neutral_of_shaded h]
    apply neutral_of_not_shaded
    unfold shaded; rfl
  | false => rw [neutral_of_not_shaded h, neutral_of_not_shaded h]

theorem shade_idem (b : Bus) : shade k (shade k b) = shade k b := by
  unfold shade
  simp only [List.map_map]
  congr 1
  apply List.map_congr_left
  intro x _
  exact neutral_idem x

/-- the two runs agree once their monitors are shaded -/
def Sim (k : Option ConnId) (t t' : Tx) : Prop := shade k t'.bus = shade k t.bus ∧ t'.out = t.out

theorem Sim.refl (t : Tx) : Sim k t t := ⟨rfl, rfl⟩
theorem Sim.symm {t t' : Tx} (h : Sim k t t') : Sim k t' t := ⟨h.1.symm, h.2.symm⟩
theorem Sim.trans {a b c : Tx} (h1 : Sim k a b) (h2 : Sim k b c) : Sim k a c := ⟨h2.1.trans h1.1, h2.2.trans h1.2⟩

theorem Shadow.sim {t t' : Tx} (h : Shadow k t t') : Sim k t t' := ⟨by rw [h.1, shade_idem], h.2⟩

/-- every function that respects `Shadow` respects `Sim`: both runs are shadowed by the same shaded run -/
theorem sim_of_shadow (f : Tx → Tx) (hf : ∀ t t', Shadow k t t' → Shadow k (f t) (f t')) {t t' : Tx} (h : Sim k t t') :
    Sim k (f t) (f t') := by
  have h1 : Shadow k t ({ bus := shade k t.bus, out := t.out } : Tx) := ⟨rfl, rfl⟩
  have h2 : Shadow k t' ({ bus := shade k t.bus, out := t.out } : Tx) := ⟨h.1.symm, h.2.symm⟩
  have r1 := hf _ _ h1
  have r2 := hf _ _ h2
  exact ⟨by rw [← r2.1, ← r1.1], by rw [← r2.2, ← r1.2]⟩

/-- a per-connection update that does not look at, or touch, the monitor fields -/
def Blind (k : Option ConnId) (g : Conn → Conn) : Prop := ∀ x, neutral k (g x) = g (neutral k x)

theorem blind_of_fields (g : Conn → Conn) (h1 : ∀ x, (g x).monitor = x.monitor) (h2 : ∀ x, (g x).id = x.id)
    (h3 : ∀ x, g { x with monitor := false, rules := [] } = { g x with monitor := false, rules := [] }) : Blind k g := by
  intro x
  have hs : shaded k (g x) = shaded k x := by unfold shaded; rw [h1, h2]
  cases h : shaded k x with
  | true => rw [neutral_of_shaded h, neutral_of_shaded (hs.trans h), h3]
  | false => rw [neutral_of_not_shaded h, neutral_of_not_shaded (hs.trans h)]

theorem updConn_shade (b : Bus) (c : ConnId) (g : Conn → Conn) (hg : Blind k g) :
    (shade k b).updConn c g = shade k (b.updConn c g) := by
  unfold Bus.updConn shade
  simp only [List.map_map]
  congr 1
  apply List.map_congr_left
  intro x _
  simp only [Function.comp, neutral_id]
  split
  · exact (hg x).symm
  · rfl

/-- a per-connection update applied to a connection that is no monitor commutes with shading whatever it does to the rules -/
theorem updConn_shade_at (b : Bus) (c : ConnId) (g : Conn → Conn) (hg : ∀ x ∈ b.conns, x.id = c → neutral k (g x) = g (neutral k x)) :
    (shade k b).updConn c g = shade k (b.updConn c g) := by
  unfold Bus.updConn shade
  simp only [List.map_map]
  congr 1
  apply List.map_congr_left
  intro x hx
  simp only [Function.comp, neutral_id]
  split
  · rename_i h; exact (hg x hx (by simpa using h)).symm
  · rfl

/-- the actor of a dispatch: no monitor (a monitor that sends is dropped before anything else happens) -/
def Actor (b : Bus) (c : ConnId) : Prop := ∀ x ∈ b.conns, x.id = c → x.monitor = false

theorem updRules_shade (b : Bus) (c : ConnId) (g : List MatchRule → List MatchRule) (ha : Actor b c) :
    (shade k b).updRules c g = shade k (b.updRules c g) := by
  apply updConn_shade_at
  intro x hx hid
  have hm := ha x hx hid
  rw [neutral_of_not_monitor hm]
  exact neutral_of_not_monitor (by simpa using hm)

theorem setOwners_shade (b : Bus) (n : Bytes) (os : List Owner) : (shade k b).setOwners n os = shade k (b.setOwners n os) := by
  unfold Bus.setOwners
  show (if os.isEmpty = true then _ else if (b.services.any fun x => x.name == n) = true then _ else _) = _
  by_cases h1 : os.isEmpty = true
  · simp only [h1, if_true]; rfl
  · simp only [h1, if_false]
    by_cases h2 : (b.services.any fun x => x.name == n) = true
    · simp only [h2, if_true]; rfl
    · simp only [h2, if_false]; rfl

theorem syncOwned_shade (b : Bus) (n : Bytes) (os os' : List Owner) : syncOwned (shade k b) n os os' = shade k (syncOwned b n os os') := by
  unfold syncOwned shade
  simp only [List.map_map]
  congr 1
  apply List.map_congr_left
  intro x _
  simp only [Function.comp, neutral_id]
  cases h : shaded k x with
  | true =>
    rw [neutral_of_shaded h]
    have h' : ∀ l, shaded k ({ x with owned := l } : Conn) = true := fun _ => h
    split
    · rw [neutral_of_shaded (h' _)]
    · split
      · rw [neutral_of_shaded (h' _)]
      · rw [neutral_of_shaded h]
  | false =>
    rw [neutral_of_not_shaded h]
    have h' : ∀ l, shaded k ({ x with owned := l } : Conn) = false := fun _ => h
    split
    · rw [neutral_of_not_shaded (h' _)]
    · split
      · rw [neutral_of_not_shaded (h' _)]
      · rw [neutral_of_not_shaded h]

theorem ownersOf_shade (b : Bus) (n : Bytes) : ownersOf (shade k b) n = ownersOf b n := rfl

theorem removeConn_shade (c : ConnId) (b : Bus) : removeConn c (shade k b) = shade k (removeConn c b) := by
  unfold removeConn shade
  simp only
  congr 1
  induction b.conns with
  | nil => rfl
  | cons x xs ih =>
    simp only [List.map_cons, List.filter_cons, neutral_id]
    split
    · simp only [List.map_cons]; rw [ih]
    · exact ih

/-! ### the registry: signals, queue edits -/

theorem neutral_owned (x : Conn) : (neutral k x).owned = x.owned := by unfold neutral; split <;> rfl
theorem neutral_uid (x : Conn) : (neutral k x).uid = x.uid := by unfold neutral; split <;> rfl

theorem uniqueOrEmpty_shade (b : Bus) (c : ConnId) : (shade k b).uniqueOrEmpty c = b.uniqueOrEmpty c := by
  unfold Bus.uniqueOrEmpty; rw [nameOf_shade]

theorem connName_shade (b : Bus) (c : Option ConnId) : connName (shade k b) c = connName b c := by
  cases c with
  | none => rfl
  | some c => exact uniqueOrEmpty_shade b c

theorem connPolicy_shade (b : Bus) (c : ConnId) : connPolicy (shade k b) c = connPolicy b c := by
  unfold connPolicy; rw [conn?_shade]
  cases b.conn? c with
  | none => rfl
  | some x => simp [neutral_policy]

theorem nOwned_shade (b : Bus) (c : ConnId) : nOwned (shade k b) c = nOwned b c := by
  unfold nOwned; rw [conn?_shade]
  cases b.conn? c with
  | none => rfl
  | some x => simp [neutral_owned]

theorem shadow_sigOwnerChanged {t t' : Tx} (h : Shadow k t t') (n o w : Bytes) :
    Shadow k (sigOwnerChanged t n o w) (sigOwnerChanged t' n o w) := by
  unfold sigOwnerChanged
  exact (shadow_dispatchMatches (Shadow.capture h _ _ _ _ _ _) none none _).1

theorem shadow_emitSig {t t' : Tx} (h : Shadow k t t') (n : Bytes) (s : Sig) :
    Shadow k (emitSig n t s) (emitSig n t' s) := by
  cases s with
  | lost c => exact shadow_sendFromDriver h c _
  | acquired c => exact shadow_sendFromDriver h c _
  | changed o w =>
    show Shadow k (sigOwnerChanged t n (connName t.bus o) (connName t.bus w)) (sigOwnerChanged t' n (connName t'.bus o) (connName t'.bus w))
    rw [h.1, connName_shade, connName_shade]
    exact shadow_sigOwnerChanged h n _ _

theorem shadow_emitSigs (n : Bytes) : ∀ (sigs : List Sig) {t t' : Tx}, Shadow k t t' →
    Shadow k (sigs.foldl (emitSig n) t) (sigs.foldl (emitSig n) t')
  | [], _, _, h => h
  | s :: sigs, t, t', h => by
    simp only [List.foldl_cons]
    exact shadow_emitSigs n sigs (shadow_emitSig h n s)

theorem shadow_applyQueue {t t' : Tx} (h : Shadow k t t') (n : Bytes) (os' : List Owner) (sigs : List Sig) :
    Shadow k (applyQueue t n os' sigs) (applyQueue t' n os' sigs) := by
  unfold applyQueue
  have hs := shadow_emitSigs n sigs h
  refine ⟨?_, hs.2⟩
  show syncOwned ((sigs.foldl (emitSig n) t').bus.setOwners n os') n (ownersOf t'.bus n) os' =
    shade k (syncOwned ((sigs.foldl (emitSig n) t).bus.setOwners n os') n (ownersOf t.bus n) os')
  rw [hs.1, h.1, setOwners_shade, syncOwned_shade]
  rfl

theorem shadow_acquire {t t' : Tx} (h : Shadow k t t') (c : ConnId) (n : Bytes) (flags : Nat) :
    Shadow k (acquire t c n flags).1 (acquire t' c n flags).1 ∧ (acquire t' c n flags).2 = (acquire t c n flags).2 := by
  unfold acquire
  rw [h.1, connPolicy_shade, nOwned_shade]
  by_cases g1 : (!validateBusName n) = true
  · simp only [g1, if_true]; first | exact ⟨h, rfl⟩ | exact ⟨h, trivial⟩
  simp only [g1, if_false]
  by_cases g2 : (n.head? == some 0x3a) = true
  · simp only [g2, if_true]; first | exact ⟨h, rfl⟩ | exact ⟨h, trivial⟩
  simp only [g2, if_false]
  by_cases g3 : (n == BUS_NAME) = true
  · simp only [g3, if_true]; first | exact ⟨h, rfl⟩ | exact ⟨h, trivial⟩
  simp only [g3, if_false]
  by_cases g4 : (!canOwn (connPolicy t.bus c) n) = true
  · simp only [g4, if_true]; first | exact ⟨h, rfl⟩ | exact ⟨h, trivial⟩
  simp only [g4, if_false]
  by_cases g5 : nOwned t.bus c ≥ t.bus.limits.maxNames
  · have g5' : nOwned t.bus c ≥ (shade k t.bus).limits.maxNames := g5
    simp only [g5, g5', if_true]; first | exact ⟨h, rfl⟩ | exact ⟨h, trivial⟩
  have g5' : ¬ nOwned t.bus c ≥ (shade k t.bus).limits.maxNames := g5
  simp only [g5, g5', if_false]
  first | exact ⟨shadow_applyQueue h n _ _, rfl⟩ | exact ⟨shadow_applyQueue h n _ _, trivial⟩

theorem shadow_release {t t' : Tx} (h : Shadow k t t') (c : ConnId) (n : Bytes) :
    Shadow k (release t c n).1 (release t' c n).1 ∧ (release t' c n).2 = (release t c n).2 := by
  unfold release
  rw [h.1]
  by_cases g1 : (!validateBusName n) = true
  · simp only [g1, if_true]; first | exact ⟨h, rfl⟩ | exact ⟨h, trivial⟩
  simp only [g1, if_false]
  by_cases g2 : (n.head? == some 0x3a) = true
  · simp only [g2, if_true]; first | exact ⟨h, rfl⟩ | exact ⟨h, trivial⟩
  simp only [g2, if_false]
  by_cases g3 : (n == BUS_NAME) = true
  · simp only [g3, if_true]; first | exact ⟨h, rfl⟩ | exact ⟨h, trivial⟩
  simp only [g3, if_false]
  first | exact ⟨shadow_applyQueue h n _ _, rfl⟩ | exact ⟨shadow_applyQueue h n _ _, trivial⟩

theorem shadow_removeOwner {t t' : Tx} (h : Shadow k t t') (n : Bytes) (c : ConnId) :
    Shadow k (removeOwner t n c) (removeOwner t' n c) := by
  unfold removeOwner
  rw [h.1]
  exact shadow_applyQueue h n _ _

theorem shadow_ensureService {t t' : Tx} (h : Shadow k t t') (n : Bytes) (c : ConnId) (flags : Nat) :
    Shadow k (ensureService t n c flags) (ensureService t' n c flags) :=
  shadow_applyQueue h n _ _

theorem shadow_reply {t t' : Tx} (h : Shadow k t t') (c : ConnId) (call : Msg) (tys : List Ty) (body : List Val) :
    Shadow k (reply t c call tys body) (reply t' c call tys body) := shadow_sendFromDriver h c _

/-! ### one whole dispatch of a message that is not addressed to the bus driver -/

theorem senderNameOf_shade (b : Bus) (c : ConnId) : senderNameOf (shade k b) c = senderNameOf b c := by
  unfold senderNameOf; rw [nameOf_shade]

theorem shadow_finish {t t' : Tx} (h : Shadow k t t') (e : Option Err) (c : ConnId) (m : Msg) :
    Shadow k (finish (t, e) c m) (finish (t', e) c m) := by
  cases e with
  | none => exact h
  | some e => exact shadow_sendFromDriver h c _

/-- **Peer traffic ignores monitors, for a whole step.** A message from a registered connection that is
    not a monitor, addressed to a peer or to nobody (a broadcast) — everything but calls to the bus
    driver itself — is dispatched with the same ordinary deliveries, the same error reply and the same
    state changes whether the monitors are monitors or idle ordinary connections. -/
theorem dispatch_peer_traffic_shade (tbl : List IfaceRow) (b : Bus) (c : ConnId) (x : Conn) (m0 : Msg)
    (hx : b.conn? c = some x) (hmon : x.monitor = false) (hname : x.name.isSome = true)
    (hdest : ((strip m0).setSender (senderNameOf b c)).dest ≠ some BUS_NAME) :
    (dispatch tbl (shade k b) c m0).out = (dispatch tbl b c m0).out ∧
    (dispatch tbl (shade k b) c m0).bus = shade k (dispatch tbl b c m0).bus := by
  have hn : neutral k x = x := by unfold neutral; simp [hmon]
  have hx' : (shade k b).conn? c = some x := by rw [conn?_shade, hx]; simp [hn]
  unfold dispatch
  rw [hx, hx']
  dsimp only
  by_cases h1 : ((strip m0).dest.isNone && (strip m0).iface == some PEER_IFACE) = true
  · simp only [h1, if_true]; exact ⟨trivial, trivial⟩
  simp only [h1, if_false, hmon, Bool.false_eq_true]
  by_cases h2 : ((strip m0).dest.isNone && (strip m0).mtype != 4) = true
  · simp only [h2, if_true]; exact ⟨trivial, trivial⟩
  simp only [h2, if_false, senderNameOf_shade]
  have hd : (((strip m0).setSender (senderNameOf b c)).dest == some BUS_NAME) = false := by
    simpa using hdest
  have hnn : x.name.isNone = false := by
    cases hxn : x.name with
    | none => rw [hxn] at hname; cases hname
    | some _ => rfl
  simp only [hd, Bool.false_eq_true, if_false, hnn]
  have hr := shadow_route (t := { bus := b }) (t' := { bus := shade k b }) ⟨rfl, rfl⟩ c ((strip m0).setSender (senderNameOf b c))
  rcases h3 : route { bus := b } c ((strip m0).setSender (senderNameOf b c)) with ⟨t1, e1⟩
  rcases h4 : route { bus := shade k b } c ((strip m0).setSender (senderNameOf b c)) with ⟨t2, e2⟩
  rw [h3, h4] at hr
  obtain ⟨hs, he⟩ := hr
  dsimp only at hs he
  subst he
  have hf := shadow_finish hs e2 c ((strip m0).setSender (senderNameOf b c))
  exact ⟨hf.2, hf.1⟩

end Dbus.Proofs.Bus
