import Dbus.Proofs.Bus.Services
/-
  C13: the configured limits are invariants of every reachable state.
-/
namespace Dbus.Proofs.Bus
open Dbus Dbus.Spec Dbus.Model Dbus.Model.Bus

def ConnOK (l : Limits) (x : Conn) : Prop :=
  x.rules.length ≤ l.maxRules ∧ x.owned.length ≤ max 1 l.maxNames ∧ (x.name = none → x.owned = [])

def callsOf (p : List Pending) (c : ConnId) : Nat := (p.filter (·.caller == c)).length

structure LimitsInv (b : Bus) : Prop where
  ids : (b.conns.map (·.id)).Nodup
  conns : ∀ x ∈ b.conns, ConnOK b.limits x
  pending : ∀ c, callsOf b.pending c ≤ b.limits.maxReplies
  completed : nCompleted b ≤ b.limits.maxCompleted
  per_user : ∀ uid, nCompletedFor b uid ≤ b.limits.maxPerUser

/-! ### the pending-reply list under the gate -/

theorem callsOf_erase (p : List Pending) (x : Pending) (c : ConnId) : callsOf (p.erase x) c ≤ callsOf p c := by
  unfold callsOf
  exact (List.Sublist.filter _ (List.erase_sublist)).length_le

theorem callsOf_filter (p : List Pending) (f : Pending → Bool) (c : ConnId) : callsOf (p.filter f) c ≤ callsOf p c := by
  unfold callsOf
  exact (List.Sublist.filter _ List.filter_sublist).length_le

theorem requestedReply_calls (b : Bus) (s a p : Option ConnId) (m : Msg) (c : ConnId) :
    callsOf (requestedReply b s a p m).1 c ≤ callsOf b.pending c := by
  unfold requestedReply
  repeat' split
  all_goals first
    | exact Nat.le_refl _
    | (unfold checkReply; dsimp only; split
       · exact callsOf_erase _ _ _
       · exact Nat.le_refl _)

theorem expectReply_calls (mx : Nat) (pend : List Pending) (caller callee : ConnId) (call : Msg) (c : ConnId)
    (h : callsOf pend c ≤ mx) : callsOf (expectReply mx pend caller callee call).1 c ≤ mx := by
  unfold expectReply
  split; · exact h
  dsimp only
  split; · exact h
  split; · exact h
  rename_i hlim
  unfold callsOf at *
  simp only [List.filter_cons]
  split
  · rename_i hc
    have : caller = c := by simpa using hc
    subst this
    simp only [List.length_cons]
    omega
  · exact h

theorem checkPolicy_calls (b : Bus) (s a p : Option ConnId) (m : Msg) (c : ConnId)
    (h : callsOf b.pending c ≤ b.limits.maxReplies) : callsOf (checkPolicy b s a p m).1 c ≤ b.limits.maxReplies := by
  unfold checkPolicy
  split; · exact h
  have h1 := Nat.le_trans (requestedReply_calls b s a p m c) h
  rcases hr : requestedReply b s a p m with ⟨pend, req⟩
  rw [hr] at h1
  dsimp only
  repeat' split
  all_goals first
    | exact h1
    | exact expectReply_calls _ _ _ _ _ _ h1


/-! ### messages the bus itself sends leave the state alone -/

theorem checkPolicy_driver (b : Bus) (a p : Option ConnId) (m : Msg) : (checkPolicy b none a p m).1 = b.pending := by
  unfold checkPolicy
  split; · rfl
  have : (requestedReply b none a p m).1 = b.pending := rfl
  rcases hr : requestedReply b none a p m with ⟨pend, req⟩
  rw [hr] at this
  dsimp only at this ⊢
  subst this
  split <;> rfl

theorem setPending_self (t : Tx) : t.setPending t.bus.pending = t := rfl

theorem sendStamped_bus (t : Tx) (to : ConnId) (m : Msg) : (sendStamped t to m).bus = t.bus := by
  unfold sendStamped
  have g := checkPolicy_driver t.bus (some to) (some to) m
  rcases h : checkPolicy t.bus none (some to) (some to) m with ⟨p, err⟩
  rw [h] at g
  dsimp only at g
  subst g
  cases err with
  | some e => dsimp only; rw [(captureError_frame _ _ _ _).1]; rfl
  | none => rfl

theorem sendFromDriver_bus (t : Tx) (to : ConnId) (m : Msg) : (sendFromDriver t to m).bus = t.bus := by
  unfold sendFromDriver
  rw [sendStamped_bus, (capture_frame _ _ _ _).1]

theorem sendOne_driver_bus (t : Tx) (a : Option ConnId) (to : ConnId) (m : Msg) : (sendOne t none a to m).bus = t.bus := by
  unfold sendOne
  have g := checkPolicy_driver t.bus a (some to) m
  rcases h : checkPolicy t.bus none a (some to) m with ⟨p, err⟩
  rw [h] at g
  dsimp only at g
  subst g
  cases err with
  | some e => dsimp only; rw [(captureError_frame _ _ _ _).1]; rfl
  | none =>
    dsimp only
    split
    · rw [(captureError_frame _ _ _ _).1]; rfl
    · rfl

theorem fold_bus {α : Type} (f : Tx → α → Tx) (hf : ∀ t a, (f t a).bus = t.bus) : ∀ (l : List α) (t : Tx), (l.foldl f t).bus = t.bus
  | [], _ => rfl
  | a :: l, t => by simp only [List.foldl_cons]; rw [fold_bus f hf l, hf]

theorem sigOwnerChanged_bus (t : Tx) (n o w : Bytes) : (sigOwnerChanged t n o w).bus = t.bus := by
  unfold sigOwnerChanged dispatchMatches sendMatches
  dsimp only
  rw [fold_bus _ (fun t r => sendOne_driver_bus t none r _), (capture_frame _ _ _ _).1]

theorem emitSig_bus (n : Bytes) (t : Tx) (s : Sig) : (emitSig n t s).bus = t.bus := by
  cases s with
  | lost c => exact sendFromDriver_bus _ _ _
  | acquired c => exact sendFromDriver_bus _ _ _
  | changed o w => exact sigOwnerChanged_bus _ _ _ _

theorem emitSigs_bus (n : Bytes) (sigs : List Sig) (t : Tx) : (sigs.foldl (emitSig n) t).bus = t.bus :=
  fold_bus _ (emitSig_bus n) sigs t

theorem applyQueue_bus (t : Tx) (n : Bytes) (os' : List Owner) (sigs : List Sig) :
    (applyQueue t n os' sigs).bus = syncOwned (t.bus.setOwners n os') n (ownersOf t.bus n) os' := by
  unfold applyQueue
  dsimp only
  rw [emitSigs_bus]

theorem reply_bus (t : Tx) (c : ConnId) (call : Msg) (tys : List Ty) (body : List Val) : (reply t c call tys body).bus = t.bus :=
  sendFromDriver_bus _ _ _

/-! ### connections under a map that keeps identity -/

theorem filter_map_length {l : List Conn} {g : Conn → Conn} {p : Conn → Bool} (h : ∀ x, p (g x) = p x) :
    ((l.map g).filter p).length = (l.filter p).length := by
  induction l with
  | nil => rfl
  | cons x xs ih =>
    simp only [List.map_cons, List.filter_cons, h x]
    split <;> simp [ih]

theorem limitsInv_map {b b' : Bus} (g : Conn → Conn) (hc : b'.conns = b.conns.map g) (hlim : b'.limits = b.limits)
    (hpend : b'.pending = b.pending) (hid : ∀ x, (g x).id = x.id) (hname : ∀ x, (g x).name = x.name)
    (huid : ∀ x, (g x).uid = x.uid) (hok : ∀ x ∈ b.conns, ConnOK b.limits x → ConnOK b.limits (g x))
    (hi : LimitsInv b) : LimitsInv b' := by
  refine ⟨?_, ?_, ?_, ?_, ?_⟩
  · rw [hc, List.map_map]
    have : ((fun x : Conn => x.id) ∘ g) = fun x => x.id := by funext x; exact hid x
    rw [this]; exact hi.ids
  · rw [hc, hlim]
    intro y hy
    simp only [List.mem_map] at hy
    obtain ⟨x, hx, rfl⟩ := hy
    exact hok x hx (hi.conns x hx)
  · rw [hpend, hlim]; exact hi.pending
  · unfold nCompleted; rw [hc, hlim, filter_map_length (fun x => by simp [hname x])]; exact hi.completed
  · intro uid
    unfold nCompletedFor; rw [hc, hlim, filter_map_length (fun x => by simp [hname x, huid x])]; exact hi.per_user uid


/-! ### who can join a queue -/

theorem inQueue_filter {os : List Owner} {c x : ConnId} (h : inQueue (os.filter (·.conn != c)) x = true) : inQueue os x = true := by
  unfold inQueue at *
  simp only [List.any_eq_true, List.mem_filter] at h ⊢
  obtain ⟨o, ⟨ho, _⟩, hx⟩ := h
  exact ⟨o, ho, hx⟩

theorem inQueue_qRemove {os : List Owner} {c x : ConnId} (h : inQueue (qRemove os c).1 x = true) : inQueue os x = true := by
  unfold qRemove at h
  split at h
  · exact h
  · split at h
    · rename_i p rest _
      unfold inQueue at *
      simp only [List.any_cons, Bool.or_eq_true]
      exact Or.inr h
    · exact inQueue_filter h

theorem inQueue_qRelease {os : List Owner} {c x : ConnId} (h : inQueue (qRelease os c).1 x = true) : inQueue os x = true := by
  unfold qRelease at h
  split at h
  · exact h
  · split at h
    · exact h
    · exact inQueue_qRemove h

theorem inQueue_insertSecond {o : Owner} {os : List Owner} {x : ConnId} (h : inQueue (insertSecond o os) x = true) :
    inQueue os x = true ∨ o.conn = x := by
  unfold insertSecond at h
  split at h
  · right; simpa [inQueue] using h
  · simp only [inQueue, List.any_cons, Bool.or_eq_true, beq_iff_eq] at h ⊢
    rcases h with h | h | h
    · exact Or.inl (Or.inl h)
    · exact Or.inr h
    · exact Or.inl (Or.inr h)

theorem inQueue_qAdd {os : List Owner} {c x : ConnId} {flags : Nat} (h : inQueue (qAdd os c flags).1 x = true) :
    inQueue os x = true ∨ x = c := by
  unfold qAdd at h
  dsimp only at h
  split at h
  · split at h
    · rcases inQueue_insertSecond h with h | h
      · exact Or.inl (inQueue_filter h)
      · exact Or.inr h.symm
    · simp only [inQueue, List.any_map, List.any_eq_true, Function.comp] at h ⊢
      obtain ⟨o, ho, hx⟩ := h
      split at hx
      · rename_i hc
        right
        have h1 : o.conn = c := by simpa using hc
        have h2 : c = x := by simpa [mkOwner] using hx
        exact h2.symm
      · exact Or.inl ⟨o, ho, hx⟩
  · split at h
    · simp only [inQueue, List.any_append, List.any_cons, List.any_nil, Bool.or_false, Bool.or_eq_true, beq_iff_eq] at h ⊢
      rcases h with h | h
      · exact Or.inl h
      · exact Or.inr (by simpa [mkOwner] using h.symm)
    · rcases inQueue_insertSecond h with h | h
      · exact Or.inl h
      · exact Or.inr h.symm

theorem inQueue_qSwap {os : List Owner} {c x : ConnId} (h : inQueue (qSwap os c).1 x = true) : inQueue os x = true := by
  unfold qSwap at h
  split at h
  · simp only [inQueue, List.any_cons, Bool.or_eq_true] at h ⊢
    rcases h with h | h | h
    · exact Or.inr (Or.inl h)
    · exact Or.inl h
    · exact Or.inr (Or.inr h)
  · exact h

theorem inQueue_qAcquire {os : List Owner} {c x : ConnId} {flags : Nat} (h : inQueue (qAcquire os c flags).1 x = true) :
    inQueue os x = true ∨ x = c := by
  unfold qAcquire at h
  split at h
  · right
    simp only [qEnsure, qAdd, inQueue, List.isEmpty_nil, List.any_nil] at h
    have : c = x := by simpa [mkOwner] using h
    exact this.symm
  · rename_i p rest
    split at h
    · simp only [inQueue, List.any_cons, Bool.or_eq_true, beq_iff_eq] at h ⊢
      rcases h with h | h
      · exact Or.inr (by simpa [mkOwner] using h.symm)
      · exact Or.inl (Or.inr h)
    · split at h
      · exact Or.inl (inQueue_filter h)
      · split at h
        · exact inQueue_qAdd h
        · dsimp only at h
          split at h
          · exact inQueue_qAdd (inQueue_qRemove h)
          · exact inQueue_qAdd (inQueue_qSwap h)


/-! ### the leaves -/

theorem inj_of_nodup_map' {α β : Type} (f : α → β) : ∀ {l : List α}, (l.map f).Nodup →
    ∀ {x y : α}, x ∈ l → y ∈ l → f x = f y → x = y
  | [], _, _, _, hx, _, _ => by cases hx
  | a :: l, hn, x, y, hx, hy, h => by
    simp only [List.map_cons, List.nodup_cons] at hn
    simp only [List.mem_cons] at hx hy
    rcases hx with rfl | hx <;> rcases hy with rfl | hy
    · rfl
    · exact absurd (List.mem_map.mpr ⟨y, hy, h.symm⟩) hn.1
    · exact absurd (List.mem_map.mpr ⟨x, hx, h⟩) hn.1
    · exact inj_of_nodup_map' f hn.2 hx hy h

theorem conn?_of_mem {b : Bus} (hn : (b.conns.map (·.id)).Nodup) {x : Conn} (hx : x ∈ b.conns) : b.conn? x.id = some x := by
  unfold Bus.conn?
  cases hf : b.conns.find? (·.id == x.id) with
  | none =>
    have := List.find?_eq_none.mp hf x hx
    simp at this
  | some y =>
    have hy := List.mem_of_find?_eq_some hf
    have hyc : y.id = x.id := by simpa using List.find?_some hf
    rw [inj_of_nodup_map' _ hn hy hx hyc]

theorem removeLast_length (l : List Bytes) (n : Bytes) : (removeLast l n).length ≤ l.length := by
  unfold removeLast
  simp only [List.length_reverse]
  exact Nat.le_trans (List.erase_sublist.length_le) (by simp)

theorem removeLast_nil (n : Bytes) : removeLast [] n = [] := rfl

theorem limitsInv_syncOwned {b : Bus} (hi : LimitsInv b) (n : Bytes) (os os' : List Owner)
    (hjoin : ∀ x ∈ b.conns, inQueue os x.id = false → inQueue os' x.id = true →
      x.owned.length + 1 ≤ max 1 b.limits.maxNames ∧ x.name ≠ none) :
    LimitsInv (syncOwned (b.setOwners n os') n os os') := by
  obtain ⟨_, _, h3, _, _, h6⟩ := setOwners_frame b n os'
  refine limitsInv_map (b := b) _ (by unfold syncOwned; rw [setOwners_conns]) h3 h6 ?_ ?_ ?_ ?_ hi
  · intro x; (try dsimp only); split; · rfl
    split <;> rfl
  · intro x; (try dsimp only); split; · rfl
    split <;> rfl
  · intro x; (try dsimp only); split; · rfl
    split <;> rfl
  · intro x hx hok
    dsimp only
    split
    · rename_i hj
      simp only [Bool.and_eq_true, Bool.not_eq_true'] at hj
      have := hjoin x hx hj.1 hj.2
      refine ⟨hok.1, ?_, fun h => absurd h this.2⟩
      simp only [List.length_append, List.length_cons, List.length_nil]
      exact this.1
    · split
      · refine ⟨hok.1, Nat.le_trans (removeLast_length _ _) hok.2.1, ?_⟩
        intro h
        show removeLast x.owned n = []
        rw [hok.2.2 h]; rfl
      · exact hok

theorem mintAux_fields : ∀ (f : Nat) (b : Bus), (mintAux f b).1.conns = b.conns ∧ (mintAux f b).1.limits = b.limits ∧
    (mintAux f b).1.pending = b.pending ∧ (mintAux f b).1.policy = b.policy
  | 0, b => ⟨rfl, rfl, rfl, rfl⟩
  | f + 1, b => by
    unfold mintAux
    dsimp only
    split
    · exact ⟨rfl, rfl, rfl, rfl⟩
    · obtain ⟨h1, h2, h3, h4⟩ := mintAux_fields f (bump b).1
      exact ⟨h1, h2, h3, h4⟩

theorem count_one_changed {l : List Conn} {g : Conn → Conn} {p : Conn → Bool} {c : ConnId}
    (hn : (l.map (·.id)).Nodup) (hg : ∀ x, x.id ≠ c → p (g x) = p x) :
    ((l.map g).filter p).length ≤ (l.filter p).length + 1 := by
  induction l with
  | nil => simp
  | cons x xs ih =>
    simp only [List.map_cons, List.nodup_cons] at hn
    by_cases hx : x.id = c
    · -- the rest has no id c: unchanged count
      have hrest : ((xs.map g).filter p).length = (xs.filter p).length := by
        have : ∀ y ∈ xs, p (g y) = p y := fun y hy => hg y (fun h => hn.1 (hx ▸ h ▸ List.mem_map.mpr ⟨y, hy, rfl⟩))
        clear ih
        induction xs with
        | nil => rfl
        | cons y ys ih2 =>
          simp only [List.map_cons, List.filter_cons, this y (by simp)]
          have := ih2 (by simp only [List.map_cons, List.mem_cons, not_or, List.nodup_cons] at hn; exact ⟨hn.1.2, hn.2.2⟩)
            (fun z hz => this z (by simp [hz]))
          split <;> simp [this]
      simp only [List.map_cons, List.filter_cons]
      split <;> split <;> simp [hrest] <;> omega
    · have := ih hn.2
      simp only [List.map_cons, List.filter_cons, hg x hx]
      split <;> simp <;> omega


theorem isActive_name {b : Bus} (hn : (b.conns.map (·.id)).Nodup) {x : Conn} (hx : x ∈ b.conns) :
    b.isActive x.id = x.name.isSome := by
  unfold Bus.isActive Bus.nameOf
  rw [conn?_of_mem hn hx]; rfl

theorem nOwned_of_mem {b : Bus} (hn : (b.conns.map (·.id)).Nodup) {x : Conn} (hx : x ∈ b.conns) : nOwned b x.id = x.owned.length := by
  unfold nOwned; rw [conn?_of_mem hn hx]

theorem nRules_of_mem {b : Bus} (hn : (b.conns.map (·.id)).Nodup) {x : Conn} (hx : x ∈ b.conns) : nRules b x.id = x.rules.length := by
  unfold nRules; rw [conn?_of_mem hn hx]

theorem rulesOfConn_of_mem {b : Bus} (hn : (b.conns.map (·.id)).Nodup) {x : Conn} (hx : x ∈ b.conns) : rulesOfConn b x.id = x.rules := by
  unfold rulesOfConn; rw [conn?_of_mem hn hx]

theorem uidOf_of_mem {b : Bus} (hn : (b.conns.map (·.id)).Nodup) {x : Conn} (hx : x ∈ b.conns) : uidOf b x.id = x.uid := by
  unfold uidOf; rw [conn?_of_mem hn hx]

theorem removeRule_length {rs rs' : List MatchRule} {r : MatchRule} (h : removeRule rs r = some rs') : rs'.length ≤ rs.length := by
  unfold removeRule at h
  split at h
  · simp only [Option.some.injEq] at h
    subst h
    simp only [List.length_reverse]
    exact Nat.le_trans (List.length_eraseIdx_le _ _) (by simp)
  · cases h

theorem limitsInv_acquire (t : Tx) (c : ConnId) (n : Bytes) (flags : Nat) (hact : t.bus.isActive c = true)
    (hi : LimitsInv t.bus) : LimitsInv (acquire t c n flags).1.bus := by
  unfold acquire
  split; · exact hi
  split; · exact hi
  split; · exact hi
  split; · exact hi
  split; · exact hi
  rename_i hlim
  dsimp only
  rw [applyQueue_bus]
  apply limitsInv_syncOwned hi
  intro x hx hwas his
  have hxc : x.id = c := by
    rcases inQueue_qAcquire his with h | h
    · rw [hwas] at h; cases h
    · exact h
  subst hxc
  have h1 := nOwned_of_mem hi.ids hx
  have h2 := isActive_name hi.ids hx
  refine ⟨by omega, ?_⟩
  intro hnone
  rw [hact, hnone] at h2
  cases h2

theorem limitsInv_release (t : Tx) (c : ConnId) (n : Bytes) (hi : LimitsInv t.bus) : LimitsInv (release t c n).1.bus := by
  unfold release
  split; · exact hi
  split; · exact hi
  split; · exact hi
  dsimp only
  rw [applyQueue_bus]
  apply limitsInv_syncOwned hi
  intro x _ hwas his
  rw [inQueue_qRelease his] at hwas; cases hwas

theorem limitsInv_removeOwner (t : Tx) (n : Bytes) (c : ConnId) (hi : LimitsInv t.bus) : LimitsInv (removeOwner t n c).bus := by
  unfold removeOwner
  rw [applyQueue_bus]
  apply limitsInv_syncOwned hi
  intro x _ hwas his
  rw [inQueue_qRemove his] at hwas; cases hwas

theorem limitsInv_gate (b : Bus) (s a p : Option ConnId) (m : Msg) (hi : LimitsInv b) :
    LimitsInv { b with pending := (checkPolicy b s a p m).1 } :=
  ⟨hi.ids, hi.conns, fun c => checkPolicy_calls b s a p m c (hi.pending c), hi.completed, hi.per_user⟩

theorem limitsInv_forget (b : Bus) (c : ConnId) (hi : LimitsInv b) :
    LimitsInv { b with pending := b.pending.filter fun p => !involves c p } :=
  ⟨hi.ids, hi.conns, fun x => Nat.le_trans (callsOf_filter _ _ _) (hi.pending x), hi.completed, hi.per_user⟩

theorem limitsInv_addRule (b : Bus) (c : ConnId) (r : MatchRule) (_ : b.isActive c = true) (hlim : nRules b c < b.limits.maxRules)
    (hi : LimitsInv b) : LimitsInv (b.updRules c (· ++ [r])) := by
  refine limitsInv_map (b := b) _ rfl rfl rfl ?_ ?_ ?_ ?_ hi
  · intro x; (try dsimp only); split <;> rfl
  · intro x; (try dsimp only); split <;> rfl
  · intro x; (try dsimp only); split <;> rfl
  · intro x hx hok
    dsimp only
    split
    · rename_i hc
      have hxc : x.id = c := by simpa using hc
      subst hxc
      have := nRules_of_mem hi.ids hx
      refine ⟨?_, hok.2⟩
      simp only [List.length_append, List.length_cons, List.length_nil]
      omega
    · exact hok

theorem limitsInv_removeRule (b : Bus) (c : ConnId) (r : MatchRule) (rs' : List MatchRule)
    (h : removeRule (rulesOfConn b c) r = some rs') (hi : LimitsInv b) : LimitsInv (b.updRules c fun _ => rs') := by
  refine limitsInv_map (b := b) _ rfl rfl rfl ?_ ?_ ?_ ?_ hi
  · intro x; (try dsimp only); split <;> rfl
  · intro x; (try dsimp only); split <;> rfl
  · intro x; (try dsimp only); split <;> rfl
  · intro x hx hok
    dsimp only
    split
    · rename_i hc
      have hxc : x.id = c := by simpa using hc
      subst hxc
      have h1 := rulesOfConn_of_mem hi.ids hx
      rw [h1] at h
      exact ⟨Nat.le_trans (removeRule_length h) hok.1, hok.2⟩
    · exact hok

theorem limitsInv_gcRules (b : Bus) (x : Conn) (hi : LimitsInv b) : LimitsInv (gcRules b x) := by
  unfold gcRules
  split; · exact hi
  split; · exact hi
  refine limitsInv_map (b := b) _ rfl rfl rfl ?_ ?_ ?_ ?_ hi
  · intro y; (try dsimp only); split <;> rfl
  · intro y; (try dsimp only); split <;> rfl
  · intro y; (try dsimp only); split <;> rfl
  · intro y _ hok
    (try dsimp only)
    split
    · exact hok
    · exact ⟨Nat.le_trans (List.filter_sublist.length_le) hok.1, hok.2⟩

theorem limitsInv_clearRules (b : Bus) (c : ConnId) (hi : LimitsInv b) : LimitsInv (clearRules b c) := by
  refine limitsInv_map (b := b) _ rfl rfl rfl ?_ ?_ ?_ ?_ hi
  · intro y; (try dsimp only); split <;> rfl
  · intro y; (try dsimp only); split <;> rfl
  · intro y; (try dsimp only); split <;> rfl
  · intro y _ hok
    dsimp only
    split
    · exact ⟨Nat.zero_le _, hok.2⟩
    · exact hok

theorem limitsInv_removeConn (b : Bus) (c : ConnId) (hi : LimitsInv b) : LimitsInv (removeConn c b) := by
  refine ⟨hi.ids.sublist (List.Sublist.map _ List.filter_sublist),
    fun x hx => hi.conns x (List.mem_filter.mp hx).1, hi.pending, ?_, ?_⟩
  · exact Nat.le_trans (List.Sublist.filter _ List.filter_sublist).length_le hi.completed
  · intro uid
    exact Nat.le_trans (List.Sublist.filter _ List.filter_sublist).length_le (hi.per_user uid)

theorem not_mem_ids {b : Bus} {c : ConnId} (h : (b.conn? c).isSome = false) : c ∉ b.conns.map (·.id) := by
  intro hm
  simp only [List.mem_map] at hm
  obtain ⟨x, hx, hxc⟩ := hm
  unfold Bus.conn? at h
  cases hf : b.conns.find? (·.id == c) with
  | none =>
    have := List.find?_eq_none.mp hf x hx
    simp [hxc] at this
  | some y => rw [hf] at h; cases h

theorem limitsInv_connect (b : Bus) (c uid : Nat) (gids : List Nat) (canFd : Bool) (h : (b.conn? c).isSome = false)
    (hi : LimitsInv b) :
    LimitsInv { b with conns := b.conns ++ [{ id := c, uid := uid, gids := gids, canFd := canFd }] } := by
  refine ⟨?_, ?_, hi.pending, ?_, ?_⟩
  · simp only [List.map_append, List.map_cons, List.map_nil]
    rw [List.nodup_append]
    refine ⟨hi.ids, by simp, ?_⟩
    intro a ha x hx
    simp only [List.mem_singleton] at hx
    subst hx
    exact fun e => not_mem_ids h (e ▸ ha)
  · intro x hx
    simp only [List.mem_append, List.mem_singleton] at hx
    rcases hx with hx | rfl
    · exact hi.conns x hx
    · exact ⟨Nat.zero_le _, Nat.zero_le _, fun _ => rfl⟩
  · simp only [nCompleted, List.filter_append, List.length_append]
    have : ([({ id := c, uid := uid, gids := gids, canFd := canFd } : Conn)].filter (·.name.isSome)).length = 0 := rfl
    have h2 := hi.completed
    unfold nCompleted at h2
    omega
  · intro u
    simp only [nCompletedFor, List.filter_append, List.length_append]
    have : ([({ id := c, uid := uid, gids := gids, canFd := canFd } : Conn)].filter fun x => x.name.isSome && x.uid == u).length = 0 := rfl
    have h2 := hi.per_user u
    unfold nCompletedFor at h2
    omega


def actG (b : Bus) (c : ConnId) (nm : Bytes) (x : Conn) : Conn :=
  if x.id == c then { x with name := some nm, policy := b.policy.clientPolicy b.limits.maxFdsDefault x.uid x.gids false } else x

theorem activate_conns (b : Bus) (c : ConnId) (nm : Bytes) : (activate b c nm).conns = b.conns.map (actG b c nm) := rfl

theorem limitsInv_activate {b : Bus} {c : ConnId} (nm : Bytes) (hin : b.isActive c = false)
    (h1 : nCompleted b < b.limits.maxCompleted) (h2 : nCompletedFor b (uidOf b c) < b.limits.maxPerUser)
    (hi : LimitsInv b) : LimitsInv (activate b c nm) := by
  have hid : ∀ x, (actG b c nm x).id = x.id := by intro x; unfold actG; split <;> rfl
  have huid : ∀ x, (actG b c nm x).uid = x.uid := by intro x; unfold actG; split <;> rfl
  have hsame : ∀ x, x.id ≠ c → actG b c nm x = x := by
    intro x hx; unfold actG; simp [hx]
  refine ⟨?_, ?_, hi.pending, ?_, ?_⟩
  · rw [activate_conns, List.map_map]
    have : ((fun x : Conn => x.id) ∘ actG b c nm) = fun x => x.id := by funext x; exact hid x
    rw [this]; exact hi.ids
  · rw [activate_conns]
    intro y hy
    simp only [List.mem_map] at hy
    obtain ⟨x, hx, rfl⟩ := hy
    have hok := hi.conns x hx
    unfold actG
    split
    · exact ⟨hok.1, hok.2.1, fun h => by cases h⟩
    · exact hok
  · show ((activate b c nm).conns.filter (·.name.isSome)).length ≤ _
    rw [activate_conns]
    have := count_one_changed (l := b.conns) (g := actG b c nm) (p := fun x => x.name.isSome) (c := c) hi.ids
      (fun x hx => by rw [hsame x hx])
    have h3 : nCompleted b = (b.conns.filter (·.name.isSome)).length := rfl
    show _ ≤ b.limits.maxCompleted
    omega
  · intro uid
    show ((activate b c nm).conns.filter fun x => x.name.isSome && x.uid == uid).length ≤ b.limits.maxPerUser
    rw [activate_conns]
    by_cases hu : uid = uidOf b c
    · subst hu
      have := count_one_changed (l := b.conns) (g := actG b c nm) (p := fun x => x.name.isSome && x.uid == uidOf b c) (c := c) hi.ids
        (fun x hx => by rw [hsame x hx])
      have h3 : nCompletedFor b (uidOf b c) = (b.conns.filter fun x => x.name.isSome && x.uid == uidOf b c).length := rfl
      omega
    · have hcount : ((b.conns.map (actG b c nm)).filter fun x => x.name.isSome && x.uid == uid).length =
          (b.conns.filter fun x => x.name.isSome && x.uid == uid).length := by
        have key : ∀ x ∈ b.conns, (fun x : Conn => x.name.isSome && x.uid == uid) (actG b c nm x) =
            (fun x : Conn => x.name.isSome && x.uid == uid) x := by
          intro x hx
          by_cases hxc : x.id = c
          · have hxu : x.uid = uidOf b c := by rw [← hxc]; exact (uidOf_of_mem hi.ids hx).symm
            have hne : (x.uid == uid) = false := by
              simp only [beq_eq_false_iff_ne, ne_eq]
              intro e; exact hu (e.symm.trans hxu)
            simp only [huid, hne, Bool.and_false]
          · rw [hsame x hxc]
        clear h1 h2
        generalize b.conns = l at key
        induction l with
        | nil => rfl
        | cons x xs ih =>
          simp only [List.map_cons, List.filter_cons, key x (by simp)]
          have := ih (fun y hy => key y (by simp [hy]))
          split <;> simp [this]
      rw [hcount]; exact hi.per_user uid

theorem limitsInv_helloOk (t : Tx) (c : ConnId) (m : Msg) (hin : t.bus.isActive c = false)
    (h1 : nCompleted t.bus < t.bus.limits.maxCompleted)
    (h2 : nCompletedFor t.bus (uidOf t.bus c) < t.bus.limits.maxPerUser) (hi : LimitsInv t.bus) :
    LimitsInv (helloOk t c m).bus := by
  obtain ⟨f1, f2, f3, f4⟩ := mintAux_fields (t.bus.services.length + 1) t.bus
  have hb1 : LimitsInv (mint t.bus).1 := by
    refine ⟨?_, ?_, ?_, ?_, ?_⟩
    · show ((mint t.bus).1.conns.map (·.id)).Nodup
      rw [show (mint t.bus).1.conns = t.bus.conns from f1]; exact hi.ids
    · rw [show (mint t.bus).1.conns = t.bus.conns from f1, show (mint t.bus).1.limits = t.bus.limits from f2]; exact hi.conns
    · rw [show (mint t.bus).1.pending = t.bus.pending from f3, show (mint t.bus).1.limits = t.bus.limits from f2]; exact hi.pending
    · unfold nCompleted
      rw [show (mint t.bus).1.conns = t.bus.conns from f1, show (mint t.bus).1.limits = t.bus.limits from f2]; exact hi.completed
    · intro u; unfold nCompletedFor
      rw [show (mint t.bus).1.conns = t.bus.conns from f1, show (mint t.bus).1.limits = t.bus.limits from f2]; exact hi.per_user u
  have hconn : (mint t.bus).1.conns = t.bus.conns := f1
  have hin1 : (mint t.bus).1.isActive c = false := by
    unfold Bus.isActive Bus.nameOf Bus.conn? at hin ⊢; rw [hconn]; exact hin
  have hc1 : nCompleted (mint t.bus).1 < (mint t.bus).1.limits.maxCompleted := by
    unfold nCompleted; rw [hconn, show (mint t.bus).1.limits = t.bus.limits from f2]; exact h1
  have hu1 : uidOf (mint t.bus).1 c = uidOf t.bus c := by unfold uidOf Bus.conn?; rw [hconn]
  have hc2 : nCompletedFor (mint t.bus).1 (uidOf (mint t.bus).1 c) < (mint t.bus).1.limits.maxPerUser := by
    rw [hu1]; unfold nCompletedFor; rw [hconn, show (mint t.bus).1.limits = t.bus.limits from f2]; exact h2
  have hact := limitsInv_activate (mint t.bus).2 hin1 hc1 hc2 hb1
  unfold helloOk ensureService
  rw [applyQueue_bus, reply_bus]
  apply limitsInv_syncOwned hact
  intro y hy _ his
  have hyc : y.id = c := by
    have hq : (qEnsure c 0).1 = [mkOwner c 0] := by simp [qEnsure, qAdd, inQueue]
    rw [hq] at his
    simp only [inQueue, List.any_cons, List.any_nil, Bool.or_false, beq_iff_eq, mkOwner] at his
    exact his.symm
  rw [activate_conns] at hy
  simp only [List.mem_map] at hy
  obtain ⟨x, hx, rfl⟩ := hy
  have hid : (actG (mint t.bus).1 c (mint t.bus).2 x).id = x.id := by unfold actG; split <;> rfl
  rw [hid] at hyc
  have hxname : x.name = none := by
    have := isActive_name hb1.ids hx
    rw [hyc, hin1] at this
    cases hn : x.name with
    | none => rfl
    | some v => rw [hn] at this; cases this
  have hown : x.owned = [] := (hb1.conns x hx).2.2 hxname
  unfold actG
  simp only [hyc, beq_self_eq_true, if_true, hown, List.length_nil]
  exact ⟨by omega, by simp⟩

theorem limitsInv_installMonitor (b : Bus) (c : ConnId) (rules : List MatchRule) (hi : LimitsInv b) :
    LimitsInv (installMonitorRules c rules b) := by
  refine limitsInv_map (b := b) _ rfl rfl rfl ?_ ?_ ?_ ?_ hi
  · intro y; (try dsimp only); split <;> rfl
  · intro y; (try dsimp only); split <;> rfl
  · intro y; (try dsimp only); split <;> rfl
  · intro y _ hok
    (try dsimp only)
    split
    · exact hok
    · exact hok

theorem limitsInv_joinMonitors (b : Bus) (c : ConnId) (x : Conn) (rules : List MatchRule) (hi : LimitsInv b) :
    LimitsInv (joinMonitors c x rules b) := by
  have hg := limitsInv_gcRules b { x with monitorRules := rules } hi
  refine limitsInv_map (b := gcRules b { x with monitorRules := rules }) _ rfl rfl rfl ?_ ?_ ?_ ?_ hg
  · intro y; (try dsimp only); split <;> rfl
  · intro y; (try dsimp only); split <;> rfl
  · intro y; (try dsimp only); split <;> rfl
  · intro y _ hok
    (try dsimp only)
    split
    · exact ⟨Nat.zero_le _, hok.2⟩
    · exact hok

/-- the leaves of the generic induction, for the limits invariant -/
theorem limits_leaves : Leaves (keeps LimitsInv) where
  refl := fun _ h => h
  trans := fun _ _ _ h1 h2 h => h2 (h1 h)
  gate := fun b s a p m h => limitsInv_gate b s a p m h
  forget := fun b c h => limitsInv_forget b c h
  expire := fun b h => ⟨h.ids, h.conns, fun _ => Nat.zero_le _, h.completed, h.per_user⟩
  expireSome := fun b f h => ⟨h.ids, h.conns, fun x => Nat.le_trans (callsOf_filter _ _ _) (h.pending x), h.completed, h.per_user⟩
  setPolicy := fun b p h => by
    refine limitsInv_map (b := b) (fun x => if x.name.isSome then { x with policy := p.clientPolicy b.limits.maxFdsDefault x.uid x.gids false } else x) rfl rfl rfl ?_ ?_ ?_ ?_ h
    · intro x; (try dsimp only); split <;> rfl
    · intro x; (try dsimp only); split <;> rfl
    · intro x; (try dsimp only); split <;> rfl
    · intro x _ hok; (try dsimp only); split
      · exact hok
      · exact hok
  acquire := fun t c n flags hact h => limitsInv_acquire t c n flags hact h
  release := fun t c n h => limitsInv_release t c n h
  removeOwner := fun t n c h => limitsInv_removeOwner t n c h
  helloOk := fun t c m hin h1 h2 h => limitsInv_helloOk t c m hin h1 h2 h
  addRule := fun b c r hact hl h => limitsInv_addRule b c r hact hl h
  removeRule := fun b c r rs' hr h => limitsInv_removeRule b c r rs' hr h
  gcRules := fun b _ x _ h => limitsInv_gcRules b x h
  installMonitor := fun b c rules h => limitsInv_installMonitor b c rules h
  joinMonitors := fun b c x rules h => limitsInv_joinMonitors b c x rules h
  clearRules := fun b c h => limitsInv_clearRules b c h
  removeConn := fun b c h => limitsInv_removeConn b c h
  connect := fun b c uid gids canFd hc h => limitsInv_connect b c uid gids canFd hc h
  setFull := fun _ _ h => ⟨h.ids, h.conns, h.pending, h.completed, h.per_user⟩

theorem limitsInv_run (tbl : List IfaceRow) (l : Limits) (p : Policy) (evs : List Ev) :
    LimitsInv (run tbl { limits := l, policy := p } evs).1 :=
  invariant_of_leaves limits_leaves tbl _ evs
    { ids := List.nodup_nil
      conns := fun x hx => by cases hx
      pending := fun _ => Nat.zero_le _
      completed := Nat.zero_le _
      per_user := fun _ => Nat.zero_le _ }

end Dbus.Proofs.Bus
