import Dbus.Proofs.Bus.Frame
/-
  One induction for all state invariants of the bus model: a relation `K` on states that holds
  across each state-changing primitive (`Leaves K`) holds across every `step`.
-/
namespace Dbus.Proofs.Bus
open Dbus Dbus.Spec Dbus.Model Dbus.Model.Bus

structure Leaves (K : Bus → Bus → Prop) : Prop where
  refl : ∀ b, K b b
  trans : ∀ a b c, K a b → K b c → K a c
  /-- the policy gate (it may consume or record a pending reply) -/
  gate : ∀ b s a p m, K b { b with pending := (checkPolicy b s a p m).1 }
  /-- a vanished connection's pending replies are forgotten -/
  forget : ∀ b c, K b { b with pending := b.pending.filter fun p => !involves c p }
  /-- every pending reply times out -/
  expire : ∀ b, K b { b with pending := [] }
  /-- some pending replies time out -/
  expireSome : ∀ b (f : Pending → Bool), K b { b with pending := b.pending.filter f }
  acquire : ∀ t c n flags, t.bus.isActive c = true → K t.bus (acquire t c n flags).1.bus
  release : ∀ t c n, K t.bus (release t c n).1.bus
  removeOwner : ∀ t n c, K t.bus (removeOwner t n c).bus
  helloOk : ∀ t c m, t.bus.isActive c = false → nCompleted t.bus < t.bus.limits.maxCompleted →
    nCompletedFor t.bus (uidOf t.bus c) < t.bus.limits.maxPerUser → K t.bus (helloOk t c m).bus
  addRule : ∀ b c r, b.isActive c = true → nRules b c < b.limits.maxRules → K b (b.updRules c (· ++ [r]))
  removeRule : ∀ b c r rs', removeRule (rulesOfConn b c) r = some rs' → K b (b.updRules c fun _ => rs')
  gcRules : ∀ b c x, b.conn? c = some x → K b (gcRules b x)
  /-- BecomeMonitor: the filter is installed, … -/
  installMonitor : ∀ b c rules, K b (installMonitorRules c rules b)
  /-- … and, the names released, the connection's ordinary rules go and it joins the monitors -/
  joinMonitors : ∀ b c x rules, K b (joinMonitors c x rules b)
  clearRules : ∀ b c, K b (clearRules b c)
  removeConn : ∀ b c, K b (removeConn c b)
  connect : ∀ b c uid gids canFd, (b.conn? c).isSome = false →
    K b { b with conns := b.conns ++ [{ id := c, uid := uid, gids := gids, canFd := canFd }] }
  /-- a connection stops or resumes reading: which outgoing queues are full changes -/
  setFull : ∀ b l, K b { b with full := l }
  /-- the configuration is reloaded: a new policy for the bus and for every registered connection -/
  setPolicy : ∀ b p, K b (reloadPolicy b p)

variable {K : Bus → Bus → Prop}

theorem lv_foldl (L : Leaves K) {α : Type} (f : Tx → α → Tx) (hf : ∀ t a, K t.bus (f t a).bus) :
    ∀ (l : List α) (t : Tx), K t.bus (l.foldl f t).bus
  | [], t => L.refl _
  | a :: l, t => L.trans _ _ _ (hf t a) (lv_foldl L f hf l _)

theorem lv_sendStamped (L : Leaves K) (t : Tx) (to : ConnId) (m : Msg) : K t.bus (sendStamped t to m).bus := by
  unfold sendStamped
  have g := L.gate t.bus none (some to) (some to) m
  rcases h : checkPolicy t.bus none (some to) (some to) m with ⟨p, err⟩
  rw [h] at g
  cases err with
  | some e => dsimp only; rw [(captureError_frame _ _ _ _).1]; exact g
  | none => exact g

theorem lv_sendFromDriver (L : Leaves K) (t : Tx) (to : ConnId) (m : Msg) : K t.bus (sendFromDriver t to m).bus := by
  unfold sendFromDriver
  have h := lv_sendStamped L (capture t none (some to) (stampDriver t.bus to m)) to (stampDriver t.bus to m)
  rw [(capture_frame t none (some to) (stampDriver t.bus to m)).1] at h
  exact h

theorem lv_sendOne (L : Leaves K) (t : Tx) (s a : Option ConnId) (to : ConnId) (m : Msg) : K t.bus (sendOne t s a to m).bus := by
  unfold sendOne
  have g := L.gate t.bus s a (some to) m
  rcases h : checkPolicy t.bus s a (some to) m with ⟨p, err⟩
  rw [h] at g
  simp only [h]
  cases err with
  | some e => dsimp only; rw [(captureError_frame _ _ _ _).1]; exact g
  | none =>
    dsimp only
    split
    · rw [(captureError_frame _ _ _ _).1]; exact g
    · exact g

theorem lv_sendAddressed (L : Leaves K) (t : Tx) (s : Option ConnId) (a : ConnId) (m : Msg) :
    K t.bus (sendAddressed t s a m).1.bus := by
  unfold sendAddressed
  have g := L.gate t.bus s (some a) (some a) m
  rcases h : checkPolicy t.bus s (some a) (some a) m with ⟨p, err⟩
  rw [h] at g
  simp only [h]
  cases err with
  | some e => exact g
  | none => dsimp only; split <;> exact g

theorem lv_sendMatches (L : Leaves K) (t : Tx) (s a : Option ConnId) (m : Msg) : K t.bus (sendMatches t s a m).bus :=
  lv_foldl L _ (fun t r => lv_sendOne L t s a r m) _ t

theorem lv_dispatchMatches (L : Leaves K) (t : Tx) (s a : Option ConnId) (m : Msg) :
    K t.bus (dispatchMatches t s a m).1.bus := by
  unfold dispatchMatches
  cases a with
  | none => exact lv_sendMatches L t s none m
  | some a =>
    dsimp only
    have h1 := lv_sendAddressed L t s a m
    rcases h : sendAddressed t s a m with ⟨t1, e⟩
    rw [h] at h1
    cases e with
    | some e => exact h1
    | none => exact L.trans _ _ _ h1 (lv_sendMatches L t1 s (some a) m)

theorem lv_sendError (L : Leaves K) (t : Tx) (to : ConnId) (m : Msg) (e : Err) : K t.bus (sendError t to m e).bus :=
  lv_sendFromDriver L t to _

theorem lv_reply (L : Leaves K) (t : Tx) (c : ConnId) (call : Msg) (tys : List Ty) (body : List Val) :
    K t.bus (reply t c call tys body).bus := lv_sendFromDriver L t c _

theorem lv_route (L : Leaves K) (t : Tx) (c : ConnId) (m : Msg) : K t.bus (route t c m).1.bus := by
  unfold route
  repeat' split
  all_goals first
    | (rw [(capture_frame _ _ _ _).1]; exact L.refl _)
    | (rename_i a _
       have h := lv_dispatchMatches L (capture t (some c) (some a) m) (some c) (some a) m
       rw [(capture_frame _ _ _ _).1] at h; exact h)
    | (have h := lv_dispatchMatches L (capture t (some c) none m) (some c) none m
       rw [(capture_frame _ _ _ _).1] at h; exact h)

theorem lv_dropPending (L : Leaves K) (t : Tx) (c : ConnId) : K t.bus (dropPending t c).bus := by
  unfold dropPending
  have hf : ∀ (t : Tx) (p : Pending), K t.bus (noReplyTo c t p).bus := by
    intro t p
    unfold noReplyTo
    split
    · exact lv_sendError L _ _ _ _
    · exact L.refl _
  exact L.trans _ _ _ (L.forget t.bus c)
    (lv_foldl L (noReplyTo c) hf _ (t.setPending (t.bus.pending.filter fun p => !involves c p)))

theorem lv_hello (L : Leaves K) (t : Tx) (c : ConnId) (m : Msg) : K t.bus (hello t c m).1.bus := by
  unfold hello
  split; · exact L.refl _
  split; · exact L.refl _
  split; · exact L.refl _
  rename_i h1 h2 h3
  exact L.helloOk t c m (by simpa using h1) (by omega) (by omega)

theorem lv_beMonitor (L : Leaves K) (t : Tx) (c : ConnId) (rules : List MatchRule) : K t.bus (beMonitor t c rules).bus := by
  unfold beMonitor
  split
  · exact L.refl _
  · rename_i x _
    have h1 : K t.bus (t.mapBus (installMonitorRules c rules)).bus := L.installMonitor _ _ _
    have h2 : K (t.mapBus (installMonitorRules c rules)).bus (releaseAll (t.mapBus (installMonitorRules c rules)) c x.owned).bus :=
      lv_foldl L (fun t n => Dbus.Model.Bus.removeOwner t n c) (fun t n => L.removeOwner t n c) x.owned _
    have h3 : K (releaseAll (t.mapBus (installMonitorRules c rules)) c x.owned).bus
        ((releaseAll (t.mapBus (installMonitorRules c rules)) c x.owned).mapBus (joinMonitors c x rules)).bus :=
      L.joinMonitors _ _ _ _
    exact L.trans _ _ _ h1 (L.trans _ _ _ h2 h3)

theorem lv_runMethod (L : Leaves K) (t : Tx) (c : ConnId) (m : Msg) (w : Method)
    (hact : t.bus.isActive c = true ∨ w = .hello ∨ w = .opaqueM) : K t.bus (runMethod t c m w).1.bus := by
  have ha : w ≠ .hello → w ≠ .opaqueM → t.bus.isActive c = true := fun h1 h2 => by
    rcases hact with h | h | h
    · exact h
    · exact absurd h h1
    · exact absurd h h2
  cases w with
  | hello => exact lv_hello L t c m
  | requestName =>
    simp only [runMethod]
    have h := L.acquire t c (arg0 m) (arg1Nat m) (ha (by simp) (by simp))
    rcases hr : Dbus.Model.Bus.acquire t c (arg0 m) (arg1Nat m) with ⟨t1, r⟩
    rw [hr] at h
    cases r with
    | ok code => exact L.trans _ _ _ h (lv_reply L _ _ _ _ _)
    | error e => exact h
  | releaseName =>
    simp only [runMethod]
    have h := L.release t c (arg0 m)
    rcases hr : Dbus.Model.Bus.release t c (arg0 m) with ⟨t1, r⟩
    rw [hr] at h
    cases r with
    | ok code => exact L.trans _ _ _ h (lv_reply L _ _ _ _ _)
    | error e => exact h
  | nameHasOwner => exact lv_reply L _ _ _ _ _
  | listNames => exact lv_reply L _ _ _ _ _
  | getNameOwner =>
    simp only [runMethod]
    repeat' split
    all_goals first | exact lv_reply L _ _ _ _ _ | exact L.refl _
  | listQueuedOwners =>
    simp only [runMethod]
    repeat' split
    all_goals first | exact lv_reply L _ _ _ _ _ | exact L.refl _
  | getUnixUser =>
    simp only [runMethod]
    repeat' split
    all_goals first | exact lv_reply L _ _ _ _ _ | exact L.refl _
  | ping => exact lv_reply L _ _ _ _ _
  | addMatch =>
    simp only [runMethod]
    split
    · exact L.refl _
    · rename_i hlim
      split
      · split
        · exact L.refl _
        · rename_i r _ _
          exact L.trans _ _ _ (L.addRule t.bus c r (ha (by simp) (by simp)) (by omega))
            (lv_reply L ({ t with bus := t.bus.updRules c (· ++ [r]) } : Tx) c m [] [])
      · exact L.refl _
      · exact L.refl _
  | removeMatch =>
    simp only [runMethod]
    split
    · split
      · rename_i rs' hrs
        dsimp only
        refine L.trans _ _ _ (lv_reply L t c m [] []) ?_
        have hk := (step_reply t c m [] []).bus
        have : rulesOfConn (reply t c m [] []).bus c = rulesOfConn t.bus c := by
          unfold rulesOfConn Bus.conn?; rw [(core_eq_iff.mp hk).1]
        exact L.removeRule _ c _ rs' (by rw [this]; exact hrs)
      · exact lv_reply L _ _ _ _ _
    · exact L.refl _
    · exact L.refl _
  | becomeMonitor =>
    simp only [runMethod]
    repeat' split
    all_goals first
      | exact L.refl _
      | exact L.trans _ _ _ (lv_reply L t c m [] []) (lv_beMonitor L _ c _)
  | opaqueM =>
    simp only [runMethod]
    have hf := opaque_fold_frame (captureTargets t.bus none (some c) (stampDriver t.bus c (mkReturn m [] []))) m.serial t
    have g := L.gate ((captureTargets t.bus none (some c) (stampDriver t.bus c (mkReturn m [] []))).foldl
          (fun (t : Tx) r => { t with mon := t.mon ++ [Out.opaque r m.serial] }) t).bus none (some c) (some c)
          (stampDriver t.bus c (mkReturn m [] []))
    rw [hf.1] at g
    split
    · rename_i p e hp
      rw [(captureError_frame _ _ _ _).1]
      rw [hf.1] at hp
      rw [hp] at g
      show K t.bus { (List.foldl _ t _).bus with pending := p }
      rw [hf.1]; exact g
    · rename_i p hp
      rw [hf.1] at hp
      rw [hp] at g
      show K t.bus { (List.foldl _ t _).bus with pending := p }
      rw [hf.1]; exact g

/-- what `findHandler` can return: an interface row of the table that the message's interface (if
    any) names, and one of its method rows with the message's member -/
theorem findHandler_handler {tbl : List IfaceRow} {canonical : Bool} {iface : Option Bytes} {name i : Bytes} {row : MethodRow}
    (h : findHandler tbl canonical iface name = .handler i row) :
    (∀ x, iface = some x → x = i) ∧ row.name = name := by
  unfold findHandler findIn at h
  cases hfs : List.findSome? (handlerIn name)
      (tbl.filter fun ih => (canonical || ih.anyPath) && ifaceWanted iface ih.name) with
  | none =>
    rw [hfs] at h
    dsimp only at h
    split at h <;> cases h
  | some pr =>
    rw [hfs] at h
    obtain ⟨i', r'⟩ := pr
    simp only [Found.handler.injEq] at h
    obtain ⟨rfl, rfl⟩ := h
    obtain ⟨ih, hih, hm⟩ := List.exists_of_findSome?_eq_some hfs
    unfold handlerIn at hm
    simp only [Option.map_eq_some_iff, Prod.mk.injEq] at hm
    obtain ⟨r, hr, rfl, rfl⟩ := hm
    have hcand := (List.mem_filter.mp hih).2
    refine ⟨?_, by simpa using List.find?_some hr⟩
    intro x hx
    subst hx
    simp only [Bool.and_eq_true, ifaceWanted, beq_iff_eq] at hcand
    exact hcand.2

theorem methodOf_hello : methodOf BUS_NAME [0x48, 0x65, 0x6c, 0x6c, 0x6f] = .hello := by decide

/-- a method called Hello is the bus's Hello, or - in an interface other than org.freedesktop.DBus - one whose reply is not
    modelled: nothing that needs the caller to be registered -/
theorem methodOf_hello_cases (i : Bytes) :
    methodOf i [0x48, 0x65, 0x6c, 0x6c, 0x6f] = .hello ∨ methodOf i [0x48, 0x65, 0x6c, 0x6c, 0x6f] = .opaqueM := by
  unfold methodOf
  by_cases h : (i == BUS_NAME) = true
  · left; simp only [h, if_true]; rfl
  · right
    simp only [h, if_false]
    have h1 : (([0x48, 0x65, 0x6c, 0x6c, 0x6f] : Bytes) == ([0x50,0x69,0x6e,0x67] : Bytes)) = false := by decide
    have h2 : (([0x48, 0x65, 0x6c, 0x6c, 0x6f] : Bytes) == ([0x42,0x65,0x63,0x6f,0x6d,0x65,0x4d,0x6f,0x6e,0x69,0x74,0x6f,0x72] : Bytes)) = false := by decide
    simp only [h1, h2, Bool.and_false, Bool.false_eq_true, if_false]

theorem isActive_setPending (t : Tx) (p : List Pending) (c : ConnId) : (t.setPending p).bus.isActive c = t.bus.isActive c := rfl

theorem lv_driverHandle (L : Leaves K) (tbl : List IfaceRow) (t : Tx) (c : ConnId) (m : Msg)
    (hact : t.bus.isActive c = true ∨ isHello m = true) :
    K t.bus (driverHandle tbl t c m).1.bus := by
  unfold Dbus.Model.Bus.driverHandle
  dsimp only
  split
  · exact L.refl _
  · split
    · exact L.refl _
    · exact L.refl _
    · rename_i i row hf
      split
      · exact L.refl _
      · split
        · exact L.refl _
        · split
          · exact L.refl _
          · apply lv_runMethod L
            rcases hact with h | h
            · exact Or.inl h
            · right
              obtain ⟨_, h2⟩ := findHandler_handler hf
              unfold isHello at h
              simp only [Bool.and_eq_true, beq_iff_eq] at h
              have hn : row.name = [0x48, 0x65, 0x6c, 0x6c, 0x6f] := by
                rw [h2, h.2]; rfl
              rw [hn]; exact methodOf_hello_cases i

/-- the gate lets a connection that has not said Hello send nothing but Hello -/
theorem gate_active_or_hello {b : Bus} {c : ConnId} {m : Msg} {p : List Pending}
    (h : checkPolicy b (some c) none none m = (p, none)) : b.isActive c = true ∨ isHello m = true := by
  unfold checkPolicy at h
  split at h
  · cases h
  · dsimp only at h
    cases ha : b.isActive c with
    | true => exact Or.inl rfl
    | false =>
      right
      have hv : ∀ r, policyVerdict b (some c) none none m r = (if isHello m then none else some .accessDenied) := by
        intro r
        unfold policyVerdict
        simp [senderInactive, ha]
      rw [hv] at h
      cases hh : isHello m with
      | true => rfl
      | false => simp [hh] at h

theorem lv_toDriverCore (L : Leaves K) (tbl : List IfaceRow) (t : Tx) (c : ConnId) (m : Msg) :
    K t.bus (toDriverCore tbl t c m).1.bus := by
  unfold Dbus.Model.Bus.toDriverCore
  rcases hcp : checkPolicy t.bus (some c) none none m with ⟨p, e⟩
  dsimp only
  have h0 : K t.bus (t.setPending p).bus := by
    have := L.gate t.bus (some c) none none m
    rw [hcp] at this; exact this
  cases e with
  | some e => exact h0
  | none =>
    dsimp only
    have hact := gate_active_or_hello hcp
    have h1 := lv_driverHandle L tbl (t.setPending p) c m hact
    rcases hd : Dbus.Model.Bus.driverHandle tbl (t.setPending p) c m with ⟨t1, e1⟩
    rw [hd] at h1
    cases e1 with
    | some e1 => exact L.trans _ _ _ h0 h1
    | none => exact L.trans _ _ _ (L.trans _ _ _ h0 h1) (lv_dispatchMatches L t1 _ _ _)

theorem lv_toDriver (L : Leaves K) (tbl : List IfaceRow) (t : Tx) (c : ConnId) (m : Msg) :
    K t.bus (toDriver tbl t c m).1.bus :=
  lv_toDriverCore L tbl ({ t with mon := [] } : Tx) c m

theorem lv_sweepMonitors (L : Leaves K) (t : Tx) : K t.bus (sweepMonitors t).bus := by
  unfold sweepMonitors
  exact lv_foldl L (fun (t : Tx) (x : Conn) => dropPending t x.id) (fun t x => lv_dropPending L t x.id) _ t

theorem lv_finish (L : Leaves K) (b : Bus) (r : Tx × Option Err) (c : ConnId) (m : Msg) (h : K b r.1.bus) :
    K b (finish r c m).1 := by
  obtain ⟨t, e⟩ := r
  cases e with
  | none => exact h
  | some e => exact L.trans _ _ _ h (lv_sendError L t c m e)

theorem lv_disconnect (L : Leaves K) (b : Bus) (c : ConnId) : K b (disconnect b c).1 := by
  unfold Dbus.Model.Bus.disconnect
  split
  · exact L.refl _
  · rename_i x hx
    show K b (disconnectTx b c x).bus
    unfold disconnectTx
    refine L.trans _ _ _ (L.gcRules b c x hx) (L.trans _ _ _ (L.clearRules _ c) ?_)
    have h3 : K (clearRules (gcRules b x) c) (releaseAll ({ bus := clearRules (gcRules b x) c } : Tx) c x.owned.reverse).bus :=
      lv_foldl L (fun t n => Dbus.Model.Bus.removeOwner t n c) (fun t n => L.removeOwner t n c) x.owned.reverse
        ({ bus := clearRules (gcRules b x) c } : Tx)
    refine L.trans _ _ _ h3 ?_
    refine L.trans _ _ _ (L.removeConn _ c) ?_
    exact lv_dropPending L ((releaseAll ({ bus := clearRules (gcRules b x) c } : Tx) c x.owned.reverse).mapBus (removeConn c)) c

theorem lv_dispatch (L : Leaves K) (tbl : List IfaceRow) (b : Bus) (c : ConnId) (m0 : Msg) : K b (dispatch tbl b c m0).1 := by
  unfold Dbus.Model.Bus.dispatch
  split
  · exact L.refl _
  · dsimp only
    split
    · exact L.refl _
    · split
      · exact lv_disconnect L b c
      · split
        · exact L.refl _
        · split
          · exact L.trans _ _ _ (lv_finish L b _ c _ (lv_toDriver L tbl ({ bus := b } : Tx) c _)) (lv_sweepMonitors L _)
          · split
            · exact lv_disconnect L b c
            · exact lv_finish L b _ c _ (lv_route L ({ bus := b } : Tx) c _)

/-- **every step respects K** -/
theorem lv_step (L : Leaves K) (tbl : List IfaceRow) (b : Bus) (ev : Ev) : K b (step tbl b ev).1 := by
  cases ev with
  | connect c uid gids canFd =>
    simp only [Dbus.Model.Bus.step]
    split
    · exact L.refl _
    · rename_i h
      exact L.connect b c uid gids canFd (by simpa using h)
  | msg c m => exact lv_dispatch L tbl b c m
  | invalid c =>
    simp only [Dbus.Model.Bus.step]
    split
    · exact L.refl _
    · exact lv_disconnect L b c
  | close c => exact lv_disconnect L b c
  | timeout =>
    simp only [Dbus.Model.Bus.step, expireAll]
    exact L.trans _ _ _ (L.expire b)
      (lv_foldl L (fun (t : Tx) (p : Pending) => sendError t p.caller (fakeCall p.serial) .noReply)
        (fun t p => lv_sendError L t _ _ _) b.pending ({ bus := { b with pending := [] } } : Tx))
  | expire due =>
    show K b (expireWhere b (due.contains ·)).bus
    unfold expireWhere
    exact L.trans _ _ _ (L.expireSome b (fun p => !due.contains p))
      (lv_foldl L (fun (t : Tx) (p : Pending) => sendError t p.caller (fakeCall p.serial) .noReply)
        (fun t p => lv_sendError L t _ _ _) (b.pending.filter (due.contains ·))
        ({ bus := { b with pending := b.pending.filter fun p => !due.contains p } } : Tx))
  | stall c on => exact L.setFull b _
  | reload p => exact L.setPolicy b p

/-- a state predicate kept by every leaf is an invariant of all reachable states -/
def keeps (P : Bus → Prop) (b b' : Bus) : Prop := P b → P b'

theorem foldl_inv {P : Bus → Prop} (tbl : List IfaceRow) (hstep : ∀ b ev, P b → P (step tbl b ev).1) :
    ∀ (evs : List Ev) (b : Bus) (acc : List (List Out)), P b →
      P (evs.foldl (fun (a : Bus × List (List Out)) ev => ((step tbl a.1 ev).1, a.2 ++ [(step tbl a.1 ev).2])) (b, acc)).1
  | [], _, _, h => h
  | ev :: evs, b, acc, h => by
    simp only [List.foldl_cons]
    exact foldl_inv tbl hstep evs _ _ (hstep b ev h)

theorem run_inv {P : Bus → Prop} (tbl : List IfaceRow) (hstep : ∀ b ev, P b → P (step tbl b ev).1)
    (b : Bus) (evs : List Ev) (h : P b) : P (run tbl b evs).1 := by
  unfold run
  exact foldl_inv tbl hstep evs b [] h

theorem invariant_of_leaves {P : Bus → Prop} (L : Leaves (keeps P)) (tbl : List IfaceRow) (b : Bus) (evs : List Ev)
    (h : P b) : P (run tbl b evs).1 :=
  run_inv tbl (fun b ev hb => lv_step L tbl b ev hb) b evs h

end Dbus.Proofs.Bus
