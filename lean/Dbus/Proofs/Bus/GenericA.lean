import Dbus.Proofs.Bus.Limits
import Dbus.Proofs.Bus.Timed
/-
  The leaf induction of `Generic.lean`, lifted to the activation layer (`stepA`) and the clock layer
  (`stepT`): whatever relation on bus states the state-changing primitives of the core keep, every
  step of the bus *with service activation and with time* keeps too.  The layers add no primitive
  of their own: they hold messages back, start programs and tell the core which entries have timed
  out, and whatever they do to the core's state they do through the gate, the registry and the
  driver's sends.  Hence every invariant proved for the core by `invariant_of_leaves` (limits,
  queue shapes, pending replies) is an invariant of all states reachable with activation and time.
-/
namespace Dbus.Proofs.Bus
open Dbus Dbus.Spec Dbus.Model Dbus.Model.Bus

variable {K : Bus → Bus → Prop}

theorem lvA_sendErrorNamed (L : Leaves K) (t : Tx) (to : ConnId) (m : Msg) (name : Bytes) :
    K t.bus (sendErrorNamed t to m name).bus := lv_sendFromDriver L t to _

theorem lvA_activateService (L : Leaves K) (files : List SvcFile) (maxP : Nat) (x : ATx) (c : ConnId) (auto : Bool) (m : Msg) (n : Bytes) :
    K x.t.bus (activateService files maxP x c auto m n).1.t.bus := by
  unfold activateService
  repeat' split
  all_goals first
    | exact L.refl _
    | exact lv_reply L _ _ _ _ _

theorem replyStarted_bus (t : Tx) (e : ActEntry) : (replyStarted t e).bus = t.bus := by
  unfold replyStarted
  split
  · exact reply_bus _ _ _ _ _
  · rfl

theorem serviceCreated_bus (t : Tx) (pa : PendingAct) : (serviceCreated t pa).bus = t.bus :=
  fold_bus replyStarted replyStarted_bus pa.entries t

theorem lvA_deliverHeld (L : Leaves K) (owner : ConnId) (t : Tx) (e : ActEntry) : K t.bus (deliverHeld owner t e).bus := by
  unfold deliverHeld
  split
  · have h := lv_dispatchMatches L t (some e.conn) (some owner) e.msg
    rcases hd : dispatchMatches t (some e.conn) (some owner) e.msg with ⟨t1, err⟩
    rw [hd] at h
    cases err with
    | some err => exact L.trans _ _ _ h (lv_sendError L t1 e.conn e.msg err)
    | none => exact h
  · exact L.refl _

theorem lvA_sendPending (L : Leaves K) (x : ATx) (n : Bytes) : K x.t.bus (sendPending x n).t.bus := by
  unfold sendPending
  split
  · rename_i pa owner _ _
    exact lv_foldl L (deliverHeld owner) (fun t e => lvA_deliverHeld L owner t e) pa.entries x.t
  · exact L.refl _

/-- the first acquisition of a name, as the activation layer spells it out, leaves the bus in the
    state the core's `acquire` leaves it in -/
theorem acquireA_fresh_bus (t : Tx) (c : ConnId) (n : Bytes) (flags : Nat)
    (h1 : validateBusName n = true) (h2 : ¬ (n.head? == some 0x3a) = true) (h3 : ¬ (n == BUS_NAME) = true)
    (h4 : canOwn (connPolicy t.bus c) n = true) (h5 : ¬ nOwned t.bus c ≥ t.bus.limits.maxNames)
    (he : (ownersOf t.bus n).isEmpty = true) :
    (acquire t c n flags).1.bus = syncOwned (t.bus.setOwners n [mkOwner c flags]) n [] [mkOwner c flags] := by
  have hnil : ownersOf t.bus n = [] := by simpa using he
  unfold acquire
  simp only [h1, h2, h3, h4, h5, Bool.not_true, Bool.false_eq_true, if_false, Bool.not_false, if_true]
  rw [applyQueue_bus, hnil]
  have hq : (qAcquire [] c flags).1 = [mkOwner c flags] := by
    simp [qAcquire, qEnsure, qAdd, inQueue]
  rw [hq]

theorem lvA_acquireA (L : Leaves K) (x : ATx) (c : ConnId) (n : Bytes) (flags : Nat) (hact : x.t.bus.isActive c = true) :
    K x.t.bus (acquireA x c n flags).1.t.bus := by
  unfold acquireA
  split; · exact L.refl _
  split; · exact L.refl _
  split; · exact L.refl _
  split; · exact L.refl _
  split; · exact L.refl _
  rename_i h1 h2 h3 h4 h5
  split
  · rename_i he
    dsimp only
    refine L.trans _ _ _ ?_ (lvA_sendPending L _ n)
    have hA := L.acquire x.t c n flags hact
    rw [acquireA_fresh_bus x.t c n flags (by simpa using h1) (by simpa using h2) (by simpa using h3) (by simpa using h4) (by simpa using h5) he] at hA
    cases hfa : findAct x.acts n with
    | none =>
      show K x.t.bus (syncOwned (Bus.setOwners (emitSig n (emitSig n x.t (.changed none (some c))) (.acquired c)).bus n [mkOwner c flags]) n [] [mkOwner c flags])
      rw [emitSig_bus, emitSig_bus]
      exact hA
    | some pa =>
      show K x.t.bus (syncOwned (Bus.setOwners (emitSig n (serviceCreated (emitSig n x.t (.changed none (some c))) pa) (.acquired c)).bus n [mkOwner c flags]) n [] [mkOwner c flags])
      rw [emitSig_bus, serviceCreated_bus, emitSig_bus]
      exact hA
  · exact L.trans _ _ _ (L.acquire x.t c n flags hact) (lvA_sendPending L { x with t := (acquire x.t c n flags).1 } n)

theorem methodOf_requestName_ne_hello : methodOf BUS_NAME REQUEST_NAME ≠ .hello := by decide
theorem requestName_ne_hello : REQUEST_NAME ≠ ([0x48, 0x65, 0x6c, 0x6c, 0x6f] : Bytes) := by decide

theorem lvA_runMethodA (L : Leaves K) (files : List SvcFile) (maxP : Nat) (x : ATx) (c : ConnId) (m : Msg) (iface name : Bytes)
    (hact : x.t.bus.isActive c = true ∨ name = ([0x48, 0x65, 0x6c, 0x6c, 0x6f] : Bytes)) :
    K x.t.bus (runMethodA files maxP x c m iface name).1.t.bus := by
  unfold runMethodA
  split
  · exact lvA_activateService L files maxP x c false m _
  · split
    · rename_i hreq
      have ha : x.t.bus.isActive c = true := by
        rcases hact with h | hn
        · exact h
        · exfalso
          have : name = REQUEST_NAME := by
            simp only [Bool.and_eq_true, beq_iff_eq] at hreq
            exact hreq.2
          exact requestName_ne_hello (this.symm.trans hn)
      have h := lvA_acquireA L x c (arg0 m) (arg1Nat m) ha
      rcases hr : acquireA x c (arg0 m) (arg1Nat m) with ⟨x1, r⟩
      rw [hr] at h
      cases r with
      | ok code => exact L.trans _ _ _ h (lv_reply L _ _ _ _ _)
      | error e => exact h
    · have hm : x.t.bus.isActive c = true ∨ methodOf iface name = .hello ∨ methodOf iface name = .opaqueM := by
        rcases hact with h | hn
        · exact Or.inl h
        · right; rw [hn]; exact methodOf_hello_cases iface
      have h := lv_runMethod L x.t c m (methodOf iface name) hm
      rcases hr : runMethod x.t c m (methodOf iface name) with ⟨t1, e⟩
      rw [hr] at h
      exact h

theorem lvA_driverHandleA (L : Leaves K) (tbl : List IfaceRow) (files : List SvcFile) (maxP : Nat) (x : ATx) (c : ConnId) (m : Msg)
    (hact : x.t.bus.isActive c = true ∨ isHello m = true) :
    K x.t.bus (driverHandleA tbl files maxP x c m).1.t.bus := by
  unfold driverHandleA
  dsimp only
  split
  · exact L.refl _
  · split
    · exact L.refl _
    · exact L.refl _
    · rename_i i row hf
      split
      · exact L.refl _
      · split
        · exact L.refl _
        · split
          · exact L.refl _
          · apply lvA_runMethodA L
            rcases hact with h | h
            · exact Or.inl h
            · right
              obtain ⟨_, h2⟩ := findHandler_handler hf
              unfold isHello at h
              simp only [Bool.and_eq_true, beq_iff_eq] at h
              rw [h2, h.2]; rfl

theorem lvA_toDriverCoreA (L : Leaves K) (tbl : List IfaceRow) (files : List SvcFile) (maxP : Nat) (x : ATx) (c : ConnId) (m : Msg) :
    K x.t.bus (toDriverCoreA tbl files maxP x c m).1.t.bus := by
  unfold toDriverCoreA
  rcases hcp : checkPolicy x.t.bus (some c) none none m with ⟨p, e⟩
  dsimp only
  have h0 : K x.t.bus (x.t.setPending p).bus := by
    have := L.gate x.t.bus (some c) none none m
    rw [hcp] at this; exact this
  cases e with
  | some e => exact h0
  | none =>
    dsimp only
    have hact := gate_active_or_hello hcp
    have h1 := lvA_driverHandleA L tbl files maxP { x with t := x.t.setPending p } c m hact
    rcases hd : driverHandleA tbl files maxP { x with t := x.t.setPending p } c m with ⟨x1, e1⟩
    rw [hd] at h1
    cases e1 with
    | some e1 => exact L.trans _ _ _ h0 h1
    | none =>
      dsimp only
      have h2 := lv_dispatchMatches L x1.t (some c) none (m.setSender (senderNameOf x1.t.bus c))
      rcases hdm : dispatchMatches x1.t (some c) none (m.setSender (senderNameOf x1.t.bus c)) with ⟨t2, e2⟩
      rw [hdm] at h2
      exact L.trans _ _ _ (L.trans _ _ _ h0 h1) h2

theorem lvA_toDriverA (L : Leaves K) (tbl : List IfaceRow) (files : List SvcFile) (maxP : Nat) (x : ATx) (c : ConnId) (m : Msg) :
    K x.t.bus (toDriverA tbl files maxP x c m).1.t.bus :=
  lvA_toDriverCoreA L tbl files maxP { x with t := { x.t with mon := [] } } c m

theorem lvA_routeA (L : Leaves K) (files : List SvcFile) (maxP : Nat) (x : ATx) (c : ConnId) (m : Msg) :
    K x.t.bus (routeA files maxP x c m).1.t.bus := by
  unfold routeA
  split
  · split
    · split
      · show K x.t.bus (capture x.t (some c) none m).bus
        rw [(capture_frame _ _ _ _).1]; exact L.refl _
      · rename_i o d hd p hp hn
        have h := lvA_activateService L files maxP { x with t := capture x.t (some c) none m } c true m d
        rw [show ({ x with t := capture x.t (some c) none m } : ATx).t.bus = x.t.bus from (capture_frame _ _ _ _).1] at h
        exact h
    · rename_i a _
      have h := lv_dispatchMatches L (capture x.t (some c) (some a) m) (some c) (some a) m
      rw [(capture_frame _ _ _ _).1] at h
      rcases hd : dispatchMatches (capture x.t (some c) (some a) m) (some c) (some a) m with ⟨t1, e⟩
      rw [hd] at h
      exact h
  · have h := lv_dispatchMatches L (capture x.t (some c) none m) (some c) none m
    rw [(capture_frame _ _ _ _).1] at h
    rcases hd : dispatchMatches (capture x.t (some c) none m) (some c) none m with ⟨t1, e⟩
    rw [hd] at h
    exact h

theorem lvA_finishA (L : Leaves K) (b : Bus) (r : ATx × Option Bytes) (c : ConnId) (m : Msg) (h : K b r.1.t.bus) :
    K b (finishA r c m).t.bus := by
  obtain ⟨x, e⟩ := r
  cases e with
  | none => exact h
  | some e => exact L.trans _ _ _ h (lvA_sendErrorNamed L x.t c m e)

theorem lvA_dispatchA (L : Leaves K) (tbl : List IfaceRow) (a : ABus) (c : ConnId) (m0 : Msg) :
    K a.core (dispatchA tbl a c m0).t.bus := by
  unfold dispatchA
  split
  · exact L.refl _
  · dsimp only
    split
    · exact lv_dispatch L tbl a.core c m0
    · split
      · exact lv_dispatch L tbl a.core c m0
      · split
        · exact lv_dispatch L tbl a.core c m0
        · split
          · exact L.trans _ _ _
              (lvA_finishA L a.core _ c _ (lvA_toDriverA L tbl a.files a.maxPending (ofCore a { bus := a.core }) c _))
              (lv_sweepMonitors L _)
          · split
            · exact lv_dispatch L tbl a.core c m0
            · exact lvA_finishA L a.core _ c _ (lvA_routeA L a.files a.maxPending (ofCore a { bus := a.core }) c _)

theorem lvA_failEntry (L : Leaves K) (err : Bytes) (t : Tx) (e : ActEntry) : K t.bus (failEntry err t e).bus := by
  unfold failEntry
  split
  · exact lvA_sendErrorNamed L _ _ _ _
  · exact L.refl _

theorem lvA_failAct (L : Leaves K) (err : Bytes) (x : ATx) (pa : PendingAct) : K x.t.bus (failAct err x pa).t.bus :=
  lv_foldl L (failEntry err) (fun t e => lvA_failEntry L err t e) pa.entries x.t

theorem lvA_failActs (L : Leaves K) (err : Bytes) : ∀ (ps : List PendingAct) (x : ATx), K x.t.bus (ps.foldl (failAct err) x).t.bus
  | [], _ => L.refl _
  | p :: ps, x => L.trans _ _ _ (lvA_failAct L err x p) (lvA_failActs L err ps _)

theorem lvA_childFailed (L : Leaves K) (x : ATx) (n err : Bytes) : K x.t.bus (childFailed x n err).t.bus := by
  unfold childFailed
  split
  · exact L.refl _
  · rename_i pa _
    exact L.trans _ _ _ (lvA_failActs L err _ x) (lvA_failAct L err _ pa)

theorem lvA_timedOut (L : Leaves K) (x : ATx) (n : Bytes) : K x.t.bus (timedOut x n).t.bus := by
  unfold timedOut
  split
  · exact L.refl _
  · rename_i pa _
    exact lvA_failAct L ERR_TIMED_OUT x pa

/-- **every step of the bus with activation respects K** -/
theorem lvA_step (L : Leaves K) (tbl : List IfaceRow) (a : ABus) (ev : AEv) : K a.core (stepA tbl a ev).t.bus := by
  cases ev with
  | core e =>
    cases e with
    | msg c m => exact lvA_dispatchA L tbl a c m
    | connect c uid gids canFd => exact lv_step L tbl a.core _
    | invalid c => exact lv_step L tbl a.core _
    | close c => exact lv_step L tbl a.core _
    | timeout => exact lv_step L tbl a.core _
    | expire due => exact lv_step L tbl a.core _
    | stall c on => exact lv_step L tbl a.core _
    | reload p => exact lv_step L tbl a.core _
  | childExited k err =>
    cases err with
    | none => exact L.refl _
    | some err =>
      simp only [stepA]
      split
      · exact lvA_childFailed L (ofCore a { bus := a.core }) _ err
      · exact L.refl _
  | execFailed n =>
    simp only [stepA]
    repeat' split
    all_goals first
      | exact L.refl _
      | exact lvA_childFailed L (ofCore a { bus := a.core }) n ERR_EXEC_FAILED
  | actTimeout n => exact lvA_timedOut L (ofCore a { bus := a.core }) n

theorem lvT_fireActs (L : Leaves K) (tbl : List IfaceRow) : ∀ (ns : List Bytes) (t : TBus) (acc : List ATx),
    K t.a.core (fireActs tbl ns t acc).1.a.core
  | [], _, _ => L.refl _
  | n :: ns, t, acc => by
    unfold fireActs
    exact L.trans _ _ _ (lvA_step L tbl t.a (.actTimeout n)) (lvT_fireActs L tbl ns (t.next (stepA tbl t.a (.actTimeout n))) _)

/-- **every step of the bus with activation and time respects K** -/
theorem lvT_step (L : Leaves K) (tbl : List IfaceRow) (t : TBus) (ev : TEv) : K t.a.core (stepT tbl t ev).1.a.core := by
  cases ev with
  | ev e => exact lvA_step L tbl t.a e
  | advance dt =>
    simp only [stepT]
    exact L.trans _ _ _ (lvA_step L tbl t.a (.core (.expire (dueSlots { t with now := t.now + dt } (t.now + dt)))))
      (lvT_fireActs L tbl _ (({ t with now := t.now + dt } : TBus).next
        (stepA tbl t.a (.core (.expire (dueSlots { t with now := t.now + dt } (t.now + dt)))))) _)

/-- a state predicate kept by every leaf holds in every state the bus can reach, with service
    activation and with time -/
theorem invariant_of_leaves_T {P : Bus → Prop} (L : Leaves (keeps P)) (tbl : List IfaceRow) (evs : List TEv) (t : TBus)
    (h : P t.a.core) : P (runT tbl t evs).1.a.core := by
  unfold runT
  suffices hh : ∀ (evs : List TEv) (acc : TBus × List (List ATx)), P acc.1.a.core →
      P (evs.foldl (fun (acc : TBus × List (List ATx)) ev => ((stepT tbl acc.1 ev).1, acc.2 ++ [(stepT tbl acc.1 ev).2])) acc).1.a.core from
    hh evs (t, []) h
  intro evs
  induction evs with
  | nil => intro acc h; exact h
  | cons ev evs ih => intro acc h; simp only [List.foldl_cons]; exact ih _ (lvT_step L tbl acc.1 ev h)

theorem invariant_of_leaves_A {P : Bus → Prop} (L : Leaves (keeps P)) (tbl : List IfaceRow) (evs : List AEv) (a : ABus)
    (h : P a.core) : P (runA tbl a evs).1.core := by
  unfold runA
  suffices hh : ∀ (evs : List AEv) (acc : ABus × List ATx), P acc.1.core →
      P (evs.foldl (fun (acc : ABus × List ATx) ev => (acc.1.next (stepA tbl acc.1 ev), acc.2 ++ [stepA tbl acc.1 ev])) acc).1.core from
    hh evs (a, []) h
  intro evs
  induction evs with
  | nil => intro acc h; exact h
  | cons ev evs ih => intro acc h; simp only [List.foldl_cons]; exact ih _ (lvA_step L tbl acc.1 ev h)

end Dbus.Proofs.Bus
