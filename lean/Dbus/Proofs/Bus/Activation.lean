import Dbus.Model.Bus.Activation
import Dbus.Props.C05
/-
  Lemmas about the activation layer: what delivering held messages, answering waiters and failing a
  pending activation add to the output, entry by entry; which steps start programs; well-formedness
  of the table of pending activations.
-/
namespace Dbus.Proofs.Bus
open Dbus Dbus.Spec Dbus.Model Dbus.Model.Bus Dbus.Props.C05

/-- the two lists have the same length and are related element by element, in order -/
inductive Each₂ {α β : Type} (R : α → β → Prop) : List α → List β → Prop
  | nil : Each₂ R [] []
  | cons {a : α} {b : β} {as : List α} {bs : List β} (h : R a b) (t : Each₂ R as bs) : Each₂ R (a :: as) (b :: bs)

theorem Each₂.length_eq {α β : Type} {R : α → β → Prop} {as : List α} {bs : List β} (h : Each₂ R as bs) : as.length = bs.length := by
  induction h with
  | nil => rfl
  | cons _ _ ih => simp [ih]

/-! ### connectedness only depends on the connection list -/

theorem connected_core {b b' : Bus} (h : core b' = core b) (c : ConnId) : connected b' c = connected b c := by
  have hc : b'.conns = b.conns := (core_eq_iff.mp h).1
  unfold connected Bus.conn?
  rw [hc]

/-! ### errors made by the bus -/

/-- an error reply made by the bus for `m`: type 3, the message's serial, from the bus -/
def IsErrorFor (m x : Msg) : Prop := x.mtype = 3 ∧ x.replySerial = m.serial ∧ x.sender = some BUS_NAME

theorem known_mkErrorNamed (m : Msg) (name : Bytes) : KnownFields (mkErrorNamed m name) := by
  unfold mkErrorNamed
  apply known_mkMsg
  intro f hf
  simp only [List.mem_append, List.mem_cons, List.mem_nil_iff, or_false] at hf
  rcases hf with (rfl | rfl) | hf
  · simp [u32Field, FIELD_REPLY_SERIAL]
  · simp [strField, FIELD_ERROR_NAME]
  · cases hs : m.sender with
    | none => simp [hs] at hf
    | some s => simp [hs] at hf; subst hf; simp [strField, FIELD_DESTINATION]

theorem replySerial_mkErrorNamed (m : Msg) (name : Bytes) : (mkErrorNamed m name).replySerial = m.serial := by
  unfold mkErrorNamed mkMsg Msg.replySerial getField
  simp [u32Field, FIELD_REPLY_SERIAL, natOf, List.find?_cons]

/-- what sending an error adds: nothing (the receiver's own policy refuses it) or exactly that error -/
theorem sendErrorNamed_spec (t : Tx) (to : ConnId) (m : Msg) (name : Bytes) :
    core (sendErrorNamed t to m name).bus = core t.bus ∧
    ((sendErrorNamed t to m name).out = t.out ∨
     ∃ x, (sendErrorNamed t to m name).out = t.out ++ [Out.deliver to x] ∧ IsErrorFor m x) := by
  unfold sendErrorNamed
  obtain ⟨hc, ho⟩ := sendFromDriver_spec t to (mkErrorNamed m name)
  refine ⟨hc, ?_⟩
  rcases ho with h | h
  · exact Or.inl h
  · refine Or.inr ⟨_, h, by rw [stampDriver_mtype]; rfl, ?_, (stampDriver_busMade t.bus to (known_mkErrorNamed m name)).1⟩
    rw [replySerial_stampDriver, replySerial_mkErrorNamed]

theorem sendError_spec' (t : Tx) (to : ConnId) (m : Msg) (e : Err) :
    core (sendError t to m e).bus = core t.bus ∧
    ((sendError t to m e).out = t.out ∨ ∃ x, (sendError t to m e).out = t.out ++ [Out.deliver to x] ∧ IsErrorFor m x) :=
  sendErrorNamed_spec t to m e.name

/-! ### one held message -/

/-- what one entry of a pending activation contributes when the name is taken by `owner` -/
inductive HeldOut (owner : ConnId) (e : ActEntry) : List Out → Prop
  /-- not an auto-start entry, or its sender has gone -/
  | skipped : HeldOut owner e []
  /-- delivered: one copy to the new owner, first, then copies of the same message to eavesdroppers (never the owner again) -/
  | delivered (l : List Out) (h : ∀ o ∈ l, ∃ to, o = Out.deliver to e.msg ∧ to ≠ owner) : HeldOut owner e (Out.deliver owner e.msg :: l)
  /-- refused by the policy gate, now that there is a recipient: nothing is delivered, the sender gets the error
      (unless its own policy refuses even that) -/
  | refused (l : List Out) (h : l = [] ∨ ∃ x, l = [Out.deliver e.conn x] ∧ IsErrorFor e.msg x) : HeldOut owner e l

theorem sublist_deliver_ne (m : Msg) (owner : ConnId) (rs : List ConnId) (h : owner ∉ rs) (l : List Out)
    (hs : l.Sublist (rs.map fun r => Out.deliver r m)) : ∀ o ∈ l, ∃ to, o = Out.deliver to m ∧ to ≠ owner := by
  intro o ho
  have := hs.subset ho
  simp only [List.mem_map] at this
  obtain ⟨r, hr, rfl⟩ := this
  exact ⟨r, rfl, fun heq => h (heq ▸ hr)⟩

theorem deliverHeld_spec (owner : ConnId) (t : Tx) (e : ActEntry) :
    core (deliverHeld owner t e).bus = core t.bus ∧
    ∃ l, (deliverHeld owner t e).out = t.out ++ l ∧ HeldOut owner e l := by
  unfold deliverHeld
  split
  · -- auto-start entry of a connected sender
    unfold dispatchMatches
    simp only
    obtain ⟨hc, ho⟩ := sendAddressed_spec t (some e.conn) owner e.msg
    cases hsa : sendAddressed t (some e.conn) owner e.msg with
    | mk t1 err =>
      rw [hsa] at hc ho
      cases err with
      | some err =>
        simp only at ho ⊢
        rcases ho with ⟨h0, _⟩ | ⟨_, h1⟩
        · cases h0
        · obtain ⟨hc2, ho2⟩ := sendError_spec' t1 e.conn e.msg err
          refine ⟨hc2.trans hc, ?_⟩
          rcases ho2 with h | ⟨x, h, hx⟩
          · exact ⟨[], by rw [h, h1]; simp, .refused [] (Or.inl rfl)⟩
          · exact ⟨[Out.deliver e.conn x], by rw [h, h1], .refused _ (Or.inr ⟨x, rfl, hx⟩)⟩
      | none =>
        simp only at ho ⊢
        rcases ho with ⟨_, h1⟩ | ⟨h0, _⟩
        · obtain ⟨hc2, _⟩ := sendMatches_spec t1 (some e.conn) (some owner) e.msg
          obtain ⟨l, hl, hs⟩ := sendMatches_sublist t1 (some e.conn) (some owner) e.msg
          refine ⟨hc2.trans hc, Out.deliver owner e.msg :: l, by rw [hl, h1]; simp, ?_⟩
          exact .delivered l (sublist_deliver_ne e.msg owner _ (addressed_not_recipient _ _ owner e.msg) l hs)
        · exact absurd rfl h0
  · exact ⟨rfl, [], by simp, .skipped⟩

/-- **the held messages, entry by entry, in arrival order** -/
theorem deliverHeld_fold (owner : ConnId) : ∀ (es : List ActEntry) (t : Tx),
    core (es.foldl (deliverHeld owner) t).bus = core t.bus ∧
    ∃ ls : List (List Out), (es.foldl (deliverHeld owner) t).out = t.out ++ ls.flatten ∧
      Each₂ (HeldOut owner) es ls
  | [], t => ⟨rfl, [], by simp, .nil⟩
  | e :: es, t => by
    simp only [List.foldl_cons]
    obtain ⟨hc1, l, hl, hh⟩ := deliverHeld_spec owner t e
    obtain ⟨hc, ls, hls, hf⟩ := deliverHeld_fold owner es (deliverHeld owner t e)
    exact ⟨hc.trans hc1, l :: ls, by rw [hls, hl]; simp, .cons hh hf⟩

/-- when does an entry get its message through: exactly when it is an auto-start entry of a sender
    that is still connected and the gate lets the message pass to the new owner -/
theorem deliverHeld_delivers (owner : ConnId) (t : Tx) (e : ActEntry) (p : List Pending)
    (ha : e.auto = true) (hc : connected t.bus e.conn = true)
    (hpol : checkPolicy t.bus (some e.conn) (some owner) (some owner) e.msg = (p, none))
    (hfd : (decide (e.msg.nFds > 0) && !canFdOf t.bus owner) = false) :
    ∃ l, (deliverHeld owner t e).out = t.out ++ Out.deliver owner e.msg :: l := by
  unfold deliverHeld
  simp only [ha, hc, Bool.and_self, if_true]
  have hsa : sendAddressed t (some e.conn) owner e.msg = ((t.setPending p).emit (.deliver owner e.msg), none) := by
    unfold sendAddressed
    simp only [hpol, hfd, Bool.false_eq_true, if_false]
  unfold dispatchMatches
  simp only [hsa]
  obtain ⟨l, hl, _⟩ := sendMatches_sublist ((t.setPending p).emit (.deliver owner e.msg)) (some e.conn) (some owner) e.msg
  exact ⟨l, by rw [hl]; simp⟩

/-! ### StartServiceByName waiters -/

/-- a method return made by the bus for `m` carrying one `u32` -/
def IsStartReply (code : Nat) (m x : Msg) : Prop :=
  x.mtype = 2 ∧ x.replySerial = m.serial ∧ x.sender = some BUS_NAME ∧ x.body = [.fixed .u32 code]

inductive StartedOut (e : ActEntry) : List Out → Prop
  | skipped : StartedOut e []
  | answered (x : Msg) (h : IsStartReply 1 e.msg x) : StartedOut e [Out.deliver e.conn x]

theorem replySerial_mkReturn (m : Msg) (tys : List Ty) (body : List Val) : (mkReturn m tys body).replySerial = m.serial := by
  unfold mkReturn mkMsg Msg.replySerial getField
  by_cases h : tys.isEmpty <;> simp [h, u32Field, FIELD_REPLY_SERIAL, natOf, List.find?_cons]

theorem setFieldList_body (m : Msg) (f : Field) : (m.setField f).body = m.body := rfl

theorem stampDriver_body (b : Bus) (to : ConnId) (m : Msg) : (stampDriver b to m).body = m.body := by
  unfold stampDriver
  cases b.nameOf to <;> rfl

theorem reply_spec (t : Tx) (c : ConnId) (call : Msg) (code : Nat) :
    core (reply t c call [tU32] [.fixed .u32 code]).bus = core t.bus ∧
    ((reply t c call [tU32] [.fixed .u32 code]).out = t.out ∨
     ∃ x, (reply t c call [tU32] [.fixed .u32 code]).out = t.out ++ [Out.deliver c x] ∧ IsStartReply code call x) := by
  unfold reply
  obtain ⟨hc, ho⟩ := sendFromDriver_spec t c (mkReturn call [tU32] [.fixed .u32 code])
  refine ⟨hc, ?_⟩
  rcases ho with h | h
  · exact Or.inl h
  · refine Or.inr ⟨_, h, by rw [stampDriver_mtype]; rfl, ?_, (stampDriver_busMade t.bus c (known_mkReturn call _ _)).1, ?_⟩
    · rw [replySerial_stampDriver, replySerial_mkReturn]
    · rw [stampDriver_body]; rfl

theorem replyStarted_spec (t : Tx) (e : ActEntry) :
    core (replyStarted t e).bus = core t.bus ∧
    ∃ l, (replyStarted t e).out = t.out ++ l ∧ (l = [] ∨ StartedOut e l) := by
  unfold replyStarted
  split
  · obtain ⟨hc, ho⟩ := reply_spec t e.conn e.msg 1
    refine ⟨hc, ?_⟩
    rcases ho with h | ⟨x, h, hx⟩
    · exact ⟨[], by rw [h]; simp, Or.inl rfl⟩
    · exact ⟨_, h, Or.inr (.answered x hx)⟩
  · exact ⟨rfl, [], by simp, Or.inl rfl⟩

/-! ### failure fan-out -/

/-- what one entry of a failed activation contributes -/
inductive FailOut (e : ActEntry) : List Out → Prop
  | none : FailOut e []
  | error (x : Msg) (h : IsErrorFor e.msg x) : FailOut e [Out.deliver e.conn x]

theorem failEntry_spec (err : Bytes) (t : Tx) (e : ActEntry) :
    core (failEntry err t e).bus = core t.bus ∧ ∃ l, (failEntry err t e).out = t.out ++ l ∧ FailOut e l := by
  unfold failEntry
  split
  · obtain ⟨hc, ho⟩ := sendErrorNamed_spec t e.conn e.msg err
    refine ⟨hc, ?_⟩
    rcases ho with h | ⟨x, h, hx⟩
    · exact ⟨[], by rw [h]; simp, .none⟩
    · exact ⟨_, h, .error x hx⟩
  · exact ⟨rfl, [], by simp, .none⟩

theorem failEntry_fold (err : Bytes) : ∀ (es : List ActEntry) (t : Tx),
    core (es.foldl (failEntry err) t).bus = core t.bus ∧
    ∃ ls : List (List Out), (es.foldl (failEntry err) t).out = t.out ++ ls.flatten ∧ Each₂ FailOut es ls
  | [], t => ⟨rfl, [], by simp, .nil⟩
  | e :: es, t => by
    simp only [List.foldl_cons]
    obtain ⟨hc1, l, hl, hh⟩ := failEntry_spec err t e
    obtain ⟨hc, ls, hls, hf⟩ := failEntry_fold err es (failEntry err t e)
    exact ⟨hc.trans hc1, l :: ls, by rw [hls, hl]; simp, .cons hh hf⟩

/-- a connected waiter whose policy lets the bus's error through gets exactly one -/
theorem failEntry_exactly_one (err : Bytes) (t : Tx) (e : ActEntry) (p : List Pending)
    (hc : connected t.bus e.conn = true)
    (hgate : checkPolicy t.bus none (some e.conn) (some e.conn) (stampDriver t.bus e.conn (mkErrorNamed e.msg err)) = (p, none)) :
    ∃ x, (failEntry err t e).out = t.out ++ [Out.deliver e.conn x] ∧ IsErrorFor e.msg x := by
  unfold failEntry
  simp only [hc, if_true]
  unfold sendErrorNamed sendFromDriver sendStamped
  have hcap := capture_frame t none (some e.conn) (stampDriver t.bus e.conn (mkErrorNamed e.msg err))
  rw [hcap.1, hgate]
  refine ⟨_, by simp [hcap.2], by rw [stampDriver_mtype]; rfl, ?_, (stampDriver_busMade t.bus e.conn (known_mkErrorNamed e.msg err)).1⟩
  rw [replySerial_stampDriver, replySerial_mkErrorNamed]

end Dbus.Proofs.Bus
