import Dbus.Model.Bus.Timed
/-
  Lemmas about the clock layer (`Dbus.Model.Bus.Timed`): the stamps follow the entries they belong to,
  never lie in the future, and are never moved once given.
-/
namespace Dbus.Proofs.Bus
open Dbus Dbus.Spec Dbus.Model Dbus.Model.Bus

theorem stampSlots_fst (now : Nat) (old : List (Pending × Nat)) (pend : List Pending) :
    (stampSlots now old pend).map (·.1) = pend := by
  unfold stampSlots
  rw [List.map_map]
  exact List.map_id'' (fun _ => rfl) pend

theorem stampActs_fst (now : Nat) (old : List (Bytes × Nat)) (acts : List PendingAct) :
    (stampActs now old acts).map (·.1) = acts.map (·.name) := by
  unfold stampActs
  rw [List.map_map]
  rfl

/-- a stamp found by `lookup` is one of the recorded ones -/
theorem lookup_mem {α : Type} [BEq α] [LawfulBEq α] : ∀ (l : List (α × Nat)) (k : α) (v : Nat), l.lookup k = some v → (k, v) ∈ l
  | [], _, _, h => by simp at h
  | (k', v') :: l, k, v, h => by
    by_cases hk : k == k'
    · have hkk : k = k' := by simpa using hk
      subst hkk
      simp only [List.lookup_cons_self] at h
      cases h
      exact List.mem_cons_self
    · have : ((k', v') :: l).lookup k = l.lookup k := by
        simp [List.lookup_cons, hk]
      rw [this] at h
      exact List.mem_cons_of_mem _ (lookup_mem l k v h)

/-- every stamp handed out is an old one or the present time -/
theorem stamp_getD_le {α : Type} [BEq α] [LawfulBEq α] (now : Nat) (old : List (α × Nat)) (hold : ∀ e ∈ old, e.2 ≤ now) (k : α) :
    (old.lookup k).getD now ≤ now := by
  cases h : old.lookup k with
  | none => exact Nat.le_refl _
  | some v => exact hold _ (lookup_mem old k v h)

theorem stampSlots_le (now : Nat) (old : List (Pending × Nat)) (pend : List Pending) (hold : ∀ e ∈ old, e.2 ≤ now) :
    ∀ e ∈ stampSlots now old pend, e.2 ≤ now := by
  intro e he
  unfold stampSlots at he
  obtain ⟨p, _, rfl⟩ := List.mem_map.mp he
  exact stamp_getD_le now old hold p

theorem stampActs_le (now : Nat) (old : List (Bytes × Nat)) (acts : List PendingAct) (hold : ∀ e ∈ old, e.2 ≤ now) :
    ∀ e ∈ stampActs now old acts, e.2 ≤ now := by
  intro e he
  unfold stampActs at he
  obtain ⟨p, _, rfl⟩ := List.mem_map.mp he
  exact stamp_getD_le now old hold p.name

/-- **A deadline is never moved.** An entry that was there before keeps the stamp it had. -/
theorem stampSlots_keeps (now : Nat) (old : List (Pending × Nat)) (pend : List Pending) (p : Pending) (b : Nat)
    (hl : old.lookup p = some b) (hp : p ∈ pend) : (p, b) ∈ stampSlots now old pend := by
  unfold stampSlots
  exact List.mem_map.mpr ⟨p, hp, by rw [hl]; rfl⟩

theorem stampActs_keeps (now : Nat) (old : List (Bytes × Nat)) (acts : List PendingAct) (pa : PendingAct) (b : Nat)
    (hl : old.lookup pa.name = some b) (hp : pa ∈ acts) : (pa.name, b) ∈ stampActs now old acts := by
  unfold stampActs
  exact List.mem_map.mpr ⟨pa, hp, by rw [hl]; rfl⟩

/-- the stamps never lie in the future -/
def BornOK (t : TBus) : Prop := (∀ e ∈ t.slotBorn, e.2 ≤ t.now) ∧ (∀ e ∈ t.actBorn, e.2 ≤ t.now)

theorem bornOK_next (t : TBus) (x : ATx) (h : BornOK t) : BornOK (t.next x) :=
  ⟨stampSlots_le t.now t.slotBorn _ h.1, stampActs_le t.now t.actBorn _ h.2⟩

theorem bornOK_later (t : TBus) (dt : Nat) (h : BornOK t) : BornOK { t with now := t.now + dt } :=
  ⟨fun e he => Nat.le_trans (h.1 e he) (Nat.le_add_right _ _), fun e he => Nat.le_trans (h.2 e he) (Nat.le_add_right _ _)⟩

theorem bornOK_fireActs (tbl : List IfaceRow) : ∀ (ns : List Bytes) (t : TBus) (acc : List ATx), BornOK t →
    BornOK (fireActs tbl ns t acc).1
  | [], _, _, h => h
  | n :: ns, t, acc, h => by
    unfold fireActs
    exact bornOK_fireActs tbl ns _ _ (bornOK_next t _ h)

theorem bornOK_stepT (tbl : List IfaceRow) (t : TBus) (ev : TEv) (h : BornOK t) : BornOK (stepT tbl t ev).1 := by
  cases ev with
  | ev e => exact bornOK_next t _ h
  | advance dt =>
    simp only [stepT]
    exact bornOK_fireActs tbl _ _ _ (bornOK_next _ _ (bornOK_later t dt h))

theorem bornOK_runT (tbl : List IfaceRow) (evs : List TEv) (t : TBus) (h : BornOK t) : BornOK (runT tbl t evs).1 := by
  unfold runT
  suffices hh : ∀ (evs : List TEv) (acc : TBus × List (List ATx)), BornOK acc.1 →
      BornOK (evs.foldl (fun (acc : TBus × List (List ATx)) ev => ((stepT tbl acc.1 ev).1, acc.2 ++ [(stepT tbl acc.1 ev).2])) acc).1 from
    hh evs (t, []) h
  intro evs
  induction evs with
  | nil => intro acc h; exact h
  | cons ev evs ih => intro acc h; simp only [List.foldl_cons]; exact ih _ (bornOK_stepT tbl acc.1 ev h)

/-- the stamps of the pending replies are kept in step with the pending replies -/
theorem next_slots_track (t : TBus) (x : ATx) : (t.next x).slotBorn.map (·.1) = (t.next x).a.core.pending :=
  stampSlots_fst _ _ _

theorem next_acts_track (t : TBus) (x : ATx) : (t.next x).actBorn.map (·.1) = (t.next x).a.acts.map (·.name) :=
  stampActs_fst _ _ _

/-! ### what `advance` does -/

theorem mem_dueSlots (t : TBus) (T now : Nat) (hT : t.replyTimeout = some T) (p : Pending) :
    p ∈ dueSlots t now ↔ ∃ b, (p, b) ∈ t.slotBorn ∧ b + T ≤ now := by
  unfold dueSlots
  rw [hT]
  simp only [List.mem_map, List.mem_filter, decide_eq_true_eq]
  constructor
  · rintro ⟨e, ⟨he, hd⟩, rfl⟩; exact ⟨e.2, he, hd⟩
  · rintro ⟨b, hb, hd⟩; exact ⟨(p, b), ⟨hb, hd⟩, rfl⟩

theorem dueSlots_never (t : TBus) (now : Nat) (hT : t.replyTimeout = none) : dueSlots t now = [] := by
  unfold dueSlots; rw [hT]

theorem mem_dueActs (t : TBus) (now : Nat) (n : Bytes) :
    n ∈ dueActs t now ↔ ∃ b, (n, b) ∈ t.actBorn ∧ b + t.startTimeout ≤ now := by
  unfold dueActs
  simp only [List.mem_map, List.mem_filter, decide_eq_true_eq]
  constructor
  · rintro ⟨e, ⟨he, hd⟩, rfl⟩; exact ⟨e.2, he, hd⟩
  · rintro ⟨b, hb, hd⟩; exact ⟨(n, b), ⟨hb, hd⟩, rfl⟩

/-- the transactions of an `advance`: the expiry of the due pending replies, then one time-out per due
    activation, in the order their timers were armed -/
theorem fireActs_txs (tbl : List IfaceRow) : ∀ (ns : List Bytes) (t : TBus) (acc : List ATx),
    ∃ rest : List ATx, (fireActs tbl ns t acc).2 = acc ++ rest ∧ rest.length = ns.length
  | [], _, acc => ⟨[], by simp [fireActs], rfl⟩
  | n :: ns, t, acc => by
    unfold fireActs
    obtain ⟨rest, h, hl⟩ := fireActs_txs tbl ns (t.next (stepA tbl t.a (.actTimeout n))) (acc ++ [stepA tbl t.a (.actTimeout n)])
    exact ⟨stepA tbl t.a (.actTimeout n) :: rest, by rw [h]; simp, by simp [hl]⟩

theorem advance_first_tx (tbl : List IfaceRow) (t : TBus) (dt : Nat) :
    (stepT tbl t (.advance dt)).2.head? =
      some (stepA tbl t.a (.core (.expire (dueSlots { t with now := t.now + dt } (t.now + dt))))) := by
  simp only [stepT]
  obtain ⟨rest, h, _⟩ := fireActs_txs tbl (dueActs { t with now := t.now + dt } (t.now + dt))
    (({ t with now := t.now + dt } : TBus).next (stepA tbl t.a (.core (.expire (dueSlots { t with now := t.now + dt } (t.now + dt))))))
    [stepA tbl t.a (.core (.expire (dueSlots { t with now := t.now + dt } (t.now + dt))))]
  rw [h]; rfl

/-- time passing alone moves the clock by exactly `dt` -/
theorem fireActs_now (tbl : List IfaceRow) : ∀ (ns : List Bytes) (t : TBus) (acc : List ATx), (fireActs tbl ns t acc).1.now = t.now
  | [], _, _ => rfl
  | n :: ns, t, acc => by
    unfold fireActs
    exact fireActs_now tbl ns _ _

theorem advance_now (tbl : List IfaceRow) (t : TBus) (dt : Nat) : (stepT tbl t (.advance dt)).1.now = t.now + dt := by
  simp only [stepT]
  rw [fireActs_now]; rfl

/-- pending activations only ever go away while timers fire, and only those whose timer fired -/
theorem timedOut_acts (x : ATx) (n : Bytes) : (timedOut x n).acts = dropAct x.acts n := by
  unfold timedOut
  cases h : findAct x.acts n with
  | none =>
    simp only
    unfold dropAct
    symm
    apply List.filter_eq_self.mpr
    intro pa hpa
    have := List.find?_eq_none.mp h pa hpa
    simpa using this
  | some pa =>
    simp only [failAct]
    have hn : pa.name = n := by
      have := List.find?_some h
      simpa using this
    rw [hn]

theorem stepA_actTimeout_acts (tbl : List IfaceRow) (a : ABus) (n : Bytes) :
    (stepA tbl a (.actTimeout n)).acts = dropAct a.acts n := by
  simp only [stepA]
  rw [timedOut_acts]; rfl

theorem fireActs_acts (tbl : List IfaceRow) : ∀ (ns : List Bytes) (t : TBus) (acc : List ATx),
    (fireActs tbl ns t acc).1.a.acts = t.a.acts.filter (fun pa => !ns.contains pa.name)
  | [], t, _ => by
    unfold fireActs
    exact (List.filter_eq_self.mpr (fun _ _ => rfl)).symm
  | n :: ns, t, acc => by
    unfold fireActs
    rw [fireActs_acts tbl ns]
    show ((stepA tbl t.a (.actTimeout n)).acts).filter _ = _
    rw [stepA_actTimeout_acts]
    unfold dropAct
    rw [List.filter_filter]
    apply List.filter_congr
    intro pa _
    by_cases h : pa.name = n
    · simp [h]
    · have h1 : (pa.name == n) = false := by simpa using h
      have h2 : (pa.name != n) = true := by simp [bne, h1]
      simp [h2]
      exact fun _ => h

end Dbus.Proofs.Bus
