import Dbus.Proofs.Bus.Generic
import Dbus.Proofs.Bus.Unique
/-
  C03, second half: unique names.  Every name ever handed out is recorded in the ghost log
  `minted`; the log never has a repetition, live connections carry distinct logged names, and a
  connection's name, once set, is never changed.
-/
namespace Dbus.Proofs.Bus
open Dbus Dbus.Spec Dbus.Model Dbus.Model.Bus

/-- lexicographic order on (major, minor) -/
def klt (a b : Nat × Nat) : Prop := a.1 < b.1 ∨ (a.1 = b.1 ∧ a.2 < b.2)
def kle (a b : Nat × Nat) : Prop := a = b ∨ klt a b

theorem klt_of_kle_klt {a b c : Nat × Nat} (h1 : kle a b) (h2 : klt b c) : klt a c := by
  rcases h1 with rfl | h1
  · exact h2
  · unfold klt at *; omega
theorem klt_trans {a b c : Nat × Nat} (h1 : klt a b) (h2 : klt b c) : klt a c := by unfold klt at *; omega
theorem klt_irrefl (a : Nat × Nat) : ¬ klt a a := by unfold klt; omega
theorem kle_trans {a b c : Nat × Nat} (h1 : kle a b) (h2 : kle b c) : kle a c := by
  rcases h1 with rfl | h1
  · exact h2
  · rcases h2 with rfl | h2
    · exact Or.inr h1
    · exact Or.inr (klt_trans h1 h2)

def cnt (b : Bus) : Nat × Nat := (b.nextMajor, b.nextMinor)

/-- one turn of the counters hands out a key at or above the old counters and leaves the counters
    above it -/
theorem bump_spec (b : Bus) : ∃ M m, (bump b).2 = uniqueName M m ∧ kle (cnt b) (M, m) ∧ klt (M, m) (cnt (bump b).1) ∧
    (bump b).1.conns = b.conns ∧ (bump b).1.minted = b.minted ∧ (bump b).1.services = b.services := by
  unfold bump
  by_cases h : b.nextMinor = 0
  · refine ⟨b.nextMajor + 1, 0, by simp [h], Or.inr (Or.inl (by simp [cnt])), Or.inr ⟨by simp [cnt, h], by simp [cnt, h]⟩, rfl, rfl, rfl⟩
  · refine ⟨b.nextMajor, b.nextMinor, by simp [h], Or.inl rfl, Or.inr ⟨by simp [cnt, h], by simp [cnt, h]⟩, rfl, rfl, rfl⟩

theorem mintAux_spec : ∀ (f : Nat) (b : Bus), ∃ M m, (mintAux f b).2 = uniqueName M m ∧ kle (cnt b) (M, m) ∧
    klt (M, m) (cnt (mintAux f b).1) ∧ (mintAux f b).1.conns = b.conns ∧ (mintAux f b).1.minted = b.minted
  | 0, b => by
    obtain ⟨M, m, h1, h2, h3, h4, h5, _⟩ := bump_spec b
    exact ⟨M, m, h1, h2, h3, h4, h5⟩
  | f + 1, b => by
    obtain ⟨M, m, h1, h2, h3, h4, h5, _⟩ := bump_spec b
    unfold mintAux
    dsimp only
    split
    · exact ⟨M, m, h1, h2, h3, h4, h5⟩
    · obtain ⟨M', m', g1, g2, g3, g4, g5⟩ := mintAux_spec f (bump b).1
      have hlt : klt (M, m) (M', m') := by
        rcases g2 with g2 | g2
        · rw [← g2]; exact h3
        · exact klt_trans h3 g2
      exact ⟨M', m', g1, Or.inr (klt_of_kle_klt h2 hlt), g3, g4.trans h4, g5.trans h5⟩


/-! ### the invariant -/

def names (b : Bus) : List (ConnId × Option Bytes) := b.conns.map fun x => (x.id, x.name)

structure NamesInv (b : Bus) : Prop where
  ids_nodup : ((names b).map Prod.fst).Nodup
  minted_form : ∀ n ∈ b.minted, ∃ M m, n = uniqueName M m ∧ klt (M, m) (cnt b)
  minted_nodup : b.minted.Nodup
  live_minted : ∀ p ∈ names b, ∀ n, p.2 = some n → n ∈ b.minted
  live_distinct : ((names b).filterMap Prod.snd).Nodup

theorem namesInv_init (l : Limits) (p : Policy) : NamesInv { limits := l, policy := p } :=
  { ids_nodup := List.nodup_nil
    minted_form := fun n hn => by cases hn
    minted_nodup := List.nodup_nil
    live_minted := fun p hp => by cases hp
    live_distinct := List.nodup_nil }

theorem namesInv_same {b b' : Bus} (h1 : names b' = names b) (h2 : b'.minted = b.minted) (h3 : cnt b' = cnt b)
    (hi : NamesInv b) : NamesInv b' :=
  ⟨h1 ▸ hi.ids_nodup, by rw [h2, h3]; exact hi.minted_form, h2 ▸ hi.minted_nodup,
   by rw [h1, h2]; exact hi.live_minted, h1 ▸ hi.live_distinct⟩

theorem namesInv_connect {b b' : Bus} {c : ConnId} (h1 : names b' = names b ++ [(c, none)])
    (hc : c ∉ (names b).map Prod.fst) (h2 : b'.minted = b.minted) (h3 : cnt b' = cnt b) (hi : NamesInv b) :
    NamesInv b' := by
  refine ⟨?_, by rw [h2, h3]; exact hi.minted_form, h2 ▸ hi.minted_nodup, ?_, ?_⟩
  · rw [h1, List.map_append, List.nodup_append]
    refine ⟨hi.ids_nodup, by simp, ?_⟩
    intro a ha b hb
    simp at hb; subst hb
    exact fun h => hc (h ▸ ha)
  · rw [h1, h2]
    intro p hp n hn
    rcases List.mem_append.mp hp with hp | hp
    · exact hi.live_minted p hp n hn
    · simp at hp; subst hp; cases hn
  · rw [h1, List.filterMap_append]
    simpa using hi.live_distinct

theorem namesInv_remove {b b' : Bus} {c : ConnId} (h1 : names b' = (names b).filter (fun p => p.1 != c))
    (h2 : b'.minted = b.minted) (h3 : cnt b' = cnt b) (hi : NamesInv b) : NamesInv b' := by
  refine ⟨?_, by rw [h2, h3]; exact hi.minted_form, h2 ▸ hi.minted_nodup, ?_, ?_⟩
  · rw [h1]; exact hi.ids_nodup.sublist (List.Sublist.map _ List.filter_sublist)
  · rw [h1, h2]; intro p hp n hn; exact hi.live_minted p (List.mem_filter.mp hp).1 n hn
  · rw [h1]; exact hi.live_distinct.sublist (List.Sublist.filterMap _ List.filter_sublist)

def setName (c : ConnId) (nm : Bytes) (p : ConnId × Option Bytes) : ConnId × Option Bytes :=
  if p.1 == c then (p.1, some nm) else p

theorem setName_fst (c : ConnId) (nm : Bytes) (p : ConnId × Option Bytes) : (setName c nm p).1 = p.1 := by
  unfold setName; split <;> rfl

theorem map_setName_of_not_mem {c : ConnId} {nm : Bytes} : ∀ {l : List (ConnId × Option Bytes)},
    c ∉ l.map Prod.fst → l.map (setName c nm) = l
  | [], _ => rfl
  | p :: l, h => by
    simp only [List.map_cons, List.mem_cons, not_or] at h
    have hp : (p.1 == c) = false := by simpa using fun e => h.1 e.symm
    simp [List.map_cons, setName, hp, map_setName_of_not_mem h.2]

theorem distinct_setName {c : ConnId} {nm : Bytes} : ∀ {l : List (ConnId × Option Bytes)},
    (l.map Prod.fst).Nodup → (∀ p ∈ l, p.1 = c → p.2 = none) → nm ∉ l.filterMap Prod.snd →
    (l.filterMap Prod.snd).Nodup → ((l.map (setName c nm)).filterMap Prod.snd).Nodup
  | [], _, _, _, _ => List.nodup_nil
  | p :: l, hid, hnone, hnm, hnd => by
    simp only [List.map_cons, List.nodup_cons] at hid
    by_cases hpc : p.1 = c
    · have h2 : p.2 = none := hnone p (by simp) hpc
      have hrest : c ∉ l.map Prod.fst := hpc ▸ hid.1
      have hsn : setName c nm p = (p.1, some nm) := by simp [setName, hpc]
      rw [List.map_cons, hsn, map_setName_of_not_mem hrest]
      simp only [List.filterMap_cons, h2] at hnm hnd ⊢
      exact List.nodup_cons.mpr ⟨hnm, hnd⟩
    · have hsn : setName c nm p = p := by simp [setName, hpc]
      rw [List.map_cons, hsn]
      have ih := distinct_setName (c := c) (nm := nm) hid.2 (fun q hq => hnone q (by simp [hq]))
      cases h2 : p.2 with
      | none =>
        simp only [List.filterMap_cons, h2] at hnm hnd ⊢
        exact ih hnm hnd
      | some n =>
        simp only [List.filterMap_cons, h2, List.mem_cons, not_or, List.nodup_cons] at hnm hnd ⊢
        refine ⟨?_, ih hnm.2 hnd.2⟩
        intro hmem
        simp only [List.mem_filterMap, List.mem_map] at hmem
        obtain ⟨q, ⟨r, hr, rfl⟩, hq⟩ := hmem
        unfold setName at hq
        split at hq
        · simp only [Option.some.injEq] at hq; exact hnm.1 hq
        · exact hnd.1 (List.mem_filterMap.mpr ⟨r, hr, hq⟩)

theorem namesInv_activate {b b' : Bus} {c : ConnId} {nm : Bytes} {M m : Nat}
    (hnm : nm = uniqueName M m) (hle : kle (cnt b) (M, m)) (hlt : klt (M, m) (cnt b'))
    (h1 : names b' = (names b).map (setName c nm)) (h2 : b'.minted = nm :: b.minted)
    (hnone : ∀ p ∈ names b, p.1 = c → p.2 = none) (hi : NamesInv b) : NamesInv b' := by
  have hfresh : nm ∉ b.minted := by
    intro h
    obtain ⟨M', m', e, hk⟩ := hi.minted_form nm h
    have := uniqueName_inj (hnm.symm.trans e)
    rw [← this.1, ← this.2] at hk
    exact klt_irrefl _ (klt_of_kle_klt hle hk)
  have hnotlive : nm ∉ (names b).filterMap Prod.snd := by
    intro h
    obtain ⟨p, hp, hp2⟩ := List.mem_filterMap.mp h
    exact hfresh (hi.live_minted p hp nm hp2)
  refine ⟨?_, ?_, ?_, ?_, ?_⟩
  · rw [h1, List.map_map]
    have : (Prod.fst ∘ setName c nm) = Prod.fst := by funext p; exact setName_fst c nm p
    rw [this]; exact hi.ids_nodup
  · rw [h2]
    intro n hn
    simp only [List.mem_cons] at hn
    rcases hn with rfl | hn
    · exact ⟨M, m, hnm, hlt⟩
    · obtain ⟨M', m', e, hk⟩ := hi.minted_form n hn
      exact ⟨M', m', e, klt_trans hk (klt_of_kle_klt hle hlt)⟩
  · rw [h2]; exact List.nodup_cons.mpr ⟨hfresh, hi.minted_nodup⟩
  · rw [h1, h2]
    intro p hp n hn
    simp only [List.mem_map] at hp
    obtain ⟨q, hq, rfl⟩ := hp
    unfold setName at hn
    split at hn
    · simp only [Option.some.injEq] at hn; simp [hn]
    · exact List.mem_cons_of_mem _ (hi.live_minted q hq n hn)
  · rw [h1]
    exact distinct_setName hi.ids_nodup hnone hnotlive hi.live_distinct


/-! ### tying the invariant to the model's steps -/

theorem names_of_kdrv {b b' : Bus} (h : KDrv b b') : names b' = names b := by
  have := congrArg (List.map fun x : Conn => (x.id, x.name)) h.1
  simpa [names, List.map_map, Function.comp_def, eraseOR] using this

theorem view_of_kdrv {b b' : Bus} (h : KDrv b b') (hi : NamesInv b) : NamesInv b' :=
  namesInv_same (names_of_kdrv h) h.2.2.2.2.2 (by unfold cnt; rw [h.2.1, h.2.2.1]) hi

theorem kdrv_of_core {b b' : Bus} (h : KCore b b') : KDrv b b' := KMod.of_core _ h

theorem step_runMethod_drv (t : Tx) (c : ConnId) (m : Msg) (w : Method) (hw : w ≠ .hello) (hw2 : w ≠ .becomeMonitor) :
    Step KDrv noFw t (runMethod t c m w).1 := by
  have reg : ∀ {t t' : Tx}, Step KReg noFw t t' → Step KDrv noFw t t' :=
    fun h => h.mono (fun _ _ h => KReg_to_KDrv h) (fun _ h => h)
  have tr := @Step.trans KDrv noFw (KMod.trans _)
  cases w with
  | hello => exact absurd rfl hw
  | requestName =>
    simp only [runMethod]
    have h := step_acquire t c (arg0 m) (arg1Nat m)
    rcases hr : acquire t c (arg0 m) (arg1Nat m) with ⟨t1, r⟩
    rw [hr] at h
    cases r with
    | ok code => exact tr (reg h) (step_reply_drv _ _ _ _ _)
    | error e => exact reg h
  | releaseName =>
    simp only [runMethod]
    have h := step_release t c (arg0 m)
    rcases hr : release t c (arg0 m) with ⟨t1, r⟩
    rw [hr] at h
    cases r with
    | ok code => exact tr (reg h) (step_reply_drv _ _ _ _ _)
    | error e => exact reg h
  | nameHasOwner => exact step_reply_drv _ _ _ _ _
  | listNames => exact step_reply_drv _ _ _ _ _
  | getNameOwner =>
    simp only [runMethod]
    repeat' split
    all_goals first | exact step_reply_drv _ _ _ _ _ | exact Step.refl (KMod.refl _) t
  | listQueuedOwners =>
    simp only [runMethod]
    repeat' split
    all_goals first | exact step_reply_drv _ _ _ _ _ | exact Step.refl (KMod.refl _) t
  | getUnixUser =>
    simp only [runMethod]
    repeat' split
    all_goals first | exact step_reply_drv _ _ _ _ _ | exact Step.refl (KMod.refl _) t
  | ping => exact step_reply_drv _ _ _ _ _
  | addMatch =>
    simp only [runMethod]
    repeat' split
    all_goals first
      | exact Step.refl (KMod.refl _) t
      | exact tr (step_bus_only t (t.bus.updRules c _) (kdrv_updRules t.bus c _)) (step_reply_drv _ _ _ _ _)
  | removeMatch =>
    simp only [runMethod]
    repeat' split
    all_goals (try dsimp only)
    all_goals first
      | exact Step.refl (KMod.refl _) t
      | exact step_reply_drv _ _ _ _ _
      | exact tr (step_reply_drv t c m [] []) (step_mapBus (reply t c m [] []) _ (kdrv_updRules _ c _))
  | becomeMonitor => exact absurd rfl hw2
  | opaqueM =>
    simp only [runMethod]
    have hf := opaque_fold_frame (captureTargets t.bus none (some c) (stampDriver t.bus c (mkReturn m [] []))) m.serial t
    have kd : ∀ p : List Pending, KDrv t.bus { t.bus with pending := p } := fun p => ⟨rfl, rfl, rfl, rfl, rfl, rfl⟩
    split
    · rename_i p e hp
      refine ⟨?_, [], ?_, by intro o ho; cases ho⟩
      · rw [(captureError_frame _ _ _ _).1]
        show KDrv t.bus { (List.foldl _ t _).bus with pending := p }
        rw [hf.1]; exact kd p
      · rw [(captureError_frame _ _ _ _).2]; simp [hf.2]
    · rename_i p hp
      refine ⟨?_, [.opaque c m.serial], ?_, by intro o ho; simp at ho; subst ho; trivial⟩
      · show KDrv t.bus { (List.foldl _ t _).bus with pending := p }
        rw [hf.1]; exact kd p
      · show (Tx.emit _ _).out = _
        simp only [emit_out, setPending_out, hf.2]


theorem inj_of_nodup_map {α β : Type} (f : α → β) : ∀ {l : List α}, (l.map f).Nodup →
    ∀ {x y : α}, x ∈ l → y ∈ l → f x = f y → x = y
  | [], _, _, _, hx, _, _ => by cases hx
  | a :: l, hn, x, y, hx, hy, h => by
    simp only [List.map_cons, List.nodup_cons] at hn
    simp only [List.mem_cons] at hx hy
    rcases hx with rfl | hx <;> rcases hy with rfl | hy
    · rfl
    · exact absurd (List.mem_map.mpr ⟨y, hy, h.symm⟩) hn.1
    · exact absurd (List.mem_map.mpr ⟨x, hx, h⟩) hn.1
    · exact inj_of_nodup_map f hn.2 hx hy h

theorem conn_unique {b : Bus} (hi : ((names b).map Prod.fst).Nodup) {x y : Conn} (hx : x ∈ b.conns) (hy : y ∈ b.conns)
    (h : x.id = y.id) : x = y := by
  have hn : (b.conns.map (·.id)).Nodup := by simpa [names, List.map_map, Function.comp_def] using hi
  exact inj_of_nodup_map _ hn hx hy h

theorem hnone_of_inactive {b : Bus} {c : ConnId} (hi : ((names b).map Prod.fst).Nodup) (h : b.isActive c = false) :
    ∀ p ∈ names b, p.1 = c → p.2 = none := by
  intro p hp hpc
  simp only [names, List.mem_map] at hp
  obtain ⟨x, hx, rfl⟩ := hp
  simp only at hpc
  unfold Bus.isActive Bus.nameOf Bus.conn? at h
  cases hf : b.conns.find? (·.id == c) with
  | none =>
    have := List.find?_eq_none.mp hf x hx
    simp [hpc] at this
  | some y =>
    rw [hf] at h
    have hy := List.mem_of_find?_eq_some hf
    have hyc : y.id = c := by simpa using List.find?_some hf
    have : x = y := conn_unique hi hx hy (hpc.trans hyc.symm)
    subst this
    simpa using h

theorem names_activate (b : Bus) (c : ConnId) (nm : Bytes) : names (activate b c nm) = (names b).map (setName c nm) := by
  unfold activate Bus.updConn names setName
  simp only [List.map_map]
  apply List.map_congr_left
  intro x _
  simp only [Function.comp]
  split <;> rfl

/-- how one step of the bus can change who is called what: not at all, by naming the so far
    nameless connection `c` with a fresh name, or by removing connection `c` -/
inductive ViewStep (b b' : Bus) (c : ConnId) : Prop
  | same (hn : names b' = names b) (hm : b'.minted = b.minted) (hc : cnt b' = cnt b)
  | activated (nm : Bytes) (M m : Nat) (hin : b.isActive c = false) (hnm : nm = uniqueName M m)
      (hle : kle (cnt b) (M, m)) (hlt : klt (M, m) (cnt b')) (hn : names b' = (names b).map (setName c nm))
      (hm : b'.minted = nm :: b.minted)
  | removed (hn : names b' = (names b).filter (fun p => p.1 != c)) (hm : b'.minted = b.minted) (hc : cnt b' = cnt b)

theorem ViewStep.refl (b : Bus) (c : ConnId) : ViewStep b b c := .same rfl rfl rfl

theorem ViewStep.of_kdrv {b b' : Bus} (c : ConnId) (h : KDrv b b') : ViewStep b b' c :=
  .same (names_of_kdrv h) h.2.2.2.2.2 (by unfold cnt; rw [h.2.1, h.2.2.1])

theorem ViewStep.of_core {b b' : Bus} (c : ConnId) (h : KCore b b') : ViewStep b b' c := .of_kdrv c (kdrv_of_core h)

theorem nameOf_eq_names (l : List Conn) (c : ConnId) :
    (l.find? (·.id == c)).bind (·.name) = ((l.map fun x => (x.id, x.name)).find? (·.1 == c)).bind (·.2) := by
  induction l with
  | nil => rfl
  | cons x xs ih =>
    simp only [List.map_cons, List.find?_cons]
    cases hx : (x.id == c)
    · simpa using ih
    · simp

theorem nameOf_of_names {b b' : Bus} (h : names b' = names b) (c : ConnId) : b'.nameOf c = b.nameOf c := by
  unfold Bus.nameOf Bus.conn?
  rw [nameOf_eq_names, nameOf_eq_names]
  unfold names at h
  rw [h]

theorem isActive_of_names {b b' : Bus} (h : names b' = names b) (c : ConnId) : b'.isActive c = b.isActive c := by
  unfold Bus.isActive; rw [nameOf_of_names h]

/-- a step followed by something that leaves the view alone -/
theorem ViewStep.then_same {b b1 b2 : Bus} {c : ConnId} (h1 : ViewStep b b1 c) (hn : names b2 = names b1)
    (hm : b2.minted = b1.minted) (hc : cnt b2 = cnt b1) : ViewStep b b2 c := by
  cases h1 with
  | same a1 a2 a3 => exact .same (hn.trans a1) (hm.trans a2) (hc.trans a3)
  | activated nm M m a1 a2 a3 a4 a5 a6 => exact .activated nm M m a1 a2 a3 (hc ▸ a4) (hn.trans a5) (hm.trans a6)
  | removed a1 a2 a3 => exact .removed (hn.trans a1) (hm.trans a2) (hc.trans a3)

/-- something that leaves the view alone, followed by a step -/
theorem ViewStep.after_same {b b1 b2 : Bus} {c : ConnId} (hn : names b1 = names b) (hm : b1.minted = b.minted)
    (hc : cnt b1 = cnt b) (h2 : ViewStep b1 b2 c) : ViewStep b b2 c := by
  cases h2 with
  | same a1 a2 a3 => exact .same (a1.trans hn) (a2.trans hm) (a3.trans hc)
  | activated nm M m a1 a2 a3 a4 a5 a6 =>
    exact .activated nm M m ((isActive_of_names hn c).symm.trans a1) a2 (hc ▸ a3) a4 (hn ▸ a5) (hm ▸ a6)
  | removed a1 a2 a3 => exact .removed (hn ▸ a1) (a2.trans hm) (a3.trans hc)

theorem ViewStep.then_kdrv {b b1 b2 : Bus} {c : ConnId} (h1 : ViewStep b b1 c) (h : KDrv b1 b2) : ViewStep b b2 c :=
  h1.then_same (names_of_kdrv h) h.2.2.2.2.2 (by unfold cnt; rw [h.2.1, h.2.2.1])
theorem ViewStep.after_kdrv {b b1 b2 : Bus} {c : ConnId} (h : KDrv b b1) (h2 : ViewStep b1 b2 c) : ViewStep b b2 c :=
  h2.after_same (names_of_kdrv h) h.2.2.2.2.2 (by unfold cnt; rw [h.2.1, h.2.2.1])

theorem namesInv_viewStep {b b' : Bus} {c : ConnId} (h : ViewStep b b' c) (hi : NamesInv b) : NamesInv b' := by
  cases h with
  | same a1 a2 a3 => exact namesInv_same a1 a2 a3 hi
  | activated nm M m a1 a2 a3 a4 a5 a6 =>
    exact namesInv_activate a2 a3 a4 a5 a6 (hnone_of_inactive hi.ids_nodup a1) hi
  | removed a1 a2 a3 => exact namesInv_remove a1 a2 a3 hi

theorem view_helloOk (t : Tx) (c : ConnId) (m : Msg) (hin : t.bus.isActive c = false) :
    ViewStep t.bus (helloOk t c m).bus c := by
  obtain ⟨M, mm, e1, e2, e3, e4, e5⟩ := mintAux_spec (t.bus.services.length + 1) t.bus
  have hact : ViewStep t.bus (activate (mint t.bus).1 c (mint t.bus).2) c := by
    refine .activated (mint t.bus).2 M mm hin e1 e2 e3 ?_ ?_
    · rw [names_activate]
      have : names (mint t.bus).1 = names t.bus := by unfold names; rw [show (mint t.bus).1.conns = t.bus.conns from e4]
      rw [this]
    · show (mint t.bus).2 :: (mint t.bus).1.minted = _
      rw [show (mint t.bus).1.minted = t.bus.minted from e5]
  have h2 : Step KDrv noFw ({ t with bus := activate (mint t.bus).1 c (mint t.bus).2 } : Tx) (helloOk t c m) := by
    unfold helloOk
    exact Step.trans (KMod.trans _) (step_reply_drv _ c _ _ _)
      ((step_ensureService _ _ _ _).mono (fun _ _ h => KReg_to_KDrv h) (fun _ h => h))
  exact hact.then_kdrv h2.bus

theorem view_hello (t : Tx) (c : ConnId) (m : Msg) : ViewStep t.bus (hello t c m).1.bus c := by
  unfold hello
  split; · exact .refl _ _
  split; · exact .refl _ _
  split; · exact .refl _ _
  rename_i h _ _
  exact view_helloOk t c m (by simpa using h)

theorem names_map_congr {l : List Conn} {f : Conn → Conn} (h : ∀ x, (f x).id = x.id ∧ (f x).name = x.name) :
    (l.map f).map (fun x => (x.id, x.name)) = l.map (fun x => (x.id, x.name)) := by
  simp only [List.map_map]
  apply List.map_congr_left
  intro x _
  simp [Function.comp, (h x).1, (h x).2]

theorem names_gcRules (b : Bus) (x : Conn) : names (gcRules b x) = names b ∧ (gcRules b x).minted = b.minted ∧
    cnt (gcRules b x) = cnt b := by
  unfold gcRules
  split
  · exact ⟨rfl, rfl, rfl⟩
  · split
    · exact ⟨rfl, rfl, rfl⟩
    · refine ⟨?_, rfl, rfl⟩
      unfold names
      apply names_map_congr
      intro y; split <;> exact ⟨rfl, rfl⟩

theorem names_of_kreg {b b' : Bus} (h : KReg b b') : names b' = names b := names_of_kdrv (KReg_to_KDrv h)

theorem view_beMonitor (t : Tx) (c : ConnId) (rules : List MatchRule) :
    names (beMonitor t c rules).bus = names t.bus ∧ (beMonitor t c rules).bus.minted = t.bus.minted ∧
    cnt (beMonitor t c rules).bus = cnt t.bus := by
  unfold beMonitor
  split
  · exact ⟨rfl, rfl, rfl⟩
  · rename_i x _
    have h1 : names (t.mapBus (installMonitorRules c rules)).bus = names t.bus := by
      unfold Tx.mapBus installMonitorRules Bus.updConn names
      apply names_map_congr
      intro y; split <;> exact ⟨rfl, rfl⟩
    have h2 := (step_releaseAll (t.mapBus (installMonitorRules c rules)) c x.owned).bus
    have g := names_gcRules (releaseAll (t.mapBus (installMonitorRules c rules)) c x.owned).bus { x with monitorRules := rules }
    refine ⟨?_, ?_, ?_⟩
    · show names (joinMonitors c x rules _) = _
      unfold joinMonitors Bus.updConn
      have : names { (gcRules (releaseAll (t.mapBus (installMonitorRules c rules)) c x.owned).bus { x with monitorRules := rules }) with
          conns := (gcRules (releaseAll (t.mapBus (installMonitorRules c rules)) c x.owned).bus { x with monitorRules := rules }).conns.map
            fun y => if y.id == c then { y with rules := [], monitor := true } else y } =
          names (gcRules (releaseAll (t.mapBus (installMonitorRules c rules)) c x.owned).bus { x with monitorRules := rules }) := by
        unfold names
        apply names_map_congr
        intro y; split <;> exact ⟨rfl, rfl⟩
      rw [this, g.1, names_of_kreg h2, h1]
    · show (joinMonitors c x rules _).minted = _
      unfold joinMonitors Bus.updConn
      show (gcRules _ _).minted = _
      rw [g.2.1, h2.2.2.2.2.2]; rfl
    · show cnt (joinMonitors c x rules _) = _
      unfold joinMonitors Bus.updConn
      show cnt (gcRules _ _) = _
      rw [g.2.2]; unfold cnt; rw [h2.2.1, h2.2.2.1]; rfl

theorem view_runMethod (t : Tx) (c : ConnId) (m : Msg) (w : Method) : ViewStep t.bus (runMethod t c m w).1.bus c := by
  by_cases hw : w = .hello
  · subst hw; exact view_hello t c m
  · by_cases hw2 : w = .becomeMonitor
    · subst hw2
      simp only [runMethod]
      repeat' split
      all_goals first
        | exact .refl _ _
        | (rename_i rules _
           have hb := view_beMonitor (reply t c m [] []) c rules
           have hr := (step_reply_drv t c m [] []).bus
           exact (ViewStep.of_kdrv c hr).then_same hb.1 hb.2.1 hb.2.2)
    · exact .of_kdrv c (step_runMethod_drv t c m w hw hw2).bus

theorem view_driverHandle (tbl : List IfaceRow) (t : Tx) (c : ConnId) (m : Msg) :
    ViewStep t.bus (driverHandle tbl t c m).1.bus c := by
  unfold driverHandle
  dsimp only
  repeat' split
  all_goals first | exact view_runMethod _ _ _ _ | exact .refl _ _

theorem view_toDriverCore (tbl : List IfaceRow) (t : Tx) (c : ConnId) (m : Msg) :
    ViewStep t.bus (toDriverCore tbl t c m).1.bus c := by
  unfold toDriverCore
  rcases hcp : checkPolicy t.bus (some c) none none m with ⟨p, e⟩
  dsimp only
  have h0 : KDrv t.bus (t.setPending p).bus := kdrv_of_core (step_setPending (fw := noFw) t p).bus
  cases e with
  | some e => exact .of_kdrv c h0
  | none =>
    dsimp only
    have h1 := view_driverHandle tbl (t.setPending p) c m
    rcases hd : driverHandle tbl (t.setPending p) c m with ⟨t1, e1⟩
    rw [hd] at h1
    cases e1 with
    | some e1 => exact h1.after_kdrv h0
    | none => exact (h1.after_kdrv h0).then_kdrv (kdrv_of_core (step_dispatchMatches t1 _ _ _).bus)

theorem view_toDriver (tbl : List IfaceRow) (t : Tx) (c : ConnId) (m : Msg) :
    ViewStep t.bus (toDriver tbl t c m).1.bus c :=
  view_toDriverCore tbl ({ t with mon := [] } : Tx) c m

theorem view_finish (b : Bus) (r : Tx × Option Err) (c : ConnId) (m : Msg) (h : ViewStep b r.1.bus c) :
    ViewStep b (finish r c m).1 c := by
  obtain ⟨t, e⟩ := r
  cases e with
  | none => exact h
  | some e => exact h.then_kdrv (kdrv_of_core (finish_bus_some t e c m))

/-! ### disconnect, dispatch, step, run -/

theorem names_clearRules (b : Bus) (c : ConnId) : names (clearRules b c) = names b ∧ (clearRules b c).minted = b.minted ∧
    cnt (clearRules b c) = cnt b := by
  refine ⟨?_, rfl, rfl⟩
  unfold clearRules Bus.updConn names
  apply names_map_congr
  intro y; split <;> exact ⟨rfl, rfl⟩


theorem view_disconnectTx (b : Bus) (c : ConnId) (x : Conn) :
    names (disconnectTx b c x).bus = (names b).filter (fun p => p.1 != c) ∧
    (disconnectTx b c x).bus.minted = b.minted ∧ cnt (disconnectTx b c x).bus = cnt b := by
  unfold disconnectTx
  have h1 := (step_releaseAll ({ bus := clearRules (gcRules b x) c } : Tx) c x.owned.reverse).bus
  have h2 := (step_dropPending ((releaseAll ({ bus := clearRules (gcRules b x) c } : Tx) c x.owned.reverse).mapBus (removeConn c)) c).bus
  have e2 := core_eq_iff.mp h2
  have g := names_gcRules b x
  have cl := names_clearRules (gcRules b x) c
  refine ⟨?_, ?_, ?_⟩
  · unfold names
    rw [e2.1]
    show ((releaseAll _ c _).bus.conns.filter (·.id != c)).map _ = _
    have : (releaseAll ({ bus := clearRules (gcRules b x) c } : Tx) c x.owned.reverse).bus.conns.map (fun x => (x.id, x.name))
        = names b := by
      have := names_of_kreg h1
      unfold names at this
      rw [this]; exact cl.1.trans g.1
    unfold names at this
    rw [← this, List.filter_map]
    rfl
  · rw [e2.2.2.2.2.2.2.1]
    show (releaseAll _ c _).bus.minted = _
    rw [h1.2.2.2.2.2]; exact cl.2.1.trans g.2.1
  · unfold cnt
    rw [e2.2.2.1, e2.2.2.2.1]
    show ((releaseAll _ c _).bus.nextMajor, (releaseAll _ c _).bus.nextMinor) = _
    rw [h1.2.1, h1.2.2.1]
    exact cl.2.2.trans g.2.2

theorem view_disconnect (b : Bus) (c : ConnId) : ViewStep b (disconnect b c).1 c := by
  unfold disconnect
  split
  · exact .refl _ _
  · rename_i x _
    obtain ⟨h1, h2, h3⟩ := view_disconnectTx b c x
    exact .removed h1 h2 h3

theorem view_dispatch (tbl : List IfaceRow) (b : Bus) (c : ConnId) (m0 : Msg) : ViewStep b (dispatch tbl b c m0).1 c := by
  unfold dispatch
  split
  · exact .refl _ _
  · dsimp only
    split
    · exact .refl _ _
    · split
      · exact view_disconnect b c
      · split
        · exact .refl _ _
        · split
          · exact (view_finish b _ c _ (view_toDriver tbl ({ bus := b } : Tx) c _)).then_kdrv
              (kdrv_of_core (step_sweepMonitors _).bus)
          · split
            · exact view_disconnect b c
            · exact view_finish b _ c _ (.of_core c (step_route ({ bus := b } : Tx) c _).bus)

theorem not_mem_ids_of_conn_none {b : Bus} {c : ConnId} (h : (b.conn? c).isSome = false) : c ∉ (names b).map Prod.fst := by
  intro hm
  simp only [names, List.map_map, List.mem_map, Function.comp] at hm
  obtain ⟨x, hx, hxc⟩ := hm
  unfold Bus.conn? at h
  cases hf : b.conns.find? (·.id == c) with
  | none =>
    have := List.find?_eq_none.mp hf x hx
    simp [hxc] at this
  | some y => rw [hf] at h; cases h

def evConn : Ev → ConnId
  | .connect c _ _ _ => c
  | .msg c _ => c
  | .invalid c => c
  | .close c => c
  | .timeout => 0
  | .expire _ => 0
  | .stall c _ => c
  | .reload _ => 0

/-- one step changes the view in one of four ways -/
theorem view_step (tbl : List IfaceRow) (b : Bus) (ev : Ev) :
    ViewStep b (step tbl b ev).1 (evConn ev) ∨
    (∃ c, evConn ev = c ∧ c ∉ (names b).map Prod.fst ∧
      names (step tbl b ev).1 = names b ++ [(c, none)] ∧ (step tbl b ev).1.minted = b.minted ∧
      cnt (step tbl b ev).1 = cnt b) := by
  cases ev with
  | connect c uid gids canFd =>
    simp only [step]
    split
    · exact Or.inl (.refl _ _)
    · rename_i h
      exact Or.inr ⟨c, rfl, not_mem_ids_of_conn_none (by simpa using h), by simp [names], rfl, rfl⟩
  | msg c m => exact Or.inl (view_dispatch tbl b c m)
  | invalid c =>
    simp only [step]
    split
    · exact Or.inl (.refl _ _)
    · exact Or.inl (view_disconnect b c)
  | close c => exact Or.inl (view_disconnect b c)
  | timeout =>
    left
    simp only [step, expireAll]
    have h : Step KCore noFw ({ bus := { b with pending := [] } } : Tx)
        (b.pending.foldl (fun t p => sendError t p.caller (fakeCall p.serial) .noReply) ({ bus := { b with pending := [] } } : Tx)) :=
      step_fold KCore.refl KCore.trans _ (fun t p => step_sendError t _ _ _) _ _
    exact ViewStep.of_core _ (KCore.trans _ _ _ (show KCore b { b with pending := [] } from rfl) h.bus)
  | expire due =>
    left
    simp only [step, expireWhere]
    have h := step_fold (K := KCore) (fw := noFw) KCore.refl KCore.trans
      (fun (t : Tx) (p : Pending) => sendError t p.caller (fakeCall p.serial) .noReply) (fun t p => step_sendError t _ _ _)
      (b.pending.filter (due.contains ·)) ({ bus := { b with pending := b.pending.filter fun p => !due.contains p } } : Tx)
    exact ViewStep.of_core _ (KCore.trans _ _ _ (show KCore b { b with pending := b.pending.filter fun p => !due.contains p } from rfl) h.bus)
  | stall c on => exact Or.inl (.same rfl rfl rfl)
  | reload p =>
    left
    refine .same ?_ rfl rfl
    show (reloadPolicy b p).conns.map (fun x => (x.id, x.name)) = b.conns.map fun x => (x.id, x.name)
    unfold reloadPolicy
    rw [List.map_map]
    apply List.map_congr_left
    intro x _
    simp only [Function.comp]
    split <;> rfl

theorem namesInv_step (tbl : List IfaceRow) (b : Bus) (ev : Ev) (hi : NamesInv b) : NamesInv (step tbl b ev).1 := by
  rcases view_step tbl b ev with h | ⟨c, _, hc, hn, hm, hcn⟩
  · exact namesInv_viewStep h hi
  · exact namesInv_connect hn hc hm hcn hi

/-- the invariant holds in every state the bus can reach -/
theorem namesInv_run (tbl : List IfaceRow) (l : Limits) (p : Policy) (evs : List Ev) :
    NamesInv (run tbl { limits := l, policy := p } evs).1 :=
  run_inv tbl (fun b ev h => namesInv_step tbl b ev h) _ evs (namesInv_init l p)

end Dbus.Proofs.Bus
