import Dbus.Spec.Utf8
import Dbus.Model.Utf8
namespace Dbus.Proofs
open Dbus Dbus.Spec Dbus.Model

theorem toNat_ofNat_lt (n : Nat) (h : n < 256) : (UInt8.ofNat n).toNat = n := by
  simp [UInt8.toNat_ofNat']; omega

theorem validateUtf8_cons (b : UInt8) (rest : Bytes) :
    validateUtf8 (b :: rest) =
      if b.toNat = 0 then false
      else if b.toNat < 128 then validateUtf8 rest
      else
        if (utf8Lead b.toNat).1 = 0 then false
        else if rest.length + 1 < (utf8Lead b.toNat).1 then false
        else match utf8Get (b.toNat % ((utf8Lead b.toNat).2 + 1)) (rest.take ((utf8Lead b.toNat).1 - 1)) with
          | none => false
          | some v =>
            if utf8Length v ≠ (utf8Lead b.toNat).1 then false
            else if !unicodeValid v then false
            else validateUtf8 (rest.drop ((utf8Lead b.toNat).1 - 1)) := by
  conv => lhs; rw [validateUtf8]
  rfl

theorem utf8Get_nil (a : Nat) : utf8Get a [] = some a := rfl
theorem utf8Get_cons (a : Nat) (c : UInt8) (cs : Bytes) :
    utf8Get a (c :: cs) =
      if 128 ≤ c.toNat ∧ c.toNat < 192 then utf8Get (a * 64 + c.toNat % 64) cs else none := rfl

theorem step1 (b : UInt8) (rest : Bytes) (h0 : b.toNat ≠ 0) (h : b.toNat < 128) :
    validateUtf8 (b :: rest) = validateUtf8 rest := by
  rw [validateUtf8_cons, if_neg h0, if_pos h]

theorem step2 (b c1 : UInt8) (rest : Bytes) (c : Nat) (h1 : 0x80 ≤ c) (h2 : c < 0x800)
    (hb : b.toNat = 0xC0 + c / 64) (hc1 : c1.toNat = 0x80 + c % 64) :
    validateUtf8 (b :: c1 :: rest) = validateUtf8 rest := by
  have hl : utf8Lead b.toNat = (2, 0x1f) := by
    unfold utf8Lead; rw [hb]
    rw [if_neg (by omega), if_pos (by omega)]
  have hg : utf8Get (b.toNat % (0x1f + 1)) (List.take (2 - 1) (c1 :: rest)) = some c := by
    show utf8Get (b.toNat % 32) (List.take 1 (c1 :: rest)) = some c
    rw [List.take_succ_cons, List.take_zero, utf8Get_cons, if_pos (by omega), utf8Get_nil, hb, hc1]
    congr 1; omega
  have hlen : utf8Length c = 2 := by
    unfold utf8Length; rw [if_neg (by omega), if_pos (by omega)]
  have hv : unicodeValid c = true := by unfold unicodeValid; simp; omega
  rw [validateUtf8_cons, if_neg (by omega), if_neg (by omega), hl]
  simp only [hg, hlen, hv]
  simp

theorem step3 (b c1 c2 : UInt8) (rest : Bytes) (c : Nat) (h1 : 0x800 ≤ c) (h2 : c < 0x10000)
    (hsur : ¬ (0xD800 ≤ c ∧ c ≤ 0xDFFF))
    (hb : b.toNat = 0xE0 + c / 4096) (hc1 : c1.toNat = 0x80 + c / 64 % 64)
    (hc2 : c2.toNat = 0x80 + c % 64) :
    validateUtf8 (b :: c1 :: c2 :: rest) = validateUtf8 rest := by
  have hl : utf8Lead b.toNat = (3, 0x0f) := by
    unfold utf8Lead; rw [hb]
    rw [if_neg (by omega), if_neg (by omega), if_pos (by omega)]
  have hg : utf8Get (b.toNat % (0x0f + 1)) (List.take (3 - 1) (c1 :: c2 :: rest)) = some c := by
    show utf8Get (b.toNat % 16) (List.take 2 (c1 :: c2 :: rest)) = some c
    rw [List.take_succ_cons, List.take_succ_cons, List.take_zero, utf8Get_cons, if_pos (by omega),
      utf8Get_cons, if_pos (by omega), utf8Get_nil, hb, hc1, hc2]
    congr 1; omega
  have hlen : utf8Length c = 3 := by
    unfold utf8Length; rw [if_neg (by omega), if_neg (by omega), if_pos (by omega)]
  have hv : unicodeValid c = true := by unfold unicodeValid; simp; omega
  rw [validateUtf8_cons, if_neg (by omega), if_neg (by omega), hl]
  simp only [hg, hlen, hv]
  simp

theorem step4 (b c1 c2 c3 : UInt8) (rest : Bytes) (c : Nat) (h1 : 0x10000 ≤ c) (h2 : c < 0x110000)
    (hb : b.toNat = 0xF0 + c / 262144) (hc1 : c1.toNat = 0x80 + c / 4096 % 64)
    (hc2 : c2.toNat = 0x80 + c / 64 % 64) (hc3 : c3.toNat = 0x80 + c % 64) :
    validateUtf8 (b :: c1 :: c2 :: c3 :: rest) = validateUtf8 rest := by
  have hl : utf8Lead b.toNat = (4, 0x07) := by
    unfold utf8Lead; rw [hb]
    rw [if_neg (by omega), if_neg (by omega), if_neg (by omega), if_pos (by omega)]
  have hg : utf8Get (b.toNat % (0x07 + 1)) (List.take (4 - 1) (c1 :: c2 :: c3 :: rest)) = some c := by
    show utf8Get (b.toNat % 8) (List.take 3 (c1 :: c2 :: c3 :: rest)) = some c
    rw [List.take_succ_cons, List.take_succ_cons, List.take_succ_cons, List.take_zero,
      utf8Get_cons, if_pos (by omega), utf8Get_cons, if_pos (by omega), utf8Get_cons, if_pos (by omega),
      utf8Get_nil, hb, hc1, hc2, hc3]
    congr 1; omega
  have hlen : utf8Length c = 4 := by
    unfold utf8Length
    rw [if_neg (by omega), if_neg (by omega), if_neg (by omega), if_pos (by omega)]
  have hv : unicodeValid c = true := by unfold unicodeValid; simp; omega
  rw [validateUtf8_cons, if_neg (by omega), if_neg (by omega), hl]
  simp only [hg, hlen, hv]
  simp

/-- completeness step: the encoding of a non-NUL scalar value is consumed -/
theorem validateUtf8_encode (c : Nat) (rest : Bytes) (h0 : c ≠ 0) (hs : IsScalar c) :
    validateUtf8 (utf8Encode c ++ rest) = validateUtf8 rest := by
  obtain ⟨hlt, hsur⟩ := hs
  unfold utf8Encode
  split
  · rename_i h
    have hb := toNat_ofNat_lt c (by omega)
    exact step1 _ rest (by omega) (by omega)
  · split
    · rename_i h1 h2
      exact step2 _ _ rest c (by omega) h2 (toNat_ofNat_lt _ (by omega)) (toNat_ofNat_lt _ (by omega))
    · split
      · rename_i h1 h2 h3
        exact step3 _ _ _ rest c (by omega) h3 hsur (toNat_ofNat_lt _ (by omega))
          (toNat_ofNat_lt _ (by omega)) (toNat_ofNat_lt _ (by omega))
      · rename_i h1 h2 h3
        exact step4 _ _ _ _ rest c (by omega) hlt (toNat_ofNat_lt _ (by omega))
          (toNat_ofNat_lt _ (by omega)) (toNat_ofNat_lt _ (by omega)) (toNat_ofNat_lt _ (by omega))


theorem ofNat_eq (b : UInt8) (n : Nat) (h : n = b.toNat) : UInt8.ofNat n = b := by
  subst h; exact UInt8.ofNat_toNat

theorem utf8Length_spec (v : Nat) :
    (utf8Length v = 1 → v < 0x80) ∧ (utf8Length v = 2 → 0x80 ≤ v ∧ v < 0x800) ∧
    (utf8Length v = 3 → 0x800 ≤ v ∧ v < 0x10000) ∧ (utf8Length v = 4 → 0x10000 ≤ v ∧ v < 0x200000) ∧
    (utf8Length v ≥ 5 → 0x200000 ≤ v) ∧ utf8Length v ≠ 0 := by
  unfold utf8Length
  repeat' split
  all_goals omega

theorem utf8Lead_cases (n : Nat) (hge : ¬ n < 128) :
    (utf8Lead n = (2, 0x1f) ∧ 192 ≤ n ∧ n < 224) ∨ (utf8Lead n = (3, 0x0f) ∧ 224 ≤ n ∧ n < 240) ∨
    (utf8Lead n = (4, 0x07) ∧ 240 ≤ n ∧ n < 248) ∨ (utf8Lead n).1 ≥ 5 ∨ (utf8Lead n).1 = 0 := by
  unfold utf8Lead
  rw [if_neg hge]
  repeat' split
  all_goals simp_all

/-- soundness step: an accepted non-empty string starts with the encoding of a non-NUL
    scalar value, and the remainder is accepted -/
theorem validateUtf8_step (b : UInt8) (rest : Bytes) (h : validateUtf8 (b :: rest) = true) :
    ∃ c rest', c ≠ 0 ∧ IsScalar c ∧ b :: rest = utf8Encode c ++ rest' ∧
      rest'.length ≤ rest.length ∧ validateUtf8 rest' = true := by
  rw [validateUtf8_cons] at h
  split at h
  · cases h
  rename_i hb0
  split at h
  · rename_i hlt
    refine ⟨b.toNat, rest, hb0, ⟨by omega, by omega⟩, ?_, Nat.le_refl _, h⟩
    unfold utf8Encode
    rw [if_pos hlt, ofNat_eq b _ rfl]; rfl
  rename_i hge
  split at h
  · cases h
  rename_i hlen0
  split at h
  · cases h
  rename_i hlenok
  cases hg : utf8Get (b.toNat % ((utf8Lead b.toNat).2 + 1)) (rest.take ((utf8Lead b.toNat).1 - 1)) with
  | none => rw [hg] at h; cases h
  | some v =>
    rw [hg] at h
    simp only at h
    split at h
    · cases h
    rename_i hul
    split at h
    · cases h
    rename_i huv
    have hul : utf8Length v = (utf8Lead b.toNat).1 := by simpa using hul
    have huv : unicodeValid v = true := by simpa using huv
    have hvlt : v < 0x110000 ∧ v / 2048 ≠ 27 := by
      unfold unicodeValid at huv; simpa using huv
    obtain ⟨_, hL2, hL3, hL4, hL5, _⟩ := utf8Length_spec v
    rcases utf8Lead_cases b.toNat hge with ⟨hl, hr⟩ | ⟨hl, hr⟩ | ⟨hl, hr⟩ | hl | hl
    · -- two bytes
      rw [hl] at hg hul hlenok h
      simp only at hg hul hlenok h
      have hv2 := hL2 hul
      match rest, hg, hlenok, h with
      | c1 :: rest1, hg, hlenok, h =>
        simp only [Nat.add_one_sub_one, List.take_succ_cons, List.take_zero, utf8Get_cons, utf8Get_nil] at hg
        split at hg
        · rename_i hc1
          simp only [Option.some.injEq] at hg
          refine ⟨v, rest1, by omega, ⟨hvlt.1, by omega⟩, ?_, by simp, by simpa using h⟩
          unfold utf8Encode
          rw [if_neg (by omega), if_pos hv2.2, ofNat_eq b _ (by omega), ofNat_eq c1 _ (by omega)]
          rfl
        · cases hg
      | [], hg, hlenok, h => simp at hlenok
    · -- three bytes
      rw [hl] at hg hul hlenok h
      simp only at hg hul hlenok h
      have hv2 := hL3 hul
      match rest, hg, hlenok, h with
      | c1 :: c2 :: rest2, hg, hlenok, h =>
        simp only [Nat.add_one_sub_one, List.take_succ_cons, List.take_zero, utf8Get_cons, utf8Get_nil] at hg
        split at hg
        · rename_i hc1
          split at hg
          · rename_i hc2
            simp only [Option.some.injEq] at hg
            refine ⟨v, rest2, by omega, ⟨hvlt.1, by omega⟩, ?_, by simp only [List.length_cons]; omega, by simpa using h⟩
            unfold utf8Encode
            rw [if_neg (by omega), if_neg (by omega), if_pos hv2.2, ofNat_eq b _ (by omega),
              ofNat_eq c1 _ (by omega), ofNat_eq c2 _ (by omega)]
            rfl
          · cases hg
        · cases hg
      | [_], hg, hlenok, h => simp at hlenok
      | [], hg, hlenok, h => simp at hlenok
    · -- four bytes
      rw [hl] at hg hul hlenok h
      simp only at hg hul hlenok h
      have hv2 := hL4 hul
      match rest, hg, hlenok, h with
      | c1 :: c2 :: c3 :: rest3, hg, hlenok, h =>
        simp only [Nat.add_one_sub_one, List.take_succ_cons, List.take_zero, utf8Get_cons, utf8Get_nil] at hg
        split at hg
        · rename_i hc1
          split at hg
          · rename_i hc2
            split at hg
            · rename_i hc3
              simp only [Option.some.injEq] at hg
              refine ⟨v, rest3, by omega, ⟨hvlt.1, by omega⟩, ?_, by simp only [List.length_cons]; omega, by simpa using h⟩
              unfold utf8Encode
              rw [if_neg (by omega), if_neg (by omega), if_neg (by omega), ofNat_eq b _ (by omega),
                ofNat_eq c1 _ (by omega), ofNat_eq c2 _ (by omega), ofNat_eq c3 _ (by omega)]
              rfl
            · cases hg
          · cases hg
        · cases hg
      | [_, _], hg, hlenok, h => simp at hlenok
      | [_], hg, hlenok, h => simp at hlenok
      | [], hg, hlenok, h => simp at hlenok
    · -- five or six bytes: value too large
      have := hL5 (by omega)
      omega
    · exact absurd hl hlen0

end Dbus.Proofs
