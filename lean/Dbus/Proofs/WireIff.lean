import Dbus.Proofs.WireFuel
/-
  Body-level iff and prefix-stability lemmas (used by the loader proofs and by Props/C01).
-/
namespace Dbus.Proofs.Wire
open Dbus Dbus.Spec Dbus.Model

/-- **Accepts iff spec-valid** for a sequence of values of the given types (a message body or
    the header seen as a body): accepted exactly when the bytes are the encoding of
    well-formed values of those types followed by the remainder. -/
theorem decodeFields_iff (e : Endian) (ts : List Ty) (bs : Bytes) (vs : List Val) (r : Bytes) :
    decodeFields e (fuelFor bs.length) 0 ts 0 bs = some (vs, r) ↔
      (bs = encodeList e 0 vs ++ r ∧ WFFields e 0 0 vs ts) := by
  constructor
  · exact (decode_sound e _).2.1 0 ts 0 bs vs r
  · rintro ⟨hb, hwf⟩
    have hfuel : needList vs ≤ fuelFor bs.length :=
      fuelFor_covers e vs ts 0 bs.length hwf (by rw [hb]; simp)
    have := decodeFields_complete e vs ts 0 0 r (fuelFor bs.length) hwf hfuel
    rw [hb] at this ⊢
    simpa using this

/-- **Prefix stability** (used by C11): what is accepted, and how many bytes it consumed, does
    not depend on the bytes that follow. -/
theorem validate_prefix_stable (e : Endian) (ts : List Ty) (a b : Bytes) (vs : List Val) (r : Bytes)
    (h : decodeFields e (fuelFor a.length) 0 ts 0 a = some (vs, r)) :
    decodeFields e (fuelFor (a ++ b).length) 0 ts 0 (a ++ b) = some (vs, r ++ b) := by
  obtain ⟨ha, hwf⟩ := (decodeFields_iff e ts a vs r).1 h
  apply (decodeFields_iff e ts (a ++ b) vs (r ++ b)).2
  exact ⟨by rw [ha]; simp, hwf⟩

/-- … and conversely: if the longer buffer is accepted using only bytes of the shorter one,
    the shorter one is accepted with the same values. -/
theorem validate_prefix_reflects (e : Endian) (ts : List Ty) (a b : Bytes) (vs : List Val) (r : Bytes)
    (h : decodeFields e (fuelFor (a ++ b).length) 0 ts 0 (a ++ b) = some (vs, r))
    (hlen : (encodeList e 0 vs).length ≤ a.length) :
    ∃ r', r = r' ++ b ∧ decodeFields e (fuelFor a.length) 0 ts 0 a = some (vs, r') := by
  obtain ⟨hab, hwf⟩ := (decodeFields_iff e ts (a ++ b) vs r).1 h
  -- a ++ b = enc ++ r with |enc| ≤ |a| : so a = enc ++ r' and r = r' ++ b
  have h1 : a = (a ++ b).take a.length := by simp
  have hsplit : a = encodeList e 0 vs ++ (a.drop (encodeList e 0 vs).length) := by
    have : (a ++ b).take (encodeList e 0 vs).length = encodeList e 0 vs := by rw [hab]; simp
    have h2 : a.take (encodeList e 0 vs).length = encodeList e 0 vs := by
      rw [List.take_append_of_le_length hlen] at this
      exact this
    have h3 := (List.take_append_drop (encodeList e 0 vs).length a).symm
    rw [h2] at h3
    exact h3
  refine ⟨a.drop (encodeList e 0 vs).length, ?_, ?_⟩
  · have : encodeList e 0 vs ++ r = encodeList e 0 vs ++ (a.drop (encodeList e 0 vs).length ++ b) := by
      rw [← hab, ← List.append_assoc, ← hsplit]
    exact List.append_cancel_left this
  · apply (decodeFields_iff e ts a vs _).2
    exact ⟨hsplit, hwf⟩

end Dbus.Proofs.Wire
