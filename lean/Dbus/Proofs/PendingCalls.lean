import Dbus.Model.PendingCalls
namespace Dbus.Proofs.PC
open Dbus Dbus.Model.PC

/-- per-call invariant: a call in the table is neither completed nor cancelled; an uncompleted
    call has not been notified; no call is notified twice; a call cancelled before completion
    stays uncompleted -/
def CallOK (c : Call) : Prop :=
  (c.inTable = true → c.completed = none ∧ c.cancelled = false) ∧
  (c.completed = none → c.notified = 0) ∧ c.notified ≤ 1 ∧
  (c.cancelled = true → c.completed = none)

def Inv (st : State) : Prop := ∀ c ∈ st.calls, CallOK c

theorem mem_updCall {cs : List Call} {i : Nat} {f : Call → Call} {c' : Call}
    (h : c' ∈ updCall cs i f) : c' ∈ cs ∨ ∃ c, cs[i]? = some c ∧ c' = f c := by
  unfold updCall at h
  rw [List.mem_mapIdx] at h
  obtain ⟨j, hj, rfl⟩ := h
  by_cases hji : j = i
  · subst hji
    right
    exact ⟨cs[j], by simp [hj], by simp⟩
  · left
    simp [hji]

theorem inv_upd {st : State} {i : Nat} {f : Call → Call} (h : Inv st)
    (hf : ∀ c, st.calls[i]? = some c → CallOK c → CallOK (f c)) :
    ∀ c' ∈ updCall st.calls i f, CallOK c' := by
  intro c' hc'
  rcases mem_updCall hc' with hm | ⟨c, hi, rfl⟩
  · exact h c' hm
  · exact hf c hi (h c (List.mem_of_getElem? hi))

theorem inv_receive {st : State} (m : QMsg) (h : Inv st) : Inv (receive st m) := by
  unfold receive
  simp only
  split
  · exact h
  · split
    · apply inv_upd (st := { st with incoming := st.incoming ++ [m] }) h
      intro c _ hc
      exact hc
    · exact h

theorem inv_foldl_receive (ms : List QMsg) : ∀ (st : State), Inv st → Inv (ms.foldl receive st) := by
  induction ms with
  | nil => intro st h; exact h
  | cons m ms ih => intro st h; exact ih _ (inv_receive m h)

theorem inv_sweep {st : State} (h : Inv st) : Inv (disconnectSweep st) := by
  unfold disconnectSweep Inv
  simp only [List.mem_map]
  rintro c' ⟨c, hc, rfl⟩
  have := h c hc
  split
  · obtain ⟨h1, h2, h3, h4⟩ := this
    exact ⟨by simp, h2, h3, h4⟩
  · exact this

theorem inv_settle {st : State} (h : Inv st) : Inv (settle st) := by
  unfold settle
  split
  · exact inv_sweep h
  · exact h

theorem findBySerial_spec {cs : List Call} {s i : Nat} (h : findBySerial cs s = some i) :
    ∃ c, cs[i]? = some c ∧ c.inTable = true ∧ c.serial = s := by
  unfold findBySerial at h
  have hlt := List.findIdx?_eq_some_iff_getElem.1 h
  obtain ⟨hi, hp, _⟩ := hlt
  refine ⟨cs[i], by simp [hi], ?_, ?_⟩
  · simp only [Bool.and_eq_true, beq_iff_eq] at hp; exact hp.1
  · simp only [Bool.and_eq_true, beq_iff_eq] at hp; exact hp.2

theorem inv_complete {st : State} {i : Nat} {o : Outcome} (h : Inv st)
    (hpre : ∀ c, st.calls[i]? = some c → c.completed = none ∧ c.cancelled = false) :
    Inv (complete st i o) := by
  unfold complete
  apply inv_upd h
  intro c hi hc
  obtain ⟨hnone, hcan⟩ := hpre c hi
  obtain ⟨h1, h2, h3, h4⟩ := hc
  have hn0 := h2 hnone
  refine ⟨by simp, by simp, ?_, by simp [hcan]⟩
  simp only
  split <;> omega

theorem inv_dispatch {st : State} (h : Inv st) : Inv (dispatch st) := by
  unfold dispatch
  cases hq : st.incoming with
  | nil => exact inv_settle h
  | cons m rest =>
    simp only
    apply inv_settle
    have h' : Inv { st with incoming := rest } := h
    cases hf : (if m.rs = 0 then none else findBySerial st.calls m.rs) with
    | none => exact h'
    | some i =>
      simp only
      apply inv_complete h'
      intro c hi
      split at hf
      · cases hf
      · obtain ⟨c', hi', htab, _⟩ := findBySerial_spec hf
        have hi2 : st.calls[i]? = some c := hi
        rw [hi'] at hi2
        cases hi2
        exact (h c (List.mem_of_getElem? hi')).1 htab

theorem inv_send {st : State} (f n : Bool) (h : Inv st) : Inv (send st f n).1 := by
  unfold send
  split
  · exact h
  · simp only
    apply inv_settle
    intro c hc
    simp only [List.mem_append, List.mem_singleton] at hc
    rcases hc with hc | rfl
    · exact h c hc
    · exact ⟨fun _ => ⟨rfl, rfl⟩, fun _ => rfl, by simp, fun _ => rfl⟩

theorem inv_sendPreset {st : State} (s : Nat) (f n : Bool) (h : Inv st) : Inv (sendPreset st s f n).1 := by
  unfold sendPreset
  split
  · exact h
  · simp only
    apply inv_settle
    intro c hc
    simp only [List.mem_append, List.mem_singleton] at hc
    rcases hc with hc | rfl
    · exact h c hc
    · exact ⟨fun _ => ⟨rfl, rfl⟩, fun _ => rfl, by simp, fun _ => rfl⟩

theorem inv_pump {st : State} (h : Inv st) : Inv (pump st) := by
  unfold pump
  apply inv_settle
  have := inv_foldl_receive st.wire { st with wire := [] } h
  split <;> exact this

theorem inv_fire {st : State} (i : Nat) (h : Inv st) : Inv (fire st i).1 := by
  unfold fire
  cases hc : st.calls[i]? with
  | none => exact h
  | some c =>
    simp only
    split
    · apply inv_settle
      have key : ∀ c' ∈ updCall st.calls i (fun c => { c with timeoutArmed := false, timeoutLink := false }), CallOK c' :=
        inv_upd (i := i) h (fun c _ hc => hc)
      cases c.timeoutLink <;> exact key
    · exact h

theorem inv_cancel {st : State} (i : Nat) (h : Inv st) : Inv (cancel st i) := by
  unfold cancel
  apply inv_upd h
  intro c _ hc
  obtain ⟨h1, h2, h3, h4⟩ := hc
  refine ⟨by simp, h2, h3, ?_⟩
  intro hcan
  simp only [Bool.or_eq_true, Option.isNone_iff_eq_none] at hcan
  rcases hcan with hcan | hcan
  · exact h4 hcan
  · exact hcan

theorem inv_block {st : State} (i : Nat) (h : Inv st) : Inv ((block st i).getD st) := by
  unfold block
  cases hc : st.calls[i]? with
  | none => exact h
  | some c =>
    simp only
    split
    · exact h
    · rename_i hcomp
      split
      · exact h
      · rename_i hcan
        have hpre : c.completed = none ∧ c.cancelled = false := by
          constructor
          · cases hcc : c.completed with
            | none => rfl
            | some _ => rw [hcc] at hcomp; simp at hcomp
          · simpa using hcan
        cases hr : removeFirst (fun m => m.rs == c.serial) st.incoming with
        | some p =>
          obtain ⟨m, rest⟩ := p
          simp only [Option.getD_some]
          apply inv_settle
          apply inv_complete (st := { st with incoming := rest }) h
          intro c' hi
          have : st.calls[i]? = some c' := hi
          rw [hc] at this; cases this; exact hpre
        | none =>
          simp only
          have hread : Inv (st.wire.foldl receive { st with wire := [] }) :=
            inv_foldl_receive st.wire { st with wire := [] } h
          have hconn : Inv (if (st.wire.foldl receive { st with wire := [] }).peerClosed = true
              then { (st.wire.foldl receive { st with wire := [] }) with connected := false }
              else (st.wire.foldl receive { st with wire := [] })) := by
            split <;> exact hread
          have hs := inv_settle hconn
          generalize settle (if (st.wire.foldl receive { st with wire := [] }).peerClosed = true
              then { (st.wire.foldl receive { st with wire := [] }) with connected := false }
              else (st.wire.foldl receive { st with wire := [] })) = s2 at hs ⊢
          cases hc2 : s2.calls[i]? with
          | none => exact hs
          | some c2 =>
            simp only
            split
            · exact hs
            · rename_i hcomp2
              split
              · exact h
              · rename_i hcan2
                have hpre2 : c2.completed = none ∧ c2.cancelled = false := by
                  constructor
                  · cases hcc : c2.completed with
                    | none => rfl
                    | some _ => rw [hcc] at hcomp2; simp at hcomp2
                  · simpa using hcan2
                have hp : ∀ c', s2.calls[i]? = some c' → c'.completed = none ∧ c'.cancelled = false := by
                  intro c' hi; rw [hc2] at hi; cases hi; exact hpre2
                cases hr2 : removeFirst (fun m => m.rs == c2.serial) s2.incoming with
                | some p =>
                  obtain ⟨m, rest⟩ := p
                  simp only [Option.getD_some]
                  apply inv_settle
                  exact inv_complete (st := { s2 with incoming := rest }) hs hp
                | none =>
                  simp only
                  split
                  · simp only [Option.getD_some]
                    exact inv_settle (inv_complete hs hp)
                  · exact h

end Dbus.Proofs.PC
