import Dbus.Proofs.WirePrim
import Dbus.Props.C16
/-
  Soundness (canonicity) of the decoder: whatever it accepts is *exactly* the encoding of the
  value it returns, followed by the bytes it leaves, and that value is well-formed.
-/
namespace Dbus.Proofs.Wire
open Dbus Dbus.Spec Dbus.Model Dbus.Proofs

theorem encNat_one (e : Endian) (n : Nat) : encNat e 1 n = [UInt8.ofNat (n % 256)] := by
  cases e <;> simp [encNat, encLE]

theorem ofNat_mod_256 (n : Nat) : UInt8.ofNat (n % 256) = UInt8.ofNat n := by
  apply UInt8.toNat_inj.1
  simp [UInt8.toNat_ofNat']

/-- what `variantType` establishes about a variant's signature -/
theorem variantType_some {sg : Bytes} {t : Ty} (h : variantType sg = some t) :
    sg = t.print ∧ t.WF ∧ t.DepthLax ∧ t.print.length ≤ 255 := by
  unfold variantType at h
  split at h
  · rename_i hv
    split at h
    · rename_i t' hp
      simp only [Option.some.injEq] at h
      subst h
      obtain ⟨hb, hwf⟩ := parseSeq_sound _ _ _ hp
      have hsg : sg = t'.print := by simpa [printList] using hb
      obtain ⟨hl, t2, hs2, hwf2, hd2⟩ := (Props.C16.validateSingle_iff_lax sg).1 hv
      have h2 := parseSeq_complete [t2] (printList [t2]).length ⟨hwf2, trivial⟩ (Nat.le_refl _)
      simp only [printList, List.append_nil] at h2
      rw [← hs2] at h2
      unfold parseSignature at hp
      rw [hp] at h2
      simp only [Option.some.injEq, List.cons.injEq, and_true] at h2
      subst h2
      exact ⟨hsg, hwf.1, hd2, by rw [← hsg]; exact hl⟩
    · cases h
  · cases h

theorem variantType_print (t : Ty) (hwf : t.WF) (hd : t.DepthLax) (hl : t.print.length ≤ 255) :
    variantType t.print = some t := by
  unfold variantType
  have hv : validateSingle t.print = true :=
    (Props.C16.validateSingle_iff_lax _).2 ⟨hl, t, rfl, hwf, hd⟩
  rw [if_pos hv]
  have h2 := parseSeq_complete [t] (printList [t]).length ⟨hwf, trivial⟩ (Nat.le_refl _)
  simp only [printList, List.append_nil] at h2
  unfold parseSignature
  rw [h2]

/-- the contents check of string-like values is the specification's -/
theorem stringOK_spec (b : BTy) (s : Bytes) (hb : b.isFixed = false) (h : stringOK b s = true) :
    (b = .str → SpecUtf8 s) ∧ (b = .path → SpecPath s) ∧ (b = .sig → SigOK s) := by
  cases b <;> simp [BTy.isFixed, BTy.fixedSize] at hb
  · exact ⟨fun _ => (Props.C16.validateUtf8_iff s).1 h, by simp, by simp⟩
  · exact ⟨by simp, fun _ => (Props.C16.validatePath_iff s).1 h, by simp⟩
  · exact ⟨by simp, by simp, fun _ => (Props.C16.validateSignature_iff s).1 h⟩

theorem stringOK_of_spec (b : BTy) (s : Bytes) (hb : b.isFixed = false)
    (h : (b = .str → SpecUtf8 s) ∧ (b = .path → SpecPath s) ∧ (b = .sig → SigOK s)) :
    stringOK b s = true := by
  cases b <;> simp [BTy.isFixed, BTy.fixedSize] at hb
  · exact (Props.C16.validateUtf8_iff s).2 (h.1 rfl)
  · exact (Props.C16.validatePath_iff s).2 (h.2.1 rfl)
  · exact (Props.C16.validateSignature_iff s).2 (h.2.2 rfl)

theorem sigOK_length {s : Bytes} (h : SigOK s) : s.length ≤ 255 := by
  rcases h with h | h
  · exact h.1
  · exact h.1

variable (e : Endian)

theorem decode_sound : ∀ (g : Nat),
    (∀ d t off bs v r, decode e g d t off bs = some (v, r) →
      bs = encode e off v ++ r ∧ WFVal e d off v t) ∧
    (∀ d ts off bs vs r, decodeFields e g d ts off bs = some (vs, r) →
      bs = encodeList e off vs ++ r ∧ WFFields e d off vs ts) ∧
    (∀ d t off body vs, decodeElems e g d t off body = some vs →
      body = encodeList e off vs ∧ WFElems e d off vs t) ∧
    (∀ d kt vt off body es, decodeEntries e g d kt vt off body = some es →
      body = encodeEntries e off es ∧ WFEntries e d off es kt vt)
  | 0 => by
    refine ⟨?_, ?_, ?_, ?_⟩
    · intro d t off bs v r h; simp [decode] at h
    · intro d ts off bs vs r h; simp [decodeFields] at h
    · intro d t off body vs h; simp [decodeElems] at h
    · intro d kt vt off body es h; simp [decodeEntries] at h
  | g + 1 => by
    obtain ⟨ihV, ihF, ihE, ihD⟩ := decode_sound g
    refine ⟨?_, ?_, ?_, ?_⟩
    · intro d t off bs v r h
      cases t with
      | basic b =>
        rw [decode] at h
        split at h
        · -- fixed-size
          rename_i hfix
          simp only [Option.bind_eq_some_iff] at h
          obtain ⟨r0, h1, ⟨n, r'⟩, h2, h3⟩ := h
          dsimp only at h3
          split at h3
          · cases h3
          · rename_i hbool
            simp only [Option.some.injEq, Prod.mk.injEq] at h3
            obtain ⟨rfl, rfl⟩ := h3
            have hp := takePad_some h1
            obtain ⟨hn, hlt⟩ := takeNat_some h2
            refine ⟨by rw [hp, hn]; simp [encode], ?_⟩
            simp only [WFVal]
            refine ⟨trivial, hfix, hlt, ?_⟩
            intro hb
            simp only [not_and, Nat.not_lt] at hbool
            exact hbool hb
        · rename_i hfix
          have hfix' : b.isFixed = false := by simpa using hfix
          split at h
          · -- signature
            rename_i hsig
            simp only [Option.bind_eq_some_iff] at h
            obtain ⟨⟨n, r0⟩, h1, ⟨s, r1⟩, h2, r2, h3, h4⟩ := h
            dsimp only at h2 h3 h4
            split at h4
            · rename_i hok
              simp only [Option.some.injEq, Prod.mk.injEq] at h4
              obtain ⟨rfl, rfl⟩ := h4
              obtain ⟨hn, hlt⟩ := takeNat_some h1
              obtain ⟨hs, hsl⟩ := takeN_some h2
              have hz := takeNul_some h3
              have hspec := stringOK_spec b s hfix' hok
              refine ⟨?_, ?_⟩
              · rw [hn, hs, hz, encNat_one, ofNat_mod_256, ← hsl]
                simp [encode, hsig]
              · simp only [WFVal]
                refine ⟨trivial, hfix', ?_, hspec⟩
                have := sigOK_length (hspec.2.2 hsig)
                omega
            · cases h4
          · -- string / object path
            rename_i hsig
            simp only [Option.bind_eq_some_iff] at h
            obtain ⟨r0, h0, ⟨n, r0'⟩, h1, ⟨s, r1⟩, h2, r2, h3, h4⟩ := h
            dsimp only at h2 h3 h4
            split at h4
            · rename_i hok
              simp only [Option.some.injEq, Prod.mk.injEq] at h4
              obtain ⟨rfl, rfl⟩ := h4
              have hp := takePad_some h0
              obtain ⟨hn, hlt⟩ := takeNat_some h1
              obtain ⟨hs, hsl⟩ := takeN_some h2
              have hz := takeNul_some h3
              refine ⟨?_, ?_⟩
              · rw [hp, hn, hs, hz, ← hsl]
                simp [encode, hsig]
              · simp only [WFVal]
                refine ⟨trivial, hfix', ?_, stringOK_spec b s hfix' hok⟩
                rw [hsl]; simpa using hlt
            · cases h4
      | variant =>
        rw [decode] at h
        simp only [Option.bind_eq_some_iff] at h
        obtain ⟨⟨n, r0⟩, h1, ⟨sg, r1⟩, h2, r2, h3, t, h4, r3, h5, h6⟩ := h
        dsimp only at h2 h3 h4 h5 h6
        split at h6
        · cases h6
        · rename_i hdepth
          simp only [Option.bind_eq_some_iff] at h6
          obtain ⟨⟨v', r4⟩, h7, h8⟩ := h6
          dsimp only at h7 h8
          simp only [Option.some.injEq, Prod.mk.injEq] at h8
          obtain ⟨rfl, rfl⟩ := h8
          obtain ⟨hn, hlt⟩ := takeNat_some h1
          obtain ⟨hs, hsl⟩ := takeN_some h2
          have hz := takeNul_some h3
          obtain ⟨hsg, hwf, hdl, hlen⟩ := variantType_some h4
          have hp := takePad_some h5
          obtain ⟨hv, hwv⟩ := ihV _ _ _ _ _ _ h7
          have hnl : n = t.print.length := by rw [← hsl, hsg]
          subst hsg
          refine ⟨?_, ?_⟩
          · rw [hn, hs, hz, hp, hv, encNat_one, ofNat_mod_256, hnl]
            simp [encode, Nat.add_assoc]
          · simp only [WFVal]
            refine ⟨hwf, hdl, hlen, by omega, ?_⟩
            rw [hnl] at hwv
            exact hwv
      | array et =>
        rw [decode] at h
        simp only [Option.bind_eq_some_iff] at h
        obtain ⟨r0, h0, ⟨n, r1⟩, h1, r2, h2, h3⟩ := h
        dsimp only at h2 h3
        split at h3
        · cases h3
        · rename_i hmax
          simp only [Option.bind_eq_some_iff] at h3
          obtain ⟨⟨body, r3⟩, h4, vs, h5, h6⟩ := h3
          dsimp only at h4 h5 h6
          simp only [Option.some.injEq, Prod.mk.injEq] at h6
          obtain ⟨rfl, rfl⟩ := h6
          have hp := takePad_some h0
          obtain ⟨hn, hlt⟩ := takeNat_some h1
          have hp2 := takePad_some h2
          obtain ⟨hb, hbl⟩ := takeN_some h4
          obtain ⟨he, hwe⟩ := ihE _ _ _ _ _ h5
          subst he
          refine ⟨?_, ?_⟩
          · rw [hp, hn, hp2, hb, ← hbl]
            simp [encode]
          · simp only [WFVal]
            exact ⟨trivial, by rw [hbl]; omega, hwe⟩
      | struct ts =>
        rw [decode] at h
        split at h
        · cases h
        rename_i hne
        simp only [Option.bind_eq_some_iff] at h
        obtain ⟨r0, h0, h1⟩ := h
        split at h1
        · cases h1
        · rename_i hdepth
          simp only [Option.bind_eq_some_iff] at h1
          obtain ⟨⟨vs, r1⟩, h2, h3⟩ := h1
          dsimp only at h2 h3
          simp only [Option.some.injEq, Prod.mk.injEq] at h3
          obtain ⟨rfl, rfl⟩ := h3
          have hp := takePad_some h0
          obtain ⟨hf, hwf⟩ := ihF _ _ _ _ _ _ h2
          refine ⟨by rw [hp, hf]; simp [encode], ?_⟩
          simp only [WFVal]
          refine ⟨?_, by omega, hwf⟩
          intro h0; subst h0; simp at hne
      | dict k vt =>
        rw [decode] at h
        simp only [Option.bind_eq_some_iff] at h
        obtain ⟨r0, h0, ⟨n, r1⟩, h1, r2, h2, h3⟩ := h
        dsimp only at h2 h3
        split at h3
        · cases h3
        · rename_i hmax
          simp only [Option.bind_eq_some_iff] at h3
          obtain ⟨⟨body, r3⟩, h4, es, h5, h6⟩ := h3
          dsimp only at h4 h5 h6
          simp only [Option.some.injEq, Prod.mk.injEq] at h6
          obtain ⟨rfl, rfl⟩ := h6
          have hp := takePad_some h0
          obtain ⟨hn, hlt⟩ := takeNat_some h1
          have hp2 := takePad_some h2
          obtain ⟨hb, hbl⟩ := takeN_some h4
          obtain ⟨he, hwe⟩ := ihD _ _ _ _ _ _ h5
          subst he
          refine ⟨?_, ?_⟩
          · rw [hp, hn, hp2, hb, ← hbl]
            simp [encode]
          · simp only [WFVal]
            exact ⟨trivial, trivial, by rw [hbl]; omega, hwe⟩
    · intro d ts off bs vs r h
      cases ts with
      | nil =>
        simp only [decodeFields, Option.some.injEq, Prod.mk.injEq] at h
        obtain ⟨rfl, rfl⟩ := h
        exact ⟨by simp [encodeList], trivial⟩
      | cons t ts =>
        rw [decodeFields] at h
        simp only [Option.bind_eq_some_iff] at h
        obtain ⟨⟨v, r0⟩, h1, ⟨vs', r1⟩, h2, h3⟩ := h
        dsimp only at h2 h3
        simp only [Option.some.injEq, Prod.mk.injEq] at h3
        obtain ⟨rfl, rfl⟩ := h3
        obtain ⟨hv, hwv⟩ := ihV _ _ _ _ _ _ h1
        have hlen : bs.length - r0.length = (encode e off v).length := by
          rw [hv]; simp
        rw [hlen] at h2
        obtain ⟨hf, hwf⟩ := ihF _ _ _ _ _ _ h2
        refine ⟨by rw [hv, hf]; simp [encodeList], ?_⟩
        simp only [WFFields]
        exact ⟨hwv, hwf⟩
    · intro d t off body vs h
      cases body with
      | nil =>
        simp only [decodeElems, Option.some.injEq] at h
        subst h
        exact ⟨by simp [encodeList], trivial⟩
      | cons b body =>
        rw [decodeElems] at h
        split at h
        · cases h
        · rename_i hdepth
          simp only [Option.bind_eq_some_iff] at h
          obtain ⟨⟨v, r0⟩, h1, vs', h2, h3⟩ := h
          dsimp only at h2 h3
          simp only [Option.some.injEq] at h3
          subst h3
          obtain ⟨hv, hwv⟩ := ihV _ _ _ _ _ _ h1
          have hlen : (b :: body).length - r0.length = (encode e off v).length := by
            rw [hv]; simp
          rw [hlen] at h2
          obtain ⟨hf, hwf⟩ := ihE _ _ _ _ _ h2
          refine ⟨by rw [hv, hf]; simp [encodeList], ?_⟩
          simp only [WFElems]
          refine ⟨?_, hwv, hwf⟩
          intro hnf
          simp only [not_and, Nat.not_lt] at hdepth
          exact hdepth hnf
    · intro d kt vt off body es h
      cases body with
      | nil =>
        simp only [decodeEntries, Option.some.injEq] at h
        subst h
        exact ⟨by simp [encodeEntries], trivial⟩
      | cons b body =>
        rw [decodeEntries] at h
        split at h
        · cases h
        · rename_i hdepth
          simp only [Option.bind_eq_some_iff] at h
          obtain ⟨r0, h0, ⟨k, r1⟩, h1, ⟨v, r2⟩, h2, es', h3, h4⟩ := h
          dsimp only at h2 h3 h4
          simp only [Option.some.injEq] at h4
          subst h4
          have hp := takePad_some h0
          obtain ⟨hk, hwk⟩ := ihV _ _ _ _ _ _ h1
          have hlen1 : r0.length - r1.length = (encode e (off + padLen off 8) k).length := by
            rw [hk]; simp
          rw [hlen1] at h2
          obtain ⟨hv, hwv⟩ := ihV _ _ _ _ _ _ h2
          have hlen2 : (b :: body).length - r2.length = padLen off 8 + (encode e (off + padLen off 8) k).length +
              (encode e (off + padLen off 8 + (encode e (off + padLen off 8) k).length) v).length := by
            rw [hp, hk, hv]; simp [pad_length]; omega
          rw [hlen2] at h3
          obtain ⟨hes, hwes⟩ := ihD _ _ _ _ _ _ h3
          refine ⟨?_, ?_⟩
          · rw [hp, hk, hv, hes]
            simp [encodeEntries, Nat.add_assoc]
          · simp only [WFEntries]
            refine ⟨by omega, hwk, hwv, ?_⟩
            simpa [Nat.add_assoc] using hwes

end Dbus.Proofs.Wire
