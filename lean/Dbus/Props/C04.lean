import Dbus.Proofs.Bus.Services
import Dbus.Proofs.Bus.GenericA
import Dbus.Proofs.Bus.MonInv
/-
  C04 — name ownership follows the specification's state machine.

  `Dbus.Spec.Names` is the specification (written from doc/dbus-specification.xml);
  `Dbus.Model.Bus.Registry` is the model of bus/services.c.  The theorems compare the two for every
  queue, caller and flag word, and lift the comparison to every state the bus can reach.
-/
namespace Dbus.Props.C04
open Dbus Dbus.Spec Dbus.Model Dbus.Model.Bus Dbus.Proofs.Bus Dbus.Spec.Names

/-! ### the queue algebra against the specification (all queues, all callers, all flag words) -/

theorem requestName_queue (os : List Owner) (c flags : Nat) (hi : QInv os) (hj : ¬ QueueJump os c flags) :
    (qAcquire os c flags).1 = requestName os c (flagAllow flags) (flagReplace flags) (flagNoQueue flags) :=
  qAcquire_queue_eq_spec os c flags hi hj

theorem requestName_reply (os : List Owner) (c flags : Nat) (hi : QInv os) :
    (qAcquire os c flags).2.1 = requestReply os c (flagAllow flags) (flagReplace flags) (flagNoQueue flags) :=
  qAcquire_reply_eq_spec os c flags hi

theorem requestName_signals (os : List Owner) (c flags : Nat) (hi : QInv os) :
    (qAcquire os c flags).2.2.map sigSpec = signals (primary os) (primary (qAcquire os c flags).1) :=
  qAcquire_signals_eq_spec os c flags hi

theorem releaseName_queue_and_reply (os : List Owner) (c : Nat) (hi : QInv os) :
    (qRelease os c).1 = releaseName os c ∧ (qRelease os c).2.1 = releaseReply os c :=
  qRelease_eq_spec os c hi

theorem releaseName_signals (os : List Owner) (c : Nat) (hi : QInv os) :
    (qRelease os c).2.2.map sigSpec = signals (primary os) (primary (qRelease os c).1) :=
  qRelease_signals_eq_spec os c hi

theorem disconnect_queue (os : List Owner) (c : Nat) (hi : QInv os) : (qRemove os c).1 = releaseName os c :=
  qRemove_eq_spec os c hi

theorem disconnect_signals (os : List Owner) (c : Nat) (hi : QInv os) :
    (qRemove os c).2.map sigSpec = signals (primary os) (primary (qRemove os c).1) :=
  qRemove_signals_eq_spec os c hi

/-- the one recorded departure (F15): REPLACE_EXISTING that cannot replace still jumps the queue;
    the primary owner is the specification's all the same -/
theorem queue_jump_same_primary (os : List Owner) (c flags : Nat) (hi : QInv os) (hj : QueueJump os c flags) :
    primary (qAcquire os c flags).1 =
      primary (requestName os c (flagAllow flags) (flagReplace flags) (flagNoQueue flags)) :=
  queueJump_same_primary os c flags hi hj

theorem f15_witness :
    let os : List Owner := [⟨1, false, false⟩, ⟨2, false, false⟩]
    QInv os ∧ QueueJump os 3 2 ∧
    (qAcquire os 3 2).1 = [⟨1, false, false⟩, ⟨3, false, false⟩, ⟨2, false, false⟩] ∧
    requestName os 3 (flagAllow 2) (flagReplace 2) (flagNoQueue 2) =
      [⟨1, false, false⟩, ⟨2, false, false⟩, ⟨3, false, false⟩] :=
  queueJump_witness

/-! ### every reachable state -/

/-- In every state the bus can reach, every name's queue has no connection twice and nobody but
    the primary owner holds DO_NOT_QUEUE; a registered name has an owner; names are registered once.
    ("A name never has two primary owners": the primary owner is the head of the one queue.) -/
theorem queues_well_formed (tbl : List IfaceRow) (l : Limits) (p : Policy) (evs : List Ev) :
    let b := (run tbl { limits := l, policy := p } evs).1
    (b.services.map (·.name)).Nodup ∧ ∀ s ∈ b.services, s.owners ≠ [] ∧ QInv s.owners := by
  intro b
  have := servicesInv_run tbl l p evs
  exact ⟨this.names_nodup, this.queues⟩

/-- … and the same with service activation (names taken by started services, held messages going out,
    failed starts) and with time (`runT`) -/
theorem queues_well_formed_with_activation_and_time (tbl : List IfaceRow) (l : Limits) (p : Policy) (t0 : TBus)
    (h0 : t0.a.core = { limits := l, policy := p }) (evs : List TEv) :
    let b := (runT tbl t0 evs).1.a.core
    (b.services.map (·.name)).Nodup ∧ ∀ s ∈ b.services, s.owners ≠ [] ∧ QInv s.owners := by
  intro b
  have : ServicesInv b := invariant_of_leaves_T services_leaves tbl evs t0 (by
    rw [h0]; exact ⟨List.nodup_nil, by intro s hs; cases hs⟩)
  exact ⟨this.names_nodup, this.queues⟩

/-- so the hypothesis of the queue theorems holds for the queue the bus looks up, for every name -/
theorem looked_up_queue_ok (tbl : List IfaceRow) (l : Limits) (p : Policy) (evs : List Ev) (n : Bytes) :
    QInv (ownersOf (run tbl { limits := l, policy := p } evs).1 n) :=
  ownersOf_qinv (servicesInv_run tbl l p evs) n

/-! ### the driver methods around the queue -/

/-- the bus's own name and unique names can be neither requested … -/
theorem reserved_names_not_requestable (t : Tx) (c : ConnId) (n : Bytes) (flags : Nat)
    (h : n = BUS_NAME ∨ n.head? = some 0x3a) : acquire t c n flags = (t, .error .invalidArgs) := by
  unfold acquire
  rcases h with h | h
  · by_cases h1 : validateBusName n = true
    · by_cases h2 : n.head? = some 0x3a
      · simp [h1, h2]
      · simp [h1, h2, h]
    · simp [h1]
  · by_cases h1 : validateBusName n = true
    · simp [h1, h]
    · simp [h1]

/-- … nor released -/
theorem reserved_names_not_releasable (t : Tx) (c : ConnId) (n : Bytes)
    (h : n = BUS_NAME ∨ n.head? = some 0x3a) : release t c n = (t, .error .invalidArgs) := by
  unfold release
  rcases h with h | h
  · by_cases h1 : validateBusName n = true
    · by_cases h2 : n.head? = some 0x3a
      · simp [h1, h2]
      · simp [h1, h2, h]
    · simp [h1]
  · by_cases h1 : validateBusName n = true
    · simp [h1, h]
    · simp [h1]

/-- a refused RequestName (bad name, policy, limit) changes nothing -/
theorem refused_request_changes_nothing (t : Tx) (c : ConnId) (n : Bytes) (flags : Nat) (e : Err)
    (h : (acquire t c n flags).2 = .error e) : (acquire t c n flags).1 = t := by
  unfold acquire at h ⊢
  repeat' split
  all_goals first | rfl | (simp_all)

/-- the reply to RequestName is queued after the signals the request caused -/
theorem reply_after_signals (t : Tx) (c : ConnId) (m : Msg) :
    ∃ l, (runMethod t c m .requestName).1.out = (acquire t c (arg0 m) (arg1Nat m)).1.out ++ l := by
  simp only [runMethod]
  rcases hr : acquire t c (arg0 m) (arg1Nat m) with ⟨t1, r⟩
  cases r with
  | error e => exact ⟨[], by simp⟩
  | ok code =>
    obtain ⟨l, hl, _⟩ := (step_reply t1 c m [tU32] [.fixed .u32 code]).out
    exact ⟨l, hl⟩

/-- GetNameOwner answers with the head of the queue -/
theorem getNameOwner_reports_primary (t : Tx) (c : ConnId) (m : Msg) (o : ConnId)
    (h : t.bus.primary? (arg0 m) = some o) :
    runMethod t c m .getNameOwner = (reply t c m [tStr] [sStr (t.bus.uniqueOrEmpty o)], none) := by
  simp [runMethod, h]

/-- ListQueuedOwners answers with the queue, in order -/
theorem listQueuedOwners_reports_queue (t : Tx) (c : ConnId) (m : Msg) (o : Owner) (os : List Owner)
    (h : ownersOf t.bus (arg0 m) = o :: os) :
    runMethod t c m .listQueuedOwners =
      (reply t c m [.array tStr] [.array tStr ((o :: os).map fun x => sStr (t.bus.uniqueOrEmpty x.conn))], none) := by
  simp [runMethod, h]

/-- NameHasOwner answers whether the name is registered (the bus's own name always is) -/
theorem nameHasOwner_reports_registry (t : Tx) (c : ConnId) (m : Msg) :
    runMethod t c m .nameHasOwner =
      (reply t c m [.basic .bool]
        [.fixed .bool (if (arg0 m == BUS_NAME || (t.bus.service? (arg0 m)).isSome) then 1 else 0)], none) := by
  simp [runMethod]

/-- non-vacuity: a reachable queue to which the main theorem applies -/
example : QInv [(⟨1, true, false⟩ : Owner), ⟨2, false, false⟩] ∧ ¬ QueueJump [⟨1, true, false⟩, ⟨2, false, false⟩] 3 2 := by
  refine ⟨⟨by decide, by decide⟩, ?_⟩
  rintro ⟨p, rest, h, _, _, _, ha⟩
  simp only [List.cons.injEq] at h
  rw [← h.1] at ha
  cases ha

/-! ### who stands in a queue, in every reachable state -/

/-- **Only connected clients own or wait for names**: whoever stands in any queue of any reachable state is a connected
    connection (and no monitor) - a disconnect, and BecomeMonitor, really take the connection out of every queue. -/
theorem queue_members_are_connected (tbl : List IfaceRow) (l : Limits) (p : Policy) (evs : List Ev) :
    ∀ s ∈ (run tbl { limits := l, policy := p } evs).1.services, ∀ d, inQueue s.owners d = true →
      ∃ x ∈ (run tbl { limits := l, policy := p } evs).1.conns, x.id = d ∧ x.monitor = false :=
  (good_run tbl (good_init l p) evs).reg.live

/-- the connection's own list of names (`services_owned`, which the disconnect path walks) covers every queue it stands in -/
theorem owned_names_cover_queues (tbl : List IfaceRow) (l : Limits) (p : Policy) (evs : List Ev) :
    ∀ x ∈ (run tbl { limits := l, policy := p } evs).1.conns, ∀ s ∈ (run tbl { limits := l, policy := p } evs).1.services,
      inQueue s.owners x.id = true → s.name ∈ x.owned :=
  (good_run tbl (good_init l p) evs).reg.sync

/-- so that when a connection goes (close, invalid bytes, a monitor that speaks) it stands in no queue afterwards -/
theorem gone_connection_in_no_queue (tbl : List IfaceRow) (l : Limits) (p : Policy) (evs : List Ev) (c : ConnId) :
    ∀ s ∈ (run tbl { limits := l, policy := p } (evs ++ [.close c])).1.services, inQueue s.owners c = false := by
  intro s hs
  rw [Bool.eq_false_iff]
  intro hq
  have hg := good_run tbl (good_init l p) (evs ++ [.close c])
  obtain ⟨x, hx, hxid, _⟩ := hg.reg.live s hs c hq
  -- the closed connection is not among the connections any more
  have hrun : (run tbl { limits := l, policy := p } (evs ++ [.close c])).1 =
      (step tbl (run tbl { limits := l, policy := p } evs).1 (.close c)).bus := by
    unfold run; rw [List.foldl_append]; rfl
  rw [hrun] at hx
  have hgone : ∀ y ∈ (disconnect (run tbl { limits := l, policy := p } evs).1 c).bus.conns, y.id ≠ c := by
    intro y hy
    unfold disconnect at hy
    cases hc : (run tbl { limits := l, policy := p } evs).1.conn? c with
    | none =>
      rw [hc] at hy
      intro he
      have := List.find?_eq_none.mp hc y hy
      simp [he] at this
    | some x0 =>
      rw [hc] at hy
      have hy' : y ∈ (disconnectTx (run tbl { limits := l, policy := p } evs).1 c x0).bus.conns := hy
      unfold disconnectTx at hy'
      rw [dropPending_bus] at hy'
      have : y ∈ (removeConn c _).conns := hy'
      unfold removeConn at this
      simpa using (List.mem_filter.mp this).2
  exact hgone x hx hxid

end Dbus.Props.C04
