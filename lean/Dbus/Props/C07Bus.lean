import Dbus.Props.C05
/-
  C07 at the level of the whole bus: a broadcast reaches exactly the connections whose match rules
  match it (and whom policy lets receive it), once each.
-/
namespace Dbus.Props.C07Bus
open Dbus Dbus.Spec Dbus.Model Dbus.Model.Bus Dbus.Proofs.Bus

/-- who is considered: the connections (monitors aside, the addressed recipient aside) holding a rule
    that matches the message -/
theorem recipient_iff (b : Bus) (s a : Option ConnId) (m : Msg) (r : ConnId) :
    r ∈ recipients b s a m ↔
      ∃ x ∈ b.conns, x.id = r ∧ x.monitor = false ∧ some r ≠ a ∧
        ∃ rule ∈ x.rules, ruleMatches rule (matchCtx b s a m) = true := by
  unfold recipients
  simp only [List.mem_map, List.mem_filter, Bool.and_eq_true, Bool.not_eq_true', bne_iff_ne, ne_eq, List.any_eq_true]
  constructor
  · rintro ⟨x, ⟨hx, ⟨hm, hne⟩, rule, hr, hmatch⟩, rfl⟩
    exact ⟨x, hx, rfl, hm, hne, rule, hr, hmatch⟩
  · rintro ⟨x, hx, rfl, hm, hne, rule, hr, hmatch⟩
    exact ⟨x, ⟨hx, ⟨hm, hne⟩, rule, hr, hmatch⟩, rfl⟩

/-- nobody is considered twice -/
theorem recipients_nodup (b : Bus) (s a : Option ConnId) (m : Msg) (hn : (b.conns.map (·.id)).Nodup) :
    (recipients b s a m).Nodup := by
  unfold recipients
  exact hn.sublist (List.Sublist.map _ List.filter_sublist)

/-- a message with no addressed recipient never touches the pending-reply list at the gate -/
theorem gate_broadcast_pending (b : Bus) (s : Option ConnId) (r : ConnId) (m : Msg) :
    (checkPolicy b s none (some r) m).1 = b.pending := by
  unfold checkPolicy
  split; · rfl
  have : (requestedReply b s none (some r) m).1 = b.pending := by
    unfold requestedReply
    cases s with
    | none => rfl
    | some s => simp
  rcases hr : requestedReply b s none (some r) m with ⟨pend, req⟩
  rw [hr] at this
  dsimp only at this ⊢
  subst this
  cases policyVerdict b s none (some r) m req with
  | some e => rfl
  | none => cases s <;> rfl

/-- whether one candidate gets its copy: the gate (sender's send rules, its own receive rules) and,
    for messages with file descriptors, whether it can take them -/
def admitted (b : Bus) (s : Option ConnId) (m : Msg) (r : ConnId) : Bool :=
  (checkPolicy b s none (some r) m).2.isNone && !(decide (m.nFds > 0) && !canFdOf b r)

theorem sendOne_broadcast (t : Tx) (s : Option ConnId) (r : ConnId) (m : Msg) :
    (sendOne t s none r m).bus = t.bus ∧
    (sendOne t s none r m).out = t.out ++ (if admitted t.bus s m r then [Out.deliver r m] else []) := by
  unfold sendOne admitted
  have hp := gate_broadcast_pending t.bus s r m
  rcases h : checkPolicy t.bus s none (some r) m with ⟨p, err⟩
  rw [h] at hp
  dsimp only at hp
  subst hp
  cases err with
  | some e =>
    dsimp only
    have := captureError_frame (t.setPending t.bus.pending) s m e
    exact ⟨this.1, by rw [this.2]; simp⟩
  | none =>
    dsimp only
    by_cases hf : (decide (m.nFds > 0) && !canFdOf t.bus r) = true
    · have := captureError_frame (t.setPending t.bus.pending) s m .notSupported
      simp only [hf, if_true]
      exact ⟨this.1, by rw [this.2]; simp⟩
    · simp only [hf]
      exact ⟨rfl, by simp⟩

theorem sendMatches_broadcast_fold (s : Option ConnId) (m : Msg) : ∀ (rs : List ConnId) (t : Tx),
    (rs.foldl (fun t r => sendOne t s none r m) t).bus = t.bus ∧
    (rs.foldl (fun t r => sendOne t s none r m) t).out =
      t.out ++ (rs.filter (admitted t.bus s m)).map (Out.deliver · m)
  | [], t => by simp
  | r :: rs, t => by
    simp only [List.foldl_cons]
    obtain ⟨hb, ho⟩ := sendOne_broadcast t s r m
    obtain ⟨h1, h2⟩ := sendMatches_broadcast_fold s m rs (sendOne t s none r m)
    refine ⟨h1.trans hb, ?_⟩
    rw [h2, ho, hb]
    by_cases ha : admitted t.bus s m r = true
    · simp [ha, List.filter_cons]
    · simp [ha, List.filter_cons]

/-- **Broadcasts.** A message without addressed recipient (a broadcast signal from a client, a
    NameOwnerChanged from the bus) is delivered to exactly the connections that hold a matching rule
    and are admitted by the gate — one copy each, in connection order — and the state is untouched. -/
theorem broadcast_reaches_exactly_the_matching (t : Tx) (s : Option ConnId) (m : Msg) :
    (sendMatches t s none m).bus = t.bus ∧
    (sendMatches t s none m).out =
      t.out ++ ((recipients t.bus s none m).filter (admitted t.bus s m)).map (Out.deliver · m) :=
  sendMatches_broadcast_fold s m _ t

/-- rules are dropped with their owner: after a disconnect the connection is not among the
    connections any more, so none of its rules can select a recipient -/
theorem disconnected_gets_nothing (b : Bus) (c : ConnId) (x : Conn) (hx : b.conn? c = some x) :
    ∀ y ∈ (disconnect b c).bus.conns, y.id ≠ c := by
  intro y hy
  unfold disconnect at hy
  simp only [hx] at hy
  have hcore := (step_dropPending ((releaseAll ({ bus := clearRules (gcRules b x) c } : Tx) c x.owned.reverse).mapBus (removeConn c)) c).bus
  have hc := (core_eq_iff.mp hcore).1
  unfold disconnectTx at hy
  rw [hc] at hy
  have : y ∈ ((releaseAll ({ bus := clearRules (gcRules b x) c } : Tx) c x.owned.reverse).bus.conns.filter (·.id != c)) := hy
  simpa [bne_iff_ne] using (List.mem_filter.mp this).2

/-! ### rules that name a well-known name -/

/-- **`sender='name'` means "sent by the name's present owner"**: a rule naming a sender matches a message from connection `c`
    only if `c` is the primary owner of that name at that moment - standing in the name's queue is not enough. -/
theorem sender_rule_needs_the_owner (b : Bus) (c : ConnId) (a : Option ConnId) (m : Msg) (r : MatchRule) (n : Bytes)
    (hr : r.sender = some n) (hm : ruleMatches r (matchCtx b (some c) a m) = true) : b.primary? n = some c := by
  unfold ruleMatches at hm
  simp only [Bool.and_eq_true] at hm
  have hs : senderOK r (matchCtx b (some c) a m) = true := hm.1.1.1.2
  unfold senderOK at hs
  rw [hr] at hs
  simpa [matchCtx] using hs

/-- a connection that merely waits for the name (it is in the queue, somebody else is first) never satisfies such a rule -/
theorem waiter_does_not_match_sender_rule (b : Bus) (c o : ConnId) (a : Option ConnId) (m : Msg) (r : MatchRule) (n : Bytes)
    (hr : r.sender = some n) (ho : b.primary? n = some o) (hne : o ≠ c) : ruleMatches r (matchCtx b (some c) a m) = false := by
  cases h : ruleMatches r (matchCtx b (some c) a m) with
  | false => rfl
  | true =>
    have := sender_rule_needs_the_owner b c a m r n hr h
    rw [ho] at this
    exact absurd (Option.some.inj this) hne

/-- likewise `destination='name'` (an eavesdropping rule): the message must be addressed to the name's present owner -/
theorem destination_rule_needs_the_owner (b : Bus) (s : Option ConnId) (a : ConnId) (m : Msg) (r : MatchRule) (n : Bytes)
    (hr : r.dest = some n) (hm : ruleMatches r (matchCtx b s (some a) m) = true) : b.primary? n = some a := by
  unfold ruleMatches at hm
  simp only [Bool.and_eq_true] at hm
  have hd : destOK r (matchCtx b s (some a) m) = true := hm.1.1.2
  unfold destOK at hd
  rw [hr] at hd
  simp only [matchCtx] at hd
  cases hmd : m.dest with
  | none => rw [hmd] at hd; simp at hd
  | some md =>
    rw [hmd] at hd
    by_cases he : r.eavesdrop = true
    · simpa [he] using hd
    · simp [he] at hd

end Dbus.Props.C07Bus
