import Dbus.Proofs.Endian
import Dbus.Proofs.Build
import Dbus.Props.C12
/-
  C02 — built messages serialise to valid wire format and round-trip exactly.

  A construction program (any sequence of API calls) denotes an abstract message `m`
  (`Model/Build.lean`: `pushTop`, `setHdr`, `applyBuild`); the K-tie shows that the library's
  incremental writer produces `encodeMsg m` byte for byte. The first group of theorems is about
  `encodeMsg m` for *every* well-formed `m`; the second (`build_keeps_valid`,
  `built_message_roundtrips`) proves that construction steps, under the API's preconditions, keep
  the message well-formed - so that the first group applies to whatever was built.
-/
namespace Dbus.Props.C02
open Dbus Dbus.Spec Dbus.Model Dbus.Proofs.Message

/-- **Serialises to a valid message, parses back identically.** -/
theorem marshal_roundtrip (mx fds : Nat) (m : Msg) (h : WFMsg mx fds m) :
    loadOne true mx fds (encodeMsg m) = .ok m (encodeMsg m).length := by
  have := loadOne_encodeMsg h []
  simpa using this

/-- **Re-serialisation is byte-identical**: whatever parses re-encodes to the bytes it came from. -/
theorem remarshal_identical (mx fds : Nat) (bs : Bytes) (m : Msg) (n : Nat)
    (h : loadOne true mx fds bs = .ok m n) : encodeMsg m = bs.take n :=
  (loadOne_sound h).2.1.symm

/-- **The other byte order changes no value**: the image of a message in the other byte order
    is a valid message and parses to the same type, flags, serial, header fields and body
    values — only the byte-order mark differs. -/
theorem byteswap_values (mx fds : Nat) (m : Msg) (e' : Endian) (h : WFMsg mx fds m) :
    loadOne true mx fds (encodeMsg { m with endian := e' }) =
      .ok { m with endian := e' } (encodeMsg { m with endian := e' }).length :=
  marshal_roundtrip mx fds _ (wfMsg_endian e' h)

/-- converting there and back is the identity on the bytes -/
theorem byteswap_involutive (m : Msg) (e' : Endian) :
    encodeMsg { ({ m with endian := e' } : Msg) with endian := m.endian } = encodeMsg m := by
  cases m; rfl

/-- the size of a message does not depend on the byte order -/
theorem byteswap_same_length (m : Msg) (e' : Endian) :
    (encodeMsg { m with endian := e' }).length = (encodeMsg m).length := by
  rw [encodeMsg_length, encodeMsg_length]
  show align8 (16 + (encodeList e' 16 (m.fields.map fieldVal)).length) + (encodeList e' 0 m.body).length = _
  rw [encodeList_length_endian e' m.endian, encodeList_length_endian e' m.endian]
  rfl

/-- **A copy is the same message with serial zero** (so it is not yet a valid wire message:
    the serial is assigned when it is sent). -/
theorem copy_differs_only_in_serial (m : Msg) :
    ({ m with serial := 0 } : Msg).fields = m.fields ∧ ({ m with serial := 0 } : Msg).body = m.body ∧
    ({ m with serial := 0 } : Msg).mtype = m.mtype ∧ ({ m with serial := 0 } : Msg).flags = m.flags :=
  ⟨rfl, rfl, rfl, rfl⟩

end Dbus.Props.C02

namespace Dbus.Props.C02
open Dbus Dbus.Spec Dbus.Model Dbus.Proofs.Message Dbus.Props.C12

/-- the SIGNATURE field the library writes for a body of types `tys` -/
def sigField (tys : List Ty) : Field := { code := FIELD_SIGNATURE, ty := .basic .sig, val := .str .sig (printList tys) }

/-- what appending the value `v` to the body of `m` needs: the value is well-formed where it will stand, the lengthened
    signature is a signature (its types are types, it fits in 255 bytes, the depths are within the limits), and the
    message still fits the size limits -/
structure AppendOK (mx : Nat) (m : Msg) (v : Val) : Prop where
  value : WFVal m.endian 0 (encodeBody m).length v (valTy v)
  sig_types : WFList (m.bodyTypes ++ [valTy v])
  sig_ok : SigOK (printList (m.bodyTypes ++ [valTy v]))
  body_fits : (encodeList m.endian 0 (m.body ++ [v])).length ≤ mx ∧ (encodeList m.endian 0 (m.body ++ [v])).length < 2 ^ 32
  header_fits : fieldsLen m.endian (setFieldList m.fields (sigField (m.bodyTypes ++ [valTy v]))) ≤ MAX_ARRAY_LENGTH ∧
    fieldsLen m.endian (setFieldList m.fields (sigField (m.bodyTypes ++ [valTy v]))) ≤ mx ∧
    align8 (16 + fieldsLen m.endian (setFieldList m.fields (sigField (m.bodyTypes ++ [valTy v])))) +
      (encodeList m.endian 0 (m.body ++ [v])).length ≤ mx


theorem sigField_ok (tys : List Ty) : FieldOK (sigField tys) :=
  ⟨by show (8 : Nat) ≠ 0; decide, fun _ => ⟨.sig, rfl, rfl, rfl⟩⟩

theorem sigField_wf (e : Endian) (tys : List Ty) (h : SigOK (printList tys)) : FieldWF e (sigField tys) := by
  have hl := Dbus.Proofs.Wire.sigOK_length h
  unfold FieldWF fieldVal sigField
  simp only [WFVal, WFFields, Ty.WF, Ty.DepthLax]
  refine ⟨by simp, by unfold MAX_VALUE_DEPTH; omega, ⟨trivial, rfl, by decide, by simp⟩, ?_, trivial⟩
  refine ⟨trivial, ⟨by decide, by decide, by decide⟩, by decide, by unfold MAX_VALUE_DEPTH; omega, trivial, rfl, by omega,
    (fun h => by cases h), (fun h => by cases h), fun _ => h⟩

/-- **Appending a value keeps a valid message valid**: the body grows by the value, the signature by its type,
    the SIGNATURE field is rewritten to match - and the result is a well-formed message again. -/
theorem pushTop_keeps_valid (mx fds : Nat) (m : Msg) (v : Val) (h : WFMsg mx fds m) (ha : AppendOK mx m v) :
    WFMsg mx fds (pushTop m v) := by
  have hold := (header_wf_fields_of _ _ _ _ _ _ _ h.header_wf).2
  have hwf : ∀ g ∈ setFieldList m.fields (sigField (m.bodyTypes ++ [valTy v])), FieldWF m.endian g := by
    intro g hg
    rcases mem_setFieldList _ _ _ hg with hg | rfl
    · exact hold g hg
    · exact sigField_wf _ _ ha.sig_ok
  have hbody : WFFields m.endian 0 0 (m.body ++ [v]) (m.bodyTypes ++ [valTy v]) :=
    wfFields_append m.endian m.body m.bodyTypes v (valTy v) 0 0 h.body_wf (by simpa [encodeBody] using ha.value)
  refine { mtype_ne := h.mtype_ne, version_eq := h.version_eq, serial_ne := h.serial_ne, header_wf := ?_,
           fields_ok := checkFields_set _ _ h.fields_ok (by show (8 : Nat) ≤ 10; decide) (sigField_ok _), mandatory := mandatoryOK_set _ _ _ h.mandatory,
           body_types := ?_, body_wf := hbody, falen_le := ha.header_fits.2.1, blen_le := ha.body_fits.1,
           total_le := ha.header_fits.2.2, fds_ok := ?_ }
  · have hw := h.header_wf
    show WFFields m.endian 0 0 (headerValues m.endian m.mtype m.flags m.version (encodeList m.endian 0 (m.body ++ [v])).length m.serial
      (setFieldList m.fields (sigField (m.bodyTypes ++ [valTy v])))) headerTypes
    simp only [headerValues, headerTypes, WFFields] at hw ⊢
    refine ⟨hw.1, hw.2.1, hw.2.2.1, hw.2.2.2.1, ?_, ?_, ?_, trivial⟩
    · simp only [WFVal]
      exact ⟨trivial, rfl, by have := ha.body_fits.2; show _ < 256 ^ 4; omega, by intro h; cases h⟩
    · have := hw.2.2.2.2.2.1
      simp only [WFVal] at this ⊢
      exact this
    · exact (wfVal_fieldArray_iff m.endian _ _).2 ⟨ha.header_fits.1, hwf⟩
  · show bodyTypesOf (setFieldList m.fields (sigField (m.bodyTypes ++ [valTy v]))) = some (m.bodyTypes ++ [valTy v])
    unfold bodyTypesOf
    have := set_reads_back m.fields (sigField (m.bodyTypes ++ [valTy v]))
    rw [show FIELD_SIGNATURE = (sigField (m.bodyTypes ++ [valTy v])).code from rfl, this]
    show parseSignature (printList (m.bodyTypes ++ [valTy v])) = _
    unfold parseSignature
    exact Dbus.Proofs.parseSeq_complete _ _ ha.sig_types (Nat.le_refl _)
  · have := h.fds_ok
    show unixFdsOf (setFieldList m.fields (sigField (m.bodyTypes ++ [valTy v]))) ≤ fds
    unfold unixFdsOf at this ⊢
    rw [set_frame _ _ _ (by show (9 : Nat) ≠ 8; decide)]
    exact this


/-- the API's preconditions for one construction step on the message as it then is -/
def BuildOK (mx : Nat) (m : Msg) : BuildOp → Prop
  | .header op => EditOK mx m op
  | .append v => AppendOK mx m v

def BuildsOK (mx : Nat) : Msg → List BuildOp → Prop
  | _, [] => True
  | m, op :: ops => BuildOK mx m op ∧ BuildsOK mx (applyBuild m op) ops

theorem build_step_keeps_valid (mx fds : Nat) (m : Msg) (op : BuildOp) (h : WFMsg mx fds m) (hop : BuildOK mx m op) :
    WFMsg mx fds (applyBuild m op) := by
  cases op with
  | header e => exact edit_keeps_valid mx fds m e h hop
  | append v => exact pushTop_keeps_valid mx fds m v h hop

/-- **Whatever the construction API is used for, in whatever order - header fields set, replaced and cleared, values
    appended - the message stays a valid message** -/
theorem build_keeps_valid (mx fds : Nat) : ∀ (ops : List BuildOp) (m : Msg), WFMsg mx fds m → BuildsOK mx m ops →
    WFMsg mx fds (ops.foldl applyBuild m)
  | [], _, h, _ => h
  | op :: ops, m, h, hops => build_keeps_valid mx fds ops _ (build_step_keeps_valid mx fds m op h hops.1) hops.2

/-- **… and serialises to bytes that parse back to exactly the built message** (whose re-serialisation is then
    byte-identical by `remarshal_identical`) -/
theorem built_message_roundtrips (mx fds : Nat) (ops : List BuildOp) (m : Msg) (h : WFMsg mx fds m) (hops : BuildsOK mx m ops) :
    loadOne true mx fds (encodeMsg (ops.foldl applyBuild m)) =
      .ok (ops.foldl applyBuild m) (encodeMsg (ops.foldl applyBuild m)).length :=
  marshal_roundtrip mx fds _ (build_keeps_valid mx fds ops m h hops)

/-- the serial may be given at any time (the library gives it when the message is sent): it commutes with appending -/
theorem serial_commutes_with_append (m : Msg) (v : Val) (n : Nat) :
    applyEdit (pushTop m v) (.setSerial n) = pushTop (applyEdit m (.setSerial n)) v := rfl


/-! ### non-vacuity -/

open Dbus.Proofs.Wire Dbus.Props.C12 in
theorem exampleReturn_append_ok : AppendOK 4096 exampleReturn (.fixed .byte 7) := by
  refine { value := ?_, sig_types := ?_, sig_ok := ?_, body_fits := ?_, header_fits := ?_ }
  · simp [exampleReturn, valTy, WFVal, BTy.isFixed, BTy.fixedSize, BTy.size]
  · simp [exampleReturn, valTy, WFList, Ty.WF]
  · left
    refine ⟨by simp [exampleReturn, valTy, printList, Ty.print, BTy.code, MAX_SIGNATURE_LENGTH], [.basic .byte], by simp [exampleReturn, valTy], by simp [WFList, Ty.WF], ?_⟩
    intro t ht
    simp only [List.mem_cons, List.not_mem_nil, or_false] at ht
    subst ht
    simp [Ty.DepthOK, Ty.arrayDepth, Ty.structDepth, Ty.dictDepth, MAX_TYPE_DEPTH]
  · simp [exampleReturn, encodeList, encode, Dbus.Proofs.Wire.encNat_length, pad, padLen, BTy.align, BTy.size, BTy.fixedSize]
  · simp [exampleReturn, valTy, sigField, setFieldList, FIELD_SIGNATURE, fieldsLen, fieldVal, align8, encodeList, encode, Dbus.Proofs.Wire.encNat_length, Ty.print, BTy.code, pad, padLen,
      BTy.align, Ty.align, BTy.size, BTy.fixedSize, printList, MAX_ARRAY_LENGTH]

/-- non-vacuity of `build_keeps_valid`: a method return with a byte appended -/
example : WFMsg 4096 0 ([BuildOp.append (.fixed .byte 7)].foldl applyBuild exampleReturn) :=
  build_keeps_valid 4096 0 _ exampleReturn exampleReturn_wf ⟨exampleReturn_append_ok, trivial⟩


end Dbus.Props.C02
