import Dbus.Model.Encode
namespace Dbus.Props.C02
end Dbus.Props.C02
