import Dbus.Proofs.Endian
/-
  C02 — built messages serialise to valid wire format and round-trip exactly.

  A construction program (any sequence of API calls) denotes an abstract message `m`; the
  K-tie shows that the library's incremental writer produces `encodeMsg m` byte for byte. The
  theorems below are about `encodeMsg m` for *every* well-formed `m`.
-/
namespace Dbus.Props.C02
open Dbus Dbus.Spec Dbus.Model Dbus.Proofs.Message

/-- **Serialises to a valid message, parses back identically.** -/
theorem marshal_roundtrip (mx fds : Nat) (m : Msg) (h : WFMsg mx fds m) :
    loadOne true mx fds (encodeMsg m) = .ok m (encodeMsg m).length := by
  have := loadOne_encodeMsg h []
  simpa using this

/-- **Re-serialisation is byte-identical**: whatever parses re-encodes to the bytes it came from. -/
theorem remarshal_identical (mx fds : Nat) (bs : Bytes) (m : Msg) (n : Nat)
    (h : loadOne true mx fds bs = .ok m n) : encodeMsg m = bs.take n :=
  (loadOne_sound h).2.1.symm

/-- **The other byte order changes no value**: the image of a message in the other byte order
    is a valid message and parses to the same type, flags, serial, header fields and body
    values — only the byte-order mark differs. -/
theorem byteswap_values (mx fds : Nat) (m : Msg) (e' : Endian) (h : WFMsg mx fds m) :
    loadOne true mx fds (encodeMsg { m with endian := e' }) =
      .ok { m with endian := e' } (encodeMsg { m with endian := e' }).length :=
  marshal_roundtrip mx fds _ (wfMsg_endian e' h)

/-- converting there and back is the identity on the bytes -/
theorem byteswap_involutive (m : Msg) (e' : Endian) :
    encodeMsg { ({ m with endian := e' } : Msg) with endian := m.endian } = encodeMsg m := by
  cases m; rfl

/-- the size of a message does not depend on the byte order -/
theorem byteswap_same_length (m : Msg) (e' : Endian) :
    (encodeMsg { m with endian := e' }).length = (encodeMsg m).length := by
  rw [encodeMsg_length, encodeMsg_length]
  show align8 (16 + (encodeList e' 16 (m.fields.map fieldVal)).length) + (encodeList e' 0 m.body).length = _
  rw [encodeList_length_endian e' m.endian, encodeList_length_endian e' m.endian]
  rfl

/-- **A copy is the same message with serial zero** (so it is not yet a valid wire message:
    the serial is assigned when it is sent). -/
theorem copy_differs_only_in_serial (m : Msg) :
    ({ m with serial := 0 } : Msg).fields = m.fields ∧ ({ m with serial := 0 } : Msg).body = m.body ∧
    ({ m with serial := 0 } : Msg).mtype = m.mtype ∧ ({ m with serial := 0 } : Msg).flags = m.flags :=
  ⟨rfl, rfl, rfl, rfl⟩

end Dbus.Props.C02
