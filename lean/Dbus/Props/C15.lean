import Dbus.Proofs.Bus.FdsC
import Dbus.Proofs.Bus.FdsD
/-
  C15 — passed file descriptors arrive intact and are never leaked.

  Descriptors are tokens; `fdRun tbl n ops` is the bus after any history of clients connecting, writing
  bytes with descriptors attached (one sendmsg each, any framing, any number of descriptors, announced
  counts smaller, equal or larger than what is attached), closing, and timeouts.  `closed` is the log of
  every token the bus side has closed (or that the kernel discarded because the connection did not
  negotiate descriptor passing); recipients hold the kernel's copies and are outside this ledger.
-/
namespace Dbus.Props.C15
open Dbus Dbus.Spec Dbus.Model Dbus.Model.Bus Dbus.Proofs.Bus

def start (mx : Nat) (l : Limits) (p : Policy) : FdNet := { net := { bus := { limits := l, policy := p } }, maxMsgFds := mx }

theorem start_inv (mx : Nat) (l : Limits) (p : Policy) : FdInv [] (start mx l p) :=
  fdInv_init mx { bus := { limits := l, policy := p } } rfl

/-- **Nothing is leaked and nothing is closed twice**: after any history, the tokens handed to the bus are
    exactly — as a multiset — those it has closed plus those still pending in the loaders of connected
    clients; so if the tokens were distinct, no token has been closed twice. -/
theorem every_descriptor_closed_exactly_once_or_pending (tbl : List IfaceRow) (mx : Nat) (l : Limits) (p : Policy)
    (ops : List FdOp) :
    (received ops).Perm ((fdRun tbl (start mx l p) ops).closed ++ (fdRun tbl (start mx l p) ops).allPending) ∧
    ((received ops).Nodup → (fdRun tbl (start mx l p) ops).closed.Nodup) := by
  have h := (fdInv_run tbl ops (start_inv mx l p)).conserved
  simp only [List.nil_append] at h
  refine ⟨h, fun hn => ?_⟩
  have := (List.Perm.nodup_iff h).mp hn
  exact (List.nodup_append.mp this).1

/-- **Surplus descriptors are held only for a live connection, within its limit**: whatever is pending belongs
    to a connection that is still connected, and is at most max_message_unix_fds per connection. -/
theorem pending_only_for_live_connections_within_limit (tbl : List IfaceRow) (mx : Nat) (l : Limits) (p : Policy)
    (ops : List FdOp) :
    ∀ q ∈ (fdRun tbl (start mx l p) ops).pending,
      ((fdRun tbl (start mx l p) ops).net.bus.conn? q.1).isSome ∧ q.2.length ≤ mx := by
  have h := (fdInv_run tbl ops (start_inv mx l p)).held
  have hm : (fdRun tbl (start mx l p) ops).maxMsgFds = mx := by
    suffices hh : ∀ (ops : List FdOp) (n : FdNet), (fdRun tbl n ops).maxMsgFds = n.maxMsgFds from hh ops _
    intro ops
    induction ops with
    | nil => intro n; rfl
    | cons op ops ih =>
      intro n
      simp only [fdRun]
      rw [ih]
      cases op with
      | connect c uid gids canFd => simp only [fdStep]; split <;> rfl
      | close c => rfl
      | timeout => rfl
      | pendingTimeout => rfl
      | write c bytes fds =>
        simp only [fdStep]
        split
        · rfl
        · split
          · rfl
          · split <;> rfl
  intro q hq
  have := h q hq
  rw [hm] at this
  exact this

/-- **Back to the baseline**: once every connection is gone, nothing is pending, so every token the bus ever
    received has been closed. -/
theorem baseline_once_everyone_has_left (tbl : List IfaceRow) (mx : Nat) (l : Limits) (p : Policy) (ops : List FdOp)
    (hgone : (fdRun tbl (start mx l p) ops).net.bus.conns = []) :
    (received ops).Perm (fdRun tbl (start mx l p) ops).closed := by
  have h := every_descriptor_closed_exactly_once_or_pending tbl mx l p ops
  have hp := pending_only_for_live_connections_within_limit tbl mx l p ops
  have hnone : (fdRun tbl (start mx l p) ops).pending = [] := by
    cases hq : (fdRun tbl (start mx l p) ops).pending with
    | nil => rfl
    | cons q qs =>
      have := (hp q (by rw [hq]; exact List.mem_cons_self)).1
      simp [Bus.conn?, hgone] at this
  have : (fdRun tbl (start mx l p) ops).allPending = [] := by simp [FdNet.allPending, hnone]
  simpa [this] using h.1

/-- **A message gets exactly the descriptors it announces, in arrival order**: each message framed from a write
    takes from the front of what is pending (older surplus first, then what arrived with this write) exactly the
    number in its UNIX_FDS header field — the loader has already rejected a message announcing more than is
    there — and what is left stays pending in the same order. -/
theorem message_gets_announced_descriptors_in_order (tbl : List IfaceRow) (mx : Nat) (l : Limits) (p : Policy)
    (ops : List FdOp) (c : ConnId) (bytes : Bytes) (fds : List Fd) :
    let n := fdRun tbl (start mx l p) ops
    let new := (Loader.feed n.net.maxMsg { n.net.loader c with fds := (n.net.loader c).fds + fds.length } bytes).msgs.drop
                  (n.net.loader c).msgs.length
    (∀ q ∈ (assign (n.pendingOf c ++ fds) new).1, q.2.length = q.1.nFds) ∧
    (assign (n.pendingOf c ++ fds) new).1.flatMap (·.2) ++ (assign (n.pendingOf c ++ fds) new).2 = n.pendingOf c ++ fds := by
  intro n new
  have hs := (fdInv_run tbl ops (start_inv mx l p)).sync
  exact ⟨(fdWrite_sync tbl c bytes fds hs).2, assign_conserve _ _⟩

/-- **Only where negotiated**: a message carrying descriptors is never handed to a connection that did not
    negotiate descriptor passing — as the addressed recipient the sender gets an error instead … -/
theorem addressed_recipient_must_have_negotiated (t : Tx) (s : Option ConnId) (a : ConnId) (m : Msg)
    (hm : m.nFds > 0) (hc : canFdOf t.bus a = false) : ∃ e, (sendAddressed t s a m).2 = some e := by
  unfold sendAddressed
  rcases checkPolicy t.bus s (some a) (some a) m with ⟨p, err⟩
  cases err with
  | some e => exact ⟨e, rfl⟩
  | none => exact ⟨.notSupported, by simp [hm, hc]⟩

/-- … and as a match-rule recipient it is skipped (nothing is queued for it). -/
theorem matched_recipient_must_have_negotiated (t : Tx) (s a : Option ConnId) (to : ConnId) (m : Msg)
    (hm : m.nFds > 0) (hc : canFdOf t.bus to = false) :
    ∃ q e, sendOne t s a to m = captureError (t.setPending q) s m e := by
  unfold sendOne
  rcases checkPolicy t.bus s a (some to) m with ⟨p, err⟩
  cases err with
  | some e => exact ⟨p, e, rfl⟩
  | none => exact ⟨p, .notSupported, by simp [hm, hc]⟩

/-- **Too many at once cost the sender its connection, not a leak**: more descriptors in one sendmsg than the
    loader has room for are all closed and the connection is dropped. -/
theorem overflow_closes_everything (tbl : List IfaceRow) (n : FdNet) (c : ConnId) (x : Conn) (bytes : Bytes) (fds : List Fd)
    (hx : n.net.bus.conn? c = some x) (hcan : x.canFd = true) (hover : fds.length > n.maxMsgFds - (n.pendingOf c).length) :
    ∃ t, (fdStep tbl n (.write c bytes fds)) =
      (({ n with net := { n.net with bus := (step tbl n.net.bus (.invalid c)).bus }, closed := n.closed ++ fds } : FdNet).sweep, [(t, [])]) := by
  simp only [fdStep, hx, hcan, Bool.true_and, decide_eq_true_eq, hover, if_true]
  exact ⟨_, rfl⟩

/-- **Surplus is held only until the pending-descriptor timeout**: when it has passed, every connection that held
    descriptors without a message has been dropped, and nothing is pending (so, by conservation, all of it is closed). -/
theorem pending_timeout_leaves_nothing_pending (tbl : List IfaceRow) (n : FdNet) :
    (fdStep tbl n .pendingTimeout).1.allPending = [] :=
  pendingTimeout_clears tbl n

end Dbus.Props.C15
