import Dbus.Model.Bus.Match
import Dbus.Props.C16
/-
  C07 — broadcasts reach exactly the connections whose match rules match.
  Part 1: the rule grammar and the per-key matching semantics (pure functions).
-/
namespace Dbus.Props.C07
open Dbus Dbus.Spec Dbus.Model Dbus.Model.Bus

/-! ### quoting -/

theorem findValueAux_quoted : ∀ (v rest acc : Bytes), (∀ c ∈ v, c ≠ 0x27) →
    findValueAux (v ++ 0x27 :: rest) 1 acc = findValueAux rest 0 (acc ++ v)
  | [], rest, acc, _ => by simp [findValueAux]
  | c :: v, rest, acc, h => by
    have hc : c ≠ 0x27 := h c (by simp)
    have ih := findValueAux_quoted v rest (acc ++ [c]) (fun x hx => h x (by simp [hx]))
    simp only [List.cons_append, findValueAux, hc, if_false]
    rw [ih]; simp

/-- **Quoting**: a value without apostrophes written between apostrophes is read back
    verbatim — commas, backslashes and spaces included — and the text after the following
    comma is what remains. -/
theorem quoted_value_roundtrip (v rest : Bytes) (h : ∀ c ∈ v, c ≠ 0x27) :
    findValue (0x27 :: (v ++ 0x27 :: 0x2c :: rest)) = some (v, rest) := by
  unfold findValue
  simp only [findValueAux]
  rw [findValueAux_quoted v (0x2c :: rest) [] h]
  simp [findValueAux]

/-- an apostrophe left open is an error (MatchRuleInvalid) -/
theorem unbalanced_quote_rejected (v : Bytes) (h : ∀ c ∈ v, c ≠ 0x27) :
    findValue (0x27 :: v) = none := by
  unfold findValue
  simp only [findValueAux]
  suffices ∀ acc, findValueAux v 1 acc = none from this []
  induction v with
  | nil => intro acc; simp [findValueAux]
  | cons c v ih =>
    intro acc
    have hc : c ≠ 0x27 := h c (by simp)
    simp only [findValueAux, hc, if_false]
    exact ih (fun x hx => h x (by simp [hx])) _

/-! ### per-key validation: whatever AddMatch accepts has valid components (C16 predicates) -/

theorem applyToken_interface (r r' : MatchRule) (v : Bytes)
    (h : applyToken r (([0x69, 0x6e, 0x74, 0x65, 0x72, 0x66, 0x61, 0x63, 0x65] : Bytes)) v = some r') :
    SpecInterface v ∧ r.iface = none ∧ r'.iface = some v := by
  unfold applyToken at h
  rw [if_neg (by decide), if_neg (by decide), if_pos rfl] at h
  split at h
  · cases h
  · rename_i hn
    split at h
    · rename_i hv
      simp only [Option.some.injEq] at h
      subst h
      refine ⟨(Props.C16.validateInterface_iff v).1 hv, ?_, rfl⟩
      cases hi : r.iface with
      | none => rfl
      | some _ => rw [hi] at hn; simp at hn
    · cases h

theorem applyToken_member (r r' : MatchRule) (v : Bytes)
    (h : applyToken r (([0x6d, 0x65, 0x6d, 0x62, 0x65, 0x72] : Bytes)) v = some r') :
    SpecMember v ∧ r.member = none ∧ r'.member = some v := by
  unfold applyToken at h
  rw [if_neg (by decide), if_neg (by decide), if_neg (by decide), if_pos rfl] at h
  split at h
  · cases h
  · rename_i hn
    split at h
    · rename_i hv
      simp only [Option.some.injEq] at h
      subst h
      refine ⟨(Props.C16.validateMember_iff v).1 hv, ?_, rfl⟩
      cases hi : r.member with
      | none => rfl
      | some _ => rw [hi] at hn; simp at hn
    · cases h

/-- a key that is already set makes the rule invalid ("specified twice") -/
theorem duplicate_interface_rejected (r : MatchRule) (v : Bytes) (h : r.iface.isSome = true) :
    applyToken r (([0x69, 0x6e, 0x74, 0x65, 0x72, 0x66, 0x61, 0x63, 0x65] : Bytes)) v = none := by
  unfold applyToken
  rw [if_neg (by decide), if_neg (by decide), if_pos rfl, if_pos h]

theorem unknown_key_rejected (r : MatchRule) (v : Bytes) :
    applyToken r ([0x66, 0x6f, 0x6f] : Bytes) v = none := by
  unfold applyToken
  simp (config := { decide := true })

/-- rules longer than 1024 bytes are refused as a limit, not parsed -/
theorem too_long_rejected (t : Bytes) (h : t.length > 1024) :
    (match parseRule t with | .tooLong => true | _ => false) = true := by
  unfold parseRule
  rw [if_pos h]

/-! ### matching semantics per key -/

/-- **path_namespace**: matches the path itself and everything below it on a '/' boundary;
    '/' matches every path. -/
theorem path_namespace_semantics (r : MatchRule) (c : MatchCtx) (p mp : Bytes)
    (hr : r.path = some p) (hns : r.pathNs = true) (hc : c.path = some mp) :
    pathOK r c = true ↔
      (p.isPrefixOf mp = true ∧ (p.length ≤ 1 ∨ mp.length = p.length ∨ mp[p.length]? = some 0x2f)) := by
  unfold pathOK
  rw [hr, hc]
  simp only [hns, Bool.not_true, Bool.false_eq_true, if_false]
  by_cases hp : p.isPrefixOf mp = true
  · simp only [hp, Bool.not_true, Bool.false_eq_true, if_false, true_and]
    have hle : p.length ≤ mp.length := (List.isPrefixOf_iff_prefix.1 hp).length_le
    cases hm : mp[p.length]? with
    | none =>
      have : mp.length = p.length := by
        have := List.getElem?_eq_none_iff.1 hm
        omega
      simp [this]
    | some ch =>
      obtain ⟨hlt, _⟩ := List.getElem?_eq_some_iff.1 hm
      by_cases hch : ch = 0x2f
      · subst hch; simp
      · by_cases hp1 : p.length > 1
        · have hne : (ch != 0x2f) = true := by simpa using hch
          simp only [hp1, decide_true, hne, Bool.and_self, Bool.not_true, Bool.false_eq_true, false_iff]
          rintro (h | h | h)
          · omega
          · omega
          · simp only [Option.some.injEq] at h; exact hch h
        · simp only [hp1, decide_false, Bool.false_and, Bool.not_false, true_iff]
          exact Or.inl (by omega)
  · simp [hp]

/-- **argN** (plain): exact equality with a string argument; never matches a non-string or a
    missing argument -/
theorem arg_plain_semantics (expected : Bytes) (actual : Option (Bool × Bytes)) :
    argMatches .plain expected actual = true ↔ actual = some (false, expected) := by
  unfold argMatches
  cases actual with
  | none => simp
  | some a =>
    obtain ⟨isPath, act⟩ := a
    cases isPath
    · simp
    · simp

/-- **arg0namespace**: the argument equals the namespace or continues it after a '.' -/
theorem arg_namespace_semantics (expected act : Bytes) :
    argMatches .ns expected (some (false, act)) = true ↔
      (expected = act.take expected.length ∧ expected.length ≤ act.length ∧
        (act.length = expected.length ∨ act[expected.length]? = some 0x2e)) := by
  unfold argMatches
  simp only [Bool.false_eq_true, false_and, if_false]
  split
  · rename_i h1
    constructor
    · intro h; cases h
    · intro ⟨_, h, _⟩; omega
  · rename_i h1
    split
    · rename_i h2
      constructor
      · intro h; cases h
      · intro ⟨h, _⟩; exact absurd h h2
    · rename_i h2
      have h2' : expected = act.take expected.length := Classical.not_not.1 h2
      split
      · rename_i h3
        constructor
        · intro h; exact ⟨h2', by omega, Or.inr (by simpa using h)⟩
        · rintro ⟨_, _, h | h⟩
          · omega
          · simpa using h
      · rename_i h3
        constructor
        · intro _; exact ⟨h2', by omega, Or.inl (by omega)⟩
        · intro _; rfl

/-- **argNpath**: equal, or one is a '/'-terminated prefix of the other; an empty value or
    argument only matches an empty one (in particular the matcher looks at no character that
    does not exist — the repaired F5) -/
theorem arg_path_semantics (expected act : Bytes) (isPath : Bool) :
    argMatches .path expected (some (isPath, act)) = true ↔
      (act = expected ∨
       (act.length < expected.length ∧ act.getLast? = some 0x2f ∧ act = expected.take act.length) ∨
       (expected.length < act.length ∧ expected.getLast? = some 0x2f ∧ expected = act.take expected.length)) := by
  unfold argMatches
  simp only [ne_eq, not_true_eq_false, and_false, if_false]
  split
  · rename_i h1
    split
    · rename_i hl
      constructor
      · intro h; cases h
      · rintro (h | ⟨_, h, _⟩ | ⟨h, _⟩)
        · subst h; omega
        · exact absurd h hl
        · omega
    · rename_i hl
      have hl' : act.getLast? = some 0x2f := Classical.not_not.1 hl
      constructor
      · intro h; exact Or.inr (Or.inl ⟨h1, hl', by simpa using h⟩)
      · rintro (h | ⟨_, _, h⟩ | ⟨h, _⟩)
        · subst h; omega
        · simpa using h
        · omega
  · rename_i h1
    split
    · rename_i h2
      split
      · rename_i hl
        constructor
        · intro h; cases h
        · rintro (h | ⟨h, _⟩ | ⟨_, h, _⟩)
          · subst h; omega
          · omega
          · exact absurd h hl
      · rename_i hl
        have hl' : expected.getLast? = some 0x2f := Classical.not_not.1 hl
        constructor
        · intro h; exact Or.inr (Or.inr ⟨h2, hl', by simpa using h⟩)
        · rintro (h | ⟨h, _⟩ | ⟨_, _, h⟩)
          · subst h; omega
          · omega
          · simpa using h
    · rename_i h2
      constructor
      · intro h; exact Or.inl (by simpa using h)
      · rintro (h | ⟨h, _⟩ | ⟨h, _⟩)
        · simpa using h
        · omega
        · omega

/-- a rule without `eavesdrop='true'` never matches a message that names a destination, and a
    rule naming a destination matches only when it is the (owned) destination and
    eavesdropping was asked for -/
theorem unicast_needs_eavesdrop (r : MatchRule) (c : MatchCtx) (d : Bytes)
    (hd : c.dest = some d) (he : r.eavesdrop = false) : destOK r c = false := by
  unfold destOK
  cases hr : r.dest with
  | none => simp [he, hd]
  | some x => simp [hd, he]

end Dbus.Props.C07
