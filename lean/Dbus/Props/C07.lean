import Dbus.Model.Bus.Match
import Dbus.Model.Bus.Core
import Dbus.Proofs.MatchGrammar
import Dbus.Props.C16
/-
  C07 — broadcasts reach exactly the connections whose match rules match.
  Part 1: the rule grammar and the per-key matching semantics (pure functions).
-/
namespace Dbus.Props.C07
open Dbus Dbus.Spec Dbus.Model Dbus.Model.Bus

/-! ### quoting -/

theorem findValueAux_quoted : ∀ (v rest acc : Bytes), (∀ c ∈ v, c ≠ 0x27) →
    findValueAux (v ++ 0x27 :: rest) 1 acc = findValueAux rest 0 (acc ++ v)
  | [], rest, acc, _ => by simp [findValueAux]
  | c :: v, rest, acc, h => by
    have hc : c ≠ 0x27 := h c (by simp)
    have ih := findValueAux_quoted v rest (acc ++ [c]) (fun x hx => h x (by simp [hx]))
    simp only [List.cons_append, findValueAux, hc, if_false]
    rw [ih]; simp

/-- **Quoting**: a value without apostrophes written between apostrophes is read back
    verbatim — commas, backslashes and spaces included — and the text after the following
    comma is what remains. -/
theorem quoted_value_roundtrip (v rest : Bytes) (h : ∀ c ∈ v, c ≠ 0x27) :
    findValue (0x27 :: (v ++ 0x27 :: 0x2c :: rest)) = some (v, rest) := by
  unfold findValue
  simp only [findValueAux]
  rw [findValueAux_quoted v (0x2c :: rest) [] h]
  simp [findValueAux]

/-- an apostrophe left open is an error (MatchRuleInvalid) -/
theorem unbalanced_quote_rejected (v : Bytes) (h : ∀ c ∈ v, c ≠ 0x27) :
    findValue (0x27 :: v) = none := by
  unfold findValue
  simp only [findValueAux]
  suffices ∀ acc, findValueAux v 1 acc = none from this []
  induction v with
  | nil => intro acc; simp [findValueAux]
  | cons c v ih =>
    intro acc
    have hc : c ≠ 0x27 := h c (by simp)
    simp only [findValueAux, hc, if_false]
    exact ih (fun x hx => h x (by simp [hx])) _

/-! ### per-key validation: whatever AddMatch accepts has valid components (C16 predicates) -/

theorem applyToken_interface (r r' : MatchRule) (v : Bytes)
    (h : applyToken r (([0x69, 0x6e, 0x74, 0x65, 0x72, 0x66, 0x61, 0x63, 0x65] : Bytes)) v = some r') :
    SpecInterface v ∧ r.iface = none ∧ r'.iface = some v := by
  unfold applyToken at h
  rw [if_neg (by decide), if_neg (by decide), if_pos rfl] at h
  split at h
  · cases h
  · rename_i hn
    split at h
    · rename_i hv
      simp only [Option.some.injEq] at h
      subst h
      refine ⟨(Props.C16.validateInterface_iff v).1 hv, ?_, rfl⟩
      cases hi : r.iface with
      | none => rfl
      | some _ => rw [hi] at hn; simp at hn
    · cases h

theorem applyToken_member (r r' : MatchRule) (v : Bytes)
    (h : applyToken r (([0x6d, 0x65, 0x6d, 0x62, 0x65, 0x72] : Bytes)) v = some r') :
    SpecMember v ∧ r.member = none ∧ r'.member = some v := by
  unfold applyToken at h
  rw [if_neg (by decide), if_neg (by decide), if_neg (by decide), if_pos rfl] at h
  split at h
  · cases h
  · rename_i hn
    split at h
    · rename_i hv
      simp only [Option.some.injEq] at h
      subst h
      refine ⟨(Props.C16.validateMember_iff v).1 hv, ?_, rfl⟩
      cases hi : r.member with
      | none => rfl
      | some _ => rw [hi] at hn; simp at hn
    · cases h

/-- a key that is already set makes the rule invalid ("specified twice") -/
theorem duplicate_interface_rejected (r : MatchRule) (v : Bytes) (h : r.iface.isSome = true) :
    applyToken r (([0x69, 0x6e, 0x74, 0x65, 0x72, 0x66, 0x61, 0x63, 0x65] : Bytes)) v = none := by
  unfold applyToken
  rw [if_neg (by decide), if_neg (by decide), if_pos rfl, if_pos h]

theorem unknown_key_rejected (r : MatchRule) (v : Bytes) :
    applyToken r ([0x66, 0x6f, 0x6f] : Bytes) v = none := by
  unfold applyToken
  simp (config := { decide := true })

/-- rules longer than 1024 bytes are refused as a limit, not parsed -/
theorem too_long_rejected (t : Bytes) (h : t.length > 1024) :
    (match parseRule t with | .tooLong => true | _ => false) = true := by
  unfold parseRule
  rw [if_pos h]

/-! ### matching semantics per key -/

/-- **path_namespace**: matches the path itself and everything below it on a '/' boundary;
    '/' matches every path. -/
theorem path_namespace_semantics (r : MatchRule) (c : MatchCtx) (p mp : Bytes)
    (hr : r.path = some p) (hns : r.pathNs = true) (hc : c.path = some mp) :
    pathOK r c = true ↔
      (p.isPrefixOf mp = true ∧ (p.length ≤ 1 ∨ mp.length = p.length ∨ mp[p.length]? = some 0x2f)) := by
  unfold pathOK
  rw [hr, hc]
  simp only [hns, Bool.not_true, Bool.false_eq_true, if_false]
  by_cases hp : p.isPrefixOf mp = true
  · simp only [hp, Bool.not_true, Bool.false_eq_true, if_false, true_and]
    have hle : p.length ≤ mp.length := (List.isPrefixOf_iff_prefix.1 hp).length_le
    cases hm : mp[p.length]? with
    | none =>
      have : mp.length = p.length := by
        have := List.getElem?_eq_none_iff.1 hm
        omega
      simp [this]
    | some ch =>
      obtain ⟨hlt, _⟩ := List.getElem?_eq_some_iff.1 hm
      by_cases hch : ch = 0x2f
      · subst hch; simp
      · by_cases hp1 : p.length > 1
        · have hne : (ch != 0x2f) = true := by simpa using hch
          simp only [hp1, decide_true, hne, Bool.and_self, Bool.not_true, Bool.false_eq_true, false_iff]
          rintro (h | h | h)
          · omega
          · omega
          · simp only [Option.some.injEq] at h; exact hch h
        · simp only [hp1, decide_false, Bool.false_and, Bool.not_false, true_iff]
          exact Or.inl (by omega)
  · simp [hp]

/-- **argN** (plain): exact equality with a string argument; never matches a non-string or a
    missing argument -/
theorem arg_plain_semantics (expected : Bytes) (actual : Option (Bool × Bytes)) :
    argMatches .plain expected actual = true ↔ actual = some (false, expected) := by
  unfold argMatches
  cases actual with
  | none => simp
  | some a =>
    obtain ⟨isPath, act⟩ := a
    cases isPath
    · simp
    · simp

/-- **arg0namespace**: the argument equals the namespace or continues it after a '.' -/
theorem arg_namespace_semantics (expected act : Bytes) :
    argMatches .ns expected (some (false, act)) = true ↔
      (expected = act.take expected.length ∧ expected.length ≤ act.length ∧
        (act.length = expected.length ∨ act[expected.length]? = some 0x2e)) := by
  unfold argMatches
  simp only [Bool.false_eq_true, false_and, if_false]
  split
  · rename_i h1
    constructor
    · intro h; cases h
    · intro ⟨_, h, _⟩; omega
  · rename_i h1
    split
    · rename_i h2
      constructor
      · intro h; cases h
      · intro ⟨h, _⟩; exact absurd h h2
    · rename_i h2
      have h2' : expected = act.take expected.length := Classical.not_not.1 h2
      split
      · rename_i h3
        constructor
        · intro h; exact ⟨h2', by omega, Or.inr (by simpa using h)⟩
        · rintro ⟨_, _, h | h⟩
          · omega
          · simpa using h
      · rename_i h3
        constructor
        · intro _; exact ⟨h2', by omega, Or.inl (by omega)⟩
        · intro _; rfl

/-- **argNpath**: equal, or one is a '/'-terminated prefix of the other; an empty value or
    argument only matches an empty one (in particular the matcher looks at no character that
    does not exist — the repaired F5) -/
theorem arg_path_semantics (expected act : Bytes) (isPath : Bool) :
    argMatches .path expected (some (isPath, act)) = true ↔
      (act = expected ∨
       (act.length < expected.length ∧ act.getLast? = some 0x2f ∧ act = expected.take act.length) ∨
       (expected.length < act.length ∧ expected.getLast? = some 0x2f ∧ expected = act.take expected.length)) := by
  unfold argMatches
  simp only [ne_eq, not_true_eq_false, and_false, if_false]
  split
  · rename_i h1
    split
    · rename_i hl
      constructor
      · intro h; cases h
      · rintro (h | ⟨_, h, _⟩ | ⟨h, _⟩)
        · subst h; omega
        · exact absurd h hl
        · omega
    · rename_i hl
      have hl' : act.getLast? = some 0x2f := Classical.not_not.1 hl
      constructor
      · intro h; exact Or.inr (Or.inl ⟨h1, hl', by simpa using h⟩)
      · rintro (h | ⟨_, _, h⟩ | ⟨h, _⟩)
        · subst h; omega
        · simpa using h
        · omega
  · rename_i h1
    split
    · rename_i h2
      split
      · rename_i hl
        constructor
        · intro h; cases h
        · rintro (h | ⟨h, _⟩ | ⟨_, h, _⟩)
          · subst h; omega
          · omega
          · exact absurd h hl
      · rename_i hl
        have hl' : expected.getLast? = some 0x2f := Classical.not_not.1 hl
        constructor
        · intro h; exact Or.inr (Or.inr ⟨h2, hl', by simpa using h⟩)
        · rintro (h | ⟨h, _⟩ | ⟨_, _, h⟩)
          · subst h; omega
          · omega
          · simpa using h
    · rename_i h2
      constructor
      · intro h; exact Or.inl (by simpa using h)
      · rintro (h | ⟨h, _⟩ | ⟨h, _⟩)
        · simpa using h
        · omega
        · omega

/-- a rule without `eavesdrop='true'` never matches a message that names a destination, and a
    rule naming a destination matches only when it is the (owned) destination and
    eavesdropping was asked for -/
theorem unicast_needs_eavesdrop (r : MatchRule) (c : MatchCtx) (d : Bytes)
    (hd : c.dest = some d) (he : r.eavesdrop = false) : destOK r c = false := by
  unfold destOK
  cases hr : r.dest with
  | none => simp [he, hd]
  | some x => simp [hd, he]

/-! ### AddMatch accepts exactly the rule strings of the specified grammar and quoting

  `Spec/MatchGrammar.lean` *generates* rule texts together with their meaning (items, pieces of a
  value, apostrophes, backslashes); the tokenizer *scans*. The two agree on every text. -/

open Dbus.Spec.MatchGrammar in
/-- **The tokenizer accepts exactly the grammar, with the tokenizer's bound in it**: `tokenize_rule`
    succeeds on a text and yields the pairs `kvs` iff the text is a rule text with these pairs in
    which at most 16 items are read (whatever follows the comma after a sixteenth item is not
    looked at — `RuleTextN.cut`). Every text, every quoting form. -/
theorem tokenize_iff_bounded_grammar (s : Bytes) (kvs : List (Bytes × Bytes)) :
    tokenize s = some kvs ↔ RuleTextN 16 s kvs := by
  unfold tokenize
  constructor
  · intro h
    obtain ⟨k, hk, hr⟩ := Proofs.MatchGrammar.ruleTextN_of_tokenizeAux 16 _ _ _ h
    simp only [List.nil_append] at hk
    subst hk
    exact hr
  · intro h
    simpa [MAX_RULE_TOKENS] using Proofs.MatchGrammar.tokenizeAux_of_ruleTextN h []

open Dbus.Spec.MatchGrammar in
/-- every text of the grammar with at most sixteen items is accepted and read as it means -/
theorem tokenize_complete (s : Bytes) (kvs : List (Bytes × Bytes)) (h : RuleText s kvs)
    (hn : kvs.length ≤ 16) : tokenize s = some kvs :=
  (tokenize_iff_bounded_grammar s kvs).2 (Proofs.MatchGrammar.ruleTextN_of_ruleText h 16 hn)

open Dbus.Spec.MatchGrammar in
/-- whatever the tokenizer accepts with fewer than sixteen items is a text of the grammar, and
    the pairs are its meaning; with sixteen, the text up to the sixteenth item is -/
theorem tokenize_sound (s : Bytes) (kvs : List (Bytes × Bytes)) (h : tokenize s = some kvs) :
    kvs.length ≤ 16 ∧ (kvs.length < 16 → RuleText s kvs) :=
  ⟨Proofs.MatchGrammar.ruleTextN_length ((tokenize_iff_bounded_grammar s kvs).1 h),
   Proofs.MatchGrammar.ruleText_of_ruleTextN ((tokenize_iff_bounded_grammar s kvs).1 h)⟩

open Dbus.Spec.MatchGrammar in
/-- **AddMatch's verdict**: a text of at most 1024 bytes is accepted iff it is a rule text (≤ 16
    items read) every one of whose items is acceptable to the per-key checks, taken in order
    (known key, valid value for the key, no key twice, argument index ≤ 63) -/
theorem parse_accepts_iff (s : Bytes) (hl : s.length ≤ 1024) :
    (∃ r, parseRule s = .ok r) ↔
      ∃ kvs r, RuleTextN 16 s kvs ∧
        kvs.foldlM (fun r (kv : Bytes × Bytes) => applyToken r kv.1 kv.2) ({} : MatchRule) = some r := by
  unfold parseRule
  rw [if_neg (by omega)]
  constructor
  · rintro ⟨r, h⟩
    cases ht : tokenize s with
    | none => rw [ht] at h; cases h
    | some kvs =>
      rw [ht] at h
      simp only at h
      cases hf : kvs.foldlM (fun r (kv : Bytes × Bytes) => applyToken r kv.1 kv.2) ({} : MatchRule) with
      | none => rw [hf] at h; cases h
      | some r' => exact ⟨kvs, r', (tokenize_iff_bounded_grammar s kvs).1 ht, hf⟩
  · rintro ⟨kvs, r, hg, hf⟩
    rw [(tokenize_iff_bounded_grammar s kvs).2 hg]
    simp only
    rw [hf]
    exact ⟨r, rfl⟩

open Dbus.Spec.MatchGrammar in
/-- non-vacuity: `k='a,b', m=\'` is a rule text; the first value reads `a,b`, the second `'` -/
example : RuleText ([0x6b, 0x3d, 0x27, 0x61, 0x2c, 0x62, 0x27, 0x2c, 0x20, 0x6d, 0x3d, 0x5c, 0x27] : Bytes)
    [([0x6b], [0x61, 0x2c, 0x62]), ([0x6d], [0x27])] := by
  have h1 : Item.WF ⟨[], [0x6b], [], [.quoted [0x61, 0x2c, 0x62]]⟩ := by
    refine ⟨by simp, by simp, ?_, by simp, ?_⟩
    · intro c hc
      simp only [List.mem_cons, List.not_mem_nil, or_false] at hc
      subst hc; exact ⟨by decide, by unfold White; decide⟩
    · intro g hg
      simp only [List.mem_cons, List.not_mem_nil, or_false] at hg
      subst hg
      intro c hc
      simp only [List.mem_cons, List.not_mem_nil, or_false] at hc
      rcases hc with rfl | rfl | rfl <;> decide
  have h2 : Item.WF ⟨[0x20], [0x6d], [], [.escApos]⟩ := by
    refine ⟨?_, by simp, ?_, by simp, ?_⟩
    · intro c hc
      simp only [List.mem_cons, List.not_mem_nil, or_false] at hc
      subst hc; exact Or.inl rfl
    · intro c hc
      simp only [List.mem_cons, List.not_mem_nil, or_false] at hc
      subst hc; exact ⟨by decide, by unfold White; decide⟩
    · intro g hg
      simp only [List.mem_cons, List.not_mem_nil, or_false] at hg
      subst hg; trivial
  exact RuleText.more _ h1 _ _ (RuleText.last _ false h2)

/-- …and the tokenizer reads it so -/
example : tokenize ([0x6b, 0x3d, 0x27, 0x61, 0x2c, 0x62, 0x27, 0x2c, 0x20, 0x6d, 0x3d, 0x5c, 0x27] : Bytes)
    = some [([0x6b], [0x61, 0x2c, 0x62]), ([0x6d], [0x27])] := by decide +kernel

/-- the bound is real (and the reason the quantifier says "up to the per-rule key limits"): of
    seventeen items the seventeenth is not read — here (`a=,b=,…,p=,=junk'`) it is not even a
    well-formed item -/
example : (tokenize ([0x61, 0x3d, 0x2c, 0x62, 0x3d, 0x2c, 0x63, 0x3d, 0x2c, 0x64, 0x3d, 0x2c, 0x65, 0x3d, 0x2c, 0x66, 0x3d, 0x2c, 0x67, 0x3d, 0x2c, 0x68, 0x3d, 0x2c, 0x69, 0x3d, 0x2c, 0x6a, 0x3d, 0x2c, 0x6b, 0x3d, 0x2c, 0x6c, 0x3d, 0x2c, 0x6d, 0x3d, 0x2c, 0x6e, 0x3d, 0x2c, 0x6f, 0x3d, 0x2c, 0x70, 0x3d, 0x2c, 0x3d, 0x6a, 0x75, 0x6e, 0x6b, 0x27] : Bytes)).map List.length = some 16 := by
  decide +kernel

/-! ### RemoveMatch removes one rule equal to its argument, or fails -/

theorem findIdx_split {α} (p : α → Bool) : ∀ (l : List α),
    (∀ i, l.findIdx? p = some i → ∃ a x b, l = a ++ x :: b ∧ p x = true ∧ (∀ y ∈ a, p y = false) ∧
        l.eraseIdx i = a ++ b) ∧
    (l.findIdx? p = none → ∀ y ∈ l, p y = false)
  | [] => by simp
  | x :: l => by
    obtain ⟨ih1, ih2⟩ := findIdx_split p l
    rw [List.findIdx?_cons]
    by_cases hx : p x = true
    · simp only [hx, if_true]
      refine ⟨?_, by simp⟩
      intro i hi
      simp only [Option.some.injEq] at hi
      subst hi
      exact ⟨[], x, l, rfl, hx, by simp, rfl⟩
    · have hx' : p x = false := by simpa using hx
      simp only [hx', Bool.false_eq_true, if_false]
      refine ⟨?_, ?_⟩
      · intro i hi
        cases hf : l.findIdx? p with
        | none => rw [hf] at hi; simp at hi
        | some j =>
          rw [hf] at hi
          simp only [Option.map_some, Option.some.injEq] at hi
          subst hi
          obtain ⟨a, y, b, hl, hy, ha, he⟩ := ih1 j hf
          refine ⟨x :: a, y, b, by simp [hl], hy, ?_, by simp [he]⟩
          intro z hz
          rcases List.mem_cons.1 hz with rfl | hz
          · exact hx'
          · exact ha z hz
      · intro hn
        have hn' : l.findIdx? p = none := by
          cases hf : l.findIdx? p with
          | none => rfl
          | some j => rw [hf] at hn; simp at hn
        intro y hy
        rcases List.mem_cons.1 hy with rfl | hy
        · exact hx'
        · exact ih2 hn' y hy

/-- **RemoveMatch succeeds**: exactly one rule goes — one that equals the argument, the most
    recently added such — and every other rule stays, in order -/
theorem remove_removes_one (rs rs' : List MatchRule) (r : MatchRule) (h : removeRule rs r = some rs') :
    ∃ pre x post, rs = pre ++ x :: post ∧ ruleEqual x r = true ∧
      (∀ y ∈ post, ruleEqual y r = false) ∧ rs' = pre ++ post := by
  unfold removeRule at h
  cases hf : rs.reverse.findIdx? (fun x => ruleEqual x r) with
  | none => rw [hf] at h; cases h
  | some i =>
    rw [hf] at h
    simp only [Option.some.injEq] at h
    obtain ⟨a, x, b, hl, hx, ha, he⟩ := (findIdx_split _ rs.reverse).1 i hf
    refine ⟨b.reverse, x, a.reverse, ?_, hx, ?_, ?_⟩
    · have := congrArg List.reverse hl
      simpa using this
    · intro y hy; exact ha y (by simpa using hy)
    · rw [← h, he]; simp

/-- **RemoveMatch fails** (MatchRuleNotFound, nothing changes) exactly when the connection holds
    no rule equal to the argument -/
theorem remove_fails_iff (rs : List MatchRule) (r : MatchRule) :
    removeRule rs r = none ↔ ∀ y ∈ rs, ruleEqual y r = false := by
  unfold removeRule
  cases hf : rs.reverse.findIdx? (fun x => ruleEqual x r) with
  | none =>
    simp only [true_iff]
    intro y hy
    exact (findIdx_split _ rs.reverse).2 hf y (by simpa using hy)
  | some i =>
    simp only [false_iff, reduceCtorEq]
    obtain ⟨a, x, b, hl, hx, _, _⟩ := (findIdx_split _ rs.reverse).1 i hf
    intro hall
    have hm : x ∈ rs := by
      have : x ∈ rs.reverse := by rw [hl]; simp
      simpa using this
    rw [hall x hm] at hx
    cases hx

/-- a rule just added is found by RemoveMatch of an equal rule (`ruleEqual` is reflexive on it) -/
theorem remove_after_add (rs : List MatchRule) (r : MatchRule) (hr : ruleEqual r r = true) :
    removeRule (rs ++ [r]) r = some rs := by
  cases h : removeRule (rs ++ [r]) r with
  | none =>
    have := (remove_fails_iff _ _).1 h r (by simp)
    rw [hr] at this; cases this
  | some rs' =>
    obtain ⟨pre, x, post, hs, hx, hpost, hrs⟩ := remove_removes_one _ _ _ h
    rcases List.eq_nil_or_concat post with rfl | ⟨init, z, rfl⟩
    · have hs' : rs ++ [r] = pre ++ [x] := by simpa using hs
      have := List.append_inj' hs' rfl
      rw [hrs, this.1]; simp
    · have hs' : rs ++ [r] = (pre ++ x :: init) ++ [z] := by simpa using hs
      have hz := (List.append_inj' hs' rfl).2
      simp only [List.cons.injEq, and_true] at hz
      have := hpost z (by simp)
      rw [← hz, hr] at this; cases this

end Dbus.Props.C07
