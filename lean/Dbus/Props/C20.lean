import Dbus.Proofs.ObjectTree
import Dbus.Proofs.ObjectTreeLive
/-
  C20 — object-path handlers are chosen by exact path, then nearest fallback.
  Property theorems only; helper lemmas live in Dbus/Proofs/ObjectTree.lean.
-/
namespace Dbus.Props.C20
open Dbus Dbus.Spec.Tree Dbus.Model.Tree Dbus.Proofs.Tree

inductive Op
  | reg (p : Path) (r : Reg)
  | unreg (p : Path)

/-- one registration-API call on the trie; the Bool is "succeeded" -/
def stepTree (n : Node) : Op → Node × Bool
  | .reg p r => match registerN n p r with
    | some n' => (n', true)
    | none => (n, false)
  | .unreg p => match unregisterN n p with
    | some n' => (n', true)
    | none => (n, false)

/-- the same call on the registration map of the specification -/
def stepMap (f : RegMap) : Op → RegMap × Bool
  | .reg p r => match f.register p r with
    | some f' => (f', true)
    | none => (f, false)
  | .unreg p => (f.unregister p, (f p).isSome)

def runTree (ops : List Op) : Node := ops.foldl (fun n op => (stepTree n op).1) Node.empty
def runMap (ops : List Op) : RegMap := ops.foldl (fun f op => (stepMap f op).1) RegMap.empty

/-- One step of the trie refines one step of the registration map: well-formedness is kept,
    the abstraction commutes, the reported result is the same. In particular registering an
    occupied path fails and changes nothing, and unregistering removes exactly that path. -/
theorem step_refines (n : Node) (f : RegMap) (op : Op) (hwf : WF n) (habs : ∀ q, lookup n q = f q) :
    WF (stepTree n op).1 ∧ (∀ q, lookup (stepTree n op).1 q = (stepMap f op).1 q) ∧
      (stepTree n op).2 = (stepMap f op).2 := by
  cases op with
  | reg p r =>
    simp only [stepTree, stepMap, RegMap.register]
    cases hr : registerN n p r with
    | none =>
      have := (registerN_none n p r hwf).1 hr
      rw [habs p] at this
      cases hfp : f p with
      | none => rw [hfp] at this; cases this
      | some _ => exact ⟨hwf, habs, rfl⟩
    | some n' =>
      have hnot : ¬ (lookup n p).isSome = true := by
        rw [← registerN_none n p r hwf, hr]; simp
      rw [habs p] at hnot
      cases hfp : f p with
      | some _ => rw [hfp] at hnot; simp at hnot
      | none =>
        refine ⟨registerN_wf n p r n' hwf hr, ?_, rfl⟩
        intro q
        rw [registerN_lookup n p r n' hwf hr q, habs q]
  | unreg p =>
    simp only [stepTree, stepMap, RegMap.unregister]
    cases hr : unregisterN n p with
    | none =>
      have := (unregisterN_none n p hwf).1 hr
      rw [habs p] at this
      refine ⟨hwf, ?_, by simp [this]⟩
      intro q
      by_cases hq : q = p
      · subst hq; simp [habs q, this]
      · simp [hq, habs q]
    | some n' =>
      have hnot : ¬ lookup n p = none := by
        rw [← unregisterN_none n p hwf, hr]; simp
      rw [habs p] at hnot
      refine ⟨unregisterN_wf n p n' hwf hr, ?_, ?_⟩
      · intro q
        rw [unregisterN_lookup n p n' hwf hr q, habs q]
      · cases hfp : f p with
        | none => exact absurd hfp hnot
        | some _ => rfl

theorem empty_wf : WF Node.empty := by simp [Node.empty, WF, SortedKeys, WFL]

theorem empty_lookup (q : Path) : lookup Node.empty q = RegMap.empty q := by
  cases q with
  | nil => rfl
  | cons e q => simp [lookup_cons', Node.empty, Node.children, lookupL_nil, RegMap.empty]

/-- **Refinement over every history**: after any sequence of register / register-fallback /
    unregister calls the trie is well-formed and denotes exactly the registration map the
    specification reaches. -/
theorem tree_refines_set (ops : List Op) :
    WF (runTree ops) ∧ ∀ q, lookup (runTree ops) q = runMap ops q := by
  unfold runTree runMap
  suffices h : ∀ (n : Node) (f : RegMap), WF n → (∀ q, lookup n q = f q) →
      WF (ops.foldl (fun n op => (stepTree n op).1) n) ∧
      ∀ q, lookup (ops.foldl (fun n op => (stepTree n op).1) n) q =
        (ops.foldl (fun f op => (stepMap f op).1) f) q from
    h _ _ empty_wf empty_lookup
  induction ops with
  | nil => intro n f hwf habs; exact ⟨hwf, habs⟩
  | cons op ops ih =>
    intro n f hwf habs
    obtain ⟨h1, h2, _⟩ := step_refines n f op hwf habs
    exact ih _ _ h1 h2

/-- **Dispatch order** in every reachable state: a call to `p` is offered first to the handler
    registered at exactly `p`, then to the fallback handlers of successively shorter ancestor
    paths — as computed from the specification's registration map. -/
theorem dispatch_order_eq_spec (ops : List Op) (p : Path) :
    handlers (runTree ops) p = RegMap.handlers (runMap ops) p := by
  rw [handlers_eq_spec]
  have := (tree_refines_set ops).2
  unfold RegMap.handlers
  rw [this p]
  congr 2
  funext q
  rw [this q]

/-- the handlers invoked stop at the first that accepts -/
theorem invoke_stops_at_first_taker (takers hs : List Nat) :
    ∀ id, (invokeUntil takers hs).2 = some id →
      (invokeUntil takers hs).1.getLast? = some id ∧ takers.contains id = true ∧
      ∀ x ∈ (invokeUntil takers hs).1.dropLast, takers.contains x = false := by
  induction hs with
  | nil => intro id h; simp [invokeUntil] at h
  | cons h hs ih =>
    intro id hid
    simp only [invokeUntil] at hid ⊢
    by_cases ht : takers.contains h = true
    · simp only [ht, if_true] at hid ⊢
      simp only [Option.some.injEq] at hid; subst hid
      exact ⟨rfl, ht, by simp⟩
    · simp only [ht] at hid ⊢
      obtain ⟨h1, h2, h3⟩ := ih id hid
      refine ⟨?_, h2, ?_⟩
      · cases hl : (invokeUntil takers hs).1 with
        | nil => rw [hl] at h1; simp at h1
        | cons a l => rw [hl] at h1; simpa [List.getLast?_cons_cons] using h1
      · intro x hx
        cases hl : (invokeUntil takers hs).1 with
        | nil => rw [hl] at hx; simp at hx
        | cons a l =>
          rw [hl] at hx h3
          rcases List.mem_cons.1 hx with rfl | hx
          · simpa using ht
          · exact h3 x hx

/-- **Error choice** (structural form): `found_object` holds exactly when the node at `p`
    exists or a node on a proper prefix of `p` carries a set `invoke_as_fallback` flag.
    With known finding K3 the flag may be set without a fallback registration (initially on the
    root, and after unregistering a fallback); the theorem names that mechanism explicitly. -/
theorem error_choice_structural (n : Node) (p : Path) (takers : List Nat)
    (hno : (invokeUntil takers (handlers n p)).2 = none) :
    (dispatch n p takers).2 = .unknownMethod ↔
      ((lookupNode n p).isSome = true ∨
        ∃ q ∈ prefixesUp p, ∃ c, lookupNode n q = some c ∧ c.flag = true) := by
  unfold dispatch
  cases hi : invokeUntil takers (handlers n p) with
  | mk inv r =>
    rw [hi] at hno
    simp only at hno
    subst hno
    simp only
    rw [← found_iff]
    cases found n p <;> simp

/-- a fallback *registration* above `p` always yields UnknownMethod, never UnknownObject -/
theorem below_fallback_found (n : Node) (p q : Path) (id : Nat) (hq : q ∈ prefixesUp p)
    (hreg : lookup n q = some (true, id)) : found n p = true := by
  rw [found_iff]
  right
  unfold lookup at hreg
  cases hl : lookupNode n q with
  | none => rw [hl] at hreg; cases hreg
  | some c =>
    rw [hl] at hreg
    refine ⟨q, hq, c, hl, ?_⟩
    match c, hreg with
    | .mk (some _) f _, hreg =>
      simp only [Node.reg, Option.some.injEq, Prod.mk.injEq] at hreg
      simp [Node.flag, hreg.1]

/-- a registered path is always found -/
theorem registered_found (n : Node) (p : Path) (r : Reg) (hreg : lookup n p = some r) :
    found n p = true := by
  rw [found_iff]
  left
  unfold lookup at hreg
  cases hl : lookupNode n p with
  | none => rw [hl] at hreg; cases hreg
  | some c => rfl

/-- non-vacuity: a concrete history with shared prefixes, a fallback, an occupied path -/
example :
    let a : Bytes := [0x61]; let b : Bytes := [0x62]
    let ops := [Op.reg [a] (true, 1), Op.reg [a, b] (false, 2), Op.reg [a] (false, 3), Op.unreg [a, b]]
    handlers (runTree ops) [a, b, a] = [1] ∧ (stepTree (runTree ops) (Op.reg [a] (false, 3))).2 = false := by
  decide

/-! ### the child listing reflects exactly the registered tree -/

theorem findChild_some_mem : ∀ (cs : List (Bytes × Node)) (e : Bytes) (c : Node), findChild cs e = some c → (e, c) ∈ cs
  | [], _, _, h => by simp [findChild] at h
  | (k, c0) :: cs, e, c, h => by
    simp only [findChild] at h
    split at h
    · rename_i hk; simp only [Option.some.injEq] at h; subst h; subst hk; exact List.mem_cons_self
    · exact List.mem_cons_of_mem _ (findChild_some_mem cs e c h)

theorem findChild_of_mem_sorted : ∀ (cs : List (Bytes × Node)) (e : Bytes) (c : Node), SortedKeys cs → (e, c) ∈ cs →
    findChild cs e = some c
  | [], _, _, _, h => by cases h
  | (k, c0) :: cs, e, c, hs, h => by
    simp only [SortedKeys] at hs
    simp only [findChild]
    rcases List.mem_cons.mp h with heq | hmem
    · cases heq; simp
    · have hlt := hs.1 (e, c) hmem
      have hne : e ≠ k := fun he => by subst he; rw [bytesLt_irrefl] at hlt; cases hlt
      simp only [hne, if_false]
      exact findChild_of_mem_sorted cs e c hs.2 hmem

theorem wfl_mem : ∀ (cs : List (Bytes × Node)) (e : Bytes) (c : Node), WFL cs → (e, c) ∈ cs → WF c
  | [], _, _, _, h => by cases h
  | (k, c0) :: cs, e, c, hw, h => by
    simp only [WFL] at hw
    rcases List.mem_cons.mp h with heq | hmem
    · cases heq; exact hw.1
    · exact wfl_mem cs e c hw.2 hmem

theorem liveL_mem : ∀ (cs : List (Bytes × Node)) (e : Bytes) (c : Node), LiveL cs → (e, c) ∈ cs → hasReg c = true ∧ Live c
  | [], _, _, _, h => by cases h
  | (k, c0) :: cs, e, c, hl, h => by
    simp only [LiveL] at hl
    rcases List.mem_cons.mp h with heq | hmem
    · cases heq; exact ⟨hl.1, hl.2.1⟩
    · exact liveL_mem cs e c hl.2.2 hmem

theorem listChildren_cons (n : Node) (x : Bytes) (p : Path) :
    listChildren n (x :: p) = match findChild n.children x with | some c => listChildren c p | none => [] := by
  unfold listChildren
  simp only [lookupNode]
  cases findChild n.children x <;> rfl

/-- in a well-formed trie without dead branches, the names listed below `p` are exactly the next path
    elements of the registrations strictly below `p` -/
theorem children_iff : ∀ (p : Path) (n : Node), WF n → Live n → ∀ e,
    (e ∈ listChildren n p ↔ ∃ q r, lookup n (p ++ e :: q) = some r)
  | [], n, hwf, hlv, e => by
    obtain ⟨h, f, cs⟩ := n
    simp only [WF] at hwf
    simp only [Live] at hlv
    simp only [listChildren, lookupNode, Node.children, List.nil_append, lookup_cons', List.mem_map]
    constructor
    · rintro ⟨⟨k, c⟩, hmem, rfl⟩
      obtain ⟨hr, _⟩ := liveL_mem cs k c hlv hmem
      obtain ⟨q, r, hq⟩ := hasReg_lookup c (wfl_mem cs k c hwf.2 hmem) hr
      exact ⟨q, r, by unfold lookupL; rw [findChild_of_mem_sorted cs k c hwf.1 hmem]; exact hq⟩
    · rintro ⟨q, r, hq⟩
      unfold lookupL at hq
      cases hf : findChild cs e with
      | none => rw [hf] at hq; cases hq
      | some c => exact ⟨(e, c), findChild_some_mem cs e c hf, rfl⟩
  | x :: p, n, hwf, hlv, e => by
    obtain ⟨h, f, cs⟩ := n
    simp only [WF] at hwf
    simp only [Live] at hlv
    rw [listChildren_cons]
    simp only [Node.children, List.cons_append, lookup_cons']
    unfold lookupL
    cases hf : findChild cs x with
    | none => simp
    | some c =>
      have hmem := findChild_some_mem cs x c hf
      exact children_iff p c (wfl_mem cs x c hwf.2 hmem) (liveL_mem cs x c hlv hmem).2 e

theorem stepTree_live (n : Node) (op : Op) (h : Live n) : Live (stepTree n op).1 := by
  cases op with
  | reg p r =>
    simp only [stepTree]
    cases hr : registerN n p r with
    | none => exact h
    | some n' => exact registerN_live n p r n' h hr
  | unreg p =>
    simp only [stepTree]
    cases hr : unregisterN n p with
    | none => exact h
    | some n' => exact unregisterN_live n p n' h hr

/-- no reachable trie has a dead branch: unregistration prunes what registration created -/
theorem no_dead_branch (ops : List Op) : Live (runTree ops) := by
  unfold runTree
  suffices h : ∀ (n : Node), Live n → Live (ops.foldl (fun n op => (stepTree n op).1) n) from
    h _ (by simp [Node.empty, Live, LiveL])
  induction ops with
  | nil => intro n h; exact h
  | cons op ops ih => intro n h; exact ih _ (stepTree_live n op h)

/-- **The child listing reflects exactly the registered tree**, in every reachable state: `e` is listed
    below `p` iff some registration of the specification's map lies at `p/e` or below it. -/
theorem children_eq_spec (ops : List Op) (p : Path) (e : Bytes) :
    e ∈ listChildren (runTree ops) p ↔ ∃ q r, runMap ops (p ++ e :: q) = some r := by
  obtain ⟨hwf, habs⟩ := tree_refines_set ops
  rw [children_iff p _ hwf (no_dead_branch ops) e]
  constructor
  · rintro ⟨q, r, h⟩; exact ⟨q, r, by rw [← habs]; exact h⟩
  · rintro ⟨q, r, h⟩; exact ⟨q, r, by rw [habs]; exact h⟩


end Dbus.Props.C20
